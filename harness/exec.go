package main

import (
	"bufio"
	"fmt"
	"runtime"
	"sort"
	"strconv"
	"strings"
	"unsafe"

	"github.com/mlange-42/ark/ecs"
)

// H executes op lines against the real ecs package and prints the canonical trace.
type H struct {
	w        *ecs.World
	side     *ecs.World // a second world that only ever sees rejected registrations
	cscratch []ecs.Comp // one buffer for every component list handed to a variadic API (a client may do the same)
	u        ecs.Unsafe
	out      *bufio.Writer
	lineNo   int
	lastOK   bool
	lastRes  string
	typedBad string
	snap     bool
	maxComp  int

	labels     map[int]ecs.Entity
	oldLabels  map[int]ecs.Entity
	labelOrder []int
	names      map[ecs.Entity]int

	comps    map[int]*regComp // by name
	compByID map[uint8]*regComp
	compOrd  []int
	shadow   *shadowWorld
	regLog   []int // registration order: n >= 0 static component n, n < 0 filler type -n-1
	fillers  int

	filters map[int]*filterObj
	obs     map[int]*obsObj
	queries map[int]*queryObj
	dumps   map[int]*dumpObj
	res     map[int]bool

	log []logRec

	// statistics about the run, for evidence
	opCount    map[string]int
	panicCount map[string]int
}

type dumpObj struct {
	d      ecs.EntityDump
	labels map[int]ecs.Entity
	order  []int
}

type regComp struct {
	info *compInfo
	id   ecs.ID
	m    mapAPI
}

type filterObj struct {
	typed  bool
	f0     *ecs.Filter0
	uf     ecs.UnsafeFilter
	ids    []ecs.ID
	names  []int
	mask   map[uint8]bool
	tf     typedFilter // optional generated typed filter
	cached bool
}

type obsObj struct {
	o      *ecs.Observer
	t      typedObserver // set instead of o for an observer built with Observe1-4
	reg    bool          // registered in the harness's world (as far as the harness knows)
	script []string
}

func (oo *obsObj) register(w *ecs.World) {
	if oo.t != nil {
		oo.t.Register(w)
	} else {
		oo.o.Register(w)
	}
}

func (oo *obsObj) unregister(w *ecs.World) {
	if oo.t != nil {
		oo.t.Unregister(w)
	} else {
		oo.o.Unregister(w)
	}
}

// regMain / unregMain: (un)registration in the harness's world, with the bookkeeping for `elsewhere`
func (h *H) regMain(oo *obsObj) {
	oo.register(h.w)
	oo.reg = true
}

func (h *H) unregMain(oo *obsObj) {
	oo.unregister(h.w)
	oo.reg = false
}

// elsewhere: an observer that is registered in the harness's world is offered to ANOTHER world, where
// the component types have other IDs.  The call must be rejected ("already registered") and leave the
// observer as it is — in particular the typed observers must keep addressing the first world (defect
// D25).  Nothing is logged.  Should the registration succeed (the harness's bookkeeping can be behind
// after a Reset inside a callback), it is undone.
func (h *H) elsewhere(oo *obsObj) {
	if !oo.reg {
		return
	}
	if h.side == nil {
		h.side = ecs.NewWorld(4)
	}
	if try(func() { oo.register(h.side) }) == "" {
		_ = try(func() { oo.unregister(h.side) })
	}
}

type queryObj struct {
	f  *filterObj
	q0 *ecs.Query0
	uq *ecs.UnsafeQuery
	tq typedQuery
}

type logRec struct {
	kind    string
	a, b, c int
	e       ecs.Entity
	s       string
	class   string
	comps   []cv
	locked  bool
	alive   bool
}

type cv struct {
	name   int
	v      int64
	hasT   bool
	target ecs.Entity
	bad    bool
}

func newH(out *bufio.Writer) *H {
	h := &H{out: out, opCount: map[string]int{}, panicCount: map[string]int{}}
	h.resetWorld(1024, 128, 256, true)
	return h
}

func (h *H) resetWorld(cap_, rel, maxc int, snap bool) {
	h.w = ecs.NewWorld(cap_, rel)
	h.u = h.w.Unsafe()
	h.snap = snap
	h.maxComp = maxc
	h.labels = map[int]ecs.Entity{}
	h.oldLabels = nil
	h.labelOrder = nil
	h.names = map[ecs.Entity]int{}
	h.comps = map[int]*regComp{}
	h.compByID = map[uint8]*regComp{}
	h.compOrd = nil
	h.regLog = nil
	h.shadow = nil
	h.fillers = 0
	h.filters = map[int]*filterObj{}
	h.obs = map[int]*obsObj{}
	h.queries = map[int]*queryObj{}
	h.dumps = map[int]*dumpObj{}
	h.res = map[int]bool{}
	h.log = nil
}

// ---------- panic classification ----------

var panicClasses = []struct{ sub, class string }{
	{"cannot modify a locked world", "locked"},
	{"attempt to register a new component in a locked world", "registerLocked"},
	{"dead entity as relation target", "deadTarget"},
	{"can't emit an event for a dead entity", "emitDead"},
	{"dead entity", "deadEntity"},
	{"already has component", "alreadyHas"},
	{"entity does not have component with ID", "missing"},
	{"entity does not have the requested component", "missing"},
	{"added and removed in the same exchange", "addedAndRemoved"},
	{"at least one component required", "noComponents"},
	{"no relations specified", "noRelations"},
	{"relation targets must be fully specified", "relUnspecified"},
	{"specified more than once", "relTwice"},
	{"non-relation component", "obsNonRelation"},
	{"is not a relation component", "notRelation"},
	{"was not specified in the filter or map", "relNotInMask"},
	{"is not among the added components", "relNotInMask"},
	{"entity has no component of type", "noRelComponent"},
	{"unbalanced unlock", "unbalancedUnlock"},
	{"run out of the maximum of", "outOfLocks"},
	{"exceeded the maximum of", "registryFull"},
	{"observer is already registered", "obsRegistered"},
	{"observer is not registered", "obsNotRegistered"},
	{"can't unregister observer, not found", "obsNotRegistered"},
	{"observer callback must be set", "obsNoCallback"},
	{"filter is already registered", "filterRegistered"},
	{"filter is not registered", "filterNotRegistered"},
	{"no filter for id found", "filterNotRegistered"},
	{"can't modify a cached filter", "filterModify"},
	{"that was already queried", "filterModify"},
	{"only on a fresh or reset world", "notEmptyWorld"},
	{"out of bounds for query", "outOfBounds"},
	{"can't emit event with components for the zero entity", "emitZeroComps"},
	{"entity does not have the required event components", "emitMissing"},
	{"only custom events can be emitted manually", "emitPredefined"},
	{"query iteration already finished", "queryDone"},
	{"query already iterated or iteration not started", "queryGet"},
	{"can't recycle reserved", "recycleReserved"},
	{"Resource of ID", "resource"},
}

func classify(r any) string {
	if _, ok := r.(runtime.Error); ok {
		return "runtime"
	}
	var msg string
	switch v := r.(type) {
	case string:
		msg = v
	case error:
		msg = v.Error()
	default:
		msg = fmt.Sprint(v)
	}
	for _, pc := range panicClasses {
		if strings.Contains(msg, pc.sub) {
			return pc.class
		}
	}
	return "other:" + msg
}

// try runs fn and returns "" or the panic class.
func try(fn func()) (class string) {
	defer func() {
		if r := recover(); r != nil {
			class = classify(r)
		}
	}()
	fn()
	return ""
}

// ---------- parsing (mirrors Driver/Main.lean) ----------

func numOf(s string) (int, bool) {
	if len(s) < 2 {
		return 0, false
	}
	n, err := strconv.Atoi(s[1:])
	if err != nil || n < 0 {
		return 0, false
	}
	return n, true
}

func optVal(toks []string, key string) (string, bool) {
	for _, t := range toks {
		if strings.HasPrefix(t, key+"=") {
			return t[len(key)+1:], true
		}
	}
	return "", false
}

func hasFlag(toks []string, flag string) bool {
	for _, t := range toks {
		if t == flag {
			return true
		}
	}
	return false
}

func splitList(s string) []string {
	if s == "" {
		return nil
	}
	return strings.Split(s, ",")
}

type compTok struct {
	name   int
	val    int64
	hasVal bool
	target string
	sign   byte
}

func parseCompTok(s string) (compTok, bool) {
	ct := compTok{sign: ' '}
	if strings.HasPrefix(s, "+") {
		ct.sign = '+'
		s = s[1:]
	} else if strings.HasPrefix(s, "-") {
		ct.sign = '-'
		s = s[1:]
	}
	if parts := strings.Split(s, ">"); len(parts) == 2 {
		s = parts[0]
		ct.target = parts[1]
	}
	if parts := strings.Split(s, ":"); len(parts) == 2 {
		s = parts[0]
		if v, err := strconv.ParseInt(parts[1], 10, 64); err == nil && v >= 0 {
			ct.val = v
			ct.hasVal = true
		}
	}
	if !strings.HasPrefix(s, "c") {
		return ct, false
	}
	n, ok := numOf(s)
	if !ok {
		return ct, false
	}
	ct.name = n
	return ct, true
}

func (h *H) entOf(tok string) (ecs.Entity, bool) {
	if tok == "z" {
		return ecs.Entity{}, true
	}
	n, ok := numOf(tok)
	if !ok {
		return ecs.Entity{}, false
	}
	e, ok := h.labels[n]
	return e, ok
}

type relArg struct {
	comp   *regComp
	target ecs.Entity
}

type compArgs struct {
	comps []*regComp
	vals  map[int]int64 // by name
	rels  []relArg
	rem   []*regComp
}

func (h *H) compArgs(toks []string) (*compArgs, bool) {
	a := &compArgs{vals: map[int]int64{}}
	for _, tok := range toks {
		if strings.HasPrefix(tok, "r") {
			// `rN>target`: an additional relation target without a component (duplicate/foreign relation IDs)
			ct, ok := parseCompTok("c" + tok[1:])
			if !ok || ct.target == "" {
				return nil, false
			}
			rc, ok := h.comps[ct.name]
			if !ok {
				return nil, false
			}
			t, ok := h.entOf(ct.target)
			if !ok {
				return nil, false
			}
			a.rels = append(a.rels, relArg{rc, t})
			continue
		}
		if !(strings.HasPrefix(tok, "c") || strings.HasPrefix(tok, "+c") || strings.HasPrefix(tok, "-c")) {
			continue
		}
		ct, ok := parseCompTok(tok)
		if !ok {
			return nil, false
		}
		rc, ok := h.comps[ct.name]
		if !ok {
			return nil, false
		}
		if ct.sign == '-' {
			a.rem = append(a.rem, rc)
			continue
		}
		if ct.target != "" {
			t, ok := h.entOf(ct.target)
			if !ok {
				return nil, false
			}
			a.rels = append(a.rels, relArg{rc, t})
		}
		a.comps = append(a.comps, rc)
		if ct.hasVal {
			a.vals[ct.name] = ct.val
		}
	}
	return a, true
}

func (h *H) relList(s string) ([]relArg, bool) {
	var out []relArg
	for _, tok := range splitList(s) {
		ct, ok := parseCompTok(tok)
		if !ok || ct.target == "" {
			return nil, false
		}
		rc, ok := h.comps[ct.name]
		if !ok {
			return nil, false
		}
		t, ok := h.entOf(ct.target)
		if !ok {
			return nil, false
		}
		out = append(out, relArg{rc, t})
	}
	return out, true
}

func (h *H) compList(s string) ([]*regComp, bool) {
	var out []*regComp
	for _, tok := range splitList(s) {
		ct, ok := parseCompTok(tok)
		if !ok {
			return nil, false
		}
		rc, ok := h.comps[ct.name]
		if !ok {
			return nil, false
		}
		out = append(out, rc)
	}
	return out, true
}

func idsOf(cs []*regComp) []ecs.ID {
	out := make([]ecs.ID, len(cs))
	for i, c := range cs {
		out[i] = c.id
	}
	return out
}

func relsOf(rs []relArg) []ecs.Relation {
	out := make([]ecs.Relation, len(rs))
	for i, r := range rs {
		out[i] = ecs.RelID(r.comp.id, r.target)
	}
	return out
}

// ---------- printing ----------

func (h *H) entName(e ecs.Entity) string {
	if e == (ecs.Entity{}) {
		return "z"
	}
	if l, ok := h.names[e]; ok {
		return "e" + strconv.Itoa(l)
	}
	return fmt.Sprintf("?%d.%d", e.ID(), e.Gen())
}

func handle(e ecs.Entity) string { return fmt.Sprintf("%d.%d", e.ID(), e.Gen()) }

func (h *H) compName(id uint8) string {
	if rc, ok := h.compByID[id]; ok {
		return "c" + strconv.Itoa(rc.info.name)
	}
	return "#" + strconv.Itoa(int(id))
}

func (h *H) fmtComps(cs []cv) string {
	var sb strings.Builder
	for i, c := range cs {
		if i > 0 {
			sb.WriteByte(',')
		}
		if c.name >= 0 {
			sb.WriteString("c" + strconv.Itoa(c.name))
		} else {
			sb.WriteString("#" + strconv.Itoa(-c.name-1))
		}
		sb.WriteByte('=')
		if c.bad {
			sb.WriteString("BAD")
		}
		sb.WriteString(strconv.FormatInt(c.v, 10))
		if c.hasT {
			sb.WriteByte('>')
			sb.WriteString(h.entName(c.target))
		}
	}
	return sb.String()
}

// readEntity reads the given components (nil = all, ascending ID) of an alive entity.
func (h *H) readEntity(e ecs.Entity, only []ecs.ID) []cv {
	var ids []ecs.ID
	if only != nil {
		ids = only
	} else {
		all := h.u.IDs(e)
		for i := 0; i < all.Len(); i++ {
			ids = append(ids, all.Get(i))
		}
		sort.Slice(ids, func(i, j int) bool { return ids[i].Index() < ids[j].Index() })
	}
	var out []cv
	for _, id := range ids {
		rc, ok := h.compByID[id.Index()]
		if !ok {
			out = append(out, cv{name: -int(id.Index()) - 1})
			continue
		}
		c := cv{name: rc.info.name}
		if !h.u.Has(e, id) {
			out = append(out, c)
			continue
		}
		// alternate between the access paths: Unsafe.Get and Map[T].Get
		if (int(e.ID())+int(id.Index())+h.lineNo)%2 == 0 {
			p := h.u.Get(e, id)
			v := rc.info.at(p)
			c.v = v.GetV()
			c.bad = !v.Check()
		} else {
			v, _, chk := rc.m.Get(e)
			c.v = v
			c.bad = !chk
		}
		if rc.info.kind == "rel" {
			c.hasT = true
			c.target = h.u.GetRelation(e, id)
		}
		out = append(out, c)
	}
	return out
}

func (h *H) fmtEntity(e ecs.Entity, only []ecs.ID) string {
	var body string
	if class := try(func() { body = h.fmtComps(h.readEntity(e, only)) }); class != "" {
		body = "!" + class
	}
	return h.entName(e) + "{" + body + "}"
}

func b2i(b bool) int {
	if b {
		return 1
	}
	return 0
}

func (h *H) fmtLog(r logRec) string {
	switch r.kind {
	case "cb":
		return fmt.Sprintf("  cb o%d %s", r.a, h.entName(r.e))
	case "look":
		return fmt.Sprintf("  look alive=%d locked=%d %s%s", b2i(r.alive), b2i(r.locked), r.s, h.fmtComps(r.comps))
	case "q":
		return fmt.Sprintf("  q f%d total=%d occ=%d", r.a, r.b, r.c)
	case "act":
		res := "ok"
		if r.class != "" {
			res = r.class
		}
		return fmt.Sprintf("  act %s %s", r.s, res)
	case "badptr":
		return fmt.Sprintf("  badptr o%d %s", r.a, h.entName(r.e))
	case "fn":
		return fmt.Sprintf("  fn %s locked=%d %s", h.entName(r.e), b2i(r.locked), h.fmtComps(r.comps))
	}
	return "  ?"
}

func (h *H) emit(res string) {
	fmt.Fprintf(h.out, "#%d %s\n", h.lineNo, res)
	for _, r := range h.log {
		fmt.Fprintln(h.out, h.fmtLog(r))
	}
	h.log = h.log[:0]
	if h.snap {
		var sb strings.Builder
		sb.WriteString("  S ")
		first := true
		for _, l := range h.labelOrder {
			e := h.labels[l]
			if !h.w.Alive(e) {
				continue
			}
			if !first {
				sb.WriteByte(' ')
			}
			first = false
			sb.WriteString(h.fmtEntity(e, nil))
		}
		fmt.Fprintln(h.out, sb.String())
	}
	h.out.Flush()
}

func (h *H) result(class string, okStr string) {
	h.lastOK = class == ""
	h.lastRes = okStr
	if h.typedBad != "" {
		okStr += h.typedBad
		h.typedBad = ""
	}
	// the value variants of the typed API against the ID-based reads (once per process; typed.go)
	if bad := selfCheckTyped(); bad != "" && class == "" {
		okStr += bad
	}
	if class != "" {
		h.panicCount[class]++
		h.emit("panic " + class)
		return
	}
	if okStr == "" {
		h.emit("ok")
	} else {
		h.emit("ok " + okStr)
	}
}

func (h *H) addLabel(l int, e ecs.Entity) {
	h.oldLabels = nil
	h.labels[l] = e
	h.labelOrder = append(h.labelOrder, l)
	h.names[e] = l
}

// newEpoch: Reset re-issues the same handles, so the labels of the previous epoch are only
// usable by `alive`, until the next creation.
func (h *H) newEpoch() {
	h.labelOrder = nil
	h.names = map[ecs.Entity]int{}
	h.oldLabels = h.labels
	h.labels = map[int]ecs.Entity{}
}

// ---------- callbacks ----------

// shadowStep runs the fixed workload on the independent second world (see shadow.go).
func (h *H) shadowStep() bool {
	if h.shadow == nil {
		h.shadow = newShadow()
	}
	return h.shadow.step()
}

func (h *H) runProbe(self int, e ecs.Entity, p string) {
	parts := strings.Split(p, ":")
	switch parts[0] {
	case "look":
		r := logRec{kind: "look", locked: h.w.IsLocked()}
		r.alive = h.w.Alive(e)
		if !h.shadowStep() {
			r.s = "!BAD shadow world"
		}
		if r.alive {
			if class := try(func() { r.comps = h.readEntity(e, nil) }); class != "" {
				r.comps = nil
				r.s = "!" + class
			}
		}
		h.log = append(h.log, r)
	case "q":
		f, _ := numOf(parts[1])
		fo, ok := h.filters[f]
		if !ok {
			// mirrors the model: an unknown filter label is the empty default filter object
			fo = &filterObj{typed: true, f0: ecs.NewFilter0(h.w)}
		}
		total, occ := 0, 0
		class := try(func() {
			q := h.openQuery(fo, nil)
			for q.next() {
				total++
				if q.entity() == e {
					occ++
				}
			}
		})
		if class != "" {
			h.log = append(h.log, logRec{kind: "act", s: "query", class: class})
		} else {
			h.log = append(h.log, logRec{kind: "q", a: f, b: total, c: occ})
		}
	case "unreg":
		o, _ := numOf(parts[1])
		class := "obsNotRegistered"
		if oo, ok := h.obs[o]; ok {
			class = try(func() { h.unregMain(oo) })
		}
		h.log = append(h.log, logRec{kind: "act", s: "unreg", class: class})
	case "reg":
		o, _ := numOf(parts[1])
		class := "obsNotRegistered"
		if oo, ok := h.obs[o]; ok {
			class = try(func() { h.regMain(oo) })
		}
		h.log = append(h.log, logRec{kind: "act", s: "reg", class: class})
	case "trynew":
		class := try(func() {
			ne := h.w.NewEntity()
			h.w.RemoveEntity(ne)
		})
		h.log = append(h.log, logRec{kind: "act", s: "tryNew", class: class})
	}
}

// ---------- queries ----------

type anyQuery struct {
	q0 *ecs.Query0
	uq *ecs.UnsafeQuery
	tq typedQuery
}

func (q anyQuery) next() bool {
	switch {
	case q.q0 != nil:
		return q.q0.Next()
	case q.uq != nil:
		return q.uq.Next()
	}
	return q.tq.Next()
}
func (q anyQuery) entity() ecs.Entity {
	switch {
	case q.q0 != nil:
		return q.q0.Entity()
	case q.uq != nil:
		return q.uq.Entity()
	}
	return q.tq.Entity()
}
func (q anyQuery) count() int {
	switch {
	case q.q0 != nil:
		return q.q0.Count()
	case q.uq != nil:
		return q.uq.Count()
	}
	return q.tq.Count()
}
func (q anyQuery) entityAt(i int) ecs.Entity {
	switch {
	case q.q0 != nil:
		return q.q0.EntityAt(i)
	case q.uq != nil:
		return q.uq.EntityAt(i)
	}
	return q.tq.EntityAt(i)
}
func (q anyQuery) close() {
	switch {
	case q.q0 != nil:
		q.q0.Close()
	case q.uq != nil:
		q.uq.Close()
	default:
		q.tq.Close()
	}
}

func (h *H) openQuery(fo *filterObj, extra []relArg) anyQuery {
	rels := relsOf(extra)
	if fo.tf != nil {
		return anyQuery{tq: fo.tf.Query(rels...)}
	}
	if fo.typed {
		q := fo.f0.Query(rels...)
		return anyQuery{q0: &q}
	}
	q := fo.uf.Query(rels...)
	return anyQuery{uq: &q}
}

// current row of an open query, printed like an entity
func (h *H) fmtQueryRow(fo *filterObj, q anyQuery) string {
	e := q.entity()
	var cs []cv
	if q.tq != nil {
		cs = q.tq.Row(h)
	} else {
		for i, id := range fo.ids {
			rc := h.compByID[id.Index()]
			c := cv{name: fo.names[i]}
			var v valued
			if q.uq != nil {
				v = rc.info.at(q.uq.Get(id))
			} else {
				v = rc.info.at(h.u.Get(e, id))
			}
			c.v = v.GetV()
			c.bad = !v.Check()
			if rc.info.kind == "rel" {
				c.hasT = true
				if q.uq != nil {
					c.target = q.uq.GetRelation(id)
				} else {
					c.target = h.u.GetRelation(e, id)
				}
			}
			cs = append(cs, c)
		}
	}
	return h.entName(e) + "{" + h.fmtComps(cs) + "}"
}

// ---------- batch callbacks ----------

func (h *H) batchFn(a *compArgs, write bool) func(e ecs.Entity, ps []valued, names []int) {
	return func(e ecs.Entity, ps []valued, names []int) {
		r := logRec{kind: "fn", e: e, locked: h.w.IsLocked()}
		for i, p := range ps {
			nm := names[i]
			if _, ok := a.vals[nm]; !ok {
				continue
			}
			r.comps = append(r.comps, cv{name: nm, v: p.GetV(), bad: !p.Check()})
		}
		if !h.shadowStep() {
			r.comps = append(r.comps, cv{name: -1, bad: true})
		}
		h.log = append(h.log, r)
		h.provoke(e)
		if write {
			for i, p := range ps {
				if v, ok := a.vals[names[i]]; ok {
					p.SetV(v)
				}
			}
		}
	}
}

// provoke: from inside a callback, while the world is locked, a structural call on every shared
// single-component mapper of a relation component. Each must be rejected WITHOUT effect — in particular
// without effect on the operation that is running the callback, which may be using the same mapper
// (its cached relation buffer). Nothing is logged: a correct implementation shows no trace of these
// calls; an effect shows up as a divergence from the model later (defect D23).
func (h *H) provoke(e ecs.Entity) {
	if !h.w.IsLocked() || !h.w.Alive(e) {
		return
	}
	names := make([]int, 0, len(h.comps))
	for n := range h.comps {
		names = append(names, n)
	}
	sort.Ints(names)
	for _, n := range names {
		rc := h.comps[n]
		if rc.info.kind != "rel" {
			continue
		}
		func() {
			defer func() { _ = recover() }()
			rc.m.SetRelation(e, e)
		}()
	}
}

var _ = unsafe.Pointer(nil)

// scratchComps builds the component list in a buffer that is shared by all calls: For/With/Without/
// Removes take variadic lists and must not keep the caller's slice.  After the call returns the harness
// overwrites the buffer with the next list — with a correct implementation that is invisible.
func (h *H) scratchComps(cs []*regComp) []ecs.Comp {
	if cap(h.cscratch) < 16 {
		h.cscratch = make([]ecs.Comp, 0, 16)
	}
	out := h.cscratch[:0]
	for _, c := range cs {
		out = append(out, c.info.c)
	}
	return out
}

// poisonComps overwrites the shared buffer with other components (all registered ones, highest ID first)
func (h *H) poisonComps() {
	var ids []int
	for id := range h.compByID {
		ids = append(ids, int(id))
	}
	sort.Sort(sort.Reverse(sort.IntSlice(ids)))
	buf := h.cscratch[:cap(h.cscratch)]
	for i := range buf {
		if len(ids) > 0 {
			buf[i] = h.compByID[uint8(ids[i%len(ids)])].info.c
		}
	}
}

// rejectedQueries issues query creations that the implementation must reject while converting their
// arguments; nothing is logged — a correct implementation shows no trace (the lock state in particular)
func (h *H) rejectedQueries() {
	uf := ecs.NewUnsafeFilter(h.w)
	_ = try(func() { q := uf.Query(ecs.RelIdx(0, ecs.Entity{})); q.Close() })
	for _, id := range h.sortedCompIDs() {
		rc := h.compByID[id]
		if rc.info.kind != "rel" {
			// a relation target for a component that is not a relation component, through a typed filter
			_ = try(func() { q := ecs.NewFilter0(h.w).Query(ecs.RelID(rc.id, ecs.Entity{})); q.Close() })
			break
		}
	}
}

func (h *H) sortedCompIDs() []uint8 {
	var ids []int
	for id := range h.compByID {
		ids = append(ids, int(id))
	}
	sort.Ints(ids)
	out := make([]uint8, len(ids))
	for i, v := range ids {
		out[i] = uint8(v)
	}
	return out
}
