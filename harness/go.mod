module arkharness

go 1.24

require github.com/mlange-42/ark v0.0.0

replace github.com/mlange-42/ark => /repo
