package main

import (
	"fmt"
	"math/rand"
	"runtime"
	"runtime/debug"
	"sync/atomic"
	"time"

	"github.com/mlange-42/ark/ecs"
)

// payload is heap data referenced only through a component.
type payload struct {
	v   int64
	pad [4]int64
}

// PC is a pointer-bearing component whose pointee carries a finalizer.
type PC struct {
	V int64
	P *payload
}

// runGCSoak is the C11 validation run: pointer-bearing components are moved between tables,
// tables grow, shrink, are reset and recycled while the garbage collector runs aggressively.
// Checks: every live component still points to its own, unchanged data; data referenced only by
// removed components becomes collectable (its finalizer runs).
func runGCSoak(seed int64, rounds int) int {
	old := debug.SetGCPercent(1)
	defer debug.SetGCPercent(old)
	rng := rand.New(rand.NewSource(seed))
	failures := 0
	fail := func(format string, args ...any) {
		failures++
		if failures <= 10 {
			fmt.Printf("FAIL "+format+"\n", args...)
		}
	}
	var created, finalized atomic.Int64
	mk := func(v int64) *payload {
		p := &payload{v: v}
		created.Add(1)
		runtime.SetFinalizer(p, func(*payload) { finalized.Add(1) })
		return p
	}
	for round := 0; round < rounds; round++ {
		w := ecs.NewWorld(1+rng.Intn(4), 1+rng.Intn(2))
		mp := ecs.NewMap1[PC](w)
		mpa := ecs.NewMap2[PC, C0](w)
		ma := ecs.NewMap1[C0](w)
		mr := ecs.NewMap2[PC, C4](w)
		var ents []ecs.Entity
		want := map[ecs.Entity]int64{}
		parent := w.NewEntity()
		next := int64(1)
		check := func(where string) {
			for e, v := range want {
				pc := mp.Get(e)
				if pc == nil || pc.P == nil || pc.V != v || pc.P.v != v {
					fail("round %d %s: entity %v lost its pointer data (want %d)", round, where, e, v)
					return
				}
			}
		}
		for step := 0; step < 120; step++ {
			switch rng.Intn(9) {
			case 0, 1:
				v := next
				next++
				var e ecs.Entity
				switch rng.Intn(3) {
				case 0:
					e = mp.NewEntity(&PC{V: v, P: mk(v)})
				case 1:
					e = mpa.NewEntity(&PC{V: v, P: mk(v)}, &C0{V: v})
				default:
					e = mr.NewEntity(&PC{V: v, P: mk(v)}, &C4{V: v}, ecs.RelIdx(1, parent))
				}
				ents = append(ents, e)
				want[e] = v
			case 2:
				if len(ents) > 0 {
					i := rng.Intn(len(ents))
					e := ents[i]
					if !ma.HasAll(e) {
						ma.Add(e, &C0{V: 7})
					} else {
						ma.Remove(e)
					}
				}
			case 3, 4:
				if len(ents) > 0 {
					i := rng.Intn(len(ents))
					w.RemoveEntity(ents[i])
					delete(want, ents[i])
					ents = append(ents[:i], ents[i+1:]...)
				}
			case 5:
				w.Shrink()
			case 6:
				runtime.GC()
				check("after GC")
			case 7:
				if len(ents) > 0 && rng.Intn(4) == 0 {
					// remove the pointer component only
					i := rng.Intn(len(ents))
					e := ents[i]
					if ma.HasAll(e) {
						mp.Remove(e)
						delete(want, e)
						ents = append(ents[:i], ents[i+1:]...)
						w.RemoveEntity(e)
					}
				}
			default:
				check("step")
			}
		}
		check("end of round")
		live := int64(len(want))
		// everything not referenced by a live component must become collectable
		w.Reset()
		for i := 0; i < 6; i++ {
			runtime.GC()
		}
		_ = live
		runtime.KeepAlive(w)
	}
	// finalizers run asynchronously on their own goroutine: give them time (bounded)
	for i := 0; i < 300; i++ {
		runtime.GC()
		if finalized.Load()*10 >= created.Load()*8 {
			break
		}
		time.Sleep(10 * time.Millisecond)
	}
	c, f := created.Load(), finalized.Load()
	// finalizers run asynchronously; after several cycles nearly everything must be gone
	if c > 0 && f*10 < c*8 {
		fail("only %d of %d payloads referenced by removed components were collected", f, c)
	}
	if failures == 0 {
		fmt.Printf("ok rounds=%d payloads=%d collected=%d\n", rounds, c, f)
		return 0
	}
	return 1
}
