package main

import (
	"bufio"
	"flag"
	"fmt"
	"os"
)

func main() {
	mode := flag.String("mode", "replay", "replay | gen")
	opsFile := flag.String("ops", "", "ops file (replay: input, default stdin; gen: output)")
	traceFile := flag.String("trace", "", "trace output (default stdout)")
	seed := flag.Int64("seed", 1, "PRNG seed")
	nseq := flag.Int("nseq", 50, "gen: number of sequences")
	nops := flag.Int("nops", 100, "gen: operations per sequence")
	profile := flag.String("profile", "generic", "gen: generator profile")
	statsFile := flag.String("stats", "", "gen: write generator statistics (JSON) here")
	repeat := flag.Int("repeat", 1, "replay: run the history this many times in one process")
	flag.Parse()

	out := os.Stdout
	if *traceFile != "" {
		f, err := os.Create(*traceFile)
		if err != nil {
			fmt.Fprintln(os.Stderr, err)
			os.Exit(2)
		}
		defer f.Close()
		out = f
	}
	w := bufio.NewWriterSize(out, 1<<16)
	defer w.Flush()
	h := newH(w)

	switch *mode {
	case "conc":
		w.Flush()
		os.Exit(runConc(*seed, *nseq))
	case "gcsoak":
		w.Flush()
		os.Exit(runGCSoak(*seed, *nseq))
	case "replay":
		in := os.Stdin
		if *opsFile != "" {
			f, err := os.Open(*opsFile)
			if err != nil {
				fmt.Fprintln(os.Stderr, err)
				os.Exit(2)
			}
			defer f.Close()
			in = f
		}
		sc := bufio.NewScanner(in)
		sc.Buffer(make([]byte, 1<<20), 1<<24)
		var lines []string
		for sc.Scan() {
			lines = append(lines, sc.Text())
			h.Step(sc.Text())
		}
		// -repeat n: run the same history again on fresh worlds in this process (C12)
		for r := 1; r < *repeat; r++ {
			fmt.Fprintf(w, "=== repeat %d\n", r)
			h2 := newH(w)
			for _, l := range lines {
				h2.Step(l)
			}
		}
	case "gen":
		if *opsFile == "" {
			fmt.Fprintln(os.Stderr, "gen needs -ops")
			os.Exit(2)
		}
		f, err := os.Create(*opsFile)
		if err != nil {
			fmt.Fprintln(os.Stderr, err)
			os.Exit(2)
		}
		defer f.Close()
		ow := bufio.NewWriter(f)
		defer ow.Flush()
		g := newGen(h, ow, *seed, *profile)
		g.Run(*nseq, *nops)
		if *statsFile != "" {
			g.WriteStats(*statsFile)
		}
	default:
		fmt.Fprintln(os.Stderr, "unknown mode")
		os.Exit(2)
	}
}
