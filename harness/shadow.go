package main

import (
	"github.com/mlange-42/ark/ecs"
)

// A second, independent world living in the same process. Every `look` probe and every batch
// callback of the world under test runs a small fixed workload on it (batch removal, batch
// exchange, relation changes, target removal, queries). Worlds must not share any state: the
// trace of the world under test has to stay what the model predicts, and the shadow world's own
// results are checked here (a wrong result is reported as a BAD payload in the log).
type shadowWorld struct {
	w      *ecs.World
	mA     *ecs.Map1[C0]
	mB     *ecs.Map[C1]
	mAB    *ecs.Map2[C0, C1]
	mAR    *ecs.Map2[C0, C4]
	mR     *ecs.Map[C4]
	rounds int
}

func newShadow() *shadowWorld {
	w := ecs.NewWorld(2, 2)
	return &shadowWorld{w: w, mA: ecs.NewMap1[C0](w), mB: ecs.NewMap[C1](w), mAB: ecs.NewMap2[C0, C1](w),
		mAR: ecs.NewMap2[C0, C4](w), mR: ecs.NewMap[C4](w)}
}

// step returns false when the shadow world misbehaved.
func (s *shadowWorld) step() (ok bool) {
	ok = true
	defer func() {
		if r := recover(); r != nil {
			ok = false
		}
	}()
	s.rounds++
	w := s.w
	p1 := w.NewEntity()
	p2 := w.NewEntity()
	var rels []ecs.Entity
	for i := 0; i < 3; i++ {
		s.mA.NewEntity(&C0{V: int64(100 + i)})
	}
	for i := 0; i < 2; i++ {
		s.mAB.NewEntity(&C0{V: int64(200 + i)}, &C1{})
	}
	for i := 0; i < 3; i++ {
		t := p1
		if i == 2 {
			t = p2
		}
		rels = append(rels, s.mAR.NewEntity(&C0{V: int64(300 + i)}, &C4{}, ecs.RelIdx(1, t)))
	}
	// batch exchange: A-only entities get B
	fa := ecs.NewFilter1[C0](w).Without(ecs.C[C1](), ecs.C[C4]())
	n := 0
	s.mB.AddBatchFn(fa.Batch(), func(e ecs.Entity, b *C1) { n++ })
	if n != 3 {
		return false
	}
	// relation changes: one by one and as a batch
	s.mR.SetRelation(rels[0], p2)
	fr := ecs.NewFilter1[C4](w)
	s.mR.SetRelationBatch(fr.Batch(ecs.RelIdx(0, p2)), p1, func(e ecs.Entity) {})
	for _, e := range rels {
		if s.mR.GetRelation(e) != p1 || s.mA.Get(e).V < 300 {
			return false
		}
	}
	// removing the target detaches
	w.RemoveEntity(p1)
	for _, e := range rels {
		if !s.mR.GetRelation(e).IsZero() {
			return false
		}
	}
	// everything with A and B: the five entities, with their values
	fab := ecs.NewFilter2[C0, C1](w)
	q := fab.Query()
	cnt := 0
	for q.Next() {
		a, _ := q.Get()
		if a.V < 100 || a.V > 201 {
			ok = false
		}
		cnt++
	}
	if cnt != 5 {
		return false
	}
	// batch removal of everything but p2
	rm := 0
	w.RemoveEntities(fab.Batch(), func(e ecs.Entity) { rm++ })
	w.RemoveEntities(fr.Batch(), func(e ecs.Entity) { rm++ })
	if rm != 8 {
		return false
	}
	w.RemoveEntity(p2)
	q0 := ecs.NewFilter0(w).Query()
	if q0.Count() != 0 {
		ok = false
	}
	q0.Close()
	if s.rounds%7 == 0 {
		w.Shrink(0)
	}
	return ok && !w.IsLocked()
}
