package main

import (
	"bufio"
	"encoding/json"
	"fmt"
	"math/rand"
	"os"
	"sort"
	"strings"

	"github.com/mlange-42/ark/ecs"
)

// Gen is the state-aware operation generator. It looks at the real world (alive, component
// sets) to produce mostly-valid operations, plus a controlled share of invalid ones.
// Every random choice derives from one PRNG seeded by -seed.
type Gen struct {
	h       *H
	ow      *bufio.Writer
	rng     *rand.Rand
	profile string
	cfg     profileCfg

	nextEnt, nextFilter, nextObs, nextQuery, nextDump int
	valCtr                                            int64
	ents                                              []int // all entity labels created in this sequence
	filterLabels                                      []int
	typedFilters                                      []int // labels of typed (batch-capable) filters
	obsLabels                                         []int
	openQueries                                       []int
	customEvents                                      []int
	dumpEnts                                          map[int][]int
	lastRegs                                          []int

	// statistics for the evidence file
	Seqs        int            `json:"sequences"`
	Ops         int            `json:"ops"`
	OpKinds     map[string]int `json:"op_kinds"`
	Panics      map[string]int `json:"panic_classes"`
	Growths     int            `json:"table_growths_observed"`
	MaxEntities int            `json:"max_alive"`
	MaxArch     int            `json:"max_archetypes"`
	RelTargets  map[string]int `json:"relation_target_kinds"`
	TypedArity  map[string]int `json:"typed_wide_arity"`
}

// profileCfg tunes the generator for one property family.
type profileCfg struct {
	mult       map[string]float64 // weight multipliers per op kind
	stale      float64            // probability of picking a dead entity
	minObs     int
	maxObs     int
	minFilters int
	maxOpen    int     // max simultaneously open queries
	noVals     float64 // probability that a component is added without a value
	typedBias  float64 // probability of preferring the typed tuple path
	maxComps   int     // 256, or 64 for the tiny build
	fullReg    bool    // fill the registry up to the maximum
	allComps   bool    // register all static component types
	misuse     float64 // probability of one misuse call (Next/Get/Close) after a query's end
}

func profileOf(name string) profileCfg {
	c := profileCfg{mult: map[string]float64{}, stale: 0.04, maxObs: 3, minFilters: 2, maxOpen: 3,
		noVals: 0.1, typedBias: 0.3, maxComps: 256, misuse: 0.15}
	m := c.mult
	switch name {
	case "noobs":
		c.maxObs = 0
		m["obs"] = 0
	case "observers":
		c.minObs, c.maxObs = 3, 8
		m["obs"], m["otoggle"], m["emit"], m["set"], m["relbatch"], m["setrel"], m["xchgb"], m["setrelb"] = 4, 4, 3, 2, 3, 2, 3, 2
		m["obschurn"] = 4
		m["obsmove"] = 3
	case "relations":
		m["setrel"], m["setrelb"], m["del"], m["delb"], m["shrink"], m["staleq"] = 3, 3, 2, 2, 2, 4
	case "batch":
		m["newb"], m["xchgb"], m["setrelb"], m["delb"] = 3, 4, 4, 3
		c.minObs, c.maxObs = 1, 4
	case "pool":
		m["new"], m["del"], m["copy"], m["newb"], m["delb"], m["alive"], m["dumpload"] = 2, 3, 3, 3, 2, 5, 4
		m["add"], m["rem"], m["xchg"], m["set"], m["setrel"] = 0.3, 0.3, 0.3, 0.3, 0.3
		c.stale = 0.15
	case "queries":
		c.minFilters = 5
		m["query"], m["qopen"], m["filter"], m["setrel"], m["twinq"], m["staleq"] = 4, 4, 3, 2, 4, 6
		m["twinx"] = 3
		m["tuplescn"] = 5
	case "cache":
		c.minFilters = 4
		m["freg"], m["query"], m["qopen"], m["setrel"], m["del"], m["shrink"], m["reset"], m["filter"] = 6, 4, 3, 2, 2, 3, 3, 2
		m["tuplescn"] = 5
	case "lock":
		c.maxOpen = 70
		m["qopen"], m["locked"], m["freg"], m["relbatch"], m["obs"] = 12, 5, 2, 3, 3
	case "stale":
		c.stale = 0.35
		m["copy"], m["emit"] = 3, 2
	case "memory":
		c.noVals = 0.6
		m["add"], m["rem"], m["xchg"], m["shrink"], m["xchgb"], m["reset"] = 2, 2, 2, 3, 2, 2
	case "typed":
		c.typedBias = 0.95
		c.allComps = true
		m["typedwide"] = 12
		m["tuplescn"] = 6
	case "shrink":
		m["shrink"], m["del"], m["delb"], m["newb"], m["setrel"], m["freg"], m["query"] = 10, 3, 3, 3, 2, 2, 2
	case "reset":
		m["reset"], m["obs"], m["freg"], m["res"] = 12, 3, 3, 4
		c.minObs, c.maxObs = 1, 5
	case "dump":
		m["dumpload"], m["del"], m["copy"], m["alive"], m["codec"] = 15, 3, 2, 4, 12
	case "registry":
		c.fullReg = true
		m["res"], m["qopen"], m["lockedreg"] = 8, 2, 10
	case "stats":
		m["stats"], m["shrink"], m["freg"], m["obs"] = 12, 2, 2, 2
	case "tiny":
		c.maxComps = 64
		c.misuse = 0.6 // the builds differ in their checks: misuse after a query's end is C20's subject
		m["qopen"] = 3
	}
	return c
}

func newGen(h *H, ow *bufio.Writer, seed int64, profile string) *Gen {
	return &Gen{h: h, ow: ow, rng: rand.New(rand.NewSource(seed)), profile: profile, cfg: profileOf(profile),
		OpKinds: map[string]int{}, Panics: map[string]int{}, RelTargets: map[string]int{}, TypedArity: map[string]int{}}
}

func (g *Gen) emit(line string) {
	g.ow.WriteString(line)
	g.ow.WriteByte('\n')
	g.ow.Flush()
	g.Ops++
	g.h.Step(line)
}

func (g *Gen) val() int64 {
	g.valCtr++
	return g.valCtr%250 + 1
}

func (g *Gen) pick(n int) int        { return g.rng.Intn(n) }
func (g *Gen) chance(p float64) bool { return g.rng.Float64() < p }

// ----- world inspection -----

func (g *Gen) aliveLabels() []int {
	var out []int
	for _, l := range g.ents {
		if e, ok := g.h.labels[l]; ok && g.h.w.Alive(e) {
			out = append(out, l)
		}
	}
	return out
}

func (g *Gen) deadLabels() []int {
	var out []int
	for _, l := range g.ents {
		if e, ok := g.h.labels[l]; ok && !g.h.w.Alive(e) {
			out = append(out, l)
		}
	}
	return out
}

func (g *Gen) compsOf(l int) map[int]bool {
	out := map[int]bool{}
	e := g.h.labels[l]
	if !g.h.w.Alive(e) {
		return out
	}
	try(func() {
		ids := g.h.u.IDs(e)
		for i := 0; i < ids.Len(); i++ {
			if rc, ok := g.h.compByID[ids.Get(i).Index()]; ok {
				out[rc.info.name] = true
			}
		}
	})
	return out
}

func (g *Gen) regNames() []int {
	var out []int
	for n := range g.h.comps {
		out = append(out, n)
	}
	sort.Ints(out)
	return out
}

// an entity label to operate on: mostly alive, sometimes dead, rarely the zero entity
func (g *Gen) pickEntity(stale float64) (string, int, bool) {
	alive := g.aliveLabels()
	dead := g.deadLabels()
	if g.chance(stale) && len(dead) > 0 {
		l := dead[g.pick(len(dead))]
		return fmt.Sprintf("e%d", l), l, false
	}
	if g.chance(stale / 4) {
		return "z", -1, false
	}
	if len(alive) == 0 {
		return "", -1, false
	}
	l := alive[g.pick(len(alive))]
	return fmt.Sprintf("e%d", l), l, true
}

// a relation target: alive entity, zero entity, occasionally a dead one
func (g *Gen) pickTarget(stale float64) string {
	alive := g.aliveLabels()
	dead := g.deadLabels()
	switch {
	case g.chance(stale) && len(dead) > 0:
		g.RelTargets["dead"]++
		return fmt.Sprintf("e%d", dead[g.pick(len(dead))])
	case g.chance(0.15) || len(alive) == 0:
		g.RelTargets["zero"]++
		return "z"
	default:
		g.RelTargets["alive"]++
		// prefer a small set of targets so that tables are shared
		k := len(alive)
		if k > 4 && g.chance(0.7) {
			k = 4
		}
		return fmt.Sprintf("e%d", alive[g.pick(k)])
	}
}

func (g *Gen) isRel(name int) bool { return staticComps[name].kind == "rel" }

// compTokens renders component tokens with values and relation targets
func (g *Gen) compTokens(names []int, withVals bool, stale float64, omitRel float64) string {
	var parts []string
	for _, n := range names {
		s := fmt.Sprintf("c%d", n)
		if withVals && !g.chance(g.cfg.noVals) {
			s += fmt.Sprintf(":%d", g.val())
		}
		if g.isRel(n) && !g.chance(omitRel) {
			s += ">" + g.pickTarget(stale)
		}
		parts = append(parts, s)
	}
	return strings.Join(parts, " ")
}

// duplicates are rejected since the D18/D19 repairs (see DESIGN.md §7)
const dupRelChance = 0.03

// dupRel: occasionally an additional relation target for a relation component already listed
// (`rN>target`; unsafe path only). The API accepts it: the last target wins, see DESIGN.md N2.
func (g *Gen) dupRel(names []int, path string) string {
	if path == "m" {
		// Map[T] takes its (optional) target as a variadic list: a second target — often a removed entity —
		// must be validated like the first and then rejected as a duplicate
		if len(names) == 1 && g.isRel(names[0]) && g.chance(3*dupRelChance) {
			g.RelTargets["duplicate"]++
			return fmt.Sprintf(" r%d>%s", names[0], g.pickTarget(0.4))
		}
		return ""
	}
	if path != "u" || !g.chance(dupRelChance) {
		return ""
	}
	for _, n := range names {
		if g.isRel(n) {
			g.RelTargets["duplicate"]++
			return fmt.Sprintf(" r%d>%s", n, g.pickTarget(0.02))
		}
	}
	return ""
}

// superRel: occasionally (ID-based path only) a relation target for a component that is NOT in the list —
// neither added nor, mostly, a component of the entity; sometimes not even a relation component. Such a
// call must be rejected without any effect (the N3 family, §7 D24).
func (g *Gen) superRel(names []int, path string) string {
	if path != "u" || !g.chance(0.03) {
		return ""
	}
	in := map[int]bool{}
	for _, n := range names {
		in[n] = true
	}
	var cand []int
	for _, n := range g.regNames() {
		if !in[n] && (g.isRel(n) || g.chance(0.2)) {
			cand = append(cand, n)
		}
	}
	if len(cand) == 0 {
		return ""
	}
	g.RelTargets["superfluous"]++
	return fmt.Sprintf(" r%d>%s", cand[g.pick(len(cand))], g.pickTarget(0.1))
}

// dupComp: occasionally the same component ID twice in one list (ID-based path only; the typed
// API cannot express it). Every such call must be rejected: "already has / added twice" for
// additions, "does not have" for the second removal.
func (g *Gen) dupComp(cs []int, path string) []int {
	if path != "u" || len(cs) == 0 || !g.chance(0.03) {
		return cs
	}
	g.OpKinds["(duplicate-id)"]++
	out := append([]int{}, cs...)
	return append(out, cs[g.pick(len(cs))])
}

func (g *Gen) subset(names []int, min, max int) []int {
	if len(names) == 0 {
		return nil
	}
	k := min
	if max > min {
		k += g.pick(max - min + 1)
	}
	if k > len(names) {
		k = len(names)
	}
	perm := g.rng.Perm(len(names))
	out := make([]int, 0, k)
	for _, i := range perm[:k] {
		out = append(out, names[i])
	}
	return out
}

// path for an operation on the given components
func (g *Gen) path(names []int, allowU bool) string {
	opts := []string{}
	if allowU {
		opts = append(opts, "u", "u")
	}
	if len(names) == 1 {
		opts = append(opts, "m", "m")
	}
	if len(names) >= 1 {
		var cs []*regComp
		for _, n := range names {
			cs = append(cs, g.h.comps[n])
		}
		if _, ok := mapperCtors[tupleKey(cs)]; ok {
			if g.chance(g.cfg.typedBias) {
				return "t"
			}
			opts = append(opts, "t")
		}
	}
	if len(opts) == 0 {
		return ""
	}
	return opts[g.pick(len(opts))]
}

// orderForTyped tries to reorder names into an instantiated tuple; returns names unchanged
// if none is found.
// windowOf: k components of `pool` with consecutive static numbers (mod 12), in that order — the
// shape of the instantiated tuples of the generated-arity API
func (g *Gen) windowOf(pool []int, k int) []int {
	in := map[int]bool{}
	for _, n := range pool {
		in[n] = true
	}
	var starts []int
	for s := 0; s < 12; s++ {
		ok := true
		for i := 0; i < k; i++ {
			ok = ok && in[(s+i)%12]
		}
		if ok {
			starts = append(starts, s)
		}
	}
	if len(starts) == 0 {
		return nil
	}
	s0 := starts[g.pick(len(starts))]
	out := make([]int, k)
	for i := range out {
		out[i] = (s0 + i) % 12
	}
	return out
}

func (g *Gen) tupleOrder(names []int) []int {
	if len(names) <= 1 {
		return names
	}
	sorted := append([]int(nil), names...)
	sort.Ints(sorted)
	for rot := 0; rot < len(sorted); rot++ {
		cand := append(append([]int(nil), sorted[rot:]...), sorted[:rot]...)
		var cs []*regComp
		for _, n := range cand {
			cs = append(cs, g.h.comps[n])
		}
		if _, ok := mapperCtors[tupleKey(cs)]; ok {
			return cand
		}
	}
	return names
}

// ----- sequence prelude -----

func (g *Gen) prelude() {
	caps := []int{1, 1, 2, 3, 8, 1024}
	rels := []int{1, 2, 2, 128}
	g.emit(fmt.Sprintf("world %d %d %d", caps[g.pick(len(caps))], rels[g.pick(len(rels))], g.cfg.maxComps))
	g.nextEnt, g.nextFilter, g.nextObs, g.nextQuery, g.nextDump = 0, 0, 0, 0, 0
	g.dumpEnts = nil
	g.ents, g.filterLabels, g.typedFilters, g.obsLabels, g.openQueries = nil, nil, nil, nil, nil

	// component registration: random order, fillers spread the IDs over the mask words
	order := g.rng.Perm(numStatic)
	nreg := 6 + g.pick(numStatic-5)
	if g.cfg.allComps {
		nreg = numStatic
	}
	order = order[:nreg]
	// make sure at least one relation and one plain component are present
	hasRel := false
	for _, n := range order {
		if g.isRel(n) {
			hasRel = true
		}
	}
	if !hasRel {
		order[0] = 4
	}
	totalFill := []int{0, 0, 50, 60, 116, 180, 240}[g.pick(7)]
	if g.cfg.fullReg {
		totalFill = g.cfg.maxComps - nreg - g.pick(2)
	}
	if totalFill+nreg > g.cfg.maxComps {
		totalFill = g.cfg.maxComps - nreg
	}
	// split the fillers into up to 4 blocks placed before random registrations
	blocks := map[int]int{}
	rem := totalFill
	for b := 0; b < 4 && rem > 0; b++ {
		n := rem
		if b < 3 {
			n = g.pick(rem + 1)
		}
		blocks[g.pick(nreg)] += n
		rem -= n
	}
	g.lastRegs = append([]int(nil), order...)
	for i, n := range order {
		if blocks[i] > 0 {
			g.emit(fmt.Sprintf("fill %d", blocks[i]))
		}
		info := staticComps[n]
		g.emit(fmt.Sprintf("reg c%d %s %d", n, map[bool]string{true: "rel", false: "norel"}[info.kind == "rel"], info.size))
	}
}

func (g *Gen) newFilter() {
	names := g.regNames()
	with := g.subset(names, 0, 3)
	l := g.nextFilter
	g.nextFilter++
	kind := "typed"
	if g.chance(0.2) {
		kind = "unsafe"
	}
	// typed filter of a generated arity (Filter1-8) when the tuple is instantiated
	if len(with) > 0 && g.chance(g.cfg.typedBias) {
		cand := g.tupleOrder(with)
		var cs []*regComp
		for _, n := range cand {
			cs = append(cs, g.h.comps[n])
		}
		if _, ok := filterCtors[tupleKey(cs)]; ok {
			with = cand
			kind = "tuple"
		}
	}
	line := fmt.Sprintf("filter f%d %s", l, kind)
	if len(with) > 0 {
		line += " with=" + joinComps(with)
	}
	inWith := map[int]bool{}
	for _, n := range with {
		inWith[n] = true
	}
	switch g.pick(5) {
	case 0:
		var rest []int
		for _, n := range names {
			if !inWith[n] {
				rest = append(rest, n)
			}
		}
		if wo := g.subset(rest, 1, 2); len(wo) > 0 {
			line += " without=" + joinComps(wo)
		}
	case 1:
		line += " excl"
	}
	// fixed relations (typed only): on relation components in `with`
	if kind != "unsafe" && g.chance(0.3) {
		var rs []string
		for _, n := range with {
			if g.isRel(n) && g.chance(0.7) {
				rs = append(rs, fmt.Sprintf("c%d>%s", n, g.pickTarget(0.02)))
			}
		}
		if len(rs) > 0 {
			line += " rel=" + strings.Join(rs, ",")
		}
	}
	g.emit(line)
	if _, ok := g.h.filters[l]; ok {
		g.filterLabels = append(g.filterLabels, l)
		if kind != "unsafe" {
			g.typedFilters = append(g.typedFilters, l)
		}
	}
}

func joinComps(names []int) string {
	parts := make([]string, len(names))
	for i, n := range names {
		parts[i] = fmt.Sprintf("c%d", n)
	}
	return strings.Join(parts, ",")
}

// per-call relations for a query/batch on filter l
func (g *Gen) extraRels(l int, p float64) string {
	fo := g.h.filters[l]
	if fo == nil || !g.chance(p) {
		return ""
	}
	var rs []string
	for _, n := range fo.names {
		if g.isRel(n) && g.chance(0.7) {
			rs = append(rs, fmt.Sprintf("c%d>%s", n, g.pickTarget(0.15)))
		}
	}
	if len(rs) == 0 {
		return ""
	}
	return " rel=" + strings.Join(rs, ",")
}

func (g *Gen) newObserver() {
	names := g.regNames()
	l := g.nextObs
	g.nextObs++
	events := []string{"create", "remove", "add", "rem", "set", "addrel", "remrel"}
	ev := events[g.pick(len(events))]
	if g.chance(0.1) && len(g.customEvents) > 0 {
		ev = fmt.Sprint(g.customEvents[g.pick(len(g.customEvents))])
	}
	line := fmt.Sprintf("obs o%d %s", l, ev)
	pool := names
	if ev == "addrel" || ev == "remrel" {
		pool = nil
		for _, n := range names {
			if g.isRel(n) {
				pool = append(pool, n)
			}
		}
	}
	if (ev == "addrel" || ev == "remrel") && g.chance(0.06) {
		// invalid: a relation observer observing a non-relation component (registration panics)
		pool = names
	}
	if fs := g.subset(pool, 0, 2); len(fs) > 0 && g.chance(0.7) {
		// the typed observers Observe1-4: the observed components in an order that has an instantiation
		// (sometimes three or four of them)
		if g.chance(0.3) {
			if w := g.windowOf(pool, 2+g.pick(3)); len(w) > 0 {
				fs = w
			}
		}
		fs = g.tupleOrder(fs)
		line += " for=" + joinComps(fs)
		if g.chance(0.6) {
			line += " typed"
		}
	}
	if ws := g.subset(names, 1, 2); g.chance(0.35) {
		line += " with=" + joinComps(ws)
	}
	if g.chance(0.15) {
		line += " excl"
	} else if wo := g.subset(names, 1, 2); g.chance(0.25) {
		line += " without=" + joinComps(wo)
	}
	var script []string
	if g.chance(0.8) {
		script = append(script, "look")
	}
	if g.chance(0.5) && len(g.filterLabels) > 0 {
		script = append(script, fmt.Sprintf("q:f%d", g.filterLabels[g.pick(len(g.filterLabels))]))
	}
	if g.chance(0.25) && ev != "create" && ev != "remove" {
		script = append(script, "trynew")
	}
	// un-/re-registration from inside a callback (itself or another observer)
	if g.chance(0.15) && g.nextObs > 0 {
		script = append(script, fmt.Sprintf("unreg:o%d", g.pick(g.nextObs)))
	}
	if g.chance(0.08) && g.nextObs > 0 {
		script = append(script, fmt.Sprintf("reg:o%d", g.pick(g.nextObs)))
	}
	// un-register the observer created next (often the last one in the same event's list)
	pairNext := g.chance(0.12)
	if pairNext {
		script = append(script, fmt.Sprintf("unreg:o%d", l+1))
	}
	if len(script) > 0 {
		line += " script=" + strings.Join(script, ",")
	}
	g.emit(line)
	g.obsLabels = append(g.obsLabels, l)
	if g.chance(0.9) {
		g.emit(fmt.Sprintf("oreg o%d", l))
		if !g.h.lastOK {
			g.emit("stats")
		}
	}
	if pairNext {
		// a second observer of the same event type, registered right behind this one
		l2 := g.nextObs
		g.nextObs++
		g.emit(fmt.Sprintf("obs o%d %s script=look", l2, ev))
		g.obsLabels = append(g.obsLabels, l2)
		g.emit(fmt.Sprintf("oreg o%d", l2))
	}
}

// ----- operations -----

type opGen struct {
	name   string
	weight int
	fn     func() bool
}

func (g *Gen) opNew() bool {
	names := g.regNames()
	var cs []int
	if g.chance(0.5) {
		// reuse the component set of an existing entity to fill tables
		if alive := g.aliveLabels(); len(alive) > 0 {
			for n := range g.compsOf(alive[g.pick(len(alive))]) {
				cs = append(cs, n)
			}
			sort.Ints(cs)
		}
	}
	if len(cs) == 0 {
		cs = g.subset(names, 0, 4)
	}
	l := g.nextEnt
	g.nextEnt++
	g.ents = append(g.ents, l)
	if len(cs) == 0 {
		g.emit(fmt.Sprintf("new0 e%d", l))
		return true
	}
	cs = g.tupleOrder(cs)
	p := g.path(cs, true)
	cs = g.dupComp(cs, p)
	g.emit(fmt.Sprintf("new e%d %s %s%s", l, p, g.compTokens(cs, true, 0.02, 0.03), g.dupRel(cs, p)+g.superRel(cs, p)))
	return true
}

func (g *Gen) opAdd() bool {
	el, l, alive := g.pickEntity(g.cfg.stale)
	if el == "" {
		return false
	}
	names := g.regNames()
	var cand []int
	if alive {
		has := g.compsOf(l)
		for _, n := range names {
			if !has[n] || g.chance(0.03) {
				cand = append(cand, n)
			}
		}
	} else {
		cand = names
	}
	cs := g.subset(cand, 1, 3)
	if g.chance(0.02) {
		cs = nil
	}
	cs = g.tupleOrder(cs)
	p := g.path(cs, true)
	if p == "" {
		p = "u"
	}
	cs = g.dupComp(cs, p)
	g.emit(strings.TrimSpace(fmt.Sprintf("add %s %s %s%s", el, p, g.compTokens(cs, true, 0.02, 0.03), g.dupRel(cs, p)+g.superRel(cs, p))))
	return true
}

func (g *Gen) opRem() bool {
	el, l, alive := g.pickEntity(g.cfg.stale)
	if el == "" {
		return false
	}
	names := g.regNames()
	var cand []int
	if alive {
		has := g.compsOf(l)
		for _, n := range names {
			if has[n] || g.chance(0.03) {
				cand = append(cand, n)
			}
		}
	} else {
		cand = names
	}
	cs := g.subset(cand, 1, 2)
	if len(cs) == 0 {
		return false
	}
	cs = g.tupleOrder(cs)
	p := g.path(cs, true)
	cs = g.dupComp(cs, p)
	g.emit(fmt.Sprintf("rem %s %s %s", el, p, joinSp(cs)))
	return true
}

func joinSp(names []int) string {
	parts := make([]string, len(names))
	for i, n := range names {
		parts[i] = fmt.Sprintf("c%d", n)
	}
	return strings.Join(parts, " ")
}

func (g *Gen) opXchg() bool {
	el, l, alive := g.pickEntity(g.cfg.stale)
	if el == "" {
		return false
	}
	names := g.regNames()
	var addC, remC []int
	if alive {
		has := g.compsOf(l)
		for _, n := range names {
			if has[n] {
				remC = append(remC, n)
			} else {
				addC = append(addC, n)
			}
		}
	} else {
		addC, remC = names, names
	}
	add := g.subset(addC, 0, 2)
	rem := g.subset(remC, 0, 2)
	if g.chance(0.03) && len(rem) > 0 {
		add = append(add, rem[0]) // added and removed
	}
	// through ExchangeN when the added components have an instantiation
	path := "u"
	if len(add) > 0 && g.chance(g.cfg.typedBias) {
		cand := g.tupleOrder(add)
		var cs []*regComp
		for _, n := range cand {
			cs = append(cs, g.h.comps[n])
		}
		if _, ok := exchangeCtors[tupleKey(cs)]; ok {
			add, path = cand, "t"
		}
	}
	var parts []string
	for _, n := range add {
		s := fmt.Sprintf("+c%d:%d", n, g.val())
		if g.isRel(n) && !g.chance(0.03) {
			s += ">" + g.pickTarget(0.02)
		}
		parts = append(parts, s)
	}
	for _, n := range rem {
		parts = append(parts, fmt.Sprintf("-c%d", n))
	}
	g.emit(strings.TrimSpace(fmt.Sprintf("xchg %s %s %s%s", el, path, strings.Join(parts, " "), g.superRel(add, path))))
	return true
}

func (g *Gen) opSet() bool {
	el, l, alive := g.pickEntity(g.cfg.stale)
	if el == "" || el == "z" {
		return false
	}
	var cand []int
	if alive {
		for n := range g.compsOf(l) {
			cand = append(cand, n)
		}
		sort.Ints(cand)
	}
	if len(cand) == 0 || g.chance(0.03) {
		cand = g.regNames()
	}
	cs := g.subset(cand, 1, 1)
	// MapN.Set of several components; sometimes one of them is missing on the entity: the call must
	// be rejected WITHOUT having written the others (C10, C20: the builds must agree on the values too)
	if alive && len(cand) >= 2 && g.chance(0.3) {
		wide := g.subset(cand, 2, 3)
		if g.chance(0.2) {
			has := g.compsOf(l)
			var missing []int
			for _, n := range g.regNames() {
				if !has[n] {
					missing = append(missing, n)
				}
			}
			if len(missing) > 0 {
				wide[len(wide)-1] = missing[g.pick(len(missing))]
			}
		}
		wide = g.tupleOrder(wide)
		var wcs []*regComp
		for _, n := range wide {
			wcs = append(wcs, g.h.comps[n])
		}
		if _, ok := mapperCtors[tupleKey(wcs)]; ok {
			var parts []string
			for _, n := range wide {
				parts = append(parts, fmt.Sprintf("c%d:%d", n, g.val()))
			}
			g.emit(fmt.Sprintf("set %s t %s", el, strings.Join(parts, " ")))
			return true
		}
	}
	cs = g.tupleOrder(cs)
	p := g.path(cs, false)
	if p == "" {
		return false
	}
	var parts []string
	for _, n := range cs {
		parts = append(parts, fmt.Sprintf("c%d:%d", n, g.val()))
	}
	g.emit(fmt.Sprintf("set %s %s %s", el, p, strings.Join(parts, " ")))
	return true
}

// opGetRel: the relation target of one component through Map.GetRelation / Unsafe.GetRelation, mostly for
// a relation component the entity has, sometimes for one it lacks or for a non-relation component
func (g *Gen) opGetRel() bool {
	el, l, alive := g.pickEntity(g.cfg.stale)
	if el == "" || el == "z" {
		return false
	}
	var cand []int
	if alive && !g.chance(0.25) {
		for n := range g.compsOf(l) {
			if g.isRel(n) || g.chance(0.2) {
				cand = append(cand, n)
			}
		}
		sort.Ints(cand)
	}
	if len(cand) == 0 {
		cand = g.regNames()
	}
	if len(cand) == 0 {
		return false
	}
	n := cand[g.pick(len(cand))]
	g.emit(fmt.Sprintf("getrel %s %s c%d", el, []string{"u", "m"}[g.pick(2)], n))
	return true
}

func (g *Gen) opSetRel() bool {
	el, l, alive := g.pickEntity(g.cfg.stale)
	if el == "" {
		return false
	}
	var cand []int
	if alive {
		for n := range g.compsOf(l) {
			if g.isRel(n) {
				cand = append(cand, n)
			}
		}
		sort.Ints(cand)
	}
	if len(cand) == 0 {
		if !g.chance(0.1) {
			return false
		}
		for _, n := range g.regNames() {
			if g.isRel(n) || g.chance(0.05) {
				cand = append(cand, n)
			}
		}
	}
	cs := g.subset(cand, 1, 2)
	if len(cs) == 0 {
		return false
	}
	p := "u"
	if len(cs) == 1 && g.chance(0.5) {
		p = "m"
	}
	mapperOpt := ""
	if g.chance(g.cfg.typedBias) {
		// typed MapN.SetRelations: the mapper's tuple must contain the relation components
		tup := g.tupleOrder(cs)
		var rcs []*regComp
		for _, n := range tup {
			rcs = append(rcs, g.h.comps[n])
		}
		if _, ok := mapperCtors[tupleKey(rcs)]; ok {
			p = "t"
			mapperOpt = " mapper=" + joinComps(tup)
		}
	}
	var parts []string
	for i, n := range cs {
		tgt := g.pickTarget(0.03)
		if alive && i > 0 && g.chance(0.5) {
			// re-set this relation to its current target (no change for this component)
			if cur, ok := g.currentTarget(l, n); ok {
				tgt = cur
			}
		}
		parts = append(parts, fmt.Sprintf("c%d>%s", n, tgt))
	}
	dup := ""
	if p != "m" { // Map[T].SetRelation takes exactly one target
		dup = g.dupRel(cs, p)
	}
	g.emit(fmt.Sprintf("setrel %s %s %s%s%s", el, p, strings.Join(parts, " "), dup+g.superRel(cs, p), mapperOpt))
	return true
}

// currentTarget returns the label token of the current target of relation component n of entity l.
func (g *Gen) currentTarget(l, n int) (string, bool) {
	e := g.h.labels[l]
	rc := g.h.comps[n]
	if rc == nil {
		return "", false
	}
	var t ecs.Entity
	if try(func() { t = g.h.u.GetRelation(e, rc.id) }) != "" {
		return "", false
	}
	if t == (ecs.Entity{}) {
		return "z", true
	}
	if lbl, ok := g.h.names[t]; ok {
		return fmt.Sprintf("e%d", lbl), true
	}
	return "", false
}

// opRelBatchNoFn: batch creation through Map[T] with a relation target and no callback.
func (g *Gen) opRelBatchNoFn() bool {
	var rels []int
	for _, n := range g.regNames() {
		if g.isRel(n) {
			rels = append(rels, n)
		}
	}
	if len(rels) == 0 {
		return false
	}
	n := rels[g.pick(len(rels))]
	cnt := 1 + g.pick(4)
	l := g.nextEnt
	g.nextEnt += cnt
	for i := 0; i < cnt; i++ {
		g.ents = append(g.ents, l+i)
	}
	g.emit(fmt.Sprintf("newb e%d %d m nofn c%d>%s", l, cnt, n, g.pickTarget(0.02)))
	return true
}

// opTupleScenario: a typed filter of a generated arity over plain components; a relation
// archetype with two tables (two targets) containing them is created first, a non-relation
// archetype containing them afterwards; then the filter is queried, cached and uncached.
func (g *Gen) opTupleScenario() bool {
	var keys [][]int
	for k := range filterCtors {
		var t []int
		ok := true
		for _, part := range strings.Split(k, ",") {
			n := int(part[0] - 'a')
			if g.h.comps[n] == nil || g.isRel(n) {
				ok = false
			}
			t = append(t, n)
		}
		if ok && len(t) <= 4 {
			keys = append(keys, t)
		}
	}
	var rels, others []int
	for _, n := range g.regNames() {
		if g.isRel(n) {
			rels = append(rels, n)
		}
	}
	if len(keys) == 0 || len(rels) == 0 {
		return false
	}
	sort.Slice(keys, func(i, j int) bool { return fmt.Sprint(keys[i]) < fmt.Sprint(keys[j]) })
	t := keys[g.pick(len(keys))]
	in := map[int]bool{}
	for _, n := range t {
		in[n] = true
	}
	for _, n := range g.regNames() {
		if !in[n] && !g.isRel(n) {
			others = append(others, n)
		}
	}
	r := rels[g.pick(len(rels))]
	f := g.nextFilter
	g.nextFilter++
	g.emit(fmt.Sprintf("filter f%d tuple with=%s", f, joinComps(t)))
	if _, ok := g.h.filters[f]; !ok {
		return true
	}
	g.filterLabels = append(g.filterLabels, f)
	g.typedFilters = append(g.typedFilters, f)
	mk := func(extra string) {
		l := g.nextEnt
		g.nextEnt++
		g.ents = append(g.ents, l)
		g.emit(strings.TrimSpace(fmt.Sprintf("new e%d u %s %s", l, g.compTokens(t, true, 0, 0), extra)))
	}
	alive := g.aliveLabels()
	t1, t2 := "z", "z"
	if len(alive) > 0 {
		t1 = fmt.Sprintf("e%d", alive[g.pick(len(alive))])
	}
	if len(alive) > 1 {
		t2 = fmt.Sprintf("e%d", alive[g.pick(len(alive))])
	}
	mk(fmt.Sprintf("c%d:%d>%s", r, g.val(), t1))
	mk(fmt.Sprintf("c%d:%d>%s", r, g.val(), t2))
	mk(fmt.Sprintf("c%d:%d>%s", r, g.val(), "z"))
	if len(others) > 0 {
		mk(fmt.Sprintf("c%d:%d", others[g.pick(len(others))], g.val()))
	}
	mk("")
	g.emit(fmt.Sprintf("query f%d", f))
	if g.chance(0.5) {
		g.emit(fmt.Sprintf("freg f%d", f))
		g.h.filters[f].cached = true
		g.emit(fmt.Sprintf("query f%d", f))
	}
	return true
}

// opStaleTargetQuery: a query whose relation target is a removed entity whose ID has been
// recycled, while the new incarnation is itself a target of the same relation.
func (g *Gen) opStaleTargetQuery() bool {
	var rels []int
	for _, n := range g.regNames() {
		if g.isRel(n) {
			rels = append(rels, n)
		}
	}
	if len(rels) == 0 {
		return false
	}
	// a dead label and an alive label sharing an ID
	byID := map[uint32]int{}
	for _, l := range g.aliveLabels() {
		byID[g.h.labels[l].ID()] = l
	}
	dead, alive := -1, -1
	for _, l := range g.deadLabels() {
		if a, ok := byID[g.h.labels[l].ID()]; ok {
			dead, alive = l, a
			break
		}
	}
	r := rels[g.pick(len(rels))]
	var pre []int
	if dead < 0 {
		// make one: remove an entity and create another right away (LIFO recycling)
		al := g.aliveLabels()
		if len(al) == 0 {
			return false
		}
		dead = al[g.pick(len(al))]
		// filters with this entity as FIXED target, defined while it is alive and registered only after
		// its ID was recycled: the cache entry must be built with the same (generation-exact) test as
		// the uncached walk
		// (typed filters only: UnsafeFilter has neither fixed targets nor registration)
		for i := 0; i < 2; i++ {
			f := g.nextFilter
			g.nextFilter++
			g.emit(fmt.Sprintf("filter f%d typed with=c%d rel=c%d>e%d", f, r, r, dead))
			if _, ok := g.h.filters[f]; ok {
				g.filterLabels = append(g.filterLabels, f)
				g.typedFilters = append(g.typedFilters, f)
				pre = append(pre, f)
			}
		}
		g.emit(fmt.Sprintf("del e%d", dead))
		alive = g.nextEnt
		g.nextEnt++
		g.ents = append(g.ents, alive)
		g.emit(fmt.Sprintf("new0 e%d", alive))
		if e, ok := g.h.labels[alive]; !ok || e.ID() != g.h.labels[dead].ID() {
			return true
		}
	}
	// the new incarnation becomes a target of relation r
	l := g.nextEnt
	g.nextEnt++
	g.ents = append(g.ents, l)
	g.emit(fmt.Sprintf("new e%d u c%d:%d>e%d", l, r, g.val(), alive))
	for _, f := range pre {
		g.emit(fmt.Sprintf("query f%d", f))
		g.emit(fmt.Sprintf("freg f%d", f))
		g.emit(fmt.Sprintf("query f%d", f))
	}
	// unsafe and typed filters on r, queried for the dead handle
	for _, kind := range []string{"unsafe", "typed"} {
		f := g.nextFilter
		g.nextFilter++
		g.emit(fmt.Sprintf("filter f%d %s with=c%d", f, kind, r))
		if _, ok := g.h.filters[f]; ok {
			g.filterLabels = append(g.filterLabels, f)
			if kind != "unsafe" {
				g.typedFilters = append(g.typedFilters, f)
			}
			g.emit(fmt.Sprintf("query f%d rel=c%d>e%d", f, r, dead))
			g.emit(fmt.Sprintf("query f%d rel=c%d>e%d", f, r, alive))
		}
	}
	return true
}

// opTwinQueries: a Batch(rel) call on a typed filter followed by two simultaneously open
// queries of that filter with different per-query targets, advanced alternately.
func (g *Gen) opTwinQueries() bool {
	var cands []int
	for _, l := range g.typedFilters {
		fo := g.h.filters[l]
		for _, n := range fo.names {
			if g.isRel(n) {
				cands = append(cands, l)
				break
			}
		}
	}
	if len(cands) == 0 || len(g.openQueries) > 0 {
		return false
	}
	l := cands[g.pick(len(cands))]
	r1, r2 := g.extraRels(l, 1), g.extraRels(l, 1)
	for i := 0; i < 4 && r2 == r1; i++ { // two different per-query targets whenever there are two
		r2 = g.extraRels(l, 1)
	}
	if r1 == "" || r2 == "" {
		return false
	}
	if g.chance(0.85) {
		g.emit(fmt.Sprintf("setrelb f%d m nofn%s %s", l, g.extraRels(l, 1), strings.TrimPrefix(strings.Split(r1, ",")[0], " rel=")))
	}
	q1, q2 := g.nextQuery, g.nextQuery+1
	g.nextQuery += 2
	g.emit(fmt.Sprintf("qopen q%d f%d%s", q1, l, r1))
	g.emit(fmt.Sprintf("qopen q%d f%d%s", q2, l, r2))
	a1, a2 := g.h.queries[q1] != nil, g.h.queries[q2] != nil
	for i := 0; i < 3; i++ {
		if a1 {
			g.emit(fmt.Sprintf("qcount q%d", q1))
			g.emit(fmt.Sprintf("qnext q%d", q1))
			a1 = g.queryActive(q1)
		}
		if a2 {
			g.emit(fmt.Sprintf("qnext q%d", q2))
			a2 = g.queryActive(q2)
		}
	}
	if a1 {
		g.emit(fmt.Sprintf("qclose q%d", q1))
	}
	if a2 {
		g.emit(fmt.Sprintf("qclose q%d", q2))
	}
	return true
}

// opTwinExact: the deterministic core of opTwinQueries.  A fresh typed filter on one relation component, two
// fresh targets with one and two children, a batch through the filter with a per-call target (which leaves
// spare capacity in the filter's relation buffer), then two queries of that filter open at once with the two
// targets: each must count and visit its own children.
func (g *Gen) opTwinExact() bool {
	var rels []int
	for _, n := range g.regNames() {
		if g.isRel(n) {
			rels = append(rels, n)
		}
	}
	if len(rels) == 0 || len(g.openQueries) > 0 {
		return false
	}
	r := rels[g.pick(len(rels))]
	fl := g.nextFilter
	g.nextFilter++
	g.emit(fmt.Sprintf("filter f%d typed with=c%d", fl, r))
	if _, ok := g.h.filters[fl]; !ok {
		return true
	}
	g.filterLabels = append(g.filterLabels, fl)
	g.typedFilters = append(g.typedFilters, fl)
	t1, t2 := g.nextEnt, g.nextEnt+1
	g.nextEnt += 5
	g.ents = append(g.ents, t1, t2, t2+1, t2+2, t2+3)
	g.emit(fmt.Sprintf("new0 e%d", t1))
	g.emit(fmt.Sprintf("new0 e%d", t2))
	g.emit(fmt.Sprintf("new e%d u c%d:%d>e%d", t2+1, r, g.val(), t1))
	g.emit(fmt.Sprintf("new e%d u c%d:%d>e%d", t2+2, r, g.val(), t2))
	g.emit(fmt.Sprintf("new e%d u c%d:%d>e%d", t2+3, r, g.val(), t2))
	// a batch with a per-call target through the filter (moves nothing: the children of t2 stay with t2)
	g.emit(fmt.Sprintf("setrelb f%d m nofn rel=c%d>e%d c%d>e%d", fl, r, t2, r, t2))
	q1, q2 := g.nextQuery, g.nextQuery+1
	g.nextQuery += 2
	g.emit(fmt.Sprintf("qopen q%d f%d rel=c%d>e%d", q1, fl, r, t1))
	g.emit(fmt.Sprintf("qopen q%d f%d rel=c%d>e%d", q2, fl, r, t2))
	for _, q := range []int{q1, q2, q1} {
		if g.h.queries[q] != nil {
			g.emit(fmt.Sprintf("qcount q%d", q))
		}
	}
	a1, a2 := g.h.queries[q1] != nil, g.h.queries[q2] != nil
	for i := 0; i < 3; i++ {
		if a1 {
			g.emit(fmt.Sprintf("qnext q%d", q1))
			a1 = g.queryActive(q1)
		}
		if a2 {
			g.emit(fmt.Sprintf("qnext q%d", q2))
			a2 = g.queryActive(q2)
		}
	}
	if a1 {
		g.emit(fmt.Sprintf("qclose q%d", q1))
	}
	if a2 {
		g.emit(fmt.Sprintf("qclose q%d", q2))
	}
	return true
}

// opTypedWide exercises the generated arities: an entity is created (or extended) through a
// MapN whose tuple is one of the instantiated windows of any arity 1..12, then Set through it.
func (g *Gen) opTypedWide() bool {
	var keys [][]int
	for k := range mapperCtors {
		var t []int
		ok := true
		for _, part := range strings.Split(k, ",") {
			n := int(part[0] - 'a')
			if g.h.comps[n] == nil {
				ok = false
			}
			t = append(t, n)
		}
		if ok {
			keys = append(keys, t)
		}
	}
	if len(keys) == 0 {
		return false
	}
	sort.Slice(keys, func(i, j int) bool { return fmt.Sprint(keys[i]) < fmt.Sprint(keys[j]) })
	// bias towards the wide tuples
	t := keys[g.pick(len(keys))]
	for tries := 0; tries < 3 && len(t) < 5; tries++ {
		t = keys[g.pick(len(keys))]
	}
	g.TypedArity[fmt.Sprint(len(t))]++
	l := g.nextEnt
	g.nextEnt++
	g.ents = append(g.ents, l)
	g.emit(fmt.Sprintf("new e%d t %s", l, g.compTokens(t, true, 0.02, 0.03)))
	if g.h.lastOK && g.chance(0.6) {
		var parts []string
		for _, n := range t {
			parts = append(parts, fmt.Sprintf("c%d:%d", n, g.val()))
		}
		g.emit(fmt.Sprintf("set e%d t %s", l, strings.Join(parts, " ")))
	}
	if g.h.lastOK && g.chance(0.3) {
		g.emit(fmt.Sprintf("rem e%d t %s", l, joinSp(t)))
	}
	return true
}

func (g *Gen) opDel() bool {
	el, _, _ := g.pickEntity(g.cfg.stale)
	if el == "" {
		return false
	}
	g.emit("del " + el)
	return true
}

func (g *Gen) opCopy() bool {
	el, _, _ := g.pickEntity(g.cfg.stale)
	if el == "" {
		return false
	}
	l := g.nextEnt
	g.nextEnt++
	g.ents = append(g.ents, l)
	g.emit(fmt.Sprintf("copy e%d %s", l, el))
	return true
}

func (g *Gen) opAlive() bool {
	el, _, _ := g.pickEntity(0.5)
	if el == "" {
		return false
	}
	g.emit("alive " + el)
	return true
}

func (g *Gen) opQuery() bool {
	if len(g.filterLabels) == 0 {
		return false
	}
	l := g.filterLabels[g.pick(len(g.filterLabels))]
	g.emit(fmt.Sprintf("query f%d%s", l, g.extraRels(l, 0.4)))
	return true
}

func (g *Gen) opFilterReg() bool {
	if len(g.typedFilters) == 0 {
		return false
	}
	l := g.typedFilters[g.pick(len(g.typedFilters))]
	fo := g.h.filters[l]
	if fo.cached != g.chance(0.05) {
		g.emit(fmt.Sprintf("funreg f%d", l))
		if fo.cached {
			fo.cached = false
		}
	} else {
		g.emit(fmt.Sprintf("freg f%d", l))
		fo.cached = true
	}
	return true
}

func (g *Gen) opNewBatch() bool {
	names := g.regNames()
	cnt := 1 + g.pick(5)
	if g.chance(0.05) {
		cnt = 0 // an empty batch still finds or creates its table and registers its relation targets
	}
	l := g.nextEnt
	g.nextEnt += cnt
	for i := 0; i < cnt; i++ {
		g.ents = append(g.ents, l+i)
	}
	fn := "fn"
	if g.chance(0.3) {
		fn = "nofn"
	}
	if g.chance(0.2) {
		g.emit(fmt.Sprintf("new0b e%d %d %s", l, cnt, fn))
		return true
	}
	cs := g.tupleOrder(g.subset(names, 1, 3))
	p := g.path(cs, false)
	if p == "" {
		cs = cs[:1]
		p = "m"
	}
	// all entities of a batch share the same values
	g.emit(fmt.Sprintf("newb e%d %d %s %s %s", l, cnt, p, fn, g.compTokens(cs, true, 0.02, 0.03)))
	return true
}

// opDupOmit: an archetype with two relation components A and B.  A first creation makes the table
// (A→p, B→x) exist; a second one names A→p TWICE and gives no target for B: the count of relations is
// right, every named relation matches the existing table — and B's target would be whatever that table
// has (defect D26).  Through the ID-based and the typed path; also as an addition to an entity that has
// neither.  Must be rejected without effect.
func (g *Gen) opDupOmit() bool {
	var rels, plain []int
	for _, n := range g.regNames() {
		if g.isRel(n) {
			rels = append(rels, n)
		} else {
			plain = append(plain, n)
		}
	}
	alive := g.aliveLabels()
	if len(rels) < 2 || len(alive) == 0 {
		return false
	}
	g.drainQueries()
	perm := g.rng.Perm(len(rels))
	cs := g.tupleOrder([]int{rels[perm[0]], rels[perm[1]]})
	p, x := alive[g.pick(len(alive))], alive[g.pick(len(alive))]
	l := g.nextEnt
	g.nextEnt += 2
	g.ents = append(g.ents, l, l+1)
	g.emit(fmt.Sprintf("new e%d %s c%d>e%d c%d>e%d", l, g.path(cs, true), cs[0], p, cs[1], x))
	dup, omit := cs[0], cs[1]
	tp := p
	if g.chance(0.5) {
		dup, omit, tp = cs[1], cs[0], x
	}
	// the components stay in the order that has a typed instantiation
	toks := func() string {
		var parts []string
		for _, n := range cs {
			if n == dup {
				parts = append(parts, fmt.Sprintf("c%d>e%d", n, tp))
			} else {
				parts = append(parts, fmt.Sprintf("c%d", n))
			}
		}
		_ = omit
		return strings.Join(parts, " ") + fmt.Sprintf(" r%d>e%d", dup, tp)
	}
	g.emit(fmt.Sprintf("new e%d %s %s", l+1, g.path(cs, true), toks()))
	if len(plain) > 0 && g.chance(0.6) {
		pc := plain[g.pick(len(plain))]
		a := g.nextEnt
		g.nextEnt++
		g.ents = append(g.ents, a)
		g.emit(fmt.Sprintf("new e%d u c%d:%d", a, pc, g.val()))
		// the addition of both relation components to it: again A twice, B without a target
		g.emit(fmt.Sprintf("add e%d %s %s", a, g.path(cs, true), toks()))
	}
	return true
}

// opBatchTarget: a batch (often EMPTY) that names a fresh entity as relation target, the removal of that
// target, and the removed entity named as target again through the ID-based API, which must be rejected
// (C10) — the bookkeeping for a target must not depend on how many entities the batch created (C04).
func (g *Gen) opBatchTarget() bool {
	var rels []int
	for _, n := range g.regNames() {
		if g.isRel(n) {
			rels = append(rels, n)
		}
	}
	if len(rels) == 0 {
		return false
	}
	g.drainQueries()
	t := g.nextEnt
	g.nextEnt++
	g.ents = append(g.ents, t)
	g.emit(fmt.Sprintf("new0 e%d", t))
	r := rels[g.pick(len(rels))]
	cnt := 0
	if g.chance(0.4) {
		cnt = 1 + g.pick(2)
	}
	l := g.nextEnt
	g.nextEnt += cnt
	for i := 0; i < cnt; i++ {
		g.ents = append(g.ents, l+i)
	}
	fn := "fn"
	if g.chance(0.5) {
		fn = "nofn"
	}
	tok := fmt.Sprintf("c%d>e%d", r, t)
	if g.chance(0.5) {
		tok = fmt.Sprintf("c%d:%d>e%d", r, g.val(), t)
	}
	var plain []int
	for _, n := range g.regNames() {
		if !g.isRel(n) {
			plain = append(plain, n)
		}
	}
	if len(plain) > 0 && g.chance(0.4) {
		// the fresh target enters through a batch ADD of the relation component: two entities with
		// one plain component, a filter for exactly that component, AddBatch(rel>t)
		pc := plain[g.pick(len(plain))]
		l = g.nextEnt
		g.nextEnt += 2
		g.ents = append(g.ents, l, l+1)
		cnt = 2
		g.emit(fmt.Sprintf("newb e%d 2 m nofn c%d:%d", l, pc, g.val()))
		fl := g.nextFilter
		g.nextFilter++
		g.emit(fmt.Sprintf("filter f%d typed with=c%d excl", fl, pc))
		if _, ok := g.h.filters[fl]; ok {
			g.filterLabels = append(g.filterLabels, fl)
			g.typedFilters = append(g.typedFilters, fl)
		}
		g.emit(fmt.Sprintf("xchgb f%d m %s +%s", fl, fn, tok))
	} else {
		g.emit(fmt.Sprintf("newb e%d %d m %s %s", l, cnt, fn, tok))
	}
	g.emit(fmt.Sprintf("del e%d", t))
	g.emit("stats")
	// the removed entity as relation target, through the ID-based API
	l2 := g.nextEnt
	g.nextEnt++
	g.ents = append(g.ents, l2)
	g.emit(fmt.Sprintf("new e%d u %s", l2, tok))
	if cnt > 0 && g.chance(0.5) {
		g.emit(fmt.Sprintf("setrel e%d u c%d>e%d", l, r, t))
	}
	return true
}

// opBigTable: a table beyond 64 rows or well below (the threshold at which the code switches from row-wise
// zeroing to bulk clearing), emptied by Reset / batch removal / batch exchange, then refilled
// with components added WITHOUT initial values, which must read zero.
func (g *Gen) opBigTable() bool {
	if !g.chance(0.12) {
		return false
	}
	names := g.regNames()
	var plain []int
	for _, n := range names {
		if !g.isRel(n) {
			plain = append(plain, n)
		}
	}
	cs := g.tupleOrder(g.subset(plain, 1, 3))
	if len(cs) == 0 {
		return false
	}
	g.drainQueries()
	p := g.path(cs, false)
	if p == "" {
		cs = cs[:1]
		p = "m"
	}
	cnt := 65 + g.pick(40)
	if g.chance(0.4) {
		cnt = 2 + g.pick(30) // the row-wise zeroing path (up to 64 rows)
	}
	l := g.nextEnt
	g.nextEnt += cnt
	for i := 0; i < cnt; i++ {
		g.ents = append(g.ents, l+i)
	}
	g.emit(fmt.Sprintf("newb e%d %d %s fn %s", l, cnt, p, g.compTokens(cs, true, 0, 0)))
	// empty the table
	fl := g.nextFilter
	g.nextFilter++
	g.emit(fmt.Sprintf("filter f%d typed with=%s excl", fl, joinComps(cs)))
	if _, ok := g.h.filters[fl]; ok {
		g.filterLabels = append(g.filterLabels, fl)
		g.typedFilters = append(g.typedFilters, fl)
	}
	switch g.pick(3) {
	case 0:
		g.emit("reset")
		for _, f := range g.typedFilters {
			g.h.filters[f].cached = false
		}
		g.ents = nil
	case 1:
		g.emit(fmt.Sprintf("delb f%d nofn", fl))
	default:
		if g.chance(0.5) {
			g.emit("shrink")
		}
		g.emit(fmt.Sprintf("delb f%d fn", fl))
	}
	// refill without values
	cnt2 := cnt/2 + g.pick(cnt)
	l2 := g.nextEnt
	g.nextEnt += cnt2
	for i := 0; i < cnt2; i++ {
		g.ents = append(g.ents, l2+i)
	}
	g.emit(fmt.Sprintf("newb e%d %d %s nofn %s", l2, cnt2, p, g.compTokens(cs, false, 0, 0)))
	g.OpKinds["(big-table)"]++
	return true
}

func (g *Gen) batchFilter() (int, bool) {
	if len(g.typedFilters) == 0 {
		return 0, false
	}
	return g.typedFilters[g.pick(len(g.typedFilters))], true
}

func (g *Gen) opXchgBatch() bool {
	l, ok := g.batchFilter()
	if !ok {
		return false
	}
	names := g.regNames()
	fo := g.h.filters[l]
	inFilter := map[int]bool{}
	for _, n := range fo.names {
		inFilter[n] = true
	}
	fn := "fn"
	if g.chance(0.3) {
		fn = "nofn"
	}
	var line string
	if g.chance(g.cfg.typedBias) {
		// typed multi-component batch add / exchange / remove through MapN / ExchangeN
		var cand []int
		for _, n := range names {
			if !inFilter[n] {
				cand = append(cand, n)
			}
		}
		add := g.tupleOrder(g.subset(cand, 1, 3))
		var cs []*regComp
		for _, n := range add {
			cs = append(cs, g.h.comps[n])
		}
		if _, ok := mapperCtors[tupleKey(cs)]; ok && len(add) > 0 {
			rem := ""
			if _, ok2 := exchangeCtors[tupleKey(cs)]; ok2 && len(fo.names) > 0 && g.chance(0.4) {
				pickRem := fo.names[g.pick(len(fo.names))]
				for _, n := range fo.names {
					if g.isRel(n) && g.chance(0.7) {
						pickRem = n // several source tables (one per target) collapse into one destination
					}
				}
				rem = fmt.Sprintf(" -c%d", pickRem)
			}
			var parts []string
			for _, tok := range strings.Fields(g.compTokens(add, true, 0.02, 0.03)) {
				parts = append(parts, "+"+tok)
			}
			g.emit(fmt.Sprintf("xchgb f%d t %s%s %s%s", l, fn, g.extraRels(l, 0.3), strings.Join(parts, " "), rem))
			return true
		}
	}
	if g.chance(0.5) {
		// add one component not required by the filter (mostly)
		var cand []int
		for _, n := range names {
			if !inFilter[n] || g.chance(0.05) {
				cand = append(cand, n)
			}
		}
		cs := g.subset(cand, 1, 1)
		if len(cs) == 0 {
			return false
		}
		line = fmt.Sprintf("xchgb f%d m %s%s +%s", l, fn, g.extraRels(l, 0.3), g.compTokens(cs, true, 0.02, 0.03))
	} else {
		cand := fo.names
		if len(cand) == 0 || g.chance(0.1) {
			cand = names
		}
		cs := g.subset(cand, 1, 1)
		line = fmt.Sprintf("xchgb f%d m %s%s -c%d", l, fn, g.extraRels(l, 0.3), cs[0])
	}
	g.emit(line)
	return true
}

func (g *Gen) opSetRelBatch() bool {
	l, ok := g.batchFilter()
	if !ok {
		return false
	}
	fo := g.h.filters[l]
	var cand []int
	for _, n := range fo.names {
		if g.isRel(n) {
			cand = append(cand, n)
		}
	}
	if len(cand) == 0 {
		if !g.chance(0.05) {
			return false
		}
		cand = g.regNames()
	}
	n := cand[g.pick(len(cand))]
	fn := "fn"
	if g.chance(0.3) {
		fn = "nofn"
	}
	g.emit(fmt.Sprintf("setrelb f%d m %s%s c%d>%s", l, fn, g.extraRels(l, 0.3), n, g.pickTarget(0.03)))
	return true
}

func (g *Gen) opDelBatch() bool {
	l, ok := g.batchFilter()
	if !ok {
		return false
	}
	fn := "fn"
	if g.chance(0.3) {
		fn = "nofn"
	}
	g.emit(fmt.Sprintf("delb f%d %s%s", l, fn, g.extraRels(l, 0.4)))
	return true
}

func (g *Gen) opQOpen() bool {
	if len(g.filterLabels) == 0 || len(g.openQueries) >= g.cfg.maxOpen {
		return false
	}
	l := g.filterLabels[g.pick(len(g.filterLabels))]
	q := g.nextQuery
	g.nextQuery++
	g.emit(fmt.Sprintf("qopen q%d f%d%s", q, l, g.extraRels(l, 0.3)))
	if _, ok := g.h.queries[q]; ok {
		g.openQueries = append(g.openQueries, q)
	}
	return true
}

func (g *Gen) opQStep() bool {
	if len(g.openQueries) == 0 {
		return false
	}
	i := g.pick(len(g.openQueries))
	q := g.openQueries[i]
	switch g.pick(10) {
	case 0:
		g.emit(fmt.Sprintf("qcount q%d", q))
	case 1:
		g.emit(fmt.Sprintf("qat q%d %d", q, g.pick(6)))
	case 2, 3:
		g.emit(fmt.Sprintf("qclose q%d", q))
		g.openQueries = append(g.openQueries[:i], g.openQueries[i+1:]...)
		if g.chance(g.cfg.misuse * 0.7) {
			for n := 1 + g.pick(2); n > 0; n-- {
				g.emit(fmt.Sprintf("%s q%d", []string{"qnext", "qnext", "qget", "qclose"}[g.pick(4)], q))
			}
		}
	case 4:
		g.emit(fmt.Sprintf("qget q%d", q))
	default:
		g.emit(fmt.Sprintf("qnext q%d", q))
		// while the query has a current row: read one arbitrary registered component through the
		// query, whether or not the filter names it or the current archetype has it
		if g.queryActive(q) && g.chance(0.3) {
			if qo := g.h.queries[q]; qo != nil && qo.uq != nil {
				names := g.regNames()
				g.emit(fmt.Sprintf("qgetc q%d c%d", q, names[g.pick(len(names))]))
				g.h.lastOK, g.h.lastRes = true, "1 "
			}
		}
		// an exhausted (or failed) query is dropped; with some probability it gets one to three
		// further misuse calls (Next/Get/Close after exhaustion)
		if !g.queryActive(q) {
			g.openQueries = append(g.openQueries[:i], g.openQueries[i+1:]...)
			if g.chance(g.cfg.misuse) {
				// every further access must be rejected, not only the first (defect D16)
				for n := 1 + g.pick(3); n > 0; n-- {
					g.emit(fmt.Sprintf("%s q%d", []string{"qnext", "qnext", "qget", "qclose"}[g.pick(4)], q))
				}
			}
		}
	}
	return true
}

// opLockExhaustion: open queries until 64 are open, request the 65th (must be rejected with the
// world still usable), close one (possibly twice), open another, then go on: up to 64 queries may
// be open at once, and a rejected 65th must not disturb the lock.
func (g *Gen) opLockExhaustion() bool {
	if len(g.filterLabels) == 0 || g.cfg.maxOpen < 64 || !g.chance(0.25) {
		return false
	}
	open := func() int {
		l := g.filterLabels[g.pick(len(g.filterLabels))]
		q := g.nextQuery
		g.nextQuery++
		g.emit(fmt.Sprintf("qopen q%d f%d", q, l))
		if _, ok := g.h.queries[q]; ok {
			g.openQueries = append(g.openQueries, q)
		}
		return q
	}
	for n := 0; len(g.openQueries) < 64 && n < 80; n++ {
		open()
	}
	if len(g.openQueries) < 64 {
		return true
	}
	open() // the 65th
	g.emit("locked")
	// the world must still work: close one, (close it again), open another, a structural op is rejected
	i := g.pick(len(g.openQueries))
	q := g.openQueries[i]
	g.emit(fmt.Sprintf("qclose q%d", q))
	g.openQueries = append(g.openQueries[:i], g.openQueries[i+1:]...)
	if g.chance(0.5) {
		g.emit(fmt.Sprintf("qclose q%d", q))
	}
	open()
	if g.chance(0.5) {
		open() // again the 65th
	}
	g.emit(fmt.Sprintf("new0 e%d", g.nextEnt))
	g.ents = append(g.ents, g.nextEnt)
	g.nextEnt++
	if g.chance(0.5) {
		g.drainQueries()
		g.emit("locked")
	}
	g.OpKinds["(lock-exhaustion)"]++
	return true
}

// queryActive reports whether the last step left the query with a current row.
func (g *Gen) queryActive(q int) bool {
	return g.h.lastOK && strings.HasPrefix(g.h.lastRes, "1 ")
}

func (g *Gen) drainQueries() {
	for _, q := range g.openQueries {
		g.emit(fmt.Sprintf("qclose q%d", q))
	}
	g.openQueries = nil
}

func (g *Gen) opObsToggle() bool {
	if len(g.obsLabels) == 0 {
		return false
	}
	l := g.obsLabels[g.pick(len(g.obsLabels))]
	if g.chance(0.5) {
		g.emit(fmt.Sprintf("ounreg o%d", l))
	} else {
		g.emit(fmt.Sprintf("oreg o%d", l))
	}
	return true
}

// opObsChurn: several observers of ONE event type — a mix of wildcard observers (no For, no With)
// and observers with components — registered, then some of them un-registered in random order,
// followed by operations that trigger the event. The manager's per-event aggregates (union masks,
// wildcard flags, the early-outs built on them) depend on the registration history; whether a
// registered observer fires must not (C08).
func (g *Gen) opObsChurn() bool {
	if g.cfg.maxObs == 0 {
		return false
	}
	names := g.regNames()
	if len(names) == 0 {
		return false
	}
	events := []string{"create", "remove", "add", "rem", "set"}
	ev := events[g.pick(len(events))]
	if g.chance(0.15) && len(g.customEvents) > 0 {
		ev = fmt.Sprint(g.customEvents[g.pick(len(g.customEvents))])
	}
	n := 3 + g.pick(3)
	var ls []int
	for i := 0; i < n; i++ {
		l := g.nextObs
		g.nextObs++
		line := fmt.Sprintf("obs o%d %s", l, ev)
		if !g.chance(0.35) { // otherwise a wildcard observer
			if g.chance(0.7) {
				line += " for=" + joinComps(g.subset(names, 1, 1))
				if g.chance(0.5) {
					line += " typed"
				}
			}
			if g.chance(0.4) {
				line += " with=" + joinComps(g.subset(names, 1, 1))
			}
		}
		line += " script=look"
		g.emit(line)
		g.obsLabels = append(g.obsLabels, l)
		g.emit(fmt.Sprintf("oreg o%d", l))
		ls = append(ls, l)
	}
	g.rng.Shuffle(len(ls), func(i, j int) { ls[i], ls[j] = ls[j], ls[i] })
	k := 1 + g.pick(n-1)
	for _, l := range ls[:k] {
		g.emit(fmt.Sprintf("ounreg o%d", l))
	}
	for i := 0; i < 5; i++ {
		switch ev {
		case "create":
			g.opNew()
		case "remove":
			if i%2 == 0 {
				g.opNew()
			} else {
				g.opDel()
			}
		case "add":
			if i == 0 {
				g.opNew()
			} else {
				g.opAdd()
			}
		case "rem":
			if i == 0 {
				g.opNew()
			} else {
				g.opRem()
			}
		case "set":
			if i == 0 {
				g.opNew()
			} else {
				g.opSet()
			}
		default:
			g.opEmit()
		}
	}
	return true
}

// opObsMove: the world is replaced by a new one in which the component types are registered in rotated
// order (other IDs); the observer objects survive, un-registered, and some are registered in the new
// world, followed by operations that trigger events (an observer object may move between worlds)
func (g *Gen) opObsMove() bool {
	if g.cfg.maxObs == 0 || len(g.obsLabels) == 0 || !g.chance(0.3) {
		return false
	}
	g.drainQueries()
	caps := []int{1, 2, 64, 1024}
	g.emit(fmt.Sprintf("rebuild %d %d rot", caps[g.pick(len(caps))], []int{1, 2, 128}[g.pick(3)]))
	g.filterLabels, g.typedFilters, g.openQueries = nil, nil, nil
	g.ents = nil
	n := 1 + g.pick(3)
	for i := 0; i < n; i++ {
		g.emit(fmt.Sprintf("oreg o%d", g.obsLabels[g.pick(len(g.obsLabels))]))
	}
	for i := 0; i < 3; i++ {
		g.opNew()
	}
	g.opAdd()
	g.opSet()
	g.opRem()
	g.opDel()
	return true
}

func (g *Gen) opEmit() bool {
	if len(g.customEvents) == 0 {
		return false
	}
	ev := g.customEvents[g.pick(len(g.customEvents))]
	el, l, alive := g.pickEntity(g.cfg.stale)
	if el == "" {
		el = "z"
	}
	var cs []int
	if alive && g.chance(0.6) {
		var has []int
		for n := range g.compsOf(l) {
			has = append(has, n)
		}
		sort.Ints(has)
		cs = g.subset(has, 0, 2)
	} else if g.chance(0.1) {
		cs = g.subset(g.regNames(), 1, 1)
	}
	g.emit(strings.TrimSpace(fmt.Sprintf("emit %d %s %s", ev, el, joinSp(cs))))
	return true
}

func (g *Gen) opDumpLoad() bool {
	d := g.nextDump
	// sometimes roll back to an OLDER snapshot again: a dump must stay valid however the world
	// that loaded it was changed afterwards
	if d > 0 && g.chance(0.35) {
		old := g.pick(d)
		if saved, ok := g.dumpEnts[old]; ok {
			g.drainQueries()
			g.emit("reset")
			for _, l := range g.typedFilters {
				g.h.filters[l].cached = false
			}
			g.ents = nil
			g.emit(fmt.Sprintf("load d%d", old))
			if g.h.lastOK {
				g.ents = append([]int(nil), saved...)
				for i := 0; i < 4 && len(saved) > 0; i++ {
					g.emit(fmt.Sprintf("alive e%d", saved[g.pick(len(saved))]))
				}
				// a removal right after the load, before the pool grows: it writes a generation into the pool's
				// array, which must not be the dump's
				if g.chance(0.5) && len(saved) > 0 {
					g.emit(fmt.Sprintf("del e%d", saved[g.pick(len(saved))]))
				}
				for i := 0; i < 2; i++ {
					l := g.nextEnt
					g.nextEnt++
					g.ents = append(g.ents, l)
					g.emit(fmt.Sprintf("new0 e%d", l))
				}
				// the SAME dump value loaded a second time, after the world that loaded it first went on:
				// the dump must not have been changed through the first world
				if g.chance(0.5) {
					if len(saved) > 0 {
						g.emit(fmt.Sprintf("del e%d", saved[g.pick(len(saved))]))
					}
					g.emit("reset")
					g.ents = nil
					g.emit(fmt.Sprintf("load d%d", old))
					if g.h.lastOK {
						g.ents = append([]int(nil), saved...)
						for i := 0; i < 4 && len(saved) > 0; i++ {
							g.emit(fmt.Sprintf("alive e%d", saved[g.pick(len(saved))]))
						}
						for i := 0; i < 3; i++ {
							l := g.nextEnt
							g.nextEnt++
							g.ents = append(g.ents, l)
							g.emit(fmt.Sprintf("new0 e%d", l))
						}
					}
				}
			}
			return true
		}
	}
	g.nextDump++
	g.emit(fmt.Sprintf("dump d%d", d))
	if g.dumpEnts == nil {
		g.dumpEnts = map[int][]int{}
	}
	g.dumpEnts[d] = append([]int(nil), g.ents...)
	if g.chance(0.25) {
		// load into a NEW, empty world (same component types), usually one with a smaller initial
		// capacity than the dump has entries
		g.drainQueries()
		caps := []int{1, 1, 2, 4, 64}
		g.emit(fmt.Sprintf("rebuild %d %d", caps[g.pick(len(caps))], []int{1, 2, 128}[g.pick(3)]))
		g.filterLabels, g.typedFilters, g.obsLabels, g.openQueries = nil, nil, nil, nil
		saved := g.ents
		g.ents = nil
		g.emit(fmt.Sprintf("load d%d", d))
		if g.h.lastOK {
			g.ents = saved
			for i := 0; i < 6 && len(saved) > 0; i++ {
				g.emit(fmt.Sprintf("alive e%d", saved[g.pick(len(saved))]))
			}
		}
		for i := 0; i < 3; i++ {
			l := g.nextEnt
			g.nextEnt++
			g.ents = append(g.ents, l)
			g.emit(fmt.Sprintf("new0 e%d", l))
		}
		for i := 0; i < 2 && len(g.ents) > 0; i++ {
			g.emit(fmt.Sprintf("del e%d", g.ents[g.pick(len(g.ents))]))
		}
		g.emit("stats")
		return true
	}
	if g.chance(0.7) {
		g.drainQueries()
		g.emit("reset")
		for _, l := range g.typedFilters {
			g.h.filters[l].cached = false
		}
		saved := g.ents
		g.ents = nil
		g.emit(fmt.Sprintf("load d%d", d))
		if g.h.lastOK {
			g.ents = saved
			// alive/dead status of the source world's handles
			for i := 0; i < 4 && len(saved) > 0; i++ {
				g.emit(fmt.Sprintf("alive e%d", saved[g.pick(len(saved))]))
			}
		}
		// consecutive creations must now return the handles the source would have returned
		for i := 0; i < 2; i++ {
			l := g.nextEnt
			g.nextEnt++
			g.ents = append(g.ents, l)
			g.emit(fmt.Sprintf("new0 e%d", l))
		}
	} else {
		g.emit(fmt.Sprintf("load d%d", d))
	}
	return true
}

// opCodec: binary/JSON round trips on edge values, malformed lengths.
func (g *Gen) opCodec() bool {
	edge := []uint64{0, 1, 2, 255, 256, 65535, 1 << 16, 1<<31 - 1, 1 << 31, 1<<31 + 5, 1<<32 - 2, 1<<32 - 1}
	pick := func() uint64 {
		if g.chance(0.7) {
			return edge[g.pick(len(edge))]
		}
		return uint64(g.rng.Uint32())
	}
	if g.chance(0.3) {
		g.emit(fmt.Sprintf("codecbad %d", g.pick(17)))
	} else {
		g.emit(fmt.Sprintf("codec %d %d", pick(), pick()))
	}
	return true
}

// opLockedRegister: registering a new component type on a locked world must be rolled back
// completely; afterwards the most recently registered types are used in new archetypes.
func (g *Gen) opLockedRegister() bool {
	if len(g.filterLabels) == 0 || len(g.h.comps)+g.h.fillers >= g.cfg.maxComps {
		return false
	}
	q := g.nextQuery
	g.nextQuery++
	g.emit(fmt.Sprintf("qopen q%d f%d", q, g.filterLabels[g.pick(len(g.filterLabels))]))
	if g.h.queries[q] == nil {
		return true
	}
	// a static type that is not registered yet: rejected while locked (twice: the roll-back must be
	// complete), registered with the next sequential ID afterwards, and usable
	var unreg []int
	for n := 0; n < numStatic; n++ {
		if _, ok := g.h.comps[n]; !ok {
			unreg = append(unreg, n)
		}
	}
	if len(unreg) > 0 && g.chance(0.5) {
		n := unreg[g.pick(len(unreg))]
		info := staticComps[n]
		regLine := fmt.Sprintf("reg c%d %s %d", n, map[bool]string{true: "rel", false: "norel"}[info.kind == "rel"], info.size)
		g.emit(regLine)
		if g.chance(0.5) {
			g.emit(regLine)
		}
		g.emit(fmt.Sprintf("qclose q%d", q))
		if g.chance(0.3) && len(unreg) > 1 {
			// another type first: it must get the ID the rejected registration did not consume
			m := unreg[g.pick(len(unreg))]
			if m != n {
				mi := staticComps[m]
				g.emit(fmt.Sprintf("reg c%d %s %d", m, map[bool]string{true: "rel", false: "norel"}[mi.kind == "rel"], mi.size))
			}
		}
		g.emit(regLine)
		if _, ok := g.h.comps[n]; ok {
			g.lastRegs = append(g.lastRegs, n)
			l := g.nextEnt
			g.nextEnt++
			g.ents = append(g.ents, l)
			g.emit(fmt.Sprintf("new e%d u %s", l, g.compTokens([]int{n}, true, 0.02, 0.0)))
		}
		return true
	}
	g.emit("fill 1")
	if g.chance(0.4) {
		g.emit("fill 1") // the same filler type again (a rejected registration does not advance the counter)
	}
	g.emit(fmt.Sprintf("qclose q%d", q))
	if g.chance(0.5) {
		g.emit("fill 1")
	}
	// use the component registered last (and another one) in a new entity
	if len(g.lastRegs) > 0 {
		n := g.lastRegs[len(g.lastRegs)-1]
		cs := []int{n}
		if len(g.lastRegs) > 1 && g.chance(0.5) {
			cs = append(cs, g.lastRegs[g.pick(len(g.lastRegs)-1)])
		}
		l := g.nextEnt
		g.nextEnt++
		g.ents = append(g.ents, l)
		g.emit(fmt.Sprintf("new e%d u %s", l, g.compTokens(cs, true, 0.02, 0.0)))
	}
	return true
}

func (g *Gen) opRes() bool {
	r := g.pick(3)
	switch g.pick(3) {
	case 0:
		g.emit(fmt.Sprintf("res add r%d %d", r, g.val()))
	case 1:
		g.emit(fmt.Sprintf("res rem r%d", r))
	default:
		g.emit(fmt.Sprintf("res get r%d", r))
	}
	return true
}

// Run generates and executes nseq sequences of about nops operations each.
func (g *Gen) Run(nseq, nops int) {
	for s := 0; s < nseq; s++ {
		g.Seqs++
		g.customEvents = nil
		g.prelude()
		if g.chance(0.6) {
			g.customEvents = []int{0, 1, 2}
		}
		nf := g.cfg.minFilters + g.pick(4)
		for i := 0; i < nf; i++ {
			g.newFilter()
		}
		if g.cfg.maxObs > 0 {
			no := g.cfg.minObs + g.pick(g.cfg.maxObs-g.cfg.minObs+1)
			for i := 0; i < no; i++ {
				g.newObserver()
			}
		}
		if g.cfg.fullReg {
			// beyond the maximum, and on a locked world
			g.emit("fill 1")
			g.emit("fill 2")
		}
		ops := []opGen{
			{"new", 22, g.opNew}, {"add", 12, g.opAdd}, {"rem", 8, g.opRem}, {"xchg", 8, g.opXchg},
			{"set", 6, g.opSet}, {"setrel", 8, g.opSetRel}, {"del", 9, g.opDel}, {"copy", 3, g.opCopy},
			{"alive", 2, g.opAlive}, {"query", 8, g.opQuery}, {"freg", 4, g.opFilterReg},
			{"newb", 4, g.opNewBatch}, {"xchgb", 5, g.opXchgBatch}, {"setrelb", 3, g.opSetRelBatch},
			{"delb", 2, g.opDelBatch}, {"qopen", 3, g.opQOpen}, {"qstep", 0, g.opQStep},
			{"filter", 2, func() bool { g.newFilter(); return true }},
			{"obs", 1, func() bool {
				if g.cfg.maxObs == 0 {
					return false
				}
				g.newObserver()
				return true
			}},
			{"otoggle", 2, g.opObsToggle}, {"emit", 3, g.opEmit}, {"obschurn", 1, g.opObsChurn}, {"obsmove", 1, g.opObsMove},
			{"stats", 2, func() bool { g.emit("stats"); return true }},
			{"shrink", 2, func() bool {
				if g.chance(0.5) {
					g.emit("shrink")
				} else {
					g.emit("shrink0")
				}
				return true
			}},
			{"reset", 1, func() bool {
				if !g.chance(0.3) {
					return false
				}
				g.drainQueries()
				old := g.aliveLabels()
				g.emit("reset")
				for _, l := range g.typedFilters {
					g.h.filters[l].cached = false
				}
				// handles of the previous epoch must not be alive any more
				for i := 0; i < 3 && i < len(old); i++ {
					g.emit(fmt.Sprintf("alive e%d", old[g.pick(len(old))]))
				}
				g.ents = nil
				return true
			}},
			{"dumpload", 1, func() bool {
				if !g.chance(0.3) {
					return false
				}
				return g.opDumpLoad()
			}},
			{"res", 1, g.opRes},
			{"codec", 1, g.opCodec},
			{"lockedreg", 1, g.opLockedRegister},
			{"relbatch", 2, g.opRelBatchNoFn},
			{"typedwide", 1, g.opTypedWide},
			{"twinq", 2, g.opTwinQueries},
			{"twinx", 1, g.opTwinExact},
			{"staleq", 1, g.opStaleTargetQuery},
			{"tuplescn", 1, g.opTupleScenario},
			{"locked", 1, func() bool { g.emit("locked"); return true }},
			{"getrel", 2, g.opGetRel},
			{"bigtable", 1, g.opBigTable},
			{"batchtarget", 1, g.opBatchTarget},
			{"dupomit", 1, g.opDupOmit},
			{"lockexh", 1, g.opLockExhaustion},
		}
		total := 0
		for i := range ops {
			if m, ok := g.cfg.mult[ops[i].name]; ok {
				ops[i].weight = int(float64(ops[i].weight)*m + 0.5)
			}
			total += ops[i].weight
		}
		for n := 0; n < nops; {
			// while queries are open, mostly step/close them
			if len(g.openQueries) > 0 && g.chance(0.6) {
				if g.opQStep() {
					n++
					g.OpKinds["qstep"]++
				}
				continue
			}
			r := g.pick(total)
			for _, o := range ops {
				if r < o.weight {
					if o.fn() {
						n++
						g.OpKinds[o.name]++
					}
					break
				}
				r -= o.weight
			}
			if a := len(g.aliveLabels()); a > g.MaxEntities {
				g.MaxEntities = a
			}
		}
		g.drainQueries()
		g.emit("stats")
		if st := g.h.w.Stats(); len(st.Archetypes) > g.MaxArch {
			g.MaxArch = len(st.Archetypes)
		}
	}
	for k, v := range g.h.panicCount {
		g.Panics[k] = v
	}
}

func (g *Gen) WriteStats(path string) {
	b, _ := json.MarshalIndent(g, "", " ")
	os.WriteFile(path, b, 0o644)
}

var _ = ecs.Entity{}
