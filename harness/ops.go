package main

import (
	"fmt"
	"reflect"
	"sort"
	"strconv"
	"strings"

	"github.com/mlange-42/ark/ecs"
)

// typedFilter / typedQuery / typedMapper are implemented by generated code (typed_gen.go) for
// a fixed set of component tuples; nil when a tuple is not instantiated.
type typedFilter interface {
	Query(rel ...ecs.Relation) typedQuery
	Batch(rel ...ecs.Relation) ecs.Batch
	Register()
	Unregister()
}

type typedQuery interface {
	Next() bool
	Entity() ecs.Entity
	Count() int
	EntityAt(i int) ecs.Entity
	Close()
	Row(h *H) []cv
}

var eventByName = map[string]ecs.EventType{
	"create": ecs.OnCreateEntity, "remove": ecs.OnRemoveEntity, "add": ecs.OnAddComponents,
	"rem": ecs.OnRemoveComponents, "set": ecs.OnSetComponents, "addrel": ecs.OnAddRelations,
	"remrel": ecs.OnRemoveRelations,
}

func (h *H) register(info *compInfo) (id ecs.ID, class string) {
	class = try(func() { id = info.id(h.w) })
	return
}

func (h *H) targetsOf(a *compArgs) []ecs.Entity {
	var ts []ecs.Entity
	for _, r := range a.rels {
		ts = append(ts, r.target)
	}
	return ts
}

// writeVals writes values through Unsafe.Get pointers.
func (h *H) writeVals(e ecs.Entity, a *compArgs) {
	for _, rc := range a.comps {
		if v, ok := a.vals[rc.info.name]; ok {
			rc.info.at(h.u.Get(e, rc.id)).SetV(v)
		}
	}
}

// aliveSet returns all alive entities, in Filter0 iteration order.
func (h *H) aliveList() []ecs.Entity {
	var out []ecs.Entity
	f := ecs.NewFilter0(h.w)
	q := f.Query()
	for q.Next() {
		out = append(out, q.Entity())
	}
	return out
}

// Step executes one op line.
func (h *H) Step(line string) {
	toks := strings.Fields(line)
	if len(toks) == 0 {
		return
	}
	h.lineNo++
	h.opCount[toks[0]]++
	skip := func() { h.emit("skip") }
	switch toks[0] {
	case "world":
		if len(toks) < 3 {
			h.emit("bad-op")
			return
		}
		c, _ := strconv.Atoi(toks[1])
		r, _ := strconv.Atoi(toks[2])
		maxc := 256
		if len(toks) > 3 {
			if m, err := strconv.Atoi(toks[3]); err == nil {
				maxc = m
			}
		}
		ln := h.lineNo
		h.resetWorld(c, r, maxc, !hasFlag(toks[3:], "nosnap"))
		h.lineNo = ln
		h.emit("ok")
	case "reg":
		if len(toks) != 4 {
			h.emit("bad-op")
			return
		}
		n, ok := numOf(toks[1])
		if !ok || n >= numStatic {
			skip()
			return
		}
		info := &staticComps[n]
		id, class := h.register(info)
		if class == "" {
			rc := &regComp{info: info, id: id, m: info.newMap(h.w)}
			h.comps[n] = rc
			h.compByID[id.Index()] = rc
			h.regLog = append(h.regLog, n)
		}
		h.result(class, strconv.Itoa(int(id.Index())))
	case "rebuild":
		// a NEW world with the same component types registered in the same order; dumps survive.
		// `rebuild c r rot`: the types are registered in ROTATED order (the first one last), so every
		// component gets another ID, and the observer objects survive, un-registered: an observer object
		// may be registered in another world, where its components have other IDs (defect D22)
		if len(toks) != 3 && !(len(toks) == 4 && toks[3] == "rot") {
			h.emit("bad-op")
			return
		}
		c, _ := strconv.Atoi(toks[1])
		r, _ := strconv.Atoi(toks[2])
		log, dumps, maxc, snap, ln := h.regLog, h.dumps, h.maxComp, h.snap, h.lineNo
		var keepObs map[int]*obsObj
		if len(toks) == 4 {
			keepObs = h.obs
			for _, oo := range keepObs {
				oo := oo
				func() {
					defer func() { _ = recover() }()
					oo.unregister(h.w)
				}()
				oo.reg = false
			}
			if len(log) > 1 {
				log = append(append([]int(nil), log[1:]...), log[0])
			}
		}
		h.resetWorld(c, r, maxc, snap)
		if keepObs != nil {
			h.obs = keepObs
		}
		h.lineNo, h.dumps = ln, dumps
		class := try(func() {
			for _, n := range log {
				if n >= 0 {
					info := &staticComps[n]
					id := info.id(h.w)
					rc := &regComp{info: info, id: id, m: info.newMap(h.w)}
					h.comps[n] = rc
					h.compByID[id.Index()] = rc
				} else {
					ecs.TypeID(h.w, fillerType(-n-1))
					h.fillers++
				}
			}
		})
		h.regLog = log
		h.result(class, "")
	case "fill":
		cnt, _ := strconv.Atoi(toks[1])
		last := ""
		for i := 0; i < cnt; i++ {
			tp := fillerType(h.fillers)
			last = try(func() { ecs.TypeID(h.w, tp) })
			if last == "" {
				h.regLog = append(h.regLog, -h.fillers-1)
				h.fillers++ // a rejected registration is retried with the same type
			}
		}
		h.result(last, "")
	case "new":
		if len(toks) < 3 {
			h.emit("bad-op")
			return
		}
		l, ok1 := numOf(toks[1])
		a, ok2 := h.compArgs(toks[3:])
		if !ok1 || !ok2 {
			skip()
			return
		}
		var e ecs.Entity
		class := try(func() { e = h.doNew(toks[2], a) })
		if class == "" {
			h.addLabel(l, e)
		}
		h.result(class, fmt.Sprintf("e%d=%s", l, handle(e)))
	case "new0":
		l, ok := numOf(toks[1])
		if !ok {
			skip()
			return
		}
		var e ecs.Entity
		class := try(func() { e = h.w.NewEntity() })
		if class == "" {
			h.addLabel(l, e)
		}
		h.result(class, fmt.Sprintf("e%d=%s", l, handle(e)))
	case "add":
		e, ok1 := h.entOf(toks[1])
		a, ok2 := h.compArgs(toks[3:])
		if !ok1 || !ok2 {
			skip()
			return
		}
		h.result(try(func() { h.doAdd(toks[2], e, a) }), "")
	case "rem":
		e, ok1 := h.entOf(toks[1])
		a, ok2 := h.compArgs(toks[3:])
		if !ok1 || !ok2 {
			skip()
			return
		}
		h.result(try(func() { h.doRemove(toks[2], e, a) }), "")
	case "xchg":
		e, ok1 := h.entOf(toks[1])
		a, ok2 := h.compArgs(toks[3:])
		if !ok1 || !ok2 {
			skip()
			return
		}
		h.result(try(func() { h.doExchange(toks[2], e, a) }), "")
	case "set":
		e, ok1 := h.entOf(toks[1])
		a, ok2 := h.compArgs(toks[3:])
		if !ok1 || !ok2 {
			skip()
			return
		}
		class := try(func() { h.doSet(toks[2], e, a) })
		if class == "runtime" {
			class = "missing" // non-debug build: nil column dereference
		}
		h.result(class, "")
	case "getrel":
		// getrel eN <u|m> cM: the relation target of one component, which the entity may lack
		// (must be rejected in every build) or which may not be a relation (zero entity)
		e, ok1 := h.entOf(toks[1])
		cs, ok2 := h.compList(toks[3])
		if !ok1 || !ok2 || len(cs) != 1 {
			skip()
			return
		}
		var t ecs.Entity
		class := try(func() {
			if toks[2] == "m" {
				t = cs[0].m.GetRelation(e)
			} else {
				t = h.u.GetRelation(e, cs[0].id)
			}
		})
		if class == "runtime" {
			class = "missing" // non-debug build: nil column dereference
		}
		// the label of the target, not its raw handle: the comparison of a reset world with a new world
		// holds "up to the identity of entity handles" (batch removals recycle IDs in table order)
		h.result(class, h.entName(t))
	case "setrel":
		e, ok1 := h.entOf(toks[1])
		a, ok2 := h.compArgs(toks[3:])
		if !ok1 || !ok2 {
			skip()
			return
		}
		h.result(try(func() { h.doSetRel(toks[2], e, a, toks[3:]) }), "")
	case "del":
		e, ok := h.entOf(toks[1])
		if !ok {
			skip()
			return
		}
		h.result(try(func() { h.w.RemoveEntity(e) }), "")
	case "copy":
		l, ok1 := numOf(toks[1])
		e, ok2 := h.entOf(toks[2])
		if !ok1 || !ok2 {
			skip()
			return
		}
		var ne ecs.Entity
		class := try(func() { ne = h.w.CopyEntity(e) })
		if class == "" {
			h.addLabel(l, ne)
		}
		h.result(class, fmt.Sprintf("e%d=%s", l, handle(ne)))
	case "alive":
		e, ok := h.entOf(toks[1])
		if !ok {
			if n, ok2 := numOf(toks[1]); ok2 {
				e, ok = h.oldLabels[n]
			}
		}
		if !ok {
			skip()
			return
		}
		h.emit("ok " + strconv.Itoa(b2i(h.w.Alive(e))))
	case "filter":
		h.doFilter(toks)
	case "freg", "funreg":
		f, ok := numOf(toks[1])
		fo, ok2 := h.filters[f]
		if !ok || !ok2 {
			skip()
			return
		}
		class := try(func() {
			switch {
			case !fo.typed:
				// UnsafeFilter cannot be registered; mirror the model's typed-only op
				panic("filter is not registered, can't unregister")
			case toks[0] == "freg" && fo.tf != nil:
				fo.tf.Register()
			case toks[0] == "freg":
				fo.f0.Register()
			case fo.tf != nil:
				fo.tf.Unregister()
			default:
				fo.f0.Unregister()
			}
		})
		h.result(class, "")
	case "query":
		f, ok := numOf(toks[1])
		fo, ok2 := h.filters[f]
		extra, ok3 := h.optRels(toks[2:])
		if !ok || !ok2 || !ok3 {
			skip()
			return
		}
		var res string
		class := try(func() {
			q := h.openQuery(fo, extra)
			n := q.count()
			ats := make([]string, n)
			for i := 0; i < n; i++ {
				ats[i] = h.entName(q.entityAt(i))
			}
			var vis []string
			for q.next() {
				vis = append(vis, h.fmtQueryRow(fo, q))
			}
			res = fmt.Sprintf("n=%d at=%s visit=%s", n, strings.Join(ats, ","), strings.Join(vis, ","))
		})
		h.result(class, res)
	case "qopen":
		ql, ok0 := numOf(toks[1])
		f, ok := numOf(toks[2])
		fo, ok2 := h.filters[f]
		extra, ok3 := h.optRels(toks[3:])
		if !ok0 || !ok || !ok2 || !ok3 {
			skip()
			return
		}
		class := try(func() {
			q := h.openQuery(fo, extra)
			h.queries[ql] = &queryObj{f: fo, q0: q.q0, uq: q.uq, tq: q.tq}
		})
		h.result(class, "")
	case "qnext", "qget", "qclose", "qcount", "qat":
		ql, ok := numOf(toks[1])
		qo, ok2 := h.queries[ql]
		if !ok || !ok2 {
			skip()
			return
		}
		q := anyQuery{q0: qo.q0, uq: qo.uq, tq: qo.tq}
		var res string
		class := try(func() {
			switch toks[0] {
			case "qnext":
				if q.next() {
					res = "1 " + h.fmtQueryRow(qo.f, q)
				} else {
					res = "0"
				}
			case "qget":
				res = h.fmtQueryRow(qo.f, q)
			case "qclose":
				q.close()
			case "qcount":
				res = strconv.Itoa(q.count())
			case "qat":
				i, _ := strconv.Atoi(toks[2])
				res = h.entName(q.entityAt(i))
			}
		})
		if class == "runtime" {
			switch toks[0] {
			case "qnext":
				class = "queryDone" // non-debug build: index out of range after exhaustion
			case "qget":
				class = "queryGet" // non-debug build: nil table
			}
		}
		h.result(class, res)
	case "qgetc":
		// qgetc qN cM: UnsafeQuery.Get for one component, which may be outside the filter or missing
		// in the current archetype (only issued while the query has a current row)
		if len(toks) != 3 {
			h.emit("bad-op")
			return
		}
		ql, ok := numOf(toks[1])
		qo, ok2 := h.queries[ql]
		cn, ok3 := numOf(toks[2])
		if !ok || !ok2 || !ok3 || qo.uq == nil {
			skip()
			return
		}
		rc, ok4 := h.comps[cn]
		if !ok4 {
			skip()
			return
		}
		var res string
		class := try(func() {
			p := qo.uq.Get(rc.id)
			if p == nil {
				res = "nil"
				return
			}
			v := rc.info.at(p)
			if !v.Check() {
				res = "BAD"
			}
			res += strconv.FormatInt(v.GetV(), 10)
		})
		h.result(class, res)
	case "newb":
		l, ok1 := numOf(toks[1])
		cnt, err := strconv.Atoi(toks[2])
		a, ok2 := h.compArgs(toks[5:])
		if !ok1 || err != nil || !ok2 {
			skip()
			return
		}
		before := h.aliveBefore()
		class := try(func() { h.doNewBatch(toks[3], cnt, toks[4] == "fn", a) })
		h.batchLabels(class, l, before)
	case "new0b":
		l, ok1 := numOf(toks[1])
		cnt, err := strconv.Atoi(toks[2])
		if !ok1 || err != nil {
			skip()
			return
		}
		before := h.aliveBefore()
		class := try(func() {
			if toks[3] == "fn" {
				h.w.NewEntities(cnt, func(e ecs.Entity) {
					h.log = append(h.log, logRec{kind: "fn", e: e, locked: h.w.IsLocked()})
				})
			} else {
				h.w.NewEntities(cnt, nil)
			}
		})
		h.batchLabels(class, l, before)
	case "xchgb":
		f, ok := numOf(toks[1])
		fo, ok2 := h.filters[f]
		extra, ok3 := h.optRels(toks[4:])
		a, ok4 := h.compArgs(toks[4:])
		if !ok || !ok2 || !ok3 || !ok4 {
			skip()
			return
		}
		h.result(try(func() { h.doExchangeBatch(toks[2], fo, extra, toks[3] == "fn", a) }), "")
	case "setrelb":
		f, ok := numOf(toks[1])
		fo, ok2 := h.filters[f]
		extra, ok3 := h.optRels(toks[4:])
		a, ok4 := h.compArgs(toks[4:])
		if !ok || !ok2 || !ok3 || !ok4 {
			skip()
			return
		}
		h.result(try(func() { h.doSetRelBatch(toks[2], fo, extra, toks[3] == "fn", a, toks[4:]) }), "")
	case "delb":
		f, ok := numOf(toks[1])
		fo, ok2 := h.filters[f]
		extra, ok3 := h.optRels(toks[3:])
		if !ok || !ok2 || !ok3 {
			skip()
			return
		}
		h.result(try(func() {
			b := h.batchOf(fo, extra)
			if toks[2] == "fn" {
				h.w.RemoveEntities(b, func(e ecs.Entity) {
					h.log = append(h.log, logRec{kind: "fn", e: e, locked: h.w.IsLocked()})
				})
			} else {
				h.w.RemoveEntities(b, nil)
			}
		}), "")
	case "obs":
		h.doObs(toks)
	case "oreg", "ounreg":
		o, ok := numOf(toks[1])
		oo, ok2 := h.obs[o]
		if !ok || !ok2 {
			skip()
			return
		}
		// every observer registered at this point is first offered to another world (rejected; D25)
		var ls []int
		for l := range h.obs {
			ls = append(ls, l)
		}
		sort.Ints(ls)
		for _, l := range ls {
			h.elsewhere(h.obs[l])
		}
		h.result(try(func() {
			if toks[0] == "oreg" {
				h.regMain(oo)
			} else {
				h.unregMain(oo)
			}
		}), "")
	case "emit":
		ev, err := strconv.Atoi(toks[1])
		e, ok1 := h.entOf(toks[2])
		a, ok2 := h.compArgs(toks[3:])
		if err != nil || !ok1 || !ok2 {
			skip()
			return
		}
		h.result(try(func() {
			evt := h.w.Event(ecs.EventType(ev))
			cs := h.scratchComps(a.comps)
			if len(cs) > 0 {
				evt = evt.For(cs...)
				h.poisonComps()
			}
			evt.Emit(e)
		}), "")
	case "reset":
		class := try(func() { h.w.Reset() })
		if class == "" {
			for _, oo := range h.obs {
				oo.reg = false
			}
		}
		if class == "" {
			h.newEpoch()
		}
		h.result(class, "")
	case "shrink":
		var b bool
		class := try(func() { b = h.w.Shrink() })
		h.result(class, strconv.Itoa(b2i(b)))
	case "shrink0":
		var b bool
		class := try(func() { b = h.w.Shrink(0) })
		h.result(class, strconv.Itoa(b2i(b)))
	case "locked":
		// before the lock state is read: queries whose ARGUMENTS are rejected (a relation given by index to
		// the ID-based API; a relation component that is not one) must not take a lock bit on their way out
		h.rejectedQueries()
		h.emit("ok " + strconv.Itoa(b2i(h.w.IsLocked())))
	case "stats":
		var res string
		class := try(func() { res = h.fmtStats() })
		h.result(class, res)
	case "dump":
		d, ok := numOf(toks[1])
		if !ok {
			skip()
			return
		}
		var res string
		class := try(func() {
			dd := h.u.DumpEntities()
			do := &dumpObj{d: dd, labels: map[int]ecs.Entity{}, order: append([]int(nil), h.labelOrder...)}
			for k, v := range h.labels {
				do.labels[k] = v
			}
			h.dumps[d] = do
			ents := make([]string, len(dd.Entities))
			for i, e := range dd.Entities {
				ents[i] = handle(e)
			}
			al := make([]string, len(dd.Alive))
			for i, a := range dd.Alive {
				al[i] = strconv.Itoa(int(a))
			}
			res = fmt.Sprintf("ents=%s alive=%s next=%d avail=%d", strings.Join(ents, ","), strings.Join(al, ","), dd.Next, dd.Available)
		})
		h.result(class, res)
	case "load":
		d, ok := numOf(toks[1])
		dd, ok2 := h.dumps[d]
		if !ok || !ok2 {
			skip()
			return
		}
		class := try(func() { h.u.LoadEntities(&dd.d) })
		if class == "" {
			// the handles of the source world are valid again
			h.oldLabels = nil
			h.labels = map[int]ecs.Entity{}
			h.names = map[ecs.Entity]int{}
			h.labelOrder = append([]int(nil), dd.order...)
			for k, v := range dd.labels {
				h.labels[k] = v
			}
			for _, k := range dd.order {
				h.names[dd.labels[k]] = k
			}
		}
		h.result(class, "")
	case "codec":
		// codec <id> <gen>: binary and JSON round trip of a handle
		if len(toks) != 3 {
			h.emit("bad-op")
			return
		}
		id, err1 := strconv.ParseUint(toks[1], 10, 32)
		gen, err2 := strconv.ParseUint(toks[2], 10, 32)
		if err1 != nil || err2 != nil {
			h.emit("skip")
			return
		}
		var res string
		class := try(func() {
			var e ecs.Entity
			if err := e.UnmarshalJSON([]byte(fmt.Sprintf("[%d,%d]", id, gen))); err != nil {
				panic("harness: json " + err.Error())
			}
			bin, _ := e.MarshalBinary()
			app, _ := e.AppendBinary([]byte{0xAA})
			var back, back2 ecs.Entity
			errb := back.UnmarshalBinary(bin)
			errb2 := back2.UnmarshalBinary(app[1:])
			js, _ := e.MarshalJSON()
			var back3 ecs.Entity
			errj := back3.UnmarshalJSON(js)
			res = fmt.Sprintf("bin=%x rt=%s app=%s json=%s jrt=%s err=%d", bin, handle(back), handle(back2), string(js), handle(back3),
				b2i(errb != nil || errb2 != nil || errj != nil))
		})
		h.result(class, res)
	case "codecbad":
		// codecbad <len>: UnmarshalBinary of a byte string of that length
		n, err := strconv.Atoi(toks[1])
		if err != nil || n < 0 || n > 64 {
			h.emit("skip")
			return
		}
		var e ecs.Entity
		errb := e.UnmarshalBinary(make([]byte, n))
		h.emit(fmt.Sprintf("ok err=%d", b2i(errb != nil)))
	case "res":
		h.doRes(toks)
	default:
		h.emit("bad-op")
	}
}

func (h *H) optRels(toks []string) ([]relArg, bool) {
	s, ok := optVal(toks, "rel")
	if !ok {
		return nil, true
	}
	return h.relList(s)
}

// aliveBefore snapshots the alive set before a batch creation (nil if the world is locked
// and no query can be opened... a locked world still allows queries, so this always works).
func (h *H) aliveBefore() map[ecs.Entity]bool {
	m := map[ecs.Entity]bool{}
	try(func() {
		for _, e := range h.aliveList() {
			m[e] = true
		}
	})
	return m
}

func (h *H) batchLabels(class string, l int, before map[ecs.Entity]bool) {
	if class != "" {
		h.result(class, "")
		return
	}
	var parts []string
	i := 0
	for _, e := range h.aliveList() {
		if before[e] {
			continue
		}
		h.addLabel(l+i, e)
		parts = append(parts, fmt.Sprintf("e%d=%s", l+i, handle(e)))
		i++
	}
	h.result("", strings.Join(parts, " "))
}

func (h *H) batchOf(fo *filterObj, extra []relArg) ecs.Batch {
	if fo.tf != nil {
		return fo.tf.Batch(relsOf(extra)...)
	}
	if !fo.typed {
		panic("harness: unsafe filters have no batch")
	}
	return fo.f0.Batch(relsOf(extra)...)
}

func (h *H) doNew(path string, a *compArgs) ecs.Entity {
	switch path {
	case "u":
		var e ecs.Entity
		if len(a.rels) > 0 {
			e = h.u.NewEntityRel(idsOf(a.comps), relsOf(a.rels)...)
		} else {
			e = h.u.NewEntity(idsOf(a.comps)...)
		}
		h.writeVals(e, a)
		return e
	case "m":
		rc := a.comps[0]
		v, write := a.vals[rc.info.name]
		return rc.m.NewEntityFn(write, v, h.targetsOf(a))
	}
	return h.typedNew(a)
}

func (h *H) doAdd(path string, e ecs.Entity, a *compArgs) {
	switch path {
	case "u":
		if len(a.rels) > 0 {
			h.u.AddRel(e, idsOf(a.comps), relsOf(a.rels)...)
		} else {
			h.u.Add(e, idsOf(a.comps)...)
		}
		h.writeVals(e, a)
	case "m":
		rc := a.comps[0]
		v, write := a.vals[rc.info.name]
		rc.m.AddFn(e, write, v, h.targetsOf(a))
	default:
		h.typedAdd(e, a)
	}
}

func (h *H) doRemove(path string, e ecs.Entity, a *compArgs) {
	switch path {
	case "u":
		h.u.Remove(e, idsOf(a.comps)...)
	case "m":
		a.comps[0].m.Remove(e)
	default:
		h.typedRemove(e, a)
	}
}

func (h *H) doExchange(path string, e ecs.Entity, a *compArgs) {
	switch path {
	case "u":
		h.u.Exchange(e, idsOf(a.comps), idsOf(a.rem), relsOf(a.rels)...)
		h.writeVals(e, a)
	default:
		h.typedExchange(e, a)
	}
}

func (h *H) doSet(path string, e ecs.Entity, a *compArgs) {
	switch path {
	case "m":
		rc := a.comps[0]
		rc.m.Set(e, a.vals[rc.info.name])
	default:
		h.typedSet(e, a)
	}
}

func (h *H) doSetRel(path string, e ecs.Entity, a *compArgs, toks []string) {
	switch path {
	case "u":
		h.u.SetRelations(e, relsOf(a.rels)...)
	case "m":
		a.comps[0].m.SetRelation(e, a.rels[0].target)
	default:
		h.typedSetRel(e, a, toks)
	}
}

func (h *H) doFilter(toks []string) {
	l, ok := numOf(toks[1])
	if !ok {
		h.emit("skip")
		return
	}
	var with, without []*regComp
	ok1, ok2 := true, true
	if s, ok := optVal(toks[3:], "with"); ok {
		with, ok1 = h.compList(s)
	}
	hasWo := false
	if s, ok := optVal(toks[3:], "without"); ok {
		without, ok2 = h.compList(s)
		hasWo = true
	}
	if !ok1 {
		with = nil
	}
	if !ok2 {
		without = nil
		hasWo = false
	}
	rels, ok3 := h.optRels(toks[3:])
	if !ok3 {
		h.emit("skip")
		return
	}
	excl := hasFlag(toks[3:], "excl")
	fo := &filterObj{typed: toks[2] != "unsafe", ids: idsOf(with)}
	for _, c := range with {
		fo.names = append(fo.names, c.info.name)
	}
	class := try(func() {
		if fo.typed {
			if toks[2] == "tuple" {
				fo.tf = h.typedFilterFor(with, without, hasWo, excl, rels)
				return
			}
			f := ecs.NewFilter0(h.w)
			f = f.With(h.scratchComps(with)...)
			if hasWo && len(without) > 0 {
				f = f.Without(h.scratchComps(without)...)
			}
			h.poisonComps()
			if excl {
				f = f.Exclusive()
			}
			if len(rels) > 0 {
				f = f.Relations(relsOf(rels)...)
			}
			fo.f0 = f
		} else {
			f := ecs.NewUnsafeFilter(h.w, idsOf(with)...)
			if hasWo && len(without) > 0 {
				f = f.Without(idsOf(without)...)
			}
			if excl {
				f = f.Exclusive()
			}
			fo.uf = f
		}
	})
	if class == "" {
		h.filters[l] = fo
	}
	h.result(class, "")
}

func (h *H) doObs(toks []string) {
	l, ok := numOf(toks[1])
	if !ok {
		h.emit("skip")
		return
	}
	var evt ecs.EventType
	if e, ok := eventByName[toks[2]]; ok {
		evt = e
	} else if n, err := strconv.Atoi(toks[2]); err == nil {
		evt = ecs.EventType(n)
	} else {
		h.emit("skip")
		return
	}
	get := func(key string) []ecs.Comp {
		s, ok := optVal(toks[3:], key)
		if !ok {
			return nil
		}
		cs, ok := h.compList(s)
		if !ok {
			return nil
		}
		return h.scratchComps(cs)
	}
	// `typed`: through Observe1-4 when there is an instantiation for the observed components
	var forComps []*regComp
	var to typedObserver
	if hasFlag(toks[3:], "typed") {
		if s, ok := optVal(toks[3:], "for"); ok {
			if cs, ok := h.compList(s); ok && len(cs) > 0 {
				if ctor, ok := observerCtors[tupleKey(cs)]; ok {
					to, forComps = ctor(evt), cs
				} else if ctor, ok := observerCtors[tupleKey(cs[:len(cs)-1])]; ok && len(cs) > 1 {
					// the last observed component through For(...) in addition to the type parameters
					to, forComps = ctor(evt), cs[:len(cs)-1]
					to.For(h.scratchComps(cs[len(cs)-1:]))
				}
			}
		}
	}
	var o *ecs.Observer
	if to != nil {
		if cs := get("with"); len(cs) > 0 {
			to.With(cs)
		}
		if cs := get("without"); len(cs) > 0 {
			to.Without(cs)
		}
		if hasFlag(toks[3:], "excl") {
			to.Exclusive()
		}
	} else {
		o = ecs.Observe(evt)
		if cs := get("for"); len(cs) > 0 {
			o = o.For(cs...)
		}
		// "method calls can be chained, which has the same effect as calling with multiple arguments":
		// on odd lines a list of two or more is handed over in two calls
		chain := func(cs []ecs.Comp, f func(...ecs.Comp) *ecs.Observer) {
			if len(cs) > 1 && h.lineNo%2 == 1 {
				f(cs[:1]...)
				f(cs[1:]...)
				return
			}
			f(cs...)
		}
		if cs := get("with"); len(cs) > 0 {
			chain(cs, o.With)
		}
		if cs := get("without"); len(cs) > 0 {
			chain(cs, o.Without)
		}
		if hasFlag(toks[3:], "excl") {
			o = o.Exclusive()
		}
	}
	h.poisonComps()
	oo := &obsObj{o: o, t: to}
	if s, ok := optVal(toks[3:], "script"); ok {
		for _, p := range splitList(s) {
			parts := strings.Split(p, ":")
			switch parts[0] {
			case "look", "trynew":
				if len(parts) == 1 {
					oo.script = append(oo.script, p)
				}
			case "q", "unreg", "reg":
				if len(parts) == 2 {
					if _, ok := numOf(parts[1]); ok {
						oo.script = append(oo.script, p)
					}
				}
			}
		}
	}
	if !hasFlag(toks[3:], "nocb") {
		cb := func(e ecs.Entity) {
			h.log = append(h.log, logRec{kind: "cb", a: l, e: e})
			for _, p := range oo.script {
				h.runProbe(l, e, p)
			}
			h.provoke(e)
		}
		if to != nil {
			names := make([]int, len(forComps))
			for i, c := range forComps {
				names[i] = c.info.name
			}
			to.Do(func(e ecs.Entity, ps []valued) {
				// the pointers must address the components of `e`, in the order of the type parameters:
				// compared with the ID-based access of the world the harness works on NOW
				bad := len(ps) != len(names)
				for i := 0; i < len(ps) && !bad; i++ {
					rc := h.comps[names[i]]
					if rc == nil || !h.w.Alive(e) {
						bad = true
						break
					}
					want := h.u.Get(e, rc.id)
					bad = reflect.ValueOf(ps[i]).Pointer() != uintptr(want)
				}
				if bad {
					h.log = append(h.log, logRec{kind: "badptr", a: l, e: e})
				}
				cb(e)
			})
		} else {
			o.Do(cb)
		}
	}
	h.obs[l] = oo
	h.emit("ok")
}

func (h *H) doRes(toks []string) {
	if len(toks) < 3 {
		h.emit("bad-op")
		return
	}
	r, ok := numOf(toks[2])
	if !ok {
		h.emit("skip")
		return
	}
	// resource types are dynamic: [r+1]int64 arrays, registered on first use
	tp := reflect.ArrayOf(r+1, reflect.TypeFor[int64]())
	var res string
	class := try(func() {
		id := ecs.ResourceTypeID(h.w, tp)
		switch toks[1] {
		case "add":
			v, err := strconv.ParseInt(toks[3], 10, 64)
			if err != nil {
				panic("harness: bad value")
			}
			p := reflect.New(tp)
			p.Elem().Index(0).SetInt(v)
			h.w.Resources().Add(id, p.Interface())
		case "rem":
			h.w.Resources().Remove(id)
		case "get":
			x := h.w.Resources().Get(id)
			if x == nil {
				res = "nil"
			} else {
				res = strconv.FormatInt(reflect.ValueOf(x).Elem().Index(0).Int(), 10)
			}
		default:
			panic("harness: bad res op")
		}
	})
	h.result(class, res)
}

func (h *H) doNewBatch(path string, cnt int, withFn bool, a *compArgs) {
	switch path {
	case "m":
		rc := a.comps[0]
		var fn func(e ecs.Entity, p valued)
		if withFn {
			bf := h.batchFn(a, true)
			fn = func(e ecs.Entity, p valued) { bf(e, []valued{p}, []int{rc.info.name}) }
		}
		rc.m.NewBatchFn(cnt, fn, h.targetsOf(a))
	default:
		h.typedNewBatch(cnt, withFn, a)
	}
}

func (h *H) doExchangeBatch(path string, fo *filterObj, extra []relArg, withFn bool, a *compArgs) {
	b := h.batchOf(fo, extra)
	switch path {
	case "m":
		if len(a.rem) == 0 {
			rc := a.comps[0]
			var fn func(e ecs.Entity, p valued)
			if withFn {
				bf := h.batchFn(a, true)
				fn = func(e ecs.Entity, p valued) { bf(e, []valued{p}, []int{rc.info.name}) }
			}
			rc.m.AddBatchFn(b, fn, h.targetsOf(a))
		} else {
			rc := a.rem[0]
			var fn func(e ecs.Entity)
			if withFn {
				fn = func(e ecs.Entity) {
					h.log = append(h.log, logRec{kind: "fn", e: e, locked: h.w.IsLocked()})
				}
			}
			rc.m.RemoveBatch(b, fn)
		}
	default:
		h.typedExchangeBatch(b, withFn, a)
	}
}

func (h *H) doSetRelBatch(path string, fo *filterObj, extra []relArg, withFn bool, a *compArgs, toks []string) {
	b := h.batchOf(fo, extra)
	var fn func(e ecs.Entity)
	if withFn {
		fn = func(e ecs.Entity) {
			h.log = append(h.log, logRec{kind: "fn", e: e, locked: h.w.IsLocked()})
		}
	}
	switch path {
	case "m":
		a.comps[0].m.SetRelationBatch(b, a.rels[0].target, fn)
	default:
		h.typedSetRelBatch(b, fn, a, toks)
	}
}

func (h *H) fmtStats() string {
	st := h.w.Stats()
	var sb strings.Builder
	archMem, archUsed := 0, 0
	var as strings.Builder
	for i := range st.Archetypes {
		a := &st.Archetypes[i]
		archMem += a.Memory
		archUsed += a.MemoryUsed
		ids := make([]string, len(a.ComponentIDs))
		for j, id := range a.ComponentIDs {
			ids[j] = strconv.Itoa(int(id))
		}
		ts := make([]string, len(a.Tables))
		for j, t := range a.Tables {
			ts[j] = fmt.Sprintf("%d/%d/%d/%d", t.Size, t.Capacity, t.Memory, t.MemoryUsed)
		}
		fmt.Fprintf(&as, "[ids=%s size=%d cap=%d nrel=%d mem=%d used=%d mpe=%d free=%d tables=%s]",
			strings.Join(ids, ","), a.Size, a.Capacity, a.NumRelations, a.Memory, a.MemoryUsed,
			a.MemoryPerEntity, a.FreeTables, strings.Join(ts, ","))
	}
	fmt.Fprintf(&sb, "used=%d recycled=%d total=%d mem=%d memUsed=%d filters=%d observers=%d locked=%d comps=%d archs=%s",
		st.Entities.Used, st.Entities.Recycled, st.Entities.Total, archMem, archUsed,
		st.CachedFilters, st.Observers, b2i(st.Locked), len(st.ComponentTypeNames), as.String())
	// internal consistency of the figures the model does not carry
	if st.Entities.Total > st.Entities.Capacity {
		sb.WriteString(" BAD-capacity")
	}
	if st.Memory < archMem || st.MemoryUsed != archUsed+st.Entities.Used*16 {
		sb.WriteString(" BAD-memory")
	}
	return sb.String()
}
