package main

import (
	"fmt"
	"math/rand"
	"os"
	"sync"

	"github.com/mlange-42/ark/ecs"
)

// runConc is the C13 scenario: queries are created, iterated, counted and closed from several
// goroutines at once — sharing one filter or using several, cached or not, with or without
// relation targets — on a world that nobody mutates. Every query must see exactly its matching
// entities (the expectation is computed sequentially beforehand), and the world must be unlocked
// once all goroutines have finished. Built with -race, the race detector watches the run.
func runConc(seed int64, rounds int) int {
	rng := rand.New(rand.NewSource(seed))
	failures := 0
	fail := func(format string, args ...any) {
		failures++
		if failures <= 10 {
			fmt.Printf("FAIL "+format+"\n", args...)
		}
	}
	for round := 0; round < rounds; round++ {
		w := ecs.NewWorld(2+rng.Intn(8), 1+rng.Intn(4))
		mA := ecs.NewMap1[C0](w)
		mAB := ecs.NewMap2[C0, C1](w)
		mR := ecs.NewMap2[C0, C4](w)
		mABR := ecs.NewMap3[C0, C1, C4](w)
		parents := []ecs.Entity{w.NewEntity(), w.NewEntity(), w.NewEntity()}
		n := 5 + rng.Intn(40)
		for i := 0; i < n; i++ {
			v := C0{V: int64(i)}
			switch rng.Intn(4) {
			case 0:
				mA.NewEntity(&v)
			case 1:
				mAB.NewEntity(&v, &C1{V: 1, W: ^int64(1)})
			case 2:
				mR.NewEntity(&v, &C4{V: 2}, ecs.RelIdx(1, parents[rng.Intn(len(parents))]))
			default:
				mABR.NewEntity(&v, &C1{V: 1, W: ^int64(1)}, &C4{V: 3}, ecs.RelIdx(2, parents[rng.Intn(len(parents))]))
			}
		}
		// the filters under test
		fA := ecs.NewFilter1[C0](w)
		fAB := ecs.NewFilter2[C0, C1](w)
		fRel := ecs.NewFilter2[C0, C4](w)
		if round%2 == 1 {
			// a filter that was used for a batch before keeps spare capacity in its relation slice:
			// per-query targets must still not be shared between simultaneously open queries
			_ = fRel.Batch(ecs.RelIdx(1, parents[1]))
		}
		fRelFixed := ecs.NewFilter2[C0, C4](w).Relations(ecs.RelIdx(1, parents[0]))
		fCached := ecs.NewFilter1[C0](w).Register()
		fCachedRel := ecs.NewFilter2[C0, C4](w).Relations(ecs.RelIdx(1, parents[1])).Register()
		uf := ecs.NewUnsafeFilter(w, ecs.ComponentID[C0](w))

		type job struct {
			name  string
			count func() (int, int, bool) // Count(), visited, all values consistent
		}
		sumQ1 := func(q ecs.Query1[C0]) (int, int, bool) {
			c := q.Count()
			v, ok := 0, true
			for q.Next() {
				a := q.Get()
				if a.V < 0 || !q.Entity().IsZero() == false {
					ok = false
				}
				v++
			}
			return c, v, ok
		}
		sumQ2 := func(q ecs.Query2[C0, C1]) (int, int, bool) {
			c := q.Count()
			v, ok := 0, true
			for q.Next() {
				_, b := q.Get()
				if !b.Check() {
					ok = false
				}
				v++
			}
			return c, v, ok
		}
		sumQR := func(q ecs.Query2[C0, C4], want ecs.Entity, check bool) (int, int, bool) {
			c := q.Count()
			v, ok := 0, true
			for q.Next() {
				if check && q.GetRelation(1) != want {
					ok = false
				}
				v++
			}
			return c, v, ok
		}
		var sharedRels []ecs.Relation
		jobs := []job{
			{"Filter1 shared", func() (int, int, bool) { return sumQ1(fA.Query()) }},
			{"Filter2 shared", func() (int, int, bool) { return sumQ2(fAB.Query()) }},
			{"Filter2 rel per query p0", func() (int, int, bool) { return sumQR(fRel.Query(ecs.RelIdx(1, parents[0])), parents[0], true) }},
			{"Filter2 rel per query p2", func() (int, int, bool) { return sumQR(fRel.Query(ecs.RelIdx(1, parents[2])), parents[2], true) }},
			{"Filter2 rel fixed", func() (int, int, bool) { return sumQR(fRelFixed.Query(), parents[0], true) }},
			// one caller-owned slice of type-based targets (Rel[C]) shared by all goroutines: the
			// conversion to component IDs must not write into it
			{"Filter2 rel shared Rel[C] slice", func() (int, int, bool) { return sumQR(fRel.Query(sharedRels...), parents[0], true) }},
			{"Filter1 cached", func() (int, int, bool) { return sumQ1(fCached.Query()) }},
			{"Filter2 cached rel", func() (int, int, bool) { return sumQR(fCachedRel.Query(), parents[1], true) }},
			{"Unsafe", func() (int, int, bool) {
				q := uf.Query()
				c := q.Count()
				v := 0
				for q.Next() {
					v++
				}
				return c, v, true
			}},
			{"early close", func() (int, int, bool) {
				q := fA.Query()
				c := q.Count()
				if q.Next() {
					_ = q.EntityAt(0)
				}
				q.Close()
				q.Close()
				return c, c, true
			}},
		}
		// after a new archetype appears, the first use of an uncached filter recomputes its cache
		phases := 2
		for phase := 0; phase < phases; phase++ {
			sharedRels = []ecs.Relation{ecs.Rel[C4](parents[0])}
			if phase == 1 {
				ecs.NewMap3[C0, C1, C7](w).NewEntity(&C0{V: 99}, &C1{V: 1, W: ^int64(1)}, &C7{V: 1})
				// fresh filters whose very first use is concurrent
				fA = ecs.NewFilter1[C0](w)
				fAB = ecs.NewFilter2[C0, C1](w)
			}
			// sequential expectation
			want := make([][2]int, len(jobs))
			for i, j := range jobs {
				if phase == 1 && (i == 0 || i == 1 || i == 9) {
					// filters replaced: expectation from an equivalent fresh filter
					switch i {
					case 0, 9:
						c, v, _ := sumQ1(ecs.NewFilter1[C0](w).Query())
						want[i] = [2]int{c, v}
					case 1:
						c, v, _ := sumQ2(ecs.NewFilter2[C0, C1](w).Query())
						want[i] = [2]int{c, v}
					}
					continue
				}
				if i == 5 {
					// the shared slice must see its FIRST use concurrently: expectation from a fresh one
					c, v, _ := sumQR(fRel.Query(ecs.Rel[C4](parents[0])), parents[0], true)
					want[i] = [2]int{c, v}
					continue
				}
				c, v, _ := j.count()
				want[i] = [2]int{c, v}
				if c != v {
					fail("round %d %s: sequential Count %d != visited %d", round, j.name, c, v)
				}
			}
			goroutines := []int{2, 4, 8, 16, 32, 60}[rng.Intn(6)]
			var wg sync.WaitGroup
			var mu sync.Mutex
			for g := 0; g < goroutines; g++ {
				wg.Add(1)
				gseed := rng.Int63()
				go func() {
					defer wg.Done()
					r := rand.New(rand.NewSource(gseed))
					for k := 0; k < 6; k++ {
						i := r.Intn(len(jobs))
						c, v, ok := jobs[i].count()
						if c != want[i][0] || v != want[i][1] || !ok {
							mu.Lock()
							fail("round %d phase %d %s: got count=%d visited=%d ok=%v, want %v", round, phase, jobs[i].name, c, v, ok, want[i])
							mu.Unlock()
						}
					}
				}()
			}
			wg.Wait()
			if w.IsLocked() {
				fail("round %d phase %d: world still locked after all queries finished", round, phase)
			}
			// all 64 lock bits must be available again
			var qs []ecs.Query1[C0]
			func() {
				defer func() {
					if r := recover(); r != nil {
						fail("round %d: cannot open 64 queries after the concurrent phase: %v", round, r)
					}
				}()
				for i := 0; i < 64; i++ {
					qs = append(qs, fCached.Query())
				}
			}()
			for i := range qs {
				qs[i].Close()
			}
			if w.IsLocked() {
				fail("round %d: world locked after closing 64 queries", round)
			}
		}
	}
	if failures == 0 {
		fmt.Printf("ok rounds=%d\n", rounds)
		return 0
	}
	fmt.Fprintf(os.Stderr, "conc: %d failures\n", failures)
	return 1
}
