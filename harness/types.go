package main

import (
	"reflect"
	"unsafe"

	"github.com/mlange-42/ark/ecs"
)

// The harness' static component types. Each carries one value token V; pointer-bearing
// types carry redundant copies behind pointers so that a corrupted or stale pointer shows up
// as a failed self-check when the value is read back.

type valued interface {
	GetV() int64
	SetV(v int64)
	Check() bool
}

// C0: plain 8 bytes.
type C0 struct{ V int64 }

func (c *C0) GetV() int64  { return c.V }
func (c *C0) SetV(v int64) { c.V = v }
func (c *C0) Check() bool  { return true }

// C1: plain 16 bytes, redundant second word.
type C1 struct{ V, W int64 }

func (c *C1) GetV() int64  { return c.V }
func (c *C1) SetV(v int64) { c.V = v; c.W = ^v }
func (c *C1) Check() bool  { return (c.V == 0 && c.W == 0) || c.W == ^c.V }

// C2: pointer-bearing.
type C2 struct {
	V int64
	P *int64
}

func (c *C2) GetV() int64 { return c.V }
func (c *C2) SetV(v int64) {
	c.V = v
	p := new(int64)
	*p = v
	c.P = p
}
func (c *C2) Check() bool { return (c.V == 0 && c.P == nil) || (c.P != nil && *c.P == c.V) }

// C3: zero-size.
type C3 struct{}

func (c *C3) GetV() int64  { return 0 }
func (c *C3) SetV(v int64) {}
func (c *C3) Check() bool  { return true }

// C4: relation with payload.
type C4 struct {
	ecs.RelationMarker
	V int64
}

func (c *C4) GetV() int64  { return c.V }
func (c *C4) SetV(v int64) { c.V = v }
func (c *C4) Check() bool  { return true }

// C5: second relation with payload.
type C5 struct {
	ecs.RelationMarker
	V int64
}

func (c *C5) GetV() int64  { return c.V }
func (c *C5) SetV(v int64) { c.V = v }
func (c *C5) Check() bool  { return true }

// C6: slice-bearing.
type C6 struct {
	V int64
	S []int64
}

func (c *C6) GetV() int64 { return c.V }
func (c *C6) SetV(v int64) {
	c.V = v
	c.S = []int64{v, v}
}
func (c *C6) Check() bool {
	return (c.V == 0 && c.S == nil) || (len(c.S) == 2 && c.S[0] == c.V && c.S[1] == c.V)
}

// C7: small plain (4 bytes).
type C7 struct{ V int32 }

func (c *C7) GetV() int64  { return int64(c.V) }
func (c *C7) SetV(v int64) { c.V = int32(v) }
func (c *C7) Check() bool  { return true }

// C8: string- and map-bearing.
type C8 struct {
	V int64
	S string
	M map[int64]int64
}

func (c *C8) GetV() int64 { return c.V }
func (c *C8) SetV(v int64) {
	c.V = v
	c.S = string(rune('a' + v%26))
	c.M = map[int64]int64{v: v}
}
func (c *C8) Check() bool {
	if c.V == 0 && c.S == "" && c.M == nil {
		return true
	}
	return c.S == string(rune('a'+c.V%26)) && c.M != nil && c.M[c.V] == c.V
}

// C9: zero-size relation.
type C9 struct{ ecs.RelationMarker }

func (c *C9) GetV() int64  { return 0 }
func (c *C9) SetV(v int64) {}
func (c *C9) Check() bool  { return true }

// C10: plain 24 bytes.
type C10 struct{ V, A, B int64 }

func (c *C10) GetV() int64  { return c.V }
func (c *C10) SetV(v int64) { c.V = v; c.A = v + 1; c.B = v + 2 }
func (c *C10) Check() bool {
	return (c.V == 0 && c.A == 0 && c.B == 0) || (c.A == c.V+1 && c.B == c.V+2)
}

// C11: plain 1 byte + padding-free.
type C11 struct{ V uint8 }

func (c *C11) GetV() int64  { return int64(c.V) }
func (c *C11) SetV(v int64) { c.V = uint8(v) }
func (c *C11) Check() bool  { return true }

const numStatic = 12

// mapAPI is the type-erased view of ecs.Map[T].
type mapAPI interface {
	NewEntityFn(write bool, v int64, target []ecs.Entity) ecs.Entity
	AddFn(e ecs.Entity, write bool, v int64, target []ecs.Entity)
	Remove(e ecs.Entity)
	Set(e ecs.Entity, v int64)
	Get(e ecs.Entity) (int64, bool, bool) // value, present, selfcheck
	GetRelation(e ecs.Entity) ecs.Entity
	SetRelation(e ecs.Entity, target ecs.Entity)
	NewBatchFn(count int, fn func(e ecs.Entity, p valued), target []ecs.Entity)
	AddBatchFn(b ecs.Batch, fn func(e ecs.Entity, p valued), target []ecs.Entity)
	RemoveBatch(b ecs.Batch, fn func(e ecs.Entity))
	SetRelationBatch(b ecs.Batch, target ecs.Entity, fn func(e ecs.Entity))
}

type mapW[T any, PT interface {
	*T
	valued
}] struct {
	m *ecs.Map[T]
}

func (w mapW[T, PT]) NewEntityFn(write bool, v int64, target []ecs.Entity) ecs.Entity {
	if !write {
		return w.m.NewEntityFn(nil, target...)
	}
	return w.m.NewEntityFn(func(p *T) { PT(p).SetV(v) }, target...)
}
func (w mapW[T, PT]) AddFn(e ecs.Entity, write bool, v int64, target []ecs.Entity) {
	if !write {
		w.m.AddFn(e, nil, target...)
		return
	}
	w.m.AddFn(e, func(p *T) { PT(p).SetV(v) }, target...)
}
func (w mapW[T, PT]) Remove(e ecs.Entity) { w.m.Remove(e) }
func (w mapW[T, PT]) Set(e ecs.Entity, v int64) {
	var t T
	PT(&t).SetV(v)
	w.m.Set(e, &t)
}
func (w mapW[T, PT]) Get(e ecs.Entity) (int64, bool, bool) {
	p := w.m.Get(e)
	if p == nil {
		return 0, false, true
	}
	return PT(p).GetV(), true, PT(p).Check()
}
func (w mapW[T, PT]) GetRelation(e ecs.Entity) ecs.Entity    { return w.m.GetRelation(e) }
func (w mapW[T, PT]) SetRelation(e ecs.Entity, t ecs.Entity) { w.m.SetRelation(e, t) }
func (w mapW[T, PT]) NewBatchFn(count int, fn func(e ecs.Entity, p valued), target []ecs.Entity) {
	if fn == nil {
		w.m.NewBatchFn(count, nil, target...)
		return
	}
	w.m.NewBatchFn(count, func(e ecs.Entity, p *T) { fn(e, PT(p)) }, target...)
}
func (w mapW[T, PT]) AddBatchFn(b ecs.Batch, fn func(e ecs.Entity, p valued), target []ecs.Entity) {
	if fn == nil {
		w.m.AddBatchFn(b, nil, target...)
		return
	}
	w.m.AddBatchFn(b, func(e ecs.Entity, p *T) { fn(e, PT(p)) }, target...)
}
func (w mapW[T, PT]) RemoveBatch(b ecs.Batch, fn func(e ecs.Entity)) { w.m.RemoveBatch(b, fn) }
func (w mapW[T, PT]) SetRelationBatch(b ecs.Batch, target ecs.Entity, fn func(e ecs.Entity)) {
	w.m.SetRelationBatch(b, target, fn)
}

// compInfo describes one static component type.
type compInfo struct {
	name   int
	kind   string // plain | ptr | zst | rel
	size   int
	tp     reflect.Type
	c      ecs.Comp
	id     func(w *ecs.World) ecs.ID
	newMap func(w *ecs.World) mapAPI
	at     func(p unsafe.Pointer) valued
}

func mkInfo[T any, PT interface {
	*T
	valued
}](name int, kind string) compInfo {
	tp := reflect.TypeFor[T]()
	return compInfo{
		name: name, kind: kind, size: int(tp.Size()), tp: tp,
		c:      ecs.C[T](),
		id:     func(w *ecs.World) ecs.ID { return ecs.ComponentID[T](w) },
		newMap: func(w *ecs.World) mapAPI { return mapW[T, PT]{m: ecs.NewMap[T](w)} },
		at:     func(p unsafe.Pointer) valued { return PT((*T)(p)) },
	}
}

var staticComps = []compInfo{
	mkInfo[C0](0, "plain"),
	mkInfo[C1](1, "plain"),
	mkInfo[C2](2, "ptr"),
	mkInfo[C3](3, "zst"),
	mkInfo[C4](4, "rel"),
	mkInfo[C5](5, "rel"),
	mkInfo[C6](6, "ptr"),
	mkInfo[C7](7, "plain"),
	mkInfo[C8](8, "ptr"),
	mkInfo[C9](9, "rel"),
	mkInfo[C10](10, "plain"),
	mkInfo[C11](11, "plain"),
}

// fillerType returns the n-th dynamic filler component type ([n+1]byte arrays are distinct
// types of distinct sizes).
func fillerType(n int) reflect.Type {
	return reflect.ArrayOf(n+1, reflect.TypeFor[byte]())
}
