/-
  Ark.Model.Ops — observer and filter registration (observer.go, filter_gen.go), the probe
  runner that gives callbacks a behaviour, and `drain` (a complete query iteration).
-/
import Ark.Model.World
import Ark.Model.Query

namespace Ark
namespace World

/-- run `m`, turning a panic into a value (Go `recover`): the state reached is kept. -/
def tryW {α : Type} (m : W α) : W (Except PanicKind α) := fun w =>
  match m w with
  | .ok a w' => .ok (.ok a) w'
  | .panic k w' => .ok (.error k) w'

/-- `Observer.Register` → `AddObserver`. -/
def opObsRegister (l : Nat) : W Unit := do
  let w ← M.get
  let o := w.obs.obj l
  M.assert o.oid.isNone .obsRegistered
  M.assert o.spec.hasCallback .obsNoCallback
  match ObsMgr.computeData o.spec (fun c => w.isRelComp c) with
  | none => M.panic .obsNonRelation
  | some d =>
    -- o.id = m.pool.Get(), only after every check passed (repaired defect D20: a rejected
    -- registration leaves the observer unregistered)
    let (pool, oid) := w.obs.pool.get
    M.set { w with obs := (({ w.obs with pool }).setObj l { o with oid := some oid }).addComputed l o oid d }

/-- `Observer.Unregister` → `RemoveObserver`. -/
def opObsUnregister (l : Nat) : W Unit := do
  let w ← M.get
  let o := w.obs.obj l
  match o.oid with
  | none => M.panic .obsNotRegistered
  | some oid =>
    match AL.find? w.obs.indices oid with
    | none => M.panic .obsNotRegistered
    | some idx => M.set { w with obs := w.obs.removeAt l oid idx }

/-- `FilterN.Register`. -/
def opFilterRegister (f : Nat) : W Unit := do
  let w ← M.get
  let fo := (AL.find? w.filters f).getD {}
  M.assert fo.cache.isNone .filterRegistered
  let id ← cacheRegister fo.filter fo.rels
  M.modify fun w => { w with filters := AL.insert w.filters f { fo with cache := some id } }

/-- `FilterN.Unregister`. -/
def opFilterUnregister (f : Nat) : W Unit := do
  let w ← M.get
  let fo := (AL.find? w.filters f).getD {}
  match fo.cache with
  | none => M.panic .filterNotRegistered
  | some id =>
    cacheUnregister id
    M.modify fun w => { w with filters := AL.insert w.filters f { fo with cache := none } }

/-- One visited row of a query: entity, its table, row. -/
structure Visit where
  e : Ent
  table : Nat
  row : Nat
  deriving Repr, Inhabited

/-- Iterate a query to exhaustion (`for q.Next() { … }`), with explicit fuel = an upper bound on
    the number of `Next` calls (rows + tables + archetypes + 1). -/
def drainFrom (q : QueryObj) : Nat → W (QueryObj × List Visit)
  | 0 => pure (q, [])
  | fuel + 1 => do
    let (q, more) ← qNext q
    if !more then return (q, [])
    let w ← M.get
    let v : Visit := { e := (qEntity w q).getD Ent.zero, table := q.cur.getD 0, row := q.index }
    let (q, rest) ← drainFrom q fuel
    pure (q, v :: rest)

def drainFuel (w : World) : Nat :=
  (w.tables.map (·.len)).foldl (· + ·) 0 + w.tables.length + w.archetypes.length + 2

/-- open, iterate to the end (which closes and unlocks). -/
def drain (fo : FilterObj) (extra : List RelID) : W (List Visit) := do
  let q ← qOpen fo extra
  let w ← M.get
  let (_, vs) ← drainFrom q (drainFuel w)
  pure vs

/-- The behaviour of callbacks.  `fuel` bounds the nesting of callbacks inside callbacks. -/
def runProbe : Nat → ProbeRunner
  | 0 => fun _ _ _ => pure ()
  | fuel + 1 => fun _l e p => do
    match p with
    | .look =>
      let w ← M.get
      let al := w.alive e
      if al then
        let (t, row) := w.index e.id
        let T := w.tbl t
        logEv (.look true w.isLocked
          (T.ids.map fun c => (c, (T.getComp c row).getD 0))
          (((T.ids.zip T.targets).zip T.isRel).filterMap fun ((c, tg), r) => if r then some (c, tg) else none))
      else logEv (.look false w.isLocked [] [])
    | .query f =>
      let w ← M.get
      let fo := (AL.find? w.filters f).getD {}
      match ← tryW (drain fo []) with
      | .ok vs => logEv (.q f vs.length (vs.filter fun v => v.e == e).length)
      | .error k => logEv (.act "query" (some k))
    | .unreg o =>
      if (AL.find? (← M.get).obs.objs o).isNone then logEv (.act "unreg" (some .obsNotRegistered)) else
      match ← tryW (opObsUnregister o) with
      | .ok _ => logEv (.act "unreg" none)
      | .error k => logEv (.act "unreg" (some k))
    | .reg o =>
      if (AL.find? (← M.get).obs.objs o).isNone then logEv (.act "reg" (some .obsNotRegistered)) else
      match ← tryW (opObsRegister o) with
      | .ok _ => logEv (.act "reg" none)
      | .error k => logEv (.act "reg" (some k))
    | .tryNew =>
      let r ← tryW (do
        let ne ← opNewEntity0 (runProbe fuel)
        opRemoveEntity (runProbe fuel) ne)
      match r with
      | .ok _ => logEv (.act "tryNew" none)
      | .error k => logEv (.act "tryNew" (some k))

/-- the runner used by the driver and in the theorems about complete operations -/
def probe : ProbeRunner := runProbe 4

end World
end Ark
