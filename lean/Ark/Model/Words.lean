/-
  Ark.Model.Words — support for the regenerated word-level mask code (Ark/Generated/Words.lean):
  Go's `[4]uint64`, indexed by a `uint8`, and `bits.OnesCount64`.
-/

namespace Ark.Words

/-- `[4]uint64` -/
structure Arr4 where
  w0 : BitVec 64
  w1 : BitVec 64
  w2 : BitVec 64
  w3 : BitVec 64
  deriving DecidableEq, Repr

namespace Arr4

/-- `a[i]`; an index ≥ 4 is a run-time panic in Go — the generated `…_inRange` propositions,
    proved in Ark/Proofs/MaskWords.lean, show it is never reached. -/
def get (a : Arr4) (i : BitVec 8) : BitVec 64 :=
  match i.toNat with
  | 0 => a.w0 | 1 => a.w1 | 2 => a.w2 | 3 => a.w3 | _ => 0#64

/-- `a[i] = v` -/
def set (a : Arr4) (i : BitVec 8) (v : BitVec 64) : Arr4 :=
  match i.toNat with
  | 0 => { a with w0 := v } | 1 => { a with w1 := v } | 2 => { a with w2 := v }
  | 3 => { a with w3 := v } | _ => a

/-- the 256-bit value of the four words (word 0 holds bits 0…63) -/
def abs (a : Arr4) : BitVec 256 := a.w3 ++ a.w2 ++ a.w1 ++ a.w0

end Arr4

/-- `bits.OnesCount64` -/
def popCount (x : BitVec 64) : Nat := (List.range 64).countP fun i => x.getLsbD i

end Ark.Words
