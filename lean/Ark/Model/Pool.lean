/-
  Ark.Model.Pool — `entityPool`, `intPool[T]`, `bitPool` of pool.go, written after the code:
  implicit free list threaded through the id field.
-/
import Ark.Basic

namespace Ark

/-- `entityPool`.  `ents` is the live slice `p.entities`; `stale` is the memory behind it
    (retained by `Reset`, read by the unchecked `Alive`, overwritten by `append`). -/
structure Pool where
  ents : List Ent
  stale : List Ent := []
  next : Nat := 0
  available : Nat := 0
  deriving Repr, Inhabited, DecidableEq

namespace Pool

def reserved : Nat := 2

/-- `newEntityPool(_, 2)`. -/
def init : Pool := { ents := [⟨0, maxU32⟩, ⟨1, maxU32⟩] }

/-- `getNew`. -/
def getNew (p : Pool) : Pool × Ent :=
  let e : Ent := ⟨p.ents.length, 0⟩
  ({ p with ents := p.ents ++ [e], stale := p.stale.drop 1 }, e)

/-- The recycling branch of `Get` (requires `available > 0`):
    `p.next, p.entities[p.next].id = p.entities[p.next].id, p.next`. -/
def getRecycled (p : Pool) : Pool × Ent :=
  let curr := p.next
  let slot := p.ents.getD curr default
  let ents' := p.ents.set curr { slot with id := curr }
  ({ p with ents := ents', next := slot.id, available := p.available - 1 },
   ents'.getD curr default)

/-- `Get`. -/
def get (p : Pool) : Pool × Ent :=
  if p.available = 0 then p.getNew else p.getRecycled

/-- `Recycle` (the reserved-ID panic is checked by the caller in the model). -/
def recycle (p : Pool) (e : Ent) : Pool :=
  let slot := p.ents.getD e.id default
  { p with ents := p.ents.set e.id { id := p.next, gen := slot.gen + 1 },
           next := e.id, available := p.available + 1 }

/-- `Reset`: invalidates the generations of the pooled entries, truncates the slice, keeps
    the memory. -/
def reset (p : Pool) : Pool :=
  { ents := p.ents.take reserved
    stale := (p.ents.drop reserved).map (fun e => { e with gen := maxU32 }) ++ p.stale
    next := 0, available := 0 }

/-- `Alive`: unchecked read of the generation at `e.id`. Reading beyond the backing array is
    undefined in Go; the model answers `false`. -/
def alive (p : Pool) (e : Ent) : Bool :=
  match (p.ents ++ p.stale)[e.id]? with
  | some s => s.gen == e.gen
  | none => false

def len (p : Pool) : Nat := p.ents.length - reserved - p.available
def cap (p : Pool) : Nat := p.ents.length - reserved

end Pool

/-- `intPool[T]` (cache IDs, observer IDs) and, with `limit = 64`, `bitPool`. -/
structure IntPool where
  pool : List Nat := []
  next : Nat := 0
  available : Nat := 0
  deriving Repr, Inhabited, DecidableEq

namespace IntPool

def getNew (p : IntPool) : IntPool × Nat :=
  let e := p.pool.length
  ({ p with pool := p.pool ++ [e] }, e)

def getRecycled (p : IntPool) : IntPool × Nat :=
  let curr := p.next
  let nxt := p.pool.getD curr 0
  let pool' := p.pool.set curr curr
  ({ p with pool := pool', next := nxt, available := p.available - 1 }, pool'.getD curr 0)

def get (p : IntPool) : IntPool × Nat :=
  if p.available = 0 then p.getNew else p.getRecycled

def recycle (p : IntPool) (e : Nat) : IntPool :=
  { p with pool := p.pool.set e p.next, next := e, available := p.available + 1 }

def reset (_p : IntPool) : IntPool := {}

end IntPool

/-- `bitPool`: fixed array of 64 `uint8`, `length` counts the bits handed out so far. -/
structure BitPool where
  bits : List Nat := List.replicate 64 0
  length : Nat := 0
  next : Nat := 0
  available : Nat := 0
  deriving Repr, Inhabited, DecidableEq

namespace BitPool

/-- `Get`; `none` = the "run out of the maximum of 64 bits" panic. -/
def get (p : BitPool) : Option (BitPool × Nat) :=
  if p.available = 0 then
    if p.length ≥ 64 then none
    else some ({ p with bits := p.bits.set p.length p.length, length := p.length + 1 }, p.length)
  else
    let curr := p.next
    let nxt := p.bits.getD curr 0
    let bits' := p.bits.set curr curr
    some ({ p with bits := bits', next := nxt, available := p.available - 1 }, bits'.getD curr 0)

def recycle (p : BitPool) (b : Nat) : BitPool :=
  { p with bits := p.bits.set b p.next, next := b, available := p.available + 1 }

/-- `Reset` keeps the array contents. -/
def reset (p : BitPool) : BitPool := { p with length := 0, next := 0, available := 0 }

end BitPool

/-- `lock` of lock.go: bit pool + 64-bit mask of outstanding locks. -/
structure Lock where
  pool : BitPool := {}
  locks : BitVec 64 := 0#64
  deriving Repr, Inhabited, DecidableEq

namespace Lock

def isLocked (l : Lock) : Bool := l.locks != 0#64

/-- `Lock()` / `LockSafe()`. -/
def lock (l : Lock) : Option (Lock × Nat) :=
  match l.pool.get with
  | none => none
  | some (p, b) => some ({ pool := p, locks := l.locks ||| ((1#64) <<< b) }, b)

/-- `Unlock(b)` / `UnlockSafe(b)`; `none` = "unbalanced unlock" panic. -/
def unlock (l : Lock) (b : Nat) : Option Lock :=
  if l.locks.getLsbD b then
    some { pool := l.pool.recycle b, locks := l.locks &&& ~~~((1#64) <<< b) }
  else none

def reset (l : Lock) : Lock := { pool := l.pool.reset, locks := 0#64 }

end Lock

end Ark
