/-
  Ark.Model.Codec — `Entity.MarshalBinary/AppendBinary/UnmarshalBinary` (big endian, 8 bytes)
  and the `[id, gen]` JSON array form, on 32-bit words and bytes.
-/
import Ark.Basic

namespace Ark
namespace Codec

abbrev Byte := BitVec 8
abbrev U32 := BitVec 32

/-- `binary.BigEndian.PutUint32`. -/
def putU32 (v : U32) : List Byte :=
  [(v >>> 24).setWidth 8, (v >>> 16).setWidth 8, (v >>> 8).setWidth 8, v.setWidth 8]

/-- `binary.BigEndian.Uint32` of four bytes. -/
def getU32 (b0 b1 b2 b3 : Byte) : U32 :=
  (b0.setWidth 32 <<< 24) ||| (b1.setWidth 32 <<< 16) ||| (b2.setWidth 32 <<< 8) ||| b3.setWidth 32

/-- `MarshalBinary`. -/
def marshalBinary (id gen : U32) : List Byte := putU32 id ++ putU32 gen

/-- `AppendBinary(buf)`. -/
def appendBinary (buf : List Byte) (id gen : U32) : List Byte := buf ++ putU32 id ++ putU32 gen

/-- `UnmarshalBinary`: `none` = the "invalid data length" error. -/
def unmarshalBinary (data : List Byte) : Option (U32 × U32) :=
  match data with
  | [a0, a1, a2, a3, b0, b1, b2, b3] => some (getU32 a0 a1 a2 a3, getU32 b0 b1 b2 b3)
  | _ => none

/-- `MarshalJSON`: the two-element array `[id, gen]` (the tokenizer is `encoding/json`). -/
def marshalJSON (id gen : U32) : List Nat := [id.toNat, gen.toNat]

/-- `UnmarshalJSON` into `[2]uint32`: missing elements are zero, extra ones are dropped, a
    number outside `uint32` is an error (`none`). -/
def unmarshalJSON (arr : List Nat) : Option (U32 × U32) :=
  let a := arr.getD 0 0
  let b := arr.getD 1 0
  if a < 2 ^ 32 ∧ b < 2 ^ 32 then some (BitVec.ofNat 32 a, BitVec.ofNat 32 b) else none

end Codec
end Ark
