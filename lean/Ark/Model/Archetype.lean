/-
  Ark.Model.Archetype — `tableIDs` and `archetype` of archetype.go.
  `tableIDs` keeps BOTH the slice and the `indices` map, because `Remove` trusts the map.
-/
import Ark.Basic
import Ark.Model.Mask
import Ark.Model.Table

namespace Ark

structure TableIDs where
  tables : List Nat := []
  indices : AL Nat := []
  deriving Repr, Inhabited, DecidableEq

namespace TableIDs

/-- `newTableIDs(tables...)`. -/
def ofList (ts : List Nat) : TableIDs :=
  { tables := ts, indices := ts.zipIdx.foldl (fun m (t, i) => AL.insert m t i) [] }

/-- `Append`. -/
def append (t : TableIDs) (id : Nat) : TableIDs :=
  { tables := t.tables ++ [id], indices := AL.insert t.indices id t.tables.length }

/-- `Remove`: swap-remove through the index map. -/
def remove (t : TableIDs) (id : Nat) : TableIDs × Bool :=
  match AL.find? t.indices id with
  | none => (t, false)
  | some index =>
    let last := t.tables.length - 1
    let (tables, indices) :=
      if index != last then
        let a := t.tables.getD index 0
        let b := t.tables.getD last 0
        let tables := (t.tables.set index b).set last a
        -- `t.indices[t.tables[index]] = index` reads the slice AFTER the swap
        (tables, AL.insert t.indices (tables.getD index 0) index)
      else (t.tables, t.indices)
    ({ tables := tables.take last, indices := AL.erase indices id }, true)

def clear (_t : TableIDs) : TableIDs := {}

def hasIndex (t : TableIDs) (id : Nat) : Bool := AL.contains t.indices id

end TableIDs

/-- `archetype` + `archetypeData`. -/
structure Archetype where
  id : Nat
  mask : Mask
  /-- component IDs in column order (ascending) -/
  comps : List Comp
  isRel : List Bool
  zst : List Bool
  numRel : Nat
  tables : TableIDs := {}
  freeTables : List Nat := []
  /-- per column: target ID ↦ tables (`relationTables`; empty for non-relation columns) -/
  relationTables : List (AL TableIDs)
  /-- target ID ↦ tables (`targetTables`) -/
  targetTables : AL TableIDs := []
  deriving Repr, Inhabited, DecidableEq

namespace Archetype

def hasRelations (a : Archetype) : Bool := a.numRel > 0

/-- `componentsMap[c]` (column index). -/
def colIdx (a : Archetype) (c : Comp) : Option Nat :=
  let i := a.comps.idxOf c
  if i < a.comps.length then some i else none

def new (id : Nat) (mask : Mask) (comps : List Comp) (isRel zst : List Bool)
    (tables : List Nat) : Archetype :=
  { id, mask, comps, isRel, zst
    numRel := (isRel.filter fun b => b).length
    tables := TableIDs.ofList tables
    relationTables := comps.map fun _ => [] }

/-- `GetFreeTable`: pop the last free table. -/
def getFreeTable (a : Archetype) : Option (Archetype × Nat) :=
  match a.freeTables.getLast? with
  | none => none
  | some t => some ({ a with freeTables := a.freeTables.dropLast }, t)

/-- `GetTables`: all tables matching the first given relation, or all tables.
    `none` models the Go runtime panic when `relations[0].component` is not a column of the
    archetype (`componentsMap = -1` indexes `relationTables[-1]`). -/
def getTables (a : Archetype) (rels : List RelID) : Option (List Nat) :=
  if !a.hasRelations then some a.tables.tables else
  match rels with
  | [] => some a.tables.tables
  | r :: _ =>
    match a.colIdx r.comp with
    | none => none
    | some i =>
      match AL.find? (a.relationTables.getD i []) r.target.id with
      | some ts => some ts.tables
      | none => some []

/-- `FreeTable` (table-side `isFree := true` is done by the caller on the storage).
    With at most one relation only the table list is edited here. -/
def freeTable (a : Archetype) (tid : Nat) : Archetype :=
  let a := { a with tables := (a.tables.remove tid).1, freeTables := a.freeTables ++ [tid] }
  if a.numRel ≤ 1 then a else
  { a with
    relationTables := a.relationTables.map fun m => m.mapVals fun v => (v.remove tid).1
    targetTables := a.targetTables.mapVals fun v => (v.remove tid).1 }

/-- `removeTableRelations`: remove table `tid` (with per-column `targets`) from the lookups of
    its own targets. -/
def removeTableRelations (a : Archetype) (tid : Nat) (targets : List Ent) : Archetype :=
  let step (a : Archetype) (i : Nat) : Archetype :=
    if !(a.isRel.getD i false) then a else
    let target := targets.getD i Ent.zero
    let rels := a.relationTables.getD i []
    let rels' := match AL.find? rels target.id with
      | some ts => AL.insert rels target.id (ts.remove tid).1
      | none => rels
    let tt := match AL.find? a.targetTables target.id with
      | some ts => AL.insert a.targetTables target.id (ts.remove tid).1
      | none => a.targetTables
    { a with relationTables := a.relationTables.set i rels', targetTables := tt }
  (List.range a.comps.length).foldl step a

/-- `FreeAllTables` (archetype side). -/
def freeAllTables (a : Archetype) : Archetype :=
  { a with
    freeTables := a.freeTables ++ a.tables.tables
    tables := {}
    relationTables := a.relationTables.map fun _ => []
    targetTables := [] }

/-- `AddTable`: register table `tid` with per-column `targets`. -/
def addTable (a : Archetype) (tid : Nat) (targets : List Ent) : Archetype :=
  let a := { a with tables := a.tables.append tid }
  if !a.hasRelations then a else
  let step (a : Archetype) (i : Nat) : Archetype :=
    if !(a.isRel.getD i false) then a else
    let target := targets.getD i Ent.zero
    let rels := a.relationTables.getD i []
    let rels' := match AL.find? rels target.id with
      | some ts => AL.insert rels target.id (ts.append tid)
      | none => AL.insert rels target.id (TableIDs.ofList [tid])
    let tt := match AL.find? a.targetTables target.id with
      | some ts => if ts.hasIndex tid then a.targetTables
                   else AL.insert a.targetTables target.id (ts.append tid)
      | none => AL.insert a.targetTables target.id (TableIDs.ofList [tid])
    { a with relationTables := a.relationTables.set i rels', targetTables := tt }
  (List.range a.comps.length).foldl step a

/-- `RemoveTarget`. -/
def removeTarget (a : Archetype) (e : Ent) : Archetype :=
  { a with
    relationTables := (a.relationTables.zip a.isRel).map fun (m, r) =>
      if r then AL.erase m e.id else m
    targetTables := AL.erase a.targetTables e.id }

end Archetype

end Ark
