/-
  Ark.Model.World — storage.go, world.go, world_internal.go, cache.go, unsafe.go (dump/load),
  and the public-API wrappers of map.go / maps_gen.go / exchange_gen.go, written function by
  function after the Go.  Everything is an executable definition; the driver runs it and the
  proofs are about it.
-/
import Ark.Basic
import Ark.Model.Mask
import Ark.Model.Pool
import Ark.Model.Table
import Ark.Model.Archetype
import Ark.Model.Observers

namespace Ark

/-- What the registry knows about a component type. -/
structure CompKind where
  isRel : Bool := false
  zst : Bool := false
  /-- `reflect.Type.Size()` of the component type -/
  size : Nat := 8
  deriving Repr, Inhabited, DecidableEq

/-- `cacheEntry`. -/
structure CacheEntry where
  id : Nat
  filter : Filter
  rels : List RelID
  tables : TableIDs
  deriving Repr, Inhabited, DecidableEq

/-- `cache`. -/
structure Cache where
  indices : AL Nat := []
  filters : List CacheEntry := []
  pool : IntPool := {}
  deriving Repr, Inhabited, DecidableEq

/-- A filter object (`Filter0..8` / `UnsafeFilter`), living in a small heap keyed by label. -/
structure FilterObj where
  filter : Filter := {}
  ids : List Comp := []
  /-- relations fixed by `.Relations(...)` -/
  rels : List RelID := []
  /-- `filter.cache` (`none` = `maxCacheID`) -/
  cache : Option Nat := none
  /-- typed filter (`false` = `UnsafeFilter`, which walks all archetypes) -/
  typed : Bool := true
  deriving Repr, Inhabited, DecidableEq

/-- `stats.Table`. -/
structure TableStats where
  size : Nat
  capacity : Nat
  memory : Nat
  memoryUsed : Nat
  deriving Repr, Inhabited, DecidableEq

/-- `stats.Archetype` (type names omitted). -/
structure ArchStats where
  componentIDs : List Comp
  tables : List TableStats
  size : Nat
  capacity : Nat
  numRelations : Nat
  memory : Nat
  memoryUsed : Nat
  memoryPerEntity : Nat
  freeTables : Nat
  deriving Repr, Inhabited, DecidableEq

/-- `stats.World`, without the two figures that depend on Go's slice growth policy
    (`Entities.Capacity` and the pool/index part of `Memory`). -/
structure WorldStats where
  archetypes : List ArchStats := []
  used : Nat := 0
  recycled : Nat := 0
  total : Nat := 0
  /-- Σ archetype memory -/
  memory : Nat := 0
  memoryUsed : Nat := 0
  cachedFilters : Nat := 0
  observers : Nat := 0
  locked : Bool := false
  numComponents : Nat := 0
  deriving Repr, Inhabited, DecidableEq

/-- Structured record of something a callback observed; the driver prints these. -/
inductive LogEv
  /-- observer callback: observer label, reported entity -/
  | cb (obs : Nat) (e : Ent)
  /-- `look` probe -/
  | look (alive locked : Bool) (comps : List (Comp × Val)) (targets : List (Comp × Ent))
  /-- `query` probe: total visited, occurrences of the entity -/
  | q (f total occ : Nat)
  /-- result of a nested action: `none` = ok, `some k` = panicked -/
  | act (name : String) (r : Option PanicKind)
  /-- user batch callback invoked for an entity with the values it saw -/
  | fn (e : Ent) (locked : Bool) (comps : List (Comp × Val))
  deriving Repr, Inhabited

/-- The world: `storage` + `World` fields, flattened. -/
structure World where
  entities : List (Nat × Nat) := [(maxU32, 0), (maxU32, 0)]
  isTarget : List Bool := [false, false]
  archetypes : List Archetype := []
  tables : List Table := []
  componentIndex : List (List Nat) := []
  relationArchetypes : List Nat := []
  cache : Cache := {}
  pool : Pool := Pool.init
  kinds : List CompKind := []          -- registry: index = component ID
  archCount : List Nat := []           -- registry.Archetypes
  version : Nat := 1                   -- registry.version
  locks : Lock := {}
  obs : ObsMgr := {}
  initCap : Nat := 1024
  initCapRel : Nat := 128
  maxComps : Nat := 256                -- 64 in the tiny build
  resources : AL Val := []
  resKinds : Nat := 0                  -- number of registered resource types
  filters : AL FilterObj := []
  stats : WorldStats := {}             -- the re-used `*stats.World`
  log : List LogEv := []               -- reversed
  deriving Inhabited

abbrev W (α : Type) := M World α

namespace World

/-- `NewWorld(cap, relCap)`. -/
def init (cap relCap : Nat) (maxComps : Nat := 256) : World :=
  { archetypes := [Archetype.new 0 Mask.empty [] [] [] [0]]
    tables := [Table.new 0 0 [] [] [] cap [] []]
    initCap := cap, initCapRel := relCap, maxComps }

/-! ### accessors -/

def tbl (w : World) (t : Nat) : Table := w.tables.getD t default
def arch (w : World) (a : Nat) : Archetype := w.archetypes.getD a default
def setTbl (w : World) (t : Nat) (T : Table) : World := { w with tables := w.tables.set t T }
def setArch (w : World) (a : Nat) (A : Archetype) : World := { w with archetypes := w.archetypes.set a A }
def modTbl (w : World) (t : Nat) (f : Table → Table) : World := w.setTbl t (f (w.tbl t))
def modArch (w : World) (a : Nat) (f : Archetype → Archetype) : World := w.setArch a (f (w.arch a))
def index (w : World) (id : Nat) : Nat × Nat := w.entities.getD id (maxU32, 0)
def isLocked (w : World) : Bool := w.locks.isLocked
def alive (w : World) (e : Ent) : Bool := w.pool.alive e
def isRelComp (w : World) (c : Comp) : Bool := (w.kinds.getD c {}).isRel
def maskOf (w : World) (e : Ent) : Mask := (w.arch (w.tbl (w.index e.id).1).arch).mask
def logEv (ev : LogEv) : W Unit := M.modify fun w => { w with log := ev :: w.log }

/-! ### lock.go -/

def checkLocked : W Unit := fun w => if w.isLocked then .panic .locked w else .ok () w

def lock : W Nat := fun w =>
  match w.locks.lock with
  | none => .panic .outOfLocks w
  | some (l, b) => .ok b { w with locks := l }

def unlock (b : Nat) : W Unit := fun w =>
  match w.locks.unlock b with
  | none => .panic .unbalancedUnlock w
  | some l => .ok () { w with locks := l }

/-! ### checks.go -/

def checkRelationComponent (c : Comp) : W Unit := fun w =>
  if w.isRelComp c then .ok () w else .panic .notRelation w

def checkRelationTarget (t : Ent) : W Unit := fun w =>
  if !t.isZero && !w.alive t then .panic .deadTarget w else .ok () w

/-! ### registry.go / World.componentID -/

/-- Register a new component type (`componentID` for an unseen type). Returns its ID. -/
def registerComponent (k : CompKind) : W Nat := fun w =>
  let n := w.kinds.length
  if n ≥ w.maxComps then .panic .registryFull w
  else if w.isLocked then .panic .registerLocked w   -- registered, then rolled back
  else .ok n { w with kinds := w.kinds ++ [k], archCount := w.archCount ++ [0],
                      componentIndex := w.componentIndex ++ [[]] }

/-! ### cache.go -/

/-- `getCacheTables`. `none` = Go runtime panic inside `GetTables`/`Matches`. -/
def getCacheTables (w : World) (f : Filter) (rels : List RelID) : Option (List Nat) :=
  let step (acc : Option (List Nat)) (a : Archetype) : Option (List Nat) :=
    match acc with
    | none => none
    | some acc =>
      if !f.matchesMask a.mask then some acc
      else if !a.hasRelations then some (acc ++ [a.tables.tables.getD 0 0])
      else
        match a.getTables rels with
        | none => none
        | some ts =>
          ts.foldl (fun acc t =>
            match acc with
            | none => none
            | some acc =>
              match (w.tbl t).matchesRels rels with
              | none => none
              | some true => some (acc ++ [t])
              | some false => some acc) (some acc)
  w.archetypes.foldl step (some [])

/-- `cache.register`: returns the cache ID. -/
def cacheRegister (f : Filter) (rels : List RelID) : W Nat := fun w =>
  let (pool, id) := w.cache.pool.get
  let w := { w with cache := { w.cache with pool } }
  match w.getCacheTables f rels with
  | none => .panic .runtime w
  | some ts =>
    let idx := w.cache.filters.length
    let e : CacheEntry := { id, filter := f, rels, tables := TableIDs.ofList ts }
    .ok id { w with cache := { w.cache with filters := w.cache.filters ++ [e],
                                            indices := AL.insert w.cache.indices id idx } }

/-- `cache.unregister`. -/
def cacheUnregister (id : Nat) : W Unit := fun w =>
  match AL.find? w.cache.indices id with
  | none => .panic .filterNotRegistered w
  | some idx =>
    let c := w.cache
    let indices := AL.erase c.indices id
    let last := c.filters.length - 1
    let (filters, indices) :=
      if idx != last then
        let a := c.filters.getD idx default
        let b := c.filters.getD last default
        ((c.filters.set idx b).set last a, AL.insert indices b.id idx)
      else (c.filters, indices)
    .ok () { w with cache := { c with filters := filters.take last, indices } }

def cacheEntry? (w : World) (id : Nat) : Option CacheEntry :=
  match AL.find? w.cache.indices id with
  | none => none
  | some idx => w.cache.filters[idx]?

/-- `cache.addTable`. `none` = runtime panic in `Matches`. -/
def cacheAddTable (w : World) (t : Table) : Option World :=
  let a := w.arch t.arch
  let step (acc : Option (List CacheEntry)) (e : CacheEntry) : Option (List CacheEntry) :=
    match acc with
    | none => none
    | some acc =>
      if !e.filter.matchesMask a.mask then some (acc ++ [e])
      else if !t.hasRelations then some (acc ++ [{ e with tables := e.tables.append t.id }])
      else match t.matchesRels e.rels with
        | none => none
        | some true => some (acc ++ [{ e with tables := e.tables.append t.id }])
        | some false => some (acc ++ [e])
  match w.cache.filters.foldl step (some []) with
  | none => none
  | some fs => some { w with cache := { w.cache with filters := fs } }

/-- `cache.removeTable`. -/
def cacheRemoveTable (w : World) (tid : Nat) : World :=
  { w with cache := { w.cache with
      filters := w.cache.filters.map fun e => { e with tables := (e.tables.remove tid).1 } } }

/-- `cache.Reset` (filter objects' `cache` fields are reset by the caller over `filters`). -/
def cacheReset (w : World) : World :=
  if w.cache.indices.isEmpty then w else
  let ids := w.cache.filters.map (·.id)
  { w with
    cache := { indices := [], filters := [], pool := w.cache.pool.reset }
    filters := w.filters.map fun (l, fo) =>
      (l, match fo.cache with
          | some id => if ids.contains id then { fo with cache := none } else fo
          | none => fo) }

/-! ### storage.go -/

/-- `createArchetype` for a mask. Returns the archetype ID. -/
def createArchetype (mask : Mask) : W Nat := fun w =>
  let comps := mask.toList w.kinds.length
  let id := w.archetypes.length
  let isRel := comps.map fun c => (w.kinds.getD c {}).isRel
  let zst := comps.map fun c => (w.kinds.getD c {}).zst
  let a := Archetype.new id mask comps isRel zst []
  let w := { w with archetypes := w.archetypes ++ [a] }
  let w := comps.foldl (fun (w : World) c =>
    { w with componentIndex := w.componentIndex.modify c (· ++ [id])
             archCount := w.archCount.modify c (· + 1)
             version := w.version + 1 }) w
  let w := if a.hasRelations then { w with relationArchetypes := w.relationArchetypes ++ [id] } else w
  .ok id w

/-- find the archetype with exactly this mask (the graph's `findOrCreate` + node→archetype). -/
def findArch (w : World) (mask : Mask) : Option Nat :=
  (w.archetypes.find? fun a => a.mask == mask).map (·.id)

def findOrCreateArch (mask : Mask) : W Nat := fun w =>
  match w.findArch mask with
  | some a => .ok a w
  | none => createArchetype mask w

/-- The duplicate scan of `getTableSlowPath` (the repair of defect D26):
    `for i := 1; i < len(relations); i++ { for j := 0; j < i; j++ { … } }` — is the component of
    some relation already named by an earlier relation of the list?  (`seen` = the components of
    the relations before; the first hit, scanning `i` upward, panics "relation component %d
    specified more than once".) -/
def namedTwice : List Comp → List RelID → Bool
  | _, [] => false
  | seen, r :: rest => seen.contains r.comp || namedTwice (r.comp :: seen) rest

/-- `archetype.GetTable` (exact match).  The first two returns come before any check (an
    archetype without active table: "no table", `createTable` will look at the relations; an
    archetype without relation components: its only table, whatever the relations).  The slow
    path checks the count, then — since the repair of defect D26 — that no relation component is
    named twice (`.relTwice`, the class `createTable` uses since D18): a duplicate satisfied the
    count check while another relation component was missing, and `MatchesExact` matched both
    entries against the same column, so the entity landed in a table whose target for the missing
    component nobody had specified. -/
def getTable (a : Nat) (rels : List RelID) : W (Option Nat) := fun w =>
  let A := w.arch a
  if A.tables.tables.isEmpty then .ok none w
  else if !A.hasRelations then .ok (some (A.tables.tables.getD 0 0)) w
  else if rels.length < A.numRel then .panic .relUnspecified w
  else if namedTwice [] rels then .panic .relTwice w
  else
    match rels with
    | [] => .panic .runtime w
    | r0 :: _ =>
      match A.colIdx r0.comp with
      | none => .panic .runtime w
      | some i =>
        match AL.find? (A.relationTables.getD i []) r0.target.id with
        | none => .ok none w
        | some ts =>
          let rec go : List Nat → Res World (Option Nat)
            | [] => .ok none w
            | t :: rest =>
              match (w.tbl t).matchesExact rels with
              | .yes => .ok (some t) w
              | .no => go rest
              | .tooFew => .panic .relUnspecified w
              | .notRelation => .panic .notRelation w
          go ts.tables

/-- The first loop of `createTable` (`targets[idx] = rel.target`) as far as it can panic, walking
    the relations in order with the components seen so far (Go: `var seen bitMask`): a relation
    whose component was already named panics "relation component %d specified more than once"
    (`.relTwice`, the repair of defect D18); otherwise a component that is not a column of the
    archetype has `componentsMap` index −1, a Go runtime panic. `none`: the loop passes. -/
def checkRelList (A : Archetype) : List Comp → List RelID → Option PanicKind
  | _, [] => none
  | seen, r :: rest =>
    if seen.contains r.comp then some .relTwice
    else if (A.colIdx r.comp).isNone then some .runtime
    else checkRelList A (r.comp :: seen) rest

/-- `createTable`: returns the table ID. -/
def createTable (a : Nat) (rels : List RelID) : W Nat := do
  let w ← M.get
  let A := w.arch a
  M.assert (!(rels.length < A.numRel)) .relUnspecified
  -- seen.Get/Set; targets[idx] = rel.target  (index −1 is a Go runtime panic)
  match checkRelList A [] rels with
  | some k => M.panic k
  | none => pure ()
  let targets := rels.foldl (fun (ts : List Ent) r =>
    match A.colIdx r.comp with
    | some i => ts.set i r.target
    | none => ts) (List.replicate A.comps.length Ent.zero)
  M.forM' rels fun r => do
    checkRelationComponent r.comp
    checkRelationTarget r.target
  let w ← M.get
  let A := w.arch a
  let (tid, recycled) ←
    match A.getFreeTable with
    | some (A', t) => do
      M.set ((w.setArch a A').modTbl t fun T => T.recycle targets rels)
      pure (t, true)
    | none => do
      let t := w.tables.length
      let cap := if A.hasRelations then w.initCapRel else w.initCap
      M.set { w with tables := w.tables ++ [Table.new t a A.comps A.isRel A.zst cap targets rels] }
      pure (t, false)
  let _ := recycled
  M.modify fun w => w.modArch a fun A => A.addTable tid targets
  let w ← M.get
  match w.cacheAddTable (w.tbl tid) with
  | none => M.panic .runtime
  | some w' => M.set w'
  pure tid

/-- The relation list handed to `GetTable`/`createTable` by `findOrCreateTableAdd`. -/
def relsForAdd (old : Table) (rels : List RelID) : List RelID :=
  if rels.isEmpty then old.relIDs else old.relIDs ++ rels

/-- `graph.FindAdd` on masks. -/
def graphFindAdd (mask : Mask) (add : List Comp) : W Mask := fun w =>
  let rec go (m : Mask) : List Comp → Res World Mask
    | [] => .ok m w
    | c :: rest => if m.get c then .panic .alreadyHas w else go (m.set c) rest
  go mask add

/-- `graph.FindRemove` on masks. -/
def graphFindRemove (mask : Mask) (rem : List Comp) : W Mask := fun w =>
  let rec go (m : Mask) : List Comp → Res World Mask
    | [] => .ok m w
    | c :: rest => if !m.get c then .panic .missing w else go (m.clear c) rest
  go mask rem

/-- `graph.Find` on masks (`start` = the start node's mask). -/
def graphFind (start mask : Mask) (add rem : List Comp) : W Mask := fun w =>
  match graphFindRemove mask rem w with
  | .panic k w => .panic k w
  | .ok m w =>
    let rec go (m : Mask) : List Comp → Res World Mask
      | [] => .ok m w
      | c :: rest =>
        if m.get c then .panic .alreadyHas w
        else if start.get c then .panic .addedAndRemoved w
        else go (m.set c) rest
    go m add

/-- `findOrCreateTableAdd`: returns (table, archetype, new mask). -/
def findOrCreateTableAdd (oldT : Nat) (startMask : Mask) (add : List Comp) (rels : List RelID) :
    W (Nat × Nat × Mask) := do
  let mask ← graphFindAdd startMask add
  let a ← findOrCreateArch mask
  let w ← M.get
  let all := relsForAdd (w.tbl oldT) rels
  match ← getTable a all with
  | some t => pure (t, a, mask)
  | none => do
    let t ← createTable a all
    pure (t, a, mask)

/-- `findOrCreateTableRemove`: returns (table, archetype, new mask, relationRemoved). -/
def findOrCreateTableRemove (oldT : Nat) (startMask : Mask) (rem : List Comp) :
    W (Nat × Nat × Mask × Bool) := do
  let mask ← graphFindRemove startMask rem
  let a ← findOrCreateArch mask
  let w ← M.get
  let old := w.tbl oldT
  let kept := old.relIDs.filter fun r => mask.get r.comp
  let relRemoved := old.relIDs.any fun r => !mask.get r.comp
  match ← getTable a kept with
  | some t => pure (t, a, mask, relRemoved)
  | none => do
    let t ← createTable a kept
    pure (t, a, mask, relRemoved)

/-- `findOrCreateTable` (exchange). -/
def findOrCreateTable (oldT : Nat) (startMask : Mask) (add rem : List Comp) (rels : List RelID) :
    W (Nat × Nat × Mask × Bool) := do
  let mask ← graphFind startMask startMask add rem
  let a ← findOrCreateArch mask
  let w ← M.get
  let old := w.tbl oldT
  let (all, relRemoved) :=
    if !rem.isEmpty then
      ((old.relIDs.filter fun r => mask.get r.comp) ++ rels, old.relIDs.any fun r => !mask.get r.comp)
    else (relsForAdd old rels, false)
  match ← getTable a all with
  | some t => pure (t, a, mask, relRemoved)
  | none => do
    let t ← createTable a all
    pure (t, a, mask, relRemoved)

/-- `registerTargets`. -/
def registerTargets (rels : List RelID) : W Unit := M.modify fun w =>
  { w with isTarget := rels.foldl (fun it r => it.set r.target.id true) w.isTarget }

/-- take an entity from the pool, put it into table `t`, write the index
    (`createEntity` / the body of `newEntity`); `resetTarget` = the `isTarget[id] = false`
    of `createEntity`. -/
def placeNew (t : Nat) (resetTarget : Bool) : W (Ent × Nat) := fun w =>
  let (pool, e) := w.pool.get
  let (T, idx) := (w.tbl t).add e
  let w := { (w.setTbl t T) with pool }
  let w :=
    if e.id == w.entities.length then
      { w with entities := w.entities ++ [(t, idx)], isTarget := w.isTarget ++ [false] }
    else
      { w with entities := w.entities.set e.id (t, idx)
               isTarget := if resetTarget then w.isTarget.set e.id false else w.isTarget }
  .ok (e, idx) w

/-- `createEntities`. -/
def createEntities (t : Nat) (count : Nat) : W Unit := fun w =>
  let start := (w.tbl t).len
  let w := w.modTbl t fun T => T.alloc count
  let step (w : World) (i : Nat) : World :=
    let idx := start + i
    let (pool, e) := w.pool.get
    let w := { (w.modTbl t fun T => { T with ents := T.ents.set idx e }) with pool }
    if e.id == w.entities.length then
      { w with entities := w.entities ++ [(t, idx)], isTarget := w.isTarget ++ [false] }
    else
      { w with entities := w.entities.set e.id (t, idx), isTarget := w.isTarget.set e.id false }
  .ok () ((List.range count).foldl step w)

/-- `moveEntities(src, dst, count)`. -/
def moveEntities (src dst : Nat) (count : Nat) : W Unit := fun w =>
  let oldLen := (w.tbl dst).len
  let w := w.modTbl dst fun D => D.addAll (w.tbl src) count
  let newLen := (w.tbl dst).len
  let w := (List.range (newLen - oldLen)).foldl (fun (w : World) k =>
    let i := oldLen + k
    let e := (w.tbl dst).getEntity i
    { w with entities := w.entities.set e.id (dst, i) }) w
  .ok () (w.modTbl src Table.reset)

/-- `getExchangeTargetsUnchecked`. A relation naming a component the table lacks is a nil
    dereference in Go. -/
def getExchangeTargetsUnchecked (T : Table) (rels : List RelID) : Option (List RelID) :=
  if !(rels.all fun r => (T.colIdx r.comp).isSome) then none else
  let targets := rels.foldl (fun (ts : List Ent) r =>
    match T.colIdx r.comp with
    | some i => ts.set i r.target
    | none => ts) T.targets
  some (((T.ids.zip targets).zip T.isRel).filterMap fun ((c, e), r) =>
    if r then some ⟨c, e⟩ else none)

/-- `getExchangeTargets`: `(newRelations, changed, changeMask)`.  `seen` = the relation
    components named so far (Go: `var seen bitMask`): a relation whose component was already named
    panics "relation component %d specified more than once" (`.relTwice`, the repair of defect
    D19) before the column is looked up. -/
def getExchangeTargets (T : Table) (rels : List RelID) : W (List RelID × Bool × Mask) := fun w =>
  let rec go (targets : List Ent) (changed : Bool) (cm : Mask) (seen : List Comp) :
      List RelID → Res World (List Ent × Bool × Mask)
    | [] => .ok (targets, changed, cm) w
    | r :: rest =>
      if seen.contains r.comp then .panic .relTwice w else
      match T.colIdx r.comp with
      | none => .panic .noRelComponent w
      | some i =>
        if !(T.isRel.getD i false) then .panic .notRelation w
        else if r.target == targets.getD i Ent.zero then go targets changed cm (r.comp :: seen) rest
        else go (targets.set i r.target) true (cm.set r.comp) (r.comp :: seen) rest
  match go T.targets false Mask.empty [] rels with
  | .panic k w => .panic k w
  | .ok (targets, changed, cm) w =>
    if !changed then .ok ([], false, cm) w else
    .ok ((((T.ids.zip targets).zip T.isRel).filterMap fun ((c, e), r) =>
      if r then some ⟨c, e⟩ else none), true, cm) w

/-- `cleanupArchetypes(target)`. -/
def cleanupArchetypes (target : Ent) : W Unit := do
  let w ← M.get
  M.forM' w.relationArchetypes fun a => do
    let w ← M.get
    match AL.find? (w.arch a).targetTables target.id with
    | none => pure ()
    | some tables =>
      -- for i := ln-1; i >= 0; i--  over the slice as it was when the loop started
      M.forM' tables.tables.reverse fun tid => do
        let w ← M.get
        let T := w.tbl tid
        let newRels := (T.relIDs.filter fun r =>
            r.target.id == target.id || (!r.target.isZero && !w.alive r.target)).map
          fun r => (⟨r.comp, Ent.zero⟩ : RelID)
        if T.len > 0 then
          match getExchangeTargetsUnchecked T newRels with
          | none => M.panic .runtime
          | some all =>
            let nt ← match ← getTable a all with
              | some t => pure t
              | none => createTable a all
            moveEntities tid nt T.len
        M.modify fun w => (w.modArch a fun A => A.freeTable tid).modTbl tid fun T => { T with isFree := true }
        M.modify fun w => w.cacheRemoveTable tid
      M.modify fun w => w.modArch a fun A => A.removeTarget target

/-! ### events.go: dispatch -/

/-- what a probe does when a callback runs; defined after the operations it may call -/
abbrev ProbeRunner := Nat → Ent → Probe → W Unit

/-- Run the callbacks of the observers in `obs` (labels, snapshot taken by the caller) whose
    predicate holds; returns whether any ran (`found`). -/
def dispatch (run : ProbeRunner) (obs : List Nat) (pred : ObsData → Bool) (e : Ent) : W Bool := do
  let mut found := false
  for l in obs do
    let w ← M.get
    let o := w.obs.obj l
    if pred o.data then
      logEv (.cb l e)
      for p in o.spec.script do
        run l e p
      found := true
  pure found

section Fire
variable (run : ProbeRunner)

def fireCreateEntity (e : Ent) (mask : Mask) (earlyOut : Bool) : W Bool := do
  let w ← M.get
  let es := w.obs.evt Ev.onCreateEntity
  if earlyOut && Early.entity es mask then return false
  dispatch run es.observers (fun d => Pred.entity d mask) e

def fireCreateEntityIfHas (e : Ent) (mask : Mask) : W Unit := do
  let w ← M.get
  if w.obs.hasObservers Ev.onCreateEntity then
    let _ ← fireCreateEntity run e mask true

def fireCreateEntityRel (e : Ent) (mask : Mask) (earlyOut : Bool) : W Bool := do
  let w ← M.get
  let es := w.obs.evt Ev.onAddRelations
  if earlyOut && Early.entityRel es mask then return false
  dispatch run es.observers (fun d => Pred.entityRel d mask) e

def fireCreateEntityRelIfHas (e : Ent) (mask : Mask) : W Unit := do
  let w ← M.get
  if w.obs.hasObservers Ev.onAddRelations then
    let _ ← fireCreateEntityRel run e mask true

def fireRemoveEntity (e : Ent) (mask : Mask) (earlyOut : Bool) : W Bool := do
  let w ← M.get
  let es := w.obs.evt Ev.onRemoveEntity
  if earlyOut && Early.entity es mask then return false
  dispatch run es.observers (fun d => Pred.entity d mask) e

def fireRemoveEntityRel (e : Ent) (mask : Mask) (earlyOut : Bool) : W Bool := do
  let w ← M.get
  let es := w.obs.evt Ev.onRemoveRelations
  if earlyOut && Early.entityRel es mask then return false
  dispatch run es.observers (fun d => Pred.entityRel d mask) e

def fireAdd (evt : Nat) (e : Ent) (old new : Mask) (earlyOut : Bool) : W Bool := do
  let w ← M.get
  let es := w.obs.evt evt
  if earlyOut && Early.add es old new then return false
  dispatch run es.observers (fun d => Pred.add d old new) e

def fireAddIfHas (evt : Nat) (e : Ent) (old new : Mask) : W Unit := do
  let w ← M.get
  if w.obs.hasObservers evt then
    let _ ← fireAdd run evt e old new true

def fireRemove (evt : Nat) (e : Ent) (old new : Mask) (earlyOut : Bool) : W Bool := do
  let w ← M.get
  let es := w.obs.evt evt
  if earlyOut && Early.remove es old new then return false
  dispatch run es.observers (fun d => Pred.remove d old new) e

/-- `FireSet`, `FireCustom` (always with early-out), `FireSetRelations`. -/
def fireSet (evt : Nat) (e : Ent) (mask emask : Mask) (earlyOut : Bool) : W Bool := do
  let w ← M.get
  let es := w.obs.evt evt
  if earlyOut && Early.set es mask emask then return false
  dispatch run es.observers (fun d => Pred.set d mask emask) e

/-- `for i in rows: if !fire(row i, earlyOut) break; earlyOut = false` — the batch idiom. -/
def fireRows (fire : Ent → Bool → W Bool) (ents : List Ent) : W Unit := do
  let mut earlyOut := true
  for e in ents do
    let found ← fire e earlyOut
    if !found then break
    earlyOut := false

/-! ### world.go / world_internal.go -/

/-- pre-validation of relations done by the typed API (`ToRelations`) before the operation;
    `maskOfMapper` = the mapper's component mask. -/
def preCheckTyped (mapperMask : Mask) (rels : List RelID) : W Unit :=
  M.forM' rels fun r => do
    checkRelationTarget r.target
    checkRelationComponent r.comp
    M.assert (mapperMask.get r.comp) .relNotInMask

/-- pre-validation done by `Map[T]` (`relationEntities.ToRelation`/`toRelation`). -/
def preCheckMap (rels : List RelID) : W Unit :=
  M.forM' rels fun r => do
    checkRelationTarget r.target
    checkRelationComponent r.comp

/-- `World.newEntity(ids, relations)`: returns entity and the new archetype's mask. -/
def newEntityCore (ids : List Comp) (rels : List RelID) : W (Ent × Mask) := do
  checkLocked
  let (t, a, _) ← findOrCreateTableAdd 0 Mask.empty ids rels
  let (e, _) ← placeNew t false
  registerTargets rels
  let w ← M.get
  pure (e, (w.arch a).mask)

/-- write values through component pointers of an entity (zero-size: no-op). -/
def writeVals (e : Ent) (vals : List (Comp × Val)) : W Unit := M.modify fun w =>
  let (t, row) := w.index e.id
  w.modTbl t fun T => vals.foldl (fun T (c, v) => T.setComp c row v) T

/-- API path of a single-entity operation. -/
inductive Path | unsafe_ | map1 | typed
  deriving DecidableEq, Repr, Inhabited

/-- pre-validation of the relation arguments, on every path, before the operation proper starts
    (nothing has been changed when it rejects).  `ids` = the components the relations must be
    among: the added components, resp. the mapper's components.
    * `.typed` (`MapN`, `ExchangeN`: `ToRelations`): target, relation component, membership;
    * `.map1` (`Map[T]`: `toRelation`): target, relation component — the component is the map's;
    * `.unsafe_` (`Unsafe`: `ToCheckedRelationIDsForUnsafe(world, ids, out)` with `ids != nil`):
      like `.typed`.  The two `Unsafe` entry points that pass `ids == nil` (no membership check)
      are expressed through `Path.addCheck` / `Path.setRelCheck` below.
    (Until the repair of the `Unsafe` API — `ToRelationIDsForUnsafe` converted without any check —
    `.unsafe_` was `pure ()`.  The batch operations `opNewBatch` / `opExchangeBatch` /
    `opSetRelationsBatch` have no `Unsafe` counterpart in Go; given `.unsafe_` they validate like
    `.typed`.) -/
def preCheck (p : Path) (ids : List Comp) (rels : List RelID) : W Unit :=
  match p with
  | .unsafe_ => preCheckTyped (Mask.ofList ids) rels
  | .map1 => preCheckMap rels
  | .typed => preCheckTyped (Mask.ofList ids) rels

/-- the validation `Add` uses on path `p`: `Unsafe.AddRel(e, comps, rels)` passes
    `addedIDs(comps)`, which is `nil` — no membership check, i.e. the checks of `.map1` — when
    `comps` is empty (the call is then rejected right afterwards with `noComponents`). -/
def Path.addCheck (p : Path) (ids : List Comp) : Path :=
  if p == .unsafe_ && ids.isEmpty then .map1 else p

/-- the validation `SetRelations` uses on path `p`: `Unsafe.SetRelations(e, rels)` passes `nil`
    — target and relation component are checked, membership is not (there is no component
    list), i.e. the checks of `.map1`. -/
def Path.setRelCheck (p : Path) : Path :=
  if p == .unsafe_ then .map1 else p

/-- `NewEntity` through any path. With the typed paths the values are written by the `fn`
    callback before the events fire; with `Unsafe` the caller writes them afterwards. -/
def opNewEntity (p : Path) (ids : List Comp) (vals : List (Comp × Val)) (rels : List RelID) : W Ent := do
  preCheck p ids rels
  let (e, mask) ← newEntityCore ids rels
  if p != .unsafe_ then writeVals e vals
  fireCreateEntityIfHas run e mask
  if !rels.isEmpty then fireCreateEntityRelIfHas run e mask
  if p == .unsafe_ then writeVals e vals
  pure e

/-- `World.NewEntity()` (no components). -/
def opNewEntity0 : W Ent := do
  checkLocked
  let (e, _) ← placeNew 0 true
  let w ← M.get
  fireCreateEntityIfHas run e (w.arch 0).mask
  pure e

/-- move row `row` of `oldT` (entity `e`) to a fresh row of `newT`, copying the components
    selected by `keep`; fix up both indices (the tail of `add`/`remove`/`exchange`). -/
def moveRow (e : Ent) (oldT row newT newIndex : Nat) (keep : Mask) : W Unit := M.modify fun w =>
  let O := w.tbl oldT
  let w := w.modTbl newT fun N =>
    O.ids.foldl (fun N c =>
      if keep.get c then
        match O.getComp c row with
        | some v => N.setComp c newIndex v
        | none => N
      else N) N
  let (O', swapped) := (w.tbl oldT).remove row
  let w := w.setTbl oldT O'
  let w := if swapped then
      let se := O'.getEntity row
      { w with entities := w.entities.modify se.id fun (t, _) => (t, row) }
    else w
  { w with entities := w.entities.set e.id (newT, newIndex) }

/-- `World.add`: returns (old mask, new mask). -/
def addCore (e : Ent) (add : List Comp) (rels : List RelID) : W (Mask × Mask) := do
  checkLocked
  let w ← M.get
  M.assert (w.alive e) .deadEntity
  M.assert (!add.isEmpty) .noComponents
  let (oldT, row) := w.index e.id
  let oldA := (w.tbl oldT).arch
  let oldMask := (w.arch oldA).mask
  let (newT, newA, mask) ← findOrCreateTableAdd oldT oldMask add rels
  let newIndex ← (fun w => let (N, i) := (w.tbl newT).add e; Res.ok i (w.setTbl newT N) : W Nat)
  moveRow e oldT row newT newIndex mask
  registerTargets rels
  let w ← M.get
  pure (oldMask, (w.arch newA).mask)

/-- `World.remove`. -/
def removeCore (e : Ent) (rem : List Comp) : W Unit := do
  checkLocked
  let w ← M.get
  M.assert (w.alive e) .deadEntity
  M.assert (!rem.isEmpty) .noComponents
  let (oldT, row) := w.index e.id
  let oldMask := (w.arch (w.tbl oldT).arch).mask
  let (newT, _, mask, relRemoved) ← findOrCreateTableRemove oldT oldMask rem
  let w ← M.get
  let hasCompObs := w.obs.hasObservers Ev.onRemoveComponents
  let hasRelObs := relRemoved && w.obs.hasObservers Ev.onRemoveRelations
  if hasCompObs || hasRelObs then
    let l ← lock
    if hasCompObs then let _ ← fireRemove run Ev.onRemoveComponents e oldMask mask true
    if hasRelObs then let _ ← fireRemove run Ev.onRemoveRelations e oldMask mask true
    unlock l
  let newIndex ← (fun w => let (N, i) := (w.tbl newT).add e; Res.ok i (w.setTbl newT N) : W Nat)
  moveRow e oldT row newT newIndex mask

/-- `World.exchange`. -/
def exchangeCore (e : Ent) (add rem : List Comp) (rels : List RelID) : W (Mask × Mask) := do
  checkLocked
  let w ← M.get
  M.assert (w.alive e) .deadEntity
  M.assert (!(add.isEmpty && rem.isEmpty)) .noComponents
  let (oldT, row) := w.index e.id
  let oldMask := (w.arch (w.tbl oldT).arch).mask
  let (newT, newA, mask, relRemoved) ← findOrCreateTable oldT oldMask add rem rels
  if !rem.isEmpty then
    let w ← M.get
    let hasCompObs := w.obs.hasObservers Ev.onRemoveComponents
    let hasRelObs := relRemoved && w.obs.hasObservers Ev.onRemoveRelations
    if hasCompObs || hasRelObs then
      let l ← lock
      if hasCompObs then let _ ← fireRemove run Ev.onRemoveComponents e oldMask mask true
      if hasRelObs then let _ ← fireRemove run Ev.onRemoveRelations e oldMask mask true
      unlock l
  let newIndex ← (fun w => let (N, i) := (w.tbl newT).add e; Res.ok i (w.setTbl newT N) : W Nat)
  moveRow e oldT row newT newIndex mask
  registerTargets rels
  let w ← M.get
  pure (oldMask, (w.arch newA).mask)

/-- `Add` through any path: the `Alive` check of `Unsafe.Add/AddRel` and `Map.AddFn`, the
    pre-validation of the relations, `World.add`, writes and events. -/
def opAdd (p : Path) (e : Ent) (ids : List Comp) (vals : List (Comp × Val)) (rels : List RelID) : W Unit := do
  -- Unsafe.Add/AddRel and Map.AddFn check Alive before anything else; MapN.AddFn does not
  if p != .typed then do
    let w ← M.get
    M.assert (w.alive e) .deadEntity
  preCheck (p.addCheck ids) ids rels
  let (old, new) ← addCore e ids rels
  if p != .unsafe_ then writeVals e vals
  fireAddIfHas run Ev.onAddComponents e old new
  if !rels.isEmpty then fireAddIfHas run Ev.onAddRelations e old new
  if p == .unsafe_ then writeVals e vals

/-- `Remove` through any path. -/
def opRemove (p : Path) (e : Ent) (ids : List Comp) : W Unit := do
  if p != .typed then do
    let w ← M.get
    M.assert (w.alive e) .deadEntity
  removeCore run e ids

/-- `Exchange` through `Unsafe.Exchange` or `ExchangeN.Exchange`: the `Alive` check of
    `Unsafe.Exchange`, the pre-validation of the relations (membership in `add` on both paths, also
    when `add` is empty), `World.exchange`, writes and events. -/
def opExchange (p : Path) (e : Ent) (add : List Comp) (vals : List (Comp × Val)) (rem : List Comp)
    (rels : List RelID) : W Unit := do
  if p == .unsafe_ then do
    let w ← M.get
    M.assert (w.alive e) .deadEntity
  preCheck p add rels
  let (old, new) ← exchangeCore run e add rem rels
  if p != .unsafe_ then writeVals e vals
  if p != .unsafe_ || !add.isEmpty then
    fireAddIfHas run Ev.onAddComponents e old new
    if !rels.isEmpty then fireAddIfHas run Ev.onAddRelations e old new
  if p == .unsafe_ then writeVals e vals

/-- `Map.Set` / `MapN.Set`: write values, then `OnSetComponents`.  In the non-debug build a
    missing component is a nil dereference (runtime panic); in the debug build the
    `checkHasComponent` guard panics first — both are class `missing`/`runtime`, merged by the
    harness. -/
def opSet (e : Ent) (ids : List Comp) (vals : List (Comp × Val)) : W Unit := do
  let w ← M.get
  M.assert (w.alive e) .deadEntity
  let (t, _) := w.index e.id
  M.assert (ids.all fun c => (w.tbl t).has c) .missing
  writeVals e vals
  let w ← M.get
  if w.obs.hasObservers Ev.onSetComponents then
    let _ ← fireSet run Ev.onSetComponents e (Mask.ofList ids) (w.maskOf e) true

/-- `World.setRelations`. -/
def setRelationsCore (e : Ent) (rels : List RelID) : W Unit := do
  checkLocked
  let w ← M.get
  M.assert (w.alive e) .deadEntity
  M.assert (!rels.isEmpty) .noRelations
  let (oldT, row) := w.index e.id
  let (newRels, changed, changeMask) ← getExchangeTargets (w.tbl oldT) rels
  if !changed then return
  let a := (w.tbl oldT).arch
  let newT ← match ← getTable a newRels with
    | some t => pure t
    | none => createTable a newRels
  let w ← M.get
  if w.obs.hasObservers Ev.onRemoveRelations then
    let l ← lock
    let _ ← fireSet run Ev.onRemoveRelations e changeMask (w.arch a).mask true
    unlock l
  let newIndex ← (fun w => let (N, i) := (w.tbl newT).add e; Res.ok i (w.setTbl newT N) : W Nat)
  moveRow e oldT row newT newIndex (w.arch a).mask
  registerTargets rels
  let w ← M.get
  if w.obs.hasObservers Ev.onAddRelations then
    let _ ← fireSet run Ev.onAddRelations e changeMask (w.arch a).mask true

/-- `SetRelations` through any path (`mapperIds` = the mapper's components for typed paths;
    ignored by `Unsafe.SetRelations` and `Map.SetRelation`, which check target and relation
    component only). -/
def opSetRelations (p : Path) (e : Ent) (mapperIds : List Comp) (rels : List RelID) : W Unit := do
  preCheck p.setRelCheck mapperIds rels
  setRelationsCore run e rels

/-- `storage.RemoveEntity`. -/
def opRemoveEntity (e : Ent) : W Unit := do
  checkLocked
  let w ← M.get
  M.assert (w.alive e) .deadEntity
  let (t, row) := w.index e.id
  let T := w.tbl t
  let mask := (w.arch T.arch).mask
  let hasEntityObs := w.obs.hasObservers Ev.onRemoveEntity
  let hasRelObs := T.hasRelations && w.obs.hasObservers Ev.onRemoveRelations
  if hasEntityObs || hasRelObs then
    let l ← lock
    if hasEntityObs then let _ ← fireRemoveEntity run e mask true
    if hasRelObs then let _ ← fireRemoveEntityRel run e mask true
    unlock l
  M.modify fun w =>
    let (T', swapped) := (w.tbl t).remove row
    let w := w.setTbl t T'
    let w := { w with pool := w.pool.recycle e }
    let w := if swapped then
        let se := T'.getEntity row
        { w with entities := w.entities.modify se.id fun (tt, _) => (tt, row) }
      else w
    { w with entities := w.entities.modify e.id fun (_, r) => (maxU32, r) }
  let w ← M.get
  if w.isTarget.getD e.id false then
    cleanupArchetypes e
    M.modify fun w => { w with isTarget := w.isTarget.set e.id false }

/-- `CopyEntity`. -/
def opCopyEntity (src : Ent) : W Ent := do
  checkLocked
  let w ← M.get
  M.assert (w.alive src) .deadEntity
  let (t, row) := w.index src.id
  let (e, idx) ← placeNew t false
  M.modify fun w => w.modTbl t fun T =>
    (List.range T.ids.length).foldl (fun T i => T.setCell i idx (T.cell i row)) T
  let w ← M.get
  let A := w.arch (w.tbl t).arch
  fireCreateEntityIfHas run e A.mask
  if A.hasRelations then fireCreateEntityRelIfHas run e A.mask
  pure e

/-! ### batches -/

/-- A `Batch`: filter object label + extra per-call relations. -/
structure BatchSpec where
  filter : Nat
  rels : List RelID := []
  deriving Repr, Inhabited

/-- relations to match tables against for a query/batch on filter object `fo` with per-call
    relations `extra`: for a cached filter only the extra ones (the fixed ones are baked into
    the cache entry), otherwise fixed ++ extra. -/
def effRels (fo : FilterObj) (extra : List RelID) : List RelID :=
  if fo.cache.isSome then extra else fo.rels ++ extra

/-- `getBatchTables`. -/
def getBatchTables (fo : FilterObj) (extra : List RelID) : W (List Nat) := fun w =>
  let rels := effRels fo extra
  match fo.cache with
  | some id =>
    match w.cacheEntry? id with
    | none => .panic .runtime w
    | some ce =>
      let r := ce.tables.tables.foldl (fun acc t =>
        match acc with
        | none => none
        | some acc =>
          let T := w.tbl t
          if T.len == 0 then some acc else
          match T.matchesRels rels with
          | none => none
          | some true => some (acc ++ [t])
          | some false => some acc) (some [])
      match r with
      | none => .panic .runtime w
      | some ts => .ok ts w
  | none =>
    match w.getCacheTables fo.filter rels with
    | none => .panic .runtime w
    | some ts => .ok ts w

/-- values + record for the user callback of a batch operation on rows `[start, start+n)` of
    table `t`: the harness' callback records what it sees, then writes `vals`. -/
def batchFn (t start n : Nat) (vals : List (Comp × Val)) : W Unit := do
  for i in List.range n do
    let w ← M.get
    let T := w.tbl t
    let e := T.getEntity (start + i)
    logEv (.fn e w.isLocked (vals.map fun (c, _) => (c, (T.getComp c (start + i)).getD 0)))
    M.modify fun w => w.modTbl t fun T => vals.foldl (fun T (c, v) => T.setComp c (start + i) v) T

/-- `World.NewEntities(count, fn)`. -/
def opNewEntities (count : Nat) (withFn : Bool) : W (Nat × Nat) := do
  checkLocked
  let (t, _, _) ← findOrCreateTableAdd 0 Mask.empty [] []
  let start := (← M.get).tbl t |>.len
  createEntities t count
  registerTargets []
  let w ← M.get
  let hasObs := w.obs.hasObservers Ev.onCreateEntity
  let shouldLock := hasObs || withFn
  let l ← if shouldLock then lock else pure 0
  if withFn then batchFn t start count []
  if hasObs then
    let w ← M.get
    let T := w.tbl t
    let mask := (w.arch T.arch).mask
    fireRows (fun e eo => fireCreateEntity run e mask eo) ((List.range count).map fun i => T.getEntity (start + i))
  if shouldLock then unlock l
  pure (t, start)

/-- `MapN.NewBatchFn(count, fn, rel...)` / `Map.NewBatchFn`. Returns (table, start). -/
def opNewBatch (p : Path) (count : Nat) (ids : List Comp) (vals : List (Comp × Val))
    (rels : List RelID) (withFn : Bool) : W (Nat × Nat) := do
  checkLocked
  preCheck p ids rels
  let (t, _, _) ← findOrCreateTableAdd 0 Mask.empty ids rels
  let start := (← M.get).tbl t |>.len
  createEntities t count
  registerTargets rels
  let w ← M.get
  let hasCreateObs := w.obs.hasObservers Ev.onCreateEntity
  let hasRelObs := !rels.isEmpty && w.obs.hasObservers Ev.onAddRelations
  let shouldLock := hasCreateObs || hasRelObs || withFn
  let l ← if shouldLock then lock else pure 0
  if withFn then batchFn t start count vals
  let mmask := Mask.ofList ids
  if hasCreateObs then
    let T := (← M.get).tbl t
    fireRows (fun e eo => fireCreateEntity run e mmask eo) ((List.range count).map fun i => T.getEntity (start + i))
  if hasRelObs then
    let T := (← M.get).tbl t
    fireRows (fun e eo => fireCreateEntityRel run e mmask eo) ((List.range count).map fun i => T.getEntity (start + i))
  if shouldLock then unlock l
  pure (t, start)

/-- `exchangeTable`. Returns (start, count). -/
def exchangeTable (oldT newT : Nat) (rels : List RelID) : W (Nat × Nat) := do
  let w ← M.get
  let O := w.tbl oldT
  let mask := (w.arch (w.tbl newT).arch).mask
  let start := (w.tbl newT).len
  let count := O.len
  M.modify fun w => (List.range count).foldl (fun (w : World) i =>
    let e := O.getEntity i
    { w with entities := w.entities.set e.id (newT, start + i) }) w
  M.modify fun w => w.modTbl newT fun N => N.addAllEntities O count
  M.modify fun w => w.modTbl newT fun N =>
    O.ids.foldl (fun N c => if mask.get c then N.copyToEnd c O count else N) N
  M.modify fun w => w.modTbl oldT Table.reset
  registerTargets rels
  pure (start, count)

structure BatchTable where
  oldT : Nat
  newT : Nat
  start : Nat := 0
  len : Nat
  deriving Repr, Inhabited

/-- `exchangeBatch`. -/
def exchangeBatch (fo : FilterObj) (extra : List RelID) (add rem : List Comp)
    (rels : List RelID) (vals : Option (List (Comp × Val))) : W Unit := do
  checkLocked
  M.assert (!(add.isEmpty && rem.isEmpty)) .noComponents
  let tables ← getBatchTables fo extra
  let mut relRemoved := false
  let mut bts : List BatchTable := []
  for t in tables do
    let w ← M.get
    let T := w.tbl t
    if T.len == 0 then continue
    let oldMask := (w.arch T.arch).mask
    let (newT, _, _, rr) ← findOrCreateTable t oldMask add rem rels
    if rr then relRemoved := true
    bts := bts ++ [{ oldT := t, newT, len := T.len }]
  -- Go registers the targets ONCE, right after the planning loop and unconditionally (also when no
  -- table is selected or every selected table is empty), before any callback runs.  (The
  -- `registerTargets rels` at the end of `exchangeTable` is kept: after this registration it is the
  -- identity on the flags — it only sets to `true` flags that are `true` already.  `setRelationsBatch`:
  -- Go registers after its planning loop, the model after the moves, both unconditionally — the
  -- final flags agree.)
  registerTargets rels
  -- the lock is taken only now (Go: after the planning loop and `registerTargets`): a panic of
  -- `findOrCreateTable` above must not leave the world locked.  No callback has run so far.
  let l ← lock
  if !rem.isEmpty then
    let w ← M.get
    if w.obs.hasObservers Ev.onRemoveComponents then
      for b in bts do
        let w ← M.get
        let T := w.tbl b.oldT
        let oldMask := (w.arch T.arch).mask
        let newMask := (w.arch (w.tbl b.newT).arch).mask
        fireRows (fun e eo => fireRemove run Ev.onRemoveComponents e oldMask newMask eo)
          ((List.range b.len).map T.getEntity)
    let w ← M.get
    if relRemoved && w.obs.hasObservers Ev.onRemoveRelations then
      for b in bts do
        let w ← M.get
        let T := w.tbl b.oldT
        let oldMask := (w.arch T.arch).mask
        let newMask := (w.arch (w.tbl b.newT).arch).mask
        fireRows (fun e eo => fireRemove run Ev.onRemoveRelations e oldMask newMask eo)
          ((List.range b.len).map T.getEntity)
  let mut bts2 : List BatchTable := []
  for b in bts do
    let (start, len) ← exchangeTable b.oldT b.newT rels
    match vals with
    | some vs => batchFn b.newT start len vs
    | none => pure ()
    bts2 := bts2 ++ [{ b with start, len }]
  if !add.isEmpty then
    let w ← M.get
    if w.obs.hasObservers Ev.onAddComponents then
      for b in bts2 do
        let w ← M.get
        let T := w.tbl b.newT
        let oldMask := (w.arch (w.tbl b.oldT).arch).mask
        let newMask := (w.arch T.arch).mask
        fireRows (fun e eo => fireAdd run Ev.onAddComponents e oldMask newMask eo)
          ((List.range b.len).map fun i => T.getEntity (b.start + i))
    let w ← M.get
    if !rels.isEmpty && w.obs.hasObservers Ev.onAddRelations then
      for b in bts2 do
        let w ← M.get
        let T := w.tbl b.newT
        let oldMask := (w.arch (w.tbl b.oldT).arch).mask
        let newMask := (w.arch T.arch).mask
        fireRows (fun e eo => fireAdd run Ev.onAddRelations e oldMask newMask eo)
          ((List.range b.len).map fun i => T.getEntity (b.start + i))
  unlock l

/-- `MapN.AddBatchFn` / `ExchangeN.{Add,Exchange}BatchFn` / `removeBatch`: typed pre-check, then
    `exchangeBatch`. -/
def opExchangeBatch (p : Path) (fo : FilterObj) (extra : List RelID) (add rem : List Comp)
    (rels : List RelID) (vals : Option (List (Comp × Val))) : W Unit := do
  preCheck p add rels
  exchangeBatch run fo extra add rem rels vals

/-- `relationsMove` of `setRelationsBatch`. -/
structure RelMove where
  oldT : Nat
  newT : Nat
  len : Nat
  start : Nat := 0
  changeMask : Mask
  deriving Inhabited

/-- `prepareRelationsMove`: find or create the destination table of one source table. -/
def prepareRelationsMove (oldT : Nat) (oldLen : Nat) (rels : List RelID) : W (Option RelMove) := do
  let w ← M.get
  let (newRels, changed, changeMask) ← getExchangeTargets (w.tbl oldT) rels
  if !changed then return none
  let a := (w.tbl oldT).arch
  let newT ← match ← getTable a newRels with
    | some t => pure t
    | none => createTable a newRels
  pure (some { oldT, newT, len := oldLen, changeMask })

/-- `setRelationsBatch`: collect the moves, fire all removal events, move, fire all addition
    events. -/
def setRelationsBatch (fo : FilterObj) (extra : List RelID) (rels : List RelID) (withFn : Bool) : W Unit := do
  checkLocked
  M.assert (!rels.isEmpty) .noRelations
  let tables ← getBatchTables fo extra
  let mut moves : List RelMove := []
  for t in tables do
    let n := (← M.get).tbl t |>.len
    if n == 0 then continue
    match ← prepareRelationsMove t n rels with
    | some mv => moves := moves ++ [mv]
    | none => pure ()
  -- the lock is taken only now (Go: after the planning loop and `registerTargets`): a panic of
  -- `prepareRelationsMove` above must not leave the world locked.  No callback has run so far.
  let l ← lock
  let w ← M.get
  if w.obs.hasObservers Ev.onRemoveRelations then
    for mv in moves do
      let w ← M.get
      let O := w.tbl mv.oldT
      let newMask := (w.arch (w.tbl mv.newT).arch).mask
      fireRows (fun e eo => fireSet run Ev.onRemoveRelations e mv.changeMask newMask eo)
        ((List.range mv.len).map O.getEntity)
  let mut moved : List RelMove := []
  for mv in moves do
    let start := (← M.get).tbl mv.newT |>.len
    moveEntities mv.oldT mv.newT mv.len
    if withFn then batchFn mv.newT start mv.len []
    moved := moved ++ [{ mv with start }]
  registerTargets rels
  let w ← M.get
  if w.obs.hasObservers Ev.onAddRelations then
    for mv in moved do
      let w ← M.get
      let N := w.tbl mv.newT
      let newMask := (w.arch N.arch).mask
      fireRows (fun e eo => fireSet run Ev.onAddRelations e mv.changeMask newMask eo)
        ((List.range mv.len).map fun i => N.getEntity (mv.start + i))
  unlock l

def opSetRelationsBatch (p : Path) (fo : FilterObj) (extra : List RelID) (mapperIds : List Comp)
    (rels : List RelID) (withFn : Bool) : W Unit := do
  preCheck p mapperIds rels
  setRelationsBatch run fo extra rels withFn

/-- `World.RemoveEntities(batch, fn)`. -/
def opRemoveEntities (fo : FilterObj) (extra : List RelID) (withFn : Bool) : W Unit := do
  checkLocked
  let w ← M.get
  let hasEntityObs := w.obs.hasObservers Ev.onRemoveEntity
  let hasRelObs := w.obs.hasObservers Ev.onRemoveRelations
  let shouldLock := hasEntityObs || hasRelObs || withFn
  let l ← if shouldLock then lock else pure 0
  let tables ← getBatchTables fo extra
  if withFn then
    for t in tables do
      let n := (← M.get).tbl t |>.len
      batchFn t 0 n []
  if hasEntityObs then
    for t in tables do
      let w ← M.get
      let T := w.tbl t
      let mask := (w.arch T.arch).mask
      fireRows (fun e eo => fireRemoveEntity run e mask eo) ((List.range T.len).map T.getEntity)
  if hasRelObs then
    for t in tables do
      let w ← M.get
      let T := w.tbl t
      if !T.hasRelations then continue
      let mask := (w.arch T.arch).mask
      fireRows (fun e eo => fireRemoveEntityRel run e mask eo) ((List.range T.len).map T.getEntity)
  let mut cleanup : List Ent := []
  for t in tables do
    let w ← M.get
    let T := w.tbl t
    for i in List.range T.len do
      let e := T.getEntity i
      let w ← M.get
      if w.isTarget.getD e.id false then cleanup := cleanup ++ [e]
      M.modify fun w => { w with
        entities := w.entities.modify e.id fun (_, r) => (maxU32, r)
        pool := w.pool.recycle e }
    M.modify fun w => w.modTbl t Table.reset
  for e in cleanup do
    cleanupArchetypes e
    M.modify fun w => { w with isTarget := w.isTarget.set e.id false }
  if shouldLock then unlock l

/-! ### Reset / Shrink / dump / load -/

/-- `archetype.Reset`. -/
def resetArchetype (a : Nat) : W Unit := M.modify fun w =>
  let A := w.arch a
  if !A.hasRelations then w.modTbl (A.tables.tables.getD 0 0) Table.reset else
  let w := A.tables.tables.foldl (fun (w : World) t => w.modTbl t fun T => { T.reset with isFree := true }) w
  w.setArch a A.freeAllTables

/-- `World.Reset`. -/
def opReset : W Unit := do
  checkLocked
  M.modify fun w =>
    let w := { w with entities := w.entities.take 2, pool := w.pool.reset, isTarget := w.isTarget.take 2 }
    let w := w.cacheReset
    { w with locks := w.locks.reset, obs := w.obs.reset }
  let w ← M.get
  M.forM' (List.range w.archetypes.length) resetArchetype
  M.modify fun w => { w with resources := [] }

/-- does table `T` still have shrink work (second loop of `storage.Shrink`) -/
def tableHasWork (w : World) (T : Table) : Bool :=
  if !T.hasRelations then T.canShrink w.initCap
  else T.canShrink w.initCapRel || (!T.isFree && T.len == 0)

/-- `storage.Shrink`; `bounded` = `stopAfter == 0` (stop after the first table with work),
    otherwise all tables are processed (the wall clock is not modelled). -/
def opShrink (bounded : Bool) : W Bool := do
  checkLocked
  let w ← M.get
  let n := w.tables.length
  let mut anyFound := false
  let mut stopIdx := n
  for t in List.range n do
    let w ← M.get
    let T := w.tbl t
    if !T.hasRelations then
      let (T', s) := T.shrink w.initCap
      M.set (w.setTbl t T')
      if s then anyFound := true
    else
      let (T', s) := T.shrink w.initCapRel
      M.set (w.setTbl t T')
      if s then anyFound := true
      if !T'.isFree && T'.len == 0 then
        M.modify fun w => (w.modArch T'.arch fun A =>
          (A.freeTable t).removeTableRelations t T'.targets).modTbl t fun T => { T with isFree := true }
        M.modify fun w => w.cacheRemoveTable t
        anyFound := true
    if anyFound && bounded then
      stopIdx := t + 1
      break
  let w ← M.get
  pure ((List.range (n - stopIdx)).any fun k => w.tableHasWork (w.tbl (stopIdx + k)))

/-- `EntityDump`. -/
structure Dump where
  entities : List Ent
  alive : List Nat
  next : Nat
  available : Nat
  deriving Repr, Inhabited

/-- `LoadEntities`. -/
def opLoad (d : Dump) : W Unit := do
  checkLocked
  let w ← M.get
  M.assert (!(w.pool.ents.length > 2 || w.pool.available > 0)) .notEmptyWorld
  let capacity := d.entities.length
  if capacity > 0 then
    M.modify fun w => { w with pool := { ents := d.entities, stale := [], next := d.next, available := d.available } }
  M.modify fun w => { w with entities := List.replicate capacity (0, 0), isTarget := List.replicate capacity false }
  M.modify fun w => w.modTbl 0 fun T => T.extend d.alive.length
  for idx in d.alive do
    M.modify fun w =>
      let e := w.pool.ents.getD idx default
      let (T, row) := (w.tbl 0).add e
      { (w.setTbl 0 T) with entities := w.entities.set e.id (0, row) }

/-! ### custom events -/

/-- `Event.Emit`. -/
def opEmit (evt : Nat) (comps : List Comp) (e : Ent) : W Unit := do
  M.assert (evt ≤ Ev.custom) .emitPredefined
  let w ← M.get
  if !w.obs.hasObservers evt then return
  let emask := Mask.ofList comps
  let mask ←
    if e.isZero then do
      M.assert emask.isZero .emitZeroComps
      pure (w.arch 0).mask
    else do
      M.assert (w.alive e) .emitDead
      pure (w.maskOf e)
  M.assert (mask.contains emask) .emitMissing
  let _ ← fireSet run evt e emask mask true

end Fire

end World

end Ark
