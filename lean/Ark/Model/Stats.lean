/-
  Ark.Model.Stats — `World.Stats`, `archetype.Stats/UpdateStats`, `table.Stats/UpdateStats`:
  the incrementally updated statistics object, and the fresh computation it must equal.
-/
import Ark.Model.World

namespace Ark
namespace World

/-- `table.Stats(memPerEntity)`. -/
def tableStats (T : Table) (memPerEntity : Nat) : TableStats :=
  { size := T.len, capacity := T.cap, memory := T.cap * memPerEntity, memoryUsed := T.len * memPerEntity }

def memPerEntity (w : World) (A : Archetype) : Nat :=
  8 + (A.comps.map fun c => (w.kinds.getD c {}).size).foldl (· + ·) 0

/-- `archetype.Stats`: fresh statistics of an archetype. -/
def archStatsFresh (w : World) (A : Archetype) : ArchStats :=
  let mpe := w.memPerEntity A
  let ts := A.tables.tables.map fun t => tableStats (w.tbl t) mpe
  let freeCap := (A.freeTables.map fun t => (w.tbl t).cap).foldl (· + ·) 0
  { componentIDs := A.comps
    tables := ts
    size := (ts.map (·.size)).foldl (· + ·) 0
    capacity := (ts.map (·.capacity)).foldl (· + ·) 0 + freeCap
    numRelations := A.numRel
    memory := (ts.map (·.memory)).foldl (· + ·) 0 + mpe * freeCap
    memoryUsed := (ts.map (·.memoryUsed)).foldl (· + ·) 0
    memoryPerEntity := mpe
    freeTables := A.freeTables.length }

/-- `archetype.UpdateStats`: update an existing statistics object in place. -/
def archStatsUpdate (w : World) (A : Archetype) (st : ArchStats) : ArchStats :=
  let tables := A.tables.tables
  let cntNew := tables.length
  let old := if cntNew < st.tables.length then st.tables.take cntNew else st.tables
  let cntOld := old.length
  -- the first cntOld entries are updated in place, the rest appended
  let upd := (tables.take cntOld).map fun t => tableStats (w.tbl t) st.memoryPerEntity
  let app := (tables.drop cntOld).map fun t => tableStats (w.tbl t) st.memoryPerEntity
  let ts := upd ++ app
  let freeCap := (A.freeTables.map fun t => (w.tbl t).cap).foldl (· + ·) 0
  { st with
    tables := ts
    freeTables := A.freeTables.length
    capacity := (ts.map (·.capacity)).foldl (· + ·) 0 + freeCap
    size := (ts.map (·.size)).foldl (· + ·) 0
    memory := (ts.map (·.memory)).foldl (· + ·) 0 + st.memoryPerEntity * freeCap
    memoryUsed := (ts.map (·.memoryUsed)).foldl (· + ·) 0 }

/-- fresh world statistics (what a world asked for the first time reports) -/
def statsFresh (w : World) : WorldStats :=
  let as := w.archetypes.map w.archStatsFresh
  { archetypes := as
    used := w.pool.len, recycled := w.pool.available, total := w.pool.cap
    memory := (as.map (·.memory)).foldl (· + ·) 0
    memoryUsed := (as.map (·.memoryUsed)).foldl (· + ·) 0
    cachedFilters := w.cache.filters.length
    observers := w.obs.totalCount
    locked := w.isLocked
    numComponents := w.kinds.length }

/-- `World.Stats()`: incremental update of the re-used object. -/
def statsUpdate (w : World) (st : WorldStats) : WorldStats :=
  let cntOld := st.archetypes.length
  let upd := (w.archetypes.take cntOld).zip st.archetypes |>.map fun (A, s) => w.archStatsUpdate A s
  let app := (w.archetypes.drop cntOld).map w.archStatsFresh
  let as := upd ++ app
  { archetypes := as
    used := w.pool.len, recycled := w.pool.available, total := w.pool.cap
    memory := (as.map (·.memory)).foldl (· + ·) 0
    memoryUsed := (as.map (·.memoryUsed)).foldl (· + ·) 0
    cachedFilters := w.cache.filters.length
    observers := w.obs.totalCount
    locked := w.isLocked
    numComponents := w.kinds.length }

def opStats : W WorldStats := fun w =>
  let st := w.statsUpdate w.stats
  .ok st { w with stats := st }

end World

def TableStats.fmt (t : TableStats) : String := s!"{t.size}/{t.capacity}/{t.memory}/{t.memoryUsed}"

def ArchStats.fmt (a : ArchStats) : String :=
  s!"[ids={",".intercalate (a.componentIDs.map toString)} size={a.size} cap={a.capacity} nrel={a.numRelations} " ++
  s!"mem={a.memory} used={a.memoryUsed} mpe={a.memoryPerEntity} free={a.freeTables} " ++
  s!"tables={",".intercalate (a.tables.map TableStats.fmt)}]"

def WorldStats.fmt (s : WorldStats) : String :=
  s!"used={s.used} recycled={s.recycled} total={s.total} mem={s.memory} memUsed={s.memoryUsed} " ++
  s!"filters={s.cachedFilters} observers={s.observers} locked={if s.locked then 1 else 0} comps={s.numComponents} " ++
  s!"archs={"".intercalate (s.archetypes.map ArchStats.fmt)}"

end Ark
