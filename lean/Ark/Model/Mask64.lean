/-
  Ark.Model.Mask64 — the component mask of the `ark_tiny` build (`bitMask64`, one uint64):
  the operations of `Ark/Model/Mask.lean`, written the same way, at width 64; the tiny-build
  `filter` and observer predicates; and the zero-extending embedding into the 256-bit mask of
  the default build.  `Ark/Proofs/MaskWidth.lean` proves that the embedding is a simulation
  for component IDs below 64 (property C20).
-/
import Ark.Model.Mask

namespace Ark

abbrev Mask64 := BitVec 64

namespace Mask64

def empty : Mask64 := 0#64
@[inline] def get (m : Mask64) (c : Comp) : Bool := m.getLsbD c
@[inline] def bit (c : Comp) : Mask64 := (1#64) <<< c
@[inline] def set (m : Mask64) (c : Comp) : Mask64 := m ||| bit c
@[inline] def clear (m : Mask64) (c : Comp) : Mask64 := m &&& ~~~(bit c)
@[inline] def not (m : Mask64) : Mask64 := ~~~m
@[inline] def or (a b : Mask64) : Mask64 := a ||| b
@[inline] def isZero (m : Mask64) : Bool := m == 0#64
/-- `b.Contains(o)`: `o ⊆ b`. -/
@[inline] def contains (b o : Mask64) : Bool := (b &&& o) == o
/-- `b.ContainsAny(o)`: `b ∩ o ≠ ∅`. -/
@[inline] def containsAny (b o : Mask64) : Bool := (b &&& o) != 0#64

def ofList (cs : List Comp) : Mask64 := cs.foldl set empty

/-- Ascending list of set bits below `n` (the result of `toTypes` for `n` registered types). -/
def toList (m : Mask64) (n : Nat := 64) : List Comp := (List.range n).filter m.get

/-- Zero extension: the 256-bit mask with the same component set. -/
def embed (m : Mask64) : Mask := m.setWidth 256

end Mask64

/-- `filter` of `filter.go` in the tiny build. -/
structure Filter64 where
  mask : Mask64 := Mask64.empty
  without : Mask64 := Mask64.empty
  hasWithout : Bool := false
  deriving DecidableEq, Inhabited, Repr

namespace Filter64
/-- `filter.matches`. -/
def matchesMask (f : Filter64) (m : Mask64) : Bool :=
  m.contains f.mask && (!f.hasWithout || !m.containsAny f.without)
def withoutList (f : Filter64) (cs : List Comp) : Filter64 :=
  { f with without := Mask64.ofList cs, hasWithout := true }
/-- `Exclusive`: the complement is taken at width 64. -/
def exclusive (f : Filter64) : Filter64 :=
  { f with without := f.mask.not, hasWithout := true }

/-- Field-wise embedding of a tiny-build filter. -/
def embed (f : Filter64) : Filter :=
  { mask := f.mask.embed, without := f.without.embed, hasWithout := f.hasWithout }
end Filter64

/-- `observerData` in the tiny build. -/
structure ObsData64 where
  compsMask : Mask64 := Mask64.empty
  withMask : Mask64 := Mask64.empty
  withoutMask : Mask64 := Mask64.empty
  hasComps : Bool := false
  hasWith : Bool := false
  hasWithout : Bool := false
  deriving Repr, Inhabited, DecidableEq

/-! Per-observer predicates of the tiny build: `Ark.Pred.*` of `Ark/Model/Observers.lean`
    over `Mask64`. -/
namespace Pred64
/-- `FireCreateEntity` / `FireRemoveEntity`. -/
def entity (d : ObsData64) (mask : Mask64) : Bool :=
  !(d.hasWith && !mask.contains d.withMask) && !(d.hasWithout && mask.containsAny d.withoutMask)
/-- `FireCreateEntityRel` / `FireRemoveEntityRel`. -/
def entityRel (d : ObsData64) (mask : Mask64) : Bool :=
  !(d.hasComps && !mask.contains d.compsMask) &&
  !(d.hasWith && !mask.contains d.withMask) && !(d.hasWithout && mask.containsAny d.withoutMask)
/-- `FireAdd`. -/
def add (d : ObsData64) (old new : Mask64) : Bool :=
  !(d.hasComps && (!new.contains d.compsMask || old.containsAny d.compsMask)) &&
  !(d.hasWith && !old.contains d.withMask) && !(d.hasWithout && old.containsAny d.withoutMask)
/-- `FireRemove`. -/
def remove (d : ObsData64) (old new : Mask64) : Bool :=
  !(d.hasComps && (new.containsAny d.compsMask || !old.contains d.compsMask)) &&
  !(d.hasWith && !old.contains d.withMask) && !(d.hasWithout && old.containsAny d.withoutMask)
/-- `FireSet`, `FireSetRelations`, `FireCustom`. -/
def set (d : ObsData64) (mask emask : Mask64) : Bool :=
  !(d.hasComps && !mask.contains d.compsMask) &&
  !(d.hasWith && !emask.contains d.withMask) && !(d.hasWithout && emask.containsAny d.withoutMask)
end Pred64

/-- The mask part of the per-event-type manager state (`allComps`, `allWith`, …). -/
structure EvtMasks64 where
  allComps : Mask64 := Mask64.empty
  allWith : Mask64 := Mask64.empty
  anyNoComps : Bool := false
  anyNoWith : Bool := false
  deriving Repr, Inhabited, DecidableEq

/-! Early-outs of the tiny build: `Ark.Early.*` over `Mask64`. -/
namespace Early64
def entity (es : EvtMasks64) (mask : Mask64) : Bool :=
  !es.anyNoWith && !es.allWith.containsAny mask
def entityRel (es : EvtMasks64) (mask : Mask64) : Bool :=
  (!es.anyNoComps && !es.allComps.containsAny mask) ||
  (!es.anyNoWith && !es.allWith.containsAny mask)
def add (es : EvtMasks64) (old new : Mask64) : Bool :=
  (!es.anyNoComps && (!es.allComps.containsAny new || old.contains es.allComps)) ||
  (!es.anyNoWith && !es.allWith.containsAny old)
def remove (es : EvtMasks64) (old new : Mask64) : Bool :=
  (!es.anyNoComps && (!es.allComps.containsAny old || new.contains es.allComps)) ||
  (!es.anyNoWith && !es.allWith.containsAny old)
def set (es : EvtMasks64) (mask emask : Mask64) : Bool :=
  (!es.anyNoComps && !es.allComps.containsAny mask) ||
  (!es.anyNoWith && !es.allWith.containsAny emask)
end Early64

end Ark
