/-
  Ark.Model.Query — the query cursor machine of query.go / query_gen.go and the counting
  walks of query_count.go.
-/
import Ark.Model.World

namespace Ark

/-- An open query (`Query0..8` / `UnsafeQuery`). -/
structure QueryObj where
  filter : Filter
  /-- relations tables are matched against (for a cached filter only the per-call ones) -/
  rels : List RelID
  /-- `cache != nil`: the entry's table list (the world is locked while the query is open,
      so the list cannot change; see DESIGN §7 D11/D12) -/
  cacheTables : Option (List Nat)
  /-- archetype list walked: `none` = all archetypes, `some c` = `componentIndex[c]` -/
  rare : Option Comp
  lockBit : Nat
  archetype : Int := -1
  table : Int := -1
  index : Nat := 0
  maxIndex : Int := -1
  tables : List Nat := []
  cur : Option Nat := none
  deriving Repr, Inhabited

namespace World

/-- `registry.rareComponent(ids)`. -/
def rareComponent (w : World) (ids : List Comp) : Comp :=
  let rec go (best : Comp) (bestCount : Option Nat) : List Comp → Comp
    | [] => best
    | c :: rest =>
      let n := w.archCount.getD c 0
      match bestCount with
      | none => go c (some n) rest
      | some m => if n < m then go c (some n) rest else go best bestCount rest
  go 0 none ids

/-- list of archetype IDs a (non-cached) query walks -/
def archList (w : World) (rare : Option Comp) : List Nat :=
  match rare with
  | none => List.range w.archetypes.length
  | some c => w.componentIndex.getD c []

/-- `FilterN.Query(rel...)` / `UnsafeFilter.Query(rel...)`: pre-checks, lock. -/
def qOpen (fo : FilterObj) (extra : List RelID) : W QueryObj := do
  if fo.typed then preCheckTyped fo.filter.mask extra
  let w ← M.get
  let cacheTables ← match fo.cache with
    | some id =>
      match w.cacheEntry? id with
      | some ce => pure (some ce.tables.tables)
      | none => M.panic .runtime
    | none => pure none
  let rare := if fo.typed && !fo.ids.isEmpty then some (w.rareComponent fo.ids) else none
  let b ← lock
  pure { filter := fo.filter, rels := effRels fo extra, cacheTables, rare, lockBit := b }

/-- `Close`. -/
def qClose (q : QueryObj) : W QueryObj := do
  if q.table < -1 then return q
  unlock q.lockBit
  pure { q with archetype := -2, table := -2, tables := [], cur := none, cacheTables := none }

def qSetTable (w : World) (q : QueryObj) (index : Int) (t : Nat) : QueryObj :=
  { q with table := index, cur := some t, index := 0, maxIndex := ((w.tbl t).len : Int) - 1 }

/-- `nextTable(tables)`; `none` = runtime panic in `Matches`. -/
def qNextTable (w : World) (q : QueryObj) (tables : List Nat) : Option (QueryObj × Bool) :=
  let rec go (q : QueryObj) (fuel : Nat) : Option (QueryObj × Bool) :=
    match fuel with
    | 0 => some (q, false)
    | fuel + 1 =>
      if q.table < (tables.length : Int) - 1 then
        let q := { q with table := q.table + 1 }
        let t := tables.getD q.table.toNat 0
        let T := w.tbl t
        if T.len == 0 then go q fuel else
        match T.matchesRels q.rels with
        | none => none
        | some false => go q fuel
        | some true => some (qSetTable w q q.table t, true)
      else some (q, false)
  go q (tables.length + 1)

/-- `nextArchetype` (without the final `Close`, done by the caller). -/
def qNextArchetype (w : World) (q : QueryObj) : Option (QueryObj × Bool) :=
  let archs := w.archList q.rare
  let rec go (q : QueryObj) (fuel : Nat) : Option (QueryObj × Bool) :=
    match fuel with
    | 0 => some (q, false)
    | fuel + 1 =>
      if q.archetype < (archs.length : Int) - 1 then
        let q := { q with archetype := q.archetype + 1 }
        let A := w.arch (archs.getD q.archetype.toNat 0)
        if !q.filter.matchesMask A.mask then go q fuel
        else if !A.hasRelations then
          let t := A.tables.tables.getD 0 0
          if (w.tbl t).len > 0 then some (qSetTable w q 0 t, true) else go q fuel
        else
          match A.getTables q.rels with
          | none => none
          | some ts =>
            let q := { q with tables := ts, table := -1 }
            match qNextTable w q ts with
            | none => none
            | some (q, true) => some (q, true)
            | some (q, false) => go q fuel
      else some (q, false)
  go { q with tables := [] } (archs.length + 1)

/-- `Next`. -/
def qNext (q : QueryObj) : W (QueryObj × Bool) := do
  if q.table < -1 then M.panic .queryDone
  if (q.index : Int) < q.maxIndex then return ({ q with index := q.index + 1 }, true)
  let w ← M.get
  match q.cacheTables with
  | some ts =>
    match qNextTable w q ts with
    | none => M.panic .runtime
    | some (q, true) => pure (q, true)
    | some (q, false) => do
      let q ← qClose q
      pure (q, false)
  | none =>
    let r1 := if q.archetype ≥ 0 then qNextTable w q q.tables else some (q, false)
    match r1 with
    | none => M.panic .runtime
    | some (q, true) => pure (q, true)
    | some (q, false) =>
      match qNextArchetype w q with
      | none => M.panic .runtime
      | some (q, true) => pure (q, true)
      | some (q, false) => do
        let q ← qClose q
        pure (q, false)

/-- current entity, or `none` when there is no current table (`checkQueryGet` / nil deref). -/
def qEntity (w : World) (q : QueryObj) : Option Ent :=
  if q.table < 0 then none else
  match q.cur with
  | none => none
  | some t => some ((w.tbl t).getEntity q.index)

/-- tables selected by the counting walks (`countQuery`, `entityAt`), in walk order. -/
def qSelected (w : World) (q : QueryObj) : Option (List Nat) :=
  match q.cacheTables with
  | some ts =>
    ts.foldl (fun acc t =>
      match acc with
      | none => none
      | some acc =>
        let T := w.tbl t
        if T.len == 0 then some acc else
        match T.matchesRels q.rels with
        | none => none
        | some true => some (acc ++ [t])
        | some false => some acc) (some [])
  | none =>
    (w.archList q.rare).foldl (fun acc a =>
      match acc with
      | none => none
      | some acc =>
        let A := w.arch a
        if !q.filter.matchesMask A.mask then some acc
        else if !A.hasRelations then some (acc ++ [A.tables.tables.getD 0 0])
        else match A.getTables q.rels with
          | none => none
          | some ts => ts.foldl (fun acc t =>
              match acc with
              | none => none
              | some acc =>
                match (w.tbl t).matchesRels q.rels with
                | none => none
                | some true => some (acc ++ [t])
                | some false => some acc) (some acc)) (some [])

/-- `Count`. -/
def qCount (w : World) (q : QueryObj) : Option Nat :=
  (qSelected w q).map fun ts => (ts.map fun t => (w.tbl t).len).foldl (· + ·) 0

/-- `EntityAt(i)`: `some none` = the out-of-bounds panic, `none` = runtime panic. -/
def qEntityAt (w : World) (q : QueryObj) (i : Nat) : Option (Option Ent) :=
  (qSelected w q).map fun ts =>
    let rec go (count : Nat) : List Nat → Option Ent
      | [] => none
      | t :: rest =>
        let T := w.tbl t
        if count + T.len > i then some (T.getEntity (i - count)) else go (count + T.len) rest
    go 0 ts

end World

end Ark
