/-
  Ark.Model.Table — `table`/`column` of table.go and column.go.  Raw memory is abstracted to
  lists of cells of length `cap`; rows `≥ len` of component columns are zero (invariant I3),
  the entity column is *not* zeroed on removal (as in Go) and keeps stale handles.
-/
import Ark.Basic
import Ark.Model.Mask

namespace Ark

/-- `capPow2` on naturals (the word-level version is regenerated and related in Proofs). -/
def capPow2 (required : Nat) : Nat :=
  if required = 0 then 1 else
  let rec go (p : Nat) (fuel : Nat) : Nat :=
    match fuel with
    | 0 => p
    | fuel + 1 => if p ≥ required then p else go (2 * p) fuel
  go 1 33

/-- A `(component, target)` pair (`relationID`). -/
structure RelID where
  comp : Comp
  target : Ent
  deriving DecidableEq, Repr, Inhabited

structure Table where
  id : Nat
  arch : Nat
  /-- component IDs in column order (ascending; `table.ids`) -/
  ids : List Comp
  /-- per column: is it a relation column -/
  isRel : List Bool
  /-- per column: is the item size zero (writes are no-ops, reads see the zero value) -/
  zst : List Bool
  /-- entity column, length `cap` -/
  ents : List Ent
  /-- component columns (dense order), each of length `cap` -/
  cols : List (List Val)
  /-- per column relation target (`column.target`; zero for non-relation columns) -/
  targets : List Ent
  /-- `relationIDs` -/
  relIDs : List RelID
  len : Nat
  cap : Nat
  isFree : Bool := false
  deriving Repr, Inhabited, DecidableEq

namespace Table

/-- column index of a component, `none` ⇔ `t.components[c] == nil`. -/
def colIdx (t : Table) (c : Comp) : Option Nat :=
  let i := t.ids.idxOf c
  if i < t.ids.length then some i else none

def has (t : Table) (c : Comp) : Bool := (t.colIdx c).isSome
def hasRelations (t : Table) : Bool := !t.relIDs.isEmpty

def new (id arch : Nat) (ids : List Comp) (isRel zst : List Bool) (cap : Nat)
    (targets : List Ent) (relIDs : List RelID) : Table :=
  { id, arch, ids, isRel, zst
    ents := List.replicate cap Ent.zero
    cols := ids.map fun _ => List.replicate cap 0
    targets, relIDs, len := 0, cap }

/-- `Recycle`. -/
def recycle (t : Table) (targets : List Ent) (relIDs : List RelID) : Table :=
  { t with relIDs, targets, isFree := false }

/-- `adjustCapacity`: fresh zeroed arrays, the first `len` rows copied. -/
def adjustCapacity (t : Table) (cap : Nat) : Table :=
  { t with
    cap
    ents := t.ents.take t.len ++ List.replicate (cap - t.len) Ent.zero
    cols := t.cols.map fun col => col.take t.len ++ List.replicate (cap - t.len) 0 }

/-- `Extend`. -/
def extend (t : Table) (by_ : Nat) : Table :=
  let required := t.len + by_
  if t.cap ≥ required then t else t.adjustCapacity (capPow2 required)

/-- `Alloc`. -/
def alloc (t : Table) (n : Nat) : Table :=
  let t' := t.extend n
  { t' with len := t'.len + n }

/-- `Add`: returns the new row index. -/
def add (t : Table) (e : Ent) : Table × Nat :=
  let idx := t.len
  let t' := t.alloc 1
  ({ t' with ents := t'.ents.set idx e }, idx)

def getEntity (t : Table) (row : Nat) : Ent := t.ents.getD row Ent.zero

/-- read a cell by column index -/
def cell (t : Table) (col row : Nat) : Val := (t.cols.getD col []).getD row 0

/-- read the value of component `c` at `row` (`none` when the table lacks `c`) -/
def getComp (t : Table) (c : Comp) (row : Nat) : Option Val :=
  (t.colIdx c).map fun i => t.cell i row

/-- write a cell by column index (no-op for zero-size columns, as `column.Set`) -/
def setCell (t : Table) (col row : Nat) (v : Val) : Table :=
  if t.zst.getD col false then t else
  { t with cols := t.cols.modify col fun cl => cl.set row v }

/-- write through a component pointer -/
def setComp (t : Table) (c : Comp) (row : Nat) (v : Val) : Table :=
  match t.colIdx c with
  | some i => t.setCell i row v
  | none => t

def getRelation (t : Table) (c : Comp) : Ent :=
  match t.colIdx c with
  | some i => t.targets.getD i Ent.zero
  | none => Ent.zero

/-- `Remove`: swap-remove row `index`; returns whether a swap happened.
    The last row of every component column is zeroed; the entity column keeps its last cell. -/
def remove (t : Table) (index : Nat) : Table × Bool :=
  let last := t.len - 1
  let swapped := index != last
  let ents := if swapped then t.ents.set index (t.ents.getD last Ent.zero) else t.ents
  let cols := t.cols.map fun col =>
    let col := if swapped then col.set index (col.getD last 0) else col
    col.set last 0
  ({ t with ents, cols, len := t.len - 1 }, swapped)

/-- `Reset`: zero all component columns (both zeroing strategies have this effect), `len = 0`.
    The entity column is left as is. -/
def reset (t : Table) : Table :=
  { t with
    cols := t.cols.map fun col => List.replicate t.len 0 ++ col.drop t.len
    len := 0 }

/-- `AddAll`: append the first `count` rows of `src` (same layout). -/
def addAll (t : Table) (src : Table) (count : Nat) : Table :=
  let t' := t.alloc count
  let start := t'.len - count
  { t' with
    ents := t'.ents.take start ++ src.ents.take count ++ t'.ents.drop (start + count)
    cols := (t'.cols.zip src.cols).map fun (col, scol) =>
      col.take start ++ scol.take count ++ col.drop (start + count) }

/-- `AddAllEntities`. -/
def addAllEntities (t : Table) (src : Table) (count : Nat) : Table :=
  let t' := t.alloc count
  let start := t'.len - count
  { t' with ents := t'.ents.take start ++ src.ents.take count ++ t'.ents.drop (start + count) }

/-- `column.CopyToEnd` for component `c` from `src` (rows `[0,count)`) to the end of `t`. -/
def copyToEnd (t : Table) (c : Comp) (src : Table) (count : Nat) : Table :=
  match t.colIdx c, src.colIdx c with
  | some i, some j =>
    if t.zst.getD i false then t else
    let start := t.len - count
    let scol := src.cols.getD j []
    { t with cols := t.cols.modify i fun col =>
        col.take start ++ scol.take count ++ col.drop (start + count) }
  | _, _ => t

/-- `Matches`: unspecified relations allowed. A relation naming a component the table lacks
    is a nil dereference in Go (`none`). -/
def matchesRels (t : Table) (rels : List RelID) : Option Bool :=
  if rels.isEmpty || !t.hasRelations then some true else
  let rec go : List RelID → Option Bool
    | [] => some true
    | r :: rest =>
      match t.colIdx r.comp with
      | none => none
      | some i => if r.target != t.targets.getD i Ent.zero then some false else go rest
  go rels

/-- outcome of `MatchesExact` -/
inductive ExactRes | yes | no | tooFew | notRelation
  deriving DecidableEq, Repr

/-- `MatchesExact`. -/
def matchesExact (t : Table) (rels : List RelID) : ExactRes :=
  if rels.length < t.relIDs.length then .tooFew else
  let rec go : List RelID → ExactRes
    | [] => .yes
    | r :: rest =>
      match t.colIdx r.comp with
      | none => go rest
      | some i =>
        if !(t.isRel.getD i false) then .notRelation
        else if r.target != t.targets.getD i Ent.zero then .no else go rest
  go rels

def canShrink (t : Table) (minCap : Nat) : Bool :=
  t.cap > max (capPow2 t.len) minCap

/-- `Shrink`. -/
def shrink (t : Table) (minCap : Nat) : Table × Bool :=
  let target := max (capPow2 t.len) minCap
  if t.cap ≤ target then (t, false) else (t.adjustCapacity target, true)

end Table

end Ark
