/-
  Ark.Model.Mask — component masks at the level the stateful model uses them: a 256-bit
  bit vector with the operations of `bitMask256`.  The word-level Go code (4×uint64, and
  1×uint64 in the tiny build) is regenerated into `Ark/Generated/Logic.lean` and related to
  these definitions in `Ark/Proofs/MaskWords.lean`.
-/
import Ark.Basic

namespace Ark

abbrev Mask := BitVec 256

namespace Mask

def empty : Mask := 0#256
@[inline] def get (m : Mask) (c : Comp) : Bool := m.getLsbD c
@[inline] def bit (c : Comp) : Mask := (1#256) <<< c
@[inline] def set (m : Mask) (c : Comp) : Mask := m ||| bit c
@[inline] def clear (m : Mask) (c : Comp) : Mask := m &&& ~~~(bit c)
@[inline] def not (m : Mask) : Mask := ~~~m
@[inline] def or (a b : Mask) : Mask := a ||| b
@[inline] def isZero (m : Mask) : Bool := m == 0#256
/-- `b.Contains(o)`: `o ⊆ b`. -/
@[inline] def contains (b o : Mask) : Bool := (b &&& o) == o
/-- `b.ContainsAny(o)`: `b ∩ o ≠ ∅`. -/
@[inline] def containsAny (b o : Mask) : Bool := (b &&& o) != 0#256

def ofList (cs : List Comp) : Mask := cs.foldl set empty

/-- Ascending list of set bits below `n` (the result of `toTypes` for `n` registered types). -/
def toList (m : Mask) (n : Nat := 256) : List Comp := (List.range n).filter m.get

end Mask

/-- `filter` of `filter.go`. -/
structure Filter where
  mask : Mask := Mask.empty
  without : Mask := Mask.empty
  hasWithout : Bool := false
  deriving DecidableEq, Inhabited, Repr

namespace Filter
/-- `filter.matches`. -/
def matchesMask (f : Filter) (m : Mask) : Bool :=
  m.contains f.mask && (!f.hasWithout || !m.containsAny f.without)
def withoutList (f : Filter) (cs : List Comp) : Filter :=
  { f with without := Mask.ofList cs, hasWithout := true }
def exclusive (f : Filter) : Filter :=
  { f with without := f.mask.not, hasWithout := true }
end Filter

end Ark
