/-
  Ark.Model.Observers — `observerManager` of events.go and `Observer` of observer.go.

  Observer objects live in a small heap (`objs`, keyed by a label = the Go pointer); the
  manager's per-event lists hold labels.  The per-observer predicates and the early-outs are
  the functions `Pred.*`/`Early.*` below; `Ark/Generated/Logic.lean` regenerates the same
  predicates from events.go and `Ark/Proofs/ObsGen.lean` proves them equal.
-/
import Ark.Basic
import Ark.Model.Mask
import Ark.Model.Pool

namespace Ark

/-! Event type numbers (`EventType`, uint8). -/
namespace Ev
def custom : Nat := 248
def onCreateEntity : Nat := 249
def onRemoveEntity : Nat := 250
def onAddComponents : Nat := 251
def onRemoveComponents : Nat := 252
def onSetComponents : Nat := 253
def onAddRelations : Nat := 254
def onRemoveRelations : Nat := 255
end Ev

/-- What a callback does when it runs (the harness installs the same script in Go). -/
inductive Probe
  /-- record alive/locked/components/values/targets of the reported entity -/
  | look
  /-- run a query over filter label `f` and record (total, occurrences of the entity) -/
  | query (f : Nat)
  /-- unregister observer `o` (possibly itself) -/
  | unreg (o : Nat)
  /-- register observer `o` -/
  | reg (o : Nat)
  /-- try `NewEntity()` and record the panic class -/
  | tryNew
  deriving Repr, Inhabited, DecidableEq

/-- The user-facing observer specification (what `Observe(evt).For(..).With(..)…` builds). -/
structure ObsSpec where
  event : Nat
  comps : List Comp := []
  with_ : List Comp := []
  without : List Comp := []
  exclusive : Bool := false
  hasCallback : Bool := true
  script : List Probe := []
  deriving Repr, Inhabited, DecidableEq

/-- `observerData` as computed by `AddObserver`. -/
structure ObsData where
  compsMask : Mask := Mask.empty
  withMask : Mask := Mask.empty
  withoutMask : Mask := Mask.empty
  hasComps : Bool := false
  hasWith : Bool := false
  hasWithout : Bool := false
  deriving Repr, Inhabited, DecidableEq

/-- An `Observer` object: specification, computed data, and `id` (`none` = `maxObserverID`). -/
structure ObsObj where
  spec : ObsSpec
  data : ObsData := {}
  oid : Option Nat := none
  deriving Repr, Inhabited, DecidableEq

/-- Per-event-type state of the manager. -/
structure EvtState where
  observers : List Nat := []       -- labels, in slice order
  hasObservers : Bool := false
  allComps : Mask := Mask.empty
  allWith : Mask := Mask.empty
  anyNoComps : Bool := false
  anyNoWith : Bool := false
  deriving Repr, Inhabited, DecidableEq

structure ObsMgr where
  objs : AL ObsObj := []
  events : AL EvtState := []
  pool : IntPool := {}
  indices : AL Nat := []          -- observer id ↦ index in its event list
  totalCount : Nat := 0
  maxEventType : Nat := 0
  deriving Repr, Inhabited, DecidableEq

namespace ObsMgr

def evt (m : ObsMgr) (e : Nat) : EvtState := (AL.find? m.events e).getD {}
def setEvt (m : ObsMgr) (e : Nat) (s : EvtState) : ObsMgr := { m with events := AL.insert m.events e s }
def obj (m : ObsMgr) (l : Nat) : ObsObj := (AL.find? m.objs l).getD { spec := { event := 0 } }
def setObj (m : ObsMgr) (l : Nat) (o : ObsObj) : ObsMgr := { m with objs := AL.insert m.objs l o }
def hasObservers (m : ObsMgr) (e : Nat) : Bool := (m.evt e).hasObservers

/-- The mask computation of `AddObserver` (after the ID was taken).  `none` = the
    "non-relation component in relation observer" panic. -/
def computeData (s : ObsSpec) (isRel : Comp → Bool) : Option ObsData :=
  let d : ObsData := {}
  let d? : Option ObsData :=
    if s.event == Ev.onAddRelations || s.event == Ev.onRemoveRelations then
      if s.comps.all isRel then
        some { d with compsMask := s.comps.foldl Mask.set d.compsMask, hasComps := !s.comps.isEmpty }
      else none
    else if s.event == Ev.onCreateEntity || s.event == Ev.onRemoveEntity then
      some { d with withMask := s.comps.foldl Mask.set d.withMask, hasWith := !s.comps.isEmpty }
    else
      some { d with compsMask := s.comps.foldl Mask.set d.compsMask, hasComps := !s.comps.isEmpty }
  match d? with
  | none => none
  | some d =>
    let d := { d with withMask := s.with_.foldl Mask.set d.withMask,
                      hasWith := d.hasWith || !s.with_.isEmpty }
    if s.exclusive then
      some { d with withoutMask := d.withMask.not, hasWithout := true }
    else
      some { d with withoutMask := s.without.foldl Mask.set d.withoutMask,
                    hasWithout := !s.without.isEmpty }

/-- The bookkeeping half of `AddObserver`, after masks are computed. -/
def addComputed (m : ObsMgr) (l : Nat) (o : ObsObj) (oid : Nat) (d : ObsData) : ObsMgr :=
  let ev := o.spec.event
  let m := m.setObj l { o with data := d, oid := some oid }
  let es := m.evt ev
  let m := { m with indices := AL.insert m.indices oid es.observers.length }
  let es := { es with observers := es.observers ++ [l], hasObservers := true }
  let m := { m with maxEventType := if ev > m.maxEventType then ev else m.maxEventType,
                    totalCount := m.totalCount + 1 }
  let es := if d.hasWith then { es with allWith := es.allWith.or d.withMask }
            else { es with anyNoWith := true }
  let es :=
    if ev == Ev.onCreateEntity || ev == Ev.onRemoveEntity then es
    else if d.hasComps then { es with allComps := es.allComps.or d.compsMask }
    else { es with anyNoComps := true }
  m.setEvt ev es

/-- The two recomputation loops of `RemoveObserver` (with their early `break`). -/
def recomputeWith (m : ObsMgr) (obs : List Nat) : Mask × Bool :=
  let rec go (acc : Mask) : List Nat → Mask × Bool
    | [] => (acc, false)
    | l :: rest =>
      let d := (m.obj l).data
      if !d.hasWith then (acc, true) else go (acc.or d.withMask) rest
  go Mask.empty obs

def recomputeComps (m : ObsMgr) (obs : List Nat) : Mask × Bool :=
  let rec go (acc : Mask) : List Nat → Mask × Bool
    | [] => (acc, false)
    | l :: rest =>
      let d := (m.obj l).data
      if !d.hasComps then (acc, true) else go (acc.or d.compsMask) rest
  go Mask.empty obs

/-- `RemoveObserver` once the object is known to be registered with id `oid` at `idx`. -/
def removeAt (m : ObsMgr) (l : Nat) (oid idx : Nat) : ObsMgr :=
  let o := m.obj l
  let ev := o.spec.event
  let m := { m with indices := AL.erase m.indices oid }
  let es := m.evt ev
  -- observers[idx].id = maxObserverID
  let m := m.setObj l { o with oid := none }
  let last := es.observers.length - 1
  let (obs, m) :=
    if idx != last then
      let a := es.observers.getD idx 0
      let b := es.observers.getD last 0
      let obs := (es.observers.set idx b).set last a
      let bid := ((m.obj b).oid).getD 0
      (obs, { m with indices := AL.insert m.indices bid idx })
    else (es.observers, m)
  let obs := obs.take last
  let m := { m with totalCount := m.totalCount - 1 }
  let (aw, nw) := m.recomputeWith obs
  let es := { es with observers := obs, hasObservers := last > 0, allWith := aw, anyNoWith := nw }
  let es :=
    if ev == Ev.onCreateEntity || ev == Ev.onRemoveEntity then es
    else
      let (ac, nc) := m.recomputeComps obs
      { es with allComps := ac, anyNoComps := nc }
  m.setEvt ev es

/-- The loop bound of `Reset`: `range int(m.maxEventType) + 1`. -/
def resetBound (maxEventType : Nat) : Nat := maxEventType + 1

/-- `Reset`. -/
def reset (m : ObsMgr) : ObsMgr :=
  if m.indices.isEmpty then { m with maxEventType := 0 } else
  let step (m : ObsMgr) (i : Nat) : ObsMgr :=
    let es := m.evt i
    if !es.hasObservers then m else
    let m := es.observers.foldl (fun m l =>
      let o := m.obj l
      let m := { m with indices := AL.erase m.indices (o.oid.getD 0) }
      m.setObj l { o with oid := none }) m
    m.setEvt i {}
  let m := (List.range (resetBound m.maxEventType)).foldl step m
  { m with pool := m.pool.reset, totalCount := 0, maxEventType := 0 }

end ObsMgr

/-! ### Per-observer predicates ("does the callback run") and early-outs, one per `Fire*` -/

namespace Pred
/-- `FireCreateEntity` / `FireRemoveEntity`. -/
def entity (d : ObsData) (mask : Mask) : Bool :=
  !(d.hasWith && !mask.contains d.withMask) && !(d.hasWithout && mask.containsAny d.withoutMask)
/-- `FireCreateEntityRel` / `FireRemoveEntityRel`. -/
def entityRel (d : ObsData) (mask : Mask) : Bool :=
  !(d.hasComps && !mask.contains d.compsMask) &&
  !(d.hasWith && !mask.contains d.withMask) && !(d.hasWithout && mask.containsAny d.withoutMask)
/-- `FireAdd`. -/
def add (d : ObsData) (old new : Mask) : Bool :=
  !(d.hasComps && (!new.contains d.compsMask || old.containsAny d.compsMask)) &&
  !(d.hasWith && !old.contains d.withMask) && !(d.hasWithout && old.containsAny d.withoutMask)
/-- `FireRemove`. -/
def remove (d : ObsData) (old new : Mask) : Bool :=
  !(d.hasComps && (new.containsAny d.compsMask || !old.contains d.compsMask)) &&
  !(d.hasWith && !old.contains d.withMask) && !(d.hasWithout && old.containsAny d.withoutMask)
/-- `FireSet`, `FireSetRelations`, `FireCustom`: `mask` = changed/event components,
    `emask` = the entity's mask. -/
def set (d : ObsData) (mask emask : Mask) : Bool :=
  !(d.hasComps && !mask.contains d.compsMask) &&
  !(d.hasWith && !emask.contains d.withMask) && !(d.hasWithout && emask.containsAny d.withoutMask)
end Pred

namespace Early
/-- early-out of `FireCreateEntity` / `FireRemoveEntity` (true = return without dispatch) -/
def entity (es : EvtState) (mask : Mask) : Bool :=
  !es.anyNoWith && !es.allWith.containsAny mask
def entityRel (es : EvtState) (mask : Mask) : Bool :=
  (!es.anyNoComps && !es.allComps.containsAny mask) ||
  (!es.anyNoWith && !es.allWith.containsAny mask)
def add (es : EvtState) (old new : Mask) : Bool :=
  (!es.anyNoComps && (!es.allComps.containsAny new || old.contains es.allComps)) ||
  (!es.anyNoWith && !es.allWith.containsAny old)
def remove (es : EvtState) (old new : Mask) : Bool :=
  (!es.anyNoComps && (!es.allComps.containsAny old || new.contains es.allComps)) ||
  (!es.anyNoWith && !es.allWith.containsAny old)
def set (es : EvtState) (mask emask : Mask) : Bool :=
  (!es.anyNoComps && !es.allComps.containsAny mask) ||
  (!es.anyNoWith && !es.allWith.containsAny emask)
end Early

end Ark
