/-
  Ark.Spec.Observers — the DOCUMENTED firing rule of observers, written at the level of sets of
  component IDs and independent of the implementation (no `observerData`, no union masks, no
  early-outs).  `Ark/Props/C08.lean` proves that the per-observer tests of events.go decide
  exactly this rule and that the union-based fast paths never change the outcome.

  An observer is described by its `ObsSpec`: the event type, the observed components `comps`
  (`For`), the additional filter `with_` (`With`), `without` (`Without`) and `exclusive`
  (`Exclusive`).  Masks are only used as *sets* here: `m.get c = true` reads "component `c` is
  in `m`".
-/
import Ark.Model.Mask
import Ark.Model.Observers

namespace Ark

/-- One occurrence of an event, reduced to the masks the documentation talks about. -/
inductive EvInst where
  /-- OnCreateEntity / OnRemoveEntity for an entity with components `m` -/
  | entity (m : Mask)
  /-- OnAddRelations on entity creation / OnRemoveRelations on entity removal, entity mask `m` -/
  | entityRel (m : Mask)
  /-- OnAddComponents / OnAddRelations: the entity goes from `old` to `new` -/
  | add (old new : Mask)
  /-- OnRemoveComponents / OnRemoveRelations: the entity goes from `old` to `new` -/
  | remove (old new : Mask)
  /-- OnSetComponents / relation re-targeting / custom events: `changed` are the components the
      event is about, `m` is the entity's mask -/
  | set (changed m : Mask)
  deriving DecidableEq, Repr

namespace Spec

/-- `cs ⊆ m` -/
def allIn (cs : List Comp) (m : Mask) : Prop := ∀ c ∈ cs, m.get c = true

/-- `cs ∩ m = ∅` -/
def noneIn (cs : List Comp) (m : Mask) : Prop := ∀ c ∈ cs, m.get c = false

/-- `m ⊆ cs`: the mask has no component outside `cs` (component IDs range over `0…255`). -/
def onlyIn (cs : List Comp) (m : Mask) : Prop := ∀ c, c < 256 → m.get c = true → c ∈ cs

/-- The without-condition on the mask `m`.  `effWith` is the effective with-set of the observer
    (`With` components, plus the `For` components for entity events): `Exclusive` excludes every
    component outside it; otherwise the `Without` components are excluded. -/
def withoutOK (s : ObsSpec) (effWith : List Comp) (m : Mask) : Prop :=
  if s.exclusive then onlyIn effWith m else noneIn s.without m

/-- **The documented firing rule.**  Whether an observer with specification `s` is notified of
    the event occurrence `ev` (of its event type). -/
def fires (s : ObsSpec) : EvInst → Prop
  | .entity m =>
      -- `For` components act like `With`
      allIn (s.comps ++ s.with_) m ∧ withoutOK s (s.comps ++ s.with_) m
  | .entityRel m =>
      (s.comps = [] ∨ allIn s.comps m) ∧ allIn s.with_ m ∧ withoutOK s s.with_ m
  | .add old new =>
      -- wildcard, or all observed components added together
      (s.comps = [] ∨ (allIn s.comps new ∧ noneIn s.comps old)) ∧
      allIn s.with_ old ∧ withoutOK s s.with_ old
  | .remove old new =>
      -- wildcard, or all observed components removed together
      (s.comps = [] ∨ (allIn s.comps old ∧ noneIn s.comps new)) ∧
      allIn s.with_ old ∧ withoutOK s s.with_ old
  | .set changed m =>
      (s.comps = [] ∨ allIn s.comps changed) ∧ allIn s.with_ m ∧ withoutOK s s.with_ m

instance (cs : List Comp) (m : Mask) : Decidable (allIn cs m) := by unfold allIn; infer_instance
instance (cs : List Comp) (m : Mask) : Decidable (noneIn cs m) := by unfold noneIn; infer_instance
instance (cs : List Comp) (m : Mask) : Decidable (onlyIn cs m) := by unfold onlyIn; infer_instance
instance (s : ObsSpec) (ew : List Comp) (m : Mask) : Decidable (withoutOK s ew m) := by
  unfold withoutOK; infer_instance
instance (s : ObsSpec) (ev : EvInst) : Decidable (fires s ev) := by
  cases ev <;> (unfold fires; infer_instance)

/-- `true` for the two entity event types (whose `For` components are folded into `With`). -/
def isEntityEvt (e : Nat) : Bool := e == Ev.onCreateEntity || e == Ev.onRemoveEntity

/-- The precondition under which the rule is stated: the component IDs given to `For` and
    `With` are below 256 (IDs handed out by the registry always are).  Nothing is needed for
    `Without`: an ID ≥ 256 is in no mask. -/
def IdsOK (s : ObsSpec) : Prop :=
  (∀ c ∈ s.comps, c < 256) ∧ (∀ c ∈ s.with_, c < 256)

end Spec
end Ark
