/-
  Ark.Props.C01Batch — C01 for the non-relation, observer-free fragment WITH THE BATCH FORMS AS
  STEPS, over histories of any length:

    "After any sequence of valid operations (create, add, remove, exchange, set, copy, remove
     entity, THEIR BATCH FORMS, reset, shrink) every alive entity has exactly the set of components
     those operations imply, and every component holds the value most recently written to it
     through any access path.  An operation on one entity never changes the components or values
     of any other entity."

  The machine (`Ark.RefineB`, Ark/Proofs/RefineBatch*.lean) wraps the machine of `Ark.Refine`
  (Ark/Props/C01Refine.lean): the operations are

    base op                  an operation of `Ark.Refine` (eleven single-entity operations)
    newb p n ids vals        `NewBatch(n, ids…)` through the access path `p`, no callback
    delb f                   `World.RemoveEntities(batch, nil)` on the uncached filter `f`
    xchgb p f add vals rem   `AddBatch` / `RemoveBatch` / `ExchangeBatch` on the uncached filter `f`;
                             `vals = some vs`: the `…BatchFn` form whose callback writes `vs`

  and the SPECIFICATION STEP OF A BATCH IS THE SPECIFICATION STEP OF THE SINGLE OPERATION APPLIED TO
  EVERY SELECTED ENTITY (`specStepB`): folded over the specified entities whose key set the filter
  matches (`matching`), resp. over the `n` returned handles.  The specification never looks at the
  model.

  Scope (`guardB`): as in `Ark.Refine` (handles the client was given, registered component IDs),
  and an exchange batch is a step only if the precondition of `Exchange(add, rem)` holds on EVERY
  selected entity — or if `add = rem = []`, which is rejected cleanly.  A batch whose precondition
  fails on some selected entity is NOT rejected without effect (finding below), so it is not a step.

  Bound (`Fits (1, 2) ops`): see Ark/Proofs/RefineBatchHist.lean.  Without exchange batches it is
  `totalCost ops < 2^32 − 2` (single operation 1, `newb n` `max n 1`, `delb` 0: `fits_of_cost`); an
  exchange batch needs `2·T < 2^32 − 1` for the current table budget `T` and may double it (it
  creates at most one table per selected table).
-/
import Ark.Proofs.RefineBatchFrame

set_option autoImplicit false

namespace Ark.Props.C01Batch
open Ark Ark.World Ark.Refine Ark.RefineB Ark.Props.C01World

variable (run : ProbeRunner) (cap rel : Nat)

/-! ## the invariant along histories -/

/-- the invariant of the machine with batch steps (`HInvB` = `Refine.HInv` + rows hold alive
    handles + the world lock is well formed and free) holds after every history within the bound -/
theorem reach_inv (ops : List OpB) (hf : Fits (1, 2) ops) :
    ∃ fl, HInvB (reachB run cap rel ops) fl := reachB_inv run cap rel ops hf

/-- the joint invariant `CInv`, an unlocked world, rows holding current handles -/
theorem reach_cinv (ops : List OpB) (hf : Fits (1, 2) ops) :
    ∃ fl, CInv (reachB run cap rel ops).w fl ∧ (reachB run cap rel ops).w.isLocked = false ∧
      RowsLive (reachB run cap rel ops).w := by
  obtain ⟨fl, h⟩ := reachB_inv run cap rel ops hf
  exact ⟨fl, h.hinv.cinv, h.hinv.unlocked, h.rowsLive⟩

/-- histories of single operations are the histories of `Ark.Refine`, with its bound -/
theorem base_histories (ops : List Op) (hlen : ops.length < 2 ^ 32 - 2) :
    reachB run cap rel (ops.map .base) = reach run cap rel ops ∧ Fits (1, 2) (ops.map .base) :=
  ⟨reachB_base run cap rel ops, fits_base ops hlen⟩

/-- without exchange batches: the bound is the sum of the costs -/
theorem fits_without_xchgb (ops : List OpB) (hx : ∀ op ∈ ops, op.isXchgb = false)
    (hc : totalCost ops < 2 ^ 32 - 2) : Fits (1, 2) ops :=
  fits_of_cost ops (1, 2) hx (by show 1 + _ ≤ maxU32; simp only [maxU32]; omega)
    (by show 2 + _ < 2 ^ 32; omega)

/-- with `k = xcount ops` exchange batches: `(1 + totalCost ops) · 2^k < 2^32 − 1` (the table
    budget may double with each of them) and `2 · (2 + totalCost ops) < 2^32` -/
theorem fits_with_xchgb (ops : List OpB) (h1 : (1 + totalCost ops) * 2 ^ xcount ops < maxU32)
    (h2 : 2 * (2 + totalCost ops) < 2 ^ 32) : Fits (1, 2) ops :=
  fits_of_cost_x ops (1, 2) h1 h2

/-! ## refinement: the theorem C01 asks for -/

/-- **refines** — after every history of single AND batch operations, for every entry
    `(e, comps)` of the specification: `e` is alive, its component set is the sorted list of the
    keys of `comps`, and every component holds the recorded (= last written) value; the keys are
    distinct registered IDs. -/
theorem refines (ops : List OpB) (hf : Fits (1, 2) ops) (e : Ent) (comps : Comps)
    (hm : (e, comps) ∈ (reachB run cap rel ops).ss.ents) :
    (reachB run cap rel ops).w.alive e = true ∧
    compsOf (reachB run cap rel ops).w e.id =
      some (sortedIds (reachB run cap rel ops).w.kinds.length (keys comps)) ∧
    (∀ cv ∈ comps, valOf (reachB run cap rel ops).w e.id cv.1 = some cv.2) ∧
    (keys comps).Nodup ∧ (∀ c ∈ keys comps, c < (reachB run cap rel ops).w.kinds.length) := by
  obtain ⟨fl, h⟩ := reachB_inv run cap rel ops hf
  obtain ⟨_, ha, _⟩ := h.hinv.live_facts hm
  have ok := h.hinv.ok e comps hm
  exact ⟨ha, ok.comps, ok.vals, ok.nodup, ok.reg⟩

/-- … and a component that is not a key of the entry is absent -/
theorem refines_absent (ops : List OpB) (hf : Fits (1, 2) ops) (e : Ent) (comps : Comps)
    (hm : (e, comps) ∈ (reachB run cap rel ops).ss.ents) (c : Comp) (hc : c ∉ keys comps) :
    valOf (reachB run cap rel ops).w e.id c = none := by
  obtain ⟨_, hcs, _⟩ := refines run cap rel ops hf e comps hm
  exact valOf_none_of_comps hcs (fun hh => hc (mem_sortedIds.mp hh).2)

/-- **exactly the alive entities are specified**: a handle some creating call returned is alive
    iff the specification has an entry for it -/
theorem alive_iff_specified (ops : List OpB) (hf : Fits (1, 2) ops) (h : Ent)
    (hi : h ∈ (reachB run cap rel ops).issued) :
    (reachB run cap rel ops).w.alive h = true ↔ h ∈ (reachB run cap rel ops).ss.ents.map (·.1) := by
  obtain ⟨fl, hinv⟩ := reachB_inv run cap rel ops hf
  exact Pool.alive_iff_live _ fl hinv.hinv.ginv h hi

theorem unspecified_dead (ops : List OpB) (hf : Fits (1, 2) ops) (h : Ent)
    (hi : h ∈ (reachB run cap rel ops).issued)
    (hn : h ∉ (reachB run cap rel ops).ss.ents.map (·.1)) :
    (reachB run cap rel ops).w.alive h = false := by
  cases ha : (reachB run cap rel ops).w.alive h with
  | false => rfl
  | true => exact absurd ((alive_iff_specified run cap rel ops hf h hi).mp ha) hn

theorem spec_handles_nodup (ops : List OpB) (hf : Fits (1, 2) ops) :
    ((reachB run cap rel ops).ss.ents.map (·.1)).Nodup ∧
    (∀ h ∈ (reachB run cap rel ops).ss.ents.map (·.1), h ∈ (reachB run cap rel ops).issued) ∧
    (reachB run cap rel ops).issued.Nodup := by
  obtain ⟨fl, hinv⟩ := reachB_inv run cap rel ops hf
  exact ⟨hinv.hinv.ginv.live_nodup, hinv.hinv.ginv.live_issued, hinv.hinv.nodup⟩

/-- the specification's registry is the model's -/
theorem registry_agrees (ops : List OpB) (hf : Fits (1, 2) ops) :
    (reachB run cap rel ops).ss.zst = (reachB run cap rel ops).w.kinds.map (·.zst) := by
  obtain ⟨fl, h⟩ := reachB_inv run cap rel ops hf
  exact h.hinv.zstEq

/-! ## invalid operations are rejected without effect, valid ones succeed -/

/-- **rejected** — an expressible operation, single or batch (`guardB`), whose precondition
    (`preB`, a statement about the specification only: for `newb` "no component twice", for `xchgb`
    "not both lists empty", none for `delb`) fails: the model panics with the world unchanged, and
    the whole machine state (world, returned handles, specification) is unchanged. -/
theorem rejected (ops : List OpB) (op : OpB) (hf : Fits (1, 2) (ops ++ [op]))
    (hg : guardB (reachB run cap rel ops) op = true) (hnp : ¬ preB (reachB run cap rel ops).ss op) :
    (∃ k, execB run (reachB run cap rel ops).w op = .panic k (reachB run cap rel ops).w) ∧
    reachB run cap rel (ops ++ [op]) = reachB run cap rel ops := by
  obtain ⟨_, _, _, _, grej, _⟩ := reachB_step run cap rel ops op hf
  exact grej hg hnp

/-- **accepted** — an expressible operation whose precondition holds succeeds -/
theorem accepted (ops : List OpB) (op : OpB) (hf : Fits (1, 2) (ops ++ [op]))
    (hg : guardB (reachB run cap rel ops) op = true) (hp : preB (reachB run cap rel ops).ss op) :
    ∃ r w', execB run (reachB run cap rel ops).w op = .ok r w' := by
  obtain ⟨_, _, _, _, _, gok⟩ := reachB_step run cap rel ops op hf
  exact gok hg hp

/-- a batch removal is always accepted (an empty selection removes nothing) -/
theorem delb_accepted (ops : List OpB) (f : Filter) (hf : Fits (1, 2) ops) :
    ∃ w', opRemoveEntities run (foOf f) [] false (reachB run cap rel ops).w = .ok () w' := by
  obtain ⟨fl, H⟩ := reachB_inv run cap rel ops hf
  obtain ⟨w', hop, _⟩ := step_delb run H f
  exact ⟨w', hop⟩

/-! ## the batch steps -/

/-- **model selection = specification selection**: at every reachable state the entities a batch
    on `f` touches in the model (`selEnts`: the selected tables, row by row) are exactly the
    entities of the specification whose key set `f` matches -/
theorem selection_agrees (ops : List OpB) (hf : Fits (1, 2) ops) (f : Filter) (e : Ent) :
    e ∈ selEnts (reachB run cap rel ops).w f ↔
      ∃ comps, (e, comps) ∈ (reachB run cap rel ops).ss.ents ∧
        f.matchesMask (Mask.ofList (keys comps)) = true := by
  obtain ⟨fl, H⟩ := reachB_inv run cap rel ops hf
  rw [selEnts_iff_matching H f e, mem_matching]

/-- **batch removal** — the specification loses exactly the matching entries (the fold of the
    single `RemoveEntity` steps over them), no handle is issued; every matching entity is dead
    afterwards and its ID is not indexed any more. -/
theorem delb_effect (ops : List OpB) (f : Filter) (hf : Fits (1, 2) (ops ++ [.delb f])) :
    (reachB run cap rel (ops ++ [.delb f])).ss.ents =
      (reachB run cap rel ops).ss.ents.filter (fun x => !f.matchesMask (Mask.ofList (keys x.2))) ∧
    (reachB run cap rel (ops ++ [.delb f])).ss.zst = (reachB run cap rel ops).ss.zst ∧
    (reachB run cap rel (ops ++ [.delb f])).issued = (reachB run cap rel ops).issued ∧
    ∀ (e : Ent) (comps : Comps), (e, comps) ∈ (reachB run cap rel ops).ss.ents →
      f.matchesMask (Mask.ofList (keys comps)) = true →
      (reachB run cap rel (ops ++ [.delb f])).w.alive e = false ∧
      compsOf (reachB run cap rel (ops ++ [.delb f])).w e.id = none ∧
      ∀ c : Comp, valOf (reachB run cap rel (ops ++ [.delb f])).w e.id c = none := by
  obtain ⟨hf1, _⟩ := (fits_snoc _ _ _).mp hf
  obtain ⟨fl, H⟩ := reachB_inv run cap rel ops hf1
  obtain ⟨w', _, hst, post, _, _⟩ := step_delb run H f
  rw [reachB_snoc, hst]
  refine ⟨specStepB_delb_ents _ [] f H.hinv.ginv.live_nodup, specDelAll_zst _ _, rfl, ?_⟩
  intro e comps hm hmatch
  have he : e ∈ selEnts (reachB run cap rel ops).w f :=
    (selEnts_iff_matching H f e).mpr (mem_matching.mpr ⟨comps, hm, hmatch⟩)
  exact ⟨post.dead e he, (post.unindexed e he).2, (post.unindexed e he).1⟩

/-- **batch removal = the single removals** (C06, as steps of the machine): the step `delb f` and
    the run of `del e` over the selected entities in the batch's order reach the same
    specification, the same issued handles, the same pool (every later creation returns the same
    handle), and worlds that agree on the liveness of every handle and on the components and
    values of every ID. -/
theorem delb_is_singles (ops : List OpB) (f : Filter) (hf : Fits (1, 2) ops) :
    ∃ sb ss' : St,
      stepB run (reachB run cap rel ops) (.delb f) = sb ∧
      runOps run (reachB run cap rel ops) ((selEnts (reachB run cap rel ops).w f).map .del) = ss' ∧
      sb.ss = ss'.ss ∧ sb.issued = ss'.issued ∧ sb.w.pool = ss'.w.pool ∧
      (∀ x : Ent, sb.w.alive x = ss'.w.alive x) ∧
      (∀ (i : Nat) (c : Comp), valOf sb.w i c = valOf ss'.w i c) ∧
      (∀ i : Nat, compsOf sb.w i = compsOf ss'.w i) := by
  obtain ⟨fl, H⟩ := reachB_inv run cap rel ops hf
  obtain ⟨w', w'', h1, h2, h3, h4, h5, h6⟩ := delb_eq_singles run H f
  exact ⟨_, _, rfl, rfl, by rw [h1, h2], by rw [h1, h2], by rw [h1, h2]; exact h3,
    by rw [h1, h2]; exact h4, by rw [h1, h2]; exact h5, by rw [h1, h2]; exact h6⟩

/-- **batch creation = the single creations** — for `n > 0` an accepted `newb p n ids vals` IS the
    run of `n` steps `new p ids []` (equal machine states: world, handles, specification); the
    call returns `n` handles, none of which was returned before; each is alive with exactly the
    components `ids`, all reading zero (without a callback nothing is written). -/
theorem newb_effect (ops : List OpB) (p : Path) (n : Nat) (hpos : 0 < n) (ids : List Comp)
    (vals : Comps) (hf : Fits (1, 2) (ops ++ [.newb p n ids vals]))
    (hg : guardB (reachB run cap rel ops) (.newb p n ids vals) = true)
    (hp : preB (reachB run cap rel ops).ss (.newb p n ids vals)) :
    ∃ es : List Ent,
      (∃ w', execB run (reachB run cap rel ops).w (.newb p n ids vals) = .ok es w') ∧
      es.length = n ∧
      reachB run cap rel (ops ++ [.newb p n ids vals]) =
        runOps run (reachB run cap rel ops) (List.replicate n (.new p ids [])) ∧
      (reachB run cap rel (ops ++ [.newb p n ids vals])).issued =
        es.reverse ++ (reachB run cap rel ops).issued ∧
      (reachB run cap rel (ops ++ [.newb p n ids vals])).ss.ents =
        es.reverse.map (fun e => (e, zeros ids)) ++ (reachB run cap rel ops).ss.ents ∧
      (∀ e ∈ es, e ∉ (reachB run cap rel ops).issued) ∧ es.Nodup ∧
      ∀ e ∈ es, (reachB run cap rel (ops ++ [.newb p n ids vals])).w.alive e = true ∧
        compsOf (reachB run cap rel (ops ++ [.newb p n ids vals])).w e.id =
          some (sortedIds (reachB run cap rel (ops ++ [.newb p n ids vals])).w.kinds.length ids) ∧
        ∀ c ∈ ids, valOf (reachB run cap rel (ops ++ [.newb p n ids vals])).w e.id c = some 0 := by
  obtain ⟨fl, H, _, hroom, _, _⟩ := reachB_step run cap rel ops _ hf
  obtain ⟨es, w', hex, hlen, hseq, hst⟩ := stepB_newb_eq_singles run H p hpos ids vals hroom hg hp
  have hg' : guard (reachB run cap rel ops) (.new p ids []) = true := hg
  have hrun := runOps_news run p ids n _ es w' hg' hseq
  obtain ⟨e1, _⟩ := specNews_ents p ids es (reachB run cap rel ops).ss hp
  have hiss : (reachB run cap rel (ops ++ [.newb p n ids vals])).issued =
      es.reverse ++ (reachB run cap rel ops).issued := by rw [reachB_snoc, hst, hrun]
  have hents : (reachB run cap rel (ops ++ [.newb p n ids vals])).ss.ents =
      es.reverse.map (fun e => (e, zeros ids)) ++ (reachB run cap rel ops).ss.ents := by
    rw [reachB_snoc, hst, hrun]; exact e1
  have hnd := (spec_handles_nodup run cap rel _ hf).2.2
  rw [hiss] at hnd
  obtain ⟨n1, _, n3⟩ := List.nodup_append.mp hnd
  refine ⟨es, ⟨w', hex⟩, hlen, by rw [reachB_snoc, hst], hiss, hents, ?_, ?_, ?_⟩
  · intro e he hi
    exact n3 e (List.mem_reverse.mpr he) e hi rfl
  · exact nodup_of_reverse n1
  · intro e he
    have hm : (e, zeros ids) ∈ (reachB run cap rel (ops ++ [.newb p n ids vals])).ss.ents := by
      rw [hents]
      exact List.mem_append_left _ (List.mem_map.mpr ⟨e, List.mem_reverse.mpr he, rfl⟩)
    obtain ⟨a, c, v, _, _⟩ := refines run cap rel _ hf e _ hm
    refine ⟨a, by rw [c, keys_zeros], fun x hx => ?_⟩
    exact v (x, 0) (List.mem_map.mpr ⟨x, hx, rfl⟩)

/-- a batch creation creates at most ONE table, whatever `n` -/
theorem newb_one_table (ops : List OpB) (p : Path) (n : Nat) (ids : List Comp) (vals : Comps)
    (hf : Fits (1, 2) (ops ++ [.newb p n ids vals])) :
    (reachB run cap rel (ops ++ [.newb p n ids vals])).w.tables.length ≤
      (reachB run cap rel ops).w.tables.length + 1 := by
  obtain ⟨fl, H, _, hroom, _, _⟩ := reachB_step run cap rel ops _ hf
  rw [reachB_snoc]
  exact newb_tables_le run H p n ids vals hroom

/-- what `Exchange(add, rem)` writing `vals` does to an entry: drop `rem`, append `add` reading
    zero, write `vals` (last write wins, zero-size components are not written) -/
theorem xf_keys (z : List Bool) (add rem : List Comp) (vals : Comps) (cs : Comps) :
    keys (xf z add rem vals cs) = keys (cs.filter fun cv => decide (cv.1 ∉ rem)) ++ add := by
  rw [xf, keys_writeComps, keys_append, keys_zeros]

/-- **exchange batch** — an accepted batch whose precondition holds succeeds; the specification
    rewrites exactly the matching entries by `xf` (the fold of the single `Exchange` steps over
    them) and keeps the others; no handle is issued; and in the world after the call every
    matching entity has lost `rem`, has `add` reading the LAST value the callback writes (zero
    without callback or for a zero-size component), and keeps every other component with the last
    value written to it, else its old value. -/
theorem xchgb_effect (ops : List OpB) (p : Path) (f : Filter) (add : List Comp)
    (vals : Option Comps) (rem : List Comp) (hf : Fits (1, 2) (ops ++ [.xchgb p f add vals rem]))
    (hg : guardB (reachB run cap rel ops) (.xchgb p f add vals rem) = true)
    (hp : preB (reachB run cap rel ops).ss (.xchgb p f add vals rem)) :
    (reachB run cap rel (ops ++ [.xchgb p f add vals rem])).ss.ents =
      (reachB run cap rel ops).ss.ents.map (fun x =>
        if f.matchesMask (Mask.ofList (keys x.2)) = true then
          (x.1, xf (reachB run cap rel ops).ss.zst add rem (valsOf vals) x.2) else x) ∧
    (reachB run cap rel (ops ++ [.xchgb p f add vals rem])).ss.zst = (reachB run cap rel ops).ss.zst ∧
    (reachB run cap rel (ops ++ [.xchgb p f add vals rem])).issued = (reachB run cap rel ops).issued ∧
    ∀ (e : Ent) (comps : Comps), (e, comps) ∈ (reachB run cap rel ops).ss.ents →
      f.matchesMask (Mask.ofList (keys comps)) = true →
      (∀ c ∈ rem, valOf (reachB run cap rel (ops ++ [.xchgb p f add vals rem])).w e.id c = none) ∧
      (∀ c ∈ add, valOf (reachB run cap rel (ops ++ [.xchgb p f add vals rem])).w e.id c =
        some (if (reachB run cap rel ops).ss.zst.getD c false = true then 0
              else (lastVal (valsOf vals) c).getD 0)) ∧
      (∀ (c : Comp) (v : Val), (c, v) ∈ comps → c ∉ rem →
        valOf (reachB run cap rel (ops ++ [.xchgb p f add vals rem])).w e.id c =
          some (if (reachB run cap rel ops).ss.zst.getD c false = true then v
                else (lastVal (valsOf vals) c).getD v)) := by
  obtain ⟨fl, H, _, hroom, _, _⟩ := reachB_step run cap rel ops _ hf
  obtain ⟨_, _, _, _, gok⟩ := step_xchgb run H p f add vals rem hroom
  obtain ⟨w', _, post, hst⟩ := gok hg hp
  have hnd := H.hinv.ginv.live_nodup
  have hg' := hg
  simp only [guardB, Bool.and_eq_true, Bool.or_eq_true, List.all_eq_true, decide_eq_true_eq,
    Bool.not_eq_true'] at hg'
  obtain ⟨_, hcase⟩ := hg'
  have hne : ¬ (add = [] ∧ rem = []) := hp
  have hall : ∀ x ∈ (reachB run cap rel ops).ss.ents,
      f.matchesMask (Mask.ofList (keys x.2)) = true →
      XchgOK (reachB run cap rel ops).ss.zst.length x.2 add rem := by
    rcases hcase with ⟨ha, hr⟩ | hcase
    · exact absurd ⟨List.isEmpty_iff.mp ha, List.isEmpty_iff.mp hr⟩ hne
    · intro x hx hm
      rcases hcase x hx with h1 | h1
      · rw [hm] at h1; cases h1
      · exact h1
  have hmall : ∀ e ∈ matching (reachB run cap rel ops).ss f, ∃ cs,
      find (reachB run cap rel ops).ss.ents e = some cs ∧
      XchgOK (reachB run cap rel ops).ss.zst.length cs add rem := by
    intro e he
    obtain ⟨cs, hx, hm⟩ := mem_matching.mp he
    exact ⟨cs, find_of_mem hnd hx, hall _ hx hm⟩
  obtain ⟨hzst, hents⟩ := specXchgAll_spec p add rem (valsOf vals) _ _ hnd
    (matching_nodup hnd f) hmall
  have hents' : (reachB run cap rel (ops ++ [.xchgb p f add vals rem])).ss.ents =
      (reachB run cap rel ops).ss.ents.map (fun x =>
        if f.matchesMask (Mask.ofList (keys x.2)) = true then
          (x.1, xf (reachB run cap rel ops).ss.zst add rem (valsOf vals) x.2) else x) := by
    rw [reachB_snoc, hst]
    show (specXchgAll _ p add rem (valsOf vals) _).ents = _
    rw [hents]
    apply List.map_congr_left
    intro x hx
    have := mem_matching_of_mem hnd f hx
    by_cases hm : f.matchesMask (Mask.ofList (keys x.2)) = true
    · rw [if_pos hm, if_pos (this.mpr hm)]
    · rw [if_neg hm, if_neg (fun hh => hm (this.mp hh))]
  refine ⟨hents', by rw [reachB_snoc, hst]; exact hzst, by rw [reachB_snoc, hst], ?_⟩
  intro e comps hm hmatch
  obtain ⟨_, hrnd, hrall, hand, hadd⟩ := hall _ hm hmatch
  have hm' : (e, xf (reachB run cap rel ops).ss.zst add rem (valsOf vals) comps) ∈
      (reachB run cap rel (ops ++ [.xchgb p f add vals rem])).ss.ents := by
    rw [hents']
    refine List.mem_map.mpr ⟨(e, comps), hm, ?_⟩
    simp only [hmatch, if_true]
  obtain ⟨_, _, v2, _, _⟩ := refines run cap rel _ hf e _ hm'
  refine ⟨?_, ?_, ?_⟩
  · intro c hc
    apply refines_absent run cap rel _ hf e _ hm'
    rw [xf_keys, List.mem_append]
    rintro (h1 | h1)
    · exact (mem_keys_filter.mp h1).2 hc
    · exact (hadd c h1).2 (hrall c hc)
  · intro c hc
    have := v2 (c, if (reachB run cap rel ops).ss.zst.getD c false = true then 0
        else applyVals 0 (valsOf vals) c)
      (List.mem_map.mpr ⟨(c, 0), List.mem_append_right _ (List.mem_map.mpr ⟨c, hc, rfl⟩), rfl⟩)
    rw [this, applyVals_eq_lastVal]
  · intro c v hc hnr
    have := v2 (c, if (reachB run cap rel ops).ss.zst.getD c false = true then v
        else applyVals v (valsOf vals) c)
      (List.mem_map.mpr ⟨(c, v), List.mem_append_left _
        (List.mem_filter.mpr ⟨hc, by simpa using hnr⟩), rfl⟩)
    rw [this, applyVals_eq_lastVal]

/-- **exchange batch = the single exchanges** (C06, as steps of the machine; the singles may
    create one table each, hence the explicit size bound): same specification, same issued
    handles, same pool, worlds that agree on liveness, components and values. -/
theorem xchgb_is_singles (ops : List OpB) (p : Path) (f : Filter) (add : List Comp)
    (vals : Option Comps) (rem : List Comp) (hf : Fits (1, 2) ops)
    (hg : guardB (reachB run cap rel ops) (.xchgb p f add vals rem) = true)
    (hp : preB (reachB run cap rel ops).ss (.xchgb p f add vals rem))
    (hfew : (reachB run cap rel ops).w.tables.length + (selTables (reachB run cap rel ops).w f).length +
      (selEnts (reachB run cap rel ops).w f).length < maxU32)
    (hent : 2 * (reachB run cap rel ops).w.entities.length < 2 ^ 32) :
    ∃ sb ss' : St,
      stepB run (reachB run cap rel ops) (.xchgb p f add vals rem) = sb ∧
      runOps run (reachB run cap rel ops)
        ((selEnts (reachB run cap rel ops).w f).map fun e => .xchg p e add rem (valsOf vals)) = ss' ∧
      sb.ss = ss'.ss ∧ sb.issued = ss'.issued ∧ sb.w.pool = ss'.w.pool ∧
      (∀ x : Ent, sb.w.alive x = ss'.w.alive x) ∧
      (∀ (i : Nat) (c : Comp), valOf sb.w i c = valOf ss'.w i c) ∧
      (∀ i : Nat, compsOf sb.w i = compsOf ss'.w i) := by
  obtain ⟨fl, H⟩ := reachB_inv run cap rel ops hf
  obtain ⟨w', w'', h1, h2, h3, h4, h5, h6⟩ :=
    xchgb_eq_singles run H p f add vals rem hg hp hfew hent
  exact ⟨_, _, rfl, rfl, by rw [h1, h2], by rw [h1, h2], by rw [h1, h2]; exact h3,
    by rw [h1, h2]; exact h4, by rw [h1, h2]; exact h5, by rw [h1, h2]; exact h6⟩

/-! ## frame -/

/-- **frame** (specification): a batch step changes only the entries of the selected entities
    (`delb`, `xchgb`: the handles the filter matches) -/
theorem frame_delb (ss : SS) (fresh : List Ent) (f : Filter) (x : Ent) (hx : x ∉ matching ss f) :
    find (specStepB ss fresh (.delb f)).ents x = find ss.ents x :=
  specDelAll_frame x _ ss hx

theorem frame_xchgb (ss : SS) (fresh : List Ent) (p : Path) (f : Filter) (add : List Comp)
    (vals : Option Comps) (rem : List Comp) (x : Ent) (hx : x ∉ matching ss f) :
    find (specStepB ss fresh (.xchgb p f add vals rem)).ents x = find ss.ents x :=
  specXchgAll_frame p add rem (valsOf vals) x _ ss hx

/-- an entity whose entry is the same before and after a step reads the same before and after -/
theorem same_entry_same_entity (ops : List OpB) (op : OpB) (hf : Fits (1, 2) (ops ++ [op]))
    (x : Ent) (comps : Comps) (hm : (x, comps) ∈ (reachB run cap rel ops).ss.ents)
    (hm' : (x, comps) ∈ (reachB run cap rel (ops ++ [op])).ss.ents) :
    compsOf (reachB run cap rel (ops ++ [op])).w x.id = compsOf (reachB run cap rel ops).w x.id ∧
    ∀ c : Comp, valOf (reachB run cap rel (ops ++ [op])).w x.id c =
      valOf (reachB run cap rel ops).w x.id c := by
  obtain ⟨hf1, _⟩ := (fits_snoc _ _ _).mp hf
  obtain ⟨fl, H⟩ := reachB_inv run cap rel ops hf1
  obtain ⟨fl', H'⟩ := reachB_inv run cap rel _ hf
  exact RefineB.EntOK.same (H.hinv.ok x comps hm) (H'.hinv.ok x comps hm')

/-- **frame** (model), single operations inside mixed histories: an operation of `Ark.Refine` on
    one entity (`target`; `Reset` excluded) changes no other specified entity -/
theorem frame_world_base (ops : List OpB) (op : Op) (hf : Fits (1, 2) (ops ++ [.base op]))
    (x : Ent) (comps : Comps) (hm : (x, comps) ∈ (reachB run cap rel ops).ss.ents)
    (hr : op.isReset = false) (hx : ∀ fresh, target fresh op ≠ some x) :
    compsOf (reachB run cap rel (ops ++ [.base op])).w x.id = compsOf (reachB run cap rel ops).w x.id ∧
    ∀ c : Comp, valOf (reachB run cap rel (ops ++ [.base op])).w x.id c =
      valOf (reachB run cap rel ops).w x.id c := by
  obtain ⟨hf1, _⟩ := (fits_snoc _ _ _).mp hf
  obtain ⟨fl, H⟩ := reachB_inv run cap rel ops hf1
  have hfind : find (reachB run cap rel ops).ss.ents x = some comps :=
    find_of_mem H.hinv.ginv.live_nodup hm
  apply same_entry_same_entity run cap rel ops (.base op) hf x comps hm
  rw [reachB_snoc]
  show (x, comps) ∈ (step run (reachB run cap rel ops) op).ss.ents
  by_cases hg : guard (reachB run cap rel ops) op = true
  · rw [step_of_guard hg]
    apply find_some_mem
    show find (specStep _ _ op).ents x = some comps
    rw [specStep_frame _ _ op x hr (hx _)]; exact hfind
  · rw [step, if_neg hg]; exact hm

/-- **frame** (model): a batch on the filter `f` never changes an entity `f` does not match —
    every specified entity whose key set `f` does not match has the same component set and the
    same values before and after `delb f` / `xchgb p f …`; and every specified entity has them
    before and after `newb` (the new entities are others). -/
theorem frame_world_batch (ops : List OpB) (op : OpB) (hf : Fits (1, 2) (ops ++ [op]))
    (x : Ent) (comps : Comps) (hm : (x, comps) ∈ (reachB run cap rel ops).ss.ents)
    (hop : (∃ f, op = .delb f ∧ f.matchesMask (Mask.ofList (keys comps)) = false) ∨
      (∃ p f add vals rem, op = .xchgb p f add vals rem ∧
        f.matchesMask (Mask.ofList (keys comps)) = false) ∨
      (∃ p n ids vals, op = .newb p n ids vals)) :
    compsOf (reachB run cap rel (ops ++ [op])).w x.id = compsOf (reachB run cap rel ops).w x.id ∧
    ∀ c : Comp, valOf (reachB run cap rel (ops ++ [op])).w x.id c =
      valOf (reachB run cap rel ops).w x.id c := by
  obtain ⟨hf1, _⟩ := (fits_snoc _ _ _).mp hf
  obtain ⟨fl, H⟩ := reachB_inv run cap rel ops hf1
  have hnd := H.hinv.ginv.live_nodup
  have hfind : find (reachB run cap rel ops).ss.ents x = some comps := find_of_mem hnd hm
  have hnm : ∀ f : Filter, f.matchesMask (Mask.ofList (keys comps)) = false →
      x ∉ matching (reachB run cap rel ops).ss f := by
    intro f hfm hmem
    have := (mem_matching_of_mem hnd f hm).mp hmem
    rw [hfm] at this; cases this
  apply same_entry_same_entity run cap rel ops op hf x comps hm
  apply find_some_mem
  rw [reachB_snoc]
  rcases hop with ⟨f, rfl, hfm⟩ | ⟨p, f, add, vals, rem, rfl, hfm⟩ | ⟨p, n, ids, vals, rfl⟩
  · show find (stepBatch run _ (.delb f)).ss.ents x = _
    simp only [stepBatch]
    split
    · rw [frame_delb _ _ f x (hnm f hfm)]; exact hfind
    · exact hfind
  · show find (stepBatch run _ (.xchgb p f add vals rem)).ss.ents x = _
    simp only [stepBatch]
    split
    · rw [frame_xchgb _ _ p f add vals rem x (hnm f hfm)]; exact hfind
    · exact hfind
  · -- creation: accepted and valid → the run of singles; else nothing happens
    obtain ⟨_, _, _, hroom, grej, _⟩ := reachB_step run cap rel ops _ hf
    by_cases hg : guardB (reachB run cap rel ops) (.newb p n ids vals) = true
    · by_cases hp : preB (reachB run cap rel ops).ss (.newb p n ids vals)
      · show find (stepBatch run _ (.newb p n ids vals)).ss.ents x = _
        simp only [stepBatch, hg, if_true, specStepB]
        -- every creation conses an entry for a handle; `x` keeps its entry as the handles are new
        have hkeep : ∀ (l : List Nat) (ss : SS) (fr : List Ent),
            (ids.Nodup ∧ ∀ c ∈ ids, c < ss.zst.length) → find ss.ents x = some comps →
            (∀ i ∈ l, fr.getD i default ≠ x) →
            find (l.foldl (fun ss i => specStep ss (fr.getD i default) (.new p ids [])) ss).ents x =
              some comps := by
          intro l
          induction l with
          | nil => intro ss fr _ h _; exact h
          | cons i l ih =>
            intro ss fr hpp h hne
            rw [List.foldl_cons]
            apply ih
            · rw [specStep_new_zst]; exact hpp
            · rw [specStep_frame ss _ (.new p ids []) x rfl
                (fun hh => hne i List.mem_cons_self (Option.some.inj hh))]
              exact h
            · exact fun j hj => hne j (List.mem_cons_of_mem _ hj)
        apply hkeep _ _ _ hp hfind
        intro i hi heq
        -- the returned handles were never issued; `x` was
        rcases Nat.eq_zero_or_pos n with rfl | hpos
        · simp at hi
        · obtain ⟨es, w', hex, hlen, hseq, hst⟩ :=
            stepB_newb_eq_singles run H p hpos ids vals hroom hg hp
          obtain ⟨es', ⟨w2, hex'⟩, _, _, _, _, hfresh, _⟩ :=
            newb_effect run cap rel ops p n hpos ids vals hf hg hp
          rw [hex] at hex'
          injection hex' with he _
          subst he
          simp only [hex, retB] at heq
          have hil : i < es.length := by rw [hlen]; exact List.mem_range.mp hi
          have hmem : es.getD i default ∈ es := by
            rw [List.getD_eq_getElem?_getD, List.getElem?_eq_getElem hil]
            exact List.getElem_mem hil
          rw [heq] at hmem
          exact hfresh x hmem (H.hinv.live_facts hm).1
      · have hrej := (grej hg hp).2
        rw [reachB_snoc] at hrej
        rw [hrej]; exact hfind
    · show find (stepBatch run _ (.newb p n ids vals)).ss.ents x = _
      rw [stepBatch, if_neg hg]; exact hfind

/-! ## non-vacuity: a concrete history with batches -/

/-- the uncached filter "has all of `cs`" -/
def has (cs : List Comp) : Filter := { mask := Mask.ofList cs }

/-- three component types (ID 1 zero-size); entity `2.0` with `{0}` (value 7); a batch of three
    entities `3.0 4.0 5.0` with `{0, 2}` (the values the harness passes are not written: no
    callback); component 2 of `3.0` set to 9; entity `6.0` with `{2}`; `AddBatch` of the zero-size
    component 1 to everything that has 0; `RemoveBatchFn` of component 2 from everything that has 0
    and 2, the callback writing component 0 twice (5, then 6) and the zero-size component 1;
    `RemoveEntities` of everything that has 0 but not 2 (all but `6.0`); a batch of two entities
    with `{1, 2}`, which recycles the IDs 5 and 4 with generation 1. -/
def demoOps : List OpB :=
  [.base (.reg 8 false), .base (.reg 0 true), .base (.reg 8 false),
   .base (.new .unsafe_ [0] [(0, 7)]),
   .newb .typed 3 [0, 2] [(0, 99)],
   .base (.set ⟨3, 0⟩ [(2, 9)]),
   .base (.new .map1 [2] [(2, 4)]),
   .xchgb .unsafe_ (has [0]) [1] none [],
   .xchgb .typed (has [0, 2]) [] (some [(0, 5), (0, 6), (1, 3)]) [2],
   .delb ((has [0]).withoutList [2]),
   .newb .unsafe_ 2 [1, 2] []]

/-- the model agrees with the specification entry by entry (decidable form of `refines`) -/
def agrees (s : St) : Bool :=
  s.ss.ents.all fun x =>
    s.w.alive x.1 && (compsOf s.w x.1.id == some (sortedIds s.w.kinds.length (keys x.2))) &&
      x.2.all fun cv => valOf s.w x.1.id cv.1 == some cv.2

/-- the panic class of a call, if it panicked -/
def panicOf : Res World (List Ent) → Option PanicKind
  | .ok _ _ => none
  | .panic k _ => some k

/-- the history is within the bound, every operation of it is expressible (`guardB`), and the
    budget it uses (tables, index slots) -/
example :
    Fits (1, 2) demoOps ∧ budget (1, 2) demoOps = (42, 13) ∧
    ((List.range 11).map fun k =>
      guardB (reachB noProbe 2 1 (demoOps.take k)) (demoOps.getD k (.delb {}))) =
      List.replicate 11 true := by
  decide +kernel

/-- … also by the closed bound: 6 single operations, 5 batch-created entities, 2 exchange batches -/
example : totalCost demoOps = 11 ∧ xcount demoOps = 2 ∧
    (1 + totalCost demoOps) * 2 ^ xcount demoOps < maxU32 ∧ 2 * (2 + totalCost demoOps) < 2 ^ 32 := by
  decide +kernel

/-- the invariant holds at the end of the history -/
example : ∃ fl, HInvB (reachB noProbe 2 1 demoOps) fl :=
  reach_inv noProbe 2 1 demoOps (by decide +kernel)

/-- after the batch creation: three new entries reading zero; the model agrees -/
example :
    (reachB noProbe 2 1 (demoOps.take 5)).ss.ents =
      [(⟨5, 0⟩, [(0, 0), (2, 0)]), (⟨4, 0⟩, [(0, 0), (2, 0)]), (⟨3, 0⟩, [(0, 0), (2, 0)]),
       (⟨2, 0⟩, [(0, 7)])] ∧
    (reachB noProbe 2 1 (demoOps.take 5)).issued = [⟨5, 0⟩, ⟨4, 0⟩, ⟨3, 0⟩, ⟨2, 0⟩] ∧
    agrees (reachB noProbe 2 1 (demoOps.take 5)) = true ∧
    (reachB noProbe 2 1 (demoOps.take 5)).w.tables =
      (runOps noProbe (reachB noProbe 2 1 (demoOps.take 4))
        (List.replicate 3 (.new .typed [0, 2] []))).w.tables ∧
    (reachB noProbe 2 1 (demoOps.take 5)).w.pool =
      (runOps noProbe (reachB noProbe 2 1 (demoOps.take 4))
        (List.replicate 3 (.new .typed [0, 2] []))).w.pool ∧
    (reachB noProbe 2 1 (demoOps.take 5)).ss.ents =
      (runOps noProbe (reachB noProbe 2 1 (demoOps.take 4))
        (List.replicate 3 (.new .typed [0, 2] []))).ss.ents := by
  decide +kernel

/-- after the two exchange batches: the callback's last write (6) wins for component 0 of the
    entities that had `{0, 2}`, the zero-size component 1 reads 0, `2.0` (not matched by the second
    batch) keeps 7, `6.0` (matched by neither) is untouched -/
example :
    (reachB noProbe 2 1 (demoOps.take 9)).ss.ents =
      [(⟨6, 0⟩, [(2, 4)]), (⟨5, 0⟩, [(0, 6), (1, 0)]), (⟨4, 0⟩, [(0, 6), (1, 0)]),
       (⟨3, 0⟩, [(0, 6), (1, 0)]), (⟨2, 0⟩, [(0, 7), (1, 0)])] ∧
    agrees (reachB noProbe 2 1 (demoOps.take 9)) = true ∧
    (reachB noProbe 2 1 (demoOps.take 9)).w.isLocked = false ∧
    (reachB noProbe 2 1 (demoOps.take 9)).w.locks ≠ {} ∧
    (compsOf (reachB noProbe 2 1 (demoOps.take 9)).w 3, valOf (reachB noProbe 2 1 (demoOps.take 9)).w 3 0,
      valOf (reachB noProbe 2 1 (demoOps.take 9)).w 3 2, valOf (reachB noProbe 2 1 (demoOps.take 9)).w 6 2) =
      (some [0, 1], some 6, none, some 4) := by
  decide +kernel

/-- the whole history: the batch removal leaves `6.0`; the second batch creation recycles the IDs
    5 and 4; the model agrees with the specification; the removed handles are dead -/
example :
    (reachB noProbe 2 1 (demoOps.take 10)).ss.ents = [(⟨6, 0⟩, [(2, 4)])] ∧
    (reachB noProbe 2 1 demoOps).ss.ents =
      [(⟨4, 1⟩, [(1, 0), (2, 0)]), (⟨5, 1⟩, [(1, 0), (2, 0)]), (⟨6, 0⟩, [(2, 4)])] ∧
    (reachB noProbe 2 1 demoOps).issued =
      [⟨4, 1⟩, ⟨5, 1⟩, ⟨6, 0⟩, ⟨5, 0⟩, ⟨4, 0⟩, ⟨3, 0⟩, ⟨2, 0⟩] ∧
    (reachB noProbe 2 1 demoOps).issued.map (reachB noProbe 2 1 demoOps).w.alive =
      [true, true, true, false, false, false, false] ∧
    agrees (reachB noProbe 2 1 demoOps) = true := by
  decide +kernel

/-- the hypotheses of `newb_effect`, `xchgb_effect`, `xchgb_is_singles` are satisfiable: the
    batches of `demoOps` are expressible and their preconditions hold where they are issued -/
example :
    guardB (reachB noProbe 2 1 (demoOps.take 4)) (.newb .typed 3 [0, 2] [(0, 99)]) = true ∧
    preB (reachB noProbe 2 1 (demoOps.take 4)).ss (.newb .typed 3 [0, 2] [(0, 99)]) ∧
    guardB (reachB noProbe 2 1 (demoOps.take 8))
      (.xchgb .typed (has [0, 2]) [] (some [(0, 5), (0, 6), (1, 3)]) [2]) = true ∧
    preB (reachB noProbe 2 1 (demoOps.take 8)).ss
      (.xchgb .typed (has [0, 2]) [] (some [(0, 5), (0, 6), (1, 3)]) [2]) ∧
    (reachB noProbe 2 1 (demoOps.take 8)).w.tables.length +
      (selTables (reachB noProbe 2 1 (demoOps.take 8)).w (has [0, 2])).length +
      (selEnts (reachB noProbe 2 1 (demoOps.take 8)).w (has [0, 2])).length < maxU32 ∧
    selEnts (reachB noProbe 2 1 (demoOps.take 8)).w (has [0, 2]) = [⟨3, 0⟩, ⟨4, 0⟩, ⟨5, 0⟩] ∧
    matching (reachB noProbe 2 1 (demoOps.take 8)).ss (has [0, 2]) = [⟨5, 0⟩, ⟨4, 0⟩, ⟨3, 0⟩] := by
  refine ⟨by decide +kernel, ⟨by decide, by decide +kernel⟩, by decide +kernel,
    (by show ¬ (([] : List Comp) = [] ∧ ([2] : List Comp) = []); decide),
    by decide +kernel, by decide +kernel, by decide +kernel⟩

/-- rejected batches in the state after the first seven operations: a component listed twice in
    `NewBatch`, an exchange batch with both lists empty — the world comes back unchanged and the
    machine state does not move -/
example :
    panicOf (execB noProbe (reachB noProbe 2 1 (demoOps.take 7)).w (.newb .unsafe_ 3 [0, 0] [])) =
      some .alreadyHas ∧
    panicOf (execB noProbe (reachB noProbe 2 1 (demoOps.take 7)).w (.xchgb .typed (has [0]) [] none [])) =
      some .noComponents ∧
    guardB (reachB noProbe 2 1 (demoOps.take 7)) (.newb .unsafe_ 3 [0, 0] []) = true ∧
    guardB (reachB noProbe 2 1 (demoOps.take 7)) (.xchgb .typed (has [0]) [] none []) = true ∧
    (stepB noProbe (reachB noProbe 2 1 (demoOps.take 7)) (.newb .unsafe_ 3 [0, 0] [])).ss.ents =
      (reachB noProbe 2 1 (demoOps.take 7)).ss.ents ∧
    (stepB noProbe (reachB noProbe 2 1 (demoOps.take 7)) (.newb .unsafe_ 3 [0, 0] [])).w.tables =
      (reachB noProbe 2 1 (demoOps.take 7)).w.tables ∧
    (stepB noProbe (reachB noProbe 2 1 (demoOps.take 7)) (.xchgb .typed (has [0]) [] none [])).w.entities =
      (reachB noProbe 2 1 (demoOps.take 7)).w.entities := by
  decide +kernel

/-- **finding (why the precondition of an exchange batch is part of `guardB`)**: in the state after
    the first seven operations (`2.0`: `{0}`; `3.0 4.0 5.0`: `{0, 2}`; `6.0`: `{2}`) the batch "has
    2: remove 0, add 1" meets its precondition on the table of `{0, 2}` and fails it on the table of
    `{2}`.  The call panics (`missing`) — AFTER creating the table of `{1, 2}` for the first source,
    which stays.  Since the repair of defect D27 (the world lock is taken only after the lookup
    loop) the world is NOT left locked: the lock state is as before the call, no entity is changed
    and the next structural operation (`NewEntity`) is accepted — before the repair the panic
    unwound past the `unlock`, which is not deferred, the world stayed LOCKED and every later
    structural operation panicked `locked`.  Because of the table left behind such a call is still
    not "rejected with the world unchanged", and it is not a step of the machine
    (`guardB = false`).  General statement: `Ark.Props.C07Batch.exchangeBatch_panic_unlocked`. -/
example :
    guardB (reachB noProbe 2 1 (demoOps.take 7)) (.xchgb .unsafe_ (has [2]) [1] none [0]) = false ∧
    panicOf (execB noProbe (reachB noProbe 2 1 (demoOps.take 7)).w (.xchgb .unsafe_ (has [2]) [1] none [0])) =
      some .missing ∧
    (reachB noProbe 2 1 (demoOps.take 7)).w.isLocked = false ∧
    (execB noProbe (reachB noProbe 2 1 (demoOps.take 7)).w
      (.xchgb .unsafe_ (has [2]) [1] none [0])).state.isLocked = false ∧
    (execB noProbe (reachB noProbe 2 1 (demoOps.take 7)).w
      (.xchgb .unsafe_ (has [2]) [1] none [0])).state.locks =
      (reachB noProbe 2 1 (demoOps.take 7)).w.locks ∧
    (reachB noProbe 2 1 (demoOps.take 7)).w.tables.length = 4 ∧
    (execB noProbe (reachB noProbe 2 1 (demoOps.take 7)).w
      (.xchgb .unsafe_ (has [2]) [1] none [0])).state.tables.length = 5 ∧
    (execB noProbe (reachB noProbe 2 1 (demoOps.take 7)).w
      (.xchgb .unsafe_ (has [2]) [1] none [0])).state.entities =
      (reachB noProbe 2 1 (demoOps.take 7)).w.entities ∧
    (List.range 8).map (fun i => compsOf (execB noProbe (reachB noProbe 2 1 (demoOps.take 7)).w
      (.xchgb .unsafe_ (has [2]) [1] none [0])).state i) =
      (List.range 8).map (fun i => compsOf (reachB noProbe 2 1 (demoOps.take 7)).w i) ∧
    panicOf (execB noProbe (execB noProbe (reachB noProbe 2 1 (demoOps.take 7)).w
      (.xchgb .unsafe_ (has [2]) [1] none [0])).state (.base .new0)) = none := by
  decide +kernel

/-- **finding (the empty batch)**: `NewBatch(0, [0, 1, 2])` is accepted, creates no entity and
    leaves the specification alone, but creates the archetype and the table of `{0, 1, 2}`; zero
    single `NewEntity` calls create nothing.  (So `newb_effect` is stated for `n > 0`; for `n = 0`
    the invariant and the frame statement hold all the same: `reach_inv`, `frame_world_batch`.) -/
example :
    (reachB noProbe 2 1 (demoOps.take 7)).w.tables.length = 4 ∧
    (reachB noProbe 2 1 (demoOps.take 7 ++ [.newb .unsafe_ 0 [0, 1, 2] []])).w.tables.length = 5 ∧
    (reachB noProbe 2 1 (demoOps.take 7 ++ [.newb .unsafe_ 0 [0, 1, 2] []])).ss.ents =
      (reachB noProbe 2 1 (demoOps.take 7)).ss.ents ∧
    agrees (reachB noProbe 2 1 (demoOps.take 7 ++ [.newb .unsafe_ 0 [0, 1, 2] []])) = true := by
  decide +kernel

/-- **finding (the lock after an exchange batch)**: an exchange batch takes and releases the world
    lock, after which the lock's bit pool is not the initial one any more (`locks ≠ {}` above) —
    the invariant `XInv` of Ark/Proofs/QueryOps.lean (`locks = {}`) does not survive a batch, which
    is why the machine carries `YInv` (`LockFree`) instead. -/
example :
    (reachB noProbe 2 1 (demoOps.take 7)).w.locks = {} ∧
    (reachB noProbe 2 1 (demoOps.take 8)).w.locks ≠ {} ∧
    (reachB noProbe 2 1 (demoOps.take 8)).w.isLocked = false := by
  decide +kernel

end Ark.Props.C01Batch
