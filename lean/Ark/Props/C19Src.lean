/-
  Ark.Props.C19Src — C19, the source side of the incremental update:

    "[…] Statistics that were updated incrementally over a history equal those of a world that
     replays the history and is asked once."

  `archetype.UpdateStats` (archetype.go), `table.Stats` and `table.UpdateStats` (table.go) are
  translated statement by statement from the Go source on every run of the extractor
  (tools/extract/book.go → Ark/Generated/BookStats.lean: the truncation of the re-used
  `stats.Tables`, the in-place loop, the appending loop, the free-table loop, the four sums
  accumulated inside the loops).  This file states that the TRANSLATED SOURCE computes what the
  model's `archStatsUpdate` computes — for every world, every archetype and every stored object —
  and hence what `World.Stats()` of the model reports per archetype at every reachable state of
  the history machines.

  Why: the model's `archStatsUpdate` is blind to the truncation of the re-used slice
  (`Ark.Props.C19Rel.model_is_blind_to_truncation`); the translated source is not.  A change of the
  Go function — e.g. the seeded change of round 6, `cntOld := min(len(stats.Tables), cntNew)`
  without `stats.Tables = stats.Tables[:cntNew]` — changes the generated definition, and
  `source_updateStats_eq` no longer type-checks and is false: the changed function keeps the stale
  tail, `source_truncates` fails for it.  (The proofs do not depend on how the loops are worded —
  in-place loop + appending loop, or one merged loop; the syntactic decomposition into the three
  loops of the current source is pinned apart, in Ark.Props.C19SrcShape.)

  Vocabulary (Ark/Proofs/GenBridge/BookStats.lean): `gTable T` — the model's table as the
  structure generated from the Go struct `table` (`ofTable T` with `len`, `cap`); `gStorage w` —
  the table store `storage.tables`; `gTableStats`, `gArchStats` — `stats.Table`, `stats.Archetype`
  (the fields the translated functions read or write); `ofArch A` — the Go struct `archetype`.
  No hypothesis on table IDs is needed: an ID outside `w.tables` reads the zero table on both
  sides (`gStorage_getD`).
-/
import Ark.Props.C19
import Ark.Props.C19Rel
import Ark.Proofs.GenBridge.BookStats

set_option autoImplicit false

namespace Ark.Props.C19Src
open Ark Ark.World Ark.Generated.Book Ark.GenBridge.Book

/-! ## 1. tables -/

/-- `table.Stats(memPerEntity)` as in the source = the model's `tableStats` -/
theorem source_tableStats_eq (T : Table) (mpe : Nat) :
    table_Stats (gTable T) mpe = gTableStats (tableStats T mpe) :=
  tableStats_eq T mpe

/-- `table.UpdateStats(memPerEntity, &stats)` as in the source overwrites all four fields of the
    re-used entry: = the model's `tableStats`, whatever the entry was -/
theorem source_tableUpdateStats_eq (T : Table) (mpe : Nat) (old : G_stats_Table) :
    table_UpdateStats (gTable T) mpe old = gTableStats (tableStats T mpe) :=
  tableUpdateStats_eq T mpe old

/-- `storage.tables[id]` of the projected store is the model's `w.tbl id`, for every `id` -/
theorem source_table_lookup (w : World) (id : Nat) :
    (gStorage w).tables.getD id default = gTable (w.tbl id) :=
  gStorage_getD w id

/-! ## 2. `archetype.UpdateStats` -/

/-- **`archetype.UpdateStats` as translated from the source = the model's `archStatsUpdate`**, for
    every world, every archetype and EVERY stored object (its table list longer than, shorter
    than or as long as the archetype's active-table list; any figures) -/
theorem source_updateStats_eq (w : World) (A : Archetype) (st : ArchStats) :
    archetype_UpdateStats (ofArch A) (gArchStats st) (gStorage w) =
      gArchStats (w.archStatsUpdate A st) :=
  updateStats_eq w A st

/-- the in-place loop on the re-used slice: the first `k` entries are overwritten, what lies
    behind them STAYS (so a stored list that is not truncated keeps its stale tail), and the four
    sums of the new entries are accumulated -/
theorem source_inplace_loop (S : G_storage) (tables : TableIDs) (k c n m u : Nat)
    (st : G_stats_Archetype) (hk : k ≤ st.Tables.length) :
    (List.range k).foldl (step1 S tables) (c, n, m, u, st) =
      (c + sumOf (·.Capacity) (entry S tables.tables st.MemoryPerEntity) (List.range k),
       n + sumOf (·.Size) (entry S tables.tables st.MemoryPerEntity) (List.range k),
       m + sumOf (·.Memory) (entry S tables.tables st.MemoryPerEntity) (List.range k),
       u + sumOf (·.MemoryUsed) (entry S tables.tables st.MemoryPerEntity) (List.range k),
       { st with Tables := (List.range k).map (entry S tables.tables st.MemoryPerEntity) ++
                   st.Tables.drop k }) :=
  loop1_eq S tables k c n m u st hk

/-- the source truncates: whatever the stored entry was, afterwards there are as many table
    entries as the archetype has active tables -/
theorem source_truncates (w : World) (A : Archetype) (st : ArchStats) :
    (archetype_UpdateStats (ofArch A) (gArchStats st) (gStorage w)).Tables.length =
      A.tables.tables.length :=
  updateStats_tables_length w A st

/-- the source computes the FRESH entry when the stored entry carries the archetype's three
    immutable figures (`StatAgrees`) -/
theorem source_updateStats_eq_fresh (w : World) (A : Archetype) (st : ArchStats)
    (h : StatAgrees w st A) :
    archetype_UpdateStats (ofArch A) (gArchStats st) (gStorage w) =
      gArchStats (w.archStatsFresh A) :=
  updateStats_eq_fresh w A st h

/-! ## 3. `World.Stats()` of the model, per archetype, is what the source computes -/

/-- for ANY world and ANY stored object: the entry of `World.Stats()` at a position that has a
    stored entry is `archetype.UpdateStats` of the archetype, the stored entry and the table
    store -/
theorem stats_entry_is_source (w : World) (st : WorldStats) (i : Nat) (A : Archetype)
    (s : ArchStats) (hA : w.archetypes[i]? = some A) (hs : st.archetypes[i]? = some s) :
    ((w.statsUpdate st).archetypes[i]?).map gArchStats =
      some (archetype_UpdateStats (ofArch A) (gArchStats s) (gStorage w)) :=
  statsUpdate_entry w st i A s hA hs

/-- **at every reachable state of the relation machine with `Stats()` calls**
    (`Ark.RelStats.reach4`: entity operations with relations, `Exchange`, `CopyEntity`, `Shrink`,
    `Reset`, filters, queries, earlier `Stats()` calls): `Stats()` returns the fresh statistics,
    and for every archetype that has a stored entry the translated source — run on the archetype,
    the STORED entry (which may list more or fewer tables than are active now) and the table
    store — computes exactly the entry `Stats()` reports -/
theorem reach4_source (run : ProbeRunner) (cap rel : Nat) (ops : List RelStats.Op4)
    (hlen : ops.length < 2 ^ 16) (i : Nat) (A : Archetype) (s : ArchStats)
    (hA : (RelStats.reach4 run cap rel ops).w.archetypes[i]? = some A)
    (hs : (RelStats.reach4 run cap rel ops).w.stats.archetypes[i]? = some s) :
    opStats (RelStats.reach4 run cap rel ops).w =
      .ok (statsFresh (RelStats.reach4 run cap rel ops).w)
        { (RelStats.reach4 run cap rel ops).w with
          stats := statsFresh (RelStats.reach4 run cap rel ops).w } ∧
    ((statsFresh (RelStats.reach4 run cap rel ops).w).archetypes[i]?).map gArchStats =
      some (archetype_UpdateStats (ofArch A) (gArchStats s)
        (gStorage (RelStats.reach4 run cap rel ops).w)) := by
  obtain ⟨fl, H⟩ := RelStats.reach4_inv run cap rel ops hlen
  refine ⟨opStats_eq _ H.compat, ?_⟩
  rw [← statsUpdate_eq_fresh _ _ H.compat]
  exact statsUpdate_entry _ _ i A s hA hs

/-- the same for the relation-free machine of `Ark.Props.C19Hist` (any length below `2^32 - 2`) -/
theorem reach3_source (run : ProbeRunner) (cap rel : Nat) (ops : List StatsHist.Op3)
    (hlen : ops.length < 2 ^ 32 - 2) (i : Nat) (A : Archetype) (s : ArchStats)
    (hA : (StatsHist.reach3 run cap rel ops).w.archetypes[i]? = some A)
    (hs : (StatsHist.reach3 run cap rel ops).w.stats.archetypes[i]? = some s) :
    ((statsFresh (StatsHist.reach3 run cap rel ops).w).archetypes[i]?).map gArchStats =
      some (archetype_UpdateStats (ofArch A) (gArchStats s)
        (gStorage (StatsHist.reach3 run cap rel ops).w)) := by
  obtain ⟨fl, H⟩ := StatsHist.reach3_inv run cap rel ops hlen
  rw [← statsUpdate_eq_fresh _ _ H.compat]
  exact statsUpdate_entry _ _ i A s hA hs

/-! ## 4. non-vacuity: the demo history of `Ark.Props.C19Rel`

Before the second `Stats()` call (step 13) the stored entry of the relation archetype `{0,1}` lists
3 tables, the archetype has 1 active table and 2 free ones: the translated source truncates.
Before the fifth call (step 19, after `Reset`) it lists 2 tables, the archetype has none.  Before
the third (step 15) it lists 1, the archetype has 2: the source appends. -/

open Ark.Props.C19Rel in
/-- the translated source, run on the stored (stale) entry, gives the entry `Stats()` reports: at
    the truncating call (3 → 1), the appending call (1 → 2), and after `Reset` (2 → 0) -/
example :
    ((at_ 13).w.stats.archetypes.getD 1 default).tables.length = 3 ∧
    (archetype_UpdateStats (ofArch ((at_ 13).w.arch 1))
        (gArchStats ((at_ 13).w.stats.archetypes.getD 1 default)) (gStorage (at_ 13).w)) =
      gArchStats ((at_ 14).w.stats.archetypes.getD 1 default) ∧
    (archetype_UpdateStats (ofArch ((at_ 13).w.arch 1))
        (gArchStats ((at_ 13).w.stats.archetypes.getD 1 default)) (gStorage (at_ 13).w)).Tables =
      [{ Size := 1, Capacity := 2, Memory := 40, MemoryUsed := 20 }] ∧
    (archetype_UpdateStats (ofArch ((at_ 15).w.arch 1))
        (gArchStats ((at_ 15).w.stats.archetypes.getD 1 default)) (gStorage (at_ 15).w)) =
      gArchStats ((at_ 16).w.stats.archetypes.getD 1 default) ∧
    (archetype_UpdateStats (ofArch ((at_ 19).w.arch 1))
        (gArchStats ((at_ 19).w.stats.archetypes.getD 1 default)) (gStorage (at_ 19).w)) =
      gArchStats ((at_ 20).w.stats.archetypes.getD 1 default) ∧
    (archetype_UpdateStats (ofArch ((at_ 19).w.arch 1))
        (gArchStats ((at_ 19).w.stats.archetypes.getD 1 default)) (gStorage (at_ 19).w)).Tables
      = [] := by
  decide +kernel

open Ark.Props.C19Rel in
/-- the hypotheses of `reach4_source` are satisfiable at step 13 -/
example :
    (demoOps.take 13).length < 2 ^ 16 ∧
    (at_ 13).w.archetypes[1]? = some ((at_ 13).w.arch 1) ∧
    (at_ 13).w.stats.archetypes[1]? = some ((at_ 13).w.stats.archetypes.getD 1 default) := by
  decide +kernel

end Ark.Props.C19Src
