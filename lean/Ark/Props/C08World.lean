/-
  C08 at world level — which callbacks run.

  "For every operation and every registered observer, the callback runs exactly once per affected
  entity if and only if the event type matches and the observer's observed-component, with,
  without and exclusive conditions hold for that operation as documented, and never otherwise.
  Whether an observer fires does not depend on which other observers are or were registered, and
  the same holds for custom events emitted by the user."

  Setting (`Setting run S rec w fl`, Ark/Proofs/CallbacksCbs.lean): the non-relation fragment WITH
  observers (`CInvObs` = the joint invariant `CInv` of Ark/Proofs/RefineCore.lean minus its "no
  observers" field); any set of registered observers whose aggregates and computed data are
  consistent (`ObsOK`: `AggInv` for every event type, the data of every listed observer is what
  `AddObserver` computes from its specification, no observer listed twice — established by
  `Register`, kept by `Unregister`: `register_keeps_setting`, `unregister_keeps_setting`); a
  callback runner `run` that is READ-ONLY on the probes occurring in the observers' scripts
  (`ReadOnly run S rec`: running a probe appends the records `rec w l e p` to the log and changes
  nothing else) and writes no `cb` records itself.  The runner of the harness restricted to `look`
  probes is of this kind (`probe_readOnly`).

  * `dispatch_is_filter`, `dispatch_callbacks` — `World.dispatch` over a snapshot `obs`: it appends,
    for each label of `obs` in order whose predicate holds, `cb l e` followed by the records of its
    script; nothing but the log changes; it returns whether some predicate held.
  * `*_callbacks` — for each of `Add`, `Remove`, `Exchange`, `Set`, `NewEntity(ids…)`,
    `NewEntity()`, `RemoveEntity`, `CopyEntity`, `Event.Emit`: the call succeeds exactly as on the
    world without observers (`w.noObs`), its result is the observer-free result with the observers
    put back (`FrameOf`; the log grows; for the removal operations the lock's bit pool remembers
    one `Lock()`/`Unlock()` cycle: `lockAfter`), and the `cb` records appended are exactly
    `(l, e)` for `l ∈ firing w.obs evt ev` — the observers registered for the operation's event
    type, in registration order, whose SPECIFICATION fires (`Spec.fires`) for the event instance
    `ev` of the operation — newest first.  `firing_exactly_once`: each such `l` once, every other
    observer never.  The early-outs (`hasObservers`, the union masks) lose no callback.
  * `observer_independent`, `register_other_independent`, `unregister_other_independent` —
    independence from the other observers.

  Finding (documented behaviour made precise): `RemoveEntity` / `NewEntity` on an entity WITHOUT
  relation components never notify `OnRemoveRelations` / `OnAddRelations` observers, not even
  wildcard ones; `Unsafe.Exchange` with an empty `add` list skips `OnAddComponents`, the typed
  `Exchange` (whose `add` is never empty in Go) does not.

  Hypotheses the proofs need beyond the setting: the lock hands out a bit and takes it back
  (`LockCycle w.locks l1 b l2`; true for every lawful lock state with fewer than 64 outstanding
  bits, `lockCycle_of_invariant`) — with all 64 bits outstanding `Remove` panics `outOfLocks`
  (`lock_hypothesis_necessary`).  For the two registration theorems: the bookkeeping invariant
  `MInv` of the observer manager (ids unique and never recycled, the id index points at the
  object, listed ⇒ registered; Ark/Proofs/ObsIndex.lean), which holds initially and is kept by
  `Register` and `Unregister` (`bookkeeping_init`, `register_keeps_bookkeeping`,
  `unregister_keeps_bookkeeping`) — it yields the side conditions "listed nowhere" of `Register`
  and "the index of the unregistered observer points at it" (`IndexOK`) of `Unregister`.
-/
import Ark.Proofs.ObsIndex
import Ark.Proofs.Refine

set_option autoImplicit false

namespace Ark.Props.C08World
open Ark Ark.World Ark.Spec Ark.Refine Ark.QueryExact Ark.Props.C01World

variable {run : ProbeRunner} {S : Probe → Prop} {rec : World → Nat → Ent → Probe → List LogEv}
  {w : World} {fl : List Nat}

/-! ### 1. `dispatch` -/

/-- **Goal 1.**  For a read-only runner `dispatch` returns `found` = "some predicate held" and a
    world that differs from `w` in the log only; the log is extended by `dispatchLog`: for each
    observer label of `obs`, in order, whose predicate holds, `cb l e` followed by what its script
    logs on the world as it is then. -/
theorem dispatch_is_filter (hro : ReadOnly run S rec) (obs : List Nat) (pred : ObsData → Bool)
    (e : Ent) (w : World) (hs : ScriptsIn w.obs S) :
    dispatch run obs pred e w
      = .ok (obs.any fun l => pred (w.obs.obj l).data) (w.addLog (dispatchLog rec pred e obs w)) :=
  dispatch_readOnly hro obs pred e w hs

/-- the `cb` records of a dispatch: `(l, e)` for the labels of `obs` whose predicate holds, in
    order (the log is newest-first, hence `reverse`), once per occurrence in `obs` -/
theorem dispatch_callbacks (hn : NoCb rec) (pred : ObsData → Bool) (e : Ent) (obs : List Nat)
    (w : World) :
    cbsOf (dispatchLog rec pred e obs w)
      = ((obs.filter fun l => pred (w.obs.obj l).data).map fun l => (l, e)).reverse :=
  cbsOf_dispatchLog hn pred e obs w

/-- for a log-blind runner every record of a dispatch is a function of the ONE world it was
    called on -/
theorem dispatch_log_blind (hb : LogBlind rec) (pred : ObsData → Bool) (e : Ent) (obs : List Nat)
    (w : World) :
    dispatchLog rec pred e obs w
      = ((obs.filter fun l => pred (w.obs.obj l).data).reverse.flatMap fun l =>
          notifyFlat rec l e w) :=
  dispatchLog_blind hb pred e obs w

/-! ### 2. the callback set of every operation -/

/-- membership in the documented callback set: registered for the event type, and the
    specification fires -/
theorem firing_iff {m : ObsMgr} {evt : Nat} {ev : EvInst} {l : Nat} :
    l ∈ firing m evt ev ↔ l ∈ (m.evt evt).observers ∧ Spec.fires (m.obj l).spec ev := mem_firing

/-- **exactly once, and never otherwise** -/
theorem firing_exactly_once {m : ObsMgr} (h : ObsOK m) (evt : Nat) (ev : EvInst) (e : Ent) (l : Nat) :
    (((firing m evt ev).map fun x => (x, e)).reverse).count (l, e)
      = if l ∈ firing m evt ev then 1 else 0 := count_cbs_firing h evt ev e l

theorem add_callbacks (st : Setting run S rec w fl) (run0 : ProbeRunner) (p : Path)
    (hl : w.isLocked = false) {e : Ent} (he : Live w fl e) {add : List Comp} (hne : add ≠ [])
    (hnd : add.Nodup) (hreg : ∀ (c : Comp), c ∈ add → c < w.kinds.length)
    (hnew : ∀ (c : Comp), c ∈ add → (w.maskOf e).get c = false) (vals : List (Comp × Val))
    (hfew : w.tables.length < maxU32) (hrows : ∀ t : Nat, (w.tbl t).len + 1 < 2 ^ 32) :
    ∃ w0 w' : World,
      opAdd run0 p e add vals [] w.noObs = .ok () w0 ∧ OpAddPost w.noObs fl e add vals w0 ∧
      opAdd run p e add vals [] w = .ok () w' ∧ FrameOf w0 w w' ∧ w'.locks = w0.locks ∧
      cbsOf w'.log =
        ((firing w.obs Ev.onAddComponents
          (.add (w.maskOf e) (add.foldl Mask.set (w.maskOf e)))).map fun l => (l, e)).reverse
        ++ cbsOf w.log :=
  add_cbs st run0 p hl he hne hnd hreg hnew vals hfew hrows

theorem remove_callbacks (st : Setting run S rec w fl) (run0 : ProbeRunner) (p : Path)
    (hl : w.isLocked = false) {e : Ent} (he : Live w fl e) {rem : List Comp} (hne : rem ≠ [])
    (hnd : rem.Nodup) (hpres : ∀ (c : Comp), c ∈ rem → (w.maskOf e).get c = true)
    (hfew : w.tables.length < maxU32) (hrows : ∀ t : Nat, (w.tbl t).len + 1 < 2 ^ 32)
    {l1 l2 : Lock} {b : Nat} (hL : LockCycle w.locks l1 b l2) :
    ∃ w0 w' : World,
      opRemove run0 p e rem w.noObs = .ok () w0 ∧ RemovePost w.noObs fl e rem w0 ∧
      opRemove run p e rem w = .ok () w' ∧ FrameOf w0 w w' ∧
      w'.locks = lockAfter w Ev.onRemoveComponents l2 ∧
      cbsOf w'.log =
        ((firing w.obs Ev.onRemoveComponents
          (.remove (w.maskOf e) (rem.foldl Mask.clear (w.maskOf e)))).map fun l => (l, e)).reverse
        ++ cbsOf w.log :=
  remove_cbs st run0 p hl he hne hnd hpres hfew hrows hL

/-- first the removal observers (if `rem` is not empty), then the addition observers (`Unsafe`:
    if `add` is not empty), both with the masks before and after the complete exchange -/
theorem exchange_callbacks (st : Setting run S rec w fl) (run0 : ProbeRunner) (p : Path)
    (hl : w.isLocked = false) {e : Ent} (he : Live w fl e)
    {add rem : List Comp} (hne : ¬ (add = [] ∧ rem = [])) (hrnd : rem.Nodup)
    (hpres : ∀ (c : Comp), c ∈ rem → (w.maskOf e).get c = true) (hand : add.Nodup)
    (hreg : ∀ (c : Comp), c ∈ add → c < w.kinds.length)
    (hnew : ∀ (c : Comp), c ∈ add → (w.maskOf e).get c = false) (vals : List (Comp × Val))
    (hfew : w.tables.length < maxU32) (hrows : ∀ t : Nat, (w.tbl t).len + 1 < 2 ^ 32)
    {l1 l2 : Lock} {b : Nat} (hL : LockCycle w.locks l1 b l2) :
    ∃ w0 w' : World,
      opExchange run0 p e add vals rem [] w.noObs = .ok () w0 ∧
      OpExchangePost w.noObs fl e add rem vals w0 ∧
      opExchange run p e add vals rem [] w = .ok () w' ∧ FrameOf w0 w w' ∧
      w'.locks = lockAfterX w rem l2 ∧
      cbsOf w'.log =
        ((firingAddX w.obs p add (w.maskOf e)
            (add.foldl Mask.set (rem.foldl Mask.clear (w.maskOf e)))).map fun l => (l, e)).reverse
        ++ (((firingX w rem (w.maskOf e)
            (add.foldl Mask.set (rem.foldl Mask.clear (w.maskOf e)))).map fun l => (l, e)).reverse
        ++ cbsOf w.log) :=
  exchange_cbs st run0 p hl he hne hrnd hpres hand hreg hnew vals hfew hrows hL

/-- the returned handle is the reported entity -/
theorem newEntity_callbacks (st : Setting run S rec w fl) (run0 : ProbeRunner) (p : Path)
    (hl : w.isLocked = false) {ids : List Comp} (hnd : ids.Nodup)
    (hreg : ∀ (c : Comp), c ∈ ids → c < w.kinds.length) (vals : List (Comp × Val))
    (hfew : w.tables.length < maxU32) (hrows : ∀ t : Nat, (w.tbl t).len + 1 < 2 ^ 32) :
    ∃ w0 w' : World,
      opNewEntity run0 p ids vals [] w.noObs = .ok (w.pool.get).2 w0 ∧
      NewPost w.noObs fl ids vals (w.pool.get).2 w0 ∧
      opNewEntity run p ids vals [] w = .ok (w.pool.get).2 w' ∧ FrameOf w0 w w' ∧
      w'.locks = w0.locks ∧
      cbsOf w'.log =
        ((firing w.obs Ev.onCreateEntity (.entity (Mask.ofList ids))).map
          fun l => (l, (w.pool.get).2)).reverse ++ cbsOf w.log :=
  newEntity_cbs st run0 p hl hnd hreg vals hfew hrows

theorem newEntity0_callbacks (st : Setting run S rec w fl) (run0 : ProbeRunner)
    (hl : w.isLocked = false) (hb : (w.tbl 0).len + 1 < 2 ^ 32) :
    ∃ w0 w' : World,
      opNewEntity0 run0 w.noObs = .ok (w.pool.get).2 w0 ∧
      PlacedPost w.noObs fl 0 (w.pool.get).2 w0 ∧ compsOf w0 (w.pool.get).2.id = some [] ∧
      opNewEntity0 run w = .ok (w.pool.get).2 w' ∧ FrameOf w0 w w' ∧ w'.locks = w0.locks ∧
      cbsOf w'.log =
        ((firing w.obs Ev.onCreateEntity (.entity Mask.empty)).map
          fun l => (l, (w.pool.get).2)).reverse ++ cbsOf w.log :=
  newEntity0_cbs st run0 hl hb

theorem removeEntity_callbacks (st : Setting run S rec w fl) (run0 : ProbeRunner)
    (hl : w.isLocked = false) {e : Ent} (he : Live w fl e)
    {l1 l2 : Lock} {b : Nat} (hL : LockCycle w.locks l1 b l2) :
    ∃ w0 w' : World,
      opRemoveEntity run0 e w.noObs = .ok () w0 ∧ RemovedPost w.noObs fl e w0 ∧
      opRemoveEntity run e w = .ok () w' ∧ FrameOf w0 w w' ∧
      w'.locks = lockAfter w Ev.onRemoveEntity l2 ∧
      cbsOf w'.log =
        ((firing w.obs Ev.onRemoveEntity (.entity (w.maskOf e))).map fun l => (l, e)).reverse
        ++ cbsOf w.log :=
  removeEntity_cbs st run0 hl he hL

/-- no lock requirement: `Set` may be called from inside a callback or a query loop -/
theorem set_callbacks (st : Setting run S rec w fl) (run0 : ProbeRunner) {e : Ent} (he : Live w fl e)
    {ids : List Comp} (hhas : ∀ (c : Comp), c ∈ ids → (w.maskOf e).get c = true)
    (vals : List (Comp × Val)) :
    ∃ w0 w' : World,
      opSet run0 e ids vals w.noObs = .ok () w0 ∧ WritePost w.noObs fl e vals w0 ∧
      opSet run e ids vals w = .ok () w' ∧ FrameOf w0 w w' ∧ w'.locks = w0.locks ∧
      cbsOf w'.log =
        ((firing w.obs Ev.onSetComponents (.set (Mask.ofList ids) (w.maskOf e))).map
          fun l => (l, e)).reverse ++ cbsOf w.log :=
  set_cbs st run0 he hhas vals

/-- the copy is the reported entity, with the mask of the source -/
theorem copyEntity_callbacks (st : Setting run S rec w fl) (run0 : ProbeRunner)
    (hl : w.isLocked = false) {src : Ent} (he : Live w fl src)
    (hrows : ∀ t : Nat, (w.tbl t).len + 1 < 2 ^ 32) :
    ∃ w0 w' : World,
      opCopyEntity run0 src w.noObs = .ok (w.pool.get).2 w0 ∧
      CopyPost w.noObs fl src (w.pool.get).2 w0 ∧
      opCopyEntity run src w = .ok (w.pool.get).2 w' ∧ FrameOf w0 w w' ∧ w'.locks = w0.locks ∧
      cbsOf w'.log =
        ((firing w.obs Ev.onCreateEntity (.entity (w.maskOf src))).map
          fun l => (l, (w.pool.get).2)).reverse ++ cbsOf w.log :=
  copyEntity_cbs st run0 hl he hrows

/-- custom events (`Event.Emit` for an event type ≤ 248): needs no invariant of the world; the
    world is unchanged but for the log; `comps` are the components the event is about, the
    entity must be alive and have them (or be the zero entity, with no components) -/
theorem emit_callbacks (hro : ReadOnly run S rec) (hn : NoCb rec) (hs : ScriptsIn w.obs S)
    (hok : ObsOK w.obs) (evt : Nat) (comps : List Comp) (e : Ent) (hevt : evt ≤ Ev.custom)
    (hent : if e.isZero then (Mask.ofList comps).isZero = true else w.alive e = true)
    (hcont : ((if e.isZero then (w.arch 0).mask else w.maskOf e).contains (Mask.ofList comps)) = true) :
    ∃ w' : World, opEmit run evt comps e w = .ok () w' ∧ w' = { w with log := w'.log } ∧
      cbsOf w'.log =
        ((firing w.obs evt (.set (Mask.ofList comps)
          (if e.isZero then (w.arch 0).mask else w.maskOf e))).map fun l => (l, e)).reverse
        ++ cbsOf w.log :=
  emit_cbs hro hn hs hok evt comps e hevt hent hcont

/-- the setting carries over to the result of every operation above (same runner, same
    observers; the invariant of the observer-free result) -/
theorem setting_kept {w0 w' : World} {fl' : List Nat} (st : Setting run S rec w fl)
    (hf : FrameOf w0 w w') (h0 : CInv w0 fl') : Setting run S rec w' fl' := st.frame hf h0

/-! ### 3. independence -/

/-- **independence.**  The number of callbacks of observer `l` in a notification round is the same
    under any two observer managers that agree on `l` — whether it is listed for the event type,
    and its specification — whatever else is or was registered. -/
theorem observer_independent {m m' : ObsMgr} (h : ObsOK m) (h' : ObsOK m') {evt : Nat} {l : Nat}
    (hl : l ∈ (m'.evt evt).observers ↔ l ∈ (m.evt evt).observers)
    (hs : (m'.obj l).spec = (m.obj l).spec) (ev : EvInst) (e : Ent) :
    (((firing m' evt ev).map fun x => (x, e)).reverse).count (l, e)
      = (((firing m evt ev).map fun x => (x, e)).reverse).count (l, e) :=
  Ark.observer_independent h h' hl hs ev e

/-- registering ANOTHER observer `l'` changes nothing but the observer manager, keeps the setting,
    and keeps `l` listed or not, with its specification: by `observer_independent` and the
    `*_callbacks` theorems (whose event instances are computed from the world without observers,
    which is the same) the callbacks of `l` are the same in every operation -/
theorem register_other_independent {w w' : World} {l l' : Nat} (h : ObsOK w.obs)
    (hok : opObsRegister l' w = .ok () w') (hids : IdsOK (w.obs.obj l').spec)
    (hfresh : ∀ evt : Nat, l' ∉ (w.obs.evt evt).observers) (hne : l ≠ l') :
    ObsOK w'.obs ∧ w' = { w with obs := w'.obs } ∧
    (∀ evt : Nat, l ∈ (w'.obs.evt evt).observers ↔ l ∈ (w.obs.evt evt).observers) ∧
    (w'.obs.obj l).spec = (w.obs.obj l).spec := register_other h hok hids hfresh hne

/-- the same for unregistering another observer (the swap-remove may move `l` in the list, which
    changes the ORDER of the callbacks, not their number) -/
theorem unregister_other_independent {w w' : World} {l l' : Nat} (h : ObsOK w.obs)
    (hok : opObsUnregister l' w = .ok () w') (hidx : IndexOK w.obs l') (hne : l ≠ l') :
    ObsOK w'.obs ∧ w' = { w with obs := w'.obs } ∧
    (∀ evt : Nat, l ∈ (w'.obs.evt evt).observers ↔ l ∈ (w.obs.evt evt).observers) ∧
    (w'.obs.obj l).spec = (w.obs.obj l).spec := unregister_other h hok hidx hne

/-! ### the bookkeeping invariant of the observer manager discharges the side conditions -/

theorem bookkeeping_init : MInv {} := minv_init

theorem register_keeps_bookkeeping {w w' : World} {l : Nat} (h : MInv w.obs)
    (hok : opObsRegister l w = .ok () w') : MInv w'.obs := opObsRegister_minv h hok

theorem unregister_keeps_bookkeeping {w w' : World} {l : Nat} (h : MInv w.obs) (hok' : ObsOK w.obs)
    (hok : opObsUnregister l w = .ok () w') : MInv w'.obs := opObsUnregister_minv h hok' hok

/-- **independence under registration, in every state reached by registrations and
    unregistrations**: a successful `Register` of another observer `l'` (component IDs below 256)
    keeps the setting and the bookkeeping, changes nothing but the observer manager, and for no
    event type whether `l` is listed, nor its specification -/
theorem register_other_independent_reachable {w w' : World} {l l' : Nat} (h : ObsOK w.obs)
    (hm : MInv w.obs) (hok : opObsRegister l' w = .ok () w') (hids : IdsOK (w.obs.obj l').spec)
    (hne : l ≠ l') :
    ObsOK w'.obs ∧ MInv w'.obs ∧ w' = { w with obs := w'.obs } ∧
    (∀ evt : Nat, l ∈ (w'.obs.evt evt).observers ↔ l ∈ (w.obs.evt evt).observers) ∧
    (w'.obs.obj l).spec = (w.obs.obj l).spec := by
  obtain ⟨a, b, c, d⟩ := register_other h hok hids (opObsRegister_fresh hm hok) hne
  exact ⟨a, opObsRegister_minv hm hok, b, c, d⟩

/-- … and under unregistration -/
theorem unregister_other_independent_reachable {w w' : World} {l l' : Nat} (h : ObsOK w.obs)
    (hm : MInv w.obs) (hok : opObsUnregister l' w = .ok () w') (hne : l ≠ l') :
    ObsOK w'.obs ∧ MInv w'.obs ∧ w' = { w with obs := w'.obs } ∧
    (∀ evt : Nat, l ∈ (w'.obs.evt evt).observers ↔ l ∈ (w.obs.evt evt).observers) ∧
    (w'.obs.obj l).spec = (w.obs.obj l).spec := by
  obtain ⟨a, b, c, d⟩ := unregister_other h hok (hm.indexOK l') hne
  exact ⟨a, opObsUnregister_minv hm h hok, b, c, d⟩

/-- `Register` of an observer object listed nowhere, with component IDs below 256, keeps `ObsOK` -/
theorem register_keeps_setting {w w' : World} {l : Nat} (h : ObsOK w.obs)
    (hok : opObsRegister l w = .ok () w') (hids : IdsOK (w.obs.obj l).spec)
    (hfresh : ∀ evt : Nat, l ∉ (w.obs.evt evt).observers) :
    ObsOK w'.obs ∧ w' = { w with obs := w'.obs } :=
  ⟨(opObsRegister_spec h hok hids hfresh).1, (opObsRegister_spec h hok hids hfresh).2.1⟩

/-- `Unregister` keeps `ObsOK` -/
theorem unregister_keeps_setting {w w' : World} {l : Nat} (h : ObsOK w.obs)
    (hok : opObsUnregister l w = .ok () w') : ObsOK w'.obs ∧ w' = { w with obs := w'.obs } :=
  ⟨(opObsUnregister_spec h hok).1, (opObsUnregister_spec h hok).2.1⟩

/-- the lock hypothesis holds in every lawful lock state of an unlocked world -/
theorem lockCycle_of_invariant {w : World} {out flk : List Nat}
    (g : Lock.LInv ⟨w.locks, out⟩ flk) (hl : w.isLocked = false) :
    ∃ l1 b l2, LockCycle w.locks l1 b l2 ∧ l2.isLocked = false ∧
      (∃ fl2, Lock.LInv ⟨l2, []⟩ fl2) ∧
      ∃ l1' b' l2', LockCycle l1 l1' b' l2' ∧ l2'.locks = l1.locks := lockCycle_unlocked g hl

/-! ### 4. non-vacuity: a concrete world with observers -/

section Demo

/-- the runner of the history machine (no observers there: never consulted) -/
def quiet : ProbeRunner := fun _ _ _ => pure ()

/-- two component types; `⟨2,0⟩ : [0]` and `⟨3,0⟩ : [0,1]` -/
def hist : List Op :=
  [.reg 8 false, .reg 8 false, .new .typed [0] [(0, 10)], .new .typed [0, 1] [(0, 20), (1, 21)]]

def s0 : St := reach quiet 4 4 hist

/-- the `Observer` values the client built (label ↦ specification; the scripts are `look` probes):
    1 `OnAddComponents.For(1)`, 2 `OnAddComponents.With(0)` (wildcard), 3
    `OnAddComponents.For(1).Without(0)`, 4 `OnRemoveEntity.For(0)`, 5 `OnRemoveComponents.For(0)`,
    6 `OnRemoveEntity.For(0).Exclusive()`, 7 `OnCreateEntity`, 8 a custom event (type 7) `For(1)` -/
def objs : AL ObsObj :=
  [ (1, { spec := { event := Ev.onAddComponents, comps := [1], script := [.look] } }),
    (2, { spec := { event := Ev.onAddComponents, with_ := [0], script := [.look] } }),
    (3, { spec := { event := Ev.onAddComponents, comps := [1], without := [0], script := [.look] } }),
    (4, { spec := { event := Ev.onRemoveEntity, comps := [0], script := [.look] } }),
    (5, { spec := { event := Ev.onRemoveComponents, comps := [0], script := [.look] } }),
    (6, { spec := { event := Ev.onRemoveEntity, exclusive := true, comps := [0], script := [.look] } }),
    (7, { spec := { event := Ev.onCreateEntity, script := [.look] } }),
    (8, { spec := { event := 7, comps := [1], script := [.look] } }) ]

/-- the world of the history with the observer objects on the heap, none registered -/
def w00 : World := { s0.w with obs := { objs := objs } }

/-- … and with all of them registered, in the order of their labels -/
def wObs : World := regAll [1, 2, 3, 4, 5, 6, 7, 8] w00

/-- the handles of the two entities -/
def e2 : Ent := ⟨2, 0⟩
def e3 : Ent := ⟨3, 0⟩

theorem demo_free_list {fl : List Nat} (H : HInv s0 fl) : fl = [] := by
  have h := H.cinv.pool.ch
  have h0 : Pool.chain s0.w.pool.ents s0.w.pool.next s0.w.pool.available = some [] := by
    decide +kernel
  rw [h0] at h
  exact (Option.some.inj h).symm

/-- **the hypotheses of all theorems above are satisfiable**: the demo world is in the setting
    (with the runner of the harness), both entities are live handles, the world is unlocked and
    its lock is in the initial state (whose cycle is `lockCycle_default`, with a second cycle
    nested inside). -/
theorem demo_setting :
    Setting World.probe (· = Probe.look) lookRec wObs [] ∧ LogBlind lookRec ∧
    Live wObs [] e2 ∧ Live wObs [] e3 ∧ wObs.isLocked = false ∧
    LockCycle wObs.locks lockDuringQuery 0 lockAfterQuery ∧
    wObs.tables.length < maxU32 ∧ (∀ t : Nat, (wObs.tbl t).len + 1 < 2 ^ 32) := by
  obtain ⟨fl, H⟩ := reach_hinv quiet 4 4 hist (by decide)
  have hfl := demo_free_list H
  subst hfl
  have hreg : RegAllOK [1, 2, 3, 4, 5, 6, 7, 8] w00 := by decide +kernel
  obtain ⟨hok, hw⟩ := regAll_spec [1, 2, 3, 4, 5, 6, 7, 8] w00 (obsOK_of_no_events rfl) hreg
  have hw' : wObs = s0.w.reframe wObs.obs s0.w.log s0.w.locks := hw
  have hlocks : wObs.locks = {} := by decide +kernel
  refine ⟨⟨probe_readOnly, lookRec_noCb, ?_, hok, ?_⟩, lookRec_logBlind, ?_, ?_, ?_, ?_, ?_, ?_⟩
  · apply scriptsIn_of_objs
    decide +kernel
  · rw [hw']; exact H.cinv.toObs.reframe _ _ _
  · exact ⟨by decide, by simp, by decide +kernel, by decide +kernel⟩
  · exact ⟨by decide, by simp, by decide +kernel, by decide +kernel⟩
  · decide +kernel
  · rw [hlocks]; exact lockCycle_default
  · decide +kernel
  · intro t
    have hlen : wObs.tables.length = 3 := by decide +kernel
    by_cases ht : t < 3
    · have : t = 0 ∨ t = 1 ∨ t = 2 := by omega
      rcases this with rfl | rfl | rfl <;> decide +kernel
    · have : wObs.tbl t = default := by
        simp only [tbl, List.getD_eq_getElem?_getD]
        rw [List.getElem?_eq_none (by omega)]
        rfl
      rw [this]; decide

/-- the demo world also satisfies the bookkeeping invariant -/
theorem demo_bookkeeping : MInv wObs.obs := by
  have hreg : RegAllOK [1, 2, 3, 4, 5, 6, 7, 8] w00 := by decide +kernel
  refine regAll_minv _ w00 (minv_of_unregistered ?_ rfl rfl) hreg
  decide +kernel

/-- the registration lists of the demo world -/
example : (wObs.obs.evt Ev.onAddComponents).observers = [1, 2, 3] ∧
    (wObs.obs.evt Ev.onRemoveEntity).observers = [4, 6] ∧
    (wObs.obs.evt Ev.onRemoveComponents).observers = [5] ∧
    (wObs.obs.evt Ev.onCreateEntity).observers = [7] ∧ (wObs.obs.evt 7).observers = [8] := by
  decide +kernel

/-- the documented callback sets: adding component 1 to `⟨2,0⟩ : [0]` notifies `For(1)` and the
    wildcard `With(0)`, not `For(1).Without(0)`; removing `⟨2,0⟩ : [0]` notifies `For(0)` and
    `For(0).Exclusive()`, removing `⟨3,0⟩ : [0,1]` only `For(0)`; removing component 0 notifies
    `OnRemoveComponents.For(0)`, removing component 1 does not -/
example :
    firing wObs.obs Ev.onAddComponents (.add (Mask.ofList [0]) (Mask.ofList [0, 1])) = [1, 2] ∧
    firing wObs.obs Ev.onRemoveEntity (.entity (Mask.ofList [0])) = [4, 6] ∧
    firing wObs.obs Ev.onRemoveEntity (.entity (Mask.ofList [0, 1])) = [4] ∧
    firing wObs.obs Ev.onRemoveComponents (.remove (Mask.ofList [0, 1]) (Mask.ofList [1])) = [5] ∧
    firing wObs.obs Ev.onRemoveComponents (.remove (Mask.ofList [0, 1]) (Mask.ofList [0])) = [] ∧
    firing wObs.obs 7 (.set (Mask.ofList [1]) (Mask.ofList [0, 1])) = [8] ∧
    wObs.maskOf e2 = Mask.ofList [0] ∧ wObs.maskOf e3 = Mask.ofList [0, 1] := by
  decide +kernel

/-- the `cb` records of a run of the model with the runner of the harness (`none` = panic) -/
def cbsAfter {α : Type} (r : Res World α) : Option (List (Nat × Ent)) :=
  match r with
  | .ok _ w' => some (cbsOf w'.log)
  | .panic _ _ => none

/-- … and that is what the model does (the log is newest-first): -/
example :
    cbsAfter (opAdd World.probe .typed e2 [1] [(1, 5)] [] wObs) = some [(2, e2), (1, e2)] ∧
    cbsAfter (opAdd World.probe .unsafe_ e2 [1] [(1, 5)] [] wObs) = some [(2, e2), (1, e2)] ∧
    cbsAfter (opRemoveEntity World.probe e2 wObs) = some [(6, e2), (4, e2)] ∧
    cbsAfter (opRemoveEntity World.probe e3 wObs) = some [(4, e3)] ∧
    cbsAfter (opRemove World.probe .typed e3 [0] wObs) = some [(5, e3)] ∧
    cbsAfter (opRemove World.probe .typed e3 [1] wObs) = some ([] : List (Nat × Ent)) := by
  decide +kernel

example :
    cbsAfter (opExchange World.probe .unsafe_ e3 [] [] [0] [] wObs) = some [(5, e3)] ∧
    cbsAfter (opExchange World.probe .unsafe_ e3 [] [] [1] [] wObs) = some ([] : List (Nat × Ent)) ∧
    cbsAfter (opNewEntity World.probe .typed [1] [(1, 9)] [] wObs) = some [(7, ⟨4, 0⟩)] ∧
    cbsAfter (opNewEntity0 World.probe wObs) = some [(7, ⟨4, 0⟩)] ∧
    cbsAfter (opCopyEntity World.probe e3 wObs) = some [(7, ⟨4, 0⟩)] ∧
    cbsAfter (opEmit World.probe 7 [1] e3 wObs) = some [(8, e3)] ∧
    cbsAfter (opEmit World.probe 7 [0] e3 wObs) = some ([] : List (Nat × Ent)) := by
  decide +kernel

/-- unregistering observer 1 (`For(1)`) in the demo world: observer 2 is notified as before, now
    alone (the swap-remove moves observer 3 into the hole: the lists are unordered sets) -/
example :
    (match opObsUnregister 1 wObs with
     | .ok _ w' => ((w'.obs.evt Ev.onAddComponents).observers,
        cbsAfter (opAdd World.probe .typed e2 [1] [(1, 5)] [] w'))
     | .panic _ _ => ([], none)) = ([3, 2], some [(2, e2)]) := by
  decide +kernel

/-- the theorem applied: `Add` of component 1 to `⟨2,0⟩` on the demo world -/
example : ∃ w0 w' : World,
    opAdd quiet .typed e2 [1] [(1, 5)] [] wObs.noObs = .ok () w0 ∧
    OpAddPost wObs.noObs [] e2 [1] [(1, 5)] w0 ∧
    opAdd World.probe .typed e2 [1] [(1, 5)] [] wObs = .ok () w' ∧ FrameOf w0 wObs w' ∧
    w'.locks = w0.locks ∧
    cbsOf w'.log = [(2, e2), (1, e2)] := by
  obtain ⟨st, _, he2, _, hl, _, hfew, hrows⟩ := demo_setting
  obtain ⟨w0, w', h1, h2, h3, h4, h5, h6⟩ := add_callbacks st quiet .typed hl he2
    (add := [1]) (by simp) (by simp) (by decide +kernel) (by decide +kernel) [(1, 5)] hfew hrows
  refine ⟨w0, w', h1, h2, h3, h4, h5, ?_⟩
  rw [h6]
  decide +kernel

/-- **the lock hypothesis is necessary**: with all 64 lock bits outstanding (not a lawful state of
    an unlocked world: the 64-bit mask is zero but the bit pool is exhausted) `Remove` with a
    registered `OnRemoveComponents` observer panics "out of locks" -/
def lockExhausted : Lock := { pool := { length := 64 }, locks := 0#64 }

theorem lock_hypothesis_necessary :
    (wObs.withLocks lockExhausted).isLocked = false ∧ lockExhausted.lock = none ∧
    (match opRemove World.probe .typed e3 [0] (wObs.withLocks lockExhausted) with
     | .panic k _ => k == .outOfLocks
     | .ok _ _ => false) = true := by
  decide +kernel

/-- **read-only scripts are necessary** for "the rest of the world is what the observer-free
    operation produces": an `OnAddComponents` callback that creates (and removes) an entity — the
    `tryNew` probe; possible since addition callbacks run unlocked — leaves a different entity pool
    than the observer-free `Add` -/
def objsBad : AL ObsObj :=
  [ (1, { spec := { event := Ev.onAddComponents, comps := [1], script := [.tryNew] } }) ]

def wBad : World := regAll [1] { s0.w with obs := { objs := objsBad } }

theorem readOnly_necessary :
    (match opAdd World.probe .typed e2 [1] [(1, 5)] [] wBad,
           opAdd quiet .typed e2 [1] [(1, 5)] [] wBad.noObs with
     | .ok _ w', .ok _ w0 => decide (w'.pool = w0.pool)
     | _, _ => true) = false := by
  decide +kernel

end Demo

end Ark.Props.C08World
