import Ark.Generated.FactsEvents
import Ark.Proofs.Rejects
import Ark.Props.C08
import Ark.Props.C09World
import Ark.Props.C09Batch
import Ark.Props.C08Rel
import Ark.Props.C08Xchg

namespace Ark.Props.C09
open Ark

/-! C09 — observer callbacks see a consistent world at the documented time. -/

/-- T2 (regenerated from the source): in every operation that emits events, removal events are
    fired under the world lock BEFORE the first row mutation, addition events after the last one;
    single-entity operations release the lock before mutating (the caller's lock state holds for
    addition events), batch operations keep it until all events are fired; for batch operations
    all removal events precede all mutations and all addition events follow them
    (repaired defects D8 and D10). -/
theorem event_order_in_source : Generated.eventOrder = [
    ("World.remove", ["lock", "fireRemove", "unlock", "mutate"]),
    ("World.exchange", ["lock", "fireRemove", "unlock", "mutate"]),
    ("World.setRelations", ["lock", "fireRemove", "unlock", "mutate", "fireAdd"]),
    ("storage.RemoveEntity", ["lock", "fireRemove", "unlock", "mutate"]),
    ("World.exchangeBatch", ["lock", "fireRemove", "mutate", "fireAdd", "unlock"]),
    ("World.setRelationsBatch", ["lock", "fireRemove", "mutate", "fireAdd", "unlock"]),
    ("World.RemoveEntities", ["lock", "fireRemove", "mutate", "unlock"])] := by decide

/-- inside removal and batch callbacks the world is locked: structural operations are rejected without effect -/
theorem callbacks_cannot_change_structure_when_locked : type_of% @World.opNewEntity0_locked := @World.opNewEntity0_locked

/-- the callbacks that run are exactly the observers whose predicate holds -/
theorem callback_set_exact : type_of% @Ark.Props.C08.dispatch_independent_remove := @Ark.Props.C08.dispatch_independent_remove


/-! ### World level (Props/C09World): when callbacks run and what they see -/

/-- **C09** for `add`: all records of the notification round are functions of ONE world — the world AFTER the change, in the caller's lock state: the entity is alive with its new component set, others untouched (typed paths: values already written; `Unsafe`: added components still read zero) -/
theorem world_add_sees : type_of% @Ark.Props.C09World.add_sees := @Ark.Props.C09World.add_sees

/-- **C09** for `newEntity`: all records of the notification round are functions of ONE world — the world AFTER the change, in the caller's lock state: the entity is alive with its new component set, others untouched (typed paths: values already written; `Unsafe`: added components still read zero) -/
theorem world_newEntity_sees : type_of% @Ark.Props.C09World.newEntity_sees := @Ark.Props.C09World.newEntity_sees

/-- **C09** for `newEntity0`: all records of the notification round are functions of ONE world — the world AFTER the change, in the caller's lock state: the entity is alive with its new component set, others untouched (typed paths: values already written; `Unsafe`: added components still read zero) -/
theorem world_newEntity0_sees : type_of% @Ark.Props.C09World.newEntity0_sees := @Ark.Props.C09World.newEntity0_sees

/-- **C09** for `copyEntity`: all records of the notification round are functions of ONE world — the world AFTER the change, in the caller's lock state: the entity is alive with its new component set, others untouched (typed paths: values already written; `Unsafe`: added components still read zero) -/
theorem world_copyEntity_sees : type_of% @Ark.Props.C09World.copyEntity_sees := @Ark.Props.C09World.copyEntity_sees

/-- **C09** for `set`: all records of the notification round are functions of ONE world — the world AFTER the change, in the caller's lock state: the entity is alive with its new component set, others untouched (typed paths: values already written; `Unsafe`: added components still read zero) -/
theorem world_set_sees : type_of% @Ark.Props.C09World.set_sees := @Ark.Props.C09World.set_sees

/-- **C09** for `emit`: all records of the notification round are functions of ONE world — the world AFTER the change, in the caller's lock state: the entity is alive with its new component set, others untouched (typed paths: values already written; `Unsafe`: added components still read zero) -/
theorem world_emit_sees : type_of% @Ark.Props.C09World.emit_sees := @Ark.Props.C09World.emit_sees

/-- **C09** for `remove`: all records of the notification round are functions of ONE world — the world BEFORE the change with the lock held: the entity is alive, every entity's components and values are the old ones (those about to be removed are readable), structural operations are rejected, and every query sees the entity exactly once at its old row -/
theorem world_remove_sees : type_of% @Ark.Props.C09World.remove_sees := @Ark.Props.C09World.remove_sees

/-- **C09** for `removeEntity`: all records of the notification round are functions of ONE world — the world BEFORE the change with the lock held: the entity is alive, every entity's components and values are the old ones (those about to be removed are readable), structural operations are rejected, and every query sees the entity exactly once at its old row -/
theorem world_removeEntity_sees : type_of% @Ark.Props.C09World.removeEntity_sees := @Ark.Props.C09World.removeEntity_sees

/-- **C09** for `exchange`: all records of the notification round are functions of ONE world — removal round before, addition round after -/
theorem world_exchange_sees : type_of% @Ark.Props.C09World.exchange_sees := @Ark.Props.C09World.exchange_sees

/-- inside a removal callback the entity occurs exactly once in a query whose filter matches its old mask -/
theorem world_exact_visits_once : type_of% @Ark.Props.C09World.exact_visits_once := @Ark.Props.C09World.exact_visits_once

/-- … and not at all otherwise -/
theorem world_exact_visits_none : type_of% @Ark.Props.C09World.exact_visits_none := @Ark.Props.C09World.exact_visits_none

/-- the harness' `query` probe run inside a removal callback records the entity once -/
theorem world_query_probe_in_removal_callback : type_of% @Ark.Props.C09World.query_probe_in_removal_callback := @Ark.Props.C09World.query_probe_in_removal_callback

/-- the harness' `look` probes form a read-only, log-blind runner -/
theorem world_harness_runner : type_of% @Ark.Props.C09World.harness_runner := @Ark.Props.C09World.harness_runner


/-! ### Batches (Props/C09Batch): all removal callbacks before any entity is changed, all others after all are changed -/

/-- the early exit of the per-row firing loop (`found = false` on the first row) loses no callback -/
theorem batch_batch_idiom_loses_no_callback : type_of% @Ark.Props.C09Batch.batch_idiom_loses_no_callback := @Ark.Props.C09Batch.batch_idiom_loses_no_callback

/-- `NewBatch`: all creation callbacks run after all entities exist, on a locked world -/
theorem batch_newBatch_callbacks : type_of% @Ark.Props.C09Batch.newBatch_callbacks := @Ark.Props.C09Batch.newBatch_callbacks

/-- `RemoveEntities`: all removal callbacks run before any entity is removed, on a locked world -/
theorem batch_removeEntities_callbacks : type_of% @Ark.Props.C09Batch.removeEntities_callbacks := @Ark.Props.C09Batch.removeEntities_callbacks

/-- exchange batches: all removal callbacks on one world in which nothing has moved, then all moves, then all addition callbacks on one world in which everything has moved -/
theorem batch_exchangeBatch_callbacks : type_of% @Ark.Props.C09Batch.exchangeBatch_callbacks := @Ark.Props.C09Batch.exchangeBatch_callbacks


/-! ### What relation callbacks observe (Props/C08Rel) -/

/-- SetRelations: the OnRemoveRelations callbacks run before the move on a locked world and see the old targets (every entity-level observation — liveness, components, values, targets — is as before the call; the destination table may already have been found, recycled or created); the OnAddRelations callbacks see the new targets -/
theorem rel_setRelations_sees : type_of% @Ark.Props.C08Rel.setRelations_sees := @Ark.Props.C08Rel.setRelations_sees

/-- NewEntity with targets: callbacks see the created entity with its components, values and targets -/
theorem rel_newEntity_rel_sees : type_of% @Ark.Props.C08Rel.newEntity_rel_sees := @Ark.Props.C08Rel.newEntity_rel_sees

/-- Add with relation components: callbacks see the world after the change -/
theorem rel_add_rel_sees : type_of% @Ark.Props.C08Rel.add_rel_sees := @Ark.Props.C08Rel.add_rel_sees

/-- Remove of relation components: both rounds see the world before the change, under one lock -/
theorem rel_remove_rel_sees : type_of% @Ark.Props.C08Rel.remove_rel_sees := @Ark.Props.C08Rel.remove_rel_sees

/-- RemoveEntity: both rounds see the entity still alive with its components and targets -/
theorem rel_removeEntity_rel_sees : type_of% @Ark.Props.C08Rel.removeEntity_rel_sees := @Ark.Props.C08Rel.removeEntity_rel_sees

/-- all records of one round are functions of one world -/
theorem rel_round_log_blind : type_of% @Ark.Props.C08Rel.round_log_blind := @Ark.Props.C08Rel.round_log_blind



/-! ### What the callbacks of Exchange observe, with relations (Props/C08Xchg) -/

/-- Exchange: both removal rounds run on ONE world — locked, every entity with its components, values, targets and liveness as before the call —, both addition rounds on ONE world after the move (typed paths: values written; Unsafe: added components still zero), in the final lock state -/
theorem xrel_exchange_sees : type_of% @Ark.Props.C08Xchg.exchange_sees := @Ark.Props.C08Xchg.exchange_sees

/-- the lock taken for the removal rounds is released before the move -/
theorem xrel_exchange_unlocked_after : type_of% @Ark.Props.C08Xchg.exchange_unlocked_after := @Ark.Props.C08Xchg.exchange_unlocked_after


end Ark.Props.C09
