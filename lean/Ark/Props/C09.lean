import Ark.Generated.FactsEvents
import Ark.Proofs.Rejects
import Ark.Props.C08

namespace Ark.Props.C09
open Ark

/-! C09 — observer callbacks see a consistent world at the documented time. -/

/-- T2 (regenerated from the source): in every operation that emits events, removal events are
    fired under the world lock BEFORE the first row mutation, addition events after the last one;
    single-entity operations release the lock before mutating (the caller's lock state holds for
    addition events), batch operations keep it until all events are fired; for batch operations
    all removal events precede all mutations and all addition events follow them
    (repaired defects D8 and D10). -/
theorem event_order_in_source : Generated.eventOrder = [
    ("World.remove", ["lock", "fireRemove", "unlock", "mutate"]),
    ("World.exchange", ["lock", "fireRemove", "unlock", "mutate"]),
    ("World.setRelations", ["lock", "fireRemove", "unlock", "mutate", "fireAdd"]),
    ("storage.RemoveEntity", ["lock", "fireRemove", "unlock", "mutate"]),
    ("World.exchangeBatch", ["lock", "fireRemove", "mutate", "fireAdd", "unlock"]),
    ("World.setRelationsBatch", ["lock", "fireRemove", "mutate", "fireAdd", "unlock"]),
    ("World.RemoveEntities", ["lock", "fireRemove", "mutate", "unlock"])] := by decide

/-- inside removal and batch callbacks the world is locked: structural operations are rejected without effect -/
theorem callbacks_cannot_change_structure_when_locked : type_of% @World.opNewEntity0_locked := @World.opNewEntity0_locked

/-- the callbacks that run are exactly the observers whose predicate holds -/
theorem callback_set_exact : type_of% @Ark.Props.C08.dispatch_independent_remove := @Ark.Props.C08.dispatch_independent_remove

end Ark.Props.C09
