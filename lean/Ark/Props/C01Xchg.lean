/-
  Ark.Props.C01Xchg — C01 (faithful store), C04 (relation targets stay consistent): `Exchange` in
  worlds WITH relation components.

  §1 world level (proofs: Ark/Proofs/RelExchange.lean, RelExchangeSpec.lean, RelExchangeOp.lean).
  From any world satisfying the joint invariant `TInv` (unlocked, no observers), for a live entity
  `e` (ID inside the pool slice: `hsl`; target IDs inside the pool slice: `htin` — both hold for
  every handle a client was given, see §2), `Exchange(e, add, rem, rels)` writing `vals` through any access path the model offers
  (`Unsafe.Exchange`, `ExchangeN.Exchange`):

  * `exchange_accepted` — when the documented preconditions `XchgPre` hold (not both lists empty;
    `rem` distinct components of `e`; `add` distinct registered components `e` lacks; `rels` names
    exactly the relation components among `add`, none twice, with zero or alive targets) the call
    succeeds, and `XchgRelPost`: `TInv` is kept; `e` has the components `(current \ rem) ∪ add`; a
    kept component holds its old value overwritten by the last write to it, an added one the last
    value written to it (zero if none); added relation components have the targets given, kept ones
    keep theirs, removed components are gone with their targets, `e` has no other target; no other
    entity changes components, values or targets;
  * `exchange_rejected_dead`, `exchange_rejected_empty`, `exchange_rejected_misfit`,
    `exchange_rejected_badRel` — a call violating a precondition on the entity or the component
    lists, or naming a dead target / a non-relation component / (through `ExchangeN` and
    `Unsafe.Exchange`) a component not added, is refused with the world unchanged, on every path;
  * `exchange_accepted_only_if` — an accepted call was on a live entity with fitting lists.

  (Since the repair of the `Unsafe` API all paths validate their relation arguments first.  What is
  still refused only by `GetTable` / `createTable`, after the archetype was created — refused, not
  without effect —, is a relation component of the new archetype without a relation and a relation
  component named twice, as for `Add` and `NewEntity`, on every path.)

  §2 over histories (proofs: Ark/Proofs/RelExchangeMachine.lean, RelExchangeHist.lean).  The machine
  `Ark.RelRefine3`: `Op3 = base2 (op : Op2) | xchg p e add vals rem rels` on top of the machine of
  Ark/Props/C05Rel.lean / C01Rel.lean (entity operations with relations, `CopyEntity`, `Shrink`,
  `Reset`, filter operations, queries).  Bound `ops.length < 2^16`; `Reset` may occur anywhere in the
  history (as there, since the pool link no longer demands an empty memory behind the pool slice).

  * `refines`, `alive_iff_specified` — the refinement statement of C01Rel for the extended machine;
  * `xchg_keeps_invariant` — the step keeps `HInv2` (⊇ `TInv`, refinement, cache invariant);
  * `xchg_rejected` / `xchg_accepted` — an `xchg` step (guard: a handle the client holds, registered
    components to add, a relation list naming no relation component twice and every relation
    component added — `RelsStep` —, expressible targets; dead targets, relations on non-relation
    components and on components that are not added included, on every path since the repair of
    the `Unsafe` API) whose precondition `preXchg` (a statement about the specification only) fails is
    rejected with the whole machine state unchanged; one whose precondition holds succeeds;
  * `xchg_effect`, `xchg_entry`, `xchg_others` — the entity gets exactly the entry `xchgEntry`
    (C01: components, values; C04: targets), nobody else's entry changes;
  * `cached_agrees` — C05 at every reachable state of the extended machine.

  §3 the exchange batch over relation tables (C06; proofs: Ark/Proofs/RelExchangeLookup.lean,
  RelExchangeBatch.lean, RelExchangeBatchLoops.lean, RelExchangeBatchSpec.lean).  `exchangeBatch` with
  callback `nil`, no observers, an uncached filter with typed relation constraints, in a `TInv` world:

  * `batch_normal_form_planFirst` — table selection, lookup loop, `Lock`, move loop, `Unlock`: the
    order in which the batch runs since the repair of defect D27 (the lock is taken only after the
    lookup loop, so that a panic of that loop leaves the lock state as it was:
    `batch_lookup_panic`, and Ark/Props/C07Batch.lean); `batch_normal_form` — `Lock`, table
    selection, lookup loop, move loop, `Unlock` (the order before the repair): still an equation
    of the operation when the lookup loop succeeds, because selection and lookup loop neither
    read nor write the lock; the specifications below are proved from it;
  * `batch_spec` — for a valid call (`XchgPreM` on the mask of every non-empty selected table) the
    batch never fails, keeps `TInv`, and every entity in the rows of the selected tables gets
    `Exchange(add, rem, rels)` (`XchgAllPost`); nobody else changes;
  * `singles_spec` — so does `Exchange` applied one by one, in any order, through any access path;
  * `batch_eq_fold` — the batch selects exactly the alive matching entities, and batch and singles
    (ANY order) give the same liveness, components, values and relation targets for every ID.
  Several source tables may share a destination (when the relation components in which they differ
  are removed) — see the example.
-/
import Ark.Proofs.RelExchangeHist
import Ark.Proofs.RelExchangeBatchSpec
import Ark.Props.C06Rel
import Ark.Props.C04World
import Ark.Props.C01Rel

set_option autoImplicit false

namespace Ark.Props.C01Xchg
open Ark Ark.World Ark.Props.C01World

/-! ## 1. world level -/

/-- **`Exchange` with relations, accepted**: see the header -/
theorem exchange_accepted (run : ProbeRunner) (p : Path) {w : World} {fl : List Nat}
    (h : TInv w fl) (hl : w.isLocked = false) (hno : ∀ (evt : Nat), w.obs.hasObservers evt = false)
    {e : Ent} (h2 : 2 ≤ e.id) (hnf : e.id ∉ fl) (ha : w.alive e = true)
    (hsl : e.id < w.pool.ents.length) {add rem : List Comp}
    {rels : List RelID} (hp : XchgPre w e add rem rels) (vals : List (Comp × Val))
    (htin : ∀ (r : RelID), r ∈ rels → r.target.id < w.pool.ents.length)
    (hfew : w.tables.length < maxU32) (hrows : w.entities.length + 1 < 2 ^ 32) :
    ∃ (w' : World), opExchange run p e add vals rem rels w = .ok () w' ∧
      XchgRelPost w fl e add rem vals rels w' :=
  opExchange_rel_spec run p h hl hno h2 hnf ha hsl hp vals htin hfew hrows

/-- `World.exchange` itself (before the values are written): never fails, returns the old and the
    new mask -/
theorem exchange_core (run : ProbeRunner) {w : World} {fl : List Nat} (h : TInv w fl)
    (hl : w.isLocked = false) (hno : ∀ (evt : Nat), w.obs.hasObservers evt = false) {e : Ent}
    (h2 : 2 ≤ e.id) (hnf : e.id ∉ fl) (ha : w.alive e = true) (hsl : e.id < w.pool.ents.length)
    {add rem : List Comp} {rels : List RelID} (hp : XchgPre w e add rem rels)
    (htin : ∀ (r : RelID), r ∈ rels → r.target.id < w.pool.ents.length)
    (hfew : w.tables.length < maxU32) (hrows : w.entities.length + 1 < 2 ^ 32) :
    ∃ (w' : World),
      exchangeCore run e add rem rels w =
        .ok (w.maskOf e, add.foldl Mask.set (rem.foldl Mask.clear (w.maskOf e))) w' ∧
      XchgCorePost w fl e add rem rels w' :=
  exchangeCore_rel_spec run h hl hno h2 hnf ha hsl hp htin hfew hrows

/-- **rejected**: a dead handle, on any path, whatever the other arguments -/
theorem exchange_rejected_dead (run : ProbeRunner) (p : Path) (e : Ent) (add : List Comp)
    (vals : List (Comp × Val)) (rem : List Comp) (rels : List RelID) (w : World)
    (hl : w.isLocked = false) (hd : w.alive e = false) :
    ∃ (k : PanicKind), opExchange run p e add vals rem rels w = .panic k w :=
  opExchange_rel_dead run p e add vals rem rels w hl hd

/-- **rejected**: both component lists empty -/
theorem exchange_rejected_empty (run : ProbeRunner) (p : Path) (e : Ent) (vals : List (Comp × Val))
    (rels : List RelID) (w : World) (hl : w.isLocked = false) :
    ∃ (k : PanicKind), opExchange run p e [] vals [] rels w = .panic k w :=
  opExchange_rel_empty run p e vals rels w hl

/-- **rejected**: `rem ⊄ current`, `add ∩ current ≠ ∅`, or a component named twice -/
theorem exchange_rejected_misfit (run : ProbeRunner) (p : Path) (e : Ent) (add : List Comp)
    (vals : List (Comp × Val)) (rem : List Comp) (rels : List RelID) (w : World)
    (hl : w.isLocked = false) (hb : ∀ (c : Comp), c ∈ add → c < 256)
    (h : ¬ (rem.Nodup ∧ (∀ (c : Comp), c ∈ rem → (w.maskOf e).get c = true) ∧ add.Nodup ∧
      ∀ (c : Comp), c ∈ add → (w.maskOf e).get c = false)) :
    ∃ (k : PanicKind), opExchange run p e add vals rem rels w = .panic k w :=
  opExchange_rel_misfit run p e add vals rem rels w hl hb h

/-- **rejected** (every path, since the repair of the `Unsafe` API): a dead target, a relation on
    a non-relation component, through `ExchangeN` and `Unsafe.Exchange` a relation on a component
    that is not added -/
theorem exchange_rejected_badRel (run : ProbeRunner) (p : Path) (e : Ent)
    (add : List Comp) (vals : List (Comp × Val)) (rem : List Comp) (rels : List RelID) (w : World)
    (hl : w.isLocked = false)
    (hbad : ∃ (r : RelID), r ∈ rels ∧
      ((r.target.isZero = false ∧ w.alive r.target = false) ∨ w.isRelComp r.comp = false ∨
        (p ≠ .map1 ∧ (Mask.ofList add).get r.comp = false))) :
    ∃ (k : PanicKind), opExchange run p e add vals rem rels w = .panic k w :=
  opExchange_rel_badRel run p e add vals rem rels w hl hbad

/-- **accepted only if** the entity is alive and the component lists fit -/
theorem exchange_accepted_only_if (run : ProbeRunner) (p : Path) (e : Ent) (add : List Comp)
    (vals : List (Comp × Val)) (rem : List Comp) (rels : List RelID) (w : World)
    (hl : w.isLocked = false) (hb : ∀ (c : Comp), c ∈ add → c < 256) {w' : World}
    (hok : opExchange run p e add vals rem rels w = .ok () w') :
    w.alive e = true ∧ ¬ (add = [] ∧ rem = []) ∧ rem.Nodup ∧
      (∀ (c : Comp), c ∈ rem → (w.maskOf e).get c = true) ∧ add.Nodup ∧
      ∀ (c : Comp), c ∈ add → (w.maskOf e).get c = false :=
  opExchange_rel_accepted run p e add vals rem rels w hl hb hok

/-! ### non-vacuity: a world with two relation components -/

open Ark.Props.C04World (noRun summary)

/-- components: 0 = `ChildOf` (relation), 1 = `Pos`, 2 = `Vel`, 3 = `Likes` (relation) -/
def x0 : World :=
  let w := World.init 2 2
  let w := (registerComponent { isRel := true } w).state
  let w := (registerComponent {} w).state
  let w := (registerComponent {} w).state
  (registerComponent { isRel := true } w).state

def q1 : Ent := ⟨2, 0⟩
def q2 : Ent := ⟨3, 0⟩
def c4 : Ent := ⟨4, 0⟩
def c5 : Ent := ⟨5, 0⟩

def x1 : World := (opNewEntity noRun .unsafe_ [] [] [] x0).state                   -- q1
def x2 : World := (opNewEntity noRun .unsafe_ [] [] [] x1).state                   -- q2
def x3 : World := (opNewEntity noRun .typed [0, 1] [(1, 7)] [⟨0, q1⟩] x2).state    -- c4, child of q1
def x4 : World := (opNewEntity noRun .typed [0, 1] [(1, 8)] [⟨0, q1⟩] x3).state    -- c5, child of q1
/-- `Exchange(c4, add = [Vel, Likes], rem = [Pos], Likes → q2)`, writing `Vel := 9` -/
def x5 : World := (opExchange noRun .typed c4 [2, 3] [(2, 9)] [1] [⟨3, q2⟩] x4).state
/-- `Exchange(c4, add = [Pos], rem = [ChildOf, Vel])` through `Unsafe`: a relation is removed, one
    stays -/
def x6 : World := (opExchange noRun .unsafe_ c4 [1] [(1, 3)] [0, 2] [] x5).state

theorem good_x0 : Good x0 :=
  ((((good_init 2 2).registerComponent _ (by decide +kernel)).registerComponent _
    (by decide +kernel)).registerComponent _ (by decide +kernel)).registerComponent _
    (by decide +kernel)

theorem good_x1 : Good x1 :=
  good_x0.newEntity noRun .unsafe_ (by decide +kernel) (by decide +kernel) (by decide +kernel)
    (by decide +kernel) (by decide +kernel) (by decide +kernel) (by decide +kernel) (by decide +kernel)

theorem good_x2 : Good x2 :=
  good_x1.newEntity noRun .unsafe_ (by decide +kernel) (by decide +kernel) (by decide +kernel)
    (by decide +kernel) (by decide +kernel) (by decide +kernel) (by decide +kernel) (by decide +kernel)

theorem good_x3 : Good x3 :=
  good_x2.newEntity noRun .typed (by decide +kernel) (by decide +kernel) (by decide +kernel)
    (by decide +kernel) (by decide +kernel) (by decide +kernel) (by decide +kernel) (by decide +kernel)

theorem good_x4 : Good x4 :=
  good_x3.newEntity noRun .typed (by decide +kernel) (by decide +kernel) (by decide +kernel)
    (by decide +kernel) (by decide +kernel) (by decide +kernel) (by decide +kernel) (by decide +kernel)

/-- the preconditions hold for the first exchange … -/
theorem pre_x4 : XchgPre x4 c4 [2, 3] [1] [⟨3, q2⟩] :=
  ⟨by decide +kernel, by decide +kernel, by decide +kernel, by decide +kernel, by decide +kernel,
    by decide +kernel, by decide +kernel, by decide +kernel, by decide +kernel, by decide +kernel,
    by decide +kernel⟩

/-- … so the theorem applies: no panic, and the invariant holds again -/
theorem good_x5 : panicOf (opExchange noRun .typed c4 [2, 3] [(2, 9)] [1] [⟨3, q2⟩] x4) = none ∧
    Good x5 :=
  good_x4.exchange noRun .typed (by decide +kernel) (by decide +kernel) (by decide +kernel) pre_x4
    _ (by decide +kernel) (by decide +kernel) (by decide +kernel)

theorem pre_x5 : XchgPre x5 c4 [1] [0, 2] [] :=
  ⟨by decide +kernel, by decide +kernel, by decide +kernel, by decide +kernel, by decide +kernel,
    by decide +kernel, by decide +kernel, by decide +kernel, by decide +kernel, by decide +kernel,
    by decide +kernel⟩

theorem good_x6 : panicOf (opExchange noRun .unsafe_ c4 [1] [(1, 3)] [0, 2] [] x5) = none ∧
    Good x6 :=
  good_x5.2.exchange noRun .unsafe_ (by decide +kernel) (by decide +kernel) (by decide +kernel)
    pre_x5 _ (by decide +kernel) (by decide +kernel) (by decide +kernel)

/-- what the theorem says, observed: before / after the first / after the second exchange -/
example :
    (compsOf x4 4, valOf x4 4 1, targetOf x4 4 0, targetOf x4 4 3) =
      (some [0, 1], some 7, some q1, none) ∧
    (compsOf x5 4, valOf x5 4 1, valOf x5 4 2, targetOf x5 4 0, targetOf x5 4 3) =
      (some [0, 2, 3], none, some 9, some q1, some q2) ∧
    (compsOf x6 4, valOf x6 4 1, valOf x6 4 2, targetOf x6 4 0, targetOf x6 4 3) =
      (some [1, 3], some 3, none, none, some q2) ∧
    -- the sibling never changes
    (compsOf x6 5, valOf x6 5 1, targetOf x6 5 0) = (some [0, 1], some 8, some q1) := by
  refine ⟨?_, ?_, ?_, ?_⟩ <;> decide +kernel

/-- the rejections, observed (tables and archetypes unchanged): dead handle; both lists empty; removing an absent
    component; adding a present one; adding and removing the same; a dead target and a non-relation
    component through `ExchangeN`, and — since the repair of the `Unsafe` API — through
    `Unsafe.Exchange` (next example) -/
example :
    summary (opExchange noRun .typed ⟨9, 0⟩ [2] [] [] [] x4).state = summary x4 ∧
    panicOf (opExchange noRun .unsafe_ ⟨9, 0⟩ [2] [] [] [] x4) = some .deadEntity ∧
    panicOf (opExchange noRun .typed c4 [] [] [] [] x4) = some .noComponents ∧
    panicOf (opExchange noRun .typed c4 [] [] [2] [] x4) = some .missing ∧
    panicOf (opExchange noRun .typed c4 [1] [] [] [] x4) = some .alreadyHas ∧
    panicOf (opExchange noRun .typed c4 [1] [] [1] [] x4) = some .addedAndRemoved ∧
    panicOf (opExchange noRun .typed c4 [3] [] [] [⟨3, ⟨9, 0⟩⟩] x4) = some .deadTarget ∧
    panicOf (opExchange noRun .typed c4 [2] [] [] [⟨2, q2⟩] x4) = some .notRelation ∧
    (summary (opExchange noRun .typed c4 [3] [] [] [⟨3, ⟨9, 0⟩⟩] x4).state,
      (opExchange noRun .typed c4 [3] [] [] [⟨3, ⟨9, 0⟩⟩] x4).state.archetypes.length) =
      (summary x4, x4.archetypes.length) := by
  refine ⟨?_, ?_, ?_, ?_, ?_, ?_, ?_, ?_, ?_⟩ <;> decide +kernel

/-- REPAIRED (`Unsafe.Exchange` validates its relation arguments like `ExchangeN.Exchange`): a
    dead target, a non-relation component, a relation on a component that is not added — refused
    with the classes of the typed path, tables and archetypes unchanged.  (Before the repair the
    first two were caught by `createTable` after the archetype had been created, and the third
    was silently ignored when the new archetype had no relation component.) -/
example :
    panicOf (opExchange noRun .unsafe_ c4 [3] [] [] [⟨3, ⟨9, 0⟩⟩] x4) = some .deadTarget ∧
    panicOf (opExchange noRun .unsafe_ c4 [2] [] [] [⟨2, q2⟩] x4) = some .notRelation ∧
    panicOf (opExchange noRun .unsafe_ c4 [2] [] [] [⟨3, q2⟩] x4) = some .relNotInMask ∧
    panicOf (opExchange noRun .unsafe_ c4 [] [] [1] [⟨3, q2⟩] x4) = some .relNotInMask ∧
    (summary (opExchange noRun .unsafe_ c4 [3] [] [] [⟨3, ⟨9, 0⟩⟩] x4).state,
      (opExchange noRun .unsafe_ c4 [3] [] [] [⟨3, ⟨9, 0⟩⟩] x4).state.archetypes.length) =
      (summary x4, x4.archetypes.length) ∧
    (summary (opExchange noRun .unsafe_ c4 [2] [] [] [⟨2, q2⟩] x4).state,
      (opExchange noRun .unsafe_ c4 [2] [] [] [⟨2, q2⟩] x4).state.archetypes.length) =
      (summary x4, x4.archetypes.length) ∧
    (summary (opExchange noRun .unsafe_ c4 [2] [] [] [⟨3, q2⟩] x4).state,
      (opExchange noRun .unsafe_ c4 [2] [] [] [⟨3, q2⟩] x4).state.archetypes.length) =
      (summary x4, x4.archetypes.length) := by
  refine ⟨?_, ?_, ?_, ?_, ?_, ?_, ?_⟩ <;> decide +kernel

/-- the hypotheses of the rejection theorems are satisfiable -/
example :
    x4.alive ⟨9, 0⟩ = false ∧
    ¬ (([2] : List Comp).Nodup ∧ (∀ (c : Comp), c ∈ [2] → (x4.maskOf c4).get c = true) ∧
      ([] : List Comp).Nodup ∧ ∀ (c : Comp), c ∈ ([] : List Comp) → (x4.maskOf c4).get c = false) ∧
    (∃ (r : RelID), r ∈ [(⟨3, ⟨9, 0⟩⟩ : RelID)] ∧
      ((r.target.isZero = false ∧ x4.alive r.target = false) ∨ x4.isRelComp r.comp = false ∨
        (Path.typed ≠ .map1 ∧ (Mask.ofList [3]).get r.comp = false))) ∧
    (∃ (r : RelID), r ∈ [(⟨3, q2⟩ : RelID)] ∧
      ((r.target.isZero = false ∧ x4.alive r.target = false) ∨ x4.isRelComp r.comp = false ∨
        (Path.unsafe_ ≠ .map1 ∧ (Mask.ofList [2]).get r.comp = false))) := by
  refine ⟨?_, ?_, ?_, ?_⟩ <;> decide +kernel

/-- **finding** (as for `Add` / `NewEntity`; on every path, not touched by the repair of the
    `Unsafe` API): a relation component that is added without a relation for it is refused only
    after the archetype was created — here a missing target for the added relation component
    `Likes`: the call panics and leaves a new archetype behind -/
example :
    panicOf (opExchange noRun .unsafe_ c4 [3] [] [] [] x4) = some .relUnspecified ∧
    (x4.archetypes.length, (opExchange noRun .unsafe_ c4 [3] [] [] [] x4).state.archetypes.length) =
      (2, 3) := by
  refine ⟨?_, ?_⟩ <;> decide +kernel

/-! ## 2. over histories: `Exchange` as a step of the relation machine -/

section Hist
open Ark.RelRefine Ark.RelRefine2 Ark.RelRefine3 Ark.QueryRel Ark.QueryExact
open Ark.Refine (Comps keys sortedIds)

variable (run : ProbeRunner) (cap rel : Nat)

/-- **the step keeps the invariant** `HInv2` (⊇ `RelRefine.HInv` ⊇ `TInv`, and the filter-side
    invariant), creates at most one table and one relation archetype; rejected without effect when
    the precondition fails; accepted when it holds -/
theorem xchg_keeps_invariant {s : St} {fl : List Nat} (H : HInv2 s fl)
    (hfew : s.w.tables.length < maxU32) (hent : s.w.entities.length + 1 < 2 ^ 32)
    (p : Path) (e : Ent) (add : List Comp) (vals : Comps) (rem : List Comp) (rels : Rels) :
    (∃ fl', HInv2 (step3 run s (.xchg p e add vals rem rels)) fl') ∧
    Grows s (step3 run s (.xchg p e add vals rem rels)) ∧
    (guardXchg s p e add rels = true → ¬ preXchg s.ss e add rem rels →
      ∃ k, opExchange run p e add vals rem rels s.w = .panic k s.w) ∧
    (guardXchg s p e add rels = true → preXchg s.ss e add rem rels →
      ∃ w', opExchange run p e add vals rem rels s.w = .ok () w') :=
  step3_xchg run H hfew hent p e add vals rem rels

/-- the invariant at every reachable state (`Reset` included) -/
theorem reach_inv (ops : List Op3) (hlen : ops.length < 2 ^ 16)
    : ∃ fl, HInv2 (reach3 run cap rel ops) fl :=
  reach3_inv run cap rel ops hlen

/-- **refines** — after every history with `Exchange` (and `Reset`), every entry `(e, en)` of the
    specification is realised by the world: alive, component set, values, relation targets -/
theorem refines (ops : List Op3) (hlen : ops.length < 2 ^ 16)
    (e : Ent) (en : Entry)
    (hm : (e, en) ∈ (reach3 run cap rel ops).ss.ents) :
    (reach3 run cap rel ops).w.alive e = true ∧
    compsOf (reach3 run cap rel ops).w e.id =
      some (sortedIds (reach3 run cap rel ops).w.kinds.length (keys en.comps)) ∧
    (∀ cv ∈ en.comps, valOf (reach3 run cap rel ops).w e.id cv.1 = some cv.2) ∧
    (∀ r ∈ en.rels, targetOf (reach3 run cap rel ops).w e.id r.comp = some r.target) ∧
    (keys en.comps).Nodup ∧ (en.rels.map (·.comp)).Nodup ∧
    (∀ c : Comp, c ∈ en.rels.map (·.comp) ↔
      c ∈ keys en.comps ∧ (reach3 run cap rel ops).w.isRelComp c = true) :=
  refines3 run cap rel ops hlen e en hm

theorem alive_iff_specified (ops : List Op3) (hlen : ops.length < 2 ^ 16)
    (h : Ent)
    (hi : h ∈ (reach3 run cap rel ops).issued) :
    (reach3 run cap rel ops).w.alive h = true ↔
      (find (reach3 run cap rel ops).ss.ents h).isSome = true :=
  alive_iff_specified3 run cap rel ops hlen h hi

/-- a history without `xchg` is a history of the machine of C05Rel / C01Rel -/
theorem conservative (ops : List Op2) :
    reach3 run cap rel (ops.map .base2) = reach2 run cap rel ops :=
  reach3_base2 run cap rel ops

/-- **rejected** — see the header -/
theorem xchg_rejected (ops : List Op3) (hlen : ops.length + 1 < 2 ^ 16)
    (p : Path) (e : Ent) (add : List Comp) (vals : Comps)
    (rem : List Comp) (rels : Rels)
    (hg : guardXchg (reach3 run cap rel ops) p e add rels = true)
    (hnp : ¬ preXchg (reach3 run cap rel ops).ss e add rem rels) :
    (∃ k, opExchange run p e add vals rem rels (reach3 run cap rel ops).w =
      .panic k (reach3 run cap rel ops).w) ∧
    reach3 run cap rel (ops ++ [.xchg p e add vals rem rels]) = reach3 run cap rel ops :=
  RelRefine3.xchg_rejected run cap rel ops hlen p e add vals rem rels hg hnp

/-- **accepted** — see the header -/
theorem xchg_accepted (ops : List Op3) (hlen : ops.length + 1 < 2 ^ 16)
    (p : Path) (e : Ent) (add : List Comp) (vals : Comps)
    (rem : List Comp) (rels : Rels)
    (hg : guardXchg (reach3 run cap rel ops) p e add rels = true)
    (hp : preXchg (reach3 run cap rel ops).ss e add rem rels) :
    ∃ w', opExchange run p e add vals rem rels (reach3 run cap rel ops).w = .ok () w' :=
  RelRefine3.xchg_accepted run cap rel ops hlen p e add vals rem rels hg hp

/-- the entry of `e` after an accepted `xchg` -/
theorem xchg_entry (ops : List Op3) (p : Path) (e : Ent) (add : List Comp) (vals : Comps)
    (rem : List Comp) (rels : Rels) {en : Entry}
    (hg : guardXchg (reach3 run cap rel ops) p e add rels = true)
    (hf : find (reach3 run cap rel ops).ss.ents e = some en)
    (hok : XchgOK (reach3 run cap rel ops).ss en add rem rels) :
    find (reach3 run cap rel (ops ++ [.xchg p e add vals rem rels])).ss.ents e =
      some (xchgEntry (reach3 run cap rel ops).ss.zst add vals rem rels en) ∧
    (reach3 run cap rel (ops ++ [.xchg p e add vals rem rels])).issued =
      (reach3 run cap rel ops).issued :=
  RelRefine3.xchg_entry run cap rel ops p e add vals rem rels hg hf hok

/-- **frame** — an `xchg` on `e` never changes another entity's entry -/
theorem xchg_others (ops : List Op3) (p : Path) (e : Ent) (add : List Comp) (vals : Comps)
    (rem : List Comp) (rels : Rels) {x : Ent} (hx : x ≠ e) :
    find (reach3 run cap rel (ops ++ [.xchg p e add vals rem rels])).ss.ents x =
      find (reach3 run cap rel ops).ss.ents x :=
  RelRefine3.xchg_others run cap rel ops p e add vals rem rels hx

/-- **the effect of an accepted `Exchange`** over histories -/
theorem xchg_effect (ops : List Op3) (hlen : ops.length + 1 < 2 ^ 16)
    (p : Path) (e : Ent) (add : List Comp) (vals : Comps)
    (rem : List Comp) (rels : Rels) {en : Entry}
    (hg : guardXchg (reach3 run cap rel ops) p e add rels = true)
    (hf : find (reach3 run cap rel ops).ss.ents e = some en)
    (hok : XchgOK (reach3 run cap rel ops).ss en add rem rels) :
    let s' := reach3 run cap rel (ops ++ [.xchg p e add vals rem rels])
    let en' := xchgEntry (reach3 run cap rel ops).ss.zst add vals rem rels en
    s'.w.alive e = true ∧
    compsOf s'.w e.id = some (sortedIds s'.w.kinds.length
      (((keys en.comps).filter fun c => decide (c ∉ rem)) ++ add)) ∧
    (∀ cv ∈ en'.comps, valOf s'.w e.id cv.1 = some cv.2) ∧
    (∀ r ∈ en'.rels, targetOf s'.w e.id r.comp = some r.target) :=
  RelRefine3.xchg_effect run cap rel ops hlen p e add vals rem rels hg hf hok

/-- the cache invariant at every reachable state of the extended machine -/
theorem cacheInv (ops : List Op3) (hlen : ops.length < 2 ^ 16)
    : CacheInv (reach3 run cap rel ops).w :=
  reach3_cacheInv run cap rel ops hlen

end Hist

/-! ### non-vacuity: the worlds of §1 as a history -/

open Ark.RelRefine Ark.RelRefine2 Ark.RelRefine3 in
/-- the history behind `x4`, then the two exchanges of §1, a `Shrink`, and a rejected exchange -/
def demoOps : List Op3 :=
  [.base2 (.base (.reg 8 false true)), .base2 (.base (.reg 8 false false)),
   .base2 (.base (.reg 8 false false)), .base2 (.base (.reg 8 false true)),
   .base2 (.base (.new .unsafe_ [] [] [])), .base2 (.base (.new .unsafe_ [] [] [])),
   .base2 (.base (.new .typed [0, 1] [(1, 7)] [⟨0, q1⟩])),
   .base2 (.base (.new .typed [0, 1] [(1, 8)] [⟨0, q1⟩])),
   .xchg .typed c4 [2, 3] [(2, 9)] [1] [⟨3, q2⟩],
   .xchg .unsafe_ c4 [1] [(1, 3)] [0, 2] [],
   .base2 (.shrink false),
   .xchg .typed c4 [1] [] [] []]

open Ark.RelRefine Ark.RelRefine2 Ark.RelRefine3 Ark.Refine in
/-- guard and precondition hold for the two exchanges (steps 9 and 10); the last one (adding a
    component the entity has) is a step whose precondition fails; the specification at the end;
    the model agrees with it entry by entry -/
example :
    guardXchg (reach3 C04World.noRun 2 2 (demoOps.take 8)) .typed c4 [2, 3] [⟨3, q2⟩] = true ∧
    (find (reach3 C04World.noRun 2 2 (demoOps.take 8)).ss.ents c4 = some ⟨[(0, 0), (1, 7)], [⟨0, q1⟩]⟩ ∧
      XchgOK (reach3 C04World.noRun 2 2 (demoOps.take 8)).ss ⟨[(0, 0), (1, 7)], [⟨0, q1⟩]⟩ [2, 3] [1]
        [⟨3, q2⟩]) ∧
    guardXchg (reach3 C04World.noRun 2 2 (demoOps.take 9)) .unsafe_ c4 [1] [] = true ∧
    (find (reach3 C04World.noRun 2 2 (demoOps.take 9)).ss.ents c4 =
        some ⟨[(0, 0), (2, 9), (3, 0)], [⟨0, q1⟩, ⟨3, q2⟩]⟩ ∧
      XchgOK (reach3 C04World.noRun 2 2 (demoOps.take 9)).ss ⟨[(0, 0), (2, 9), (3, 0)], [⟨0, q1⟩, ⟨3, q2⟩]⟩
        [1] [0, 2] []) ∧
    guardXchg (reach3 C04World.noRun 2 2 (demoOps.take 11)) .typed c4 [1] [] = true ∧
    ¬ XchgOK (reach3 C04World.noRun 2 2 (demoOps.take 11)).ss ⟨[(3, 0), (1, 3)], [⟨3, q2⟩]⟩ [1] [] [] ∧
    (reach3 C04World.noRun 2 2 demoOps).ss.ents =
      [(c5, ⟨[(0, 0), (1, 8)], [⟨0, q1⟩]⟩), (c4, ⟨[(3, 0), (1, 3)], [⟨3, q2⟩]⟩), (q2, ⟨[], []⟩),
       (q1, ⟨[], []⟩)] ∧
    Ark.Props.C01Rel.agrees (reach3 C04World.noRun 2 2 demoOps) = true ∧
    (demoOps.all fun op => !op.isReset) = true := by
  refine ⟨?_, ⟨?_, ?_⟩, ?_, ⟨?_, ?_⟩, ?_, ?_, ?_, ?_, ?_⟩ <;> decide +kernel

open Ark.RelRefine Ark.RelRefine2 Ark.RelRefine3 Ark.Refine in
/-- REPAIRED `Unsafe.Exchange`: in the state after step 9, a relation on a component that is not
    added, a relation on a non-relation component and a pure removal with a relation are steps of
    the machine whose precondition fails — rejected, the specification and the tables unchanged
    (`xchg_rejected`).  (Before the repair they were not steps: `Unsafe` noticed them in
    `createTable`, after the archetype had been created, or not at all.) -/
example :
    guardXchg (reach3 C04World.noRun 2 2 (demoOps.take 9)) .unsafe_ c4 [1] [⟨0, q2⟩] = true ∧
    guardXchg (reach3 C04World.noRun 2 2 (demoOps.take 9)) .unsafe_ c4 [1] [⟨1, q2⟩] = true ∧
    guardXchg (reach3 C04World.noRun 2 2 (demoOps.take 9)) .unsafe_ c4 [] [⟨3, q1⟩] = true ∧
    ¬ XchgOK (reach3 C04World.noRun 2 2 (demoOps.take 9)).ss ⟨[(0, 0), (2, 9), (3, 0)], [⟨0, q1⟩, ⟨3, q2⟩]⟩
        [1] [] [⟨0, q2⟩] ∧
    [panicOf (opExchange C04World.noRun .unsafe_ c4 [1] [] [] [⟨0, q2⟩]
        (reach3 C04World.noRun 2 2 (demoOps.take 9)).w),
     panicOf (opExchange C04World.noRun .unsafe_ c4 [1] [] [] [⟨1, q2⟩]
        (reach3 C04World.noRun 2 2 (demoOps.take 9)).w),
     panicOf (opExchange C04World.noRun .unsafe_ c4 [] [] [2] [⟨3, q1⟩]
        (reach3 C04World.noRun 2 2 (demoOps.take 9)).w)] =
      [some .relNotInMask, some .notRelation, some .relNotInMask] ∧
    (reach3 C04World.noRun 2 2 (demoOps.take 9 ++ [.xchg .unsafe_ c4 [1] [] [] [⟨0, q2⟩]])).ss.ents =
      (reach3 C04World.noRun 2 2 (demoOps.take 9)).ss.ents := by
  refine ⟨?_, ?_, ?_, ?_, ?_, ?_⟩ <;> decide +kernel

open Ark.RelRefine Ark.RelRefine2 Ark.RelRefine3 in
/-- … continued by a `Reset`, two new entities (the handles of the new epoch re-use the IDs) and
    an exchange that adds `Likes → 2.0` to the new child `3.0` -/
def demoOps2 : List Op3 :=
  demoOps ++ [.base2 .reset, .base2 (.base (.new .unsafe_ [] [] [])),
    .base2 (.base (.new .typed [0, 1] [(1, 4)] [⟨0, ⟨2, 0⟩⟩])),
    .xchg .typed ⟨3, 0⟩ [3] [] [] [⟨3, ⟨2, 0⟩⟩]]

open Ark.RelRefine Ark.RelRefine2 Ark.RelRefine3 Ark.Refine in
/-- histories with `Reset` are covered: the exchange after the `Reset` is a step whose precondition
    holds; the specification afterwards; the model agrees with it -/
example :
    guardXchg (reach3 C04World.noRun 2 2 (demoOps2.take 15)) .typed ⟨3, 0⟩ [3] [⟨3, ⟨2, 0⟩⟩] = true ∧
    (find (reach3 C04World.noRun 2 2 (demoOps2.take 15)).ss.ents ⟨3, 0⟩ =
        some ⟨[(0, 0), (1, 4)], [⟨0, ⟨2, 0⟩⟩]⟩ ∧
      XchgOK (reach3 C04World.noRun 2 2 (demoOps2.take 15)).ss ⟨[(0, 0), (1, 4)], [⟨0, ⟨2, 0⟩⟩]⟩
        [3] [] [⟨3, ⟨2, 0⟩⟩]) ∧
    (reach3 C04World.noRun 2 2 demoOps2).ss.ents =
      [(⟨3, 0⟩, ⟨[(0, 0), (1, 4), (3, 0)], [⟨0, ⟨2, 0⟩⟩, ⟨3, ⟨2, 0⟩⟩]⟩), (⟨2, 0⟩, ⟨[], []⟩)] ∧
    Ark.Props.C01Rel.agrees (reach3 C04World.noRun 2 2 demoOps2) = true ∧
    (demoOps2.any fun op => op.isReset) = true := by
  refine ⟨?_, ⟨?_, ?_⟩, ?_, ?_, ?_⟩ <;> decide +kernel

/-! ## 3. the exchange batch over relation tables -/

section Batch
open Ark.QueryRel

/-- the batch in normal form, in the order in which it runs (since the repair of defect D27) -/
theorem batch_normal_form_planFirst : type_of% @exchangeBatch_rel_eq_planFirst :=
  @exchangeBatch_rel_eq_planFirst

/-- a panic of the lookup loop is the batch's panic, with the same state: the lock has not been
    taken -/
theorem batch_lookup_panic : type_of% @exchangeBatch_rel_findLoop_panic :=
  @exchangeBatch_rel_findLoop_panic

/-- the batch in normal form with `Lock` first (equivalent when the lookup loop succeeds: it
    neither reads nor writes the lock); the targets of `rels` are registered ONCE and
    unconditionally — also when no table moves — as the Go code does after its planning loop (here
    written after the move loop, with which the registration commutes) -/
theorem batch_normal_form (run : ProbeRunner) (fo : FilterObj) (extra : List RelID)
    (add rem : List Comp) (rels : List RelID) (w : World) (hl : w.isLocked = false)
    (hne : (add.isEmpty && rem.isEmpty) = false) {l' : Lock} {b : Nat}
    (hlk : w.locks.lock = some (l', b)) {ts : List Nat}
    (hts : getBatchTables fo extra { w with locks := l' } = .ok ts { w with locks := l' })
    {rr : Bool} {bts : List BatchTable} {w1 : World}
    (hfind : findLoopX add rem rels ts (false, []) { w with locks := l' } = .ok (rr, bts) w1)
    (hno : ∀ (evt : Nat), w1.obs.hasObservers evt = false) :
    exchangeBatch run fo extra add rem rels none w =
      unlock b (registerW (bts.foldl (moveStepX rels) w1) rels) :=
  exchangeBatch_rel_eq run fo extra add rem rels w hl hne hlk hts hfind hno

/-- **the batch**: see the header -/
theorem batch_spec (run : ProbeRunner) {w : World} {fl : List Nat} (h : TInv w fl)
    (hl : w.isLocked = false) (hno : ∀ (evt : Nat), w.obs.hasObservers evt = false)
    (fo : FilterObj) (extra : List RelID) (hc : fo.cache = none)
    (hr : RelsTyped w fo.filter (fo.rels ++ extra)) {add rem : List Comp} {rels : List RelID}
    (hne : ¬ (add = [] ∧ rem = []))
    (hpre : ∀ (t : Nat), t < w.tables.length → TblMatch w fo.filter (fo.rels ++ extra) t →
      (w.tbl t).len ≠ 0 → XchgPreM w (tmask w t) add rem rels)
    (htin : ∀ (r : RelID), r ∈ rels → r.target.id < w.pool.ents.length)
    {l1 l2 : Lock} {b : Nat} (hcyc : QueryExact.LockCycle w.locks l1 b l2) (hl2 : l2.isLocked = false)
    (hfew : 2 * w.tables.length < maxU32) (hrows : 2 * w.entities.length < 2 ^ 32) :
    ∃ (ts : List Nat) (w' : World), getBatchTables fo extra w = .ok ts w ∧
      exchangeBatch run fo extra add rem rels none w = .ok () w' ∧
      XchgAllPost w fl (ts.flatMap (rowsOf w)) add rem rels w' ∧ w'.locks = l2 :=
  exchangeBatch_rel_spec run h hl hno fo extra hc hr hne hpre htin hcyc hl2 hfew hrows

/-- **the singles**, in any order, through any access path -/
theorem singles_spec (run : ProbeRunner) (p : Path) {add rem : List Comp} {rels : List RelID}
    (l : List Ent) {w : World} {fl : List Nat} (h : TInv w fl) (hl : w.isLocked = false)
    (hno : ∀ (evt : Nat), w.obs.hasObservers evt = false)
    (hlive : ∀ (e : Ent), e ∈ l → 2 ≤ e.id ∧ e.id ∉ fl ∧ w.alive e = true ∧
      XchgPre w e add rem rels)
    (hlin : ∀ (e : Ent), e ∈ l → e.id < w.pool.ents.length)
    (hnd : (l.map (·.id)).Nodup)
    (htin : ∀ (r : RelID), r ∈ rels → r.target.id < w.pool.ents.length)
    (hfew : w.tables.length + l.length < maxU32)
    (hrows : w.entities.length + 1 < 2 ^ 32) :
    ∃ (w'' : World), xchgSeq run p add rem rels l w = .ok () w'' ∧
      XchgAllPost w fl l add rem rels w'' :=
  xchgSeq_post run p l h hl hno hlive hlin hnd htin hfew hrows

/-- **C06 for the exchange batch over relation tables: batch = fold of the single exchange, in any
    order** -/
theorem batch_eq_fold (run : ProbeRunner) (p : Path) {w : World} {fl : List Nat}
    (h : TInv w fl) (hR : RowsAlive w) (hl : w.isLocked = false)
    (hno : ∀ (evt : Nat), w.obs.hasObservers evt = false)
    (fo : FilterObj) (extra : List RelID) (hc : fo.cache = none)
    (hr : RelsTyped w fo.filter (fo.rels ++ extra)) {add rem : List Comp} {rels : List RelID}
    (hne : ¬ (add = [] ∧ rem = []))
    (hpre : ∀ (t : Nat), t < w.tables.length → TblMatch w fo.filter (fo.rels ++ extra) t →
      (w.tbl t).len ≠ 0 → XchgPreM w (tmask w t) add rem rels)
    (htin : ∀ (r : RelID), r ∈ rels → r.target.id < w.pool.ents.length)
    {l1 l2 : Lock} {b : Nat} (hcyc : QueryExact.LockCycle w.locks l1 b l2) (hl2 : l2.isLocked = false)
    (hfew : 2 * w.tables.length < maxU32) (hrows : 2 * w.entities.length < 2 ^ 32) :
    ∃ (ts : List Nat) (w' : World), getBatchTables fo extra w = .ok ts w ∧
      (∀ (e : Ent), e ∈ ts.flatMap (rowsOf w) ↔
        w.alive e = true ∧ EntMatches w fo.filter (fo.rels ++ extra) e.id) ∧
      exchangeBatch run fo extra add rem rels none w = .ok () w' ∧
      XchgAllPost w fl (ts.flatMap (rowsOf w)) add rem rels w' ∧
      ∀ (es' : List Ent), es'.Perm (ts.flatMap (rowsOf w)) →
        w.tables.length + es'.length < maxU32 →
        ∃ (w'' : World), xchgSeq run p add rem rels es' w = .ok () w'' ∧
          XchgAllPost w fl es' add rem rels w'' ∧
          (∀ (x : Ent), w'.alive x = w''.alive x) ∧
          (∀ (i : Nat) (c : Comp), valOf w' i c = valOf w'' i c) ∧
          (∀ (i : Nat), compsOf w' i = compsOf w'' i) ∧
          (∀ (i : Nat) (c : Comp), targetOf w' i c = targetOf w'' i c) ∧
          w'.isLocked = w''.isLocked :=
  exchangeBatch_rel_eq_singles run p h hR hl hno fo extra hc hr hne hpre htin hcyc hl2 hfew hrows

end Batch

/-! ### non-vacuity: the world `g9` of Ark/Props/C06Rel.lean

Components: 0 = `ChildOf` (relation), 1 = `Pos`, 2 = `Parent` (marker), 3 = `Friend` (relation);
grandparent `gp = 2.0`; parents `pa = 3.0`, `pb = 4.0`; children 5, 7 of `pa` (table 3), child 6 of
`pb` (table 4); entity 8 is a child of `pa` and a friend of `pb` (table 5). -/

section BatchDemo
open Ark.Props.C06Rel (g9 gp pa pb reach_g9)
open Ark.QueryRel
open Ark.Props.C04World (noRun summary)

/-- `Filter2[ChildOf, Pos].Without(Parent, Friend)`: the children 5, 6, 7 (tables 3 and 4) -/
def foPlainKids : FilterObj :=
  { filter := { mask := Mask.ofList [0, 1], without := Mask.ofList [2, 3], hasWithout := true }
    ids := [0, 1] }

/-- the batch `Exchange(add = [Friend], rem = [Pos], Friend → gp)` on them … -/
def b10 : World := (exchangeBatch noRun foPlainKids [] [3] [1] [⟨3, gp⟩] none g9).state
/-- … and the singles in an order that is not the batch's, through `ExchangeN` -/
def b10s : World :=
  (xchgSeq noRun .typed [3] [1] [⟨3, gp⟩] [⟨6, 0⟩, ⟨7, 0⟩, ⟨5, 0⟩] g9).state

/-- `Filter2[ChildOf, Pos].Without(Parent)`: the children 5, 6, 7, 8 (tables 3, 4, 5) -/
def foAllKids : FilterObj :=
  { filter := { mask := Mask.ofList [0, 1], without := Mask.ofList [2], hasWithout := true }
    ids := [0, 1] }

/-- the batch `Exchange(add = [Parent], rem = [ChildOf])`: the relation in which tables 3 and 4
    differ is removed, so they share their destination -/
def c10 : World := (exchangeBatch noRun foAllKids [] [2] [0] [] none g9).state
def c10s : World :=
  (xchgSeq noRun .unsafe_ [2] [0] [] [⟨8, 0⟩, ⟨5, 0⟩, ⟨6, 0⟩, ⟨7, 0⟩] g9).state

/-- **non-vacuity**: the hypotheses of `batch_eq_fold` hold in `g9` for both batches, so its
    conclusion does -/
example :
    (∃ (ts : List Nat) (w' : World), getBatchTables foPlainKids [] g9 = .ok ts g9 ∧
      exchangeBatch noRun foPlainKids [] [3] [1] [⟨3, gp⟩] none g9 = .ok () w') ∧
    (∃ (ts : List Nat) (w' : World), getBatchTables foAllKids [] g9 = .ok ts g9 ∧
      exchangeBatch noRun foAllKids [] [2] [0] [] none g9 = .ok () w') := by
  have q := (reach_qgood noRun reach_g9).1
  obtain ⟨fl, h, hl, hno⟩ := q.good
  obtain ⟨l1, l2, b, hcyc, q2⟩ := q.lockCycle
  obtain ⟨_, _, hl2, _⟩ := q2.good
  constructor
  · obtain ⟨ts, w', h1, _, h3, _⟩ := batch_eq_fold noRun .typed h q.rows hl hno foPlainKids []
      rfl (RelsTyped.nil _ _) (add := [3]) (rem := [1]) (rels := [⟨3, gp⟩]) (by decide)
      (by decide +kernel) (by decide +kernel) hcyc hl2 (by decide +kernel) (by decide +kernel)
    exact ⟨ts, w', h1, h3⟩
  · obtain ⟨ts, w', h1, _, h3, _⟩ := batch_eq_fold noRun .unsafe_ h q.rows hl hno foAllKids []
      rfl (RelsTyped.nil _ _) (add := [2]) (rem := [0]) (rels := []) (by decide)
      (by decide +kernel) (by decide +kernel) hcyc hl2 (by decide +kernel) (by decide +kernel)
    exact ⟨ts, w', h1, h3⟩

/-- what the clients see of the children -/
def seenKids (w : World) :
    List (Option (List Comp)) × List (Option Ent) × List (Option Ent) × List (Option Val) :=
  ([compsOf w 5, compsOf w 6, compsOf w 7, compsOf w 8, compsOf w 3],
   [targetOf w 5 0, targetOf w 6 0, targetOf w 7 0, targetOf w 8 0],
   [targetOf w 5 3, targetOf w 6 3, targetOf w 7 3, targetOf w 8 3],
   [valOf w 5 1, valOf w 6 1, valOf w 7 1, valOf w 8 1, valOf w 5 2])

/-- the first batch: tables 3 and 4 are selected; the children keep `ChildOf → pa / pb` (two
    destinations, one per parent), lose `Pos` and get `Friend → gp`; entity 8 is not selected; the
    singles in another order give the same observable world -/
example :
    panicOf (exchangeBatch noRun foPlainKids [] [3] [1] [⟨3, gp⟩] none g9) = none ∧
    (match getBatchTables foPlainKids [] g9 with | .ok ts _ => ts | .panic _ _ => []) = [3, 4] ∧
    seenKids b10 =
      ([some [0, 3], some [0, 3], some [0, 3], some [0, 1, 3], some [0, 1, 2]],
       [some pa, some pb, some pa, some pa], [some gp, some gp, some gp, some pb],
       [none, none, none, some 7, none]) ∧
    summary b10 = [⟨0, 0, 0, false, []⟩, ⟨1, 1, 1, false, [Ent.zero]⟩,
      ⟨2, 2, 2, false, [gp, Ent.zero, Ent.zero]⟩, ⟨3, 3, 0, false, [pa, Ent.zero]⟩,
      ⟨4, 3, 0, false, [pb, Ent.zero]⟩, ⟨5, 4, 1, false, [pa, Ent.zero, pb]⟩,
      ⟨6, 5, 2, false, [pa, gp]⟩, ⟨7, 5, 1, false, [pb, gp]⟩] ∧
    panicOf (xchgSeq noRun .typed [3] [1] [⟨3, gp⟩] [⟨6, 0⟩, ⟨7, 0⟩, ⟨5, 0⟩] g9) = none ∧
    seenKids b10s = seenKids b10 := by
  refine ⟨?_, ?_, ?_, ?_, ?_, ?_⟩ <;> decide +kernel

/-- the second batch: tables 3, 4 and 5 are selected; `ChildOf` is removed, so the children of `pa`
    (table 3) and of `pb` (table 4) land in the SAME new table 6; entity 8 keeps `Friend → pb`;
    everybody keeps `Pos`; the singles in another order give the same observable world -/
example :
    panicOf (exchangeBatch noRun foAllKids [] [2] [0] [] none g9) = none ∧
    (match getBatchTables foAllKids [] g9 with | .ok ts _ => ts | .panic _ _ => []) = [3, 4, 5] ∧
    seenKids c10 =
      ([some [1, 2], some [1, 2], some [1, 2], some [1, 2, 3], some [0, 1, 2]],
       [none, none, none, none], [none, none, none, some pb],
       [some 4, some 5, some 6, some 7, some 0]) ∧
    summary c10 = [⟨0, 0, 0, false, []⟩, ⟨1, 1, 1, false, [Ent.zero]⟩,
      ⟨2, 2, 2, false, [gp, Ent.zero, Ent.zero]⟩, ⟨3, 3, 0, false, [pa, Ent.zero]⟩,
      ⟨4, 3, 0, false, [pb, Ent.zero]⟩, ⟨5, 4, 0, false, [pa, Ent.zero, pb]⟩,
      ⟨6, 5, 3, false, [Ent.zero, Ent.zero]⟩, ⟨7, 6, 1, false, [Ent.zero, Ent.zero, pb]⟩] ∧
    panicOf (xchgSeq noRun .unsafe_ [2] [0] [] [⟨8, 0⟩, ⟨5, 0⟩, ⟨6, 0⟩, ⟨7, 0⟩] g9) = none ∧
    seenKids c10s = seenKids c10 := by
  refine ⟨?_, ?_, ?_, ?_, ?_, ?_⟩ <;> decide +kernel

end BatchDemo

end Ark.Props.C01Xchg
