/-
  C17 — Entity state serialization round-trips.

  (a) Codec.  `Entity.MarshalBinary` / `AppendBinary` / `UnmarshalBinary` (big endian, 8 bytes)
      and `MarshalJSON` / `UnmarshalJSON` (`[id, gen]`): decoding an encoding returns the handle,
      encoding is injective, and binary input is rejected exactly when its length is not 8.
      IDs and generations are 32-bit words (`BitVec 32`), bytes are `BitVec 8`.

  (b) Dump/load.  `Unsafe.DumpEntities` records `(entities, alive, next, available)` of the
      pool; `Unsafe.LoadEntities` into an unlocked, empty world succeeds and installs exactly
      that pool core.  Since `Get`, `Recycle` and `Alive` (on IDs inside the live slice) are
      functions of the core, the loaded world agrees with the source on the liveness of every
      handle whose ID the source has issued in its current epoch (`id < len(entities)`), and
      every sequence of subsequent creations returns the same handles.

  Scope note for (b): for an ID at or beyond `len(entities)` the source's unchecked `Alive`
  reads the memory kept behind the slice by `Reset` (`stale` in the model), which a dump does
  not record; the loaded world answers `false` there (`load_alive_beyond`).  Such IDs have not
  been issued since the last `Reset`.
-/
import Ark.Proofs.Codec
import Ark.Proofs.DumpLoad
import Ark.Props.C17Hist

namespace Ark.Props.C17
open Ark Ark.Codec Ark.World

/-! ### (a) codec -/

/-- `BigEndian.Uint32` of the four bytes written by `BigEndian.PutUint32` is the word. -/
theorem getU32_putU32 (v : U32) (a b c d : Byte) (h : putU32 v = [a, b, c, d]) :
    getU32 a b c d = v :=
  Codec.getU32_of_putU32 v a b c d h

/-- `UnmarshalBinary(MarshalBinary(e)) = e`. -/
theorem unmarshal_marshal (id gen : U32) :
    unmarshalBinary (marshalBinary id gen) = some (id, gen) :=
  Codec.unmarshal_marshal id gen

/-- `AppendBinary(buf)` is `buf` followed by the 8-byte encoding … -/
theorem appendBinary_eq (buf : List Byte) (id gen : U32) :
    appendBinary buf id gen = buf ++ marshalBinary id gen :=
  Codec.appendBinary_eq buf id gen

/-- … so decoding the appended bytes returns the handle. -/
theorem unmarshal_append (buf : List Byte) (id gen : U32) :
    unmarshalBinary ((appendBinary buf id gen).drop buf.length) = some (id, gen) :=
  Codec.unmarshal_append buf id gen

/-- Malformed input is rejected exactly when the length is not 8. -/
theorem unmarshal_none_iff (data : List Byte) :
    unmarshalBinary data = none ↔ data.length ≠ 8 :=
  Codec.unmarshal_none_iff data

/-- Distinct handles have distinct encodings. -/
theorem marshal_injective (a b c d : U32) (h : marshalBinary a b = marshalBinary c d) :
    a = c ∧ b = d :=
  Codec.marshal_injective h

/-- `UnmarshalJSON(MarshalJSON(e)) = e`. -/
theorem unmarshalJSON_marshalJSON (id gen : U32) :
    unmarshalJSON (marshalJSON id gen) = some (id, gen) :=
  Codec.unmarshalJSON_marshalJSON id gen

/-! non-vacuity -/

example : unmarshalBinary (marshalBinary 0xFFFFFFFF#32 0#32) = some (0xFFFFFFFF#32, 0#32) := by
  decide
example : marshalBinary 0xFFFFFFFF#32 0#32 = [0xFF, 0xFF, 0xFF, 0xFF, 0, 0, 0, 0] := by decide
example : unmarshalJSON (marshalJSON 0xFFFFFFFF#32 0#32) = some (0xFFFFFFFF#32, 0#32) := by
  decide
example : unmarshalBinary [] = none := by decide
example : unmarshalBinary [1, 2, 3, 4, 5, 6, 7] = none := by decide
example : unmarshalBinary [1, 2, 3, 4, 5, 6, 7, 8, 9] = none := by decide
example : unmarshalBinary [0, 0, 1, 2, 0, 0, 0, 3] = some (0x102#32, 3#32) := by decide

/-! ### (b) dump / load -/

/-- `Get` and `Recycle` are determined by (and act on) the pool core. -/
theorem get_core (p q : Pool) (h : p.Core = q.Core) :
    p.get.2 = q.get.2 ∧ p.get.1.Core = q.get.1.Core :=
  Pool.get_core h

theorem recycle_core (p q : Pool) (h : p.Core = q.Core) (e : Ent) :
    (p.recycle e).Core = (q.recycle e).Core :=
  Pool.recycle_core h e

/-- Pools with the same core hand out the same handles, for any number of creations. -/
theorem gets_agree (p q : Pool) (h : p.Core = q.Core) (n : Nat) : p.getN n = q.getN n :=
  Pool.gets_agree h n

/-- Pools with the same core agree on `Alive` for every ID inside the live slice. -/
theorem alive_core (p q : Pool) (h : p.Core = q.Core) (e : Ent) (hid : e.id < p.ents.length) :
    p.alive e = q.alive e :=
  Pool.alive_core h e hid

/-- `LoadEntities` of the dump of pool `p` into an unlocked empty world succeeds and installs
    the core of `p`. -/
theorem load_core (p : Pool) (d : Dump) (w : World)
    (hde : d.entities = p.ents) (hdn : d.next = p.next) (hda : d.available = p.available)
    (hc : d.entities.length > 0)
    (hl : w.isLocked = false) (he : w.pool.ents.length ≤ 2 ∧ w.pool.available = 0) :
    ∃ w', opLoad d w = .ok () w' ∧ w'.pool.Core = p.Core :=
  World.load_core p d w hde hdn hda hc hl he

/-- After the load, `Alive` agrees with the source on every handle whose ID lies in the
    source's live slice. -/
theorem load_alive_agree (p : Pool) (d : Dump) (w : World)
    (hde : d.entities = p.ents) (hdn : d.next = p.next) (hda : d.available = p.available)
    (hc : d.entities.length > 0)
    (hl : w.isLocked = false) (he : w.pool.ents.length ≤ 2 ∧ w.pool.available = 0) :
    ∃ w', opLoad d w = .ok () w' ∧ ∀ e : Ent, e.id < p.ents.length → w'.alive e = p.alive e := by
  obtain ⟨w', h1, h2, _⟩ := World.load_alive_agree p d w hde hdn hda hc hl he
  exact ⟨w', h1, h2⟩

/-- Beyond the source's live slice the loaded world answers `false`. -/
theorem load_alive_beyond (p : Pool) (d : Dump) (w : World)
    (hde : d.entities = p.ents) (hdn : d.next = p.next) (hda : d.available = p.available)
    (hc : d.entities.length > 0)
    (hl : w.isLocked = false) (he : w.pool.ents.length ≤ 2 ∧ w.pool.available = 0) :
    ∃ w', opLoad d w = .ok () w' ∧ ∀ e : Ent, p.ents.length ≤ e.id → w'.alive e = false := by
  obtain ⟨w', h1, _, h3⟩ := World.load_alive_agree p d w hde hdn hda hc hl he
  exact ⟨w', h1, h3⟩

/-- After the load, any number of consecutive creations return the same handles as in the
    source. -/
theorem load_gets_agree (p : Pool) (d : Dump) (w : World)
    (hde : d.entities = p.ents) (hdn : d.next = p.next) (hda : d.available = p.available)
    (hc : d.entities.length > 0)
    (hl : w.isLocked = false) (he : w.pool.ents.length ≤ 2 ∧ w.pool.available = 0) :
    ∃ w', opLoad d w = .ok () w' ∧ ∀ n, w'.pool.getN n = p.getN n := by
  obtain ⟨w', h1, h2⟩ := World.load_gets_agree p d w hde hdn hda hc hl he
  exact ⟨w', h1, fun n => (h2 n).1⟩

/-- `LoadEntities` refuses a locked or a non-empty world. -/
theorem load_locked (d : Dump) (w : World) (hl : w.isLocked = true) :
    opLoad d w = .panic .locked w :=
  World.opLoad_locked d w hl

theorem load_notEmpty (d : Dump) (w : World) (hl : w.isLocked = false)
    (hne : w.pool.ents.length > 2 ∨ w.pool.available > 0) :
    opLoad d w = .panic .notEmptyWorld w :=
  World.opLoad_notEmpty d w hl hne

/-! non-vacuity: a fresh world satisfies the hypotheses on the target; a pool with a recycled
    slot is a source whose next creations are the recycled handle, then a new one. -/

example : (World.init 8 8).isLocked = false ∧
    (World.init 8 8).pool.ents.length ≤ 2 ∧ (World.init 8 8).pool.available = 0 := by decide

/-- source: create 2, 3; remove 2 -/
private def src : Pool := (Pool.init.get.1.get.1).recycle ⟨2, 0⟩

example : src.Core = ([⟨0, maxU32⟩, ⟨1, maxU32⟩, ⟨0, 1⟩, ⟨3, 0⟩], 2, 1) := by decide
example : src.getN 2 = [⟨2, 1⟩, ⟨4, 0⟩] := by decide
example : src.alive ⟨2, 0⟩ = false ∧ src.alive ⟨3, 0⟩ = true := by decide


/-! ### Over histories (Props/C17Hist) -/

/-- `DumpEntities` at a state satisfying the invariant succeeds, changes only the lock's bit pool, and its `alive` list is duplicate-free and lists exactly the live IDs -/
theorem hist_dump_spec : type_of% @Ark.Props.C17Hist.dump_spec := @Ark.Props.C17Hist.dump_spec

/-- **C17, first sentence** over histories: dump after any history, load into the reset world or into a new world with the same registrations (any capacities): every handle issued in the history has the same `Alive` answer as at dump time -/
theorem hist_dump_load_alive_and_handles : type_of% @Ark.Props.C17Hist.dump_load_alive_and_handles := @Ark.Props.C17Hist.dump_load_alive_and_handles

/-- … and any sequence of entity creations afterwards returns the same handles in the source, the reset world and the new world -/
theorem hist_dump_load_creations : type_of% @Ark.Props.C17Hist.dump_load_creations := @Ark.Props.C17Hist.dump_load_creations

/-- the handle of any successful creation, with or without components, is the next handle of the pool -/
theorem hist_creation_handle : type_of% @Ark.Props.C17Hist.creation_handle := @Ark.Props.C17Hist.creation_handle

/-- the loaded world: registry, archetypes and the other tables are the target's; pool core, free list and issued handles are the source's; every alive handle sits in a row of table 0 with its generation and is indexed to it; all other tables are empty -/
theorem hist_loaded_world : type_of% @Ark.Props.C17Hist.loaded_world := @Ark.Props.C17Hist.loaded_world

/-- with the dead index entries normalised the loaded world satisfies the full history invariant with the source's entities (without components) -/
theorem hist_loaded_world_normalised : type_of% @Ark.Props.C17Hist.loaded_world_normalised := @Ark.Props.C17Hist.loaded_world_normalised

/-- finding: `LoadEntities` leaves the index entries of reserved and free IDs at `(table 0, row 0)` instead of `(no table, _)`; unobservable (every access is behind the `Alive` check) but the loaded world does not satisfy `CInv` literally -/
theorem hist_loaded_index_deviates : type_of% @Ark.Props.C17Hist.loaded_index_deviates := @Ark.Props.C17Hist.loaded_index_deviates

end Ark.Props.C17
