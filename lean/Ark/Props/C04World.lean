/-
  Ark.Props.C04World — C04 at world level: "An entity's relation target is always the zero entity
  or an alive entity: it is the target last assigned, until that target is removed from the
  world, at which point it becomes the zero entity while the entity keeps all its components and
  values.  Removing targets one by one, and the reuse of per-target storage for other targets,
  never changes any other entity's targets or data and never fails for a valid call."

  The proofs are in Ark/Proofs/Targets*.lean; this file restates the theorems a reader checks and
  runs them on a concrete world.

  Vocabulary (Ark/Proofs/Targets.lean, TargetsInv.lean):
  * `TargetsOK w`  — every relation column of every non-free table targets the zero entity or an
                     alive entity;
  * `FlagsOK w`    — a non-zero target of a non-free table carries the `isTarget` flag;
  * `targetOf w i c` — the target of relation component `c` of the entity with ID `i`, read
                     through the index (as `valOf` / `compsOf` of C01World);
  * `TInv w fl`    — the joint invariant: `SInv ∧ RInv ∧ TargetsOK ∧ RelListsOK ∧ RelArchsOK ∧
                     CacheRelsOK ∧ FlagsOK ∧ FreeEmpty ∧ PLink w fl ∧ kindsLe`;
  * `Good w`       — `TInv w fl` for some free list, unlocked, no observers.

  Covered: `NewEntity(ids…, rels…)`, `Add(e, ids…, rels…)`, `SetRelations` (all three paths),
  `RemoveEntity` (relation target or not), `cleanupArchetypes`; iteration (`Good`).
  NOT covered (see the report): `RemoveEntities` (batch), the batch creation / exchange paths,
  totality ("never fails") of `NewEntity` / `Add` (shown for `RemoveEntity` and `SetRelations`).

  Recorded size hypotheses: `tables.length (+ relationArchetypes.length + 1) ≤ maxU32` and
  `2 * entities.length < 2^32` (removal; `entities.length + 1 < 2^32` for the others) — the model's
  `capPow2` and the "no table" marker `maxU32` need them, as everywhere in `Ark.Proofs`.

  FINDINGS (hypotheses the proofs forced; § 4) — defect D18 of the Go library, REPAIRED:
  * `RelListsOK` — the relation list `relIDs` of a non-free table names every relation column
    exactly once with the target stored in the column.  `cleanupArchetypes` reads `relIDs`, not
    the columns, and `MatchesExact` compares lengths.  Before the repair a call naming one
    relation component twice was accepted (`createTable` only checked
    `len(relations) ≥ numRelations`), and afterwards
    (a) `RemoveEntity` of an unrelated alive target PANICKED (`relUnspecified`), and
    (b) `RemoveEntity` of a target silently zeroed a relation to ANOTHER, still alive, target.
    The repaired `createTable` (and the model, `checkRelList`) rejects such a call with
    "relation component %d specified more than once" (`relTwice`); § 4 shows the rejection of
    both histories.  The creation theorem still asks that the call names no relation component
    twice (left as it was; every accepted call satisfies it: `createTable_ok_nodup` when the table
    is created, and — since the repair of defect D26, `archetype.getTableSlowPath`, which until
    then ACCEPTED such a list when a table matched — `getTable_some_nodup` when it exists:
    `World.findOrCreateTableAdd_ok_nodup`, `Ark/Props/C10Rel.lean` § 4).
  * handles inside the pool slice — `World.Reset` keeps the invalidated handles (generation
    `MaxUint32`) in the memory behind the re-sliced pool (defect D14 repaired), and `Alive` is an
    unchecked read of that memory.  `PLink` (the index ↔ pool link inside `TInv`) therefore does
    not say that this memory is empty, only that it holds invalidated handles (so that `TInv`
    survives `Reset`: `Ark/Props/C05Rel.lean`, § 4), and the theorems about an entity handle `e`
    ask `e.id < w.pool.ents.length` next to `w.alive e = true`; those that establish `TInv` after
    assigning targets ask the same of the targets named (`htin`).  Every handle the world issued
    satisfies this, and a handle that tests alive and does not carry the generation `MaxUint32`
    does (`PLink.alive_in`).  Both hypotheses are necessary: `forged_target_after_reset` and
    `forged_entity_after_reset` in `Ark/Props/C05Rel.lean`.  "An accepted call named only zero or
    alive targets" needs no such hypothesis (`newEntity_names_valid_targets`, …).
-/
import Ark.Proofs.TargetsAdd

namespace Ark.Props.C04World
open Ark Ark.World Ark.Props.C01World

/-! ## 1. the theorems -/

/-- the invariant holds in the initial world -/
theorem init_invariant : type_of% @tinv_init := @tinv_init

/-- the invariant implies the property's first sentence: a relation target read through the index
    is the zero entity or alive -/
theorem target_zero_or_alive {w : World} {fl : List Nat} (h : TInv w fl) {j : Nat} {c : Comp}
    {e : Ent} (ht : targetOf w j c = some e) : e.isZero = true ∨ w.alive e = true := by
  simp only [targetOf] at ht
  cases hx : w.entities[j]? with
  | none => rw [hx] at ht; cases ht
  | some p =>
    obtain ⟨tj, r⟩ := p
    rw [hx] at ht
    simp only at ht
    by_cases hm : tj = maxU32
    · rw [if_pos hm] at ht; cases ht
    · rw [if_neg hm] at ht
      obtain ⟨T, hT, hr, _⟩ := h.link.idx.idxRow j tj r hx hm
      rw [hT] at ht
      simp only [Option.bind_some, Table.targetAt] at ht
      have hfree : T.isFree = false := by
        cases hf : T.isFree with
        | false => rfl
        | true => have := h.freeEmpty tj T hT hf; omega
      cases hc : T.colIdx c with
      | none => rw [hc] at ht; cases ht
      | some k =>
        rw [hc] at ht
        simp only [Option.bind_some] at ht
        split at ht
        · rename_i hk
          have := h.rel.aux.targets tj T hT hfree k hk
          rw [Option.some.inj ht] at this
          exact this
        · cases ht

/-- **creation / assignment** (`NewEntity(ids…, rels…)`, any path, no observers): an accepted
    call keeps all invariants, named only zero or alive targets, gives the new entity the targets
    named, and changes no other entity's components, values or targets -/
theorem newEntity_assigns_targets : type_of% @opNewEntity_rel_spec := @opNewEntity_rel_spec

/-- an accepted `NewEntity(ids…, rels…)` named only zero or alive targets (whatever their IDs) -/
theorem newEntity_names_valid_targets : type_of% @opNewEntity_rel_valid := @opNewEntity_rel_valid

/-- **rejection** (every path, since the repair of the `Unsafe` API): a call naming a dead target
    is refused with `deadTarget`, the world unchanged -/
theorem newEntity_dead_target_rejected (run : ProbeRunner) (p : Path)
    (ids : List Comp) (vals : List (Comp × Val)) (rels : List RelID) (w : World)
    (hv : ∀ (r : RelID), r ∈ rels → w.isRelComp r.comp = true ∧ (Mask.ofList ids).get r.comp = true)
    (hd : ∃ (r : RelID), r ∈ rels ∧ r.target.isZero = false ∧ w.alive r.target = false) :
    opNewEntity run p ids vals rels w = .panic .deadTarget w := by
  simp only [opNewEntity, bind, M.bind, preCheck_deadTarget p ids w rels hv hd]

/-- on every path: a call naming a dead target (on relation components among `ids`) is not
    accepted -/
theorem newEntity_dead_target_not_accepted (run : ProbeRunner) (p : Path) {w : World}
    {fl : List Nat} (h : TInv w fl) (hl : w.isLocked = false)
    (hno : ∀ (evt : Nat), w.obs.hasObservers evt = false) {ids : List Comp}
    {vals : List (Comp × Val)} {rels : List RelID}
    (hreg : ∀ (c : Comp), c ∈ ids → c < w.kinds.length)
    (hnd : (rels.map (·.comp)).Nodup) (hin : ∀ (r : RelID), r ∈ rels → r.comp ∈ ids)
    (hrc : ∀ (r : RelID), r ∈ rels → w.isRelComp r.comp = true)
    (hfew : w.tables.length < maxU32) (hrows : w.entities.length + 1 < 2 ^ 32)
    (hd : ∃ (r : RelID), r ∈ rels ∧ r.target.isZero = false ∧ w.alive r.target = false)
    (e : Ent) (w' : World) : opNewEntity run p ids vals rels w ≠ .ok e w' := by
  intro hok
  obtain ⟨r, hr, h1, h2⟩ := hd
  rcases opNewEntity_rel_valid run p h hl hno hreg hnd hin hrc hfew hrows hok r hr with h3 | h3
  · rw [h1] at h3; cases h3
  · rw [h2] at h3; cases h3

/-- **assignment by `Add`** (`Add(e, ids…, rels…)`, any path, `e` live, no observers): an accepted
    call keeps all invariants, named only zero or alive targets, gives `e` the targets named, keeps
    its old targets, its old components and their (unwritten) values, and changes no other
    entity -/
theorem add_assigns_targets : type_of% @opAdd_rel_spec := @opAdd_rel_spec

/-- an accepted `Add(e, ids…, rels…)` named only zero or alive targets (whatever their IDs) -/
theorem add_names_valid_targets : type_of% @opAdd_rel_valid := @opAdd_rel_valid

/-- **rejection** (every path, since the repair of the `Unsafe` API): `Add` naming a dead target
    is refused with `deadTarget`, the world unchanged -/
theorem add_dead_target_rejected : type_of% @opAdd_deadTarget := @opAdd_deadTarget

/-- **assignment** (`setRelations e rels` / `SetRelations` on any path, `e` live and having the
    relation components named, none twice, no observers): an accepted call keeps all invariants,
    named only zero or alive targets, gives `e` the targets named — its other targets, its
    components and its values are kept — and changes no other entity -/
theorem setRelations_assigns_targets : type_of% @setRelationsCore_spec := @setRelationsCore_spec
theorem opSetRelations_assigns_targets : type_of% @opSetRelations_spec := @opSetRelations_spec

/-- an accepted `SetRelations` named only zero or alive targets (whatever their IDs) -/
theorem setRelations_names_valid_targets : type_of% @setRelationsCore_valid := @setRelationsCore_valid
theorem opSetRelations_names_valid_targets : type_of% @opSetRelations_valid := @opSetRelations_valid

/-- a valid `setRelations` (targets zero or alive) never fails -/
theorem setRelations_never_fails : type_of% @setRelationsCore_total := @setRelationsCore_total

/-- **rejection** (every path, since the repair of the `Unsafe` API): `SetRelations` naming a
    dead target is refused with `deadTarget`, the world unchanged (membership in the mapper's
    components is asked of the relations on the `MapN` path only) -/
theorem setRelations_dead_target_rejected : type_of% @opSetRelations_deadTarget :=
  @opSetRelations_deadTarget

/-- on every path: `SetRelations` naming a dead target is not accepted -/
theorem setRelations_dead_target_not_accepted (run : ProbeRunner) (p : Path) {w : World}
    {fl : List Nat} (h : TInv w fl) (hl : w.isLocked = false)
    (hno : ∀ (evt : Nat), w.obs.hasObservers evt = false) {e : Ent} (h2 : 2 ≤ e.id)
    (hnf : e.id ∉ fl) (ha : w.alive e = true)
    (hsl : e.id < w.pool.ents.length) {mapperIds : List Comp} {rels : List RelID}
    (hne : rels.isEmpty = false) (hnd : (rels.map (·.comp)).Nodup)
    (hhas : ∀ (r : RelID), r ∈ rels → (targetOf w e.id r.comp).isSome = true)
    (hfew : w.tables.length < maxU32) (hrows : w.entities.length + 1 < 2 ^ 32)
    (hd : ∃ (r : RelID), r ∈ rels ∧ r.target.isZero = false ∧ w.alive r.target = false)
    (w' : World) : opSetRelations run p e mapperIds rels w ≠ .ok () w' := by
  intro hok
  obtain ⟨r, hr, h1, h2'⟩ := hd
  rcases opSetRelations_valid run p h hl hno h2 hnf ha hsl hne hnd hhas hfew hrows hok r hr with h3 | h3
  · rw [h1] at h3; cases h3
  · rw [h2'] at h3; cases h3

/-- **removing a target** (`RemoveEntity g`, `g` live, relation target or not, no observers):
    it never panics, all invariants are preserved, `g` is dead, and every other entity keeps its
    components and values and its targets — except that a target `g` reads as the zero entity -/
theorem removeEntity_zeroes_target (run : ProbeRunner) {w : World} {fl : List Nat} (h : TInv w fl)
    (hl : w.isLocked = false) (hno : ∀ (evt : Nat), w.obs.hasObservers evt = false) {g : Ent}
    (h2 : 2 ≤ g.id) (hnf : g.id ∉ fl) (ha : w.alive g = true) (hsl : g.id < w.pool.ents.length)
    (hfew : w.tables.length + w.relationArchetypes.length + 1 ≤ maxU32)
    (hrows : 2 * w.entities.length < 2 ^ 32) :
    ∃ (w' : World), opRemoveEntity run g w = .ok () w' ∧ TInv w' (g.id :: fl) ∧
      w'.alive g = false ∧
      ∀ (j : Nat), j ≠ g.id → SameEnt w w' j ∧ ∀ (c : Comp),
        targetOf w' j c = if targetOf w j c = some g then some Ent.zero else targetOf w j c := by
  obtain ⟨w', hok, post⟩ := opRemoveEntity_rel_spec run h hl hno h2 hnf ha hsl hfew hrows
  exact ⟨w', hok, post.tinv, post.dead, post.frame⟩

/-- the full postcondition of the removal (also: no non-free table targets the removed ID, the
    removed ID points at no table, `Alive` of other handles unchanged, size bounds) -/
theorem removeEntity_post : type_of% @opRemoveEntity_rel_spec := @opRemoveEntity_rel_spec

/-- `cleanupArchetypes g` on its own: never panics, restores the relation-index invariant,
    leaves no non-free table targeting `g` -/
theorem cleanup_total : type_of% @cleanupArchetypes_spec := @cleanupArchetypes_spec

/-- one iteration of the inner loop (one table of one archetype) -/
theorem cleanup_step : type_of% @cleanTable_step := @cleanTable_step

/-- `createTable` inside the cleanup keeps the index invariant up to the removed key (fresh and
    recycled table) -/
theorem cleanup_createTable : type_of% @SInvMid.createTableS_except := @SInvMid.createTableS_except

/-- iterating: `Good` is established by `NewWorld` and kept by component registration, accepted
    creations and removals of entities that sit in a table -/
theorem good_initial : type_of% @good_init := @good_init
theorem good_register : type_of% @Good.registerComponent := @Good.registerComponent
theorem good_newEntity : type_of% @Good.newEntity := @Good.newEntity
theorem good_removeEntity : type_of% @Good.removeEntity := @Good.removeEntity
theorem good_setRelations : type_of% @Good.setRelations := @Good.setRelations
theorem good_add : type_of% @Good.add := @Good.add

/-! ## 2. a concrete world: two parents, three children in two relation tables -/

def noRun : ProbeRunner := fun _ _ _ => pure ()

/-- component 0 = `ChildOf` (relation), component 1 = `Pos` -/
def d2 : World :=
  let w := World.init 2 2
  let w := (registerComponent { isRel := true } w).state
  (registerComponent {} w).state

def p1 : Ent := ⟨2, 0⟩
def p2 : Ent := ⟨3, 0⟩

def d3 : World := (opNewEntity noRun .unsafe_ [] [] [] d2).state                   -- p1
def d4 : World := (opNewEntity noRun .unsafe_ [] [] [] d3).state                   -- p2
def d5 : World := (opNewEntity noRun .typed [0, 1] [(1, 7)] [⟨0, p1⟩] d4).state    -- child 4 of p1
def d6 : World := (opNewEntity noRun .typed [0, 1] [(1, 8)] [⟨0, p1⟩] d5).state    -- child 5 of p1
def d7 : World := (opNewEntity noRun .typed [0, 1] [(1, 9)] [⟨0, p2⟩] d6).state    -- child 6 of p2
/-- … `p1` is removed … -/
def d8 : World := (opRemoveEntity noRun p1 d7).state
/-- … a new parent (it re-uses ID 2, generation 1) and a child of it -/
def d9 : World := (opNewEntity noRun .unsafe_ [] [] [] d8).state
def p3 : Ent := ⟨2, 1⟩
def d10 : World := (opNewEntity noRun .typed [0, 1] [(1, 5)] [⟨0, p3⟩] d9).state

/-- table id, archetype, rows, free?, per-column relation targets -/
structure TabSum where
  id : Nat
  arch : Nat
  len : Nat
  free : Bool
  targets : List Ent
  deriving DecidableEq, Repr

def summary (w : World) : List TabSum :=
  w.tables.map fun T => ⟨T.id, T.arch, T.len, T.isFree, T.targets⟩

theorem good_d2 : Good d2 :=
  ((good_init 2 2).registerComponent _ (by decide +kernel)).registerComponent _ (by decide +kernel)

theorem good_d3 : Good d3 :=
  good_d2.newEntity noRun .unsafe_ (by decide +kernel) (by decide +kernel) (by decide +kernel)
    (by decide +kernel) (by decide +kernel) (by decide +kernel) (by decide +kernel) (by decide +kernel)

theorem good_d4 : Good d4 :=
  good_d3.newEntity noRun .unsafe_ (by decide +kernel) (by decide +kernel) (by decide +kernel)
    (by decide +kernel) (by decide +kernel) (by decide +kernel) (by decide +kernel) (by decide +kernel)

theorem good_d5 : Good d5 :=
  good_d4.newEntity noRun .typed (by decide +kernel) (by decide +kernel) (by decide +kernel)
    (by decide +kernel) (by decide +kernel) (by decide +kernel) (by decide +kernel) (by decide +kernel)

theorem good_d6 : Good d6 :=
  good_d5.newEntity noRun .typed (by decide +kernel) (by decide +kernel) (by decide +kernel)
    (by decide +kernel) (by decide +kernel) (by decide +kernel) (by decide +kernel) (by decide +kernel)

/-- non-vacuity: the hypotheses of the removal theorem hold in a world with two relation tables -/
theorem good_d7 : Good d7 :=
  good_d6.newEntity noRun .typed (by decide +kernel) (by decide +kernel) (by decide +kernel)
    (by decide +kernel) (by decide +kernel) (by decide +kernel) (by decide +kernel) (by decide +kernel)

/-- the removal theorem applied: `RemoveEntity p1` does not panic and the invariant holds again -/
theorem good_d8 : panicOf (opRemoveEntity noRun p1 d7) = none ∧ Good d8 :=
  good_d7.removeEntity noRun (by decide +kernel) (by decide +kernel) (by decide +kernel)
    (by decide +kernel) (by decide +kernel)

theorem good_d9 : Good d9 :=
  good_d8.2.newEntity noRun .unsafe_ (by decide +kernel) (by decide +kernel) (by decide +kernel)
    (by decide +kernel) (by decide +kernel) (by decide +kernel) (by decide +kernel) (by decide +kernel)

/-- … and the creation theorem applies again when the freed table is recycled -/
theorem good_d10 : Good d10 :=
  good_d9.newEntity noRun .typed (by decide +kernel) (by decide +kernel) (by decide +kernel)
    (by decide +kernel) (by decide +kernel) (by decide +kernel) (by decide +kernel) (by decide +kernel)

/-- before the removal: children 4, 5 in table 1 (target `p1`), child 6 in table 2 (target `p2`) -/
example :
    summary d7 = [⟨0, 0, 2, false, []⟩, ⟨1, 1, 2, false, [p1, Ent.zero]⟩,
      ⟨2, 1, 1, false, [p2, Ent.zero]⟩] ∧
    (targetOf d7 4 0, targetOf d7 5 0, targetOf d7 6 0) = (some p1, some p1, some p2) ∧
    (valOf d7 4 1, valOf d7 5 1, valOf d7 6 1) = (some 7, some 8, some 9) ∧
    d7.isTarget = [false, false, true, true, false, false, false] := by
  refine ⟨?_, ?_, ?_, ?_⟩ <;> decide +kernel

/-- after `RemoveEntity p1`: `p1` is dead; its table (1) is free and empty; the children 4, 5 sit
    in the new table 3 whose target is the zero entity and keep components and values; child 6
    keeps its target `p2` -/
example :
    d8.alive p1 = false ∧
    summary d8 = [⟨0, 0, 1, false, []⟩, ⟨1, 1, 0, true, [p1, Ent.zero]⟩,
      ⟨2, 1, 1, false, [p2, Ent.zero]⟩, ⟨3, 1, 2, false, [Ent.zero, Ent.zero]⟩] ∧
    (targetOf d8 4 0, targetOf d8 5 0, targetOf d8 6 0) = (some Ent.zero, some Ent.zero, some p2) ∧
    (valOf d8 4 1, valOf d8 5 1, valOf d8 6 1) = (some 7, some 8, some 9) ∧
    (compsOf d8 4, compsOf d8 5, compsOf d8 6) = (some [0, 1], some [0, 1], some [0, 1]) ∧
    (compsOf d8 2, targetOf d8 2 0) = (none, none) ∧
    d8.isTarget = [false, false, false, true, false, false, false] := by
  refine ⟨?_, ?_, ?_, ?_, ?_, ?_, ?_⟩ <;> decide +kernel

/-- re-use of per-target storage: the freed table 1 is recycled for the new target `p3 = 2.1`
    (which re-uses the ID of `p1`); nobody else's targets or values change -/
example :
    (d9.pool.alive p3, d9.pool.alive p1) = (true, false) ∧
    summary d10 = [⟨0, 0, 2, false, []⟩, ⟨1, 1, 1, false, [p3, Ent.zero]⟩,
      ⟨2, 1, 1, false, [p2, Ent.zero]⟩, ⟨3, 1, 2, false, [Ent.zero, Ent.zero]⟩] ∧
    (targetOf d10 4 0, targetOf d10 5 0, targetOf d10 6 0, targetOf d10 7 0) =
      (some Ent.zero, some Ent.zero, some p2, some p3) ∧
    (valOf d10 4 1, valOf d10 5 1, valOf d10 6 1, valOf d10 7 1) =
      (some 7, some 8, some 9, some 5) := by
  refine ⟨?_, ?_, ?_, ?_⟩ <;> decide +kernel

/-- `SetRelations` in the world with two relation tables: child 6 is re-targeted from `p2` to
    `p1` — it moves to table 1; the theorem applies (`Good` is kept), the other children keep
    their targets, child 6 keeps its value -/
def d7s : World := (opSetRelations noRun .typed ⟨6, 0⟩ [0] [⟨0, p1⟩] d7).state

theorem good_d7s : Good d7s :=
  good_d7.setRelations noRun .typed (by decide +kernel) (by decide +kernel) (by decide +kernel)
    (by decide +kernel) (by decide +kernel) (by decide +kernel) (by decide +kernel)
    (by decide +kernel) (by decide +kernel) (by decide +kernel)

example :
    (targetOf d7s 4 0, targetOf d7s 5 0, targetOf d7s 6 0) = (some p1, some p1, some p1) ∧
    (valOf d7s 4 1, valOf d7s 5 1, valOf d7s 6 1) = (some 7, some 8, some 9) ∧
    panicOf (opSetRelations noRun .typed ⟨6, 0⟩ [0] [⟨0, ⟨7, 0⟩⟩] d7) = some .deadTarget := by
  refine ⟨?_, ?_, ?_⟩ <;> decide +kernel

/-- `Add` with a relation in the same world: parent `p2` becomes a child of `p1` (a new archetype
    and table); the theorem applies, nobody else changes -/
def d7a : World := (opAdd noRun .typed p2 [0] [] [⟨0, p1⟩] d7).state

theorem good_d7a : Good d7a :=
  good_d7.add noRun .typed (by decide +kernel) (by decide +kernel) (by decide +kernel)
    (by decide +kernel) (by decide +kernel) (by decide +kernel) (by decide +kernel)
    (by decide +kernel) (by decide +kernel) (by decide +kernel) (by decide +kernel)

example :
    (targetOf d7a 3 0, targetOf d7a 4 0, targetOf d7a 5 0, targetOf d7a 6 0) =
      (some p1, some p1, some p1, some p2) ∧
    (compsOf d7 3, compsOf d7a 3) = (some [], some [0]) ∧
    panicOf (opAdd noRun .typed p2 [0] [] [⟨0, ⟨7, 0⟩⟩] d7) = some .deadTarget := by
  refine ⟨?_, ?_, ?_⟩ <;> decide +kernel

/-- a dead target is rejected on every path, the world unchanged — through `Unsafe` too, since
    the repair of its relation validation (before: one more archetype) -/
example :
    panicOf (opNewEntity noRun .typed [0, 1] [(1, 5)] [⟨0, p1⟩] d9) = some .deadTarget ∧
    panicOf (opNewEntity noRun .map1 [0, 1] [(1, 5)] [⟨0, p1⟩] d9) = some .deadTarget ∧
    panicOf (opNewEntity noRun .unsafe_ [0, 1] [(1, 5)] [⟨0, p1⟩] d9) = some .deadTarget ∧
    summary (opNewEntity noRun .typed [0, 1] [(1, 5)] [⟨0, p1⟩] d9).state = summary d9 ∧
    summary (opNewEntity noRun .unsafe_ [0, 1] [(1, 5)] [⟨0, p1⟩] d9).state = summary d9 ∧
    (opNewEntity noRun .unsafe_ [0, 1] [(1, 5)] [⟨0, p1⟩] d9).state.archetypes.length =
      d9.archetypes.length := by
  refine ⟨?_, ?_, ?_, ?_, ?_, ?_⟩ <;> decide +kernel

/-! ## 3. the hypotheses of the rejection theorem are satisfiable -/

example : (∀ (r : RelID), r ∈ [(⟨0, p1⟩ : RelID)] →
      d9.isRelComp r.comp = true ∧ (Mask.ofList [0, 1]).get r.comp = true) ∧
    ∃ (r : RelID), r ∈ [(⟨0, p1⟩ : RelID)] ∧ r.target.isZero = false ∧ d9.alive r.target = false := by
  decide +kernel

/-! ## 4. findings (defect D18, repaired): a relation component named twice is rejected

Before the repair of `storage.createTable` the two histories below — built with the model's own
operations from valid handles; the only unusual call is a `NewEntity` whose relation list names
relation component 0 twice — were ACCEPTED and violated `RelListsOK` (which is why the creation
theorem asks for `(rels.map (·.comp)).Nodup`):
(a) afterwards `RemoveEntity` of an unrelated alive target panicked "relation targets must be
    fully specified"; (b) `RemoveEntity` of a target zeroed a relation to another, alive target.
The repaired `createTable` panics "relation component %d specified more than once"
(`relTwice`, `Ark/Props/C01Struct.lean` § 7: `createTable_rejects_twice`) on every path.  What the
model says, exactly: the call panics `relTwice`; no entity and no table is created; entity index,
pool, tables, cache, lock are as before; the archetype `findOrCreateTable` created before calling
`createTable` stays behind without a table (as after a `deadTarget` rejection on the unsafe
path).  The world is still `Good`-shaped for what follows: the same calls without the repetition
are accepted and then behave as the property says. -/

/-- (a) before the call: relation component 0, entities 2 and 3 -/
def f0pre : World :=
  let w := World.init 1 1
  let w := (registerComponent { isRel := true } w).state
  let w := (opNewEntity0 noRun w).state                                                -- 2
  (opNewEntity0 noRun w).state                                                         -- 3

/-- (a) the call of the finding: relation 0 named twice, both with the ZERO target -/
def f0try (p : Path) : Res World Ent :=
  opNewEntity noRun p [0] [] [⟨0, Ent.zero⟩, ⟨0, Ent.zero⟩] f0pre

/-- (a) the world left by the rejected call, then a child (entity 4) of entity 3 -/
def f0 : World := (opNewEntity noRun .unsafe_ [0] [] [⟨0, ⟨3, 0⟩⟩] (f0try .unsafe_).state).state

/-- (a) rejected on every path; nothing but the (table-less) archetype `{0}` was created -/
example :
    panicOf (f0try .unsafe_) = some .relTwice ∧ panicOf (f0try .map1) = some .relTwice ∧
    panicOf (f0try .typed) = some .relTwice ∧
    (f0try .unsafe_).state.tables = f0pre.tables ∧
    (f0try .unsafe_).state.entities = f0pre.entities ∧
    (f0try .unsafe_).state.pool = f0pre.pool ∧ (f0try .unsafe_).state.cache = f0pre.cache ∧
    (f0try .unsafe_).state.isLocked = false ∧
    (f0pre.archetypes.length, (f0try .unsafe_).state.archetypes.length) = (1, 2) ∧
    ((f0try .unsafe_).state.arch 1).tables.tables = [] ∧
    ((f0try .unsafe_).state.arch 1).freeTables = [] := by
  decide +kernel

/-- (a) what panicked before the repair works: `RemoveEntity` of the alive target 3 is accepted
    and zeroes the relation of its child 4; the table's relation list has one entry per relation
    column -/
example :
    f0.alive ⟨3, 0⟩ = true ∧ f0.isLocked = false ∧ targetOf f0 4 0 = some ⟨3, 0⟩ ∧
    panicOf (opRemoveEntity noRun ⟨3, 0⟩ f0) = none ∧
    targetOf (opRemoveEntity noRun ⟨3, 0⟩ f0).state 4 0 = some Ent.zero ∧
    ((f0.tbl 1).relIDs.length, (f0.arch 1).numRel) = (1, 1) := by
  decide +kernel

/-- (b) before the call: relation components 0 and 1, entities 2 and 3 -/
def f1pre : World :=
  let w := World.init 1 1
  let w := (registerComponent { isRel := true } w).state
  let w := (registerComponent { isRel := true } w).state
  let w := (opNewEntity0 noRun w).state                                                -- 2
  (opNewEntity0 noRun w).state                                                         -- 3

/-- (b) the call of the finding: relation 0 → 3, relation 0 → 2 (again), relation 1 → 3 -/
def f1try (p : Path) : Res World Ent :=
  opNewEntity noRun p [0, 1] [] [⟨0, ⟨3, 0⟩⟩, ⟨0, ⟨2, 0⟩⟩, ⟨1, ⟨3, 0⟩⟩] f1pre

/-- (b) the world left by the rejected call, then entity 4 with relation 0 → 2, relation 1 → 3 -/
def f1 : World :=
  (opNewEntity noRun .unsafe_ [0, 1] [] [⟨0, ⟨2, 0⟩⟩, ⟨1, ⟨3, 0⟩⟩] (f1try .unsafe_).state).state

def f2 : World := (opRemoveEntity noRun ⟨3, 0⟩ f1).state

/-- (b) rejected on every path; no entity 4, no table -/
example :
    panicOf (f1try .unsafe_) = some .relTwice ∧ panicOf (f1try .map1) = some .relTwice ∧
    panicOf (f1try .typed) = some .relTwice ∧
    (f1try .unsafe_).state.tables = f1pre.tables ∧
    (f1try .unsafe_).state.entities = f1pre.entities ∧
    (f1try .unsafe_).state.pool = f1pre.pool ∧ (f1try .unsafe_).state.cache = f1pre.cache ∧
    (f1try .unsafe_).state.alive ⟨4, 0⟩ = false ∧
    (f1pre.archetypes.length, (f1try .unsafe_).state.archetypes.length) = (1, 2) ∧
    ((f1try .unsafe_).state.arch 1).tables.tables = [] := by
  decide +kernel

/-- (b) with each relation named once: removing entity 3 zeroes the relation to 3 and ONLY that
    one; the relation to the alive entity 2 is kept (before the repair both were zeroed) -/
example :
    (targetOf f1 4 0, targetOf f1 4 1) = (some ⟨2, 0⟩, some ⟨3, 0⟩) ∧
    panicOf (opRemoveEntity noRun ⟨3, 0⟩ f1) = none ∧
    f2.alive ⟨2, 0⟩ = true ∧
    (targetOf f2 4 0, targetOf f2 4 1) = (some ⟨2, 0⟩, some Ent.zero) := by
  decide +kernel

end Ark.Props.C04World
