/-
  Ark.Props.C01Rel — C01 (faithful store) and C15 (Shrink is invisible) over histories of any
  length for the observer-free fragment WITH relation components, when the entity operations are
  interleaved with `Shrink`, `Reset`, filter definitions, registrations, unregistrations and
  queries (the machine `Ark.RelRefine2.step2` of Ark/Proofs/RelRefine2Machine.lean; see
  Ark/Props/C05Rel.lean for its operations).

  The abstract specification is that of `Ark.RelRefine` (C04): alive handle ↦ (component ↦ value,
  relation component ↦ target).  The entity operations move it as `RelRefine.specStep` says;
  `copy e` (`CopyEntity`, which `RelRefine` does not have) adds the entry of `e` a second time under
  the handle returned (`copy_assigns`: components, values AND relation targets are those of `e`);
  `Shrink`, the filter operations and queries do not move it at all (`quiet_spec`), and they
  change no entity's components, values or relation targets (`quiet_invisible`); `reset` empties
  it and starts a new epoch of handles (`reset_effect`), as in `Ark.Refine`.

  Bound: `ops.length < 2^16`.
-/
import Ark.Props.C05Rel

set_option autoImplicit false

namespace Ark.Props.C01Rel
open Ark Ark.World Ark.RelRefine Ark.RelRefine2 Ark.Props.C01World
open Ark.Refine (Comps keys sortedIds)

variable (run : ProbeRunner) (cap rel : Nat)

/-- **refines** — after every history (`Reset` anywhere in it), for every entry `(e, en)` of the
    specification: `e` is alive, its component set is the sorted list of the keys of `en.comps`,
    every component holds the recorded value, every relation component has the recorded target;
    the recorded relations are exactly the relation components among the keys -/
theorem refines (ops : List Op2) (hlen : ops.length < 2 ^ 16) (e : Ent) (en : Entry)
    (hm : (e, en) ∈ (reach2 run cap rel ops).ss.ents) :
    (reach2 run cap rel ops).w.alive e = true ∧
    compsOf (reach2 run cap rel ops).w e.id =
      some (sortedIds (reach2 run cap rel ops).w.kinds.length (keys en.comps)) ∧
    (∀ cv ∈ en.comps, valOf (reach2 run cap rel ops).w e.id cv.1 = some cv.2) ∧
    (∀ r ∈ en.rels, targetOf (reach2 run cap rel ops).w e.id r.comp = some r.target) ∧
    (keys en.comps).Nodup ∧ (en.rels.map (·.comp)).Nodup ∧
    (∀ c : Comp, c ∈ en.rels.map (·.comp) ↔
      c ∈ keys en.comps ∧ (reach2 run cap rel ops).w.isRelComp c = true) :=
  refines2 run cap rel ops hlen e en hm

/-- a handle the client holds is alive iff the specification has an entry for it -/
theorem alive_iff_specified (ops : List Op2) (hlen : ops.length < 2 ^ 16) (h : Ent)
    (hi : h ∈ (reach2 run cap rel ops).issued) :
    (reach2 run cap rel ops).w.alive h = true ↔
      (find (reach2 run cap rel ops).ss.ents h).isSome = true :=
  alive_iff_specified2 run cap rel ops hlen h hi

/-- **`Reset` ends the epoch** (C16 over histories with relations): after `ops ++ [reset]` the
    specification has no entity, the registry is kept, nothing counts as issued, no ID is indexed
    to a table (no component set, value or relation target can be read), the cache is empty, every
    filter object is unregistered, and every handle issued before is dead -/
theorem reset_effect (ops : List Op2) (hlen : ops.length + 1 < 2 ^ 16) :
    (reach2 run cap rel (ops ++ [.reset])).ss.ents = [] ∧
    (reach2 run cap rel (ops ++ [.reset])).ss.zst = (reach2 run cap rel ops).ss.zst ∧
    (reach2 run cap rel (ops ++ [.reset])).ss.isRel = (reach2 run cap rel ops).ss.isRel ∧
    (reach2 run cap rel (ops ++ [.reset])).issued = [] ∧
    (reach2 run cap rel (ops ++ [.reset])).w.kinds = (reach2 run cap rel ops).w.kinds ∧
    (∀ (i : Nat), compsOf (reach2 run cap rel (ops ++ [.reset])).w i = none ∧
      (∀ (c : Comp), valOf (reach2 run cap rel (ops ++ [.reset])).w i c = none) ∧
      ∀ (c : Comp), targetOf (reach2 run cap rel (ops ++ [.reset])).w i c = none) ∧
    ((reach2 run cap rel (ops ++ [.reset])).w.cache.indices = [] ∧
      (reach2 run cap rel (ops ++ [.reset])).w.cache.filters = []) ∧
    (∀ (f : Nat) (fo : FilterObj),
      AL.find? (reach2 run cap rel (ops ++ [.reset])).w.filters f = some fo → fo.cache = none) ∧
    ∀ (h : Ent), h ∈ (reach2 run cap rel ops).issued →
      (reach2 run cap rel (ops ++ [.reset])).w.alive h = false :=
  reset_effect2 run cap rel ops hlen

/-- no handle that was issued carries the sentinel generation `MaxUint32` -/
theorem issued_gen_bound (ops : List Op2) (hlen : ops.length < 2 ^ 16) :
    ∀ (h : Ent), h ∈ (reach2 run cap rel ops).issued → h.gen ≤ ops.length ∧ h.gen ≠ maxU32 :=
  reach2_issued_gen run cap rel ops hlen

/-- `Shrink`, the filter operations and queries leave the specification and the handles alone -/
theorem quiet_keeps_spec (s : St) (op : Op2) (hq : op.isQuiet = true) :
    (step2 run s op).ss = s.ss ∧ (step2 run s op).issued = s.issued :=
  quiet_spec run s op hq

/-- **`Shrink` (C15), the filter operations and queries are invisible**: no entity — alive or
    not — changes components, values or relation targets; aliveness of every handle is unchanged -/
theorem quiet_is_invisible {s : St} {fl : List Nat} (H : HInv2 s fl)
    (hent : 2 * s.w.entities.length < 2 ^ 32) (op : Op2) (hq : op.isQuiet = true) (j : Nat) :
    (SameEnt s.w (step2 run s op).w j ∧
      ∀ (c : Comp), targetOf (step2 run s op).w j c = targetOf s.w j c) ∧
    ∀ (h : Ent), (step2 run s op).w.alive h = s.w.alive h :=
  quiet_invisible run H hent op hq j

/-- `Shrink` as a step of the relation machine: the invariant (hence refinement) is kept with
    the specification unchanged -/
theorem shrink_step {s : St} {fl : List Nat} (H : HInv2 s fl)
    (hent : 2 * s.w.entities.length < 2 ^ 32) (bounded : Bool) :
    (∃ fl', HInv2 (step2 run s (.shrink bounded)) fl') ∧
    (step2 run s (.shrink bounded)).ss = s.ss :=
  ⟨(step2_shrink run H hent bounded).1, (quiet_spec run s (.shrink bounded) rfl).1⟩

/-- **`copy e` assigns**: for a handle the client holds whose entry is `en`, `CopyEntity`
    succeeds and returns the pool's next handle; the specification gets `en` a second time under
    that handle; in the world the copy has exactly the components, values and relation targets
    of `e`, and no other entity changes -/
theorem copy_assigns {s : St} {fl : List Nat} (H : HInv2 s fl)
    (hent : 2 * s.w.entities.length < 2 ^ 32) {e : Ent} {en : Entry} (hi : e ∈ s.issued)
    (hf : find s.ss.ents e = some en) :
    (step2 run s (.copy e)).ss.ents = ((s.w.pool.get).2, en) :: s.ss.ents ∧
    (step2 run s (.copy e)).issued = (s.w.pool.get).2 :: s.issued ∧
    opCopyEntity run e s.w = .ok (s.w.pool.get).2 (step2 run s (.copy e)).w ∧
    compsOf (step2 run s (.copy e)).w (s.w.pool.get).2.id = compsOf s.w e.id ∧
    (∀ (c : Comp), valOf (step2 run s (.copy e)).w (s.w.pool.get).2.id c = valOf s.w e.id c) ∧
    (∀ (c : Comp), targetOf (step2 run s (.copy e)).w (s.w.pool.get).2.id c = targetOf s.w e.id c) ∧
    ∀ (j : Nat), j ≠ (s.w.pool.get).2.id →
      SameEnt s.w (step2 run s (.copy e)).w j ∧
      ∀ (c : Comp), targetOf (step2 run s (.copy e)).w j c = targetOf s.w j c :=
  RelRefine2.copy_assigns run H hent hi hf

/-- `copy e` on a handle that is not alive is rejected without effect -/
theorem copy_rejected {s : St} {fl : List Nat} (H : HInv2 s fl) {e : Ent}
    (ha : s.w.alive e = false) : step2 run s (.copy e) = s :=
  RelRefine2.copy_rejected run H ha

/-- `CopyEntity` at world level, in a world with relations: never fails for a live entity -/
theorem copyEntity_rel {w : World} {fl : List Nat} (h : TInv w fl)
    (hl : w.isLocked = false) (hno : ∀ (evt : Nat), w.obs.hasObservers evt = false) {src : Ent}
    (h2 : 2 ≤ src.id) (hnf : src.id ∉ fl) (ha : w.alive src = true) (hsl : src.id < w.pool.ents.length)
    (hrows : w.entities.length + 1 < 2 ^ 32) :
    ∃ (w' : World), opCopyEntity run src w = .ok (w.pool.get).2 w' ∧
      CopyRelPost w fl src (w.pool.get).2 w' :=
  opCopyEntity_rel_spec run h hl hno h2 hnf ha hsl hrows

/-! ## non-vacuity: the history of `Ark.Props.C05Rel` -/

open Ark.Props.C05Rel

/-- the model agrees with the specification entry by entry (decidable form of `refines`) -/
def agrees (s : St) : Bool :=
  s.ss.ents.all fun x =>
    s.w.alive x.1 && (compsOf s.w x.1.id == some (sortedIds s.w.kinds.length (keys x.2.comps))) &&
      (x.2.comps.all fun cv => valOf s.w x.1.id cv.1 == some cv.2) &&
      (x.2.rels.all fun r => targetOf s.w x.1.id r.comp == some r.target)

/-- the specification at the end of the history (children 4, 5 detached from the removed parent
    `2.0`; the new child `6.1` of the new parent `2.1`), and the model agrees with it — also right
    after `Shrink` -/
example :
    (reach2 noRun 2 2 demoOps).ss.ents =
      [(⟨6, 1⟩, ⟨[(0, 0), (1, 5)], [⟨0, p3⟩]⟩), (p3, ⟨[], []⟩),
       (⟨5, 0⟩, ⟨[(0, 0), (1, 8)], [⟨0, Ent.zero⟩]⟩), (⟨4, 0⟩, ⟨[(0, 0), (1, 7)], [⟨0, Ent.zero⟩]⟩),
       (p2, ⟨[], []⟩)] ∧
    agrees (reach2 noRun 2 2 demoOps) = true ∧
    agrees (reach2 noRun 2 2 (demoOps.take 16)) = true ∧
    (reach2 noRun 2 2 (demoOps.take 16)).ss.ents = (reach2 noRun 2 2 (demoOps.take 15)).ss.ents := by
  decide +kernel

/-- the quiet operations of the history, and the size bound of `quiet_is_invisible` -/
example :
    (demoOps.map (·.isQuiet)) =
      [false, false, false, false, true, true, true, true, true, true, false, false, false, true,
       false, true, false, false, false, true, true] ∧
    2 * (reach2 noRun 2 2 (demoOps.take 15)).w.entities.length < 2 ^ 32 := by
  decide +kernel

/-- `copy 6.1` in the final state (the child of `2.1`): the copy `7.0` is a child of `2.1` too
    with the same `Pos`; the specification and the model agree; the cache entry of filter 1 still
    lists the copy's table; copying the dead handle `2.0` changes nothing -/
example :
    (⟨6, 1⟩ : Ent) ∈ (reach2 noRun 2 2 demoOps).issued ∧
    find (reach2 noRun 2 2 demoOps).ss.ents ⟨6, 1⟩ = some ⟨[(0, 0), (1, 5)], [⟨0, p3⟩]⟩ ∧
    ((step2 noRun (reach2 noRun 2 2 demoOps) (.copy ⟨6, 1⟩)).ss.ents.head?) =
      some (⟨7, 0⟩, ⟨[(0, 0), (1, 5)], [⟨0, p3⟩]⟩) ∧
    agrees (step2 noRun (reach2 noRun 2 2 demoOps) (.copy ⟨6, 1⟩)) = true ∧
    (targetOf (step2 noRun (reach2 noRun 2 2 demoOps) (.copy ⟨6, 1⟩)).w 7 0,
      valOf (step2 noRun (reach2 noRun 2 2 demoOps) (.copy ⟨6, 1⟩)).w 7 1) = (some p3, some 5) ∧
    cacheSummary (step2 noRun (reach2 noRun 2 2 demoOps) (.copy ⟨6, 1⟩)).w =
      [(2, [⟨0, Ent.zero⟩], [2]), (1, [], [2, 1])] ∧
    (reach2 noRun 2 2 demoOps).w.alive p1 = false ∧
    (step2 noRun (reach2 noRun 2 2 demoOps) (.copy p1)).ss.ents =
      (reach2 noRun 2 2 demoOps).ss.ents := by
  decide +kernel

/-- the history with `Reset` of `Ark.Props.C05Rel` (`resetOps`): the model agrees with the
    specification right after `Reset` (nothing to agree on), in the new epoch — the child `4.0` of
    the re-issued parent `2.0` sits in the recycled relation table — and at the end, where the
    child is detached from the removed parent -/
example :
    (reach2 noRun 2 2 (resetOps.take 22)).ss.ents = [] ∧
    agrees (reach2 noRun 2 2 (resetOps.take 27)) = true ∧
    (reach2 noRun 2 2 (resetOps.take 27)).ss.ents =
      [(⟨4, 0⟩, ⟨[(0, 0), (1, 7)], [⟨0, p1⟩]⟩), (p2, ⟨[], []⟩), (p1, ⟨[], []⟩)] ∧
    agrees (reach2 noRun 2 2 resetOps) = true ∧
    (reach2 noRun 2 2 resetOps).ss.ents =
      [(⟨6, 0⟩, ⟨[(0, 0), (1, 3)], [⟨0, Ent.zero⟩]⟩), (⟨5, 0⟩, ⟨[(0, 0), (1, 9)], [⟨0, p2⟩]⟩),
       (⟨4, 0⟩, ⟨[(0, 0), (1, 7)], [⟨0, Ent.zero⟩]⟩), (p2, ⟨[], []⟩)] ∧
    resetOps.length < 2 ^ 16 := by
  refine ⟨?_, ?_, ?_, ?_, ?_, ?_⟩ <;> decide +kernel

end Ark.Props.C01Rel
