/-
  Ark.Props.C01Refine — C01 for the non-relation, observer-free fragment WITH components, over
  histories of ANY length:

    "after any sequence of valid operations every alive entity has exactly the set of components
     those operations imply, every component holds the value most recently written, and an
     operation on one entity never changes any other entity."

  The abstract specification (`Ark.Refine.Spec` = alive handle ↦ component ↦ value, with the
  specification step `Ark.Refine.specStep`) and the history machine (`Ark.Refine.step`: the model
  operation and the specification step, in lock step from `World.init cap rel`) are defined in
  Ark/Proofs/Refine.lean together with the inductive invariant; this file states the property
  theorems.  The operations of the machine (`Ark.Refine.Op`, run by `Ark.Refine.exec`):

    reg            `registerComponent`
    new p / new0   `opNewEntity p` (any access path `p`: `Unsafe`, `Map`, `MapN`) / `opNewEntity0`
    add p / rem p  `opAdd p` / `opRemove p`
    xchg p         `opExchange p` (`Unsafe.Exchange` + writes, `ExchangeN.Exchange`)
    set            `opSet`                    del     `opRemoveEntity`
    copy           `opCopyEntity`             shrink  `opShrink bounded`
    reset          `opReset`

  Scope (what is a step of the machine, `Ark.Refine.guard`): handles are opaque in the Go API and
  component IDs are obtained by registration, so an operation on a handle that no `new`/`copy`
  returned (in the current epoch, see `reset_effect`), or an `add`/`new`/`xchg` adding an
  unregistered component ID, is not a step.  Everything else is: dead handles, components already
  present / absent, "added and removed", empty and duplicate lists, a full registry — the
  specification leaves its state unchanged and the model panics without effect (`rejected`).

  Bound: `ops.length < 2^32 − 2` (table IDs and row numbers fit `uint32`; every operation
  creates at most one table and one index slot).
-/
import Ark.Proofs.Refine

set_option autoImplicit false

namespace Ark.Props.C01Refine
open Ark Ark.World Ark.Refine Ark.Props.C01World

variable (run : ProbeRunner) (cap rel : Nat)

/-! ## the invariant along histories -/

/-- the joint invariant `CInv` (index ↔ rows ↔ pool ↔ archetypes/tables) holds after every
    history -/
theorem reach_cinv (ops : List Op) (hlen : ops.length < 2 ^ 32 - 2) :
    ∃ fl, CInv (reach run cap rel ops).w fl := by
  obtain ⟨fl, h⟩ := reach_hinv run cap rel ops hlen
  exact ⟨fl, h.cinv⟩

/-- the specification's registry is the model's: same number of component types, same
    zero-size flags -/
theorem registry_agrees (ops : List Op) (hlen : ops.length < 2 ^ 32 - 2) :
    (reach run cap rel ops).ss.zst = (reach run cap rel ops).w.kinds.map (·.zst) := by
  obtain ⟨fl, h⟩ := reach_hinv run cap rel ops hlen
  exact h.zstEq

/-! ## refinement -/

/-- **refines** — after every history, for every entry `(e, comps)` of the specification:
    `e` is alive, its component set is the sorted list of the keys of `comps`, and every
    component holds the recorded value; the keys are distinct registered IDs. -/
theorem refines (ops : List Op) (hlen : ops.length < 2 ^ 32 - 2) (e : Ent) (comps : Comps)
    (hm : (e, comps) ∈ (reach run cap rel ops).ss.ents) :
    (reach run cap rel ops).w.alive e = true ∧
    compsOf (reach run cap rel ops).w e.id =
      some (sortedIds (reach run cap rel ops).w.kinds.length (keys comps)) ∧
    (∀ cv ∈ comps, valOf (reach run cap rel ops).w e.id cv.1 = some cv.2) ∧
    (keys comps).Nodup ∧ (∀ c ∈ keys comps, c < (reach run cap rel ops).w.kinds.length) := by
  obtain ⟨fl, h⟩ := reach_hinv run cap rel ops hlen
  obtain ⟨_, ha, _⟩ := h.live_facts hm
  have ok := h.ok e comps hm
  exact ⟨ha, ok.comps, ok.vals, ok.nodup, ok.reg⟩

/-- … and a component that is not a key of the entry is absent -/
theorem refines_absent (ops : List Op) (hlen : ops.length < 2 ^ 32 - 2) (e : Ent) (comps : Comps)
    (hm : (e, comps) ∈ (reach run cap rel ops).ss.ents) (c : Comp) (hc : c ∉ keys comps) :
    valOf (reach run cap rel ops).w e.id c = none := by
  obtain ⟨_, hcs, _⟩ := refines run cap rel ops hlen e comps hm
  exact valOf_none_of_comps hcs (fun hh => hc (mem_sortedIds.mp hh).2)

/-- `sortedIds n ks` is the strictly ascending list of the members of `ks` below `n` -/
theorem sortedIds_sorted (n : Nat) (ks : List Comp) :
    (sortedIds n ks).Pairwise (· < ·) ∧ ∀ c, c ∈ sortedIds n ks ↔ c < n ∧ c ∈ ks :=
  ⟨List.Pairwise.filter _ List.pairwise_lt_range, fun _ => mem_sortedIds⟩

/-- **exactly the alive entities are specified**: a handle returned by some `new` is alive iff
    the specification has an entry for it; the entries have pairwise different handles -/
theorem alive_iff_specified (ops : List Op) (hlen : ops.length < 2 ^ 32 - 2) (h : Ent)
    (hi : h ∈ (reach run cap rel ops).issued) :
    (reach run cap rel ops).w.alive h = true ↔ h ∈ (reach run cap rel ops).ss.ents.map (·.1) := by
  obtain ⟨fl, hinv⟩ := reach_hinv run cap rel ops hlen
  exact Pool.alive_iff_live _ fl hinv.ginv h hi

/-- every handle ever returned that is not in the specification is not alive -/
theorem unspecified_dead (ops : List Op) (hlen : ops.length < 2 ^ 32 - 2) (h : Ent)
    (hi : h ∈ (reach run cap rel ops).issued)
    (hn : h ∉ (reach run cap rel ops).ss.ents.map (·.1)) :
    (reach run cap rel ops).w.alive h = false := by
  cases ha : (reach run cap rel ops).w.alive h with
  | false => rfl
  | true => exact absurd ((alive_iff_specified run cap rel ops hlen h hi).mp ha) hn

theorem spec_handles_nodup (ops : List Op) (hlen : ops.length < 2 ^ 32 - 2) :
    ((reach run cap rel ops).ss.ents.map (·.1)).Nodup ∧
    (∀ h ∈ (reach run cap rel ops).ss.ents.map (·.1), h ∈ (reach run cap rel ops).issued) ∧
    (reach run cap rel ops).issued.Nodup := by
  obtain ⟨fl, hinv⟩ := reach_hinv run cap rel ops hlen
  exact ⟨hinv.ginv.live_nodup, hinv.ginv.live_issued, hinv.nodup⟩

/-! ## invalid operations are rejected without effect, valid ones succeed -/

/-- **rejected** — an expressible operation (`guard`) whose precondition (`pre`, a statement
    about the specification only) fails: the model panics with the world unchanged, and the
    whole machine state (world, returned handles, specification) is unchanged. -/
theorem rejected (ops : List Op) (op : Op) (hlen : ops.length + 1 < 2 ^ 32 - 2)
    (hg : guard (reach run cap rel ops) op = true) (hnp : ¬ pre (reach run cap rel ops).ss op) :
    (∃ k, exec run (reach run cap rel ops).w op = .panic k (reach run cap rel ops).w) ∧
    (∀ fresh, specStep (reach run cap rel ops).ss fresh op = (reach run cap rel ops).ss) ∧
    reach run cap rel (ops ++ [op]) = reach run cap rel ops := by
  obtain ⟨fl, h⟩ := reach_hinv run cap rel ops (by omega)
  have hfew : (reach run cap rel ops).w.tables.length < maxU32 ∧
      (reach run cap rel ops).w.entities.length + 1 < 2 ^ 32 := by
    have := reach_bounds run cap rel ops (by omega)
    simp only [maxU32]; omega
  obtain ⟨_, _, _, hrej, _, _⟩ := step_goal run h hfew.1 hfew.2 op
  obtain ⟨k, hk⟩ := hrej hg hnp
  have hspec : ∀ fresh, specStep (reach run cap rel ops).ss fresh op = (reach run cap rel ops).ss :=
    fun fresh => specStep_of_not_pre _ fresh op hnp
  refine ⟨⟨k, hk⟩, hspec, ?_⟩
  rw [reach_snoc, step_of_guard hg, hk]
  simp only [Res.state, retOf, issuedAfter, hspec]

/-- **accepted** — an expressible operation whose precondition holds succeeds -/
theorem accepted (ops : List Op) (op : Op) (hlen : ops.length + 1 < 2 ^ 32 - 2)
    (hg : guard (reach run cap rel ops) op = true) (hp : pre (reach run cap rel ops).ss op) :
    ∃ r w', exec run (reach run cap rel ops).w op = .ok r w' := by
  obtain ⟨fl, h⟩ := reach_hinv run cap rel ops (by omega)
  have hfew : (reach run cap rel ops).w.tables.length < maxU32 ∧
      (reach run cap rel ops).w.entities.length + 1 < 2 ^ 32 := by
    have := reach_bounds run cap rel ops (by omega)
    simp only [maxU32]; omega
  obtain ⟨_, _, _, _, hacc, _⟩ := step_goal run h hfew.1 hfew.2 op
  exact hacc hg hp

/-! ## frame -/

/-- **frame** (specification): the step for an operation on `e` (`target`: the handle the
    operation names, the fresh handle for `new`/`new0`/`copy`, nothing for `reg`/`shrink`) changes
    only `e`'s entry.  `Reset`, the one operation that is about the whole world, is excluded. -/
theorem frame (ss : SS) (fresh : Ent) (op : Op) (x : Ent) (hr : op.isReset = false)
    (hx : target fresh op ≠ some x) : find (specStep ss fresh op).ents x = find ss.ents x :=
  specStep_frame ss fresh op x hr hx

/-- the exclusion of `Reset` is necessary: it has no target, and it removes every entry -/
example :
    target ⟨9, 9⟩ .reset ≠ some ⟨2, 0⟩ ∧
    find (specStep ⟨[(⟨2, 0⟩, [])], []⟩ ⟨9, 9⟩ .reset).ents ⟨2, 0⟩ = none ∧
    find (⟨[(⟨2, 0⟩, [])], []⟩ : SS).ents ⟨2, 0⟩ = some [] := by
  decide +kernel

/-- **frame** (model): an operation on one entity never changes another one — every specified
    entity other than the target has the same component set and the same values before and
    after the operation. -/
theorem frame_world (ops : List Op) (op : Op) (hlen : ops.length + 1 < 2 ^ 32 - 2) (x : Ent)
    (comps : Comps) (hm : (x, comps) ∈ (reach run cap rel ops).ss.ents)
    (hr : op.isReset = false) (hx : ∀ fresh, target fresh op ≠ some x) :
    compsOf (reach run cap rel (ops ++ [op])).w x.id = compsOf (reach run cap rel ops).w x.id ∧
    ∀ c : Comp, valOf (reach run cap rel (ops ++ [op])).w x.id c =
      valOf (reach run cap rel ops).w x.id c := by
  obtain ⟨fl, h⟩ := reach_hinv run cap rel ops (by omega)
  have hnd := h.ginv.live_nodup
  have hf : find (reach run cap rel ops).ss.ents x = some comps := find_of_mem hnd hm
  -- the entry of `x` after the step
  have hm' : (x, comps) ∈ (reach run cap rel (ops ++ [op])).ss.ents := by
    rw [reach_snoc]
    by_cases hg : guard (reach run cap rel ops) op = true
    · rw [step_of_guard hg]
      apply find_some_mem
      show find (specStep _ _ op).ents x = some comps
      rw [frame _ _ op x hr (hx _)]; exact hf
    · rw [step, if_neg hg]; exact hm
  obtain ⟨_, c1, v1, _, r1⟩ := refines run cap rel ops (by omega) x comps hm
  obtain ⟨_, c2, v2, _, r2⟩ := refines run cap rel (ops ++ [op])
    (by simp only [List.length_append, List.length_singleton]; omega) x comps hm'
  have hcs : compsOf (reach run cap rel (ops ++ [op])).w x.id =
      compsOf (reach run cap rel ops).w x.id := by
    rw [c1, c2, sortedIds_eq_of_bound r1 r2]
  refine ⟨hcs, fun c => ?_⟩
  by_cases hc : c ∈ keys comps
  · obtain ⟨cv, hcv, rfl⟩ := List.mem_map.mp hc
    rw [v1 cv hcv, v2 cv hcv]
  · rw [refines_absent run cap rel ops (by omega) x comps hm c hc,
      refines_absent run cap rel (ops ++ [op])
        (by simp only [List.length_append, List.length_singleton]; omega) x comps hm' c hc]

/-! ## last write wins -/

/-- **last_write_wins (`set`)** — after a valid `set e vals`, every component `c` of `e` reads the
    LAST value `vals` gives it (`lastVal`), its previous value if `vals` does not mention it; a
    zero-size component is not written. -/
theorem last_write_wins_set (ops : List Op) (e : Ent) (vals : Comps)
    (hlen : ops.length + 1 < 2 ^ 32 - 2) (comps : Comps)
    (hm : (e, comps) ∈ (reach run cap rel ops).ss.ents) (hv : ∀ cv ∈ vals, cv.1 ∈ keys comps)
    (c : Comp) (v : Val) (hc : (c, v) ∈ comps) :
    valOf (reach run cap rel (ops ++ [.set e vals])).w e.id c =
      some (if (reach run cap rel ops).ss.zst.getD c false = true then v
            else (lastVal vals c).getD v) := by
  obtain ⟨fl, h⟩ := reach_hinv run cap rel ops (by omega)
  obtain ⟨hi, _, _, _, hf, _⟩ := h.live_facts hm
  have hg : guard (reach run cap rel ops) (.set e vals) = true := by
    simp only [Refine.guard, decide_eq_true_eq]; exact hi
  have hm' : (e, writeComps (reach run cap rel ops).ss.zst vals comps) ∈
      (reach run cap rel (ops ++ [.set e vals])).ss.ents := by
    rw [reach_snoc, step_of_guard hg]
    apply find_some_mem
    simp only [specStep, hf, if_pos hv]
    exact find_upd_self _ hf
  obtain ⟨_, _, v2, _, _⟩ := refines run cap rel (ops ++ [.set e vals])
    (by simp only [List.length_append, List.length_singleton]; omega) e _ hm'
  have := v2 (c, if (reach run cap rel ops).ss.zst.getD c false = true then v
      else applyVals v vals c) (List.mem_map.mpr ⟨(c, v), hc, rfl⟩)
  rw [this, applyVals_eq_lastVal]

/-- **last_write_wins (`add`)** — after a valid `add e ids vals`, every added component reads the
    LAST value `vals` gives it, zero if `vals` does not mention it (always zero if zero-size);
    every component the entity had reads the last value written to it, else its old value. -/
theorem last_write_wins_add (ops : List Op) (p : Path) (e : Ent) (ids : List Comp) (vals : Comps)
    (hlen : ops.length + 1 < 2 ^ 32 - 2) (comps : Comps)
    (hm : (e, comps) ∈ (reach run cap rel ops).ss.ents)
    (hv : ids ≠ [] ∧ ids.Nodup ∧
      ∀ c ∈ ids, c < (reach run cap rel ops).ss.zst.length ∧ c ∉ keys comps) :
    (∀ c ∈ ids, valOf (reach run cap rel (ops ++ [.add p e ids vals])).w e.id c =
      some (if (reach run cap rel ops).ss.zst.getD c false = true then 0
            else (lastVal vals c).getD 0)) ∧
    (∀ (c : Comp) (v : Val), (c, v) ∈ comps →
      valOf (reach run cap rel (ops ++ [.add p e ids vals])).w e.id c =
        some (if (reach run cap rel ops).ss.zst.getD c false = true then v
              else (lastVal vals c).getD v)) := by
  obtain ⟨fl, h⟩ := reach_hinv run cap rel ops (by omega)
  obtain ⟨hi, _, _, _, hf, _⟩ := h.live_facts hm
  have hg : guard (reach run cap rel ops) (.add p e ids vals) = true := by
    simp only [Refine.guard, Bool.and_eq_true, decide_eq_true_eq, List.all_eq_true]
    exact ⟨hi, fun c hc => (hv.2.2 c hc).1⟩
  have hm' : (e, writeComps (reach run cap rel ops).ss.zst vals (comps ++ zeros ids)) ∈
      (reach run cap rel (ops ++ [.add p e ids vals])).ss.ents := by
    rw [reach_snoc, step_of_guard hg]
    apply find_some_mem
    simp only [specStep, hf, if_pos hv]
    exact find_upd_self _ hf
  obtain ⟨_, _, v2, _, _⟩ := refines run cap rel (ops ++ [.add p e ids vals])
    (by simp only [List.length_append, List.length_singleton]; omega) e _ hm'
  constructor
  · intro c hc
    have := v2 (c, if (reach run cap rel ops).ss.zst.getD c false = true then 0
        else applyVals 0 vals c)
      (List.mem_map.mpr ⟨(c, 0), List.mem_append_right _ (List.mem_map.mpr ⟨c, hc, rfl⟩), rfl⟩)
    rw [this, applyVals_eq_lastVal]
  · intro c v hc
    have := v2 (c, if (reach run cap rel ops).ss.zst.getD c false = true then v
        else applyVals v vals c)
      (List.mem_map.mpr ⟨(c, v), List.mem_append_left _ hc, rfl⟩)
    rw [this, applyVals_eq_lastVal]

/-- `lastVal vals c = some v` means: `(c, v)` is the LAST pair for `c` in `vals` -/
theorem lastVal_spec (vals : Comps) (c : Comp) (v : Val) :
    lastVal vals c = some v ↔
      ∃ pre post, vals = pre ++ (c, v) :: post ∧ ∀ cv ∈ post, cv.1 ≠ c :=
  lastVal_eq_some_iff vals c v

/-! ## exchange, copy, creation without components, shrink, reset -/

/-- **exchange** — after a valid `xchg p e add rem vals` (`XchgOK`: not both lists empty, `rem`
    distinct and present, `add` distinct, registered and absent): the removed components are gone,
    every added component reads the LAST value `vals` gives it (zero if none, always zero if
    zero-size), every component that stays reads the last value written to it, else its old value;
    the component set is the old one without `rem`, with `add`. -/
theorem last_write_wins_xchg (ops : List Op) (p : Path) (e : Ent) (add rem : List Comp)
    (vals : Comps) (hlen : ops.length + 1 < 2 ^ 32 - 2) (comps : Comps)
    (hm : (e, comps) ∈ (reach run cap rel ops).ss.ents)
    (hv : XchgOK (reach run cap rel ops).ss.zst.length comps add rem) :
    (∀ c ∈ rem, valOf (reach run cap rel (ops ++ [.xchg p e add rem vals])).w e.id c = none) ∧
    (∀ c ∈ add, valOf (reach run cap rel (ops ++ [.xchg p e add rem vals])).w e.id c =
      some (if (reach run cap rel ops).ss.zst.getD c false = true then 0
            else (lastVal vals c).getD 0)) ∧
    (∀ (c : Comp) (v : Val), (c, v) ∈ comps → c ∉ rem →
      valOf (reach run cap rel (ops ++ [.xchg p e add rem vals])).w e.id c =
        some (if (reach run cap rel ops).ss.zst.getD c false = true then v
              else (lastVal vals c).getD v)) ∧
    compsOf (reach run cap rel (ops ++ [.xchg p e add rem vals])).w e.id =
      some (sortedIds (reach run cap rel (ops ++ [.xchg p e add rem vals])).w.kinds.length
        (keys (comps.filter fun cv => decide (cv.1 ∉ rem)) ++ add)) := by
  obtain ⟨fl, h⟩ := reach_hinv run cap rel ops (by omega)
  obtain ⟨hi, _, _, _, hf, _⟩ := h.live_facts hm
  have hg : guard (reach run cap rel ops) (.xchg p e add rem vals) = true := by
    simp only [Refine.guard, Bool.and_eq_true, decide_eq_true_eq, List.all_eq_true]
    exact ⟨hi, fun c hc => (hv.2.2.2.2 c hc).1⟩
  have hm' : (e, writeComps (reach run cap rel ops).ss.zst vals
      ((comps.filter fun cv => decide (cv.1 ∉ rem)) ++ zeros add)) ∈
      (reach run cap rel (ops ++ [.xchg p e add rem vals])).ss.ents := by
    rw [reach_snoc, step_of_guard hg]
    apply find_some_mem
    simp only [specStep, hf, if_pos hv]
    exact find_upd_self _ hf
  have hlen' : (ops ++ [Op.xchg p e add rem vals]).length < 2 ^ 32 - 2 := by
    simp only [List.length_append, List.length_singleton]; omega
  obtain ⟨_, c2, v2, _, _⟩ := refines run cap rel _ hlen' e _ hm'
  have hk : keys (writeComps (reach run cap rel ops).ss.zst vals
      ((comps.filter fun cv => decide (cv.1 ∉ rem)) ++ zeros add)) =
      keys (comps.filter fun cv => decide (cv.1 ∉ rem)) ++ add := by
    rw [keys_writeComps, keys_append, keys_zeros]
  refine ⟨?_, ?_, ?_, by rw [c2, hk]⟩
  · intro c hc
    apply refines_absent run cap rel _ hlen' e _ hm'
    rw [hk, List.mem_append]
    rintro (h1 | h1)
    · exact (mem_keys_filter.mp h1).2 hc
    · exact (hv.2.2.2.2 c h1).2 (hv.2.2.1 c hc)
  · intro c hc
    have := v2 (c, if (reach run cap rel ops).ss.zst.getD c false = true then 0
        else applyVals 0 vals c)
      (List.mem_map.mpr ⟨(c, 0), List.mem_append_right _ (List.mem_map.mpr ⟨c, hc, rfl⟩), rfl⟩)
    rw [this, applyVals_eq_lastVal]
  · intro c v hc hnr
    have := v2 (c, if (reach run cap rel ops).ss.zst.getD c false = true then v
        else applyVals v vals c)
      (List.mem_map.mpr ⟨(c, v), List.mem_append_left _
        (List.mem_filter.mpr ⟨hc, by simpa using hnr⟩), rfl⟩)
    rw [this, applyVals_eq_lastVal]

/-- **copy** — a valid `copy e` returns a handle `e'` that was never returned before; the
    specification gets the entry `(e', comps)` with the entry `comps` of `e`; in the world after
    the call `e'` has the component set of `e` and, for every component, the value `e` has. -/
theorem copy_effect (ops : List Op) (e : Ent) (hlen : ops.length + 1 < 2 ^ 32 - 2) (comps : Comps)
    (hm : (e, comps) ∈ (reach run cap rel ops).ss.ents) :
    ∃ e' : Ent, e' ∉ (reach run cap rel ops).issued ∧
      (reach run cap rel (ops ++ [.copy e])).issued = e' :: (reach run cap rel ops).issued ∧
      (reach run cap rel (ops ++ [.copy e])).ss.ents = (e', comps) :: (reach run cap rel ops).ss.ents ∧
      (reach run cap rel (ops ++ [.copy e])).w.alive e' = true ∧
      compsOf (reach run cap rel (ops ++ [.copy e])).w e'.id =
        compsOf (reach run cap rel (ops ++ [.copy e])).w e.id ∧
      ∀ c : Comp, valOf (reach run cap rel (ops ++ [.copy e])).w e'.id c =
        valOf (reach run cap rel (ops ++ [.copy e])).w e.id c := by
  obtain ⟨fl, h⟩ := reach_hinv run cap rel ops (by omega)
  obtain ⟨hi, _, _, _, hf, _⟩ := h.live_facts hm
  have hg : guard (reach run cap rel ops) (.copy e) = true := by
    simp only [Refine.guard, decide_eq_true_eq]; exact hi
  obtain ⟨r, w', hex⟩ := accepted run cap rel ops (.copy e) hlen hg ⟨comps, hf⟩
  -- the call returns a handle
  obtain ⟨e', hr⟩ : ∃ e', r = some e' := by
    simp only [exec] at hex
    cases hc : opCopyEntity run e (reach run cap rel ops).w with
    | panic k w1 => rw [hc] at hex; cases hex
    | ok e1 w1 =>
      rw [hc] at hex
      injection hex with h1 _
      exact ⟨e1, h1.symm⟩
  subst hr
  have hstep : reach run cap rel (ops ++ [.copy e]) =
      ⟨w', e' :: (reach run cap rel ops).issued,
        ⟨(e', comps) :: (reach run cap rel ops).ss.ents, (reach run cap rel ops).ss.zst⟩⟩ := by
    rw [reach_snoc, step_of_guard_nr hg rfl, hex]
    simp only [Res.state, retOf, specStep, hf, Option.getD_some]
  have hlen' : (ops ++ [Op.copy e]).length < 2 ^ 32 - 2 := by
    simp only [List.length_append, List.length_singleton]; omega
  have hnd := (spec_handles_nodup run cap rel (ops ++ [.copy e]) hlen').2.2
  have hm1 : (e', comps) ∈ (reach run cap rel (ops ++ [.copy e])).ss.ents := by
    rw [hstep]; exact List.mem_cons_self
  have hm2 : (e, comps) ∈ (reach run cap rel (ops ++ [.copy e])).ss.ents := by
    rw [hstep]; exact List.mem_cons_of_mem _ hm
  obtain ⟨a1, c1, v1, _, _⟩ := refines run cap rel _ hlen' e' comps hm1
  obtain ⟨_, c2, v2, _, _⟩ := refines run cap rel _ hlen' e comps hm2
  refine ⟨e', ?_, by rw [hstep], by rw [hstep], a1, by rw [c1, c2], fun c => ?_⟩
  · rw [hstep] at hnd
    exact (List.nodup_cons.mp hnd).1
  · by_cases hc : c ∈ keys comps
    · obtain ⟨cv, hcv, rfl⟩ := List.mem_map.mp hc
      rw [v1 cv hcv, v2 cv hcv]
    · rw [refines_absent run cap rel _ hlen' e' comps hm1 c hc,
        refines_absent run cap rel _ hlen' e comps hm2 c hc]

/-- **creation without components** — `new0` always succeeds and returns a handle `e'` that was
    never returned before; the new entity is alive and has no component -/
theorem new0_effect (ops : List Op) (hlen : ops.length + 1 < 2 ^ 32 - 2) :
    ∃ e' : Ent, e' ∉ (reach run cap rel ops).issued ∧
      (reach run cap rel (ops ++ [.new0])).issued = e' :: (reach run cap rel ops).issued ∧
      (reach run cap rel (ops ++ [.new0])).ss.ents = (e', []) :: (reach run cap rel ops).ss.ents ∧
      (reach run cap rel (ops ++ [.new0])).w.alive e' = true ∧
      compsOf (reach run cap rel (ops ++ [.new0])).w e'.id = some [] := by
  have hg : guard (reach run cap rel ops) .new0 = true := rfl
  obtain ⟨r, w', hex⟩ := accepted run cap rel ops .new0 hlen hg trivial
  obtain ⟨e', hr⟩ : ∃ e', r = some e' := by
    simp only [exec] at hex
    cases hc : opNewEntity0 run (reach run cap rel ops).w with
    | panic k w1 => rw [hc] at hex; cases hex
    | ok e1 w1 =>
      rw [hc] at hex
      injection hex with h1 _
      exact ⟨e1, h1.symm⟩
  subst hr
  have hstep : reach run cap rel (ops ++ [.new0]) =
      ⟨w', e' :: (reach run cap rel ops).issued,
        ⟨(e', []) :: (reach run cap rel ops).ss.ents, (reach run cap rel ops).ss.zst⟩⟩ := by
    rw [reach_snoc, step_of_guard_nr hg rfl, hex]
    simp only [Res.state, retOf, specStep, Option.getD_some]
  have hlen' : (ops ++ [Op.new0]).length < 2 ^ 32 - 2 := by
    simp only [List.length_append, List.length_singleton]; omega
  have hnd := (spec_handles_nodup run cap rel (ops ++ [.new0]) hlen').2.2
  have hm1 : (e', []) ∈ (reach run cap rel (ops ++ [.new0])).ss.ents := by
    rw [hstep]; exact List.mem_cons_self
  obtain ⟨a1, c1, _⟩ := refines run cap rel _ hlen' e' [] hm1
  refine ⟨e', ?_, by rw [hstep], by rw [hstep], a1, by rw [c1]; simp [sortedIds, keys]⟩
  rw [hstep] at hnd
  exact (List.nodup_cons.mp hnd).1

/-- **Shrink is invisible** — `shrink` (bounded or not) always succeeds, leaves the specification
    and the set of handles unchanged, and every specified entity keeps its component set and all
    its values (this is `frame_world` for an operation without a target) -/
theorem shrink_invisible (ops : List Op) (bounded : Bool) (hlen : ops.length + 1 < 2 ^ 32 - 2) :
    (reach run cap rel (ops ++ [.shrink bounded])).ss = (reach run cap rel ops).ss ∧
    (reach run cap rel (ops ++ [.shrink bounded])).issued = (reach run cap rel ops).issued ∧
    ∀ (x : Ent) (comps : Comps), (x, comps) ∈ (reach run cap rel ops).ss.ents →
      compsOf (reach run cap rel (ops ++ [.shrink bounded])).w x.id =
        compsOf (reach run cap rel ops).w x.id ∧
      ∀ c : Comp, valOf (reach run cap rel (ops ++ [.shrink bounded])).w x.id c =
        valOf (reach run cap rel ops).w x.id c := by
  have hg : guard (reach run cap rel ops) (.shrink bounded) = true := rfl
  obtain ⟨r, w', hex⟩ := accepted run cap rel ops (.shrink bounded) hlen hg trivial
  have hr : r = none := by
    simp only [exec] at hex
    cases hc : opShrink bounded (reach run cap rel ops).w with
    | panic k w1 => rw [hc] at hex; cases hex
    | ok e1 w1 =>
      rw [hc] at hex
      injection hex with h1 _
      exact h1.symm
  subst hr
  have hstep : reach run cap rel (ops ++ [.shrink bounded]) =
      ⟨w', (reach run cap rel ops).issued, (reach run cap rel ops).ss⟩ := by
    rw [reach_snoc, step_of_guard_nr hg rfl, hex]
    simp only [Res.state, retOf, specStep]
  refine ⟨by rw [hstep], by rw [hstep], fun x comps hm => ?_⟩
  exact frame_world run cap rel ops (.shrink bounded) hlen x comps hm rfl
    (fun _ hh => by cases hh)

/-- the generation of an issued handle is at most the number of operations so far, so it is never
    the sentinel generation `maxU32` of reserved and invalidated pool slots -/
theorem issued_gen_bound (ops : List Op) (hlen : ops.length < 2 ^ 32 - 2) :
    ∀ h ∈ (reach run cap rel ops).issued, h.gen ≤ ops.length ∧ h.gen ≠ maxU32 :=
  (reach_genBound run cap rel ops hlen).2

/-- **Reset** — `reset` always succeeds; afterwards the specification has no entity, the registry
    is kept, no ID is indexed to a table any more, and the epoch of handles ends: nothing counts
    as issued, and every handle issued before is dead.  (`Reset` re-issues the very same handles
    — ID and generation — to later `new`s by design, which is why the ghost history starts
    afresh.  `Reset` writes the sentinel generation `maxU32` into the retained memory; a
    generation grows by one per `RemoveEntity` of its slot, so within the history bound no issued
    handle carries it: `issued_gen_bound`.) -/
theorem reset_effect (ops : List Op) (hlen : ops.length + 1 < 2 ^ 32 - 2) :
    (reach run cap rel (ops ++ [.reset])).ss.ents = [] ∧
    (reach run cap rel (ops ++ [.reset])).ss.zst = (reach run cap rel ops).ss.zst ∧
    (reach run cap rel (ops ++ [.reset])).issued = [] ∧
    (reach run cap rel (ops ++ [.reset])).w.kinds = (reach run cap rel ops).w.kinds ∧
    (∀ i : Nat, compsOf (reach run cap rel (ops ++ [.reset])).w i = none ∧
      ∀ c : Comp, valOf (reach run cap rel (ops ++ [.reset])).w i c = none) ∧
    ∀ h ∈ (reach run cap rel ops).issued,
      (reach run cap rel (ops ++ [.reset])).w.alive h = false := by
  obtain ⟨fl, hinv⟩ := reach_hinv run cap rel ops (by omega)
  have hg : guard (reach run cap rel ops) .reset = true := rfl
  obtain ⟨w', hop, post⟩ := opReset_spec hinv.cinv hinv.unlocked
  have hex : exec run (reach run cap rel ops).w .reset = .ok none w' := by simp only [exec, hop]
  have hstep : reach run cap rel (ops ++ [.reset]) =
      ⟨w', [], ⟨[], (reach run cap rel ops).ss.zst⟩⟩ := by
    rw [reach_snoc, step_of_guard hg, hex]
    simp only [Res.state, issuedAfter, Op.isReset, if_true, specStep]
  refine ⟨by rw [hstep], by rw [hstep], by rw [hstep], by rw [hstep]; exact post.kinds,
    by rw [hstep]; exact post.unindexed, fun h hi => ?_⟩
  rw [hstep]
  obtain ⟨h2, sl, hsl, _, _⟩ := hinv.ginv.issued_bound h hi
  exact post.dead h h2 (List.getElem?_eq_some_iff.mp hsl).1
    ((reach_genBound run cap rel ops (by omega)).2 h hi).2

/-! ## through any access path -/

/-- **any access path** — in every reachable state an operation gives the same result (world,
    returned handle, or panic) through `Unsafe…`, `Map…` and `MapN…` (`Op.withPath p` replaces the
    access path of `new`/`add`/`rem`/`xchg`), and the machine takes the same step: all the
    theorems of this file hold whichever path each operation of the history takes. -/
theorem any_access_path (ops : List Op) (op : Op) (p : Path) (hlen : ops.length < 2 ^ 32 - 2) :
    exec run (reach run cap rel ops).w (op.withPath p) = exec run (reach run cap rel ops).w op ∧
    reach run cap rel (ops ++ [op.withPath p]) = reach run cap rel (ops ++ [op]) := by
  obtain ⟨fl, h⟩ := reach_hinv run cap rel ops hlen
  exact ⟨exec_path_indep run _ h.unlocked h.cinv.noObs p op,
    by rw [reach_snoc, reach_snoc, step_path_indep run h p op]⟩

/-! ## non-vacuity: a concrete history -/

/-- three component types (ID 1 zero-size); entity `2.0` with `{0}` (value 7), entity `3.0` with
    `{1, 2}`; add `{2, 1}` to `2.0` writing component 2 twice (5, then 6) and the zero-size
    component 1; remove component 0 from it; set component 2 to 11; remove entity `3.0`; create a
    third entity `{0, 2}`, which recycles ID 3 with generation 1. -/
def demoOps : List Op :=
  [.reg 8 false, .reg 0 true, .reg 8 false,
   .new .unsafe_ [0] [(0, 7)], .new .typed [1, 2] [(2, 9)],
   .add .map1 ⟨2, 0⟩ [2, 1] [(2, 5), (2, 6), (1, 3)],
   .rem .typed ⟨2, 0⟩ [0],
   .set ⟨2, 0⟩ [(2, 11)],
   .del ⟨3, 0⟩,
   .new .map1 [0, 2] [(0, 1)]]

/-- the model agrees with the specification entry by entry (decidable form of `refines`) -/
def agrees (s : St) : Bool :=
  s.ss.ents.all fun x =>
    s.w.alive x.1 && (compsOf s.w x.1.id == some (sortedIds s.w.kinds.length (keys x.2))) &&
      x.2.all fun cv => valOf s.w x.1.id cv.1 == some cv.2

/-- after the `add`: the last write (6) wins for component 2, the zero-size component 1 reads 0,
    component 0 keeps 7 -/
example :
    (reach noProbe 4 1 (demoOps.take 6)).ss.ents =
      [(⟨3, 0⟩, [(1, 0), (2, 9)]), (⟨2, 0⟩, [(0, 7), (2, 6), (1, 0)])] ∧
    agrees (reach noProbe 4 1 (demoOps.take 6)) = true ∧
    (compsOf (reach noProbe 4 1 (demoOps.take 6)).w 2,
      valOf (reach noProbe 4 1 (demoOps.take 6)).w 2 0,
      valOf (reach noProbe 4 1 (demoOps.take 6)).w 2 1,
      valOf (reach noProbe 4 1 (demoOps.take 6)).w 2 2) =
      (some [0, 1, 2], some 7, some 0, some 6) := by
  decide +kernel

/-- the whole history: the specification … -/
example :
    (reach noProbe 4 1 demoOps).ss.ents =
      [(⟨3, 1⟩, [(0, 1), (2, 0)]), (⟨2, 0⟩, [(2, 11), (1, 0)])] ∧
    (reach noProbe 4 1 demoOps).ss.zst = [false, true, false] ∧
    (reach noProbe 4 1 demoOps).issued = [⟨3, 1⟩, ⟨3, 0⟩, ⟨2, 0⟩] := by
  decide +kernel

/-- … and the model: it agrees with the specification entry by entry; the removed handle `3.0`
    is dead, its ID is recycled by `3.1`; the removed component 0 of `2.0` is gone -/
example :
    agrees (reach noProbe 4 1 demoOps) = true ∧
    (reach noProbe 4 1 demoOps).issued.map (reach noProbe 4 1 demoOps).w.alive = [true, false, true] ∧
    (compsOf (reach noProbe 4 1 demoOps).w 2, compsOf (reach noProbe 4 1 demoOps).w 3) =
      (some [1, 2], some [0, 2]) := by
  decide +kernel

example :
    (valOf (reach noProbe 4 1 demoOps).w 2 0, valOf (reach noProbe 4 1 demoOps).w 2 1,
      valOf (reach noProbe 4 1 demoOps).w 2 2) = (none, some 0, some 11) ∧
    (valOf (reach noProbe 4 1 demoOps).w 3 0, valOf (reach noProbe 4 1 demoOps).w 3 1,
      valOf (reach noProbe 4 1 demoOps).w 3 2) = (some 1, none, some 0) := by
  decide +kernel

/-- rejected calls in a concrete state (after the two `new`): component 0 already present,
    component 2 absent, a component listed twice, `Set` of an absent component, a dead handle —
    the world comes back unchanged and the machine state does not move -/
example :
    (step noProbe (reach noProbe 4 1 (demoOps.take 5)) (.add .unsafe_ ⟨2, 0⟩ [0] [])).ss.ents =
      (reach noProbe 4 1 (demoOps.take 5)).ss.ents ∧
    (step noProbe (reach noProbe 4 1 (demoOps.take 5)) (.rem .unsafe_ ⟨2, 0⟩ [2])).ss.ents =
      (reach noProbe 4 1 (demoOps.take 5)).ss.ents ∧
    (step noProbe (reach noProbe 4 1 (demoOps.take 5)) (.add .unsafe_ ⟨2, 0⟩ [1, 1] [])).ss.ents =
      (reach noProbe 4 1 (demoOps.take 5)).ss.ents ∧
    (step noProbe (reach noProbe 4 1 (demoOps.take 5)) (.set ⟨2, 0⟩ [(1, 4)])).ss.ents =
      (reach noProbe 4 1 (demoOps.take 5)).ss.ents ∧
    retOf (exec noProbe (reach noProbe 4 1 (demoOps.take 5)).w (.add .unsafe_ ⟨2, 0⟩ [0] [])) = none ∧
    (exec noProbe (reach noProbe 4 1 (demoOps.take 5)).w (.add .unsafe_ ⟨2, 0⟩ [0] [])).state.entities =
      (reach noProbe 4 1 (demoOps.take 5)).w.entities ∧
    (exec noProbe (reach noProbe 4 1 demoOps).w (.set ⟨3, 0⟩ [])).state.entities =
      (reach noProbe 4 1 demoOps).w.entities := by
  decide +kernel

/-! ### a second history: `new0`, `xchg`, `copy`, `shrink`, `reset` -/

/-- entity `2.0` with `{0}` (value 7); entity `3.0` without components (`new0`); exchange on `2.0`:
    remove 0, add `{2, 1}`, writing 2 := 5 (the write to the removed component 0 has no effect);
    exchange on `3.0` through the typed path: add `{0}` := 4; copy `2.0` (→ `4.0`); set component 2
    of `2.0` to 8 (the copy keeps 5); four more entities in the table of `{0}` (its capacity grows
    to 8), removed again -/
def demoOps2a : List Op :=
  [.reg 8 false, .reg 0 true, .reg 8 false,
   .new .unsafe_ [0] [(0, 7)], .new0,
   .xchg .unsafe_ ⟨2, 0⟩ [2, 1] [0] [(2, 5), (0, 9)],
   .xchg .typed ⟨3, 0⟩ [0] [] [(0, 4)],
   .copy ⟨2, 0⟩, .set ⟨2, 0⟩ [(2, 8)],
   .new .map1 [0] [(0, 1)], .new .map1 [0] [(0, 2)], .new .map1 [0] [(0, 3)], .new .map1 [0] [(0, 5)],
   .del ⟨5, 0⟩, .del ⟨6, 0⟩, .del ⟨7, 0⟩, .del ⟨8, 0⟩]

/-- … then a bounded `Shrink` (the table of `{0}` goes back to capacity 4), `3.0` removed, `4.0`
    copied (the copy recycles ID 3 with generation 1) -/
def demoOps2 : List Op := demoOps2a ++ [.shrink true, .del ⟨3, 0⟩, .copy ⟨4, 0⟩]

/-- … then `Reset` and two creations: the handles `2.0` and `3.0` are issued again -/
def demoOps3 : List Op := demoOps2 ++ [.reset, .new .typed [2] [(2, 1)], .new0]

/-- the panic class of a call, if it panicked -/
def panicOf : Res World (Option Ent) → Option PanicKind
  | .ok _ _ => none
  | .panic k _ => some k

/-- the hypotheses of `last_write_wins_xchg` and `copy_effect` are satisfiable: before the first
    exchange `2.0` is specified with `{0}` and `XchgOK` holds for "remove 0, add 2 and 1"; it does
    not hold for a component both removed and added, nor when nothing is exchanged -/
example :
    (⟨2, 0⟩, [(0, 7)]) ∈ (reach noProbe 4 1 (demoOps2a.take 5)).ss.ents ∧
    XchgOK (reach noProbe 4 1 (demoOps2a.take 5)).ss.zst.length [(0, 7)] [2, 1] [0] ∧
    ¬ XchgOK (reach noProbe 4 1 (demoOps2a.take 5)).ss.zst.length [(0, 7)] [0] [0] ∧
    ¬ XchgOK (reach noProbe 4 1 (demoOps2a.take 5)).ss.zst.length [(0, 7)] [] [] ∧
    (⟨2, 0⟩, [(2, 5), (1, 0)]) ∈ (reach noProbe 4 1 (demoOps2a.take 7)).ss.ents := by
  decide +kernel

/-- after the exchanges, the copy and the `set`: specification and model -/
example :
    (reach noProbe 4 1 (demoOps2a.take 9)).ss.ents =
      [(⟨4, 0⟩, [(2, 5), (1, 0)]), (⟨3, 0⟩, [(0, 4)]), (⟨2, 0⟩, [(2, 8), (1, 0)])] ∧
    agrees (reach noProbe 4 1 (demoOps2a.take 9)) = true ∧
    (compsOf (reach noProbe 4 1 (demoOps2a.take 9)).w 2,
      valOf (reach noProbe 4 1 (demoOps2a.take 9)).w 2 0,
      valOf (reach noProbe 4 1 (demoOps2a.take 9)).w 2 2,
      valOf (reach noProbe 4 1 (demoOps2a.take 9)).w 4 2,
      compsOf (reach noProbe 4 1 (demoOps2a.take 9)).w 3) =
      (some [1, 2], none, some 8, some 5, some [0]) := by
  decide +kernel

/-- `Shrink` has work to do (the table of `{0}` has capacity 8 for one row) and is invisible -/
example :
    ((reach noProbe 4 1 demoOps2a).w.tables.map fun T => (T.ids, T.len, T.cap)) =
      [([], 0, 4), ([0], 1, 8), ([1, 2], 2, 4)] ∧
    ((reach noProbe 4 1 (demoOps2a ++ [.shrink true])).w.tables.map fun T => (T.ids, T.len, T.cap)) =
      [([], 0, 4), ([0], 1, 4), ([1, 2], 2, 4)] ∧
    (reach noProbe 4 1 (demoOps2a ++ [.shrink true])).ss.ents = (reach noProbe 4 1 demoOps2a).ss.ents ∧
    agrees (reach noProbe 4 1 (demoOps2a ++ [.shrink true])) = true := by
  decide +kernel

/-- the whole second history -/
example :
    (reach noProbe 4 1 demoOps2).ss.ents =
      [(⟨3, 1⟩, [(2, 5), (1, 0)]), (⟨4, 0⟩, [(2, 5), (1, 0)]), (⟨2, 0⟩, [(2, 8), (1, 0)])] ∧
    agrees (reach noProbe 4 1 demoOps2) = true ∧
    (reach noProbe 4 1 demoOps2).issued =
      [⟨3, 1⟩, ⟨8, 0⟩, ⟨7, 0⟩, ⟨6, 0⟩, ⟨5, 0⟩, ⟨4, 0⟩, ⟨3, 0⟩, ⟨2, 0⟩] ∧
    (reach noProbe 4 1 demoOps2).issued.map (reach noProbe 4 1 demoOps2).w.alive =
      [true, false, false, false, false, true, false, true] := by
  decide +kernel

/-- rejected exchanges in the state after the `set` (`2.0` has `{1, 2}`): a component both
    removed and added, a component already present, an absent component removed, both lists
    empty, a component added twice, a dead handle through either path — the world comes back
    unchanged and the specification does not move -/
example :
    [panicOf (exec noProbe (reach noProbe 4 1 (demoOps2a.take 9)).w (.xchg .unsafe_ ⟨2, 0⟩ [2] [2] [])),
     panicOf (exec noProbe (reach noProbe 4 1 (demoOps2a.take 9)).w (.xchg .unsafe_ ⟨2, 0⟩ [1] [] [])),
     panicOf (exec noProbe (reach noProbe 4 1 (demoOps2a.take 9)).w (.xchg .typed ⟨2, 0⟩ [] [0] [])),
     panicOf (exec noProbe (reach noProbe 4 1 (demoOps2a.take 9)).w (.xchg .unsafe_ ⟨2, 0⟩ [] [] [])),
     panicOf (exec noProbe (reach noProbe 4 1 (demoOps2a.take 9)).w (.xchg .unsafe_ ⟨2, 0⟩ [0, 0] [] [])),
     panicOf (exec noProbe (reach noProbe 4 1 demoOps2).w (.xchg .unsafe_ ⟨3, 0⟩ [1] [] [])),
     panicOf (exec noProbe (reach noProbe 4 1 demoOps2).w (.xchg .typed ⟨3, 0⟩ [1] [] [])),
     panicOf (exec noProbe (reach noProbe 4 1 demoOps2).w (.copy ⟨3, 0⟩))] =
      [some .addedAndRemoved, some .alreadyHas, some .missing, some .noComponents, some .alreadyHas,
       some .deadEntity, some .deadEntity, some .deadEntity] ∧
    (exec noProbe (reach noProbe 4 1 (demoOps2a.take 9)).w (.xchg .unsafe_ ⟨2, 0⟩ [2] [2] [])).state.tables =
      (reach noProbe 4 1 (demoOps2a.take 9)).w.tables ∧
    (exec noProbe (reach noProbe 4 1 (demoOps2a.take 9)).w (.xchg .unsafe_ ⟨2, 0⟩ [2] [2] [])).state.entities =
      (reach noProbe 4 1 (demoOps2a.take 9)).w.entities ∧
    (step noProbe (reach noProbe 4 1 (demoOps2a.take 9)) (.xchg .unsafe_ ⟨2, 0⟩ [2] [2] [])).ss.ents =
      (reach noProbe 4 1 (demoOps2a.take 9)).ss.ents := by
  decide +kernel

/-- `Reset`: the specification is empty, nothing counts as issued, the old handles are dead; the
    next two creations return `2.0` and `3.0` again, and the model agrees with the specification -/
example :
    (reach noProbe 4 1 (demoOps2 ++ [.reset])).ss.ents = [] ∧
    (reach noProbe 4 1 (demoOps2 ++ [.reset])).issued = [] ∧
    (reach noProbe 4 1 demoOps2).issued.map (reach noProbe 4 1 (demoOps2 ++ [.reset])).w.alive =
      [false, false, false, false, false, false, false, false] ∧
    (reach noProbe 4 1 demoOps3).issued = [⟨3, 0⟩, ⟨2, 0⟩] ∧
    (reach noProbe 4 1 demoOps3).ss.ents = [(⟨3, 0⟩, []), (⟨2, 0⟩, [(2, 1)])] ∧
    agrees (reach noProbe 4 1 demoOps3) = true ∧
    (compsOf (reach noProbe 4 1 demoOps3).w 2, valOf (reach noProbe 4 1 demoOps3).w 2 2,
      compsOf (reach noProbe 4 1 demoOps3).w 3, compsOf (reach noProbe 4 1 demoOps3).w 4) =
      (some [2], some 1, some [], none) := by
  decide +kernel

/-- **finding**: `Reset` keeps the memory behind the pool slice (`Pool.stale`), so the invariant
    of the fragment cannot demand `pool.stale = []` (as `CInv` did before `reset` became a step): it
    only holds invalidated handles (`CInv.stale`), and `Alive` of a handle whose ID lies inside
    the slice does not read it -/
example :
    (reach noProbe 4 1 (demoOps2 ++ [.reset])).w.pool.stale.length = 7 ∧
    ((reach noProbe 4 1 (demoOps2 ++ [.reset])).w.pool.stale.all fun e => e.gen == maxU32) = true ∧
    (reach noProbe 4 1 demoOps3).w.pool.stale.length = 5 := by
  decide +kernel

end Ark.Props.C01Refine
