/-
  Ark.Props.C01Refine — C01 for the non-relation, observer-free fragment WITH components, over
  histories of ANY length:

    "after any sequence of valid operations every alive entity has exactly the set of components
     those operations imply, every component holds the value most recently written, and an
     operation on one entity never changes any other entity."

  The abstract specification (`Ark.Refine.Spec` = alive handle ↦ component ↦ value, with the
  specification step `Ark.Refine.specStep`) and the history machine (`Ark.Refine.step`: the
  model operation `opNewEntity .unsafe_` / `opAdd .unsafe_` / `opRemove .unsafe_` / `opSet` /
  `opRemoveEntity` / `registerComponent` and the specification step, in lock step from
  `World.init cap rel`) are defined in Ark/Proofs/Refine.lean together with the inductive
  invariant; this file states the property theorems.

  Scope (what is a step of the machine, `Ark.Refine.guard`): handles are opaque in the Go API and
  component IDs are obtained by registration, so an operation on a handle that no `new` returned,
  or an `add`/`new` naming an unregistered component ID, is not a step.  Everything else is: dead
  handles, components already present / absent, empty and duplicate lists, a full registry — the
  specification leaves its state unchanged and the model panics without effect (`rejected`).

  Bound: `ops.length < 2^32 − 2` (table IDs and row numbers fit `uint32`; every operation
  creates at most one table and one index slot).
-/
import Ark.Proofs.Refine

set_option autoImplicit false

namespace Ark.Props.C01Refine
open Ark Ark.World Ark.Refine Ark.Props.C01World

variable (run : ProbeRunner) (cap rel : Nat)

/-! ## the invariant along histories -/

/-- the joint invariant `CInv` (index ↔ rows ↔ pool ↔ archetypes/tables) holds after every
    history -/
theorem reach_cinv (ops : List Op) (hlen : ops.length < 2 ^ 32 - 2) :
    ∃ fl, CInv (reach run cap rel ops).w fl := by
  obtain ⟨fl, h⟩ := reach_hinv run cap rel ops hlen
  exact ⟨fl, h.cinv⟩

/-- the specification's registry is the model's: same number of component types, same
    zero-size flags -/
theorem registry_agrees (ops : List Op) (hlen : ops.length < 2 ^ 32 - 2) :
    (reach run cap rel ops).ss.zst = (reach run cap rel ops).w.kinds.map (·.zst) := by
  obtain ⟨fl, h⟩ := reach_hinv run cap rel ops hlen
  exact h.zstEq

/-! ## refinement -/

/-- **refines** — after every history, for every entry `(e, comps)` of the specification:
    `e` is alive, its component set is the sorted list of the keys of `comps`, and every
    component holds the recorded value; the keys are distinct registered IDs. -/
theorem refines (ops : List Op) (hlen : ops.length < 2 ^ 32 - 2) (e : Ent) (comps : Comps)
    (hm : (e, comps) ∈ (reach run cap rel ops).ss.ents) :
    (reach run cap rel ops).w.alive e = true ∧
    compsOf (reach run cap rel ops).w e.id =
      some (sortedIds (reach run cap rel ops).w.kinds.length (keys comps)) ∧
    (∀ cv ∈ comps, valOf (reach run cap rel ops).w e.id cv.1 = some cv.2) ∧
    (keys comps).Nodup ∧ (∀ c ∈ keys comps, c < (reach run cap rel ops).w.kinds.length) := by
  obtain ⟨fl, h⟩ := reach_hinv run cap rel ops hlen
  obtain ⟨_, ha, _⟩ := h.live_facts hm
  have ok := h.ok e comps hm
  exact ⟨ha, ok.comps, ok.vals, ok.nodup, ok.reg⟩

/-- … and a component that is not a key of the entry is absent -/
theorem refines_absent (ops : List Op) (hlen : ops.length < 2 ^ 32 - 2) (e : Ent) (comps : Comps)
    (hm : (e, comps) ∈ (reach run cap rel ops).ss.ents) (c : Comp) (hc : c ∉ keys comps) :
    valOf (reach run cap rel ops).w e.id c = none := by
  obtain ⟨_, hcs, _⟩ := refines run cap rel ops hlen e comps hm
  exact valOf_none_of_comps hcs (fun hh => hc (mem_sortedIds.mp hh).2)

/-- `sortedIds n ks` is the strictly ascending list of the members of `ks` below `n` -/
theorem sortedIds_sorted (n : Nat) (ks : List Comp) :
    (sortedIds n ks).Pairwise (· < ·) ∧ ∀ c, c ∈ sortedIds n ks ↔ c < n ∧ c ∈ ks :=
  ⟨List.Pairwise.filter _ List.pairwise_lt_range, fun _ => mem_sortedIds⟩

/-- **exactly the alive entities are specified**: a handle returned by some `new` is alive iff
    the specification has an entry for it; the entries have pairwise different handles -/
theorem alive_iff_specified (ops : List Op) (hlen : ops.length < 2 ^ 32 - 2) (h : Ent)
    (hi : h ∈ (reach run cap rel ops).issued) :
    (reach run cap rel ops).w.alive h = true ↔ h ∈ (reach run cap rel ops).ss.ents.map (·.1) := by
  obtain ⟨fl, hinv⟩ := reach_hinv run cap rel ops hlen
  exact Pool.alive_iff_live _ fl hinv.ginv h hi

/-- every handle ever returned that is not in the specification is not alive -/
theorem unspecified_dead (ops : List Op) (hlen : ops.length < 2 ^ 32 - 2) (h : Ent)
    (hi : h ∈ (reach run cap rel ops).issued)
    (hn : h ∉ (reach run cap rel ops).ss.ents.map (·.1)) :
    (reach run cap rel ops).w.alive h = false := by
  cases ha : (reach run cap rel ops).w.alive h with
  | false => rfl
  | true => exact absurd ((alive_iff_specified run cap rel ops hlen h hi).mp ha) hn

theorem spec_handles_nodup (ops : List Op) (hlen : ops.length < 2 ^ 32 - 2) :
    ((reach run cap rel ops).ss.ents.map (·.1)).Nodup ∧
    (∀ h ∈ (reach run cap rel ops).ss.ents.map (·.1), h ∈ (reach run cap rel ops).issued) ∧
    (reach run cap rel ops).issued.Nodup := by
  obtain ⟨fl, hinv⟩ := reach_hinv run cap rel ops hlen
  exact ⟨hinv.ginv.live_nodup, hinv.ginv.live_issued, hinv.nodup⟩

/-! ## invalid operations are rejected without effect, valid ones succeed -/

/-- **rejected** — an expressible operation (`guard`) whose precondition (`pre`, a statement
    about the specification only) fails: the model panics with the world unchanged, and the
    whole machine state (world, returned handles, specification) is unchanged. -/
theorem rejected (ops : List Op) (op : Op) (hlen : ops.length + 1 < 2 ^ 32 - 2)
    (hg : guard (reach run cap rel ops) op = true) (hnp : ¬ pre (reach run cap rel ops).ss op) :
    (∃ k, exec run (reach run cap rel ops).w op = .panic k (reach run cap rel ops).w) ∧
    (∀ fresh, specStep (reach run cap rel ops).ss fresh op = (reach run cap rel ops).ss) ∧
    reach run cap rel (ops ++ [op]) = reach run cap rel ops := by
  obtain ⟨fl, h⟩ := reach_hinv run cap rel ops (by omega)
  have hfew : (reach run cap rel ops).w.tables.length < maxU32 ∧
      (reach run cap rel ops).w.entities.length + 1 < 2 ^ 32 := by
    have := reach_bounds run cap rel ops (by omega)
    simp only [maxU32]; omega
  obtain ⟨_, _, _, hrej, _⟩ := step_goal run h hfew.1 hfew.2 op
  obtain ⟨k, hk⟩ := hrej hg hnp
  have hspec : ∀ fresh, specStep (reach run cap rel ops).ss fresh op = (reach run cap rel ops).ss :=
    fun fresh => specStep_of_not_pre _ fresh op hnp
  refine ⟨⟨k, hk⟩, hspec, ?_⟩
  rw [reach_snoc, step_of_guard hg, hk]
  simp only [Res.state, retOf, hspec]

/-- **accepted** — an expressible operation whose precondition holds succeeds -/
theorem accepted (ops : List Op) (op : Op) (hlen : ops.length + 1 < 2 ^ 32 - 2)
    (hg : guard (reach run cap rel ops) op = true) (hp : pre (reach run cap rel ops).ss op) :
    ∃ r w', exec run (reach run cap rel ops).w op = .ok r w' := by
  obtain ⟨fl, h⟩ := reach_hinv run cap rel ops (by omega)
  have hfew : (reach run cap rel ops).w.tables.length < maxU32 ∧
      (reach run cap rel ops).w.entities.length + 1 < 2 ^ 32 := by
    have := reach_bounds run cap rel ops (by omega)
    simp only [maxU32]; omega
  obtain ⟨_, _, _, _, hacc⟩ := step_goal run h hfew.1 hfew.2 op
  exact hacc hg hp

/-! ## frame -/

/-- **frame** (specification): the step for an operation on `e` (`target`: the handle the
    operation names, the fresh handle for `new`, nothing for `reg`) changes only `e`'s entry -/
theorem frame (ss : SS) (fresh : Ent) (op : Op) (x : Ent) (hx : target fresh op ≠ some x) :
    find (specStep ss fresh op).ents x = find ss.ents x :=
  specStep_frame ss fresh op x hx

/-- **frame** (model): an operation on one entity never changes another one — every specified
    entity other than the target has the same component set and the same values before and
    after the operation. -/
theorem frame_world (ops : List Op) (op : Op) (hlen : ops.length + 1 < 2 ^ 32 - 2) (x : Ent)
    (comps : Comps) (hm : (x, comps) ∈ (reach run cap rel ops).ss.ents)
    (hx : ∀ fresh, target fresh op ≠ some x) :
    compsOf (reach run cap rel (ops ++ [op])).w x.id = compsOf (reach run cap rel ops).w x.id ∧
    ∀ c : Comp, valOf (reach run cap rel (ops ++ [op])).w x.id c =
      valOf (reach run cap rel ops).w x.id c := by
  obtain ⟨fl, h⟩ := reach_hinv run cap rel ops (by omega)
  have hnd := h.ginv.live_nodup
  have hf : find (reach run cap rel ops).ss.ents x = some comps := find_of_mem hnd hm
  -- the entry of `x` after the step
  have hm' : (x, comps) ∈ (reach run cap rel (ops ++ [op])).ss.ents := by
    rw [reach_snoc]
    by_cases hg : guard (reach run cap rel ops) op = true
    · rw [step_of_guard hg]
      apply find_some_mem
      show find (specStep _ _ op).ents x = some comps
      rw [frame _ _ op x (hx _)]; exact hf
    · rw [step, if_neg hg]; exact hm
  obtain ⟨_, c1, v1, _, r1⟩ := refines run cap rel ops (by omega) x comps hm
  obtain ⟨_, c2, v2, _, r2⟩ := refines run cap rel (ops ++ [op])
    (by simp only [List.length_append, List.length_singleton]; omega) x comps hm'
  have hcs : compsOf (reach run cap rel (ops ++ [op])).w x.id =
      compsOf (reach run cap rel ops).w x.id := by
    rw [c1, c2, sortedIds_eq_of_bound r1 r2]
  refine ⟨hcs, fun c => ?_⟩
  by_cases hc : c ∈ keys comps
  · obtain ⟨cv, hcv, rfl⟩ := List.mem_map.mp hc
    rw [v1 cv hcv, v2 cv hcv]
  · rw [refines_absent run cap rel ops (by omega) x comps hm c hc,
      refines_absent run cap rel (ops ++ [op])
        (by simp only [List.length_append, List.length_singleton]; omega) x comps hm' c hc]

/-! ## last write wins -/

/-- **last_write_wins (`set`)** — after a valid `set e vals`, every component `c` of `e` reads the
    LAST value `vals` gives it (`lastVal`), its previous value if `vals` does not mention it; a
    zero-size component is not written. -/
theorem last_write_wins_set (ops : List Op) (e : Ent) (vals : Comps)
    (hlen : ops.length + 1 < 2 ^ 32 - 2) (comps : Comps)
    (hm : (e, comps) ∈ (reach run cap rel ops).ss.ents) (hv : ∀ cv ∈ vals, cv.1 ∈ keys comps)
    (c : Comp) (v : Val) (hc : (c, v) ∈ comps) :
    valOf (reach run cap rel (ops ++ [.set e vals])).w e.id c =
      some (if (reach run cap rel ops).ss.zst.getD c false = true then v
            else (lastVal vals c).getD v) := by
  obtain ⟨fl, h⟩ := reach_hinv run cap rel ops (by omega)
  obtain ⟨hi, _, _, _, hf, _⟩ := h.live_facts hm
  have hg : guard (reach run cap rel ops) (.set e vals) = true := by
    simp only [Refine.guard, decide_eq_true_eq]; exact hi
  have hm' : (e, writeComps (reach run cap rel ops).ss.zst vals comps) ∈
      (reach run cap rel (ops ++ [.set e vals])).ss.ents := by
    rw [reach_snoc, step_of_guard hg]
    apply find_some_mem
    simp only [specStep, hf, if_pos hv]
    exact find_upd_self _ hf
  obtain ⟨_, _, v2, _, _⟩ := refines run cap rel (ops ++ [.set e vals])
    (by simp only [List.length_append, List.length_singleton]; omega) e _ hm'
  have := v2 (c, if (reach run cap rel ops).ss.zst.getD c false = true then v
      else applyVals v vals c) (List.mem_map.mpr ⟨(c, v), hc, rfl⟩)
  rw [this, applyVals_eq_lastVal]

/-- **last_write_wins (`add`)** — after a valid `add e ids vals`, every added component reads the
    LAST value `vals` gives it, zero if `vals` does not mention it (always zero if zero-size);
    every component the entity had reads the last value written to it, else its old value. -/
theorem last_write_wins_add (ops : List Op) (e : Ent) (ids : List Comp) (vals : Comps)
    (hlen : ops.length + 1 < 2 ^ 32 - 2) (comps : Comps)
    (hm : (e, comps) ∈ (reach run cap rel ops).ss.ents)
    (hv : ids ≠ [] ∧ ids.Nodup ∧
      ∀ c ∈ ids, c < (reach run cap rel ops).ss.zst.length ∧ c ∉ keys comps) :
    (∀ c ∈ ids, valOf (reach run cap rel (ops ++ [.add e ids vals])).w e.id c =
      some (if (reach run cap rel ops).ss.zst.getD c false = true then 0
            else (lastVal vals c).getD 0)) ∧
    (∀ (c : Comp) (v : Val), (c, v) ∈ comps →
      valOf (reach run cap rel (ops ++ [.add e ids vals])).w e.id c =
        some (if (reach run cap rel ops).ss.zst.getD c false = true then v
              else (lastVal vals c).getD v)) := by
  obtain ⟨fl, h⟩ := reach_hinv run cap rel ops (by omega)
  obtain ⟨hi, _, _, _, hf, _⟩ := h.live_facts hm
  have hg : guard (reach run cap rel ops) (.add e ids vals) = true := by
    simp only [Refine.guard, Bool.and_eq_true, decide_eq_true_eq, List.all_eq_true]
    exact ⟨hi, fun c hc => (hv.2.2 c hc).1⟩
  have hm' : (e, writeComps (reach run cap rel ops).ss.zst vals (comps ++ zeros ids)) ∈
      (reach run cap rel (ops ++ [.add e ids vals])).ss.ents := by
    rw [reach_snoc, step_of_guard hg]
    apply find_some_mem
    simp only [specStep, hf, if_pos hv]
    exact find_upd_self _ hf
  obtain ⟨_, _, v2, _, _⟩ := refines run cap rel (ops ++ [.add e ids vals])
    (by simp only [List.length_append, List.length_singleton]; omega) e _ hm'
  constructor
  · intro c hc
    have := v2 (c, if (reach run cap rel ops).ss.zst.getD c false = true then 0
        else applyVals 0 vals c)
      (List.mem_map.mpr ⟨(c, 0), List.mem_append_right _ (List.mem_map.mpr ⟨c, hc, rfl⟩), rfl⟩)
    rw [this, applyVals_eq_lastVal]
  · intro c v hc
    have := v2 (c, if (reach run cap rel ops).ss.zst.getD c false = true then v
        else applyVals v vals c)
      (List.mem_map.mpr ⟨(c, v), List.mem_append_left _ hc, rfl⟩)
    rw [this, applyVals_eq_lastVal]

/-- `lastVal vals c = some v` means: `(c, v)` is the LAST pair for `c` in `vals` -/
theorem lastVal_spec (vals : Comps) (c : Comp) (v : Val) :
    lastVal vals c = some v ↔
      ∃ pre post, vals = pre ++ (c, v) :: post ∧ ∀ cv ∈ post, cv.1 ≠ c :=
  lastVal_eq_some_iff vals c v

/-! ## non-vacuity: a concrete history -/

/-- three component types (ID 1 zero-size); entity `2.0` with `{0}` (value 7), entity `3.0` with
    `{1, 2}`; add `{2, 1}` to `2.0` writing component 2 twice (5, then 6) and the zero-size
    component 1; remove component 0 from it; set component 2 to 11; remove entity `3.0`; create a
    third entity `{0, 2}`, which recycles ID 3 with generation 1. -/
def demoOps : List Op :=
  [.reg 8 false, .reg 0 true, .reg 8 false,
   .new [0] [(0, 7)], .new [1, 2] [(2, 9)],
   .add ⟨2, 0⟩ [2, 1] [(2, 5), (2, 6), (1, 3)],
   .rem ⟨2, 0⟩ [0],
   .set ⟨2, 0⟩ [(2, 11)],
   .del ⟨3, 0⟩,
   .new [0, 2] [(0, 1)]]

/-- the model agrees with the specification entry by entry (decidable form of `refines`) -/
def agrees (s : St) : Bool :=
  s.ss.ents.all fun x =>
    s.w.alive x.1 && (compsOf s.w x.1.id == some (sortedIds s.w.kinds.length (keys x.2))) &&
      x.2.all fun cv => valOf s.w x.1.id cv.1 == some cv.2

/-- after the `add`: the last write (6) wins for component 2, the zero-size component 1 reads 0,
    component 0 keeps 7 -/
example :
    (reach noProbe 4 1 (demoOps.take 6)).ss.ents =
      [(⟨3, 0⟩, [(1, 0), (2, 9)]), (⟨2, 0⟩, [(0, 7), (2, 6), (1, 0)])] ∧
    agrees (reach noProbe 4 1 (demoOps.take 6)) = true ∧
    (compsOf (reach noProbe 4 1 (demoOps.take 6)).w 2,
      valOf (reach noProbe 4 1 (demoOps.take 6)).w 2 0,
      valOf (reach noProbe 4 1 (demoOps.take 6)).w 2 1,
      valOf (reach noProbe 4 1 (demoOps.take 6)).w 2 2) =
      (some [0, 1, 2], some 7, some 0, some 6) := by
  decide +kernel

/-- the whole history: the specification … -/
example :
    (reach noProbe 4 1 demoOps).ss.ents =
      [(⟨3, 1⟩, [(0, 1), (2, 0)]), (⟨2, 0⟩, [(2, 11), (1, 0)])] ∧
    (reach noProbe 4 1 demoOps).ss.zst = [false, true, false] ∧
    (reach noProbe 4 1 demoOps).issued = [⟨3, 1⟩, ⟨3, 0⟩, ⟨2, 0⟩] := by
  decide +kernel

/-- … and the model: it agrees with the specification entry by entry; the removed handle `3.0`
    is dead, its ID is recycled by `3.1`; the removed component 0 of `2.0` is gone -/
example :
    agrees (reach noProbe 4 1 demoOps) = true ∧
    (reach noProbe 4 1 demoOps).issued.map (reach noProbe 4 1 demoOps).w.alive = [true, false, true] ∧
    (compsOf (reach noProbe 4 1 demoOps).w 2, compsOf (reach noProbe 4 1 demoOps).w 3) =
      (some [1, 2], some [0, 2]) := by
  decide +kernel

example :
    (valOf (reach noProbe 4 1 demoOps).w 2 0, valOf (reach noProbe 4 1 demoOps).w 2 1,
      valOf (reach noProbe 4 1 demoOps).w 2 2) = (none, some 0, some 11) ∧
    (valOf (reach noProbe 4 1 demoOps).w 3 0, valOf (reach noProbe 4 1 demoOps).w 3 1,
      valOf (reach noProbe 4 1 demoOps).w 3 2) = (some 1, none, some 0) := by
  decide +kernel

/-- rejected calls in a concrete state (after the two `new`): component 0 already present,
    component 2 absent, a component listed twice, `Set` of an absent component, a dead handle —
    the world comes back unchanged and the machine state does not move -/
example :
    (step noProbe (reach noProbe 4 1 (demoOps.take 5)) (.add ⟨2, 0⟩ [0] [])).ss.ents =
      (reach noProbe 4 1 (demoOps.take 5)).ss.ents ∧
    (step noProbe (reach noProbe 4 1 (demoOps.take 5)) (.rem ⟨2, 0⟩ [2])).ss.ents =
      (reach noProbe 4 1 (demoOps.take 5)).ss.ents ∧
    (step noProbe (reach noProbe 4 1 (demoOps.take 5)) (.add ⟨2, 0⟩ [1, 1] [])).ss.ents =
      (reach noProbe 4 1 (demoOps.take 5)).ss.ents ∧
    (step noProbe (reach noProbe 4 1 (demoOps.take 5)) (.set ⟨2, 0⟩ [(1, 4)])).ss.ents =
      (reach noProbe 4 1 (demoOps.take 5)).ss.ents ∧
    retOf (exec noProbe (reach noProbe 4 1 (demoOps.take 5)).w (.add ⟨2, 0⟩ [0] [])) = none ∧
    (exec noProbe (reach noProbe 4 1 (demoOps.take 5)).w (.add ⟨2, 0⟩ [0] [])).state.entities =
      (reach noProbe 4 1 (demoOps.take 5)).w.entities ∧
    (exec noProbe (reach noProbe 4 1 demoOps).w (.set ⟨3, 0⟩ [])).state.entities =
      (reach noProbe 4 1 demoOps).w.entities := by
  decide +kernel

end Ark.Props.C01Refine
