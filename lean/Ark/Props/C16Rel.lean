/-
  C16 over histories WITH relation components — "From then on [after Reset] every history has the
  same outcome (same handles, same query results, …) as on a newly created world with the same
  component types registered in the same order."

  Setting: the history machine `Ark.RelRefine2` of Ark/Proofs/RelRefine2Machine.lean — the entity
  operations of `Ark.RelRefine` (`reg | new p | add p | rem p | setrel p | set | del`, components
  and RELATION components, each through any access path), `copy`, `shrink`, `reset`, the filter
  operations `fdef | freg | funreg` and complete query iterations `query f extra`;
  `reach2 run cap rel ops` is the state after the history `ops` from `NewWorld(cap, rel)`.

  After a `Reset` the world is NOT a new world: archetypes persist (in the order `pre` created
  them), the tables of relation archetypes sit in free lists and are recycled in LIFO order (so
  the same entity ends up in a table with another ID), capacities persist, the pool keeps
  invalidated handles behind its slice, cache IDs continue.

  For ANY history `pre` and ANY later history `post` (`Reset`, registrations, everything may occur
  anywhere in both; bound: `pre.length + 1 + post.length < 2^16`, the bound of the machine), any
  two callback runners and any capacities of the two worlds, compare

      A = pre ++ [reset] ++ post   from NewWorld(cap, rel)
      B = regsOf2 pre ++ post      from NewWorld(cap', rel')   (regsOf2 = the `reg`s of `pre`)

  * `same_trace` — `TraceEq`: for every operation of `post`: it is expressible on both sides or on
    neither; it is accepted on both or rejected on both with the SAME panic class; a creation
    (`new`, `copy`) returns the SAME handle, ID and generation; a complete query iteration — also
    through the filter cache, with fixed and per-call relation targets — is rejected with the
    same class or yields the same visit records (entity, every component value, every relation
    target read in the visited table) as a multiset (`List.Perm`: archetype and table order differ).
    `trace_entry`, `outcome_from_spec`: what an entry is and why it is the same.
  * `same_state_after_every_prefix` — after every prefix of `post` the machine states are related
    by `Sim`: same specification (alive handle ↦ component ↦ value, relation component ↦ target,
    registry flags), same issued handles, same registry, same pool core, filter objects equal up to
    the cache ID.  Table IDs, free lists, capacities, cache IDs are NOT related.
  * `same_worlds` — on the model worlds: for EVERY entity ID the same component set, values and
    relation targets (`compsOf`, `valOf`, `targetOf`), the same `Alive` for every issued handle,
    the same next handle.

  What "expressible" means (`stepOut2`): an entity operation as in `Ark.RelRefine` (`guard`: handles
  the client was given, registered components, relation arguments satisfying `RelsStep` — since
  the repair of the `Unsafe` API (D24) a relation on a non-relation component, on a component not
  added, or with a removed target IS a step on every path: `demoU_*`); `copy` on a handle
  the client was given; a filter operation or query on a filter object constructed AFTER the
  `Reset` (a filter object is a client-side object — one built before the `Reset` does not exist
  in run B), with fixed / per-call relation targets the client can name (zero or a handle it was
  given).  The last restriction IS needed: `forged_sentinel_target_differs` — the typed
  pre-validation of `Query(rel…)` reads `Alive` of the target, and for a forged handle
  `⟨id beyond the slice, maxU32⟩` the reset world answers `true` (memory kept behind the pool
  slice, D14), a new world `false`.  No handle the API ever returned has that generation
  (`RelRefine2.reach2_issued_gen`).

  The boolean `Shrink` returns ("more work left") is NOT part of the trace: it depends on
  capacities, which persist over `Reset` ("up to capacities") — `shrink_result_differs`.

  Non-vacuity: `demo_*` — a history in which, after the `Reset`, the two relation tables are
  recycled in the opposite order a new world creates them, archetypes are visited in another
  order, and all outputs agree.

  `Exchange` with relation components: the same theorems for the machine `Ark.RelRefine3`
  (`Op3 = base2 (op : Op2) | xchg p e add vals rem rels`, Ark/Proofs/RelExchangeMachine.lean):
  `same_trace3`, `same_worlds3`, `xchg_outcome_from_spec`, `demo3_*`.

  Not covered: the batch operations, observers (callbacks are a parameter `run` of the machine,
  but the machines' invariant demands that no observer is registered), `World.Stats` (C19 has the
  statistics of the relation machine; "same statistics up to capacities" after `Reset` is not
  derived here).
-/
import Ark.Proofs.ResetEquivRelXchg

set_option autoImplicit false

namespace Ark.Props.C16Rel
open Ark Ark.World Ark.RelRefine Ark.RelRefine2 Ark.Props.C01World
open Ark.Refine (Outcome outcome)

/-! ## the outcome of a call is a function of the specification -/

/-- in every reachable state, for every expressible entity operation: the returned handle, the
    accept/reject decision and the panic class are `specOutcome` of the specification state and the
    pool's next handle (`specOutcome ss fresh op = if pre ss op then ok (retSpec fresh op) else
    panic (rejKind ss op)`; `rejKind` reads the panic class off the specification: the typed
    pre-validation `preKindP`, then `deadEntity` / `noComponents` / `alreadyHas` / `missing` /
    `noRelations`, the scan of `SetRelations` `scanKind`, `deadTarget`) -/
theorem outcome_from_spec (run : ProbeRunner) (cap rel : Nat) (ops : List Op2) (op : Op)
    (hlen : ops.length + 1 < 2 ^ 16) (hg : RelRefine.guard (reach2 run cap rel ops) op = true) :
    outcome (exec run (reach2 run cap rel ops).w op) =
      specOutcome (reach2 run cap rel ops).ss ((reach2 run cap rel ops).w.pool.get).2 op := by
  obtain ⟨fl, H⟩ := reach2_inv run cap rel ops (by omega)
  obtain ⟨hf, he⟩ := reach2_fits run cap rel ops hlen
  exact exec_outcome run H.base hf he op hg

/-! ## C16: every later history -/

/-- **same trace** — handles, accept/reject decisions, panic classes and query results of `post`
    agree -/
theorem same_trace (run1 run2 : ProbeRunner) (cap rel cap' rel' : Nat) (pre post : List Op2)
    (hlen : pre.length + 1 + post.length < 2 ^ 16) :
    TraceEq (trace2 run1 [] (reach2 run1 cap rel (pre ++ [.reset])) post)
      (trace2 run2 [] (reach2 run2 cap' rel' (regsOf2 pre)) post) :=
  (reset_equiv_rel run1 run2 cap rel cap' rel' pre post hlen).1

/-- `TraceEq`, position by position: equal lengths, and at every position both "not expressible",
    or equal calls, or query results that are the same class / permutations of each other -/
theorem traceEq_entries {a b : List (Option Out)} (h : TraceEq a b) :
    a.length = b.length ∧
    ∀ (n : Nat) (h1 : n < a.length) (h2 : n < b.length), OutEq a[n] b[n] :=
  ⟨h.length_eq, h.get⟩

/-- what the `n`-th entry of a trace is: what the client sees (`stepOut2`) of the `n`-th operation
    in the state reached by the first `n` operations, with the filter labels usable then -/
theorem trace_entry (run : ProbeRunner) (L : List Nat) (s : St) (ops : List Op2) (n : Nat) :
    (trace2 run L s ops)[n]? = (ops[n]?).map fun op =>
      stepOut2 run (labels2 run L s (ops.take n)) (runOps2 run s (ops.take n)) op :=
  trace2_get run ops L s n

/-- **same state after every prefix** of `post` -/
theorem same_state_after_every_prefix (run1 run2 : ProbeRunner) (cap rel cap' rel' : Nat)
    (pre post : List Op2) (hlen : pre.length + 1 + post.length < 2 ^ 16) (n : Nat) :
    Sim (labels2 run1 [] (reach2 run1 cap rel (pre ++ [.reset])) (post.take n))
      (reach2 run1 cap rel (pre ++ [.reset] ++ post.take n))
      (reach2 run2 cap' rel' (regsOf2 pre ++ post.take n)) :=
  reset_equiv_rel_prefix run1 run2 cap rel cap' rel' pre post hlen n

/-- **one step**: from related states satisfying the invariant, within the size bounds, every
    operation leads to related states, the usable filter labels agree and the client sees
    equivalent outputs -/
theorem same_step (run1 run2 : ProbeRunner) {L : List Nat} {s1 s2 : St} {fl1 fl2 : List Nat}
    (H1 : HInv2 s1 fl1) (H2 : HInv2 s2 fl2)
    (hf1 : s1.w.tables.length + s1.w.relationArchetypes.length + 1 ≤ maxU32)
    (he1 : 2 * s1.w.entities.length < 2 ^ 32)
    (hf2 : s2.w.tables.length + s2.w.relationArchetypes.length + 1 ≤ maxU32)
    (he2 : 2 * s2.w.entities.length < 2 ^ 32) (S : Sim L s1 s2) (op : Op2) :
    Sim (labelsAfter L s1 op) (step2 run1 s1 op) (step2 run2 s2 op) ∧
    labelsAfter L s1 op = labelsAfter L s2 op ∧
    OutEq (stepOut2 run1 L s1 op) (stepOut2 run2 L s2 op) :=
  sim_step2 run1 run2 H1 H2 hf1 he1 hf2 he2 S op

/-- **right after the `Reset`** the state is related to the state after the registrations of `pre`
    on a new world -/
theorem related_after_reset (run1 run2 : ProbeRunner) (cap rel cap' rel' : Nat) (pre : List Op2)
    (hlen : pre.length + 1 < 2 ^ 16) :
    Sim [] (reach2 run1 cap rel (pre ++ [.reset])) (reach2 run2 cap' rel' (regsOf2 pre)) :=
  sim_reset_regs2 run1 run2 cap rel cap' rel' pre hlen

/-- **same worlds** — component sets, values, relation targets of every entity ID; `Alive`; the
    next handle -/
theorem same_worlds (run1 run2 : ProbeRunner) (cap rel cap' rel' : Nat) (pre post : List Op2)
    (hlen : pre.length + 1 + post.length < 2 ^ 16) :
    (reach2 run1 cap rel (pre ++ [.reset] ++ post)).ss =
      (reach2 run2 cap' rel' (regsOf2 pre ++ post)).ss ∧
    (reach2 run1 cap rel (pre ++ [.reset] ++ post)).issued =
      (reach2 run2 cap' rel' (regsOf2 pre ++ post)).issued ∧
    (reach2 run1 cap rel (pre ++ [.reset] ++ post)).w.kinds =
      (reach2 run2 cap' rel' (regsOf2 pre ++ post)).w.kinds ∧
    ((reach2 run1 cap rel (pre ++ [.reset] ++ post)).w.pool.get).2 =
      ((reach2 run2 cap' rel' (regsOf2 pre ++ post)).w.pool.get).2 ∧
    (∀ (i : Nat),
      compsOf (reach2 run1 cap rel (pre ++ [.reset] ++ post)).w i =
        compsOf (reach2 run2 cap' rel' (regsOf2 pre ++ post)).w i ∧
      (∀ (c : Comp), valOf (reach2 run1 cap rel (pre ++ [.reset] ++ post)).w i c =
        valOf (reach2 run2 cap' rel' (regsOf2 pre ++ post)).w i c) ∧
      ∀ (c : Comp), targetOf (reach2 run1 cap rel (pre ++ [.reset] ++ post)).w i c =
        targetOf (reach2 run2 cap' rel' (regsOf2 pre ++ post)).w i c) ∧
    (∀ (h : Ent), h ∈ (reach2 run1 cap rel (pre ++ [.reset] ++ post)).issued →
      (reach2 run1 cap rel (pre ++ [.reset] ++ post)).w.alive h =
        (reach2 run2 cap' rel' (regsOf2 pre ++ post)).w.alive h) ∧
    (∀ (h : Ent), h.gen ≠ maxU32 →
      (reach2 run1 cap rel (pre ++ [.reset] ++ post)).w.alive h =
        (reach2 run2 cap' rel' (regsOf2 pre ++ post)).w.alive h) :=
  reset_equiv_rel_worlds run1 run2 cap rel cap' rel' pre post hlen

/-- **the same query on both sides** (the statement behind the `query` entries of the trace): on
    two states of the machine with the same specification, handles and registry whose filter
    objects under label `f` agree up to the cache ID, a complete iteration with expressible
    per-call relations is rejected on both sides with the same class, or yields visit records that
    are permutations of each other -/
theorem same_query {s1 s2 : St} {fl1 fl2 : List Nat} (H1 : HInv2 s1 fl1) (H2 : HInv2 s2 fl2)
    (hss : s1.ss = s2.ss) (hiss : s1.issued = s2.issued) (hk : s1.w.kinds = s2.w.kinds)
    (f : Nat) (R : FoRel (foAt s1.w f) (foAt s2.w f)) {extra : List RelID}
    (hq : qExpr s1 f extra = true) :
    qExpr s2 f extra = true ∧
    (qOut s1.w (drain (foAt s1.w f) extra s1.w)).Equiv
      (qOut s2.w (drain (foAt s2.w f) extra s2.w)) :=
  query_congr H1 H2 hss hiss hk f R hq

/-! ## non-vacuity: relation tables recycled in another order -/

/-- no callbacks -/
abbrev noRun := RelRefine2.noRun

def A : Ent := ⟨2, 0⟩
def B : Ent := ⟨3, 0⟩
def c1 : Ent := ⟨4, 0⟩
def c2 : Ent := ⟨5, 0⟩

/-- `Filter2[C0, C1]` -/
def fAll : FilterObj := mkFilterObj [0, 1] none false true []
/-- `Filter0` -/
def fAny : FilterObj := mkFilterObj [] none false true []

/-- components 0 (data), 1 (relation), 2 (data); two parents, one entity each with `{2}` and `{0}`,
    two children in two relation tables; a registered filter -/
def demoPre : List Op2 :=
  [ .base (.reg 8 false false), .base (.reg 0 false true), .base (.reg 8 false false),
    .base (.new .unsafe_ [] [] []), .base (.new .unsafe_ [] [] []),
    .base (.new .unsafe_ [2] [] []), .base (.new .unsafe_ [0] [] []),
    .base (.new .unsafe_ [0, 1] [(0, 7)] [⟨1, A⟩]),
    .base (.new .unsafe_ [0, 1] [(0, 8)] [⟨1, B⟩]),
    .fdef 0 fAll, .freg 0 ]

/-- after the `Reset`: two parents, two children (through `Map` and `MapN`), entities with `{0}`
    and `{2}` (the other way round), filters, queries with and without per-call targets, through the
    cache, `SetRelations` (accepted, not expressible, rejected), `RemoveEntity` of a target,
    `CopyEntity`, double `Register` / `Unregister`, `Shrink`, a query on a label of `demoPre` -/
def demoPost : List Op2 :=
  [ .base (.new .unsafe_ [] [] []), .base (.new .unsafe_ [] [] []),
    .base (.new .map1 [0, 1] [(0, 11)] [⟨1, A⟩]),
    .base (.new .typed [0, 1] [(0, 12)] [⟨1, B⟩]),
    .base (.new .unsafe_ [0] [(0, 21)] []), .base (.new .unsafe_ [2] [(2, 22)] []),
    .fdef 5 fAll, .fdef 6 fAny,
    .query 6 [],
    .query 5 [⟨1, B⟩],
    .freg 5,
    .query 5 [],
    .base (.setrel .unsafe_ c1 [⟨1, B⟩]),
    .query 5 [⟨1, B⟩],
    .base (.setrel .unsafe_ c1 [⟨1, ⟨9, 0⟩⟩]),
    .base (.del B),
    .base (.setrel .unsafe_ c1 [⟨1, B⟩]),
    .query 0 [],
    .copy c2,
    .freg 5,
    .funreg 5, .funreg 5,
    .shrink false,
    .query 5 [⟨1, Ent.zero⟩] ]

/-- the hypotheses of the theorems hold of the demo -/
example : demoPre.length + 1 + demoPost.length < 2 ^ 16 := by decide

/-- the registrations of `demoPre` -/
example : regsOf2 demoPre =
    [.base (.reg 8 false false), .base (.reg 0 false true), .base (.reg 8 false false)] := rfl

/-- **the relation tables are recycled in the opposite order**: after the four creations the
    children `c1`, `c2` sit in tables 4, 3 of the reset world and in tables 1, 2 of the new world -/
theorem demo_tables_differ :
    ((reach2 noRun 4 4 (demoPre ++ [.reset] ++ demoPost.take 4)).w.index c1.id,
     (reach2 noRun 4 4 (demoPre ++ [.reset] ++ demoPost.take 4)).w.index c2.id) = ((4, 0), (3, 0)) ∧
    ((reach2 noRun 16 8 (regsOf2 demoPre ++ demoPost.take 4)).w.index c1.id,
     (reach2 noRun 16 8 (regsOf2 demoPre ++ demoPost.take 4)).w.index c2.id) = ((1, 0), (2, 0)) := by
  decide +kernel

/-- what the client reads of a child -/
def rec' (e : Ent) (v : Val) (t : Ent) : VisitRec := ⟨e, [some v, some 0, none], [none, some t, none]⟩
/-- … of an entity without components -/
def rec0 (e : Ent) : VisitRec := ⟨e, [none, none, none], [none, none, none]⟩

/-- the trace of `demoPost` after `demoPre ++ [reset]`, computed -/
theorem demo_trace_reset :
    trace2 noRun [] (reach2 noRun 4 4 (demoPre ++ [.reset])) demoPost =
    [ some (.call (.ok (some A))), some (.call (.ok (some B))),
      some (.call (.ok (some c1))), some (.call (.ok (some c2))),
      some (.call (.ok (some ⟨6, 0⟩))), some (.call (.ok (some ⟨7, 0⟩))),
      some .done, some .done,
      some (.query (.visited [rec0 A, rec0 B, ⟨⟨7, 0⟩, [none, none, some 22], [none, none, none]⟩,
        ⟨⟨6, 0⟩, [some 21, none, none], [none, none, none]⟩, rec' c1 11 A, rec' c2 12 B])),
      some (.query (.visited [rec' c2 12 B])),
      some (.call (.ok none)),
      some (.query (.visited [rec' c1 11 A, rec' c2 12 B])),
      some (.call (.ok none)),
      some (.query (.visited [rec' c2 12 B, rec' c1 11 B])),
      none,
      some (.call (.ok none)),
      some (.call (.panic .deadTarget)),
      none,
      some (.call (.ok (some ⟨3, 1⟩))),
      some (.call (.panic .filterRegistered)),
      some (.call (.ok none)),
      some (.call (.panic .filterNotRegistered)),
      some .done,
      some (.query (.visited [rec' c2 12 Ent.zero, rec' c1 11 Ent.zero, rec' ⟨3, 1⟩ 12 Ent.zero])) ] := by
  decide +kernel

/-- the trace of `demoPost` after the registrations of `demoPre` on a new world (other
    capacities), computed: the first query visits the archetypes in another order -/
theorem demo_trace_new :
    trace2 noRun [] (reach2 noRun 16 8 (regsOf2 demoPre)) demoPost =
    [ some (.call (.ok (some A))), some (.call (.ok (some B))),
      some (.call (.ok (some c1))), some (.call (.ok (some c2))),
      some (.call (.ok (some ⟨6, 0⟩))), some (.call (.ok (some ⟨7, 0⟩))),
      some .done, some .done,
      some (.query (.visited [rec0 A, rec0 B, rec' c1 11 A, rec' c2 12 B,
        ⟨⟨6, 0⟩, [some 21, none, none], [none, none, none]⟩,
        ⟨⟨7, 0⟩, [none, none, some 22], [none, none, none]⟩])),
      some (.query (.visited [rec' c2 12 B])),
      some (.call (.ok none)),
      some (.query (.visited [rec' c1 11 A, rec' c2 12 B])),
      some (.call (.ok none)),
      some (.query (.visited [rec' c2 12 B, rec' c1 11 B])),
      none,
      some (.call (.ok none)),
      some (.call (.panic .deadTarget)),
      none,
      some (.call (.ok (some ⟨3, 1⟩))),
      some (.call (.panic .filterRegistered)),
      some (.call (.ok none)),
      some (.call (.panic .filterNotRegistered)),
      some .done,
      some (.query (.visited [rec' c2 12 Ent.zero, rec' c1 11 Ent.zero, rec' ⟨3, 1⟩ 12 Ent.zero])) ] := by
  decide +kernel

/-- the two traces are not equal as lists (the first query iterates in another order) but
    equivalent — by evaluation, … -/
theorem demo_traces_equiv :
    trace2 noRun [] (reach2 noRun 4 4 (demoPre ++ [.reset])) demoPost ≠
      trace2 noRun [] (reach2 noRun 16 8 (regsOf2 demoPre)) demoPost ∧
    TraceEq (trace2 noRun [] (reach2 noRun 4 4 (demoPre ++ [.reset])) demoPost)
      (trace2 noRun [] (reach2 noRun 16 8 (regsOf2 demoPre)) demoPost) := by
  rw [demo_trace_reset, demo_trace_new]
  decide +kernel

/-- … and as an instance of the theorem -/
example :
    TraceEq (trace2 noRun [] (reach2 noRun 4 4 (demoPre ++ [.reset])) demoPost)
      (trace2 noRun [] (reach2 noRun 16 8 (regsOf2 demoPre)) demoPost) :=
  same_trace noRun noRun 4 4 16 8 demoPre demoPost (by decide)

/-! ## the restriction on relation targets is needed -/

/-- **a forged sentinel handle as per-call target**: after `demoPre ++ [reset]` and one creation,
    the typed query `Query(Rel(⟨3, maxU32⟩))` is accepted in the reset world (the memory behind the
    pool slice holds `⟨3, maxU32⟩`, the unchecked `Alive` reads it) and rejected with `deadTarget`
    in a new world.  `⟨3, maxU32⟩` is not a handle the client was ever given, so the query is not
    expressible (`qExpr`). -/
theorem forged_sentinel_target_differs :
    let post : List Op2 := [.base (.new .unsafe_ [] [] []), .fdef 5 fAll]
    let s1 := reach2 noRun 4 4 (demoPre ++ [.reset] ++ post)
    let s2 := reach2 noRun 16 8 (regsOf2 demoPre ++ post)
    qOut s1.w (drain (foAt s1.w 5) [⟨1, ⟨3, maxU32⟩⟩] s1.w) = .visited [] ∧
    qOut s2.w (drain (foAt s2.w 5) [⟨1, ⟨3, maxU32⟩⟩] s2.w) = .rejected .deadTarget ∧
    qExpr s1 5 [⟨1, ⟨3, maxU32⟩⟩] = false := by
  decide +kernel

/-! ## the result of `Shrink` depends on capacities -/

/-- three entities without components, three with component 0, from capacity 1: two tables grow -/
def growPre : List Op2 :=
  [ .base (.reg 8 false false),
    .base (.new .unsafe_ [] [] []), .base (.new .unsafe_ [] [] []), .base (.new .unsafe_ [] [] []),
    .base (.new .unsafe_ [0] [] []), .base (.new .unsafe_ [0] [] []), .base (.new .unsafe_ [0] [] []) ]

/-- **`Shrink(bounded)` answers differently**: after `growPre ++ [reset]` two tables have capacity to
    give back (the bounded call shrinks one and reports more work), a new world has none — which
    is why the trace records `Shrink` without its result -/
theorem shrink_result_differs :
    (match opShrink true (reach2 noRun 1 1 (growPre ++ [.reset])).w with
      | .ok b _ => some b | .panic _ _ => none) = some true ∧
    (match opShrink true (reach2 noRun 1 1 (regsOf2 growPre)).w with
      | .ok b _ => some b | .panic _ _ => none) = some false := by
  decide +kernel

/-! ## `Exchange` with relation components: the machine `Ark.RelRefine3` -/

section Xchg
open Ark.RelRefine3

/-- the outcome of an expressible `Exchange` is a function of the specification: accepted iff
    `preXchg`, otherwise rejected with `rejKindX` (`Unsafe` on a dead handle: `deadEntity`; the
    pre-validation of the relations, on every path; `deadEntity`; `noComponents`; the class the
    mask walk reports) and without effect -/
theorem xchg_outcome_from_spec (run : ProbeRunner) (cap rel : Nat) (ops : List Op3)
    (hlen : ops.length + 1 < 2 ^ 16) (p : Path) (e : Ent) (add : List Comp) (vals : Refine.Comps)
    (rem : List Comp) (rels : Rels)
    (hg : guardXchg (reach3 run cap rel ops) p e add rels = true) :
    (preXchg (reach3 run cap rel ops).ss e add rem rels →
      outcomeU (opExchange run p e add vals rem rels (reach3 run cap rel ops).w) = .ok none) ∧
    (¬ preXchg (reach3 run cap rel ops).ss e add rem rels →
      reach3 run cap rel (ops ++ [.xchg p e add vals rem rels]) = reach3 run cap rel ops ∧
      outcomeU (opExchange run p e add vals rem rels (reach3 run cap rel ops).w) =
        .panic (rejKindX (reach3 run cap rel ops).ss p e add rem rels)) := by
  obtain ⟨fl, H⟩ := reach3_inv run cap rel ops (by omega)
  obtain ⟨hf, he⟩ := reach3_fits run cap rel ops hlen
  obtain ⟨a, r⟩ := xchg_desc run H (by omega) (by omega) p e add vals rem rels hg
  refine ⟨fun hp => (a hp).2.2.2.2.2, fun hnp => ?_⟩
  rw [reach3_snoc]
  exact r hnp

/-- **same trace**, with `Exchange` -/
theorem same_trace3 (run1 run2 : ProbeRunner) (cap rel cap' rel' : Nat) (pre post : List Op3)
    (hlen : pre.length + 1 + post.length < 2 ^ 16) :
    TraceEq (trace3 run1 [] (reach3 run1 cap rel (pre ++ [.base2 .reset])) post)
      (trace3 run2 [] (reach3 run2 cap' rel' (regsOf3 pre)) post) :=
  (reset_equiv_rel3 run1 run2 cap rel cap' rel' pre post hlen).1

/-- **same state** at the end, with `Exchange` -/
theorem same_state3 (run1 run2 : ProbeRunner) (cap rel cap' rel' : Nat) (pre post : List Op3)
    (hlen : pre.length + 1 + post.length < 2 ^ 16) :
    Sim (labels3 run1 [] (reach3 run1 cap rel (pre ++ [.base2 .reset])) post)
      (reach3 run1 cap rel (pre ++ [.base2 .reset] ++ post))
      (reach3 run2 cap' rel' (regsOf3 pre ++ post)) :=
  (reset_equiv_rel3 run1 run2 cap rel cap' rel' pre post hlen).2

/-- **same worlds**, with `Exchange` -/
theorem same_worlds3 (run1 run2 : ProbeRunner) (cap rel cap' rel' : Nat) (pre post : List Op3)
    (hlen : pre.length + 1 + post.length < 2 ^ 16) :
    (reach3 run1 cap rel (pre ++ [.base2 .reset] ++ post)).ss =
      (reach3 run2 cap' rel' (regsOf3 pre ++ post)).ss ∧
    (reach3 run1 cap rel (pre ++ [.base2 .reset] ++ post)).issued =
      (reach3 run2 cap' rel' (regsOf3 pre ++ post)).issued ∧
    (reach3 run1 cap rel (pre ++ [.base2 .reset] ++ post)).w.kinds =
      (reach3 run2 cap' rel' (regsOf3 pre ++ post)).w.kinds ∧
    ((reach3 run1 cap rel (pre ++ [.base2 .reset] ++ post)).w.pool.get).2 =
      ((reach3 run2 cap' rel' (regsOf3 pre ++ post)).w.pool.get).2 ∧
    (∀ (i : Nat),
      compsOf (reach3 run1 cap rel (pre ++ [.base2 .reset] ++ post)).w i =
        compsOf (reach3 run2 cap' rel' (regsOf3 pre ++ post)).w i ∧
      (∀ (c : Comp), valOf (reach3 run1 cap rel (pre ++ [.base2 .reset] ++ post)).w i c =
        valOf (reach3 run2 cap' rel' (regsOf3 pre ++ post)).w i c) ∧
      ∀ (c : Comp), targetOf (reach3 run1 cap rel (pre ++ [.base2 .reset] ++ post)).w i c =
        targetOf (reach3 run2 cap' rel' (regsOf3 pre ++ post)).w i c) ∧
    (∀ (h : Ent), h ∈ (reach3 run1 cap rel (pre ++ [.base2 .reset] ++ post)).issued →
      (reach3 run1 cap rel (pre ++ [.base2 .reset] ++ post)).w.alive h =
        (reach3 run2 cap' rel' (regsOf3 pre ++ post)).w.alive h) ∧
    (∀ (h : Ent), h.gen ≠ maxU32 →
      (reach3 run1 cap rel (pre ++ [.base2 .reset] ++ post)).w.alive h =
        (reach3 run2 cap' rel' (regsOf3 pre ++ post)).w.alive h) :=
  reset_equiv_rel3_worlds run1 run2 cap rel cap' rel' pre post hlen

/-- `demoPre`, then an `Exchange` that drops the relation of an entity -/
def demoPre3 : List Op3 := demoPre.map .base2 ++ [.xchg .unsafe_ ⟨7, 0⟩ [2] [(2, 5)] [1] []]

/-- after the `Reset`: parents and children as in `demoPost`; `Exchange` accepted (data for data,
    relation for data, data for relation) and rejected (`missing`, `noComponents`,
    `addedAndRemoved`, a handle nobody was given: not expressible, `deadEntity`); a query -/
def demoPost3 : List Op3 :=
  [ .base2 (.base (.new .unsafe_ [] [] [])), .base2 (.base (.new .unsafe_ [] [] [])),
    .base2 (.base (.new .map1 [0, 1] [(0, 11)] [⟨1, A⟩])),
    .base2 (.base (.new .typed [0, 1] [(0, 12)] [⟨1, B⟩])),
    .base2 (.fdef 6 fAny),
    .xchg .typed c1 [2] [(2, 33)] [0] [],
    .xchg .unsafe_ c2 [2] [(2, 34)] [1] [],
    .xchg .unsafe_ c2 [1] [] [2] [⟨1, A⟩],
    .xchg .typed c2 [1] [] [2] [⟨1, A⟩],
    .xchg .unsafe_ c2 [] [] [] [],
    .xchg .map1 c2 [0] [] [0] [],
    .xchg .map1 ⟨8, 0⟩ [0] [] [] [],
    .base2 (.base (.del A)),
    .xchg .typed A [0] [] [] [],
    .base2 (.query 6 []) ]

/-- the trace of `demoPost3` after `demoPre3 ++ [reset]`, computed -/
theorem demo3_trace_reset :
    trace3 noRun [] (reach3 noRun 4 4 (demoPre3 ++ [.base2 .reset])) demoPost3 =
    [ some (.call (.ok (some A))), some (.call (.ok (some B))),
      some (.call (.ok (some c1))), some (.call (.ok (some c2))),
      some .done,
      some (.call (.ok none)), some (.call (.ok none)), some (.call (.ok none)),
      some (.call (.panic .missing)), some (.call (.panic .noComponents)),
      some (.call (.panic .addedAndRemoved)), none,
      some (.call (.ok none)), some (.call (.panic .deadEntity)),
      some (.query (.visited [rec0 B, rec' c2 12 Ent.zero,
        ⟨c1, [none, some 0, some 33], [none, some Ent.zero, none]⟩])) ] := by
  decide +kernel

/-- the two traces are equivalent — by evaluation, and as an instance of the theorem -/
theorem demo3_traces_equiv :
    TraceEq (trace3 noRun [] (reach3 noRun 4 4 (demoPre3 ++ [.base2 .reset])) demoPost3)
      (trace3 noRun [] (reach3 noRun 16 8 (regsOf3 demoPre3)) demoPost3) := by
  decide +kernel

example :
    TraceEq (trace3 noRun [] (reach3 noRun 4 4 (demoPre3 ++ [.base2 .reset])) demoPost3)
      (trace3 noRun [] (reach3 noRun 16 8 (regsOf3 demoPre3)) demoPost3) :=
  same_trace3 noRun noRun 4 4 16 8 demoPre3 demoPost3 (by decide)

/-- **the steps the repair of the `Unsafe` API (D24) added**: through `Unsafe`, a relation on a
    non-relation component, on a component that is not added, with a removed entity as target —
    all refused up front (`notRelation`, `relNotInMask`, `deadTarget`; `Unsafe.AddRel` without
    components skips membership and says `noComponents`; `Unsafe.Exchange` on a dead handle says
    `deadEntity` before it looks at the relations, `ExchangeN.Exchange` after) -/
def demoPostU : List Op3 :=
  [ .base2 (.base (.new .unsafe_ [] [] [])), .base2 (.base (.new .unsafe_ [] [] [])),
    .base2 (.base (.new .unsafe_ [0, 1] [(0, 11)] [⟨1, A⟩])),
    .base2 (.base (.new .unsafe_ [0] [] [⟨0, Ent.zero⟩])),
    .base2 (.base (.new .unsafe_ [0] [] [⟨1, Ent.zero⟩])),
    .base2 (.base (.new .unsafe_ [] [] [⟨1, A⟩])),
    .base2 (.base (.add .unsafe_ A [] [] [⟨1, Ent.zero⟩])),
    .base2 (.base (.add .unsafe_ A [0] [] [⟨1, B⟩])),
    .base2 (.base (.add .typed A [0] [] [⟨2, B⟩])),
    .base2 (.base (.setrel .unsafe_ c1 [⟨0, Ent.zero⟩])),
    .base2 (.base (.setrel .unsafe_ c1 [⟨1, B⟩, ⟨1, A⟩])),
    .xchg .unsafe_ c1 [2] [] [] [⟨1, A⟩],
    .xchg .unsafe_ c1 [2] [] [0] [⟨2, A⟩],
    .base2 (.base (.del B)),
    .base2 (.base (.setrel .unsafe_ c1 [⟨1, B⟩])),
    .base2 (.base (.new .unsafe_ [0, 1] [] [⟨1, B⟩])),
    .base2 (.base (.add .unsafe_ A [1] [] [⟨1, B⟩])),
    .xchg .unsafe_ A [1] [] [] [⟨1, B⟩],
    .xchg .unsafe_ B [1] [] [] [⟨1, B⟩],
    .xchg .typed B [1] [] [] [⟨1, B⟩] ]

/-- every operation of `demoPostU` is a step (no `none`), with these outcomes — on both sides -/
theorem demoU_trace_reset :
    trace3 noRun [] (reach3 noRun 4 4 (demoPre3 ++ [.base2 .reset])) demoPostU =
    [ some (.call (.ok (some A))), some (.call (.ok (some B))), some (.call (.ok (some c1))),
      some (.call (.panic .notRelation)), some (.call (.panic .relNotInMask)),
      some (.call (.panic .relNotInMask)), some (.call (.panic .noComponents)),
      some (.call (.panic .relNotInMask)), some (.call (.panic .notRelation)),
      some (.call (.panic .notRelation)), some (.call (.panic .relTwice)),
      some (.call (.panic .relNotInMask)), some (.call (.panic .notRelation)),
      some (.call (.ok none)),
      some (.call (.panic .deadTarget)), some (.call (.panic .deadTarget)),
      some (.call (.panic .deadTarget)), some (.call (.panic .deadTarget)),
      some (.call (.panic .deadEntity)), some (.call (.panic .deadTarget)) ] := by
  decide +kernel

theorem demoU_traces_equiv :
    TraceEq (trace3 noRun [] (reach3 noRun 4 4 (demoPre3 ++ [.base2 .reset])) demoPostU)
      (trace3 noRun [] (reach3 noRun 16 8 (regsOf3 demoPre3)) demoPostU) := by
  decide +kernel

end Xchg

end Ark.Props.C16Rel
