/-
  Ark.Props.C08Src — the part of C08's theorems that is stated over definitions TRANSLATED from the
  Go source on every run at the bookkeeping level (tools/extract/book.go): the tail of
  `observerManager.RemoveObserver` that recomputes the per-event aggregates the early-outs of all
  `Fire*` functions read.  (The predicates and early-outs themselves are translated at the expression
  level and re-exported in Props/C08.lean.)  Kept apart from Props/C08.lean because other properties'
  proofs import that file.  The check builds and audits both files.
-/
import Ark.Props.C08
import Ark.Proofs.GenBridge.BookObservers

namespace Ark.Props.C08Src
open Ark Ark.Generated Ark.Generated.Book

/-- **`RemoveObserver` as in the source leaves the aggregates a function of the CURRENT observer list**:
    for the event type of the removed observer the union masks and wildcard flags become the
    recomputation (`recLoop`: union of the masks before the first wildcard observer, and whether there
    is a wildcard) over the observers that remain — for entity events the `With` pair only —; observer
    lists and all other entries are untouched.  Whatever was registered or un-registered before has no
    influence: the right-hand sides mention the current list only. -/
theorem src_removeObserver_aggregates : type_of% @Ark.GenBridge.Book.removeObserver_aggregates_eq :=
  @Ark.GenBridge.Book.removeObserver_aggregates_eq
/-- **`AddObserver` as in the source** (its tail after the observer was appended): an observer with `With`
    components is OR-ed into the union of its event type, one without sets the wildcard flag; the same
    for `For` components unless the event is an entity event; nothing else changes — what the model's
    `ObsMgr.addComputed` does, on which `AggInv` (the early-outs never suppress an observer that should
    fire) is proved. -/
theorem src_addObserver_aggregates : type_of% @Ark.GenBridge.Book.addObserver_aggregates_eq :=
  @Ark.GenBridge.Book.addObserver_aggregates_eq
/-- the translated tail, with its loops as list folds -/
theorem src_removeObserver_aggregates_spec : type_of% @Ark.GenBridge.Book.aggregates_eq_spec :=
  @Ark.GenBridge.Book.aggregates_eq_spec
/-- the model's `recomputeWith` (used by `ObsMgr.removeAt`, on which `AggInv` and C08's theorems are
    proved) is the same `recLoop` over the data of the listed observers -/
theorem model_recomputeWith : type_of% @Ark.GenBridge.Book.recomputeWith_eq := @Ark.GenBridge.Book.recomputeWith_eq
theorem model_recomputeComps : type_of% @Ark.GenBridge.Book.recomputeComps_eq := @Ark.GenBridge.Book.recomputeComps_eq

/-- non-vacuity: event 251 (`OnAddComponents`) with a wildcard observer listed first and an observer
    for component 3 behind it: the translated tail stops at the wildcard — flag set, union empty —; with
    the wildcard gone the union is component 3's bit and the flag is clear. -/
example :
    let d3 : G_observerData := { hasComps := true, compsMask := ⟨⟨8#64, 0#64, 0#64, 0#64⟩⟩ }
    let z : M256 := ⟨⟨0#64, 0#64, 0#64, 0#64⟩⟩
    let g (l : List G_observerData) : G_observerManager :=
      { observers := (List.replicate 251 []) ++ [l], allComps := List.replicate 252 z, allWith := List.replicate 252 z,
        anyNoComps := List.replicate 252 false, anyNoWith := List.replicate 252 false }
    let r1 := observerManager_RemoveObserver_aggregates (g [{}, d3]) { event := 251 }
    let r2 := observerManager_RemoveObserver_aggregates (g [d3]) { event := 251 }
    (r1.anyNoComps.getD 251 false, r1.allComps.getD 251 z) = (true, z) ∧
    (r2.anyNoComps.getD 251 false, r2.allComps.getD 251 z) = (false, ⟨⟨8#64, 0#64, 0#64, 0#64⟩⟩) := by
  decide

end Ark.Props.C08Src
