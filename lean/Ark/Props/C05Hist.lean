/-
  Ark.Props.C05Hist — C05 over histories of ANY length, for the non-relation, observer-free
  fragment with components:

    "At every point in time a registered filter yields the same entities, Count, EntityAt and
     batch selection as an identical unregistered filter […].  Registration, unregistration […]
     and the creation […] of tables never make the two diverge."

  The machine (`Ark.CacheHist.step2`, Ark/Proofs/CacheHistOps.lean) interleaves, from
  `World.init cap rel`, in any order:
    * `base op` — the eleven entity operations of `Ark.Refine`: `registerComponent`,
      `NewEntity(ids…)`, `NewEntity()`, `Add`, `Remove`, `Exchange` (each through the `Unsafe`,
      `Map` or `MapN` path), `Set`, `RemoveEntity`, `CopyEntity`, `Shrink`, `Reset`;
    * `fdef f fo` — a filter object is constructed and stored under label `f` (the `filter` line of
      the driver; `guardF`: the object is fresh, and for a typed filter the component list names
      registered components contained in the mask — `mkFilterObj` builds the driver's objects);
    * `freg f` / `funreg f` — `World.opFilterRegister` / `World.opFilterUnregister`.
  Filter objects may be typed or unsafe, with `without` / `exclusive` parts and with fixed
  relations (in this fragment no archetype has a relation column, so fixed relations select
  nothing away; a typed constructor rejects them).  Queries and batches take per-call relations
  `extra`: a typed query validates them first (`queryPreCheck`) — if it rejects them, cached and
  uncached query panic alike without effect (`rejected_extra_agree`); in this fragment a typed
  query rejects every non-empty `extra`, an unsafe query accepts all.

  Vocabulary:
    * `HInv2 s fl` — the inductive invariant: `Refine.HInv` (⊇ `CInv` ⊇ `SInv`, `IdxInv`) and `FInv`:
      `CacheInv` (I11), `RInv`, `HeapOK` (a filter object with `cache = some id` has a cache entry
      `id` with its filter and relations; registered objects have distinct IDs; typed objects
      name registered components of their mask), `CIdxH` (the component index lists, per
      component, the archetypes having it), the lock-bit pool invariant with no outstanding bit,
      `CachePoolOK` (registered IDs are below the next fresh one).
    * `Selected w f rels t` — table `t` is selected by filter `f` (Ark/Proofs/CacheInv.lean);
      `SelRow w fo (t, r)` — `t` is selected by `fo` and `r` is a row of `t`.
    * `{ fo with cache := none }` — the identical unregistered filter object.

  `Reset` is a step like any other: it empties the cache, unregisters every filter object of the
  heap and restarts the cache's ID pool and the lock-bit pool (`FInv.reset`); afterwards filters
  can be registered again and agree again.

  Bound: `ops.length < 2^32 − 2`, as for `Refine.reach_hinv`.

  Findings recorded here:
    * a complete iteration does NOT leave the world literally unchanged: `Lock`/`Unlock` push the
      lock bit onto the free list of the bit pool (`drain_changes_lock_pool`); the statement is
      "unchanged up to `locks`, unlocked, lock-pool invariant kept";
    * the cached batch selection skips empty tables, the uncached one (`getCacheTables`) does
      not (`batch_differs_on_empty`): the selections agree on the non-empty tables;
    * `guardF` is needed: a typed filter object whose component list contains an ID that is not
      in its mask diverges (`unguarded_typed_filter_diverges`) — not constructible through the
      typed Go API, where the list and the mask come from the same type parameters.
-/
import Ark.Proofs.CacheHistQuery

set_option autoImplicit false

namespace Ark.Props.C05Hist
open Ark Ark.World Ark.Refine Ark.CacheHist

variable (run : ProbeRunner) (cap rel : Nat)

/-! ## the invariant along histories -/

/-- **the invariant holds after every history** of entity and filter operations -/
theorem reach2_invariant (ops : List Op2) (hlen : ops.length < 2 ^ 32 - 2) :
    ∃ fl, HInv2 (reach2 run cap rel ops) fl :=
  reach2_inv run cap rel ops hlen

/-- one step keeps the invariant (all eleven entity operations, `fdef`, `freg`, `funreg`) -/
theorem step2_keeps {s : St} {fl : List Nat} (H : HInv2 s fl)
    (hfew : s.w.tables.length < maxU32) (hent : s.w.entities.length + 1 < 2 ^ 32) (op : Op2) :
    ∃ fl', HInv2 (step2 run s op) fl' :=
  (step2_inv run H hfew hent op).1

/-- the cache invariant (I11) holds after every history -/
theorem reach2_cacheInv (ops : List Op2) (hlen : ops.length < 2 ^ 32 - 2) :
    CacheInv (reach2 run cap rel ops).w := by
  obtain ⟨fl, H⟩ := reach2_inv run cap rel ops hlen
  exact H.cacheInv

/-- the storage facts the cache relies on hold after every history, and the uncached walk can
    never hit a nil dereference -/
theorem reach2_tablesInv (ops : List Op2) (hlen : ops.length < 2 ^ 32 - 2) :
    TablesInv (reach2 run cap rel ops).w ∧
    ∀ (f : Filter) (rels : List RelID), RelsOK (reach2 run cap rel ops).w f rels := by
  obtain ⟨fl, H⟩ := reach2_inv run cap rel ops hlen
  exact ⟨H.tablesInv, H.relsOK⟩

/-- the filter heap agrees with the cache after every history -/
theorem reach2_heapOK (ops : List Op2) (hlen : ops.length < 2 ^ 32 - 2) :
    HeapOK (reach2 run cap rel ops).w := by
  obtain ⟨fl, H⟩ := reach2_inv run cap rel ops hlen
  exact H.finv.heap

/-- every successful entity operation (all eleven of `Ark.Refine`) is: at most one
    `findOrCreateTableAdd` or one `registerComponent`, followed by steps that touch neither
    archetypes, cache, filter heap, component index, locks, registry nor observers
    (`Evolves.rows`); or `Shrink` (`Evolves.shrink`); or `Reset` (`Evolves.reset`) -/
theorem base_step_shape {s : St} {fl : List Nat} (H : HInv s fl) (hR : RInv s.w)
    (hent : s.w.entities.length + 1 < 2 ^ 32) {op : Op}
    (hg : guard s op = true) {r : Option Ent} {w' : World} (hex : exec run s.w op = .ok r w') :
    Evolves s.w w' :=
  exec_evolves run H hR hent hg hex

/-- each shape keeps the filter-side invariant -/
theorem finv_kept {w : World} (h : FInv w) :
    (∀ {w' : World}, NoRelW w → NoRelW w' → Quiet w w' → FInv w') ∧
    (∀ {w' : World}, FocStep w w' → FInv w') ∧
    (∀ {w' : World} {k : CompKind} {n : Nat}, SInvMid w →
      World.registerComponent k w = .ok n w' → FInv w') ∧
    (∀ {w' : World}, ShrinkRel w w' → RInv w' → (CacheInv w → CacheInv w') → FInv w') ∧
    (NoRelW w → FInv (resetW w)) :=
  ⟨fun hn hn' q => h.quiet hn hn' q, fun st => h.foc st, fun hS hr => h.reg hS hr,
    fun r hr hc => h.shrink r hr hc, fun hn => h.reset hn⟩

/-- `createTable` keeps the cache invariant (relations allowed) -/
theorem createTable_keeps_cacheInv {w w' : World} (h : SInvMid w) (hc : CacheInv w) {a : Nat}
    {rels : List RelID} {t : Nat} (ha : a < w.archetypes.length)
    (hnr : (w.arch a).hasRelations = false → (w.arch a).tables.tables = [])
    (hok : World.createTable a rels w = .ok t w') : CacheInv w' :=
  h.createTable_cacheInv hc ha hnr hok

/-! ## (1) cached = uncached, at every reachable state -/

/-- **For every history and every registered filter object of the reached state**: its cache
    entry exists (under the ID the object carries), has the object's filter and relations, and
    its table list is duplicate-free with the same members as the uncached walk, which
    succeeds and is duplicate-free.  No hypothesis other than the history bound. -/
theorem cached_eq_uncached (ops : List Op2) (hlen : ops.length < 2 ^ 32 - 2) {f : Nat}
    {fo : FilterObj} {id : Nat}
    (hf : AL.find? (reach2 run cap rel ops).w.filters f = some fo) (hc : fo.cache = some id) :
    ∃ (e : CacheEntry), (reach2 run cap rel ops).w.cacheEntry? id = some e ∧ e.id = id ∧
      e.filter = fo.filter ∧ e.rels = fo.rels ∧ e.tables.tables.Nodup ∧
      ∃ (ts : List Nat), (reach2 run cap rel ops).w.getCacheTables fo.filter fo.rels = some ts ∧
        ts.Nodup ∧ ∀ (t : Nat), t ∈ e.tables.tables ↔ t ∈ ts := by
  obtain ⟨fl, H⟩ := reach2_inv run cap rel ops hlen
  exact H.cached_eq_uncached hf hc

/-! ## (2) queries: `Count`, `EntityAt`, complete iteration

`extra` are the relations passed per query.  `queryPreCheck fo extra` is the validation
`FilterN.Query(rel…)` performs first (typed filters only; it reads the world only). -/

/-- the validation passes without per-call relations, and always for unsafe filters; when it
    rejects it leaves the world alone; in this fragment a typed filter rejects every non-empty
    list -/
theorem preCheck_facts (fo : FilterObj) (extra : List RelID) (w : World) :
    queryPreCheck fo [] w = .ok () w ∧
    (fo.typed = false → queryPreCheck fo extra w = .ok () w) ∧
    (queryPreCheck fo extra w = .ok () w ∨
      ∃ (k : PanicKind), queryPreCheck fo extra w = .panic k w) :=
  ⟨queryPreCheck_nil fo w, queryPreCheck_unsafe fo extra w, queryPreCheck_cases fo extra w⟩

/-- **rejected per-call relations**: neither query opens, both complete iterations panic with
    the same class, the world is unchanged (any world, any filter object) -/
theorem rejected_extra_agree (fo : FilterObj) (extra : List RelID) (w : World) {k : PanicKind}
    (hpc : queryPreCheck fo extra w = .panic k w) :
    qOpen fo extra w = .panic k w ∧ qOpen { fo with cache := none } extra w = .panic k w ∧
    drain fo extra w = .panic k w ∧ drain { fo with cache := none } extra w = .panic k w :=
  precheck_panic_agree fo extra w hpc

/-- **The open queries agree.**  Both open on the same locked world `wl` (the reached world with
    one lock bit taken); the rows the two cursors are expected to visit (`Drain.expected`, the
    rows `Count`/`EntityAt`/`Next` range over) are duplicate-free, exactly the rows of the
    selected tables, and permutations of each other; `Count` is the same number; `EntityAt`
    enumerates the same entities. -/
theorem open_agree (ops : List Op2) (hlen : ops.length < 2 ^ 32 - 2) {f : Nat}
    {fo : FilterObj} {id : Nat}
    (hf : AL.find? (reach2 run cap rel ops).w.filters f = some fo) (hc : fo.cache = some id)
    (extra : List RelID)
    (hpc : queryPreCheck fo extra (reach2 run cap rel ops).w = .ok () (reach2 run cap rel ops).w) :
    ∃ (qc qu : QueryObj) (wl : World) (rowsC rowsU : List (Nat × Nat)),
      qOpen fo extra (reach2 run cap rel ops).w = .ok qc wl ∧
      qOpen { fo with cache := none } extra (reach2 run cap rel ops).w = .ok qu wl ∧
      wl = { (reach2 run cap rel ops).w with locks := wl.locks } ∧
      Drain.expected wl qc = some rowsC ∧ Drain.expected wl qu = some rowsU ∧
      rowsC.Nodup ∧ rowsU.Nodup ∧ rowsC.Perm rowsU ∧
      (∀ (p : Nat × Nat), p ∈ rowsC ↔ SelRow (reach2 run cap rel ops).w fo p) ∧
      qCount wl qc = some rowsC.length ∧ qCount wl qu = some rowsC.length ∧
      (∀ (ent : Ent), (∃ (i : Nat), qEntityAt wl qc i = some (some ent)) ↔
        ∃ (i : Nat), qEntityAt wl qu i = some (some ent)) := by
  obtain ⟨fl, H⟩ := reach2_inv run cap rel ops hlen
  exact H.open_agree hf hc extra hpc

/-- **The complete iterations agree.**  `World.drain` (open, `Next` to exhaustion, close)
    succeeds for the registered filter object and for its unregistered twin; both end in the same
    world `wf`, which is the reached world up to `locks`, is unlocked, and satisfies the lock-pool
    invariant; every visit reports the entity stored in its row; the visited rows are
    duplicate-free and exactly the rows of the selected tables; the two visit sequences are
    permutations of each other, as rows and as entities. -/
theorem drain_agree (ops : List Op2) (hlen : ops.length < 2 ^ 32 - 2) {f : Nat}
    {fo : FilterObj} {id : Nat}
    (hf : AL.find? (reach2 run cap rel ops).w.filters f = some fo) (hc : fo.cache = some id)
    (extra : List RelID)
    (hpc : queryPreCheck fo extra (reach2 run cap rel ops).w = .ok () (reach2 run cap rel ops).w) :
    ∃ (vc vu : List Visit) (wf : World),
      drain fo extra (reach2 run cap rel ops).w = .ok vc wf ∧
      drain { fo with cache := none } extra (reach2 run cap rel ops).w = .ok vu wf ∧
      wf = { (reach2 run cap rel ops).w with locks := wf.locks } ∧ wf.isLocked = false ∧
      (∃ (lf : List Nat), Lock.LInv ⟨wf.locks, []⟩ lf) ∧
      (∀ (v : Visit), v ∈ vc → v.e = ((reach2 run cap rel ops).w.tbl v.table).getEntity v.row) ∧
      (∀ (v : Visit), v ∈ vu → v.e = ((reach2 run cap rel ops).w.tbl v.table).getEntity v.row) ∧
      (vc.map fun v => (v.table, v.row)).Nodup ∧ (vu.map fun v => (v.table, v.row)).Nodup ∧
      (∀ (p : Nat × Nat), p ∈ vc.map (fun v => (v.table, v.row)) ↔
        SelRow (reach2 run cap rel ops).w fo p) ∧
      (vc.map fun v => (v.table, v.row)).Perm (vu.map fun v => (v.table, v.row)) ∧
      (vc.map (·.e)).Perm (vu.map (·.e)) := by
  obtain ⟨fl, H⟩ := reach2_inv run cap rel ops hlen
  exact H.drain_agree hf hc extra hpc

/-- the statement of the task, without per-call relations: no hypothesis other than the history
    bound and "label `f` holds a registered filter object" -/
theorem drain_agree_nil (ops : List Op2) (hlen : ops.length < 2 ^ 32 - 2) {f : Nat}
    {fo : FilterObj} {id : Nat}
    (hf : AL.find? (reach2 run cap rel ops).w.filters f = some fo) (hc : fo.cache = some id) :
    ∃ (vc vu : List Visit) (wf : World),
      drain { fo with cache := some id } [] (reach2 run cap rel ops).w = .ok vc wf ∧
      drain { fo with cache := none } [] (reach2 run cap rel ops).w = .ok vu wf ∧
      wf = { (reach2 run cap rel ops).w with locks := wf.locks } ∧ wf.isLocked = false ∧
      (vc.map fun v => (v.table, v.row)).Nodup ∧
      (vc.map fun v => (v.table, v.row)).Perm (vu.map fun v => (v.table, v.row)) ∧
      (vc.map (·.e)).Perm (vu.map (·.e)) := by
  obtain ⟨vc, vu, wf, h1, h2, h3, h4, _, _, _, h5, _, _, h6, h7⟩ :=
    drain_agree run cap rel ops hlen hf hc [] (queryPreCheck_nil fo _)
  have hfo : ({ fo with cache := some id } : FilterObj) = fo := by rw [← hc]
  rw [hfo]
  exact ⟨vc, vu, wf, h1, h2, h3, h4, h5, h6, h7⟩

/-! ## (3) batch selection -/

/-- **The batch selections agree** (any per-call relations).  `getBatchTables` succeeds for both
    objects and leaves the world unchanged; both selections are duplicate-free; the uncached one
    lists exactly the selected tables, the cached one those of them that are not empty. -/
theorem batch_agree (ops : List Op2) (hlen : ops.length < 2 ^ 32 - 2) {f : Nat}
    {fo : FilterObj} {id : Nat}
    (hf : AL.find? (reach2 run cap rel ops).w.filters f = some fo) (hc : fo.cache = some id)
    (extra : List RelID) :
    ∃ (tc tu : List Nat),
      getBatchTables fo extra (reach2 run cap rel ops).w = .ok tc (reach2 run cap rel ops).w ∧
      getBatchTables { fo with cache := none } extra (reach2 run cap rel ops).w =
        .ok tu (reach2 run cap rel ops).w ∧
      tc.Nodup ∧ tu.Nodup ∧
      (∀ (t : Nat), t ∈ tu ↔ Selected (reach2 run cap rel ops).w fo.filter fo.rels t) ∧
      (∀ (t : Nat), t ∈ tc ↔ t ∈ tu ∧ ((reach2 run cap rel ops).w.tbl t).len ≠ 0) := by
  obtain ⟨fl, H⟩ := reach2_inv run cap rel ops hlen
  exact H.batch_agree hf hc extra

/-- the driver's filter objects pass the guard of `fdef` when their components are registered -/
theorem driver_filters_pass_guard {w : World} (hk : w.kinds.length ≤ 256) (ids : List Comp)
    (wo : Option (List Comp)) (excl typed : Bool) (rels : List RelID)
    (hreg : ∀ (c : Comp), c ∈ ids → c < w.kinds.length) :
    guardF w (mkFilterObj ids wo excl typed rels) = true :=
  guardF_mkFilterObj hk ids wo excl typed rels hreg

/-! ## non-vacuity: a concrete history -/

def noProbe : ProbeRunner := fun _ _ _ => pure ()

/-- two component types.  Filter 1 = typed "has 0"; filter 2 = unsafe "has 1, without 0".
    Filter 2 is registered; an entity `{0}` is created (archetype 1, table 1); filter 1 is
    registered (cached list `[1]`); an entity `{0, 1}` is created — archetype 2 / table 2 are new
    and `cache.addTable` appends table 2 to the entry of filter 1 AFTER its registration; filter
    2 is unregistered in between (swap-remove in the entry slice); an entity `{1}` (table 3, not
    selected), another `{0, 1}`; the first entity is removed (table 1 becomes empty). -/
def demoOps : List Op2 :=
  [.base (.reg 8 false), .base (.reg 8 false),
   .fdef 1 (mkFilterObj [0] none false true []),
   .fdef 2 (mkFilterObj [1] (some [0]) false false []),
   .freg 2,
   .base (.new .unsafe_ [0] [(0, 7)]),
   .freg 1,
   .base (.new .typed [0, 1] [(1, 3)]),
   .funreg 2,
   .base (.new .map1 [1] []),
   .base (.new .unsafe_ [0, 1] []),
   .base (.del ⟨2, 0⟩)]

/-- the state after the first `k` operations -/
def at_ (k : Nat) : St := reach2 noProbe 4 1 (demoOps.take k)

/-- the filter object under a label -/
def foOf (s : St) (f : Nat) : FilterObj := s.w.foAt f

/-- the cached table list of the filter object under a label -/
def cachedOf (s : St) (f : Nat) : List Nat :=
  match (foOf s f).cache with
  | some id => ((s.w.cacheEntry? id).map (·.tables.tables)).getD []
  | none => []

/-- what a complete iteration returns: entity, table, row of every visit; whether the world is
    unlocked afterwards -/
def visits (s : St) (fo : FilterObj) : Option (List (Ent × Nat × Nat) × Bool) :=
  match drain fo [] s.w with
  | .ok vs w' => some (vs.map (fun v => (v.e, v.table, v.row)), !w'.isLocked)
  | .panic _ _ => none

def sameSet {α : Type} [BEq α] (a b : List α) : Bool :=
  a.all (b.contains ·) && b.all (a.contains ·) && a.length == b.length

/-- cached and uncached iteration of the filter under label `f` visit the same rows -/
def agree (s : St) (f : Nat) : Bool :=
  match visits s (foOf s f), visits s { foOf s f with cache := none } with
  | some (a, ua), some (b, ub) => sameSet a b && ua && ub
  | _, _ => false

/-- all guards of the demo history hold (every `fdef` is a step) -/
example :
    guardF (at_ 2).w (mkFilterObj [0] none false true []) = true ∧
    guardF (at_ 3).w (mkFilterObj [1] (some [0]) false false []) = true := by
  decide +kernel

/-- the cache IDs of the two filter objects and the cached lists along the history: filter 1 is
    registered at step 7 with list `[1]`; the creation of archetype `{0,1}` at step 8 appends
    table 2; unregistering filter 2 (step 9) leaves the entry of filter 1 alone -/
example :
    ((foOf (at_ 5) 2).cache, (foOf (at_ 5) 1).cache) = (some 0, none) ∧
    cachedOf (at_ 5) 2 = [] ∧
    ((foOf (at_ 7) 2).cache, (foOf (at_ 7) 1).cache) = (some 0, some 1) ∧
    cachedOf (at_ 7) 1 = [1] ∧
    cachedOf (at_ 8) 1 = [1, 2] ∧ cachedOf (at_ 8) 2 = [] ∧
    ((foOf (at_ 9) 2).cache, (foOf (at_ 9) 1).cache) = (none, some 1) ∧
    cachedOf (at_ 9) 1 = [1, 2] ∧
    cachedOf (at_ 12) 1 = [1, 2] ∧
    (at_ 12).w.archetypes.map (·.tables.tables) = [[0], [1], [2], [3]] ∧
    (at_ 12).w.tables.map (·.len) = [0, 0, 2, 1] := by
  decide +kernel

/-- cached and uncached iterations agree after every prefix of the history in which filter 1 is
    registered (and for filter 2 while it is registered) -/
example :
    agree (at_ 7) 1 = true ∧ agree (at_ 8) 1 = true ∧ agree (at_ 9) 1 = true ∧
    agree (at_ 10) 1 = true ∧ agree (at_ 11) 1 = true ∧ agree (at_ 12) 1 = true ∧
    agree (at_ 5) 2 = true ∧ agree (at_ 8) 2 = true := by
  decide +kernel

/-- before the removal both queries visit three entities; at the end both visit the two `{0,1}`
    entities in table 2 and skip the emptied table 1 -/
example :
    visits (at_ 11) (foOf (at_ 11) 1) =
      some ([(⟨2, 0⟩, 1, 0), (⟨3, 0⟩, 2, 0), (⟨5, 0⟩, 2, 1)], true) ∧
    visits (at_ 12) (foOf (at_ 12) 1) = some ([(⟨3, 0⟩, 2, 0), (⟨5, 0⟩, 2, 1)], true) := by
  decide +kernel

example :
    visits (at_ 12) { foOf (at_ 12) 1 with cache := none } =
      some ([(⟨3, 0⟩, 2, 0), (⟨5, 0⟩, 2, 1)], true) := by
  decide +kernel

/-- the hypotheses of the theorems above are satisfied at the end of the demo history: filter 1
    is in the heap and registered -/
example :
    AL.find? (reach2 noProbe 4 1 demoOps).w.filters 1 = some (foOf (at_ 12) 1) ∧
    (foOf (at_ 12) 1).cache = some 1 ∧ demoOps.length < 2 ^ 32 - 2 := by
  decide +kernel

/-- per-call relations: an unsafe filter "has 1" (label 3) is added and registered after the demo
    history; queried with a per-call relation `(1, 2.0)` — ignored by tables without relation
    columns — cached and uncached iteration visit the same three entities; the typed filter 1
    rejects the same relation for both variants alike -/
def sExtra : St :=
  reach2 noProbe 4 1 (demoOps ++ [.fdef 3 (mkFilterObj [1] none false false []), .freg 3])

def visitsX (s : St) (fo : FilterObj) (extra : List RelID) : Option (List (Ent × Nat × Nat)) :=
  match drain fo extra s.w with
  | .ok vs _ => some (vs.map fun v => (v.e, v.table, v.row))
  | .panic _ _ => none

example :
    (foOf sExtra 3).cache = some 2 ∧ (foOf sExtra 3).typed = false ∧
    (match queryPreCheck (foOf sExtra 3) [⟨1, ⟨2, 0⟩⟩] sExtra.w with
     | .ok _ _ => true | .panic _ _ => false) = true ∧
    visitsX sExtra (foOf sExtra 3) [⟨1, ⟨2, 0⟩⟩] =
      some [(⟨3, 0⟩, 2, 0), (⟨5, 0⟩, 2, 1), (⟨4, 0⟩, 3, 0)] ∧
    visitsX sExtra { foOf sExtra 3 with cache := none } [⟨1, ⟨2, 0⟩⟩] =
      some [(⟨3, 0⟩, 2, 0), (⟨5, 0⟩, 2, 1), (⟨4, 0⟩, 3, 0)] ∧
    visitsX sExtra (foOf sExtra 1) [⟨1, ⟨2, 0⟩⟩] = none ∧
    visitsX sExtra { foOf sExtra 1 with cache := none } [⟨1, ⟨2, 0⟩⟩] = none := by
  decide +kernel

/-- the demo history continued with the other operations of the entity machine: `Exchange`
    (entity `4.0` moves from `{1}` to `{0}`: table 1 is filled again), `CopyEntity`, `Shrink`,
    a second registration of filter 2 (fresh cache ID 2: IDs are not recycled), `Reset` (cache
    emptied, both filter objects unregistered, ID pool restarted), a new registration of filter 1
    (cache ID 0 again; the entry lists the two emptied tables), and three creations -/
def demoOps2 : List Op2 :=
  demoOps ++
  [.base (.xchg .unsafe_ ⟨4, 0⟩ [0] [1] [(0, 9)]),
   .base (.copy ⟨3, 0⟩),
   .base (.shrink false),
   .freg 2,
   .base .reset,
   .freg 1,
   .base .new0,
   .base (.new .typed [0] [(0, 5)]),
   .base (.new .unsafe_ [0, 1] [])]

def at2 (k : Nat) : St := reach2 noProbe 4 1 (demoOps2.take k)

example :
    agree (at2 13) 1 = true ∧ agree (at2 14) 1 = true ∧ agree (at2 15) 1 = true ∧
    agree (at2 16) 1 = true ∧ agree (at2 16) 2 = true ∧ agree (at2 18) 1 = true ∧
    agree (at2 19) 1 = true ∧ agree (at2 20) 1 = true ∧ agree (at2 21) 1 = true := by
  decide +kernel

example :
    ((foOf (at2 16) 1).cache, (foOf (at2 16) 2).cache) = (some 1, some 2) ∧
    (cachedOf (at2 16) 1, cachedOf (at2 16) 2) = ([1, 2], [3]) ∧
    ((foOf (at2 17) 1).cache, (foOf (at2 17) 2).cache) = (none, none) ∧
    ((at2 17).w.cache.filters.length, (at2 17).w.cache.indices) = (0, []) ∧
    (at2 17).w.tables.map (·.len) = [0, 0, 0, 0] ∧
    ((foOf (at2 18) 1).cache, cachedOf (at2 18) 1) = (some 0, [1, 2]) := by
  decide +kernel

example :
    visits (at2 15) (foOf (at2 15) 1) =
      some ([(⟨4, 0⟩, 1, 0), (⟨3, 0⟩, 2, 0), (⟨5, 0⟩, 2, 1), (⟨2, 1⟩, 2, 2)], true) ∧
    visits (at2 21) (foOf (at2 21) 1) = some ([(⟨3, 0⟩, 1, 0), (⟨4, 0⟩, 2, 0)], true) := by
  decide +kernel

example :
    visits (at2 21) { foOf (at2 21) 1 with cache := none } =
      some ([(⟨3, 0⟩, 1, 0), (⟨4, 0⟩, 2, 0)], true) := by
  decide +kernel

/-! ## findings -/

/-- **A complete iteration changes the lock-bit pool**: after the first query ever, the pool has
    handed out one bit and holds it on its free list (`length = 1`, `available = 1`); the lock
    mask is empty again.  Hence "leave the world unchanged" holds up to `locks` only. -/
theorem drain_changes_lock_pool :
    (match drain (foOf (at_ 7) 1) [] (at_ 7).w with
     | .ok _ w' => (w'.locks.pool.length, w'.locks.pool.available, w'.isLocked,
         (at_ 7).w.locks.pool.length, (at_ 7).w.locks.pool.available)
     | .panic _ _ => (0, 0, true, 0, 0)) = (1, 1, false, 0, 0) := by
  decide +kernel

/-- **The batch selections differ on empty tables**: at the end of the demo history table 1 is
    empty; the cached `getBatchTables` skips it, the uncached one lists it. -/
theorem batch_differs_on_empty :
    (match getBatchTables (foOf (at_ 12) 1) [] (at_ 12).w,
       getBatchTables { foOf (at_ 12) 1 with cache := none } [] (at_ 12).w with
     | .ok a _, .ok b _ => (a, b)
     | _, _ => ([], [])) = ([2], [1, 2]) := by
  decide +kernel

/-- a typed filter object the guard rejects: mask "has 0", but component list `[1]` -/
def badFo : FilterObj := { filter := { mask := Mask.ofList [0] }, ids := [1], typed := true }

/-- **Why `fdef` is guarded**: store `badFo` in the heap of the state after step 8 (one `{0}`
    entity, one `{0,1}` entity) without the guard and register it.  The cached query visits both
    entities; the uncached query walks `componentIndex[1]` (archetype `{0,1}` only) and visits
    one.  The guard rejects the object; the typed Go API cannot build it. -/
theorem unguarded_typed_filter_diverges :
    guardF (at_ 8).w badFo = false ∧
    (let w0 : World := { (at_ 8).w with filters := AL.insert (at_ 8).w.filters 9 badFo }
     let w1 := (opFilterRegister 9 w0).state
     let s1 : St := { at_ 8 with w := w1 }
     ((visits s1 (foOf s1 9)).map (·.1.length),
      (visits s1 { foOf s1 9 with cache := none }).map (·.1.length))) = (some 2, some 1) := by
  decide +kernel

end Ark.Props.C05Hist
