import Ark.Proofs.Drain

namespace Ark.Props.C03Drain
open Ark Ark.World Ark.Drain

/-! C03 — a query visits each matching entity exactly once; `Count` equals the number of
    entities visited; `EntityAt(i)` is the `i`-th visited entity (iteration part).

    Vocabulary (all in `Ark.Proofs.Drain`):
    * `rowsOf w t` — the rows `(t,0) … (t,len-1)` of table `t`;
    * `expected w q` — the rows of the tables selected by the counting walk `qSelected`
      (the walk behind `Count`/`EntityAt`), in walk order; `none` = Go runtime panic;
    * `Fresh q` — the cursor fields of a freshly opened query;
    * `qNextPure` — `Query.Next` without the final `Close`; `drainPure` iterates it and records
      `(table,row)` after every successful step; `drainPureAux` also returns the final cursor and
      whether the end (`false`) was reported;
    * `closed q` — the cursor after `Close`;
    * `Frame q q'` — `q'` has the filter, relations, cache list, archetype list and lock bit of `q`. -/

/-- `drain_rows`, full form: from a freshly opened query on an unchanged world, if the counting
    walk selects `ts` (no runtime panic), `Next` yields exactly the rows of `ts`, in order — empty
    tables contribute nothing — and then reports `false`.  Any fuel above the number of rows
    suffices (in particular the fuels inside `nextTable`/`nextArchetype` always suffice). -/
theorem drain_rows_full (w : World) (q : QueryObj) (ts : List Nat) (fuel : Nat) (hf : Fresh q)
    (hsel : qSelected w q = some ts) (hfuel : (ts.flatMap (rowsOf w)).length < fuel) :
    ∃ qf, drainPureAux w q fuel = some (qf, true, ts.flatMap (rowsOf w)) ∧ Frame q qf ∧
      -1 ≤ qf.table :=
  Drain.drain_rows_aux w q ts fuel hf hsel hfuel

theorem drain_rows_of_fuel (w : World) (q : QueryObj) (ts : List Nat) (fuel : Nat) (hf : Fresh q)
    (hsel : qSelected w q = some ts) (hfuel : (ts.flatMap (rowsOf w)).length < fuel) :
    drainPure w q fuel = expected w q :=
  Drain.drain_rows_of_fuel w q ts fuel hf hsel hfuel

/-- `drain_rows` with the model's fuel: needs the selected tables to be pairwise distinct
    (without that hypothesis the statement is false, see `drainFuel_counterexample`). -/
theorem drain_rows_partial (w : World) (q : QueryObj) (ts : List Nat) (fuel : Nat) (hf : Fresh q)
    (hsel : qSelected w q = some ts) (hnd : ts.Nodup) (hfuel : drainFuel w ≤ fuel) :
    drainPure w q fuel = expected w q :=
  Drain.drain_rows_partial w q ts fuel hf hsel hnd hfuel

/-- `Count` equals the number of rows visited -/
theorem count_eq_visits (w : World) (q : QueryObj) (n : Nat) (h : qCount w q = some n) :
    ∃ rows, expected w q = some rows ∧ rows.length = n :=
  Drain.count_eq_visits w q n h

/-- `EntityAt(i)` is the entity stored at the `i`-th visited row; beyond the last row it is the
    out-of-bounds panic (`some none`) -/
theorem entityAt_eq_visit (w : World) (q : QueryObj) (rows : List (Nat × Nat)) (i : Nat)
    (hrows : expected w q = some rows) :
    (∀ (h : i < rows.length),
        qEntityAt w q i = some (some ((w.tbl rows[i].1).getEntity rows[i].2))) ∧
    (rows.length ≤ i → qEntityAt w q i = some none) :=
  Drain.entityAt_eq_visit w q rows i hrows

/-- the model's `drainFrom` on a world where the query's lock bit is held: visits exactly the
    expected rows, reports the entities stored there, closes the query; only the lock changes -/
theorem drainFrom_rows (w : World) (q : QueryObj) (ts : List Nat) (l' : Lock)
    (hf : Fresh q) (hsel : qSelected w q = some ts) (hnd : ts.Nodup)
    (hl : w.locks.unlock q.lockBit = some l') :
    ∃ qf visits, drainFrom q (drainFuel w) w = .ok (closed qf, visits) { w with locks := l' } ∧
      Frame q qf ∧
      visits.map (fun v => (v.table, v.row)) = ts.flatMap (rowsOf w) ∧
      visits.map (·.e) = (ts.flatMap (rowsOf w)).map (fun p => (w.tbl p.1).getEntity p.2) :=
  Drain.drainFrom_rows w q ts l' hf hsel hnd hl

/-- the same for any fuel above the number of rows, without the distinctness hypothesis -/
theorem drainFrom_rows_of_fuel (w : World) (q : QueryObj) (ts : List Nat) (l' : Lock) (fuel : Nat)
    (hf : Fresh q) (hsel : qSelected w q = some ts)
    (hl : w.locks.unlock q.lockBit = some l')
    (hfuel : (ts.flatMap (rowsOf w)).length < fuel) :
    ∃ qf visits, drainFrom q fuel w = .ok (closed qf, visits) { w with locks := l' } ∧
      Frame q qf ∧
      visits.map (fun v => (v.table, v.row)) = ts.flatMap (rowsOf w) ∧
      visits.map (·.e) = (ts.flatMap (rowsOf w)).map (fun p => (w.tbl p.1).getEntity p.2) :=
  Drain.drainFrom_rows_of_fuel w q ts l' fuel hf hsel hl hfuel

/-- a query delivered by `qOpen` is fresh -/
theorem qOpen_fresh (fo : FilterObj) (extra : List RelID) (w w1 : World) (q : QueryObj)
    (h : qOpen fo extra w = .ok q w1) : Fresh q :=
  Drain.qOpen_fresh fo extra w w1 q h

/-- the complete operation `drain` (open, iterate, close) -/
theorem drain_rows_monadic (fo : FilterObj) (extra : List RelID) (w w1 : World) (q : QueryObj)
    (ts : List Nat) (l' : Lock) (ho : qOpen fo extra w = .ok q w1)
    (hsel : qSelected w1 q = some ts) (hnd : ts.Nodup)
    (hl : w1.locks.unlock q.lockBit = some l') :
    ∃ visits, drain fo extra w = .ok visits { w1 with locks := l' } ∧
      visits.map (fun v => (v.table, v.row)) = ts.flatMap (rowsOf w1) ∧
      visits.map (·.e) = (ts.flatMap (rowsOf w1)).map (fun p => (w1.tbl p.1).getEntity p.2) :=
  Drain.drain_rows_monadic fo extra w w1 q ts l' ho hsel hnd hl

/-- every row exactly once: pairwise distinct selected tables give pairwise distinct visits -/
theorem visits_nodup (w : World) (q : QueryObj) (ts : List Nat) (hf : Fresh q)
    (hsel : qSelected w q = some ts) (hnd : ts.Nodup) :
    ∃ rows, drainPure w q (drainFuel w) = some rows ∧ expected w q = some rows ∧ rows.Nodup := by
  refine ⟨ts.flatMap (rowsOf w), ?_, by simp [expected, hsel], Drain.rows_nodup w ts hnd⟩
  rw [Drain.drain_rows_partial w q ts _ hf hsel hnd (Nat.le_refl _)]
  simp [expected, hsel]

/-! ## Non-vacuity: a concrete world built with the model's operations -/

/-- components 0, 1 (plain), 2 (relation); two parents in table 0; two entities with `[0]`
    (table 1); one entity with `[0,1]` created and removed (table 2 stays, empty); three entities
    with `[0,2]`, targets `p1`, `p2`, `p1` (tables 3 and 4 of the relation archetype) -/
def build : W Unit := do
  let _ ← registerComponent {}
  let _ ← registerComponent {}
  let _ ← registerComponent { isRel := true }
  let p1 ← opNewEntity0 probe
  let p2 ← opNewEntity0 probe
  let _ ← opNewEntity probe .typed [0] [] []
  let _ ← opNewEntity probe .typed [0] [] []
  let e3 ← opNewEntity probe .typed [0, 1] [] []
  opRemoveEntity probe e3
  let _ ← opNewEntity probe .typed [0, 2] [] [⟨2, p1⟩]
  let _ ← opNewEntity probe .typed [0, 2] [] [⟨2, p2⟩]
  let _ ← opNewEntity probe .typed [0, 2] [] [⟨2, p1⟩]

def wDemo : World := (build (World.init 2 2)).state

/-- filter "has component 0" -/
def foA : FilterObj := { filter := { mask := Mask.ofList [0] }, ids := [0] }
/-- filter "has components 0 and 2" (queried with relation target `p1 = ⟨2,0⟩`) -/
def foB : FilterObj := { filter := { mask := Mask.ofList [0, 2] }, ids := [0, 2] }

/-- run a check on the opened query and the locked world -/
def onOpen (fo : FilterObj) (extra : List RelID) (w : World) (f : QueryObj → World → Bool) : Bool :=
  match qOpen fo extra w with
  | .ok q w1 => f q w1
  | .panic _ _ => false

example :
    wDemo.tables.map (·.len) = [2, 2, 0, 2, 1] ∧
    wDemo.archetypes.map (·.tables.tables) = [[0], [1], [2], [3, 4]] := by
  decide +kernel

/-- uncached query over all tables with component 0: the walk selects tables 1, 2, 3, 4; the
    drain visits the rows of 1, 3, 4, skips the empty table 2; `Count` = 5 = number of visits;
    `EntityAt` agrees with the visit order and panics out of bounds at 5 -/
example : onOpen foA [] wDemo (fun q w =>
    qSelected w q == some [1, 2, 3, 4] &&
    drainPure w q (drainFuel w) == some [(1, 0), (1, 1), (3, 0), (3, 1), (4, 0)] &&
    expected w q == some [(1, 0), (1, 1), (3, 0), (3, 1), (4, 0)] &&
    qCount w q == some 5 &&
    (List.range 6).map (qEntityAt w q) ==
      [some (some ⟨4, 0⟩), some (some ⟨5, 0⟩), some (some ⟨6, 1⟩), some (some ⟨8, 0⟩),
       some (some ⟨7, 0⟩), some none] &&
    (match drainFrom q (drainFuel w) w with
     | .ok (_, vs) w' =>
       vs.map (fun v => (v.e, v.table, v.row)) ==
         [(⟨4, 0⟩, 1, 0), (⟨5, 0⟩, 1, 1), (⟨6, 1⟩, 3, 0), (⟨8, 0⟩, 3, 1), (⟨7, 0⟩, 4, 0)] &&
       !w'.isLocked && w.isLocked
     | .panic _ _ => false)) = true := by
  decide +kernel

/-- relation query (target `p1`): only table 3 of the relation archetype -/
example : onOpen foB [⟨2, ⟨2, 0⟩⟩] wDemo (fun q w =>
    qSelected w q == some [3] &&
    drainPure w q (drainFuel w) == some [(3, 0), (3, 1)] &&
    qCount w q == some 2 &&
    qEntityAt w q 1 == some (some ⟨8, 0⟩) && qEntityAt w q 2 == some none) = true := by
  decide +kernel

/-- cached query: register the filter of `foA`, then query through the cache entry -/
example :
    (match cacheRegister foA.filter [] wDemo with
     | .ok id w => onOpen { foA with cache := some id } [] w (fun q w =>
        q.cacheTables == some [1, 2, 3, 4] &&
        qSelected w q == some [1, 3, 4] &&
        drainPure w q (drainFuel w) == some [(1, 0), (1, 1), (3, 0), (3, 1), (4, 0)] &&
        qCount w q == some 5 && qEntityAt w q 4 == some (some ⟨7, 0⟩))
     | .panic _ _ => false) = true := by
  decide +kernel

/-- Why `drain_rows` needs more than `fuel ≥ drainFuel w`: on a (non-reachable) cursor whose
    cached table list repeats table 1 ten times, the expected rows are 20 while `drainFuel w = 18`;
    the drain with that fuel stops early.  With fuel 21 it is complete (`drain_rows_of_fuel`). -/
def qRep : QueryObj :=
  { filter := {}, rels := [], cacheTables := some (List.replicate 10 1), rare := none, lockBit := 0 }

theorem drainFuel_counterexample :
    Fresh qRep ∧ drainFuel wDemo = 18 ∧
    (expected wDemo qRep).map (·.length) = some 20 ∧
    (drainPure wDemo qRep (drainFuel wDemo)).map (·.length) = some 18 ∧
    drainPure wDemo qRep (drainFuel wDemo) ≠ expected wDemo qRep ∧
    drainPure wDemo qRep 21 = expected wDemo qRep := by
  refine ⟨⟨rfl, rfl, rfl, rfl, rfl, rfl⟩, ?_⟩
  decide +kernel

end Ark.Props.C03Drain
