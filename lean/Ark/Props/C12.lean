import Ark.Generated.FactsMapRanges
import Ark.Proofs.AL
import Ark.Model.Archetype

namespace Ark.Props.C12
open Ark

/-! C12 — determinism: the only map iterations in the package are the two loops of
    `archetype.FreeTable`, and their result does not depend on the iteration order. -/

/-- T2 (regenerated): the complete list of `range` statements over map-typed expressions. -/
theorem map_ranges_only_in_freeTable :
    Generated.mapRanges = [("archetype.FreeTable", "m"), ("archetype.FreeTable", "a.targetTables")] := by decide

/-- the two loops apply one function to every value of the map: the result for a key depends only on the value stored under that key, hence not on the order in which the map is walked -/
theorem freeTable_loops_pointwise : type_of% @AL.find?_mapVals := @AL.find?_mapVals

end Ark.Props.C12
