/-
  C02 — Entity handles are unique and liveness is exact.

  Stated over arbitrary histories of pool operations (any interleaving of creations and
  removals, any recycle order, any length).  The world model issues exactly these pool
  operations: every creation path (`NewEntity`, batch creation, `CopyEntity`) is `Pool.get`,
  every removal path is `Pool.recycle` behind the `Alive` guard (Ark/Model/World.lean; checked
  against the implementation by the correspondence runs).

  Hypothesis recorded once: generations are naturals (no `uint32` wrap-around, i.e. fewer than
  2^32 recycles of one ID).
-/
import Ark.Proofs.PoolHistory
import Ark.Props.C01Hist

namespace Ark.Props.C02
open Ark Ark.Pool

/-- the pool state (with ghost history) reached by an arbitrary history -/
def reach (ops : List Op) : PS := PS.init.run ops

/-- Every handle returned by a creation differs from every handle issued so far. -/
theorem fresh_handle (ops : List Op) :
    (reach ops).p.get.2 ∉ (reach ops).issued := by
  obtain ⟨fl, g⟩ := run_inv ops PS.init [] ginv_init
  show (PS.init.run ops).p.get.2 ∉ (PS.init.run ops).issued
  generalize PS.init.run ops = s at g ⊢
  -- one more `get` keeps the invariant, and live handles are duplicate free
  obtain ⟨fl', g'⟩ := step_inv s fl g .get
  intro hmem
  -- the new handle is live afterwards; if it had been issued before, it was alive before iff live
  have hl : s.p.get.2 ∈ (s.step .get).live := by simp [PS.step]
  obtain ⟨h2, hnf, hslot⟩ := (g'.live_iff _).mp hl
  -- before the step: bounded by its slot
  obtain ⟨_, e, he, hle, hlt⟩ := g.issued_bound _ hmem
  by_cases hav : s.p.available = 0
  · have hget : s.p.get = s.p.getNew := by simp [Pool.get, hav]
    have hid : s.p.get.2.id = s.p.ents.length := by rw [hget]; rfl
    have := (List.getElem?_eq_some_iff.mp he).1
    omega
  · have hget : s.p.get = s.p.getRecycled := by simp [Pool.get, hav]
    obtain ⟨x, flt, hfl⟩ : ∃ x flt, fl = x :: flt := by
      cases fl with
      | nil => have := g.pinv.avail; simp at this; omega
      | cons x flt => exact ⟨x, flt, rfl⟩
    subst hfl
    obtain ⟨_, hid, _, e2, he2, hgen⟩ := getRecycled_inv s.p x flt g.pinv
    rw [hget] at he hlt hle
    rw [hid] at he hlt
    rw [he2] at he; injection he with he; subst he
    have := hlt (by simp)
    omega

/-- `Alive(h)` is exact: for every handle issued during the history, it is true iff the handle
    was created and not yet removed. -/
theorem alive_exact (ops : List Op) (h : Ent) :
    h ∈ (reach ops).issued → ((reach ops).p.alive h = true ↔ h ∈ (reach ops).live) := by
  intro hi
  obtain ⟨fl, g⟩ := run_inv ops PS.init [] ginv_init
  exact alive_iff_live _ fl g h hi

/-- A removed handle never becomes alive again: once a handle has left the live set it can
    never re-enter it, because every later creation returns a handle not issued before. -/
theorem dead_stays_dead (ops : List Op) (h : Ent) :
    h ∈ (reach ops).issued → h ∉ (reach ops).live → ∀ op, h ∉ ((reach ops).step op).live := by
  intro hi hnl op
  cases op with
  | get =>
    simp only [PS.step, List.mem_cons, not_or]
    refine ⟨?_, hnl⟩
    intro heq
    exact fresh_handle ops (heq ▸ hi)
  | recycle e =>
    simp only [PS.step]
    split
    · intro hm; exact hnl (List.mem_of_mem_erase hm)
    · exact hnl

/-- The number of alive entities the pool reports (`Len`) equals the number of live handles,
    i.e. creations minus removals. -/
theorem count_exact (ops : List Op) :
    (reach ops).p.len = (reach ops).live.length := by
  obtain ⟨fl, g⟩ := run_inv ops PS.init [] ginv_init
  show (PS.init.run ops).p.len = (PS.init.run ops).live.length
  generalize PS.init.run ops = s at g ⊢
  have h1 := g.count
  have h2 := g.pinv.avail
  simp only [Pool.len, Pool.reserved]
  omega

/-- Live handles are pairwise distinct, and distinct live handles have distinct IDs. -/
theorem live_unique (ops : List Op) :
    (reach ops).live.Nodup ∧ ∀ a ∈ (reach ops).live, ∀ b ∈ (reach ops).live, a.id = b.id → a = b := by
  obtain ⟨fl, g⟩ := run_inv ops PS.init [] ginv_init
  show (PS.init.run ops).live.Nodup ∧ ∀ a ∈ (PS.init.run ops).live, ∀ b ∈ (PS.init.run ops).live, a.id = b.id → a = b
  generalize PS.init.run ops = s at g ⊢
  refine ⟨g.live_nodup, ?_⟩
  intro a ha b hb hab
  obtain ⟨_, _, ca⟩ := (g.live_iff a).mp ha
  obtain ⟨_, _, cb⟩ := (g.live_iff b).mp hb
  rw [hab, cb] at ca
  injection ca with ca
  exact ca.symm

/-- After `Reset` no handle of the previous epoch is alive (until its ID is created again):
    the pool memory behind the truncated slice only holds the sentinel generation. -/
theorem reset_kills (p : Pool) (hstale : ∀ e ∈ p.stale, e.gen = maxU32) (h : Ent)
    (h2 : 2 ≤ h.id) (hgen : h.gen ≠ maxU32) : p.reset.alive h = false := by
  simp only [Pool.alive, Pool.reset]
  split
  · rename_i s hs
    have hlen : (p.ents.take Pool.reserved).length ≤ h.id := by
      simp only [List.length_take, Pool.reserved]; omega
    rw [List.getElem?_append_right hlen] at hs
    have hm := List.mem_of_getElem? hs
    rcases List.mem_append.mp hm with hm | hm
    · obtain ⟨e, _, he⟩ := List.mem_map.mp hm
      subst he
      simp
      exact fun hh => hgen hh.symm
    · have := hstale s hm
      simp [this]
      exact fun hh => hgen hh.symm
  · rfl

/-! Non-vacuity: a concrete history with recycling in LIFO and FIFO order. -/
example :
    let s := reach [.get, .get, .get, .recycle ⟨2, 0⟩, .recycle ⟨4, 0⟩, .get, .get, .recycle ⟨4, 1⟩, .get]
    s.live.length = 3 ∧ s.issued.length = 6 ∧ s.p.alive ⟨4, 0⟩ = false ∧ s.p.alive ⟨4, 2⟩ = true := by
  decide


/-! ### World level (the model's NewEntity/RemoveEntity operations, histories of any length) -/

/-- World.Alive(h) holds exactly for the handles created and not yet removed, after any history of world operations of the fragment -/
theorem alive_exact_world : type_of% @Ark.Props.C01Hist.alive_exact_world := @Ark.Props.C01Hist.alive_exact_world

/-- used entities = alive handles = number of table rows, after any such history -/
theorem count_world : type_of% @Ark.Props.C01Hist.count_world := @Ark.Props.C01Hist.count_world

/-- every NewEntity returns a handle different from all handles returned before -/
theorem handles_fresh_world : type_of% @Ark.Props.C01Hist.handles_fresh_world := @Ark.Props.C01Hist.handles_fresh_world

end Ark.Props.C02
