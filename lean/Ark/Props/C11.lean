/-
  C11 — Component memory is clean.

  A component added without an initial value reads as the zero value no matter what previously
  occupied that storage (removed rows, reset tables, recycled tables, grown or shrunk arrays),
  and stored values survive moves, growth and shrinking unchanged.

  Stated over the table model (Ark/Model/Table.lean, written after table.go / column.go); the
  invariant `Table.Shape` and all supporting lemmas are in Ark/Proofs/Table.lean.

  Hypothesis recorded once: a table holds fewer than 2^32 rows (row indices are `uint32` in the
  implementation; the model's `capPow2` is exact up to 2^33).
-/
import Ark.Proofs.Table

namespace Ark.Props.C11
open Ark Ark.Table

/-! ## arbitrary table histories -/

/-- one table-level operation; indices out of range make the operation a no-op -/
inductive TOp
  | add (e : Ent)
  | remove (i : Nat)
  | setCell (c r : Nat) (v : Val)
  | reset
  | shrink (m : Nat)
  | extend (n : Nat)
  deriving DecidableEq, Repr

/-- rows (or spare rows) an operation may request -/
def TOp.grow : TOp → Nat
  | .add _ => 1
  | .extend n => n
  | _ => 0

def step (t : Table) : TOp → Table
  | .add e => (t.add e).1
  | .remove i => if i < t.len then (t.remove i).1 else t
  | .setCell c r v => if r < t.len then t.setCell c r v else t
  | .reset => t.reset
  | .shrink m => (t.shrink m).1
  | .extend n => t.extend n

/-- the table reached from `t` by a history -/
def run (t : Table) (ops : List TOp) : Table := ops.foldl step t

/-- total growth requested by a history -/
def growth (ops : List TOp) : Nat := (ops.map TOp.grow).sum

theorem step_len_le (t : Table) (op : TOp) : (step t op).len ≤ t.len + op.grow := by
  cases op with
  | add e => exact Nat.le_of_eq (add_fst_len t e)
  | remove i =>
    simp only [step, TOp.grow]
    split
    · rw [remove_len]; omega
    · omega
  | setCell c r v =>
    simp only [step, TOp.grow]
    split
    · rw [setCell_len]; omega
    · omega
  | reset => simp only [step, TOp.grow, reset_len]; omega
  | shrink m => simp only [step, TOp.grow, shrink_len]; omega
  | extend n => simp only [step, TOp.grow, extend_len]; omega

theorem step_shape {t : Table} (h : t.Shape) (op : TOp) (hb : t.len + op.grow < 2 ^ 32) :
    (step t op).Shape := by
  cases op with
  | add e => exact add_shape h e hb
  | remove i =>
    simp only [step]
    split
    · rename_i hi; exact remove_shape h i hi
    · exact h
  | setCell c r v =>
    simp only [step]
    split
    · rename_i hr; exact setCell_shape h c r v hr
    · exact h
  | reset => exact reset_shape h
  | shrink m => exact shrink_shape h m (by simp only [TOp.grow] at hb; omega)
  | extend n => exact extend_shape h n hb

theorem run_shape : ∀ (ops : List TOp) (t : Table), t.Shape → t.len + growth ops < 2 ^ 32 →
    (run t ops).Shape
  | [], _, h, _ => h
  | op :: ops, t, h, hb => by
    have hg : growth (op :: ops) = op.grow + growth ops := by
      simp [growth]
    rw [hg] at hb
    have hl := step_len_le t op
    exact run_shape ops (step t op) (step_shape h op (by omega)) (by omega)

/-! ## property theorems -/

/-- **(b)** The shape invariant (column lengths, zero tail, zero-size columns all zero) holds
    after any history of adds, removes, writes, resets, shrinks and reservations on a fresh
    table. -/
theorem shape_reachable (id arch : Nat) (ids : List Comp) (isRel zst : List Bool) (cap : Nat)
    (targets : List Ent) (relIDs : List RelID) (hz : zst.length = ids.length)
    (ops : List TOp) (hb : growth ops < 2 ^ 32) :
    (run (Table.new id arch ids isRel zst cap targets relIDs) ops).Shape :=
  run_shape ops _ (new_shape id arch ids isRel zst cap targets relIDs hz)
    (by show 0 + growth ops < 2 ^ 32; omega)

/-- **(a)** For any table satisfying the shape invariant — whatever adds, removes, writes,
    resets, growth and shrinking produced it — the row produced by `add` reads the zero value
    in every column. -/
theorem uninit_add_reads_zero (t : Table) (h : t.Shape) (e : Ent) (i : Nat) :
    (t.add e).1.cell i (t.add e).2 = 0 :=
  add_new_row_zero h e i

/-- the same through the component-ID accessor: whatever `getComp` returns for the new row is
    the zero value -/
theorem uninit_add_getComp_zero (t : Table) (h : t.Shape) (e : Ent) (c : Comp) (v : Val)
    (hv : (t.add e).1.getComp c (t.add e).2 = some v) : v = 0 := by
  simp only [getComp] at hv
  cases hc : (t.add e).1.colIdx c with
  | none => rw [hc] at hv; simp at hv
  | some i =>
    rw [hc] at hv
    have : (t.add e).1.cell i (t.add e).2 = v := Option.some.inj hv
    rw [← this]; exact add_new_row_zero h e i

/-- **(a), over histories**: after any history on a fresh table, an uninitialised add reads
    zero in every column. -/
theorem uninit_add_reads_zero_history (id arch : Nat) (ids : List Comp) (isRel zst : List Bool)
    (cap : Nat) (targets : List Ent) (relIDs : List RelID) (hz : zst.length = ids.length)
    (ops : List TOp) (hb : growth ops < 2 ^ 32) (e : Ent) (i : Nat) :
    let t := run (Table.new id arch ids isRel zst cap targets relIDs) ops
    (t.add e).1.cell i (t.add e).2 = 0 :=
  add_new_row_zero (shape_reachable id arch ids isRel zst cap targets relIDs hz ops hb) e i

/-- batch form: all rows reserved by `alloc n` read zero -/
theorem uninit_alloc_reads_zero (t : Table) (h : t.Shape) (n i r : Nat) (hr : t.len ≤ r)
    (hr' : r < t.len + n) : (t.alloc n).cell i r = 0 :=
  alloc_new_rows_zero' h n i r hr hr'

/-- after `reset` all component memory is zero -/
theorem reset_reads_zero (t : Table) (h : t.Shape) (i r : Nat) : t.reset.cell i r = 0 :=
  (reset_zero h).2 i r

/-- **(c)** Values survive moves: growth (`adjustCapacity`, `extend`, `alloc`, `add`) and
    shrinking leave every cell and entity of the rows in use unchanged; a swap-remove moves the
    last row into the vacated slot and leaves every other remaining row unchanged. -/
theorem moves_preserve_values (t : Table) (h : t.Shape) :
    (∀ i r : Nat, r < t.len →
      (∀ c, (t.adjustCapacity c).cell i r = t.cell i r ∧
            (t.adjustCapacity c).getEntity r = t.getEntity r) ∧
      (∀ n, (t.extend n).cell i r = t.cell i r ∧ (t.extend n).getEntity r = t.getEntity r) ∧
      (∀ n, (t.alloc n).cell i r = t.cell i r ∧ (t.alloc n).getEntity r = t.getEntity r) ∧
      (∀ e, (t.add e).1.cell i r = t.cell i r ∧ (t.add e).1.getEntity r = t.getEntity r) ∧
      (∀ m, (t.shrink m).1.cell i r = t.cell i r ∧
            (t.shrink m).1.getEntity r = t.getEntity r)) ∧
    (∀ idx : Nat, idx < t.len →
      (t.remove idx).1.len = t.len - 1 ∧
      (t.remove idx).2 = (idx != t.len - 1) ∧
      (∀ i r : Nat, r < t.len - 1 →
        (t.remove idx).1.cell i r = if r = idx then t.cell i (t.len - 1) else t.cell i r) ∧
      (∀ r : Nat, r < t.len - 1 →
        (t.remove idx).1.getEntity r =
          if r = idx then t.getEntity (t.len - 1) else t.getEntity r)) := by
  refine ⟨fun i r hr => ?_, fun idx hi => remove_spec h idx hi⟩
  obtain ⟨h1, h2, h3, h4⟩ := add_preserves_rows t i r hr
  exact ⟨h1, h2, h3, h4, fun m => shrink_preserves_rows t m i r hr⟩

/-- a written value is read back, and a write disturbs no other cell -/
theorem write_read (t : Table) (h : t.Shape) (col row : Nat) (v : Val)
    (hcol : col < t.ids.length) (hz : t.zst.getD col false = false) (hrow : row < t.cap) :
    (t.setCell col row v).cell col row = v ∧
    ∀ i r : Nat, (i ≠ col ∨ r ≠ row) → (t.setCell col row v).cell i r = t.cell i r :=
  setCell_get h col row v hcol hz hrow

/-! ## non-vacuity: a concrete history

  Two columns, capacity 1.  Add `e1`, write 7/8; add `e2` (the table grows to capacity 2),
  write 9/10; swap-remove row 0 (`e2` moves down with its values, the vacated row is zeroed);
  add `e3`: it lands on the storage that held 9/10 and reads zero. -/

private def e1 : Ent := ⟨1, 0⟩
private def e2 : Ent := ⟨2, 0⟩
private def e3 : Ent := ⟨3, 0⟩

private def t0 : Table := Table.new 0 0 [4, 9] [false, false] [false, false] 1 [] []

private def hist : List TOp :=
  [.add e1, .setCell 0 0 7, .setCell 1 0 8,
   .add e2, .setCell 0 1 9, .setCell 1 1 10,
   .remove 0, .add e3]

example :
    -- growth happened, and the values written before it survived it
    (run t0 (hist.take 3)).cap = 1 ∧ (run t0 (hist.take 4)).cap = 2 ∧
    (run t0 (hist.take 4)).cell 0 0 = 7 ∧ (run t0 (hist.take 4)).cell 1 0 = 8 ∧
    -- before the removal the last row holds 9/10
    (run t0 (hist.take 6)).cell 0 1 = 9 ∧ (run t0 (hist.take 6)).cell 1 1 = 10 ∧
    -- the swap-remove moved `e2` with its values into row 0
    ((run t0 (hist.take 6)).remove 0).2 = true ∧
    (run t0 (hist.take 7)).len = 1 ∧
    (run t0 (hist.take 7)).getEntity 0 = e2 ∧
    (run t0 (hist.take 7)).cell 0 0 = 9 ∧ (run t0 (hist.take 7)).cell 1 0 = 10 ∧
    -- the re-added row reuses row 1 and reads zero in both columns
    (run t0 hist).len = 2 ∧ (run t0 hist).getEntity 1 = e3 ∧
    (run t0 hist).cell 0 1 = 0 ∧ (run t0 hist).cell 1 1 = 0 ∧
    (run t0 hist).getComp 4 1 = some 0 ∧ (run t0 hist).getComp 9 1 = some 0 ∧
    -- while row 0 still holds the moved values
    (run t0 hist).cell 0 0 = 9 ∧ (run t0 hist).cell 1 0 = 10 ∧
    -- reset and shrink on top: everything zero, capacity back to 1
    (run t0 (hist ++ [.reset, .shrink 0])).cap = 1 ∧
    (run t0 (hist ++ [.reset, .shrink 0, .add e1])).cell 0 0 = 0 := by
  decide

end Ark.Props.C11
