import Ark.Proofs.ArchIndex
import Ark.Proofs.Rejects
import Ark.Proofs.GenBridge.BookArchetype

namespace Ark.Props.C04
open Ark

/-! C04 — relation indices stay consistent under table creation, freeing, recycling and target
    removal (per-archetype index invariant `IndexInv`). -/

/-- a new archetype satisfies the index invariant -/
theorem index_new : type_of% @Archetype.indexInv_new := @Archetype.indexInv_new

/-- registering a new table keeps all per-target lookups exact -/
theorem index_addTable : type_of% @Archetype.IndexInv.addTable := @Archetype.IndexInv.addTable

/-- recycling a free table for other targets keeps the lookups exact: it is reachable only under its new targets -/
theorem index_recycle : type_of% @Archetype.IndexInv.recycle := @Archetype.IndexInv.recycle

/-- freeing an empty table whose targets are alive (Shrink) keeps the lookups exact -/
theorem index_shrink_free : type_of% @Archetype.IndexInv.freeTable_removeTableRelations := @Archetype.IndexInv.freeTable_removeTableRelations

/-- freeing the tables of a removed target, one by one, keeps the lookups exact for all other targets -/
theorem index_cleanup_free : type_of% @Archetype.IndexInvExcept.freeTable := @Archetype.IndexInvExcept.freeTable

/-- after all tables of a removed target are freed, dropping its key restores the full invariant -/
theorem index_cleanup_done : type_of% @Archetype.IndexInvExcept.removeTarget := @Archetype.IndexInvExcept.removeTarget

/-- dropping the key of an entity that no table targets changes nothing else -/
theorem index_removeTarget : type_of% @Archetype.IndexInv.removeTarget := @Archetype.IndexInv.removeTarget

/-- the defect repaired in Shrink (D1): freeing alone leaves a stale entry -/
theorem free_alone_breaks : type_of% @Archetype.freeTable_alone_breaks := @Archetype.freeTable_alone_breaks


/-! ### The code itself: `tableIDs` of archetype.go, translated statement by statement on every run -/

/-- `newTableIDs` as in the source = the model's `TableIDs.ofList` -/
theorem src_newTableIDs : type_of% @Ark.GenBridge.Book.newTableIDs_eq := @Ark.GenBridge.Book.newTableIDs_eq
/-- `tableIDs.Append` as in the source = the model's -/
theorem src_tableIDs_append : type_of% @Ark.GenBridge.Book.append_eq := @Ark.GenBridge.Book.append_eq
/-- `tableIDs.Remove` (swap-remove through the index map) as in the source = the model's, for every state -/
theorem src_tableIDs_remove : type_of% @Ark.GenBridge.Book.remove_eq := @Ark.GenBridge.Book.remove_eq
/-- `tableIDs.Clear` as in the source = the model's -/
theorem src_tableIDs_clear : type_of% @Ark.GenBridge.Book.clear_eq := @Ark.GenBridge.Book.clear_eq

/-! ### The code itself: the relation-index bookkeeping of archetype.go, translated statement by statement on every run -/

/-- `archetype.AddTable` as in the source = the model's `Archetype.addTable`, for every archetype and every table with the archetype's layout -/
theorem src_addTable : type_of% @Ark.GenBridge.Book.addTable_eq := @Ark.GenBridge.Book.addTable_eq
/-- `archetype.RemoveTarget` as in the source = the model's -/
theorem src_removeTarget : type_of% @Ark.GenBridge.Book.removeTarget_eq := @Ark.GenBridge.Book.removeTarget_eq
/-- `archetype.GetFreeTable` as in the source = the model's (pop the last free table) -/
theorem src_getFreeTable : type_of% @Ark.GenBridge.Book.getFreeTable_eq := @Ark.GenBridge.Book.getFreeTable_eq
/-- `archetype.HasRelations` as in the source = the model's -/
theorem src_hasRelations : type_of% @Ark.GenBridge.Book.hasRelations_eq := @Ark.GenBridge.Book.hasRelations_eq
/-- `archetype.FreeTable` as in the source = the model's `Archetype.freeTable` (+ the table's free flag) -/
theorem src_freeTable : type_of% @Ark.GenBridge.Book.freeTable_eq := @Ark.GenBridge.Book.freeTable_eq
/-- `archetype.removeTableRelations` as in the source = the model's -/
theorem src_removeTableRelations : type_of% @Ark.GenBridge.Book.removeTableRelations_eq := @Ark.GenBridge.Book.removeTableRelations_eq

end Ark.Props.C04
