import Ark.Proofs.ArchIndex
import Ark.Proofs.Rejects

namespace Ark.Props.C04
open Ark

/-! C04 — relation indices stay consistent under table creation, freeing, recycling and target
    removal (per-archetype index invariant `IndexInv`). -/

/-- a new archetype satisfies the index invariant -/
theorem index_new : type_of% @Archetype.indexInv_new := @Archetype.indexInv_new

/-- registering a new table keeps all per-target lookups exact -/
theorem index_addTable : type_of% @Archetype.IndexInv.addTable := @Archetype.IndexInv.addTable

/-- recycling a free table for other targets keeps the lookups exact: it is reachable only under its new targets -/
theorem index_recycle : type_of% @Archetype.IndexInv.recycle := @Archetype.IndexInv.recycle

/-- freeing an empty table whose targets are alive (Shrink) keeps the lookups exact -/
theorem index_shrink_free : type_of% @Archetype.IndexInv.freeTable_removeTableRelations := @Archetype.IndexInv.freeTable_removeTableRelations

/-- freeing the tables of a removed target, one by one, keeps the lookups exact for all other targets -/
theorem index_cleanup_free : type_of% @Archetype.IndexInvExcept.freeTable := @Archetype.IndexInvExcept.freeTable

/-- after all tables of a removed target are freed, dropping its key restores the full invariant -/
theorem index_cleanup_done : type_of% @Archetype.IndexInvExcept.removeTarget := @Archetype.IndexInvExcept.removeTarget

/-- dropping the key of an entity that no table targets changes nothing else -/
theorem index_removeTarget : type_of% @Archetype.IndexInv.removeTarget := @Archetype.IndexInv.removeTarget

/-- the defect repaired in Shrink (D1): freeing alone leaves a stale entry -/
theorem free_alone_breaks : type_of% @Archetype.freeTable_alone_breaks := @Archetype.freeTable_alone_breaks

end Ark.Props.C04
