import Ark.Proofs.ArchIndex
import Ark.Proofs.Rejects
import Ark.Proofs.GenBridge.BookArchetype
import Ark.Props.C04World
import Ark.Props.C04Hist
import Ark.Props.C06Rel
import Ark.Props.C01Xchg

namespace Ark.Props.C04
open Ark

/-! C04 — relation indices stay consistent under table creation, freeing, recycling and target
    removal (per-archetype index invariant `IndexInv`). -/

/-- a new archetype satisfies the index invariant -/
theorem index_new : type_of% @Archetype.indexInv_new := @Archetype.indexInv_new

/-- registering a new table keeps all per-target lookups exact -/
theorem index_addTable : type_of% @Archetype.IndexInv.addTable := @Archetype.IndexInv.addTable

/-- recycling a free table for other targets keeps the lookups exact: it is reachable only under its new targets -/
theorem index_recycle : type_of% @Archetype.IndexInv.recycle := @Archetype.IndexInv.recycle

/-- freeing an empty table whose targets are alive (Shrink) keeps the lookups exact -/
theorem index_shrink_free : type_of% @Archetype.IndexInv.freeTable_removeTableRelations := @Archetype.IndexInv.freeTable_removeTableRelations

/-- freeing the tables of a removed target, one by one, keeps the lookups exact for all other targets -/
theorem index_cleanup_free : type_of% @Archetype.IndexInvExcept.freeTable := @Archetype.IndexInvExcept.freeTable

/-- after all tables of a removed target are freed, dropping its key restores the full invariant -/
theorem index_cleanup_done : type_of% @Archetype.IndexInvExcept.removeTarget := @Archetype.IndexInvExcept.removeTarget

/-- dropping the key of an entity that no table targets changes nothing else -/
theorem index_removeTarget : type_of% @Archetype.IndexInv.removeTarget := @Archetype.IndexInv.removeTarget

/-- the defect repaired in Shrink (D1): freeing alone leaves a stale entry -/
theorem free_alone_breaks : type_of% @Archetype.freeTable_alone_breaks := @Archetype.freeTable_alone_breaks


/-! ### The code itself: `tableIDs` of archetype.go, translated statement by statement on every run -/

/-- `newTableIDs` as in the source = the model's `TableIDs.ofList` -/
theorem src_newTableIDs : type_of% @Ark.GenBridge.Book.newTableIDs_eq := @Ark.GenBridge.Book.newTableIDs_eq
/-- `tableIDs.Append` as in the source = the model's -/
theorem src_tableIDs_append : type_of% @Ark.GenBridge.Book.append_eq := @Ark.GenBridge.Book.append_eq
/-- `tableIDs.Remove` (swap-remove through the index map) as in the source = the model's, for every state -/
theorem src_tableIDs_remove : type_of% @Ark.GenBridge.Book.remove_eq := @Ark.GenBridge.Book.remove_eq
/-- `tableIDs.Clear` as in the source = the model's -/
theorem src_tableIDs_clear : type_of% @Ark.GenBridge.Book.clear_eq := @Ark.GenBridge.Book.clear_eq

/-! ### The code itself: the relation-index bookkeeping of archetype.go, translated statement by statement on every run -/

/-- `archetype.AddTable` as in the source = the model's `Archetype.addTable`, for every archetype and every table with the archetype's layout -/
theorem src_addTable : type_of% @Ark.GenBridge.Book.addTable_eq := @Ark.GenBridge.Book.addTable_eq
/-- `archetype.RemoveTarget` as in the source = the model's -/
theorem src_removeTarget : type_of% @Ark.GenBridge.Book.removeTarget_eq := @Ark.GenBridge.Book.removeTarget_eq
/-- `archetype.GetFreeTable` as in the source = the model's (pop the last free table) -/
theorem src_getFreeTable : type_of% @Ark.GenBridge.Book.getFreeTable_eq := @Ark.GenBridge.Book.getFreeTable_eq
/-- `archetype.HasRelations` as in the source = the model's -/
theorem src_hasRelations : type_of% @Ark.GenBridge.Book.hasRelations_eq := @Ark.GenBridge.Book.hasRelations_eq
/-- `archetype.FreeTable` as in the source = the model's `Archetype.freeTable` (+ the table's free flag) -/
theorem src_freeTable : type_of% @Ark.GenBridge.Book.freeTable_eq := @Ark.GenBridge.Book.freeTable_eq
/-- `archetype.removeTableRelations` as in the source = the model's -/
theorem src_removeTableRelations : type_of% @Ark.GenBridge.Book.removeTableRelations_eq := @Ark.GenBridge.Book.removeTableRelations_eq


/-! ### World level (Props/C04World): targets are zero or alive; removing a target detaches, never corrupts -/

/-- the world-level invariant `TInv` (structure ∧ relation index ∧ targets zero-or-alive ∧ relation lists exact ∧ target flags ∧ free tables empty ∧ index/pool link) holds of the initial world -/
theorem world_init_invariant : type_of% @Ark.Props.C04World.init_invariant := @Ark.Props.C04World.init_invariant

/-- **C04**: under the invariant, every relation target read through the entity index is the zero entity or alive -/
theorem world_target_zero_or_alive : type_of% @Ark.Props.C04World.target_zero_or_alive := @Ark.Props.C04World.target_zero_or_alive

/-- an accepted `NewEntity(ids, rels)` (any path): invariant kept, the new entity's targets are the ones given, nobody else changes -/
theorem world_newEntity_assigns_targets : type_of% @Ark.Props.C04World.newEntity_assigns_targets := @Ark.Props.C04World.newEntity_assigns_targets

/-- a dead target is rejected with the world unchanged (every path, since the repair of the `Unsafe` API) -/
theorem world_newEntity_dead_target_rejected : type_of% @Ark.Props.C04World.newEntity_dead_target_rejected := @Ark.Props.C04World.newEntity_dead_target_rejected

/-- a dead target is never accepted (all paths) -/
theorem world_newEntity_dead_target_not_accepted : type_of% @Ark.Props.C04World.newEntity_dead_target_not_accepted := @Ark.Props.C04World.newEntity_dead_target_not_accepted

/-- `Add` with relations: targets assigned, old targets/components/values kept, nobody else changes -/
theorem world_add_assigns_targets : type_of% @Ark.Props.C04World.add_assigns_targets := @Ark.Props.C04World.add_assigns_targets

/-- `Add` with a dead target is rejected with the world unchanged (every path) -/
theorem world_add_dead_target_rejected : type_of% @Ark.Props.C04World.add_dead_target_rejected := @Ark.Props.C04World.add_dead_target_rejected

/-- `SetRelations`: named targets assigned, unnamed targets, components and values kept, nobody else changes -/
theorem world_setRelations_assigns_targets : type_of% @Ark.Props.C04World.setRelations_assigns_targets := @Ark.Props.C04World.setRelations_assigns_targets

/-- the same through any access path -/
theorem world_opSetRelations_assigns_targets : type_of% @Ark.Props.C04World.opSetRelations_assigns_targets := @Ark.Props.C04World.opSetRelations_assigns_targets

/-- a `SetRelations` whose targets are zero or alive never fails -/
theorem world_setRelations_never_fails : type_of% @Ark.Props.C04World.setRelations_never_fails := @Ark.Props.C04World.setRelations_never_fails

/-- `SetRelations` with a dead target is rejected with the world unchanged (every path, since the repair of the `Unsafe` API) -/
theorem world_setRelations_dead_target_rejected : type_of% @Ark.Props.C04World.setRelations_dead_target_rejected := @Ark.Props.C04World.setRelations_dead_target_rejected

/-- … and never accepted on any path -/
theorem world_setRelations_dead_target_not_accepted : type_of% @Ark.Props.C04World.setRelations_dead_target_not_accepted := @Ark.Props.C04World.setRelations_dead_target_not_accepted

/-- **C04**: `RemoveEntity(g)` never fails; afterwards `g` is dead, every other entity keeps its components and values, and its targets are unchanged except that a target `g` reads zero -/
theorem world_removeEntity_zeroes_target : type_of% @Ark.Props.C04World.removeEntity_zeroes_target := @Ark.Props.C04World.removeEntity_zeroes_target

/-- full post-condition of `RemoveEntity` on a world with relations (invariant re-established with the ID pushed on the free list) -/
theorem world_removeEntity_post : type_of% @Ark.Props.C04World.removeEntity_post := @Ark.Props.C04World.removeEntity_post

/-- `cleanupArchetypes` never panics, restores the full relation-index invariant, and leaves no active table targeting the removed entity -/
theorem world_cleanup_total : type_of% @Ark.Props.C04World.cleanup_total := @Ark.Props.C04World.cleanup_total

/-- one table of one archetype in the cleanup -/
theorem world_cleanup_step : type_of% @Ark.Props.C04World.cleanup_step := @Ark.Props.C04World.cleanup_step

/-- table creation (fresh and recycled) while one target is pending removal -/
theorem world_cleanup_createTable : type_of% @Ark.Props.C04World.cleanup_createTable := @Ark.Props.C04World.cleanup_createTable

/-- `Good` (invariant for some free list, unlocked, no observers) holds initially -/
theorem world_good_initial : type_of% @Ark.Props.C04World.good_initial := @Ark.Props.C04World.good_initial

/-- … and is preserved by component registration -/
theorem world_good_register : type_of% @Ark.Props.C04World.good_register := @Ark.Props.C04World.good_register

/-- … by `NewEntity` with relations -/
theorem world_good_newEntity : type_of% @Ark.Props.C04World.good_newEntity := @Ark.Props.C04World.good_newEntity

/-- … by `RemoveEntity` -/
theorem world_good_removeEntity : type_of% @Ark.Props.C04World.good_removeEntity := @Ark.Props.C04World.good_removeEntity

/-- … by `SetRelations` -/
theorem world_good_setRelations : type_of% @Ark.Props.C04World.good_setRelations := @Ark.Props.C04World.good_setRelations

/-- … by `Add` with relations -/
theorem world_good_add : type_of% @Ark.Props.C04World.good_add := @Ark.Props.C04World.good_add


/-! ### Over histories: the refinement machine WITH relation components (Props/C04Hist) -/

/-- the world invariant `TInv` holds after every history (fewer than 2^16 operations) of register / new / add / remove / set-relations / set / remove-entity WITH relation components, through any access path -/
theorem rel_reach_tinv : type_of% @Ark.Props.C04Hist.reach_tinv := @Ark.Props.C04Hist.reach_tinv

/-- **refinement with relations**: every specification entry is realised — the entity is alive, its component set, every value AND every relation target are the specified ones -/
theorem rel_refines : type_of% @Ark.Props.C04Hist.refines := @Ark.Props.C04Hist.refines

/-- a component that is not specified is absent -/
theorem rel_refines_absent : type_of% @Ark.Props.C04Hist.refines_absent := @Ark.Props.C04Hist.refines_absent

/-- a handle returned by some creation is alive iff the specification has an entry for it -/
theorem rel_alive_iff_specified : type_of% @Ark.Props.C04Hist.alive_iff_specified := @Ark.Props.C04Hist.alive_iff_specified

/-- **C04**: every specified relation target is the zero entity or itself has an entry (is alive) -/
theorem rel_targets_zero_or_alive : type_of% @Ark.Props.C04Hist.targets_zero_or_alive := @Ark.Props.C04Hist.targets_zero_or_alive

/-- … read off the model world -/
theorem rel_targets_zero_or_alive_world : type_of% @Ark.Props.C04Hist.targets_zero_or_alive_world := @Ark.Props.C04Hist.targets_zero_or_alive_world

/-- a call whose specification-level precondition fails (dead handle, component present/absent, dead target, …) panics with the world and the machine state unchanged -/
theorem rel_rejected : type_of% @Ark.Props.C04Hist.rejected := @Ark.Props.C04Hist.rejected

/-- every other expressible call succeeds — totality of all seven operations on every access path -/
theorem rel_accepted : type_of% @Ark.Props.C04Hist.accepted := @Ark.Props.C04Hist.accepted

/-- a dead target is never accepted by `NewEntity` (any path) -/
theorem rel_dead_target_not_accepted_new : type_of% @Ark.Props.C04Hist.dead_target_not_accepted_new := @Ark.Props.C04Hist.dead_target_not_accepted_new

/-- … by `Add` -/
theorem rel_dead_target_not_accepted_add : type_of% @Ark.Props.C04Hist.dead_target_not_accepted_add := @Ark.Props.C04Hist.dead_target_not_accepted_add

/-- … by `SetRelations` -/
theorem rel_dead_target_not_accepted_setrel : type_of% @Ark.Props.C04Hist.dead_target_not_accepted_setrel := @Ark.Props.C04Hist.dead_target_not_accepted_setrel

/-- after `NewEntity(ids, vals, rels)` the targets are the ones given -/
theorem rel_new_assigns : type_of% @Ark.Props.C04Hist.new_assigns := @Ark.Props.C04Hist.new_assigns

/-- after `Add` with relations likewise; old targets, components and values are kept -/
theorem rel_add_assigns : type_of% @Ark.Props.C04Hist.add_assigns := @Ark.Props.C04Hist.add_assigns

/-- after `SetRelations` the named targets are the ones given, the others unchanged -/
theorem rel_setrel_assigns : type_of% @Ark.Props.C04Hist.setrel_assigns := @Ark.Props.C04Hist.setrel_assigns

/-- a target stays the one last assigned while operations on other entities happen … -/
theorem rel_target_stays : type_of% @Ark.Props.C04Hist.target_stays := @Ark.Props.C04Hist.target_stays

/-- … until that target is removed: then it reads zero, and the entity keeps all its components and values -/
theorem rel_del_detaches : type_of% @Ark.Props.C04Hist.del_detaches := @Ark.Props.C04Hist.del_detaches

/-- `Remove(e, ids)` with relations among `ids`: those components and their targets are gone, the rest is kept -/
theorem rel_rem_effect : type_of% @Ark.Props.C04Hist.rem_effect := @Ark.Props.C04Hist.rem_effect

/-- an operation on one entity changes no other entity's components, values or targets -/
theorem rel_frame_world : type_of% @Ark.Props.C04Hist.frame_world := @Ark.Props.C04Hist.frame_world

/-- `RemoveEntity(e)` changes, of the other entities, exactly the targets that were `e` -/
theorem rel_frame_del : type_of% @Ark.Props.C04Hist.frame_del := @Ark.Props.C04Hist.frame_del

/-- the state reached does not depend on the access path of each operation -/
theorem rel_any_access_path : type_of% @Ark.Props.C04Hist.any_access_path := @Ark.Props.C04Hist.any_access_path


/-! ### Several targets removed in one batch (Props/C06Rel) -/

/-- **removing targets in a batch never fails and never corrupts**: `RemoveEntities` over any selection, also when several relation targets — of the same table, of each other, together with their children — are among the removed: the world invariant is kept, every other entity keeps its components and values, and its targets are unchanged except that a removed target reads as the zero entity (the D2 case, for all worlds) -/
theorem batch_removeEntities_rel_spec : type_of% @Ark.Props.C06Rel.removeEntities_rel_spec := @Ark.Props.C06Rel.removeEntities_rel_spec

/-- one iteration of the clean-up while several dead targets are pending: the rows move to the table with EVERY dead target replaced by the zero entity -/
theorem batch_cleanTable_step_pending : type_of% @Ark.Props.C06Rel.cleanTable_step_pending := @Ark.Props.C06Rel.cleanTable_step_pending

/-- cleanupArchetypes for one of several pending dead targets never panics and restores the full relation index -/
theorem batch_cleanupArchetypes_pending : type_of% @Ark.Props.C06Rel.cleanupArchetypes_pending := @Ark.Props.C06Rel.cleanupArchetypes_pending

/-- the clean-up loop over all pending targets never panics and leaves nothing pending -/
theorem batch_cleanup_loop_spec : type_of% @Ark.Props.C06Rel.cleanup_loop_spec := @Ark.Props.C06Rel.cleanup_loop_spec

/-- removing the same entities one by one, in any order, gives the same targets for every entity -/
theorem batch_removeEntities_rel_any_order : type_of% @Ark.Props.C06Rel.removeEntities_rel_any_order := @Ark.Props.C06Rel.removeEntities_rel_any_order

/-- … at every state a history reaches -/
theorem batch_removeEntities_after_every_history : type_of% @Ark.Props.C06Rel.removeEntities_after_every_history := @Ark.Props.C06Rel.removeEntities_after_every_history



/-! ### Exchange keeps the targets consistent (Props/C01Xchg) -/

/-- Exchange in a world with relations keeps the world invariant (targets zero or alive, relation index exact); kept relation components keep their targets, added ones get exactly the targets given -/
theorem xchg_exchange_core : type_of% @Ark.Props.C01Xchg.exchange_core := @Ark.Props.C01Xchg.exchange_core


end Ark.Props.C04
