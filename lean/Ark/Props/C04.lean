import Ark.Proofs.ArchIndex
import Ark.Proofs.Rejects
import Ark.Proofs.GenBridge.BookArchetype
import Ark.Props.C04World

namespace Ark.Props.C04
open Ark

/-! C04 — relation indices stay consistent under table creation, freeing, recycling and target
    removal (per-archetype index invariant `IndexInv`). -/

/-- a new archetype satisfies the index invariant -/
theorem index_new : type_of% @Archetype.indexInv_new := @Archetype.indexInv_new

/-- registering a new table keeps all per-target lookups exact -/
theorem index_addTable : type_of% @Archetype.IndexInv.addTable := @Archetype.IndexInv.addTable

/-- recycling a free table for other targets keeps the lookups exact: it is reachable only under its new targets -/
theorem index_recycle : type_of% @Archetype.IndexInv.recycle := @Archetype.IndexInv.recycle

/-- freeing an empty table whose targets are alive (Shrink) keeps the lookups exact -/
theorem index_shrink_free : type_of% @Archetype.IndexInv.freeTable_removeTableRelations := @Archetype.IndexInv.freeTable_removeTableRelations

/-- freeing the tables of a removed target, one by one, keeps the lookups exact for all other targets -/
theorem index_cleanup_free : type_of% @Archetype.IndexInvExcept.freeTable := @Archetype.IndexInvExcept.freeTable

/-- after all tables of a removed target are freed, dropping its key restores the full invariant -/
theorem index_cleanup_done : type_of% @Archetype.IndexInvExcept.removeTarget := @Archetype.IndexInvExcept.removeTarget

/-- dropping the key of an entity that no table targets changes nothing else -/
theorem index_removeTarget : type_of% @Archetype.IndexInv.removeTarget := @Archetype.IndexInv.removeTarget

/-- the defect repaired in Shrink (D1): freeing alone leaves a stale entry -/
theorem free_alone_breaks : type_of% @Archetype.freeTable_alone_breaks := @Archetype.freeTable_alone_breaks


/-! ### The code itself: `tableIDs` of archetype.go, translated statement by statement on every run -/

/-- `newTableIDs` as in the source = the model's `TableIDs.ofList` -/
theorem src_newTableIDs : type_of% @Ark.GenBridge.Book.newTableIDs_eq := @Ark.GenBridge.Book.newTableIDs_eq
/-- `tableIDs.Append` as in the source = the model's -/
theorem src_tableIDs_append : type_of% @Ark.GenBridge.Book.append_eq := @Ark.GenBridge.Book.append_eq
/-- `tableIDs.Remove` (swap-remove through the index map) as in the source = the model's, for every state -/
theorem src_tableIDs_remove : type_of% @Ark.GenBridge.Book.remove_eq := @Ark.GenBridge.Book.remove_eq
/-- `tableIDs.Clear` as in the source = the model's -/
theorem src_tableIDs_clear : type_of% @Ark.GenBridge.Book.clear_eq := @Ark.GenBridge.Book.clear_eq

/-! ### The code itself: the relation-index bookkeeping of archetype.go, translated statement by statement on every run -/

/-- `archetype.AddTable` as in the source = the model's `Archetype.addTable`, for every archetype and every table with the archetype's layout -/
theorem src_addTable : type_of% @Ark.GenBridge.Book.addTable_eq := @Ark.GenBridge.Book.addTable_eq
/-- `archetype.RemoveTarget` as in the source = the model's -/
theorem src_removeTarget : type_of% @Ark.GenBridge.Book.removeTarget_eq := @Ark.GenBridge.Book.removeTarget_eq
/-- `archetype.GetFreeTable` as in the source = the model's (pop the last free table) -/
theorem src_getFreeTable : type_of% @Ark.GenBridge.Book.getFreeTable_eq := @Ark.GenBridge.Book.getFreeTable_eq
/-- `archetype.HasRelations` as in the source = the model's -/
theorem src_hasRelations : type_of% @Ark.GenBridge.Book.hasRelations_eq := @Ark.GenBridge.Book.hasRelations_eq
/-- `archetype.FreeTable` as in the source = the model's `Archetype.freeTable` (+ the table's free flag) -/
theorem src_freeTable : type_of% @Ark.GenBridge.Book.freeTable_eq := @Ark.GenBridge.Book.freeTable_eq
/-- `archetype.removeTableRelations` as in the source = the model's -/
theorem src_removeTableRelations : type_of% @Ark.GenBridge.Book.removeTableRelations_eq := @Ark.GenBridge.Book.removeTableRelations_eq


/-! ### World level (Props/C04World): targets are zero or alive; removing a target detaches, never corrupts -/

/-- the world-level invariant `TInv` (structure ∧ relation index ∧ targets zero-or-alive ∧ relation lists exact ∧ target flags ∧ free tables empty ∧ index/pool link) holds of the initial world -/
theorem world_init_invariant : type_of% @Ark.Props.C04World.init_invariant := @Ark.Props.C04World.init_invariant

/-- **C04**: under the invariant, every relation target read through the entity index is the zero entity or alive -/
theorem world_target_zero_or_alive : type_of% @Ark.Props.C04World.target_zero_or_alive := @Ark.Props.C04World.target_zero_or_alive

/-- an accepted `NewEntity(ids, rels)` (any path): invariant kept, the new entity's targets are the ones given, nobody else changes -/
theorem world_newEntity_assigns_targets : type_of% @Ark.Props.C04World.newEntity_assigns_targets := @Ark.Props.C04World.newEntity_assigns_targets

/-- a dead target is rejected with the world unchanged (typed paths) -/
theorem world_newEntity_dead_target_rejected : type_of% @Ark.Props.C04World.newEntity_dead_target_rejected := @Ark.Props.C04World.newEntity_dead_target_rejected

/-- a dead target is never accepted (all paths) -/
theorem world_newEntity_dead_target_not_accepted : type_of% @Ark.Props.C04World.newEntity_dead_target_not_accepted := @Ark.Props.C04World.newEntity_dead_target_not_accepted

/-- `Add` with relations: targets assigned, old targets/components/values kept, nobody else changes -/
theorem world_add_assigns_targets : type_of% @Ark.Props.C04World.add_assigns_targets := @Ark.Props.C04World.add_assigns_targets

/-- `Add` with a dead target is rejected -/
theorem world_add_dead_target_rejected : type_of% @Ark.Props.C04World.add_dead_target_rejected := @Ark.Props.C04World.add_dead_target_rejected

/-- `SetRelations`: named targets assigned, unnamed targets, components and values kept, nobody else changes -/
theorem world_setRelations_assigns_targets : type_of% @Ark.Props.C04World.setRelations_assigns_targets := @Ark.Props.C04World.setRelations_assigns_targets

/-- the same through any access path -/
theorem world_opSetRelations_assigns_targets : type_of% @Ark.Props.C04World.opSetRelations_assigns_targets := @Ark.Props.C04World.opSetRelations_assigns_targets

/-- a `SetRelations` whose targets are zero or alive never fails -/
theorem world_setRelations_never_fails : type_of% @Ark.Props.C04World.setRelations_never_fails := @Ark.Props.C04World.setRelations_never_fails

/-- `SetRelations` with a dead target is rejected with the world unchanged (typed paths) -/
theorem world_setRelations_dead_target_rejected : type_of% @Ark.Props.C04World.setRelations_dead_target_rejected := @Ark.Props.C04World.setRelations_dead_target_rejected

/-- … and never accepted on any path -/
theorem world_setRelations_dead_target_not_accepted : type_of% @Ark.Props.C04World.setRelations_dead_target_not_accepted := @Ark.Props.C04World.setRelations_dead_target_not_accepted

/-- **C04**: `RemoveEntity(g)` never fails; afterwards `g` is dead, every other entity keeps its components and values, and its targets are unchanged except that a target `g` reads zero -/
theorem world_removeEntity_zeroes_target : type_of% @Ark.Props.C04World.removeEntity_zeroes_target := @Ark.Props.C04World.removeEntity_zeroes_target

/-- full post-condition of `RemoveEntity` on a world with relations (invariant re-established with the ID pushed on the free list) -/
theorem world_removeEntity_post : type_of% @Ark.Props.C04World.removeEntity_post := @Ark.Props.C04World.removeEntity_post

/-- `cleanupArchetypes` never panics, restores the full relation-index invariant, and leaves no active table targeting the removed entity -/
theorem world_cleanup_total : type_of% @Ark.Props.C04World.cleanup_total := @Ark.Props.C04World.cleanup_total

/-- one table of one archetype in the cleanup -/
theorem world_cleanup_step : type_of% @Ark.Props.C04World.cleanup_step := @Ark.Props.C04World.cleanup_step

/-- table creation (fresh and recycled) while one target is pending removal -/
theorem world_cleanup_createTable : type_of% @Ark.Props.C04World.cleanup_createTable := @Ark.Props.C04World.cleanup_createTable

/-- `Good` (invariant for some free list, unlocked, no observers) holds initially -/
theorem world_good_initial : type_of% @Ark.Props.C04World.good_initial := @Ark.Props.C04World.good_initial

/-- … and is preserved by component registration -/
theorem world_good_register : type_of% @Ark.Props.C04World.good_register := @Ark.Props.C04World.good_register

/-- … by `NewEntity` with relations -/
theorem world_good_newEntity : type_of% @Ark.Props.C04World.good_newEntity := @Ark.Props.C04World.good_newEntity

/-- … by `RemoveEntity` -/
theorem world_good_removeEntity : type_of% @Ark.Props.C04World.good_removeEntity := @Ark.Props.C04World.good_removeEntity

/-- … by `SetRelations` -/
theorem world_good_setRelations : type_of% @Ark.Props.C04World.good_setRelations := @Ark.Props.C04World.good_setRelations

/-- … by `Add` with relations -/
theorem world_good_add : type_of% @Ark.Props.C04World.good_add := @Ark.Props.C04World.good_add

end Ark.Props.C04
