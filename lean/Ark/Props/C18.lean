import Ark.Generated.ToTypes
import Ark.Proofs.MaskLemmas
import Ark.Proofs.Rejects
import Ark.Props.C20Words

namespace Ark.Props.C18
open Ark

/-! C18 — type registries are stable and the documented capacity is usable. -/
open Ark.Generated

/-- the IDs enumerated by the two nested loops of `bitMask256.toTypes` when `n` component types are
    registered (index arithmetic regenerated from the source) -/
def toTypesIDs (n : Nat) : List Nat :=
  (List.range (toTypes_bins n)).flatMap fun i => (List.range (toTypes_cnt n i)).map (toTypes_id i)

/-- For EVERY registered count 0 ≤ n ≤ 256: the word index stays inside the 4-word mask and the
    loops enumerate exactly the IDs 0 … n-1 in ascending order (each fits `uint8`). -/
theorem toTypes_total :
    (List.range 257).all (fun n => toTypes_bins n ≤ 4 && toTypesIDs n == List.range n) = true := by
  decide +kernel

/-- Hence the component list of an archetype is the ascending list of the set bits: what the
    model uses (`Mask.toList`). -/
theorem toTypes_eq_toList (n : Nat) (hn : n ≤ 256) (m : Mask) :
    (toTypesIDs n).filter m.get = m.toList n := by
  have h := toTypes_total
  rw [List.all_eq_true] at h
  have := h n (List.mem_range.mpr (by omega))
  simp only [Bool.and_eq_true, beq_iff_eq] at this
  rw [this.2]
  rfl

/-- registration hands out the next free ID, and nothing else changes -/
theorem register_sequential (w : World) (k : CompKind) (hl : w.isLocked = false) (hn : w.kinds.length < w.maxComps) :
    ∃ w', World.registerComponent k w = .ok w.kinds.length w' ∧ w'.kinds = w.kinds ++ [k] ∧
      w'.archetypes = w.archetypes ∧ w'.tables = w.tables ∧ w'.pool = w.pool := by
  unfold World.registerComponent
  have : ¬ w.kinds.length ≥ w.maxComps := by omega
  simp [this, hl]

/-- exceeding the maximum panics without consuming an ID -/
theorem register_full (w : World) (k : CompKind) (hn : w.maxComps ≤ w.kinds.length) :
    World.registerComponent k w = .panic .registryFull w := by
  unfold World.registerComponent
  simp [hn]

/-- registering a new type on a locked world panics and is rolled back -/
theorem register_locked : type_of% @World.registerComponent_locked := @World.registerComponent_locked

/-- a resource map: at most one value per resource ID, `find?` after `insert`/`erase` -/
theorem resources_map (m : AL Val) (r r2 : Nat) (v : Val) :
    AL.find? (AL.insert m r v) r = some v ∧ AL.find? (AL.erase m r) r = none ∧
    (r2 ≠ r → AL.find? (AL.insert m r v) r2 = AL.find? m r2 ∧ AL.find? (AL.erase m r) r2 = AL.find? m r2) :=
  ⟨AL.find?_insert_self m r v, AL.find?_erase_self m r,
   fun h => ⟨AL.find?_insert_ne m r r2 v h, AL.find?_erase_ne m r r2 h⟩⟩


/-! ## `toTypes` reads the mask through `Get`/`TotalBitsSet`: as the word-level Go code computes them -/

theorem words_mask256_get : type_of% @Ark.Props.C20Words.mask256_get := @Ark.Props.C20Words.mask256_get

theorem words_mask256_get_inRange : type_of% @Ark.Props.C20Words.mask256_get_inRange := @Ark.Props.C20Words.mask256_get_inRange

theorem words_mask256_totalBitsSet : type_of% @Ark.Props.C20Words.mask256_totalBitsSet := @Ark.Props.C20Words.mask256_totalBitsSet

theorem words_mask64_get : type_of% @Ark.Props.C20Words.mask64_get := @Ark.Props.C20Words.mask64_get

theorem words_mask64_totalBitsSet : type_of% @Ark.Props.C20Words.mask64_totalBitsSet := @Ark.Props.C20Words.mask64_totalBitsSet


end Ark.Props.C18
