/-
  Ark.Props.C10Src — the part of C10's theorems stated over definitions TRANSLATED from the Go source on
  every run (tools/extract/book.go, group BookLookup): the table lookup in which the rejections of a
  relation list (targets not fully specified, a non-relation component, a relation component named
  twice — repairs D18/D26) are decided.  Kept apart from Props/C10.lean so that a change of the translated
  code breaks exactly the properties that depend on it.  The check builds and audits both files.
-/
import Ark.Props.C04Src

namespace Ark.Props.C10Src
open Ark

/-- `table.MatchesExact` as in the source = the model's `Table.matchesExact`, including which panic is raised -/
theorem src_matchesExact : type_of% @Ark.Props.C04Src.src_matchesExact := @Ark.Props.C04Src.src_matchesExact
/-- `table.Matches` as in the source = the model's -/
theorem src_matches : type_of% @Ark.Props.C04Src.src_matches := @Ark.Props.C04Src.src_matches
/-- `archetype.getTableSlowPath` as in the source = the model's `getTable` on an archetype with relation columns and an
    active table: the count check, the rejection of a relation component named twice, the bucket lookup, the exact match -/
theorem src_getTableSlowPath : type_of% @Ark.Props.C04Src.src_getTableSlowPath := @Ark.Props.C04Src.src_getTableSlowPath
/-- `archetype.GetTable` as in the source = the model's `getTable`, from the invariants of the world -/
theorem src_getTable_of_inv : type_of% @Ark.Props.C04Src.src_getTable_of_inv := @Ark.Props.C04Src.src_getTable_of_inv

end Ark.Props.C10Src
