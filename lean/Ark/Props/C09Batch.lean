/-
  C08 + C09 at world level for the batch operations: which callbacks run, and that all removal
  callbacks run before any entity is changed and all creation callbacks after all are created.

  Setting as in Ark/Props/C08World.lean (`Setting run S rec w fl`), with a log-blind runner for the
  C09 part.  The batch operations lock the world around their callbacks (`LockCycle`).

  * `batch_idiom_loses_no_callback` — the loop `for i in rows: if !fire(row i, earlyOut) break;
    earlyOut = false` of the callers of events.go: `fire` notifies the same observers for every
    row (whether an observer fires depends on masks only, which all rows of a table share) and
    reports whether there were any; so stopping after a first row that notified nobody skips
    nothing, and otherwise every row is notified.
  * `newBatch_callbacks` — `NewBatch(count, ids…)`: exactly as the observer-free batch, plus the
    `cb` records `(l, e)` for every new entity `e` (row order) and every `OnCreateEntity` observer
    the documented rule selects for the mask of `ids`; every record is a function of ONE world
    `seen`: all `count` entities already created, the world locked.
  * `removeEntities_callbacks` — `RemoveEntities(batch)`: exactly as the observer-free batch, plus
    the `cb` records for every selected table, every row, every `OnRemoveEntity` observer selected
    for the table's mask; every record is a function of the ONE world `w.withLocks l1`: no entity
    removed yet, the world locked.

  * `exchangeBatch_callbacks` — the add / remove / exchange batches (`exchangeBatch`): exactly as
    the observer-free batch; first ALL removal callbacks (`OnRemoveComponents`, every pair of
    source and destination table, every row) — every record a function of the ONE locked world
    `seenB` in which no table has been moved —, then all tables are moved, then ALL addition
    callbacks (`OnAddComponents`) — every record a function of the ONE locked world `seenA` in
    which every table has been moved (repaired defects D8/D10 of the Go code).  Hypothesis: the
    lookup loop of the batch succeeds without removing a relation (`findLoop … = .ok (false, bts)
    w10`; Ark/Proofs/BatchExchangeSpec.lean establishes it in the fragment).  Since the repair of
    defect D27 the lookup loop runs BEFORE the lock is taken; it neither reads nor writes the lock
    (`frames_findLoop`), so the hypothesis is stated — as before — for the loop on the world with
    the lock `l1` already taken, and `seenB`, `seenA` (what the callbacks see) are locked worlds.

  Not covered: batches with a callback function (`withFn`), relation batches (`setRelationsBatch`).
-/
import Ark.Proofs.CallbacksBatchX
import Ark.Props.C09World

set_option autoImplicit false

namespace Ark.Props.C09Batch
open Ark Ark.World Ark.Spec Ark.QueryExact Ark.Props.C01World

variable {run : ProbeRunner} {S : Probe → Prop} {rec : World → Nat → Ent → Probe → List LogEv}
  {w : World} {fl : List Nat}

theorem batch_idiom_loses_no_callback (fire : Ent → Bool → W Bool) (fired : List Nat) (o : ObsMgr)
    (hfire : ∀ (e : Ent) (eo : Bool) (w : World), w.obs = o →
      fire e eo w = .ok (!fired.isEmpty) (w.addLog (notifyAll rec e fired w)))
    (ents : List Ent) (w : World) (hw : w.obs = o) :
    fireRows fire ents w = .ok () (w.addLog (rowsLog rec fired ents w)) :=
  fireRows_readOnly fire fired o hfire ents w hw

/-- the `cb` records of a batch notification: every entity in order, every fired observer in
    order -/
theorem batch_records (hn : NoCb rec) (fired : List Nat) (ents : List Ent) (w : World) :
    cbsOf (rowsLog rec fired ents w) = (ents.flatMap fun e => fired.map fun l => (l, e)).reverse :=
  cbsOf_rowsLog hn fired ents w

theorem newBatch_callbacks (st : Setting run S rec w fl) (hb : LogBlind rec) (run0 : ProbeRunner)
    (p : Path) (hl : w.isLocked = false) {ids : List Comp} (hnd : ids.Nodup)
    (hreg : ∀ (c : Comp), c ∈ ids → c < w.kinds.length) (vals : List (Comp × Val)) (count : Nat)
    {l1 l2 : Lock} {b : Nat} (hL : LockCycle w.locks l1 b l2) :
    ∃ (t : Nat) (w1 seen w' : World),
      opNewBatch run0 p count ids vals [] false w.noObs
        = .ok (t, (w1.tbl t).len) (createEntitiesW w1 t count) ∧
      opNewBatch run p count ids vals [] false w = .ok (t, (w1.tbl t).len) w' ∧
      FrameOf (createEntitiesW w1 t count) w w' ∧
      seen = (createEntitiesW w1 t count).reframe w.obs w.log l1 ∧ seen.isLocked = true ∧
      cbsOf w'.log =
        ((rowEnts seen t (w1.tbl t).len count).flatMap fun e =>
          (firing w.obs Ev.onCreateEntity (.entity (Mask.ofList ids))).map fun l => (l, e)).reverse
        ++ cbsOf w.log ∧
      w'.log =
        ((rowEnts seen t (w1.tbl t).len count).reverse.flatMap fun e =>
          (firing w.obs Ev.onCreateEntity (.entity (Mask.ofList ids))).reverse.flatMap
            fun l => notifyFlat rec l e seen) ++ w.log :=
  Ark.newBatch_callbacks st hb run0 p hl hnd hreg vals count hL

theorem removeEntities_callbacks (st : Setting run S rec w fl) (hb : LogBlind rec)
    (run0 : ProbeRunner) (hl : w.isLocked = false) (fo : FilterObj) (extra : List RelID)
    (hc : fo.cache = none) {l1 l2 : Lock} {b : Nat} (hL : LockCycle w.locks l1 b l2) :
    ∃ w' : World,
      opRemoveEntities run0 fo extra false w.noObs
        = .ok () (removeTablesW w.noObs (World.selTables w.noObs fo.filter)) ∧
      opRemoveEntities run fo extra false w = .ok () w' ∧
      FrameOf (removeTablesW w.noObs (World.selTables w.noObs fo.filter)) w w' ∧
      cbsOf w'.log =
        ((World.selTables w fo.filter).flatMap fun t =>
          ((List.range (w.tbl t).len).map (w.tbl t).getEntity).flatMap fun e =>
            (firing w.obs Ev.onRemoveEntity (.entity (w.arch (w.tbl t).arch).mask)).map
              fun l => (l, e)).reverse ++ cbsOf w.log ∧
      w'.log =
        ((World.selTables w fo.filter).reverse.flatMap fun t =>
          ((List.range (w.tbl t).len).map (w.tbl t).getEntity).reverse.flatMap fun e =>
            (firing w.obs Ev.onRemoveEntity (.entity (w.arch (w.tbl t).arch).mask)).reverse.flatMap
              fun l => notifyFlat rec l e (w.withLocks l1)) ++ w.log :=
  Ark.removeEntities_callbacks st hb run0 hl fo extra hc hL

theorem exchangeBatch_callbacks (st : Setting run S rec w fl) (hb : LogBlind rec)
    (run0 : ProbeRunner) (hl : w.isLocked = false) (fo : FilterObj) (extra : List RelID)
    (hc : fo.cache = none) {add rem : List Comp} (hne : (add.isEmpty && rem.isEmpty) = false)
    {l1 l2 : Lock} {b : Nat} (hL : LockCycle w.locks l1 b l2) {bts : List BatchTable} {w10 : World}
    (hfind : findLoop add rem (World.selTables w.noObs fo.filter) (false, [])
      (w.noObs.withLocks l1) = .ok (false, bts) w10) :
    ∃ seenB seenA w' : World,
      exchangeBatch run0 fo extra add rem [] none w.noObs
        = .ok () ((bts.foldl (moveStep none) w10).withLocks l2) ∧
      exchangeBatch run fo extra add rem [] none w = .ok () w' ∧
      FrameOf (bts.foldl (moveStep none) w10) w w' ∧
      seenB = w10.reframe w.obs w.log l1 ∧
      seenA = (bts.foldl (moveStep none) w10).reframe w.obs w.log l1 ∧
      cbsOf w'.log =
        (if add.isEmpty then [] else
          ((movedList bts w10).flatMap fun b => xAddCbs w.obs b seenA).reverse) ++
        ((if rem.isEmpty then [] else (bts.flatMap fun b => xRemCbs w.obs b seenB).reverse) ++
          cbsOf w.log) ∧
      w'.log =
        (if add.isEmpty then [] else
          ((movedList bts w10).reverse.flatMap fun b => xAddFlat rec w.obs b seenA)) ++
        ((if rem.isEmpty then [] else (bts.reverse.flatMap fun b => xRemFlat rec w.obs b seenB)) ++
          w.log) :=
  Ark.exchangeBatch_callbacks st hb run0 hl fo extra hc hne hL hfind

/-! ### non-vacuity: the demo world of C08World -/

section Demo
open Ark.Props.C08World Ark.Props.C09World

set_option synthInstance.maxSize 2048

/-- "has component 0" as an `UnsafeFilter` -/
def foZero : FilterObj := { filter := { mask := Mask.ofList [0] }, typed := false }

/-- `RemoveEntities` of everything with component 0 on the demo world: table `[0]` (`⟨2,0⟩`) is
    notified to `For(0)` and `For(0).Exclusive()`, table `[0,1]` (`⟨3,0⟩`) to `For(0)` only; all
    three callbacks see both entities alive and the world locked; afterwards both are dead.
    `NewBatch(2, [1])`: `OnCreateEntity` for both new entities, each seeing the world locked with
    BOTH already alive. -/
example :
    cbsAfter (opRemoveEntities World.probe foZero [] false wObs)
      = some [(4, e3), (6, e2), (4, e2)] ∧
    looksAfter (opRemoveEntities World.probe foZero [] false wObs)
      = some [(true, true, [(0, 20), (1, 21)]), (true, true, [(0, 10)]), (true, true, [(0, 10)])] ∧
    (match opRemoveEntities World.probe foZero [] false wObs with
     | .ok _ w' => (w'.alive e2, w'.alive e3, w'.isLocked) | .panic _ _ => (true, true, true))
      = (false, false, false) := by
  decide +kernel

example :
    cbsAfter (opNewBatch World.probe .typed 2 [1] [] [] false wObs)
      = some [(7, ⟨5, 0⟩), (7, ⟨4, 0⟩)] ∧
    looksAfter (opNewBatch World.probe .typed 2 [1] [] [] false wObs)
      = some [(true, true, [(1, 0)]), (true, true, [(1, 0)])] := by
  decide +kernel

/-- removing component 0 from everything that has it, as a batch: `OnRemoveComponents.For(0)` is
    notified for `⟨2,0⟩` and `⟨3,0⟩`; both callbacks run before anything is moved (both still see
    component 0 with its value) under the lock; afterwards the component is gone -/
example :
    cbsAfter (exchangeBatch World.probe foZero [] [] [0] [] none wObs) = some [(5, e3), (5, e2)] ∧
    looksAfter (exchangeBatch World.probe foZero [] [] [0] [] none wObs)
      = some [(true, true, [(0, 20), (1, 21)]), (true, true, [(0, 10)])] ∧
    (match exchangeBatch World.probe foZero [] [] [0] [] none wObs with
     | .ok _ w' => (valOf w' 2 0, valOf w' 3 0, valOf w' 3 1, w'.isLocked)
     | .panic _ _ => (none, none, none, true)) = (none, none, some 21, false) := by
  decide +kernel

/-- the hypotheses of `exchangeBatch_callbacks` are satisfiable: the lookup loop on the demo
    world -/
example : ∃ bts w10,
    findLoop [] [0] (World.selTables wObs.noObs foZero.filter) (false, [])
      (wObs.noObs.withLocks lockDuringQuery) = .ok (false, bts) w10 ∧ bts.length = 2 := by
  cases h : findLoop [] [0] (World.selTables wObs.noObs foZero.filter) (false, [])
      (wObs.noObs.withLocks lockDuringQuery) with
  | ok r w10 =>
    obtain ⟨rr, bts⟩ := r
    have h1 : (match findLoop [] [0] (World.selTables wObs.noObs foZero.filter) (false, [])
        (wObs.noObs.withLocks lockDuringQuery) with
      | .ok r _ => (r.1, r.2.length) | .panic _ _ => (true, 0)) = (false, 2) := by decide +kernel
    rw [h] at h1
    obtain ⟨rfl, hlen⟩ := Prod.mk.inj h1
    exact ⟨bts, w10, rfl, hlen⟩
  | panic k s =>
    have h1 : (match findLoop [] [0] (World.selTables wObs.noObs foZero.filter) (false, [])
        (wObs.noObs.withLocks lockDuringQuery) with
      | .ok _ _ => true | .panic _ _ => false) = true := by decide +kernel
    rw [h] at h1
    cases h1

/-- the theorem applied to the demo world -/
example : ∃ w' : World,
    opRemoveEntities World.probe foZero [] false wObs = .ok () w' ∧
    cbsOf w'.log = [(4, e3), (6, e2), (4, e2)] := by
  obtain ⟨st, hb, _, _, hl, hL, _, _⟩ := demo_setting
  obtain ⟨w', _, h2, _, h4, _⟩ := removeEntities_callbacks st hb quiet hl foZero [] rfl hL
  refine ⟨w', h2, ?_⟩
  rw [h4]
  decide +kernel

end Demo

end Ark.Props.C09Batch
