import Ark.Proofs.Table
import Ark.Proofs.GenBridge.Table
import Ark.Proofs.ArchIndex
import Ark.Proofs.Rejects
import Ark.Props.C15World
import Ark.Proofs.GenBridge.BookArchetype

namespace Ark.Props.C15
open Ark

/-! C15 — Shrink is invisible and convergent (table and index level). -/

/-- `table.Shrink` as translated from the source on every run has the result flag and the capacity of the model's `shrink`, for all tables -/
theorem shrink_decides_as_in_source : type_of% @GenBridge.tableShrink_eq := @GenBridge.tableShrink_eq

/-- `table.CanShrink` as translated from the source decides exactly as the model's -/
theorem canShrink_decides_as_in_source : type_of% @GenBridge.tableCanShrink_eq := @GenBridge.tableCanShrink_eq

/-- in the source, `CanShrink` is true exactly when `Shrink` would do something (the bounded `Shrink(0)` loop relies on it) -/
theorem canShrink_iff_shrinks_in_source : type_of% @GenBridge.tableCanShrink_iff_shrinks := @GenBridge.tableCanShrink_iff_shrinks

/-- shrinking a table changes no row in use (entities, values) -/
theorem shrink_rows_unchanged : type_of% @Table.shrink_preserves_rows := @Table.shrink_preserves_rows

/-- after shrinking, the capacity is the old one or max(capPow2 len, minimum) -/
theorem shrink_capacity : type_of% @Table.shrink_cap := @Table.shrink_cap

/-- the number of rows is unchanged -/
theorem shrink_len : type_of% @Table.shrink_len := @Table.shrink_len

/-- size ≤ capacity afterwards -/
theorem shrink_len_le_cap : type_of% @Table.shrink_len_le_cap := @Table.shrink_len_le_cap

/-- the table shape invariant (zero tail, column lengths) survives shrinking -/
theorem shrink_shape : type_of% @Table.shrink_shape := @Table.shrink_shape

/-- freeing an empty relation table during Shrink keeps the relation lookups exact, so later operations find the same tables -/
theorem shrink_free_keeps_index : type_of% @Archetype.IndexInv.freeTable_removeTableRelations := @Archetype.IndexInv.freeTable_removeTableRelations

/-- Shrink on a locked world panics without effect (repaired defect D11) -/
theorem shrink_locked : type_of% @World.opShrink_locked := @World.opShrink_locked

/-- after shrinking, a second shrink finds nothing to do for this table (convergence) -/
theorem shrink_idempotent (t : Table) (m : Nat) : ((t.shrink m).1.shrink m).2 = false := by
  have hc := Table.shrink_cap t m
  have hl := Table.shrink_len t m
  have hle : (t.shrink m).1.cap ≤ max (capPow2 (t.shrink m).1.len) m := by
    rw [hc, hl]
    split <;> omega
  generalize (t.shrink m).1 = t' at hle
  unfold Table.shrink
  simp [hle]

/-- … and so does the source: `Shrink` applied to the result of `Shrink` (as translated) reports no work -/
theorem shrink_idempotent_in_source (t : Table) (g : Ark.Generated.Book.G_table) (h : GenBridge.capsOf t g) (m : Nat) :
    (Ark.Generated.Book.table_Shrink (Ark.Generated.Book.table_Shrink g m).1 m).2 = false := by
  have h1 := GenBridge.tableShrink_eq t g h m
  have h2 := GenBridge.tableShrink_eq (t.shrink m).1 (Ark.Generated.Book.table_Shrink g m).1 h1.1 m
  rw [h2.2]
  exact shrink_idempotent t m


/-! ## world level (Props/C15World): Shrink is invisible, keeps the structure, is exact about remaining
    work, and converges -/

theorem world_shrink_is_pure : type_of% @Ark.Props.C15World.shrink_is_pure := @Ark.Props.C15World.shrink_is_pure

theorem world_shrink_invisible : type_of% @Ark.Props.C15World.shrink_invisible := @Ark.Props.C15World.shrink_invisible

theorem world_shrinkRel_frame : type_of% @Ark.Props.C15World.shrinkRel_frame := @Ark.Props.C15World.shrinkRel_frame

theorem world_shrinkRel_table : type_of% @Ark.Props.C15World.shrinkRel_table := @Ark.Props.C15World.shrinkRel_table

theorem world_shrinkRel_arch_cache : type_of% @Ark.Props.C15World.shrinkRel_arch_cache := @Ark.Props.C15World.shrinkRel_arch_cache

theorem world_shrinkRel_getRelation : type_of% @Ark.Props.C15World.shrinkRel_getRelation := @Ark.Props.C15World.shrinkRel_getRelation

theorem world_shrinkRel_alive : type_of% @Ark.Props.C15World.shrinkRel_alive := @Ark.Props.C15World.shrinkRel_alive

theorem world_shrink_keeps_structure : type_of% @Ark.Props.C15World.shrink_keeps_structure := @Ark.Props.C15World.shrink_keeps_structure

theorem world_shrink_caps : type_of% @Ark.Props.C15World.shrink_caps := @Ark.Props.C15World.shrink_caps

theorem world_shrink_unbounded_no_work : type_of% @Ark.Props.C15World.shrink_unbounded_no_work := @Ark.Props.C15World.shrink_unbounded_no_work

theorem world_shrink_result_exact : type_of% @Ark.Props.C15World.shrink_result_exact := @Ark.Props.C15World.shrink_result_exact

theorem world_shrink_bounded_one_step : type_of% @Ark.Props.C15World.shrink_bounded_one_step := @Ark.Props.C15World.shrink_bounded_one_step

theorem world_shrink_progress : type_of% @Ark.Props.C15World.shrink_progress := @Ark.Props.C15World.shrink_progress

theorem world_shrink_converges : type_of% @Ark.Props.C15World.shrink_converges := @Ark.Props.C15World.shrink_converges

theorem world_shrink_converges_fuel : type_of% @Ark.Props.C15World.shrink_converges_fuel := @Ark.Props.C15World.shrink_converges_fuel

theorem world_shrink_converges_structure : type_of% @Ark.Props.C15World.shrink_converges_structure := @Ark.Props.C15World.shrink_converges_structure



/-! ### The code itself: the relation-index bookkeeping of archetype.go, translated statement by statement on every run -/

/-- `archetype.FreeTable` as in the source = the model's `Archetype.freeTable` (+ the table's free flag) -/
theorem src_freeTable : type_of% @Ark.GenBridge.Book.freeTable_eq := @Ark.GenBridge.Book.freeTable_eq
/-- `archetype.removeTableRelations` as in the source = the model's -/
theorem src_removeTableRelations : type_of% @Ark.GenBridge.Book.removeTableRelations_eq := @Ark.GenBridge.Book.removeTableRelations_eq
/-- `archetype.GetFreeTable` as in the source = the model's -/
theorem src_getFreeTable : type_of% @Ark.GenBridge.Book.getFreeTable_eq := @Ark.GenBridge.Book.getFreeTable_eq

end Ark.Props.C15
