import Ark.Proofs.CacheInv

namespace Ark.Props.C05Cache
open Ark Ark.World

/-! C05 — registered (cached) filters are indistinguishable from unregistered ones.

    `Selected w f rels t` is the cache- and walk-independent meaning of "table `t` is selected by
    filter `f` with relations `rels`".  `getCacheTables` (the uncached walk) computes exactly
    that set; the cache invariant `CacheInv` (I11) says every entry's table list is that set
    too, and every cache operation preserves it.

    Hypotheses used throughout:
    * `TablesInv w` — storage facts: every archetype satisfies `Archetype.IndexInv` w.r.t. the
      tables' targets; active tables point back to their archetype, share its column layout
      and its `HasRelations()`; an archetype without relation columns has exactly one active
      table.
    * `RelsOK w f rels` — the walk does not hit a Go runtime panic: in every relation archetype
      the filter matches, each relation names a column and the first one names a relation
      column.  `relsOK_of_mask` derives it from what the typed filter API checks. -/

/-! ### the uncached walk -/

/-- the uncached walk succeeds, is duplicate-free, and lists exactly the selected tables -/
theorem getCacheTables_spec {w : World} (H : TablesInv w) {f : Filter} {rels : List RelID}
    (hok : RelsOK w f rels) :
    ∃ (ts : List Nat), w.getCacheTables f rels = some ts ∧ ts.Nodup ∧
      ∀ (t : Nat), t ∈ ts ↔ Selected w f rels t :=
  World.getCacheTables_spec H hok

/-- the API's relation checks (relation component, contained in the filter mask) give `RelsOK` -/
theorem relsOK_of_mask : type_of% @World.relsOK_of_mask := @World.relsOK_of_mask

/-! ### cached = uncached -/

/-- For a registered entry (found via `cacheEntry? id`) the cached table list and the uncached
    walk select the same set of tables. -/
theorem cached_eq_uncached {w : World} (h : CacheInv w) (H : TablesInv w) {id : Nat}
    {e : CacheEntry} (he : w.cacheEntry? id = some e) (hok : RelsOK w e.filter e.rels) :
    ∀ (t : Nat), t ∈ e.tables.tables ↔
      ∃ (ts : List Nat), w.getCacheTables e.filter e.rels = some ts ∧ t ∈ ts :=
  h.mem_cached_iff H he hok

/-- Both lists are duplicate-free (and the walk does not panic); the entry carries the ID it
    was looked up by. -/
theorem cached_eq_uncached_nodup {w : World} (h : CacheInv w) (H : TablesInv w) {id : Nat}
    {e : CacheEntry} (he : w.cacheEntry? id = some e) (hok : RelsOK w e.filter e.rels) :
    e.id = id ∧ e.tables.tables.Nodup ∧
    ∃ (ts : List Nat), w.getCacheTables e.filter e.rels = some ts ∧ ts.Nodup ∧
      ∀ (t : Nat), t ∈ e.tables.tables ↔ t ∈ ts :=
  h.cached_eq_uncached H he hok

/-! ### the invariant and its preservation -/

/-- `CacheInv` is the conjunction: unique keys ∧ exact position map ∧ every entry is a
    well-formed `tableIDs` listing exactly the selected tables -/
theorem cacheInv_iff : type_of% @World.cacheInv_iff := @World.cacheInv_iff

/-- (a) an empty cache satisfies the invariant -/
theorem inv_empty : type_of% @World.cacheInv_of_empty := @World.cacheInv_of_empty

/-- (a) in particular a new world -/
theorem inv_init : type_of% @World.cacheInv_init := @World.cacheInv_init

/-- (b) `register`: succeeds, returns the pool's ID, re-establishes the invariant; the new entry
    has the given filter/relations and exactly the selected tables; all other IDs resolve as
    before; storage untouched.  (Hypothesis: the pool's ID is not registered.) -/
theorem inv_register : type_of% @World.cacheRegister_inv := @World.cacheRegister_inv

/-- (c) `unregister` (swap-remove + index fix-up) preserves the invariant; the ID is gone, all
    other IDs resolve to the same entries -/
theorem inv_unregister : type_of% @World.cacheUnregister_inv := @World.cacheUnregister_inv

/-- (c) unregistering an unknown ID panics without changing anything -/
theorem unregister_unknown : type_of% @World.cacheUnregister_unknown :=
  @World.cacheUnregister_unknown

/-- (d) world-level: when table `t` becomes active (`TableAdded w w' a t`), `cache.addTable`
    re-establishes the invariant -/
theorem inv_addTable : type_of% @World.cacheAddTable_inv := @World.cacheAddTable_inv

/-- (d) `cache.addTable` does not panic when `Matches` is defined for the matching entries -/
theorem addTable_isSome : type_of% @World.cacheAddTable_isSome := @World.cacheAddTable_isSome

/-- (d) what `cache.addTable` computes: the entry slice mapped through `addTableEntry` -/
theorem addTable_eq : type_of% @World.cacheAddTable_eq := @World.cacheAddTable_eq

/-- (d) per-entry form: the entry gains exactly `T.id`, and only if filter and relations match -/
theorem addTable_entry : type_of% @World.addTableEntry_spec := @World.addTableEntry_spec

/-- (e) world-level: when table `t` stops being active (`TableRemoved w w' a t`),
    `cache.removeTable` re-establishes the invariant -/
theorem inv_removeTable : type_of% @World.cacheRemoveTable_inv := @World.cacheRemoveTable_inv

/-- (e) per-entry form: the entry loses exactly `t` -/
theorem removeTable_entry : type_of% @World.removeTableEntry_spec := @World.removeTableEntry_spec

/-- (d)/(e) selection of all other tables is unaffected by the change -/
theorem selected_other : type_of% @World.ActiveChange.selected_ne :=
  @World.ActiveChange.selected_ne

/-- (d) the new table is selected iff the filter matches its archetype and it matches the
    relations -/
theorem selected_new : type_of% @World.TableAdded.selected_new := @World.TableAdded.selected_new

/-- (f) `Reset` yields the empty cache -/
theorem reset_empty : type_of% @World.cacheReset_empty := @World.cacheReset_empty

/-- (f) and hence re-establishes the invariant -/
theorem inv_reset : type_of% @World.cacheReset_inv := @World.cacheReset_inv

/-! ### non-vacuity on a concrete world

    `World.init 2 2`; component 0 plain, component 1 a relation; targets `p1`, `p2`; a child of
    `p1`; two registered filters over `{0, 1}`: one without relations (ID 0), one with the fixed
    relation `(1, p2)` (ID 1).  Then: a child of `p2` (creates another matching table, goes
    through `cache.addTable`), removal of `p1` and of `p2` (`cleanupArchetypes`: frees the
    target's table through `cache.removeTable`, creates the zero-target table through
    `cache.addTable`).  After every step both entries agree, as sets, with the uncached walk. -/

open World.CacheDemo in
/-- the cached lists after each step, and the eight agreement checks -/
theorem demo_agree :
    result script (World.init 2 2) =
      some ([[[1], []], [[1, 2], [2]], [[3, 2], [2]], [[3], []]], List.replicate 8 true) := by
  decide +kernel

open World.CacheDemo in
example : (result script (World.init 2 2)).map (·.2) = some (List.replicate 8 true) := by
  decide +kernel

/-! The hypotheses of (d)/(e) are met by the model's own steps: `wA` → `wB0` is the storage part
    of `createTable` for the child of `p2` (table 2 becomes active in archetype 1, cache not yet
    told), `wB` → `wR` is the storage part of freeing table 1 in `cleanupArchetypes`. -/

/-- the storage part of `createTable` is a `TableAdded` step -/
theorem demo_tableAdded : type_of% @World.CacheDemo.demo_tableAdded :=
  @World.CacheDemo.demo_tableAdded

open World.CacheDemo in
/-- … and `cache.addTable` on it yields exactly the cache the model's `createTable` produced;
    before the call the first entry disagrees with the walk, afterwards both agree -/
theorem demo_addTable_runs :
    (wB0.cacheAddTable (wB0.tbl 2)).map (·.cache) = some wB.cache ∧ (wB0.tbl 2).id = 2 ∧
      agree wB0 0 = false ∧ agree wB 0 = true ∧ agree wB 1 = true := by
  decide +kernel

/-- the storage part of freeing a table is a `TableRemoved` step -/
theorem demo_tableRemoved : type_of% @World.CacheDemo.demo_tableRemoved :=
  @World.CacheDemo.demo_tableRemoved

open World.CacheDemo in
/-- … before `cache.removeTable` the first entry disagrees with the walk, afterwards both
    entries agree -/
theorem demo_removeTable_runs :
    agree wR 0 = false ∧ agree (wR.cacheRemoveTable 1) 0 = true ∧
      agree (wR.cacheRemoveTable 1) 1 = true := by
  decide +kernel

end Ark.Props.C05Cache
