/-
  Ark.Props.C19Rel — C19 for worlds WITH relation tables, at state level and over histories:

    "World statistics always agree with the actual contents: used entities equals the number of
     alive entities and the sum of archetype and table sizes, total equals used plus recycled
     […], no two archetypes have the same component set, every table's size is at most its
     capacity, memory figures are the documented products and sums, and filter, observer and lock
     figures match what is registered.  Statistics that were updated incrementally over a history
     equal those of a world that replays the history and is asked once."

  What is new against `Ark.Props.C19Hist` (the relation-free machine, where every archetype has
  ONE table for ever): an archetype with a relation component has one ACTIVE table per
  combination of relation targets, and the number of active tables goes DOWN (the target of an
  empty table is removed → `cleanupArchetypes` frees the table; `Shrink` frees empty relation
  tables) and UP again (a freed table is recycled, or a table is appended).
  `archetype.UpdateStats` re-uses the per-table list of the stored object: it has to truncate it
  when the archetype has fewer active tables than at the previous call, update in place, and
  append when it has more.

  The machine (`Ark.RelStats.step4`, Ark/Proofs/StatsRelHist.lean) interleaves, from
  `World.init cap rel`, in any order:
    * `op (base2 (base o))` — the operations of `Ark.RelRefine`: `registerComponent` (also of
      relation components), `NewEntity(ids…, rels…)`, `Add`, `Remove`, `SetRelations` (each
      through `Unsafe`, `Map` or `MapN`), `Set`, `RemoveEntity` (of a relation target:
      `cleanupArchetypes`);
    * `op (base2 …)` — `CopyEntity`, `Shrink`, filter definition / registration / unregistration,
      complete query iterations (`Ark.RelRefine2`); `op (xchg …)` — `Exchange` with relations
      (`Ark.RelRefine3`);
    * `stats` — `World.Stats()` (`World.opStats`).
  `Reset` IS a step (`op (base2 reset)`): it frees all relation tables and keeps the archetypes,
  and the statistics object survives it (`World.Reset` does not touch `w.stats`), so the next
  `Stats()` call finds an object that describes the world BEFORE the reset.  Bound
  `ops.length < 2^16` (`RelRefine.reach_hinv`).

  Vocabulary:
    * `St = ⟨w, issued, ss⟩`; `ss.ents : alive handle ↦ ⟨component ↦ value, relation ↦ target⟩`.
    * `statsFresh w`, `statsUpdate w st`, `archStatsUpdate w A s`, `archStatsFresh w A`
      (Ark/Model/Stats.lean); `StatAgrees w s A`: the stored entry `s` carries the three
      immutable figures (`memoryPerEntity`, `componentIDs`, `numRelations`) of archetype `A`.
    * `AgreesOn st w` — THE WEAKEST CONDITION: every stored archetype entry with an archetype
      at its position `StatAgrees` with it.  `Compatible st w` (= `AgreesOn` + no more entries
      than archetypes) is what the history invariant carries.
    * `RStep w w'` — `SStep w w'` (archetypes only appended, existing ones keep component list and
      relation count, registered sizes unchanged, `w'.stats = w.stats`) and no observer appears.
    * `HInv4 s fl` — `HInv2 s fl` (⊇ `RelRefine.HInv` ⊇ `TInv`; `FInvR`) ∧ `Compatible s.w.stats
      s.w` ∧ `s.w.obs.totalCount = 0`.
    * `AgreeRel s st` — the figures `st` agree with the contents of state `s` (all clauses of C19;
      `arch_entry`: one table entry per ACTIVE table).

  Main theorems: §1 `update_lists_active_tables`, `weakest_condition`, `stats_exact_state`, the
  loops of `archetype.UpdateStats` on the re-used slice (`update_loops_eq_model`,
  `truncation_needed_iff`); §2 `every_operation_is_rstep`, `every_step_is_rstep`,
  `operations_do_not_read_stats`, `reach4_invariant`, `stats_incremental_eq_fresh`,
  `stats_asked_once`, `stats_agree`, `stored_object_is_earlier_exact`, and **incremental =
  replay**: `step_commutes`, `history_replay`, `stats_incremental_eq_replay`; §3 the demo history.

  Hypotheses recorded once: as in `Ark.Props.C19Hist` (naturals, the two figures depending on
  Go's slice growth are not modelled, `cachedFilters` = entries of the cache).
-/
import Ark.Proofs.StatsRelReplay
import Ark.Proofs.StatsRelGo

set_option autoImplicit false

namespace Ark.Props.C19Rel
open Ark Ark.World Ark.RelRefine Ark.RelRefine2 Ark.RelRefine3 Ark.RelStats

/-! ## 1. state level -/

/-- **fewer / more / the same number of active tables**: whatever the stored entry `s` is — its
    table list longer than the archetype's active-table list (tables were freed since), shorter
    (tables were created or recycled since) or of the same length — the updated entry lists
    exactly the active tables, in order, each with its current length and capacity -/
theorem update_lists_active_tables (w : World) (A : Archetype) (s : ArchStats) :
    (w.archStatsUpdate A s).tables.length = A.tables.tables.length ∧
    (∀ (j t : Nat), A.tables.tables[j]? = some t →
      (w.archStatsUpdate A s).tables[j]? = some
        { size := (w.tbl t).len, capacity := (w.tbl t).cap
          memory := (w.tbl t).cap * s.memoryPerEntity
          memoryUsed := (w.tbl t).len * s.memoryPerEntity }) ∧
    (w.archStatsUpdate A s).size = (A.tables.tables.map fun t => (w.tbl t).len).sum ∧
    (w.archStatsUpdate A s).capacity =
      (A.tables.tables.map fun t => (w.tbl t).cap).sum +
        (A.freeTables.map fun t => (w.tbl t).cap).sum ∧
    (w.archStatsUpdate A s).freeTables = A.freeTables.length :=
  ⟨archStatsUpdate_tables_length w A s, archStatsUpdate_table_entry w A s,
    (archStatsUpdate_figures w A s).1, (archStatsUpdate_figures w A s).2.1,
    (archStatsUpdate_figures w A s).2.2.1⟩

/-- **the loops of `archetype.UpdateStats` on the re-used slice** (`tablesGo true`: truncate when
    the archetype has fewer active tables than the stored list has entries, overwrite the common
    prefix in place, append the rest) compute the per-table list of the model, for every stored
    entry -/
theorem update_loops_eq_model (w : World) (A : Archetype) (s : ArchStats) :
    tablesGo true w A s = (w.archStatsUpdate A s).tables ∧
    (StatAgrees w s A → tablesGo true w A s = (w.archStatsFresh A).tables) :=
  ⟨tablesGo_true w A s, tablesGo_true_fresh w A s⟩

/-- the same loops WITHOUT the truncation (`cntOld := min(cntOld, cntNew)`, all indices stay in
    range) leave the stale tail of the stored list behind; the result is right **iff** the
    archetype has at least as many active tables as the stored list has entries -/
theorem truncation_needed_iff (w : World) (A : Archetype) (s : ArchStats) :
    tablesGo false w A s =
      (w.archStatsUpdate A s).tables ++ s.tables.drop A.tables.tables.length ∧
    (tablesGo false w A s).length = max s.tables.length A.tables.tables.length ∧
    (tablesGo false w A s = (w.archStatsUpdate A s).tables ↔
      s.tables.length ≤ A.tables.tables.length) :=
  ⟨tablesGo_false w A s, tablesGo_false_length w A s, tablesGo_false_eq_iff w A s⟩

/-- **finding**: the model's `archStatsUpdate` takes only the LENGTH of the stored per-table list
    into account, so its definition with the truncation branch removed computes the same list —
    a missing truncation (the seeded change of round 6) is invisible to every theorem about
    `archStatsUpdate`; it is visible in `tablesGo` (`truncation_needed_iff`). -/
theorem model_is_blind_to_truncation (w : World) (A : Archetype) (s : ArchStats) :
    modelTablesNoTrunc w A s = (w.archStatsUpdate A s).tables :=
  modelTablesNoTrunc_eq w A s

/-- per archetype: `UpdateStats` = `Stats` iff the stored entry carries the archetype's three
    immutable figures -/
theorem arch_update_eq_fresh_iff (w : World) (A : Archetype) (s : ArchStats) :
    w.archStatsUpdate A s = w.archStatsFresh A ↔ StatAgrees w s A :=
  archStatsUpdate_eq_fresh_iff w A s

/-- **the weakest condition on the stored object**: for ANY world and ANY stored object,
    `Stats()` computes the fresh statistics iff the stored object satisfies `AgreesOn` -/
theorem weakest_condition (w : World) (st : WorldStats) :
    w.statsUpdate st = w.statsFresh ↔ AgreesOn st w :=
  statsUpdate_eq_fresh_iff w st

/-- `AgreesOn` spelled out -/
theorem agreesOn_iff (st : WorldStats) (w : World) :
    AgreesOn st w ↔ ∀ (i : Nat) (s : ArchStats) (A : Archetype),
      st.archetypes[i]? = some s → w.archetypes[i]? = some A →
        s.memoryPerEntity = w.memPerEntity A ∧ s.componentIDs = A.comps ∧
          s.numRelations = A.numRel :=
  Iff.rfl

/-- an object produced by `Stats()` on an earlier world `w0` satisfies it for every later world
    (`Mono w0 w`: archetypes only appended, existing ones keep component list and relation
    count, registered sizes unchanged — nothing about tables) -/
theorem earlier_stats_agreesOn (w0 w : World) (m : Mono w0 w) : AgreesOn w0.statsFresh w :=
  (compatible_fresh_later w0 w m).agreesOn

/-- **C19 with relations, state level.**  At a state satisfying the invariant of the relation
    machine (`RelRefine.HInv` ⊇ `TInv`; `HInv2` provides it), for ANY stored object satisfying
    `AgreesOn`: `Stats()` returns and stores the fresh statistics, and they agree with the
    contents. -/
theorem stats_exact_state {s : St} {fl : List Nat} (H : HInv2 s fl)
    (hst : AgreesOn s.w.stats s.w) :
    ∃ (st : WorldStats), opStats s.w = .ok st { s.w with stats := st } ∧
      st = statsFresh s.w ∧ AgreeRel s st ∧
      AgreeRel ⟨{ s.w with stats := st }, s.issued, s.ss⟩ st :=
  stats_exact H.base hst

/-- the same with the stored object as a parameter -/
theorem stats_exact_any_object {s : St} {fl : List Nat} (H : HInv s fl) (old : WorldStats)
    (hst : AgreesOn old s.w) :
    statsUpdate s.w old = statsFresh s.w ∧ AgreeRel s (statsUpdate s.w old) :=
  stats_exact' H old hst

/-- the counting lemmas behind `AgreeRel`, for any state satisfying `RelRefine.HInv` -/
theorem counting {s : St} {fl : List Nat} (H : HInv s fl) :
    s.w.pool.len = s.ss.ents.length ∧
    (s.issued.filter fun e => s.w.alive e).length = s.ss.ents.length ∧
    (∀ (t : Nat), t < s.w.tables.length →
      (s.w.tbl t).len = (s.ss.ents.filter fun x => decide ((s.w.index x.1.id).1 = t)).length) ∧
    (∀ (a : Nat), a < s.w.archetypes.length →
      (s.w.archStatsFresh (s.w.arch a)).size =
        (s.ss.ents.filter fun x => decide (specComps s x = (s.w.arch a).comps)).length) ∧
    ((s.w.archetypes.map s.w.archStatsFresh).map (·.size)).sum = s.ss.ents.length :=
  ⟨H.used_eq, H.alive_count, fun _ ht => H.table_count ht, fun _ ha => H.arch_count ha,
    H.sum_arch_sizes⟩

/-- **what a table entry counts**: the entities indexed to an active table `t` of archetype `a`
    have the component set of `a` and exactly the relation targets table `t` lists -/
theorem what_a_table_entry_counts {s : St} {fl : List Nat} (H : HInv s fl) {a t : Nat}
    (ha : a < s.w.archetypes.length) (ht : t ∈ (s.w.arch a).tables.tables) {x : Ent × Entry}
    (hx : x ∈ s.ss.ents) (hi : (s.w.index x.1.id).1 = t) :
    specComps s x = (s.w.arch a).comps ∧ ∀ (r : RelID), r ∈ (s.w.tbl t).relIDs ↔ r ∈ x.2.rels :=
  ⟨H.comps_of_table ha ht hx hi, fun r => by rw [← hi]; exact H.table_rels hx r⟩

section clauses
variable {s : St} {st : WorldStats} (A : AgreeRel s st)
include A

/-- `used` = specification entries = alive issued handles = Σ archetype sizes = Σ table sizes -/
theorem used_four_ways :
    st.used = s.ss.ents.length ∧
    st.used = (s.issued.filter fun e => s.w.alive e).length ∧
    st.used = (st.archetypes.map (·.size)).sum ∧
    st.used = ((st.archetypes.flatMap (·.tables)).map (·.size)).sum :=
  ⟨A.used_spec, A.used_alive, A.used_archs, A.used_tables⟩

theorem total_eq : st.total = st.used + st.recycled := A.total

/-- per archetype: `size` = number of entities with exactly this component set -/
theorem arch_size (a : ArchStats) (ha : a ∈ st.archetypes) :
    a.size = (s.ss.ents.filter fun x => decide (specComps s x = a.componentIDs)).length :=
  A.arch_size a ha

/-- no two archetype entries have the same component list, and every entity's component set is
    one of them -/
theorem arch_unique_complete :
    (∀ (i j : Nat) (a b : ArchStats), st.archetypes[i]? = some a → st.archetypes[j]? = some b →
      a.componentIDs = b.componentIDs → i = j) ∧
    (∀ (x : Ent × Entry), x ∈ s.ss.ents →
      ∃ (a : ArchStats), a ∈ st.archetypes ∧ a.componentIDs = specComps s x) :=
  ⟨A.arch_unique, A.arch_complete⟩

/-- **one table entry per ACTIVE table**: the entry at position `i` has as many table entries
    as archetype `i` has active tables, the `j`-th with the length (= number of entities indexed
    to that table) and the capacity of the `j`-th active table; free tables are counted in
    `freeTables` and contribute to `capacity` only -/
theorem arch_tables (i : Nat) (Ar : Archetype) (hA : s.w.archetypes[i]? = some Ar) :
    ∃ (a : ArchStats), st.archetypes[i]? = some a ∧
      a.componentIDs = Ar.comps ∧ a.numRelations = Ar.numRel ∧
      a.freeTables = Ar.freeTables.length ∧
      a.tables.length = Ar.tables.tables.length ∧
      (∀ (j t : Nat), Ar.tables.tables[j]? = some t → ∃ (ts : TableStats),
        a.tables[j]? = some ts ∧ ts.size = (s.w.tbl t).len ∧ ts.capacity = (s.w.tbl t).cap ∧
        ts.size = (s.ss.ents.filter fun x => decide ((s.w.index x.1.id).1 = t)).length) ∧
      a.size = (a.tables.map (·.size)).sum ∧
      a.capacity = (a.tables.map (·.capacity)).sum +
        (Ar.freeTables.map fun t => (s.w.tbl t).cap).sum :=
  A.arch_entry i Ar hA

/-- the relation count is the number of relation components among the component IDs; without a
    relation component: one table, no free table -/
theorem relation_count (a : ArchStats) (ha : a ∈ st.archetypes) :
    a.numRelations = (a.componentIDs.filter fun c => s.ss.isRel.getD c false).length ∧
    (a.numRelations = 0 → ∃ (t : TableStats), a.tables = [t] ∧ t.size = a.size ∧
      t.capacity = a.capacity ∧ a.freeTables = 0) :=
  ⟨A.num_rel a ha, A.nonrel_shape a ha⟩

theorem table_size_le (a : ArchStats) (ha : a ∈ st.archetypes) (t : TableStats)
    (ht : t ∈ a.tables) : t.size ≤ t.capacity := A.table_le a ha t ht

/-- memory figures: the documented products and sums -/
theorem memory_figures :
    (∀ (a : ArchStats), a ∈ st.archetypes →
      a.memoryPerEntity = 8 + (a.componentIDs.map fun c => (s.w.kinds.getD c {}).size).sum ∧
      a.memory = a.memoryPerEntity * a.capacity ∧ a.memoryUsed = a.memoryPerEntity * a.size ∧
      ∀ (t : TableStats), t ∈ a.tables →
        t.memory = t.capacity * a.memoryPerEntity ∧ t.memoryUsed = t.size * a.memoryPerEntity) ∧
    st.memory = (st.archetypes.map (·.memory)).sum ∧
    st.memoryUsed = (st.archetypes.map (·.memoryUsed)).sum ∧ st.memoryUsed ≤ st.memory :=
  ⟨fun a ha => ⟨A.mpe a ha, (A.arch_memory a ha).1, (A.arch_memory a ha).2, A.table_memory a ha⟩,
    A.memory.1, A.memory.2.1, A.memory.2.2⟩

theorem counters :
    st.cachedFilters = s.w.cache.filters.length ∧ st.observers = s.w.obs.totalCount ∧
    st.locked = false ∧ st.numComponents = s.ss.zst.length :=
  ⟨A.cachedFilters, A.observers, A.locked, A.numComponents⟩

end clauses

/-! ## 2. histories -/

variable (run : ProbeRunner) (cap rel : Nat)

/-- `RStep` spelled out -/
theorem rstep_iff (w w' : World) :
    RStep w w' ↔ (Mono w w' ∧ w'.stats = w.stats ∧
      (w.obs.totalCount = 0 → w'.obs.totalCount = 0)) ∧ (NoObs w → NoObs w') :=
  ⟨fun h => ⟨⟨h.sstep.mono, h.sstep.stats, h.sstep.obs0⟩, h.noObs⟩,
    fun h => ⟨⟨h.1.1, h.1.2.1, h.1.2.2⟩, h.2⟩⟩

/-- **every successful entity operation of the relation machine**, with ANY callback runner, on
    a world without observers: archetypes are only appended, the existing ones keep component
    list and relation count (while tables are created, freed and recycled), the registered sizes
    are unchanged, the statistics object is not touched -/
theorem every_operation_is_rstep {w : World} (hno : NoObs w) (hS : SInvMid w) {op : RelRefine.Op}
    {r : Option Ent} {w' : World} (hex : exec run w op = .ok r w') : RStep w w' :=
  exec_rstep run hno hS hex

/-- every step of the machine with `Exchange`, `CopyEntity`, `Shrink`, filters and queries (a
    rejected call leaves the world alone) -/
theorem every_step_is_rstep {s : St} {fl : List Nat} (H : HInv2 s fl)
    (hfew : s.w.tables.length + s.w.relationArchetypes.length + 1 ≤ maxU32)
    (hent : 2 * s.w.entities.length < 2 ^ 32) (op : Op3) :
    RStep s.w (step3 run s op).w :=
  step3_rstep run H hfew hent op

/-- no operation reads the statistics object: run on the world with ANOTHER statistics object it
    gives the same result (success or panic) and the same world up to `stats` -/
theorem operations_do_not_read_stats {w : World} (hno : NoObs w) (st : WorldStats) :
    (∀ (p : Path) (ids : List Comp) (vals : List (Comp × Val)) (rels : List RelID),
      opNewEntity run p ids vals rels (w.setStats st) = liftS st (opNewEntity run p ids vals rels w)) ∧
    (∀ (p : Path) (e : Ent) (ids : List Comp) (vals : List (Comp × Val)) (rels : List RelID),
      opAdd run p e ids vals rels (w.setStats st) = liftS st (opAdd run p e ids vals rels w)) ∧
    (∀ (p : Path) (e : Ent) (ids : List Comp),
      opRemove run p e ids (w.setStats st) = liftS st (opRemove run p e ids w)) ∧
    (∀ (p : Path) (e : Ent) (add : List Comp) (vals : List (Comp × Val)) (rem : List Comp)
        (rels : List RelID),
      opExchange run p e add vals rem rels (w.setStats st) =
        liftS st (opExchange run p e add vals rem rels w)) ∧
    (∀ (p : Path) (e : Ent) (m : List Comp) (rels : List RelID),
      opSetRelations run p e m rels (w.setStats st) = liftS st (opSetRelations run p e m rels w)) ∧
    (∀ (e : Ent) (ids : List Comp) (vals : List (Comp × Val)),
      opSet run e ids vals (w.setStats st) = liftS st (opSet run e ids vals w)) ∧
    (∀ (e : Ent), opRemoveEntity run e (w.setStats st) = liftS st (opRemoveEntity run e w)) ∧
    (∀ (e : Ent), opCopyEntity run e (w.setStats st) = liftS st (opCopyEntity run e w)) :=
  ⟨fun p ids vals rels => (fr_opNewEntity run p ids vals rels w hno).1 st,
    fun p e ids vals rels => (fr_opAdd run p e ids vals rels w hno).1 st,
    fun p e ids => (fr_opRemove run p e ids w hno).1 st,
    fun p e add vals rem rels => (fr_opExchange run p e add vals rem rels w hno).1 st,
    fun p e m rels => (fr_opSetRelations run p e m rels w hno).1 st,
    fun e ids vals => (fr_opSet run e ids vals w hno).1 st,
    fun e => (fr_opRemoveEntity run e w hno).1 st,
    fun e => (fr_opCopyEntity run e w hno).1 st⟩

theorem step4_keeps {s : St} {fl : List Nat} (H : HInv4 s fl)
    (hfew : s.w.tables.length + s.w.relationArchetypes.length + 1 ≤ maxU32)
    (hent : 2 * s.w.entities.length < 2 ^ 32) (op : Op4) :
    ∃ fl', HInv4 (step4 run s op) fl' := (step4_inv run H hfew hent op).1

theorem reach4_invariant (ops : List Op4) (hlen : ops.length < 2 ^ 16) : ∃ fl, HInv4 (reach4 run cap rel ops) fl :=
  reach4_inv run cap rel ops hlen

/-- **incremental = fresh, at every `Stats()` call of every history** of the relation machine -/
theorem stats_incremental_eq_fresh (ops : List Op4) (hlen : ops.length < 2 ^ 16) :
    opStats (reach4 run cap rel ops).w =
      .ok (statsFresh (reach4 run cap rel ops).w)
        { (reach4 run cap rel ops).w with stats := statsFresh (reach4 run cap rel ops).w } :=
  reach4_opStats run cap rel ops hlen

/-- **asked once**: the answer equals the answer of the same world whose statistics object is
    empty (a world that was never asked before) -/
theorem stats_asked_once (ops : List Op4) (hlen : ops.length < 2 ^ 16) :
    ∃ (st : WorldStats) (w1 w2 : World),
      opStats (reach4 run cap rel ops).w = .ok st w1 ∧
      opStats { (reach4 run cap rel ops).w with stats := {} } = .ok st w2 ∧ w1 = w2 :=
  ⟨_, _, _, reach4_opStats run cap rel ops hlen,
    opStats_eq' (reach4 run cap rel ops).w {} (compatible_empty _), rfl⟩

/-- **C19 at every reachable state**: the answer is the fresh statistics, they agree with the
    contents, and the observer figure is `0` (the machine registers none) -/
theorem stats_agree (ops : List Op4) (hlen : ops.length < 2 ^ 16) :
    ∃ (st : WorldStats),
      opStats (reach4 run cap rel ops).w =
        .ok st { (reach4 run cap rel ops).w with stats := st } ∧
      st = statsFresh (reach4 run cap rel ops).w ∧
      AgreeRel (reach4 run cap rel ops) st ∧ st.observers = 0 :=
  reach4_agree run cap rel ops hlen

/-- **the stored object is the exact statistics of an earlier world of the history** — the world
    at the last `Stats()` call (`lastStatsPrefix ops` = the history up to that call), or the
    empty object before the first call -/
theorem stored_object_is_earlier_exact (ops : List Op4) (hlen : ops.length < 2 ^ 16) :
    (reach4 run cap rel ops).w.stats =
      match lastStatsPrefix ops with
      | none => {}
      | some pre => statsFresh (reach4 run cap rel pre).w :=
  reach4_stored run cap rel ops.length ops rfl hlen

/-- the object after the history `ops ++ [stats]` is the fresh statistics of the world after
    `ops`; any other step leaves it alone -/
theorem stats_object_after (ops : List Op4) (hlen : ops.length < 2 ^ 16) :
    (reach4 run cap rel (ops ++ [.stats])).w.stats = statsFresh (reach4 run cap rel ops).w :=
  reach4_after_stats run cap rel ops hlen

/-! ## 2b. incremental = replay -/

/-- a complete query iteration neither reads nor writes the statistics object -/
theorem queries_do_not_read_stats (fo : FilterObj) (extra : List RelID) (w : World)
    (st : WorldStats) : drain fo extra (w.setStats st) = liftS st (drain fo extra w) :=
  indep_drain fo extra w st

/-- every step of the relation machine (also `Reset`) commutes with replacing the statistics
    object -/
theorem step_commutes {s : St} (hno : NoObs s.w) (hl : s.w.isLocked = false) (op : Op3)
    (st : WorldStats) : step3 run (s.setStats st) op = (step3 run s op).setStats st :=
  step3_setStats run hno hl op st

/-- **replay**: the state a history with `Stats()` calls reaches is the state the same history
    WITHOUT those calls (`strip ops`, a history of `Ark.RelRefine3`) reaches, with another
    statistics object: same world up to `w.stats`, same handles, same specification -/
theorem history_replay (ops : List Op4) (hlen : ops.length < 2 ^ 16) :
    ∃ (st : WorldStats),
      reach4 run cap rel ops = (reach3 run cap rel (strip ops)).setStats st :=
  replay run cap rel ops hlen

/-- **incremental = replay.**  `Stats()` after a history with interleaved `Stats()` calls —
    between which relation tables were created, freed and recycled — returns exactly what
    `Stats()` returns in a world that replays the history without those calls (a world whose
    statistics object is still the initial, empty one) and is asked once. -/
theorem stats_incremental_eq_replay (ops : List Op4) (hlen : ops.length < 2 ^ 16) :
    opStats (reach4 run cap rel ops).w =
      .ok (statsFresh (reach3 run cap rel (strip ops)).w)
        ((reach3 run cap rel (strip ops)).w.setStats
          (statsFresh (reach3 run cap rel (strip ops)).w)) ∧
    opStats (reach3 run cap rel (strip ops)).w =
      .ok (statsFresh (reach3 run cap rel (strip ops)).w)
        ((reach3 run cap rel (strip ops)).w.setStats
          (statsFresh (reach3 run cap rel (strip ops)).w)) ∧
    (reach3 run cap rel (strip ops)).w.stats = {} :=
  replay_stats run cap rel ops hlen

/-! ## 3. non-vacuity: a history in which a relation archetype has 3, then 1, then 2, 2, 0 (after `Reset`), 1 active tables

`NewWorld(2, 2)`; component 0 (4 bytes) and the RELATION component 1 (8 bytes); three targets
`2.0`, `3.0`, `4.0`; three children `{0, 1}` with target `2.0` / `3.0` / `4.0` (entities `5.0`,
`6.0`, `7.0`): archetype 1 = `{0,1}` has the active tables 1, 2, 3.
`Stats()` #1 (step 9): 3 table entries.
The children `6.0`, `7.0` are removed (tables 2, 3 are empty, still active); the target `3.0` is
removed (`cleanupArchetypes` FREES the empty table 2); `Shrink` FREES the empty relation table 3.
`Stats()` #2 (step 14): the stored entry has 3 table entries, the archetype 1 active table and 2
free ones — the `cntNew < cntOld` branch of `archetype.UpdateStats`.
A new child with target `4.0` RECYCLES the free table 3.
`Stats()` #3 (step 16): stored 1 entry, 2 active tables — the append loop.
`Set` on `5.0`; `Stats()` #4 (step 18): stored 2, active 2 — update in place.
`Reset` (step 19) frees ALL relation tables and keeps the archetypes; the statistics object
survives it.  `Stats()` #5 (step 20): stored 2 entries (4 entities), active 0 — truncation to the
empty list.  After the reset a target `2.0` and a child `3.0` are created (the child RECYCLES
table 3); `Stats()` #6 (step 23): stored 0, active 1. -/

def noProbe : ProbeRunner := fun _ _ _ => pure ()

/-- an operation of `Ark.RelRefine` as an operation of the machine with `Stats()` -/
def b (o : RelRefine.Op) : Op4 := .op (.base2 (.base o))

def demoOps : List Op4 :=
  [b (.reg 4 false false), b (.reg 8 false true),
   b (.new .unsafe_ [] [] []), b (.new .unsafe_ [] [] []), b (.new .unsafe_ [] [] []),
   b (.new .unsafe_ [0, 1] [(0, 7)] [⟨1, ⟨2, 0⟩⟩]),
   b (.new .unsafe_ [0, 1] [(0, 8)] [⟨1, ⟨3, 0⟩⟩]),
   b (.new .unsafe_ [0, 1] [(0, 9)] [⟨1, ⟨4, 0⟩⟩]),
   .stats,
   b (.del ⟨6, 0⟩), b (.del ⟨7, 0⟩),
   b (.del ⟨3, 0⟩),
   .op (.base2 (.shrink false)),
   .stats,
   b (.new .unsafe_ [0, 1] [(0, 5)] [⟨1, ⟨4, 0⟩⟩]),
   .stats,
   b (.set ⟨5, 0⟩ [(0, 1)]),
   .stats,
   .op (.base2 .reset),
   .stats,
   b (.new .unsafe_ [] [] []),
   b (.new .unsafe_ [0, 1] [(0, 3)] [⟨1, ⟨2, 0⟩⟩]),
   .stats]

/-- the state after the first `k` operations -/
def at_ (k : Nat) : St := reach4 noProbe 2 2 (demoOps.take k)

/-- the table entries of the relation archetype in a statistics object -/
def relTables (st : WorldStats) : List (Nat × Nat) :=
  ((st.archetypes.getD 1 default).tables.map fun t => (t.size, t.capacity))

/-- the hypotheses of the history theorems -/
example : demoOps.length < 2 ^ 16 := by decide

/-- the hypotheses of `stats_exact_state`, `every_step_is_rstep`, `step4_keeps` are satisfiable:
    the invariants hold at the states of the demo history -/
example : (∃ fl, HInv4 (at_ 13) fl) ∧ (∃ fl, HInv2 (at_ 13) fl) ∧ (∃ fl, HInv (at_ 13) fl) ∧
    AgreesOn (at_ 13).w.stats (at_ 13).w ∧ NoObs (at_ 13).w := by
  obtain ⟨fl, H⟩ := reach4_invariant noProbe 2 2 (demoOps.take 13) (by decide)
  exact ⟨⟨fl, H⟩, ⟨fl, H.base⟩, ⟨fl, H.base.base⟩, H.compat.agreesOn, H.base.base.noObs⟩

example : AgreeRel (at_ 13) (statsFresh (at_ 13).w) := by
  obtain ⟨fl, H⟩ := reach4_invariant noProbe 2 2 (demoOps.take 13) (by decide)
  exact agreeRel_fresh H.base.base

/-- no step of the demo history is skipped: the guards hold -/
example :
    guard (at_ 5) (.new .unsafe_ [0, 1] [(0, 7)] [⟨1, ⟨2, 0⟩⟩]) = true ∧
    guard (at_ 9) (.del ⟨6, 0⟩) = true ∧ guard (at_ 11) (.del ⟨3, 0⟩) = true ∧
    guard (at_ 14) (.new .unsafe_ [0, 1] [(0, 5)] [⟨1, ⟨4, 0⟩⟩]) = true ∧
    guard (at_ 16) (.set ⟨5, 0⟩ [(0, 1)]) = true := by
  decide +kernel

def isOk {α : Type} : Res World α → Bool
  | .ok _ _ => true
  | .panic _ _ => false

/-- `every_operation_is_rstep` / `operations_do_not_read_stats` apply to the removal of the
    target `3.0` at step 12 (accepted; `cleanupArchetypes` frees table 2) and `step_commutes`
    to every state of the history: the world has no observers, is unlocked and `SInvMid` holds -/
example :
    isOk (exec noProbe (at_ 11).w (.del ⟨3, 0⟩)) = true ∧
    ((at_ 11).w.arch 1).freeTables = [] ∧
    ((exec noProbe (at_ 11).w (.del ⟨3, 0⟩)).state.arch 1).freeTables = [2] ∧
    (at_ 11).w.isLocked = false := by
  decide +kernel

example : NoObs (at_ 11).w ∧ SInvMid (at_ 11).w := by
  obtain ⟨fl, H⟩ := reach4_invariant noProbe 2 2 (demoOps.take 11) (by decide)
  exact ⟨H.base.base.noObs, H.base.base.tinv.rel.sinv.toSInvMid⟩

/-- **3 active tables** at the first call: tables 1, 2, 3 of archetype 1 = `{0, 1}`, one entity
    each -/
example :
    (at_ 8).w.archetypes.map (fun a => (a.comps, a.numRel, a.tables.tables, a.freeTables)) =
      [([], 0, [0], []), ([0, 1], 1, [1, 2, 3], [])] ∧
    (at_ 8).w.stats = {} ∧
    (at_ 9).w.stats = statsFresh (at_ 8).w ∧
    relTables (at_ 9).w.stats = [(1, 2), (1, 2), (1, 2)] := by
  decide +kernel

/-- **1 active table** at the second call — FEWER than the stored entry lists: the stored object
    is stale (3 table entries, 6 entities) and compatible; the call truncates -/
example :
    (at_ 13).w.archetypes.map (fun a => (a.tables.tables, a.freeTables)) =
      [([0], []), ([1], [2, 3])] ∧
    relTables (at_ 13).w.stats = [(1, 2), (1, 2), (1, 2)] ∧
    (at_ 13).w.stats ≠ statsFresh (at_ 13).w ∧
    compatibleB (at_ 13).w.stats (at_ 13).w = true ∧
    (at_ 14).w.stats = statsFresh (at_ 13).w ∧
    relTables (at_ 14).w.stats = [(1, 2)] ∧
    ((at_ 14).w.stats.archetypes.map fun a => (a.size, a.capacity, a.freeTables)) =
      [(2, 2, 0), (1, 6, 2)] ∧
    ((at_ 14).w.stats.used, (at_ 14).w.stats.recycled, (at_ 14).w.stats.total) = (3, 3, 6) := by
  decide +kernel

/-- **2 active tables** at the third call — MORE than the stored entry lists: the free table 3 was
    recycled for the new child (which got the recycled entity slot `3`, generation 1) -/
example :
    (at_ 15).w.archetypes.map (fun a => (a.tables.tables, a.freeTables)) =
      [([0], []), ([1, 3], [2])] ∧
    (at_ 15).issued.head? = some ⟨3, 1⟩ ∧
    relTables (at_ 15).w.stats = [(1, 2)] ∧
    (at_ 15).w.stats ≠ statsFresh (at_ 15).w ∧
    (at_ 16).w.stats = statsFresh (at_ 15).w ∧
    relTables (at_ 16).w.stats = [(1, 2), (1, 2)] ∧
    ((at_ 16).w.stats.archetypes.map fun a => (a.size, a.capacity, a.freeTables)) =
      [(2, 2, 0), (2, 6, 1)] := by
  decide +kernel

/-- **the same number** at the fourth call: update in place -/
example :
    relTables (at_ 17).w.stats = [(1, 2), (1, 2)] ∧
    (at_ 17).w.archetypes.map (fun a => (a.tables.tables, a.freeTables)) =
      [([0], []), ([1, 3], [2])] ∧
    (at_ 18).w.stats = statsFresh (at_ 17).w ∧
    relTables (at_ 18).w.stats = [(1, 2), (1, 2)] := by
  decide +kernel

/-- **`Reset`, then `Stats()`**: the reset (step 19) frees all relation tables, empties the pool
    (the old handles stay behind the pool slice, invalidated) and does NOT touch the statistics
    object, which still reports 4 entities and 2 table entries; it is stale and compatible; the
    fifth call truncates the per-table list to the empty list (0 active tables, 3 free ones) -/
example :
    (at_ 19).w.archetypes.map (fun a => (a.comps, a.tables.tables, a.freeTables)) =
      [([], [0], []), ([0, 1], [], [2, 1, 3])] ∧
    (at_ 19).w.pool.stale.length = 6 ∧ (at_ 19).issued = [] ∧
    (at_ 19).w.stats = (at_ 18).w.stats ∧ (at_ 19).w.stats.used = 4 ∧
    relTables (at_ 19).w.stats = [(1, 2), (1, 2)] ∧
    (at_ 19).w.stats ≠ statsFresh (at_ 19).w ∧
    compatibleB (at_ 19).w.stats (at_ 19).w = true ∧
    (at_ 20).w.stats = statsFresh (at_ 19).w ∧
    relTables (at_ 20).w.stats = [] ∧
    ((at_ 20).w.stats.archetypes.map fun a => (a.size, a.capacity, a.freeTables)) =
      [(0, 2, 0), (0, 6, 3)] ∧
    ((at_ 20).w.stats.used, (at_ 20).w.stats.recycled, (at_ 20).w.stats.total) = (0, 0, 0) := by
  decide +kernel

/-- after the reset: a new epoch of handles (`2.0` and `3.0` again), the child recycles table 3;
    the sixth call (stored 0 table entries, 1 active table) appends -/
example :
    guard (at_ 21) (.new .unsafe_ [0, 1] [(0, 3)] [⟨1, ⟨2, 0⟩⟩]) = true ∧
    (at_ 22).issued = [⟨3, 0⟩, ⟨2, 0⟩] ∧
    (at_ 22).w.archetypes.map (fun a => (a.tables.tables, a.freeTables)) =
      [([0], []), ([3], [2, 1])] ∧
    relTables (at_ 22).w.stats = [] ∧
    (at_ 23).w.stats = statsFresh (at_ 22).w ∧
    relTables (at_ 23).w.stats = [(1, 2)] ∧
    ((at_ 23).w.stats.archetypes.map fun a => (a.size, a.capacity, a.freeTables)) =
      [(1, 2, 0), (1, 6, 2)] ∧
    ((at_ 23).w.stats.used, (at_ 23).w.stats.recycled, (at_ 23).w.stats.total) = (2, 0, 2) := by
  decide +kernel

/-- the invariant holds after the reset too (`reach4_invariant` has no `Reset`-free hypothesis) -/
example : (∃ fl, HInv4 (at_ 19) fl) ∧ AgreeRel (at_ 19) (statsFresh (at_ 19).w) := by
  obtain ⟨fl, H⟩ := reach4_invariant noProbe 2 2 (demoOps.take 19) (by decide)
  exact ⟨⟨fl, H⟩, agreeRel_fresh H.base.base⟩

/-- the figures of the last call: 4 alive entities (`2.0`, `4.0` without components; `5.0`, `3.1`
    in `{0,1}`), 2 recycled slots, 20 bytes per entity of `{0, 1}` -/
example :
    ((statsFresh (at_ 17).w).used, (statsFresh (at_ 17).w).recycled,
      (statsFresh (at_ 17).w).total) = (4, 2, 6) ∧
    ((statsFresh (at_ 17).w).archetypes.map fun a => (a.componentIDs, a.numRelations, a.size,
      a.capacity)) = [([], 0, 2, 2), ([0, 1], 1, 2, 6)] ∧
    ((statsFresh (at_ 17).w).archetypes.map fun a => (a.memoryPerEntity, a.memory,
      a.memoryUsed)) = [(8, 16, 16), (20, 120, 40)] ∧
    ((statsFresh (at_ 17).w).memory, (statsFresh (at_ 17).w).memoryUsed) = (136, 56) ∧
    ((statsFresh (at_ 17).w).cachedFilters, (statsFresh (at_ 17).w).observers,
      (statsFresh (at_ 17).w).locked, (statsFresh (at_ 17).w).numComponents) = (0, 0, false, 2) ∧
    (at_ 17).ss.ents.map (·.1) = [⟨3, 1⟩, ⟨5, 0⟩, ⟨4, 0⟩, ⟨2, 0⟩] ∧
    (at_ 17).ss.ents.map (specComps (at_ 17)) = [[0, 1], [0, 1], [], []] := by
  decide +kernel

/-- `stored_object_is_earlier_exact` on the demo: before the third call (step 15) the stored
    object is the exact statistics of the world at the second call (after 13 steps) -/
example :
    (lastStatsPrefix (demoOps.take 15)).map (·.length) = some 13 ∧
    (at_ 15).w.stats = statsFresh (at_ 13).w ∧
    (lastStatsPrefix (demoOps.take 8)).isNone = true := by
  decide +kernel

/-- the hypothesis `AgreesOn` is needed: an object whose entry for the relation archetype has a
    wrong `memoryPerEntity` is not repaired by the update -/
example :
    let w := (at_ 13).w
    let bad : WorldStats := { w.stats with
      archetypes := w.stats.archetypes.map fun a => { a with memoryPerEntity := 0 } }
    statsUpdate w bad ≠ statsFresh w := by
  decide +kernel

/-- … while an object with MORE archetype entries than the world has archetypes (not
    `Compatible`, but `AgreesOn`) is repaired: `AgreesOn` is strictly weaker than `Compatible` -/
example :
    let w := (at_ 13).w
    let long : WorldStats := { w.stats with archetypes := w.stats.archetypes ++ w.stats.archetypes }
    compatibleB long w = false ∧ statsUpdate w long = statsFresh w := by
  decide +kernel

/-- the loops on the re-used slice at the second call (stored: 3 entries, active: 1 table): with
    the truncation the fresh list; without it the two stale entries stay (3 entries, and the sum of
    the table sizes is 3 while the archetype holds 1 entity) -/
example :
    tablesGo true (at_ 13).w ((at_ 13).w.arch 1) ((at_ 13).w.stats.archetypes.getD 1 default) =
      ((at_ 13).w.archStatsFresh ((at_ 13).w.arch 1)).tables ∧
    (tablesGo true (at_ 13).w ((at_ 13).w.arch 1)
      ((at_ 13).w.stats.archetypes.getD 1 default)).length = 1 ∧
    (tablesGo false (at_ 13).w ((at_ 13).w.arch 1)
      ((at_ 13).w.stats.archetypes.getD 1 default)).map (·.size) = [1, 1, 1] ∧
    ((at_ 13).w.archStatsFresh ((at_ 13).w.arch 1)).size = 1 ∧
    -- at the third call (stored 1, active 2) and the fourth (2, 2) the truncation is not needed
    tablesGo false (at_ 15).w ((at_ 15).w.arch 1) ((at_ 15).w.stats.archetypes.getD 1 default) =
      ((at_ 15).w.archStatsFresh ((at_ 15).w.arch 1)).tables ∧
    tablesGo false (at_ 17).w ((at_ 17).w.arch 1) ((at_ 17).w.stats.archetypes.getD 1 default) =
      ((at_ 17).w.archStatsFresh ((at_ 17).w.arch 1)).tables := by
  decide +kernel

/-- replay on the demo history: without the six `Stats()` calls it has seventeen steps; the
    replaying world was never asked (empty object) and reports, asked once, what the world with
    the incrementally updated object reports -/
example :
    (strip demoOps).length = 17 ∧
    (reach3 noProbe 2 2 (strip demoOps)).w.stats = {} ∧
    (at_ 23).w.stats ≠ {} ∧
    statsUpdate (at_ 23).w (at_ 23).w.stats =
      statsUpdate (reach3 noProbe 2 2 (strip demoOps)).w {} ∧
    (at_ 23).issued = (reach3 noProbe 2 2 (strip demoOps)).issued ∧
    (at_ 23).w.entities = (reach3 noProbe 2 2 (strip demoOps)).w.entities := by
  decide +kernel

end Ark.Props.C19Rel
