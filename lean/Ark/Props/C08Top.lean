/-
  Ark.Props.C08Top — the world-level theorems of C08 (Props/C08World), restated.  They live in their
  own module because the proofs behind them import Props/C08.lean (the manager-level theorems);
  the check builds and audits Props/C08.lean, this file and (if present) Props/C08Src.lean.
-/
import Ark.Props.C08
import Ark.Props.C08World
import Ark.Props.C08Rel
import Ark.Props.C08Xchg

namespace Ark.Props.C08Top
open Ark

/-! ### World level (Props/C08World): which callbacks each operation runs -/

/-- for a read-only probe runner `dispatch` is a filter of the observer list: it logs, in slice order, one `cb` record (and the script's records) per observer whose predicate holds, changes nothing else, and reports whether any ran -/
theorem world_dispatch_is_filter : type_of% @Ark.Props.C08World.dispatch_is_filter := @Ark.Props.C08World.dispatch_is_filter

/-- the observers an event notifies are exactly those registered for the event type whose specification satisfies the documented rule `Spec.fires` -/
theorem world_firing_iff : type_of% @Ark.Props.C08World.firing_iff := @Ark.Props.C08World.firing_iff

/-- each selected observer appears once in the records of an operation, every other observer never -/
theorem world_firing_exactly_once : type_of% @Ark.Props.C08World.firing_exactly_once := @Ark.Props.C08World.firing_exactly_once

/-- **C08** for `add`: the call succeeds exactly as without observers and yields the observer-free result up to `obs`/`log`/lock pool; the `cb` records it appends are exactly the observers selected by the documented rule for this operation's event(s), once each, for the affected entity -/
theorem world_add_callbacks : type_of% @Ark.Props.C08World.add_callbacks := @Ark.Props.C08World.add_callbacks

/-- **C08** for `remove`: the call succeeds exactly as without observers and yields the observer-free result up to `obs`/`log`/lock pool; the `cb` records it appends are exactly the observers selected by the documented rule for this operation's event(s), once each, for the affected entity -/
theorem world_remove_callbacks : type_of% @Ark.Props.C08World.remove_callbacks := @Ark.Props.C08World.remove_callbacks

/-- **C08** for `exchange`: the call succeeds exactly as without observers and yields the observer-free result up to `obs`/`log`/lock pool; the `cb` records it appends are exactly the observers selected by the documented rule for this operation's event(s), once each, for the affected entity -/
theorem world_exchange_callbacks : type_of% @Ark.Props.C08World.exchange_callbacks := @Ark.Props.C08World.exchange_callbacks

/-- **C08** for `newEntity`: the call succeeds exactly as without observers and yields the observer-free result up to `obs`/`log`/lock pool; the `cb` records it appends are exactly the observers selected by the documented rule for this operation's event(s), once each, for the affected entity -/
theorem world_newEntity_callbacks : type_of% @Ark.Props.C08World.newEntity_callbacks := @Ark.Props.C08World.newEntity_callbacks

/-- **C08** for `newEntity0`: the call succeeds exactly as without observers and yields the observer-free result up to `obs`/`log`/lock pool; the `cb` records it appends are exactly the observers selected by the documented rule for this operation's event(s), once each, for the affected entity -/
theorem world_newEntity0_callbacks : type_of% @Ark.Props.C08World.newEntity0_callbacks := @Ark.Props.C08World.newEntity0_callbacks

/-- **C08** for `removeEntity`: the call succeeds exactly as without observers and yields the observer-free result up to `obs`/`log`/lock pool; the `cb` records it appends are exactly the observers selected by the documented rule for this operation's event(s), once each, for the affected entity -/
theorem world_removeEntity_callbacks : type_of% @Ark.Props.C08World.removeEntity_callbacks := @Ark.Props.C08World.removeEntity_callbacks

/-- **C08** for `set`: the call succeeds exactly as without observers and yields the observer-free result up to `obs`/`log`/lock pool; the `cb` records it appends are exactly the observers selected by the documented rule for this operation's event(s), once each, for the affected entity -/
theorem world_set_callbacks : type_of% @Ark.Props.C08World.set_callbacks := @Ark.Props.C08World.set_callbacks

/-- **C08** for `copyEntity`: the call succeeds exactly as without observers and yields the observer-free result up to `obs`/`log`/lock pool; the `cb` records it appends are exactly the observers selected by the documented rule for this operation's event(s), once each, for the affected entity -/
theorem world_copyEntity_callbacks : type_of% @Ark.Props.C08World.copyEntity_callbacks := @Ark.Props.C08World.copyEntity_callbacks

/-- **C08** for `emit`: the call succeeds exactly as without observers and yields the observer-free result up to `obs`/`log`/lock pool; the `cb` records it appends are exactly the observers selected by the documented rule for this operation's event(s), once each, for the affected entity -/
theorem world_emit_callbacks : type_of% @Ark.Props.C08World.emit_callbacks := @Ark.Props.C08World.emit_callbacks

/-- whether an observer is notified by an operation does not depend on which other observers are registered -/
theorem world_observer_independent : type_of% @Ark.Props.C08World.observer_independent := @Ark.Props.C08World.observer_independent

/-- registering another observer keeps the setting, keeps whether `l` is listed and keeps every specification -/
theorem world_register_other_independent_reachable : type_of% @Ark.Props.C08World.register_other_independent_reachable := @Ark.Props.C08World.register_other_independent_reachable

/-- … and so does unregistering another observer (only the ORDER of callbacks may change: swap-remove) -/
theorem world_unregister_other_independent_reachable : type_of% @Ark.Props.C08World.unregister_other_independent_reachable := @Ark.Props.C08World.unregister_other_independent_reachable

/-- `Register` establishes/keeps the observer-manager invariants -/
theorem world_register_keeps_setting : type_of% @Ark.Props.C08World.register_keeps_setting := @Ark.Props.C08World.register_keeps_setting

/-- `Unregister` keeps them -/
theorem world_unregister_keeps_setting : type_of% @Ark.Props.C08World.unregister_keeps_setting := @Ark.Props.C08World.unregister_keeps_setting

/-- the manager's bookkeeping invariant (IDs never recycled, unique, index ↔ object) holds initially -/
theorem world_bookkeeping_init : type_of% @Ark.Props.C08World.bookkeeping_init := @Ark.Props.C08World.bookkeeping_init

/-- … is kept by `Register` -/
theorem world_register_keeps_bookkeeping : type_of% @Ark.Props.C08World.register_keeps_bookkeeping := @Ark.Props.C08World.register_keeps_bookkeeping

/-- … and by `Unregister` -/
theorem world_unregister_keeps_bookkeeping : type_of% @Ark.Props.C08World.unregister_keeps_bookkeeping := @Ark.Props.C08World.unregister_keeps_bookkeeping

/-- finding: with all 64 lock bits outstanding a removal with observers panics `outOfLocks` (not reachable) -/
theorem world_lock_hypothesis_necessary : type_of% @Ark.Props.C08World.lock_hypothesis_necessary := @Ark.Props.C08World.lock_hypothesis_necessary

/-- finding: a callback that changes the world (e.g. creates an entity) is outside the theorem: the statement is for read-only callbacks -/
theorem world_readOnly_necessary : type_of% @Ark.Props.C08World.readOnly_necessary := @Ark.Props.C08World.readOnly_necessary



/-! ### Relation events at world level (Props/C08Rel): worlds with relation components, any set of registered observers, read-only callbacks -/

/-- the setting: the world invariant with relations, with any set of registered observers -/
theorem rel_tinvObs_is_tinv_plus_obsOK : type_of% @Ark.Props.C08Rel.tinvObs_is_tinv_plus_obsOK := @Ark.Props.C08Rel.tinvObs_is_tinv_plus_obsOK

/-- the setting is kept by the operations below (so the theorems iterate) -/
theorem rel_setting_kept : type_of% @Ark.Props.C08Rel.setting_kept := @Ark.Props.C08Rel.setting_kept

/-- SetRelations is rejected exactly as without observers -/
theorem rel_setRelations_rejected_as_without_observers : type_of% @Ark.Props.C08Rel.setRelations_rejected_as_without_observers := @Ark.Props.C08Rel.setRelations_rejected_as_without_observers

/-- **SetRelations**: succeeds exactly as without observers, yields the observer-free result up to observers/log/lock pool; a call that changes no target returns the world untouched and notifies nobody (not even wildcard observers); otherwise the records appended are one per OnRemoveRelations observer whose specification fires for (mask, the relation components whose target CHANGES), then one per OnAddRelations observer likewise -/
theorem rel_setRelations_callbacks : type_of% @Ark.Props.C08Rel.setRelations_callbacks := @Ark.Props.C08Rel.setRelations_callbacks

/-- the change set: the relation components named whose current target differs from the one given -/
theorem rel_changedRels_iff : type_of% @Ark.Props.C08Rel.changedRels_iff := @Ark.Props.C08Rel.changedRels_iff

/-- which observers fire in a relation round: the documented rule on event type, For (⊆ changed components), With/Without/Exclusive -/
theorem rel_firingRel_iff : type_of% @Ark.Props.C08Rel.firingRel_iff := @Ark.Props.C08Rel.firingRel_iff

/-- each firing observer is notified exactly once -/
theorem rel_setRelations_exactly_once : type_of% @Ark.Props.C08Rel.setRelations_exactly_once := @Ark.Props.C08Rel.setRelations_exactly_once

/-- whether an observer is notified by SetRelations does not depend on the other observers -/
theorem rel_setRelations_observer_independent : type_of% @Ark.Props.C08Rel.setRelations_observer_independent := @Ark.Props.C08Rel.setRelations_observer_independent

/-- entities without relation components never trigger relation observers -/
theorem rel_no_relation_no_relation_observers : type_of% @Ark.Props.C08Rel.no_relation_no_relation_observers := @Ark.Props.C08Rel.no_relation_no_relation_observers

/-- NewEntity with targets: the entity round and the OnAddRelations round (fires exactly when targets are given), on the world after the change -/
theorem rel_newEntity_rel_callbacks : type_of% @Ark.Props.C08Rel.newEntity_rel_callbacks := @Ark.Props.C08Rel.newEntity_rel_callbacks

/-- Add with relation components: the component round and the OnAddRelations round -/
theorem rel_add_rel_callbacks : type_of% @Ark.Props.C08Rel.add_rel_callbacks := @Ark.Props.C08Rel.add_rel_callbacks

/-- Remove of relation components: the component round and the OnRemoveRelations round (fires exactly when a relation component is removed), under one lock, before the change -/
theorem rel_remove_rel_callbacks : type_of% @Ark.Props.C08Rel.remove_rel_callbacks := @Ark.Props.C08Rel.remove_rel_callbacks

/-- RemoveEntity of an entity with relation components (also of a relation target): the entity round and the OnRemoveRelations round, before the change; the clean-up of children neither reads nor writes observers -/
theorem rel_removeEntity_rel_callbacks : type_of% @Ark.Props.C08Rel.removeEntity_rel_callbacks := @Ark.Props.C08Rel.removeEntity_rel_callbacks

/-- RemoveEntity succeeds or fails exactly as without observers, including the clean-up -/
theorem rel_removeEntity_as_without_observers : type_of% @Ark.Props.C08Rel.removeEntity_as_without_observers := @Ark.Props.C08Rel.removeEntity_as_without_observers

/-- exactly once per firing observer, in every relation round -/
theorem rel_relRound_exactly_once : type_of% @Ark.Props.C08Rel.relRound_exactly_once := @Ark.Props.C08Rel.relRound_exactly_once

/-- independence of the other observers, in every relation round -/
theorem rel_relRound_observer_independent : type_of% @Ark.Props.C08Rel.relRound_observer_independent := @Ark.Props.C08Rel.relRound_observer_independent

/-- finding: with all 64 lock bits outstanding SetRelations panics (the lock-cycle hypothesis is needed) -/
theorem rel_lock_hypothesis_necessary : type_of% @Ark.Props.C08Rel.lock_hypothesis_necessary := @Ark.Props.C08Rel.lock_hypothesis_necessary



/-! ### The events of Exchange in worlds with relation components (Props/C08Xchg) -/

/-- Exchange is rejected exactly as without observers, on every access path -/
theorem xrel_exchange_rejected_as_without_observers : type_of% @Ark.Props.C08Xchg.exchange_rejected_as_without_observers := @Ark.Props.C08Xchg.exchange_rejected_as_without_observers

/-- … and accepted exactly as without observers, with the observer-free result up to observers/log/lock pool -/
theorem xrel_exchange_accepted_as_without_observers : type_of% @Ark.Props.C08Xchg.exchange_accepted_as_without_observers := @Ark.Props.C08Xchg.exchange_accepted_as_without_observers

/-- **the callbacks of Exchange(e, add, rem, targets)**: a removal round under one lock — the OnRemoveComponents observers whose specification fires (if rem is non-empty), then the OnRemoveRelations observers (if a relation component is removed) —, the move, then the OnAddComponents observers (if add is non-empty) and the OnAddRelations observers (if targets are given) -/
theorem xrel_exchange_callbacks : type_of% @Ark.Props.C08Xchg.exchange_callbacks := @Ark.Props.C08Xchg.exchange_callbacks

/-- all four rounds are evaluated on one pair of masks: the entity's mask before the call and its mask after the complete exchange -/
theorem xrel_exchange_masks : type_of% @Ark.Props.C08Xchg.exchange_masks := @Ark.Props.C08Xchg.exchange_masks

/-- a removal observer fires iff its For components are among the removed ones (or it has none) and With/Without/Exclusive hold for the mask BEFORE the call -/
theorem xrel_fires_remove_iff : type_of% @Ark.Props.C08Xchg.fires_remove_iff := @Ark.Props.C08Xchg.fires_remove_iff

/-- an addition observer fires iff its For components are among the added ones (or it has none) and With/Without/Exclusive hold for the mask BEFORE the call (as documented: 'had before the operation') -/
theorem xrel_fires_add_iff : type_of% @Ark.Props.C08Xchg.fires_add_iff := @Ark.Props.C08Xchg.fires_add_iff

/-- each firing observer is notified exactly once -/
theorem xrel_exchange_exactly_once : type_of% @Ark.Props.C08Xchg.exchange_exactly_once := @Ark.Props.C08Xchg.exchange_exactly_once

/-- whether an observer is notified does not depend on the other observers (all four rounds) -/
theorem xrel_exchange_observer_independent : type_of% @Ark.Props.C08Xchg.exchange_observer_independent := @Ark.Props.C08Xchg.exchange_observer_independent

/-- the access path matters only when nothing is added: Unsafe.Exchange then skips both addition rounds, the typed path notifies the OnAddComponents observers without For -/
theorem xrel_path_matters_only_for_pure_removals : type_of% @Ark.Props.C08Xchg.path_matters_only_for_pure_removals := @Ark.Props.C08Xchg.path_matters_only_for_pure_removals

/-- finding: with all 64 lock bits outstanding an exchange with removals and a removal observer panics (the lock-cycle hypothesis is needed) -/
theorem xrel_lock_hypothesis_necessary : type_of% @Ark.Props.C08Xchg.lock_hypothesis_necessary := @Ark.Props.C08Xchg.lock_hypothesis_necessary


end Ark.Props.C08Top
