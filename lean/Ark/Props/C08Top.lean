/-
  Ark.Props.C08Top — the world-level theorems of C08 (Props/C08World), restated.  They live in their
  own module because the proofs behind them import Props/C08.lean (the manager-level theorems);
  the check builds and audits Props/C08.lean, this file and (if present) Props/C08Src.lean.
-/
import Ark.Props.C08
import Ark.Props.C08World

namespace Ark.Props.C08Top
open Ark

/-! ### World level (Props/C08World): which callbacks each operation runs -/

/-- for a read-only probe runner `dispatch` is a filter of the observer list: it logs, in slice order, one `cb` record (and the script's records) per observer whose predicate holds, changes nothing else, and reports whether any ran -/
theorem world_dispatch_is_filter : type_of% @Ark.Props.C08World.dispatch_is_filter := @Ark.Props.C08World.dispatch_is_filter

/-- the observers an event notifies are exactly those registered for the event type whose specification satisfies the documented rule `Spec.fires` -/
theorem world_firing_iff : type_of% @Ark.Props.C08World.firing_iff := @Ark.Props.C08World.firing_iff

/-- each selected observer appears once in the records of an operation, every other observer never -/
theorem world_firing_exactly_once : type_of% @Ark.Props.C08World.firing_exactly_once := @Ark.Props.C08World.firing_exactly_once

/-- **C08** for `add`: the call succeeds exactly as without observers and yields the observer-free result up to `obs`/`log`/lock pool; the `cb` records it appends are exactly the observers selected by the documented rule for this operation's event(s), once each, for the affected entity -/
theorem world_add_callbacks : type_of% @Ark.Props.C08World.add_callbacks := @Ark.Props.C08World.add_callbacks

/-- **C08** for `remove`: the call succeeds exactly as without observers and yields the observer-free result up to `obs`/`log`/lock pool; the `cb` records it appends are exactly the observers selected by the documented rule for this operation's event(s), once each, for the affected entity -/
theorem world_remove_callbacks : type_of% @Ark.Props.C08World.remove_callbacks := @Ark.Props.C08World.remove_callbacks

/-- **C08** for `exchange`: the call succeeds exactly as without observers and yields the observer-free result up to `obs`/`log`/lock pool; the `cb` records it appends are exactly the observers selected by the documented rule for this operation's event(s), once each, for the affected entity -/
theorem world_exchange_callbacks : type_of% @Ark.Props.C08World.exchange_callbacks := @Ark.Props.C08World.exchange_callbacks

/-- **C08** for `newEntity`: the call succeeds exactly as without observers and yields the observer-free result up to `obs`/`log`/lock pool; the `cb` records it appends are exactly the observers selected by the documented rule for this operation's event(s), once each, for the affected entity -/
theorem world_newEntity_callbacks : type_of% @Ark.Props.C08World.newEntity_callbacks := @Ark.Props.C08World.newEntity_callbacks

/-- **C08** for `newEntity0`: the call succeeds exactly as without observers and yields the observer-free result up to `obs`/`log`/lock pool; the `cb` records it appends are exactly the observers selected by the documented rule for this operation's event(s), once each, for the affected entity -/
theorem world_newEntity0_callbacks : type_of% @Ark.Props.C08World.newEntity0_callbacks := @Ark.Props.C08World.newEntity0_callbacks

/-- **C08** for `removeEntity`: the call succeeds exactly as without observers and yields the observer-free result up to `obs`/`log`/lock pool; the `cb` records it appends are exactly the observers selected by the documented rule for this operation's event(s), once each, for the affected entity -/
theorem world_removeEntity_callbacks : type_of% @Ark.Props.C08World.removeEntity_callbacks := @Ark.Props.C08World.removeEntity_callbacks

/-- **C08** for `set`: the call succeeds exactly as without observers and yields the observer-free result up to `obs`/`log`/lock pool; the `cb` records it appends are exactly the observers selected by the documented rule for this operation's event(s), once each, for the affected entity -/
theorem world_set_callbacks : type_of% @Ark.Props.C08World.set_callbacks := @Ark.Props.C08World.set_callbacks

/-- **C08** for `copyEntity`: the call succeeds exactly as without observers and yields the observer-free result up to `obs`/`log`/lock pool; the `cb` records it appends are exactly the observers selected by the documented rule for this operation's event(s), once each, for the affected entity -/
theorem world_copyEntity_callbacks : type_of% @Ark.Props.C08World.copyEntity_callbacks := @Ark.Props.C08World.copyEntity_callbacks

/-- **C08** for `emit`: the call succeeds exactly as without observers and yields the observer-free result up to `obs`/`log`/lock pool; the `cb` records it appends are exactly the observers selected by the documented rule for this operation's event(s), once each, for the affected entity -/
theorem world_emit_callbacks : type_of% @Ark.Props.C08World.emit_callbacks := @Ark.Props.C08World.emit_callbacks

/-- whether an observer is notified by an operation does not depend on which other observers are registered -/
theorem world_observer_independent : type_of% @Ark.Props.C08World.observer_independent := @Ark.Props.C08World.observer_independent

/-- registering another observer keeps the setting, keeps whether `l` is listed and keeps every specification -/
theorem world_register_other_independent_reachable : type_of% @Ark.Props.C08World.register_other_independent_reachable := @Ark.Props.C08World.register_other_independent_reachable

/-- … and so does unregistering another observer (only the ORDER of callbacks may change: swap-remove) -/
theorem world_unregister_other_independent_reachable : type_of% @Ark.Props.C08World.unregister_other_independent_reachable := @Ark.Props.C08World.unregister_other_independent_reachable

/-- `Register` establishes/keeps the observer-manager invariants -/
theorem world_register_keeps_setting : type_of% @Ark.Props.C08World.register_keeps_setting := @Ark.Props.C08World.register_keeps_setting

/-- `Unregister` keeps them -/
theorem world_unregister_keeps_setting : type_of% @Ark.Props.C08World.unregister_keeps_setting := @Ark.Props.C08World.unregister_keeps_setting

/-- the manager's bookkeeping invariant (IDs never recycled, unique, index ↔ object) holds initially -/
theorem world_bookkeeping_init : type_of% @Ark.Props.C08World.bookkeeping_init := @Ark.Props.C08World.bookkeeping_init

/-- … is kept by `Register` -/
theorem world_register_keeps_bookkeeping : type_of% @Ark.Props.C08World.register_keeps_bookkeeping := @Ark.Props.C08World.register_keeps_bookkeeping

/-- … and by `Unregister` -/
theorem world_unregister_keeps_bookkeeping : type_of% @Ark.Props.C08World.unregister_keeps_bookkeeping := @Ark.Props.C08World.unregister_keeps_bookkeeping

/-- finding: with all 64 lock bits outstanding a removal with observers panics `outOfLocks` (not reachable) -/
theorem world_lock_hypothesis_necessary : type_of% @Ark.Props.C08World.lock_hypothesis_necessary := @Ark.Props.C08World.lock_hypothesis_necessary

/-- finding: a callback that changes the world (e.g. creates an entity) is outside the theorem: the statement is for read-only callbacks -/
theorem world_readOnly_necessary : type_of% @Ark.Props.C08World.readOnly_necessary := @Ark.Props.C08World.readOnly_necessary


end Ark.Props.C08Top
