import Ark.Proofs.ShrinkInv

namespace Ark.Props.C15World
open Ark Ark.World

/-! C15 — Shrink is invisible and convergent (world level).

    `opShrink bounded` is Go's `storage.Shrink` (`bounded` = `stopAfter == 0`: stop after the
    first table where work was found).  On an unlocked world it equals the pure, structurally
    recursive `shrinkPure` (`shrink_is_pure`), whose loop step `shrinkStep w t` shrinks table `t`
    and, if it is an active empty relation table, frees it.

    Vocabulary (all defined in `Ark/Proofs/ShrinkInv.lean`):
    * `World.minCap w T` — `initCapRel` for a table with relations, `initCap` otherwise;
    * `World.freeable T` — `T` has relations, is active and empty;
    * `World.hasWork w t` — `tableHasWork` of table `t`; `World.work w` — number of such tables;
    * `World.ShrinkRel w w'` — what Shrink may change (see `shrinkRel_*`);
    * `World.RowsBounded w` — every table has fewer than `2^32` rows (Go's `uint32` row indices;
      the model's `capPow2` doubles at most 33 times);
    * `World.shrinkIter fuel w` — call the bounded Shrink until it returns `false`.

    Hypotheses: the world is unlocked (`Shrink` on a locked world panics: `C15.shrink_locked`);
    the entity-index invariant `IdxInv` (it supplies the zero tail of the columns, without which
    re-allocating a column WOULD change cells beyond `len`) and `RowsBounded` for parts 1 and 3;
    `SInv`, `RInv` (and `CacheInv`) for part 2; nothing beyond "unlocked" for part 4. -/

/-! ### the pure reformulation -/

/-- the monadic loop of `storage.Shrink` is the pure recursion -/
theorem shrink_is_pure (bounded : Bool) (w : World) (hl : w.isLocked = false) :
    opShrink bounded w = .ok (shrinkPure w bounded).2 (shrinkPure w bounded).1 :=
  World.opShrink_eq bounded w hl

/-- the loop step in normal form -/
theorem shrinkStep_eq : type_of% @World.shrinkStep_eq := @World.shrinkStep_eq

/-- the work predicate is "can shrink below the minimum-respecting bound, or is freeable" -/
theorem tableHasWork_eq (w : World) (T : Table) :
    w.tableHasWork T = (T.canShrink (w.minCap T) || freeable T) :=
  World.tableHasWork_eq w T

/-! ### 1. invisible -/

/-- **Shrink is invisible.**  On an unlocked world with the index invariant `Shrink` succeeds,
    keeps the index invariant, the entity index and the pool; every entity ID has the same
    component set and the same values; every table keeps `len`, `ids`, relation targets, the
    entity rows in use and all component cells (those beyond `len` are still zero); capacities
    do not grow and still hold all rows; `isFree` is at most set. -/
theorem shrink_invisible {w : World} (bounded : Bool) (hl : w.isLocked = false) (h : IdxInv w)
    (hb : RowsBounded w) :
    ∃ (b : Bool) (w' : World), opShrink bounded w = .ok b w' ∧ IdxInv w' ∧ ShrinkRel w w' ∧
      w'.entities = w.entities ∧ w'.pool = w.pool ∧ w'.isLocked = false ∧
      (∀ (i : Nat) (c : Comp), C01World.valOf w' i c = C01World.valOf w i c) ∧
      (∀ (i : Nat), C01World.compsOf w' i = C01World.compsOf w i) ∧
      w'.tables.length = w.tables.length ∧
      ∀ (t : Nat), (w'.tbl t).len = (w.tbl t).len ∧ (w'.tbl t).ids = (w.tbl t).ids ∧
        (w'.tbl t).targets = (w.tbl t).targets ∧ (w'.tbl t).relIDs = (w.tbl t).relIDs ∧
        (w'.tbl t).cap ≤ (w.tbl t).cap ∧ (w'.tbl t).len ≤ (w'.tbl t).cap ∧
        (∀ (r : Nat), r < (w.tbl t).len → (w'.tbl t).getEntity r = (w.tbl t).getEntity r) ∧
        (∀ (i r : Nat), (w'.tbl t).cell i r = (w.tbl t).cell i r) ∧
        (∀ (i r : Nat), (w'.tbl t).len ≤ r → (w'.tbl t).cell i r = 0) ∧
        ((w.tbl t).isFree = true → (w'.tbl t).isFree = true) :=
  World.shrink_invisible bounded hl h hb

/-- nothing outside the table store, the archetype store and the cache changes -/
theorem shrinkRel_frame {w w' : World} (h : ShrinkRel w w') :
    ∃ (ts : List Table) (as : List Archetype) (c : Cache),
      w' = { w with tables := ts, archetypes := as, cache := c } := h.frame

/-- per table: everything but `cap`, the dead part of the entity column and `isFree` is kept;
    `isFree` changes only for an active empty relation table, and only to `true` -/
theorem shrinkRel_table {w w' : World} (h : ShrinkRel w w') (t : Nat) :
    (w'.tbl t).id = (w.tbl t).id ∧ (w'.tbl t).arch = (w.tbl t).arch ∧
    (w'.tbl t).ids = (w.tbl t).ids ∧ (w'.tbl t).isRel = (w.tbl t).isRel ∧
    (w'.tbl t).zst = (w.tbl t).zst ∧ (w'.tbl t).targets = (w.tbl t).targets ∧
    (w'.tbl t).relIDs = (w.tbl t).relIDs ∧ (w'.tbl t).len = (w.tbl t).len ∧
    (w'.tbl t).cap ≤ (w.tbl t).cap ∧
    (∀ (r : Nat), r < (w.tbl t).len → (w'.tbl t).getEntity r = (w.tbl t).getEntity r) ∧
    (∀ (i r : Nat), (w'.tbl t).cell i r = (w.tbl t).cell i r) ∧
    ((w'.tbl t).isFree = (w.tbl t).isFree ∨
      (freeable (w.tbl t) = true ∧ (w'.tbl t).isFree = true)) ∧
    ((w'.tbl t).cap = (w.tbl t).cap ∨
      (w'.tbl t).cap = max (capPow2 (w.tbl t).len) (w.minCap (w.tbl t))) :=
  let r := h.tbl t
  ⟨r.id, r.arch, r.ids, r.isRel, r.zst, r.targets, r.relIDs, r.len, r.cap_le, r.ent, r.cell, r.free,
    h.capEq t⟩

/-- archetypes keep `id`, `mask`, column layout; the cache keeps its ID map, its ID pool and the
    `(id, filter, relations)` of every entry (only table lists change) -/
theorem shrinkRel_arch_cache {w w' : World} (h : ShrinkRel w w') :
    w'.archetypes.length = w.archetypes.length ∧
    (∀ (a : Nat), (w'.arch a).id = (w.arch a).id ∧ (w'.arch a).mask = (w.arch a).mask ∧
      (w'.arch a).comps = (w.arch a).comps ∧ (w'.arch a).isRel = (w.arch a).isRel ∧
      (w'.arch a).zst = (w.arch a).zst ∧ (w'.arch a).numRel = (w.arch a).numRel) ∧
    w'.cache.indices = w.cache.indices ∧ w'.cache.pool = w.cache.pool ∧
    w'.cacheKeys = w.cacheKeys :=
  ⟨h.alen, fun a => let r := h.arch a; ⟨r.id, r.mask, r.comps, r.isRel, r.zst, r.numRel⟩,
    h.cacheIdx, h.cachePool, h.cacheKeys⟩

/-- relation targets and liveness as an observer reads them -/
theorem shrinkRel_getRelation {w w' : World} (h : ShrinkRel w w') (t : Nat) (c : Comp) :
    (w'.tbl t).getRelation c = (w.tbl t).getRelation c := (h.tbl t).getRelation c

theorem shrinkRel_alive {w w' : World} (h : ShrinkRel w w') (e : Ent) :
    w'.alive e = w.alive e := h.alive e

/-! ### 2. keeps the structure -/

/-- **Shrink keeps the structural invariant, the relation-index invariant and the cache
    invariant**: a freed table leaves the per-target lookups (`FreeTable` +
    `removeTableRelations`, repaired defect D1) and the cached filters (`cache.removeTable`). -/
theorem shrink_keeps_structure {w : World} (bounded : Bool) (hl : w.isLocked = false)
    (h : SInv w) (hr : RInv w) :
    ∃ (b : Bool) (w' : World), opShrink bounded w = .ok b w' ∧ SInv w' ∧ RInv w' ∧
      (CacheInv w → CacheInv w') :=
  World.shrink_keeps_structure bounded hl h hr

/-- one loop step keeps all three -/
theorem shrinkStep_struct : type_of% @World.shrinkStep_struct := @World.shrinkStep_struct

/-! ### 3. capacities after the unbounded call -/

/-- **After `Shrink` with a budget that does not run out** the flag is `false`, no table has
    work: `len ≤ cap ≤ max (capPow2 len) minCap`; the capacity is the old one if that was within
    the bound and exactly the bound otherwise; no active relation table is empty. -/
theorem shrink_caps {w : World} (hl : w.isLocked = false) (h : IdxInv w) (hb : RowsBounded w) :
    ∃ (w' : World), opShrink false w = .ok false w' ∧ work w' = 0 ∧
      ∀ (t : Nat),
        (w'.tbl t).len ≤ (w'.tbl t).cap ∧
        (w'.tbl t).cap ≤ max (capPow2 (w'.tbl t).len) (w'.minCap (w'.tbl t)) ∧
        (w'.tbl t).cap =
          (if (w.tbl t).cap ≤ max (capPow2 (w.tbl t).len) (w.minCap (w.tbl t)) then (w.tbl t).cap
           else max (capPow2 (w.tbl t).len) (w.minCap (w.tbl t))) ∧
        freeable (w'.tbl t) = false ∧ w'.hasWork t = false :=
  World.shrink_caps hl h hb

/-- the unbounded call returns `false` and leaves no work — no invariant needed -/
theorem shrink_unbounded_no_work (w : World) (hl : w.isLocked = false) :
    ∃ (w' : World), opShrink false w = .ok false w' ∧ work w' = 0 := by
  obtain ⟨h1, h2⟩ := World.shrinkPure_unbounded w
  exact ⟨_, by rw [World.opShrink_eq false w hl, h1], h2⟩

/-- "no work" spelled out -/
theorem hasWork_false_iff (w : World) (t : Nat) :
    w.hasWork t = false ↔
      (w.tbl t).cap ≤ max (capPow2 (w.tbl t).len) (w.minCap (w.tbl t)) ∧
        freeable (w.tbl t) = false :=
  World.hasWork_false_iff w t

/-! ### 4. exact flag, progress, convergence -/

/-- **The returned flag of a bounded call is exact**: `true` iff some table still has work. -/
theorem shrink_result_exact {w : World} (hl : w.isLocked = false) :
    ∃ (b : Bool) (w' : World), opShrink true w = .ok b w' ∧
      (b = true ↔ ∃ (t : Nat), t < w'.tables.length ∧ w'.tableHasWork (w'.tbl t) = true) ∧
      (b = true ↔ 0 < work w') :=
  World.shrink_result_exact hl

/-- the bounded call does nothing, or performs exactly one step, on the first table with work;
    the flag is "some later table has work" (those tables are untouched) -/
theorem shrink_bounded_one_step (w : World) :
    (work w = 0 ∧ shrinkPure w true = (w, false)) ∨
    ∃ (t : Nat), t < w.tables.length ∧ (∀ (p : Nat), p < t → w.hasWork p = false) ∧
      w.hasWork t = true ∧ (shrinkPure w true).1 = (shrinkStep w t).1 ∧
      (shrinkPure w true).2 = (List.range (w.tables.length - (t + 1))).any
        fun k => w.hasWork (t + 1 + k) :=
  World.shrinkPure_bounded w

/-- **Progress**: a bounded call on a world with work strictly decreases `work` (by one); on a
    world without work neither kind of call changes anything and both return `false`. -/
theorem shrink_progress {w : World} (hl : w.isLocked = false) :
    (0 < work w → ∃ (b : Bool) (w' : World), opShrink true w = .ok b w' ∧ work w' + 1 = work w) ∧
    (work w = 0 → ∀ (bounded : Bool), opShrink bounded w = .ok false w) :=
  World.shrink_progress hl

/-- **Convergence**: iterating the bounded call (fuel `work w + 1`; `max (work w) 1` calls are
    made) ends with the flag `false` in a world without work, a fixed point of both kinds of
    call, that the start world is related to as in part 1. -/
theorem shrink_converges {w : World} (hl : w.isLocked = false) (h : IdxInv w) (hb : RowsBounded w) :
    (shrinkIter (work w + 1) w).2 = false ∧ work (shrinkIter (work w + 1) w).1 = 0 ∧
    (∀ (bounded : Bool), opShrink bounded (shrinkIter (work w + 1) w).1 =
      .ok false (shrinkIter (work w + 1) w).1) ∧
    IdxInv (shrinkIter (work w + 1) w).1 ∧ ShrinkRel w (shrinkIter (work w + 1) w).1 :=
  World.shrink_converges hl h hb

/-- the fuel bound alone (no invariant needed) -/
theorem shrink_converges_fuel {w : World} (hl : w.isLocked = false) (k : Nat) (hk : work w ≤ k)
    (hpos : 0 < k) : (shrinkIter k w).2 = false ∧ work (shrinkIter k w).1 = 0 :=
  World.shrink_converges_fuel hl k hk hpos

/-- the structural invariants at the end of the iteration -/
theorem shrink_converges_structure {w : World} (hl : w.isLocked = false) (h : SInv w) (hr : RInv w)
    (hc : CacheInv w) :
    SInv (shrinkIter (work w + 1) w).1 ∧ RInv (shrinkIter (work w + 1) w).1 ∧
      CacheInv (shrinkIter (work w + 1) w).1 :=
  World.shrink_converges_structure hl h hr hc

/-! ### 5. a concrete run

    `NewWorld(1, 1)`, a plain component 0 and a relation component 1; table 0 (no components)
    grew to capacity 8 and holds 3 entities; relation table 1 (target `p1`, alive) grew to
    capacity 8 and is empty; relation table 2 (target `p2`) has capacity 4 and one entity (ID 15)
    with value 42. -/

open World.ShrinkDemo in
/-- the start: three tables with work, unlocked; entity 15 has components `[0, 1]`, value 42 -/
example :
    summary w0 = [(3, 8, false, 0), (0, 8, false, 1), (1, 4, false, 1)] ∧
    work w0 = 3 ∧ w0.isLocked = false ∧ w0.initCap = 1 ∧ w0.initCapRel = 1 ∧
    w0.alive ⟨2, 0⟩ = true ∧ ((w0.tbl 1).targets.map (·.id)) = [0, 2] ∧
    (w0.arch 1).tables.tables = [1, 2] ∧ (w0.arch 1).freeTables = [] ∧
    C01World.valOf w0 15 0 = some 42 ∧ C01World.compsOf w0 15 = some [0, 1] := by
  decide +kernel

open World.ShrinkDemo in
/-- three bounded calls: `true` (table 0: 8 → 4), `true` (table 1: 8 → 1 and freed — its target
    is alive), `false` (table 2: 4 → 1); a fourth call changes nothing -/
example :
    (callBounded w0).2 = some true ∧
      summary w1 = [(3, 4, false, 0), (0, 8, false, 1), (1, 4, false, 1)] ∧ work w1 = 2 ∧
    (callBounded w1).2 = some true ∧
      summary w2 = [(3, 4, false, 0), (0, 1, true, 1), (1, 4, false, 1)] ∧ work w2 = 1 ∧
    (callBounded w2).2 = some false ∧
      summary w3 = [(3, 4, false, 0), (0, 1, true, 1), (1, 1, false, 1)] ∧ work w3 = 0 ∧
    (callBounded w3).2 = some false ∧ (callBounded w3).1.tables = w3.tables ∧
    (callUnbounded w3).2 = some false ∧ (callUnbounded w3).1.tables = w3.tables := by
  decide +kernel

open World.ShrinkDemo in
/-- the freed table left the archetype's table list, the per-target lookups and entered the free
    list; entities, values and the alive target are as before -/
example :
    (w3.arch 1).tables.tables = [2] ∧ (w3.arch 1).freeTables = [1] ∧
    (w3.arch 1).getTables [⟨1, ⟨2, 0⟩⟩] = some [] ∧ (w0.arch 1).getTables [⟨1, ⟨2, 0⟩⟩] = some [1] ∧
    (w3.arch 1).getTables [⟨1, ⟨3, 0⟩⟩] = some [2] ∧
    w3.entities = w0.entities ∧ w3.pool = w0.pool ∧ w3.alive ⟨2, 0⟩ = true ∧
    C01World.valOf w3 15 0 = some 42 ∧ C01World.compsOf w3 15 = some [0, 1] ∧
    (List.range 20).all (fun i => decide (C01World.valOf w3 i 0 = C01World.valOf w0 i 0) &&
      decide (C01World.compsOf w3 i = C01World.compsOf w0 i)) = true := by
  decide +kernel

open World.ShrinkDemo in
/-- the unbounded call: flag `false`, the same tables and archetypes as after the iteration;
    `shrinkIter` with fuel `work w0 + 1 = 4` reaches the same world with the flag `false` -/
example :
    (callUnbounded w0).2 = some false ∧ wU.tables = w3.tables ∧ wU.archetypes = w3.archetypes ∧
    work wU = 0 ∧
    (shrinkIter 4 w0).2 = false ∧ (shrinkIter 4 w0).1.tables = w3.tables ∧
    (shrinkIter 3 w0).2 = false ∧ (shrinkIter 2 w0).2 = true := by
  decide +kernel

end Ark.Props.C15World
