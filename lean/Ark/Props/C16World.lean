/-
  C16 (world level) — Reset returns the world to a reusable empty state.

  Definitions (Ark/Proofs/ResetInv.lean): `EmptyState w` (what is left after `Reset`: the two
  reserved index entries, the initial pool core with invalidated memory behind it, empty zeroed
  tables, relation archetypes with all tables on the free list and empty relation indices,
  non-relation archetypes with their one table, empty cache, no registered filter or observer
  object, clear lock, no resources), `ResetPost w w'` (`EmptyState w'` + all invariants and side
  conditions again + registry untouched + no old handle alive), `LikeFresh w' f` (agreement with
  a new world at the level later operations observe).

  Hypotheses.  Besides `SInv`, `IdxInv`, `RInv`, `CacheInv` and "the world is unlocked":
    * `FreeEmpty w`  — tables on a free list are empty (`Reset` does not touch free tables);
    * `Reserved w`   — pool slots 0/1 hold the sentinel generation, index entries 0/1 point at no
                       table, `isTarget` has them;
    * `StaleOK w`    — the memory behind the pool slice only holds the sentinel generation (D14);
    * `ObsBound w`   — `maxEventType` bounds the event types with observers (loop bound, D6);
    * `ObsReg w`     — a registered observer object is listed under its event type, and an empty
                       id map means no observers (the early return of `observerManager.Reset`);
    * `FilterReg w`  — a filter object marked as cached refers to a cache entry (with `CacheInv`:
                       the early return of `cache.Reset`).
  All of them hold in a new world (`reset_hyps_init`) and again after `Reset` (`ResetPost`), so
  `Reset` can be iterated.  Each of the last five is necessary: §4 has one concrete world per
  hypothesis on which `Reset` does not reach the empty state.

  What is NOT proved: that every later history has the same outcome in `w'` as in a new world
  with the same registrations.  `reset_like_fresh` states the agreement on the pool core (same
  handles from any number of creations), liveness, lock, cache, observers, resources and that
  every query is empty.  Deliberate differences that remain: components, archetypes, tables,
  filter objects and observer objects stay registered; table capacities are kept; and — small
  observations about the Go code, reachable — cache and observer IDs are never recycled and
  their pools are only reset when something is registered at the time of `Reset`
  (`reset_keeps_cache_id_pool`, `reset_keeps_observer_id_pool`).  An observer whose `Register`
  panicked used to keep an ID through `Reset` (defect D20, found while proving `ObsReg`; repaired:
  `failed_register_keeps_no_id`).
-/
import Ark.Proofs.ResetInv
import Ark.Model.Ops

namespace Ark.Props.C16World
open Ark Ark.World

/-! ### 1. `Reset` as a function, and what it establishes -/

/-- on an unlocked world `Reset` succeeds; its result is the pure function `resetW` -/
theorem reset_succeeds : type_of% @World.opReset_eq := @World.opReset_eq

/-- the archetype loop: relation archetypes become `FreeAllTables` of themselves … -/
theorem reset_archetypes : type_of% @World.resetW_archetypes := @World.resetW_archetypes

/-- … active tables are reset (and marked free in relation archetypes), free tables untouched -/
theorem reset_tables : type_of% @World.resetW_tables := @World.resetW_tables

/-- **C16.**  `Reset` on an unlocked world satisfying the invariants succeeds and leaves the
    empty state `EmptyState w'`, with `SInv`, `IdxInv`, `RInv`, `CacheInv` and all side conditions
    re-established, the registry untouched (`kinds`, configuration, per archetype `id`, `mask`,
    `comps`, `isRel`, `zst`; per table `id`, `arch`, `ids`, `cap`) and no handle of the previous
    epoch alive (`ResetPost`). -/
theorem reset_establishes (w : World) (hl : w.isLocked = false) (hS : SInv w) (hI : IdxInv w)
    (hR : RInv w) (hC : CacheInv w) (hFE : FreeEmpty w) (hRes : Reserved w) (hSt : StaleOK w)
    (hOB : ObsBound w) (hOR : ObsReg w) (hFR : FilterReg w) :
    ∃ (w' : World), opReset w = .ok () w' ∧ ResetPost w w' :=
  Ark.reset_establishes w hl hS hI hR hC hFE hRes hSt hOB hOR hFR

/-- the single conclusions, for use without the record -/
theorem reset_emptyState : type_of% @EmptyState.resetW := @EmptyState.resetW
theorem reset_sinv : type_of% @SInv.resetW := @SInv.resetW
theorem reset_idxInv : type_of% @IdxInv.resetW := @IdxInv.resetW
theorem reset_rinv : type_of% @RInv.resetW := @RInv.resetW

/-- no handle of the previous epoch is alive after `Reset` (world level) -/
theorem reset_kills_old_handles (w : World) (hl : w.isLocked = false) (hS : SInv w) (hI : IdxInv w)
    (hR : RInv w) (hC : CacheInv w) (hFE : FreeEmpty w) (hRes : Reserved w) (hSt : StaleOK w)
    (hOB : ObsBound w) (hOR : ObsReg w) (hFR : FilterReg w) :
    ∃ (w' : World), opReset w = .ok () w' ∧
      ∀ (h : Ent), 2 ≤ h.id → h.gen ≠ maxU32 → w'.alive h = false := by
  obtain ⟨w', h1, h2⟩ := Ark.reset_establishes w hl hS hI hR hC hFE hRes hSt hOB hOR hFR
  exact ⟨w', h1, h2.dead⟩

/-- the hypotheses hold in a new world -/
theorem reset_hyps_init : type_of% @Ark.reset_hyps_init := @Ark.reset_hyps_init

/-- hence `Reset` of a new world, and `Reset` after `Reset`, establish the empty state -/
theorem reset_twice (cap relCap maxComps : Nat) :
    ∃ (w1 w2 : World), opReset (World.init cap relCap maxComps) = .ok () w1 ∧
      opReset w1 = .ok () w2 ∧ EmptyState w1 ∧ EmptyState w2 := by
  obtain ⟨hl, hS, hI, hR, hC, hFE, hRes, hSt, hOB, hOR, hFR⟩ := Ark.reset_hyps_init cap relCap maxComps
  obtain ⟨w1, h1, p1⟩ := Ark.reset_establishes _ hl hS hI hR hC hFE hRes hSt hOB hOR hFR
  have hl1 : w1.isLocked = false := by
    simp only [World.isLocked, Lock.isLocked, p1.empty.unlocked]; rfl
  obtain ⟨w2, h2, p2⟩ := Ark.reset_establishes w1 hl1 p1.sinv p1.idx p1.rinv p1.cache p1.freeEmpty
    p1.reserved p1.stale p1.obsBound p1.obsReg p1.filterReg
  exact ⟨w1, w2, h1, h2, p1.empty, p2.empty⟩

/-! ### 2. the observer manager -/

/-- `observerManager.Reset` unregisters every observer, provided `maxEventType` bounds the
    observed event types and registered observers are listed -/
theorem observers_reset_clears : type_of% @ObsMgr.reset_clears := @ObsMgr.reset_clears

/-- `maxEventType` bounds the observed event types: invariant of `AddObserver` … -/
theorem obsBound_addObserver : type_of% @ObsMgr.Bound.addComputed := @ObsMgr.Bound.addComputed

/-- … and of `RemoveObserver` (of a registered observer) -/
theorem obsBound_removeObserver : type_of% @ObsMgr.Bound.removeAt := @ObsMgr.Bound.removeAt

/-! ### 3. the reset world and a new world -/

/-- a world in the empty state agrees with a new world on everything `LikeFresh` lists -/
theorem emptyState_like_fresh : type_of% @EmptyState.likeFresh := @EmptyState.likeFresh

/-- **`Reset` vs. a new world with the same configuration**: same pool core — so the same
    handles are issued by the same sequence of creations (`handles`, `nextHandle`) —, no alive
    entity, same lock state and next lock bit, empty cache, no observers, no resources; all
    tables are empty, so the uncached walk `getCacheTables` of every filter selects only empty
    tables, every query counts 0 and visits no row. -/
theorem reset_like_fresh (w : World) (hl : w.isLocked = false) (hS : SInv w) (hI : IdxInv w)
    (hR : RInv w) (hC : CacheInv w) (hFE : FreeEmpty w) (hRes : Reserved w) (hSt : StaleOK w)
    (hOB : ObsBound w) (hOR : ObsReg w) (hFR : FilterReg w) :
    ∃ (w' : World), opReset w = .ok () w' ∧
      LikeFresh w' (World.init w.initCap w.initCapRel w.maxComps) :=
  Ark.reset_like_fresh w hl hS hI hR hC hFE hRes hSt hOB hOR hFR

/-- in a world whose tables are all empty every query counts 0 and visits no row (applies to
    the reset world also while a query holds the lock) -/
theorem empty_world_queries_count_zero : type_of% @allEmpty_count := @allEmpty_count
theorem empty_world_queries_visit_nothing : type_of% @allEmpty_expected := @allEmpty_expected

/-- the component-free fragment: `WInv` (with "no memory behind the pool slice" weakened to
    "only invalidated memory", `WInvR`) holds again after `Reset`, with the empty free list -/
theorem reset_winv : type_of% @WInv.reset := @WInv.reset

/-! ### 4. non-vacuity: a concrete world -/

section Demo

private def noRun : ProbeRunner := fun _ _ _ => pure ()

/-- Components 0 (plain) and 1 (relation); a filter object "has 0" (label 0), registered;
    observers 10 (`OnCreateEntity`) and 11 (`OnRemoveRelations`, event type 255), registered;
    a resource; entities: two targets `p1 = 2.0`, `p2 = 3.0` in the root table, `4.0` with
    component 0, `5.0` and `6.0` with components 0, 1 and relation targets `p1`, `p2` (two tables
    of the relation archetype), `7.0` created and removed (free list of the pool); one query on
    the registered filter opened and closed. -/
private def setup : W (List Ent) := do
  let _ ← registerComponent {}
  let _ ← registerComponent { isRel := true }
  M.modify fun w => { w with
    filters := [(0, { filter := { mask := Mask.ofList [0] }, ids := [0] })]
    obs := (w.obs.setObj 10 { spec := { event := Ev.onCreateEntity } }).setObj 11
      { spec := { event := Ev.onRemoveRelations, comps := [1] } }
    resources := [(0, 42)], resKinds := 1 }
  opObsRegister 10
  opObsRegister 11
  let p1 ← opNewEntity0 noRun
  let p2 ← opNewEntity0 noRun
  let a ← opNewEntity noRun .unsafe_ [0] [(0, 5)] []
  let c1 ← opNewEntity noRun .unsafe_ [0, 1] [(0, 7)] [⟨1, p1⟩]
  let c2 ← opNewEntity noRun .unsafe_ [0, 1] [(0, 8)] [⟨1, p2⟩]
  let d ← opNewEntity0 noRun
  opRemoveEntity noRun d
  opFilterRegister 0
  let w ← M.get
  let q ← qOpen ((AL.find? w.filters 0).getD {}) []
  let _ ← qClose q
  pure [p1, p2, a, c1, c2, d]

private def isOk {α : Type} : Res World α → Bool
  | .ok _ _ => true
  | .panic _ _ => false

private def value {α : Type} (d : α) : Res World α → α
  | .ok a _ => a
  | .panic _ _ => d

/-- the world before `Reset` -/
private def w0 : World := (setup (World.init 4 2)).state
/-- the world after `Reset` -/
private def w1 : World := (opReset w0).state

private def activeOf (w : World) : List (List Nat) := w.archetypes.map (·.tables.tables)
private def freeOf (w : World) : List (List Nat) := w.archetypes.map (·.freeTables)
private def tgtIdxOf (w : World) : List Nat := w.archetypes.map (·.targetTables.length)
private def relIdxOf (w : World) : List (List Nat) :=
  w.archetypes.map fun A => A.relationTables.map (·.length)
private def lensOf (w : World) : List Nat := w.tables.map (·.len)
private def isFreeOf (w : World) : List Bool := w.tables.map (·.isFree)
private def colsOf (w : World) : List (List (List Val)) := w.tables.map (·.cols)

-- the set-up runs, issues the handles 2.0 … 7.0, and leaves an unlocked, populated world
example : isOk (setup (World.init 4 2)) = true ∧
    value [] (setup (World.init 4 2)) = [⟨2, 0⟩, ⟨3, 0⟩, ⟨4, 0⟩, ⟨5, 0⟩, ⟨6, 0⟩, ⟨7, 0⟩] ∧
    w0.isLocked = false := by decide +kernel

example : w0.entities = [(maxU32, 0), (maxU32, 0), (0, 0), (0, 1), (1, 0), (2, 0), (3, 0), (maxU32, 2)] ∧
    w0.archetypes.map (·.comps) = [[], [0], [0, 1]] ∧ w0.tables.map (·.arch) = [0, 1, 2, 2] ∧
    activeOf w0 = [[0], [1], [2, 3]] ∧ freeOf w0 = [[], [], []] ∧ tgtIdxOf w0 = [0, 0, 2] ∧
    relIdxOf w0 = [[], [0], [0, 2]] ∧ lensOf w0 = [2, 1, 1, 1] ∧
    isFreeOf w0 = [false, false, false, false] ∧
    colsOf w0 = [[], [[5, 0, 0, 0]], [[7, 0], [0, 0]], [[8, 0], [0, 0]]] := by
  decide +kernel

example : w0.cache.indices = [(0, 0)] ∧ w0.cache.filters.map (·.tables.tables) = [[1, 2, 3]] ∧
    w0.filters.map (·.2.cache) = [some 0] ∧
    w0.obs.totalCount = 2 ∧ w0.obs.maxEventType = 255 ∧ w0.obs.hasObservers 255 = true ∧
    w0.obs.hasObservers Ev.onCreateEntity = true ∧
    (w0.obs.obj 10).oid = some 0 ∧ (w0.obs.obj 11).oid = some 1 ∧
    w0.resources = [(0, 42)] ∧ w0.pool.available = 1 ∧ w0.pool.ents.length = 8 ∧
    (w0.alive ⟨2, 0⟩ && w0.alive ⟨5, 0⟩ && w0.alive ⟨6, 0⟩) = true ∧ w0.alive ⟨7, 0⟩ = false := by
  decide +kernel

-- `Reset` succeeds
example : isOk (opReset w0) = true := by decide +kernel

-- no old handle is alive (also not the recycled one with its bumped generation)
example : ([⟨2, 0⟩, ⟨3, 0⟩, ⟨4, 0⟩, ⟨5, 0⟩, ⟨6, 0⟩, ⟨7, 0⟩, ⟨7, 1⟩].map w1.alive).all (· == false)
    = true := by decide +kernel

-- index and pool: only the reserved entries; the memory behind the pool is invalidated;
-- the next handle is 2.0, as in a new world
example : w1.entities = [(maxU32, 0), (maxU32, 0)] ∧ w1.isTarget = [false, false] ∧
    w1.pool.ents = Pool.init.ents ∧ w1.pool.next = 0 ∧ w1.pool.available = 0 ∧
    w1.pool.stale.map (·.gen) = List.replicate 6 maxU32 ∧
    w1.pool.get.2 = ⟨2, 0⟩ ∧ (World.init 4 2).pool.get.2 = ⟨2, 0⟩ := by decide +kernel

-- tables are empty and zeroed; the two tables of the relation archetype are on its free list,
-- its relation indices are empty; the non-relation archetypes keep their table
example : w1.archetypes.map (·.comps) = [[], [0], [0, 1]] ∧ w1.tables.map (·.arch) = [0, 1, 2, 2] ∧
    activeOf w1 = [[0], [1], []] ∧ freeOf w1 = [[], [], [2, 3]] ∧ tgtIdxOf w1 = [0, 0, 0] ∧
    relIdxOf w1 = [[], [0], [0, 0]] ∧ lensOf w1 = [0, 0, 0, 0] ∧
    isFreeOf w1 = [false, false, true, true] ∧
    colsOf w1 = [[], [[0, 0, 0, 0]], [[0, 0], [0, 0]], [[0, 0], [0, 0]]] := by
  decide +kernel

-- cache, filter object, observers, lock, resources
example : w1.cache.indices = [] ∧ w1.cache.filters.length = 0 ∧ w1.filters.map (·.2.cache) = [none] ∧
    w1.obs.totalCount = 0 ∧ w1.obs.maxEventType = 0 ∧ w1.obs.indices = [] ∧
    ((List.range 256).all fun evt => w1.obs.hasObservers evt == false) = true ∧
    (w1.obs.obj 10).oid = none ∧ (w1.obs.obj 11).oid = none ∧
    w1.isLocked = false ∧ w1.resources = [] ∧ w1.kinds.length = 2 := by decide +kernel

-- the registered filter's query (uncached after `Reset`) and the uncached walk find nothing
example : (w1.getCacheTables { mask := Mask.ofList [0] } []).map (·.map fun t => (w1.tbl t).len)
    = some [0] := by decide +kernel

-- the world is usable: the next entity is 2.0, the next relation table is a recycled one
example :
    let r := (do
      let p ← opNewEntity0 noRun
      let c ← opNewEntity noRun .unsafe_ [0, 1] [(0, 9)] [⟨1, p⟩]
      let w ← M.get
      pure (p, c, w.index c.id, (w.arch 2).freeTables) : W _) w1
    isOk r = true ∧ value (Ent.zero, Ent.zero, (0, 0), []) r = (⟨2, 0⟩, ⟨3, 0⟩, (3, 0), [2]) := by
  decide +kernel

/-! ### 5. every added hypothesis is needed; two observations about reachable states -/

/-- `FreeEmpty`: `Reset` does not touch a table on a free list (here: table 1 of a relation
    archetype, on its free list with one row) -/
example :
    let A1 : Archetype := { Archetype.new 1 (Mask.ofList [0]) [0] [true] [false] [] with freeTables := [1] }
    let T1 : Table := { Table.new 1 1 [0] [true] [false] 2 [⟨0, 0⟩] [⟨0, ⟨0, 0⟩⟩] with len := 1, isFree := true }
    let w : World := { World.init 2 2 with
      archetypes := (World.init 2 2).archetypes ++ [A1], tables := (World.init 2 2).tables ++ [T1] }
    isOk (opReset w) = true ∧ ((opReset w).state.tbl 1).len = 1 := by decide +kernel

/-- `CacheInv`: with an empty ID map `cache.Reset` returns early and keeps the entries -/
example :
    let w : World := { World.init 2 2 with
      cache := { filters := [{ id := 0, filter := {}, rels := [], tables := {} }] } }
    (opReset w).state.cache.filters.length = 1 := by decide +kernel

/-- `FilterReg`: a filter object whose cache ID is unknown to the cache stays marked -/
example :
    let w : World := { World.init 2 2 with filters := [(0, { cache := some 5 })] }
    (opReset w).state.filters.map (·.2.cache) = [some 5] := by decide +kernel

/-- `ObsReg`: with an empty ID map `observerManager.Reset` returns early -/
example :
    let w : World := { World.init 2 2 with
      obs := { events := [(249, { observers := [10], hasObservers := true })], maxEventType := 249 } }
    (opReset w).state.obs.hasObservers 249 = true := by decide +kernel

/-- `ObsBound`: event types above `maxEventType` are not visited -/
example :
    let w : World := { World.init 2 2 with
      obs := { events := [(255, { observers := [10], hasObservers := true })], indices := [(0, 0)],
               maxEventType := 3 } }
    (opReset w).state.obs.hasObservers 255 = true := by decide +kernel

/-- a filter registered and unregistered again, then `Reset` -/
private def cacheIdScript : W Unit := do
  M.modify fun w => { w with filters := [(0, {}), (1, {})] }
  opFilterRegister 0
  opFilterRegister 1
  opFilterUnregister 0
  opFilterUnregister 1
  opReset

/-- **Observation (reachable).**  `cache.unregister` never recycles the cache ID, and
    `cache.Reset` returns early when no filter is registered, so the cache's ID pool is NOT
    reset: after `Reset` the first registered filter gets ID 2, in a new world ID 0.  (IDs are
    internal and 32 bits wide; nothing else depends on them.) -/
theorem reset_keeps_cache_id_pool :
    isOk (cacheIdScript (World.init 2 2)) = true ∧
    (cacheIdScript (World.init 2 2)).state.cache.pool ≠ {} ∧
    ((cacheIdScript (World.init 2 2)).state.cache.pool.get).2 = 2 ∧
    ((World.init 2 2).cache.pool.get).2 = 0 := by decide +kernel

/-- an observer registered and unregistered again (twice), then `Reset` -/
private def obsIdScript : W Unit := do
  M.modify fun w => { w with
    obs := (w.obs.setObj 10 { spec := { event := Ev.onCreateEntity } }).setObj 11
      { spec := { event := Ev.onCreateEntity } } }
  opObsRegister 10
  opObsRegister 11
  opObsUnregister 10
  opObsUnregister 11
  opReset

/-- **Observation (reachable).**  The same for the observer manager: `RemoveObserver` never
    recycles the observer ID, and without registered observers `Reset` does not reset the ID pool. -/
theorem reset_keeps_observer_id_pool :
    isOk (obsIdScript (World.init 2 2)) = true ∧
    (obsIdScript (World.init 2 2)).state.obs.pool ≠ {} ∧
    ((obsIdScript (World.init 2 2)).state.obs.pool.get).2 = 2 ∧
    ((World.init 2 2).obs.pool.get).2 = 0 := by decide +kernel

/-- a relation observer on a non-relation component: `Register` panics, the panic is recovered,
    then `Reset` -/
private def badObsScript : W Bool := do
  let _ ← registerComponent {}
  M.modify fun w => { w with
    obs := w.obs.setObj 12 { spec := { event := Ev.onAddRelations, comps := [0] } } }
  let r ← tryW (opObsRegister 12)
  opReset
  pure (match r with | .error .obsNonRelation => true | _ => false)

/-- **Repaired defect D20.**  `observerManager.AddObserver` used to assign `o.id = m.pool.Get()`
    BEFORE validating the components of a relation observer; a recovered "non-relation component in
    relation observer" panic then left the observer with an ID although it was listed nowhere:
    it could neither be registered ("already registered") nor unregistered again, not even after
    `Reset` — and the reset world differed from a new one.  The ID is now taken after the checks:
    a rejected registration leaves the object unregistered, no ID is consumed, and registering it
    again is rejected for the same reason as on a new world. -/
theorem failed_register_keeps_no_id :
    isOk (badObsScript (World.init 2 2)) = true ∧
    value false (badObsScript (World.init 2 2)) = true ∧
    ((badObsScript (World.init 2 2)).state.obs.obj 12).oid = none ∧
    (badObsScript (World.init 2 2)).state.obs.totalCount = 0 ∧
    ((badObsScript (World.init 2 2)).state.obs.pool.get).2 = 0 ∧
    (match opObsRegister 12 (badObsScript (World.init 2 2)).state with
      | .panic .obsNonRelation _ => true | _ => false) = true := by
  decide +kernel

end Demo

end Ark.Props.C16World
