/-
  C08 / C09 at world level for RELATION events: `SetRelations` (`OnRemoveRelations` /
  `OnAddRelations` fired by `FireSetRelations`) and the relation rounds of `NewEntity(ids…, rels…)`,
  `Add(e, ids…, rels…)`, `Remove(e, ids…)` and `RemoveEntity(e)`.

  "An observer is notified of an event exactly when the documented conditions on the event type,
  the affected components (For), the entity's composition (With/Without/Exclusive) hold — once per
  affected entity — and whether it fires never depends on which other observers are or were
  registered."  "Removal events see the world before the change, addition events after it; the
  world is locked during [removal] callbacks."

  Setting (`SettingRel run S rec w fl`, Ark/Proofs/CallbacksRelSet.lean): a world WITH relation
  components satisfying `TInvObs w fl` — the joint invariant `TInv` of the relation fragment
  (Ark/Props/C04World.lean; it says nothing about observers: `tinvObs_iff`) together with the
  observer setting `ObsOK` of Ark/Props/C08World.lean, for ANY set of registered observers; a
  callback runner that is READ-ONLY on the probes of the observers' scripts.

  * `setRelations_rejected_as_without_observers` — every panic of the observer-free call is the
    same panic with observers, on the same world (all checks precede the events); no invariant
    needed.
  * `setRelations_callbacks` — an accepted observer-free call (result `w0`, with everything C04
    says about it: `SetRelPost`) is accepted with observers; the result is `w0` with the
    observers put back (`FrameOf`; the log grows; the lock's bit pool remembers one
    `Lock()`/`Unlock()` cycle if there are `OnRemoveRelations` observers and some target
    changes), and the `cb` records appended are — oldest first — `(l, e)` for the
    `OnRemoveRelations` observers, then for the `OnAddRelations` observers, registered for the
    event type, in registration order, whose SPECIFICATION fires (`Spec.fires`) for the event
    instance `.set changed mask`: `changed` = the relation components named whose target CHANGES
    (`changedRels`), `mask` = the entity's mask.  A call that changes no target returns the world
    untouched and notifies nobody (not even wildcard observers).
  * `setRelations_accepted` — under the documented preconditions the call is accepted.
  * `setRelations_sees` — C09: the `OnRemoveRelations` round runs on ONE world `seenB`, locked, in
    which every entity (the reported one included, with its OLD targets) is as before the call;
    the `OnAddRelations` round runs on ONE world `seenA` = the final world up to the records of
    that round: the entity has its NEW targets, the lock is released.
  * `setRelations_exactly_once`, `setRelations_observer_independent` — each selected observer
    once, every other never; the count for observer `l` is the same under any two observer
    managers that agree on `l`.

  * `newEntity_rel_callbacks`, `add_rel_callbacks` (§ 4) — worlds WITH relations: the call is
    accepted exactly as without observers; the `cb` records are those of the `OnCreateEntity` /
    `OnAddComponents` observers the rule selects and then — exactly when the call names relations
    (`rels ≠ []`) — of the `OnAddRelations` observers selected for `.entityRel (mask of ids)` resp.
    `.add old new`; both rounds run on the world AFTER the change (`*_sees`).
  * `remove_rel_callbacks`, `removeEntity_rel_callbacks` (§ 4) — the `OnRemoveComponents` /
    `OnRemoveEntity` observers and then — exactly when a removed component is a relation component
    of the entity (`removesRel`) resp. the entity has a relation component (`hasRelComps`) — the
    `OnRemoveRelations` observers selected for `.remove old new` resp. `.entityRel mask`; both
    rounds under ONE lock, on the world BEFORE the change (`*_sees`).  `RemoveEntity` of a relation
    TARGET (clean-up of its relation tables after the callbacks) is included.
  * `no_relation_no_relation_observers` — calls that name no relation / remove no relation
    component / entities without relation components never notify relation observers, not even
    wildcard ones.

  Finding (documented behaviour made precise): as for `Remove`, the world the `OnRemoveRelations`
  callbacks of `SetRelations` see is not literally the world before the call with the lock held:
  the destination table of the move has already been found, recycled or created (`RelLooked`); no
  entity-level observation (liveness, components, values, relation targets) can tell the
  difference.  The same holds for `Remove` (`remove_rel_sees`).
  Hypotheses beyond the setting: the lock hands out a bit (`LockCycle`), as in C08World; the IDs
  of the targets assigned lie inside the pool slice (`htin`, inherited from the observer-free
  specifications `opSetRelations_spec`, `opNewEntity_rel_spec`, `opAdd_rel_spec` since the pool
  link tolerates invalidated handles behind the slice after `Reset`); the handle's ID lies inside
  the slice (`Live.inPool`).
-/
import Ark.Proofs.CallbacksRelRemove
import Ark.Props.C04World

set_option autoImplicit false

namespace Ark.Props.C08Rel
open Ark Ark.World Ark.Spec Ark.QueryExact Ark.Props.C01World

variable {run : ProbeRunner} {S : Probe → Prop} {rec : World → Nat → Ent → Probe → List LogEv}
  {w : World} {fl : List Nat}

/-! ### 1. the setting -/

/-- `TInvObs` is the invariant `TInv` of the relation fragment — which does not mention
    observers, log or lock — plus the observer setting -/
theorem tinvObs_is_tinv_plus_obsOK (w : World) (fl : List Nat) :
    TInvObs w fl ↔ TInv w fl ∧ ObsOK w.obs := tinvObs_iff w fl

theorem tinvObs_initially (cap rel : Nat) : TInvObs (World.init cap rel) [] := tinvObs_init cap rel

/-- the setting carries over to the result of the operation -/
theorem setting_kept {w0 w' : World} {fl' : List Nat} (st : SettingRel run S rec w fl)
    (hf : FrameOf w0 w w') (h0 : TInv w0 fl') : SettingRel run S rec w' fl' := st.frame hf h0

/-! ### 2. `SetRelations` -/

/-- **rejected exactly as without observers** (no invariant needed) -/
theorem setRelations_rejected_as_without_observers (run run0 : ProbeRunner) (p : Path) (e : Ent)
    (mapperIds : List Comp) (rels : List RelID) (w : World) {k : PanicKind} {s : World}
    (h0 : opSetRelations run0 p e mapperIds rels w.noObs = .panic k s) :
    opSetRelations run p e mapperIds rels w = .panic k (s.reframe w.obs w.log w.locks) :=
  opSetRelations_transfer_panic run run0 p e mapperIds rels w h0

/-- **accepted exactly as without observers, and which callbacks run** -/
theorem setRelations_callbacks (st : SettingRel run S rec w fl) (run0 : ProbeRunner) (p : Path)
    (hl : w.isLocked = false) {e : Ent} (he : Live w fl e)
    {mapperIds : List Comp} {rels : List RelID}
    (hne : rels.isEmpty = false) (hnd : (rels.map (·.comp)).Nodup)
    (hhas : ∀ (r : RelID), r ∈ rels → (targetOf w e.id r.comp).isSome = true)
    (htin : ∀ (r : RelID), r ∈ rels → r.target.id < w.pool.ents.length)
    (hfew : w.tables.length < maxU32) (hrows : w.entities.length + 1 < 2 ^ 32)
    {l1 l2 : Lock} {b : Nat} (hL : LockCycle w.locks l1 b l2) {w0 : World}
    (h0 : opSetRelations run0 p e mapperIds rels w.noObs = .ok () w0) :
    SetRelPost w.noObs fl e rels w0 ∧
    ∃ (w' : World), opSetRelations run p e mapperIds rels w = .ok () w' ∧ FrameOf w0 w w' ∧
      w'.locks = lockAfterRel w (changedRels w e rels) l2 ∧
      (changedRels w e rels = [] → w' = w) ∧
      cbsOf w'.log =
        ((firingRel w.obs Ev.onAddRelations (changedRels w e rels) (w.maskOf e)).map
            fun l => (l, e)).reverse
        ++ (((firingRel w.obs Ev.onRemoveRelations (changedRels w e rels) (w.maskOf e)).map
            fun l => (l, e)).reverse
        ++ cbsOf w.log) :=
  setRelations_cbs st run0 p hl he hne hnd hhas htin hfew hrows hL h0

/-- what `changedRels` and `firingRel` are -/
theorem changedRels_iff {w : World} {e : Ent} {rels : List RelID} {c : Comp} :
    c ∈ changedRels w e rels ↔
      ∃ (r : RelID), r ∈ rels ∧ targetOf w e.id r.comp ≠ some r.target ∧ r.comp = c := by
  simp only [changedRels, List.mem_map, List.mem_filter, decide_eq_true_iff, and_assoc]

theorem firingRel_iff {m : ObsMgr} {evt : Nat} {changed : List Comp} {mask : Mask} {l : Nat} :
    l ∈ firingRel m evt changed mask ↔
      changed ≠ [] ∧ l ∈ (m.evt evt).observers ∧
        Spec.fires (m.obj l).spec (.set (Mask.ofList changed) mask) := by
  unfold firingRel
  split
  · rename_i h; simp [h]
  · rename_i h; simp [h, mem_firing]

/-- **accepted** under the documented preconditions, with any set of registered observers -/
theorem setRelations_accepted (st : SettingRel run S rec w fl) (p : Path)
    (hl : w.isLocked = false) {e : Ent} (he : Live w fl e) {rels : List RelID}
    (hne : rels.isEmpty = false) (hnd : (rels.map (·.comp)).Nodup)
    (hhas : ∀ (r : RelID), r ∈ rels → (targetOf w e.id r.comp).isSome = true)
    (hval : ∀ (r : RelID), r ∈ rels → r.target.isZero = true ∨ w.alive r.target = true)
    (hreg : ∀ (r : RelID), r ∈ rels → w.isRelComp r.comp = true ∧ r.comp < 256)
    (htin : ∀ (r : RelID), r ∈ rels → r.target.id < w.pool.ents.length)
    (hfew : w.tables.length < maxU32) (hrows : w.entities.length + 1 < 2 ^ 32)
    {l1 l2 : Lock} {b : Nat} (hL : LockCycle w.locks l1 b l2) :
    ∃ (w' : World), opSetRelations run p e (rels.map (·.comp)) rels w = .ok () w' :=
  setRelations_total st p hl he hne hnd hhas hval hreg htin hfew hrows hL

/-- **C09**: removal observers see the world before the move, locked; addition observers the
    world after it, the lock released -/
theorem setRelations_sees (st : SettingRel run S rec w fl) (run0 : ProbeRunner) (p : Path)
    (hl : w.isLocked = false) {e : Ent} (he : Live w fl e)
    {mapperIds : List Comp} {rels : List RelID}
    (hne : rels.isEmpty = false) (hnd : (rels.map (·.comp)).Nodup)
    (hhas : ∀ (r : RelID), r ∈ rels → (targetOf w e.id r.comp).isSome = true)
    (htin : ∀ (r : RelID), r ∈ rels → r.target.id < w.pool.ents.length)
    (hfew : w.tables.length < maxU32) (hrows : w.entities.length + 1 < 2 ^ 32)
    {l1 l2 : Lock} {b : Nat} (hL : LockCycle w.locks l1 b l2) {w0 : World}
    (h0 : opSetRelations run0 p e mapperIds rels w.noObs = .ok () w0)
    (hch : changedRels w e rels ≠ []) :
    ∃ (seenB seenA w' : World), opSetRelations run p e mapperIds rels w = .ok () w' ∧
      w'.log =
        notifyAll rec e (firing w.obs Ev.onAddRelations
          (.set (Mask.ofList (changedRels w e rels)) (w.maskOf e))) seenA ++
        (notifyAll rec e (firing w.obs Ev.onRemoveRelations
          (.set (Mask.ofList (changedRels w e rels)) (w.maskOf e))) seenB ++ w.log) ∧
      seenB.isLocked = true ∧ seenB.obs = w.obs ∧ seenB.log = w.log ∧
      (∀ (j : Nat), SameEnt w seenB j) ∧
      (∀ (j : Nat) (c : Comp), targetOf seenB j c = targetOf w j c) ∧
      (∀ (x : Ent), seenB.alive x = w.alive x) ∧
      seenA = { w' with log := seenA.log } ∧
      (∀ (r : RelID), r ∈ rels → targetOf seenA e.id r.comp = some r.target) ∧
      (∀ (c : Comp), (∀ (r : RelID), r ∈ rels → r.comp ≠ c) →
        targetOf seenA e.id c = targetOf w e.id c) ∧
      SameEnt w seenA e.id ∧
      (∀ (j : Nat), j ≠ e.id → SameEnt w seenA j ∧ ∀ (c : Comp), targetOf seenA j c = targetOf w j c) ∧
      (∀ (x : Ent), seenA.alive x = w.alive x) :=
  setRelations_seen st run0 p hl he hne hnd hhas htin hfew hrows hL h0 hch

/-- for a log-blind runner every record of a round is a function of the ONE world the round ran
    on (`seenB` resp. `seenA` above) -/
theorem round_log_blind (hb : LogBlind rec) (e : Ent) (ls : List Nat) (seen : World) :
    notifyAll rec e ls seen = (ls.reverse.flatMap fun l => notifyFlat rec l e seen) :=
  notifyAll_blind hb e ls seen

/-! ### 3. exactly once, independence -/

/-- **exactly once, and never otherwise** -/
theorem setRelations_exactly_once {m : ObsMgr} (h : ObsOK m) (evt : Nat) (changed : List Comp)
    (mask : Mask) (e : Ent) (l : Nat) :
    (((firingRel m evt changed mask).map fun x => (x, e)).reverse).count (l, e)
      = if l ∈ firingRel m evt changed mask then 1 else 0 := by
  unfold firingRel
  split
  · simp
  · exact count_cbs_firing h evt _ e l

/-- **independence**: the number of callbacks of observer `l` in either round of `SetRelations`
    is the same under any two observer managers that agree on `l` — whether it is listed for the
    event type, and its specification — whatever else is or was registered (`changed` and `mask`
    are computed from the world without observers) -/
theorem setRelations_observer_independent {m m' : ObsMgr} (h : ObsOK m) (h' : ObsOK m') {evt : Nat}
    {l : Nat} (hl : l ∈ (m'.evt evt).observers ↔ l ∈ (m.evt evt).observers)
    (hs : (m'.obj l).spec = (m.obj l).spec) (changed : List Comp) (mask : Mask) (e : Ent) :
    (((firingRel m' evt changed mask).map fun x => (x, e)).reverse).count (l, e)
      = (((firingRel m evt changed mask).map fun x => (x, e)).reverse).count (l, e) := by
  unfold firingRel
  split
  · rfl
  · exact Ark.observer_independent h h' hl hs _ e

/-! ### 4. the relation rounds of `NewEntity`, `Add`, `Remove`, `RemoveEntity` -/

/-- the `OnAddRelations` observers of an addition-type call: none if it names no relation -/
theorem firingIfRels_iff {m : ObsMgr} {rels : List RelID} {ev : EvInst} {l : Nat} :
    l ∈ firingIfRels m rels ev ↔
      rels ≠ [] ∧ l ∈ (m.evt Ev.onAddRelations).observers ∧ Spec.fires (m.obj l).spec ev := by
  unfold firingIfRels
  cases rels with
  | nil => simp
  | cons r rs => simp [mem_firing]

/-- the `OnRemoveRelations` observers of a removal: none unless a relation is removed -/
theorem firingRemRel_iff {m : ObsMgr} {rr : Bool} {ev : EvInst} {l : Nat} :
    l ∈ firingRemRel m rr ev ↔
      rr = true ∧ l ∈ (m.evt Ev.onRemoveRelations).observers ∧ Spec.fires (m.obj l).spec ev := by
  unfold firingRemRel
  cases rr <;> simp [mem_firing]

/-- `Remove(e, rem…)` removes a relation iff some removed component is a relation component of
    `e`; `e` has a relation component iff some component has a target -/
theorem removesRel_iff {w : World} {e : Ent} {rem : List Comp} :
    removesRel w e rem = true ↔ ∃ (c : Comp), c ∈ rem ∧ (targetOf w e.id c).isSome = true := by
  simp only [removesRel, List.any_eq_true]

theorem hasRelComps_iff_target (h : TInvObs w fl) {e : Ent} (he : Live w fl e) :
    hasRelComps w e = true ↔ ∃ (c : Comp), (targetOf w e.id c).isSome = true :=
  hasRelComps_iff h.toTInv he.ge2 he.notFree he.alive he.inPool

/-- **no relation, no relation observers** — not even wildcard ones -/
theorem no_relation_no_relation_observers (m : ObsMgr) (ev : EvInst) :
    firingIfRels m [] ev = [] ∧ firingRemRel m false ev = [] ∧
    ∀ (evt : Nat) (mask : Mask), firingRel m evt [] mask = [] := ⟨rfl, rfl, fun _ _ => rfl⟩

/-- **rejected exactly as without observers** (no invariant needed): all checks precede the
    events -/
theorem newEntity_rel_rejected_as_without_observers (run run0 : ProbeRunner) (p : Path)
    (ids : List Comp) (vals : List (Comp × Val)) (rels : List RelID) (w : World) {k : PanicKind}
    {s : World} (h0 : opNewEntity run0 p ids vals rels w.noObs = .panic k s) :
    opNewEntity run p ids vals rels w = .panic k (s.relog w.obs w.log) :=
  opNewEntity_rel_transfer_panic run run0 p ids vals rels w h0

theorem add_rel_rejected_as_without_observers (run run0 : ProbeRunner) (p : Path) (e : Ent)
    (ids : List Comp) (vals : List (Comp × Val)) (rels : List RelID) (w : World) {k : PanicKind}
    {s : World} (h0 : opAdd run0 p e ids vals rels w.noObs = .panic k s) :
    opAdd run p e ids vals rels w = .panic k (s.relog w.obs w.log) :=
  opAdd_rel_transfer_panic run run0 p e ids vals rels w h0

theorem remove_rel_rejected_as_without_observers (run run0 : ProbeRunner) (p : Path) (e : Ent)
    (rem : List Comp) (w : World) {k : PanicKind} {s : World}
    (h0 : opRemove run0 p e rem w.noObs = .panic k s) :
    opRemove run p e rem w = .panic k (s.reframe w.obs w.log w.locks) :=
  opRemove_rel_transfer_panic run run0 p e rem w h0

/-- `RemoveEntity` on a locked world or of a dead entity: rejected exactly as without observers -/
theorem removeEntity_rejected_as_without_observers (run run0 : ProbeRunner) (w : World) (e : Ent)
    (h : w.isLocked = true ∨ w.alive e = false) :
    opRemoveEntity run e w
      = (opRemoveEntity run0 e w.noObs).mapS fun s => s.reframe w.obs w.log w.locks :=
  opRemoveEntity_transfer_reject run run0 w e h

/-- `RemoveEntity` on an unlocked world of an alive entity, no invariant needed: whatever the
    observer-free call does (success, or a panic inside the clean-up of a relation target), the
    call with observers does, after the two rounds of callbacks -/
theorem removeEntity_as_without_observers (hro : ReadOnly run S rec) (run0 : ProbeRunner)
    (w : World) (e : Ent) (hs : ScriptsIn w.obs S) (hok : ObsOK w.obs) (hl : w.isLocked = false)
    (ha : w.alive e = true) {l1 l2 : Lock} {b : Nat} (hL : LockCycle w.locks l1 b l2) :
    opRemoveEntity run e w = (opRemoveEntity run0 e w.noObs).mapS fun s => s.reframe w.obs
      (remRounds rec w.obs e Ev.onRemoveEntity (.entity (w.maskOf e))
        (w.tbl (w.index e.id).1).hasRelations (.entityRel (w.maskOf e)) (w.withLocks l1) ++ w.log)
      (lockAfter2 w Ev.onRemoveEntity (w.tbl (w.index e.id).1).hasRelations l2) :=
  opRemoveEntity_transfer hro run0 w e hs hok hl ha hL

/-- **C08 for `NewEntity(ids…, rels…)`** -/
theorem newEntity_rel_callbacks (st : SettingRel run S rec w fl) (run0 : ProbeRunner) (p : Path)
    (hl : w.isLocked = false) {ids : List Comp} {vals : List (Comp × Val)} {rels : List RelID}
    (hreg : ∀ (c : Comp), c ∈ ids → c < w.kinds.length)
    (hnd : (rels.map (·.comp)).Nodup) (hin : ∀ (r : RelID), r ∈ rels → r.comp ∈ ids)
    (hrc : ∀ (r : RelID), r ∈ rels → w.isRelComp r.comp = true)
    (htin : ∀ (r : RelID), r ∈ rels → r.target.id < w.pool.ents.length)
    (hfew : w.tables.length < maxU32) (hrows : w.entities.length + 1 < 2 ^ 32)
    {e : Ent} {w0 : World} (h0 : opNewEntity run0 p ids vals rels w.noObs = .ok e w0) :
    NewRelPost w.noObs fl rels e w0 ∧
    ∃ (w' : World), opNewEntity run p ids vals rels w = .ok e w' ∧ FrameOf w0 w w' ∧
      w'.locks = w0.locks ∧
      cbsOf w'.log =
        ((firingIfRels w.obs rels (.entityRel (Mask.ofList ids))).map fun l => (l, e)).reverse ++
        (((firing w.obs Ev.onCreateEntity (.entity (Mask.ofList ids))).map fun l => (l, e)).reverse
          ++ cbsOf w.log) :=
  newEntityRel_cbs st run0 p hl hreg hnd hin hrc htin hfew hrows h0

/-- **C09 for `NewEntity(ids…, rels…)`**: the complete log; both rounds run on the world after the
    creation (`seenAfter`: with the typed paths the values are written, with `Unsafe` not yet), the
    relation round with the records of the first round logged -/
theorem newEntity_rel_sees (hro : ReadOnly run S rec) (run0 : ProbeRunner) (p : Path)
    (hs : ScriptsIn w.obs S) (h : TInvObs w fl)
    (hl : w.isLocked = false) {ids : List Comp} {vals : List (Comp × Val)} {rels : List RelID}
    (hreg : ∀ (c : Comp), c ∈ ids → c < w.kinds.length)
    (hnd : (rels.map (·.comp)).Nodup) (hin : ∀ (r : RelID), r ∈ rels → r.comp ∈ ids)
    (hrc : ∀ (r : RelID), r ∈ rels → w.isRelComp r.comp = true)
    (htin : ∀ (r : RelID), r ∈ rels → r.target.id < w.pool.ents.length)
    (hfew : w.tables.length < maxU32) (hrows : w.entities.length + 1 < 2 ^ 32)
    {e : Ent} {w0 : World} (h0 : opNewEntity run0 p ids vals rels w.noObs = .ok e w0) :
    NewRelPost w.noObs fl rels e w0 ∧
    ∃ (w1 : World), newEntityCore ids rels w.noObs = .ok (e, Mask.ofList ids) w1 ∧
      w0 = writeValsW w1 e vals ∧
      opNewEntity run p ids vals rels w = .ok e (w0.relog w.obs
        (addRounds rec w.obs e Ev.onCreateEntity (.entity (Mask.ofList ids)) rels
          (.entityRel (Mask.ofList ids)) ((seenAfter p w1 e vals).relog w.obs w.log) ++ w.log)) :=
  opNewEntity_rel_callbacks hro run0 p hs h hl hreg hnd hin hrc htin hfew hrows h0

/-- **C08 for `Add(e, ids…, rels…)`** -/
theorem add_rel_callbacks (st : SettingRel run S rec w fl) (run0 : ProbeRunner) (p : Path)
    (hl : w.isLocked = false) {e : Ent} (he : Live w fl e)
    {ids : List Comp} {vals : List (Comp × Val)} {rels : List RelID}
    (hreg : ∀ (c : Comp), c ∈ ids → c < w.kinds.length)
    (hnd : (rels.map (·.comp)).Nodup) (hin : ∀ (r : RelID), r ∈ rels → r.comp ∈ ids)
    (hrc : ∀ (r : RelID), r ∈ rels → w.isRelComp r.comp = true)
    (htin : ∀ (r : RelID), r ∈ rels → r.target.id < w.pool.ents.length)
    (hfew : w.tables.length < maxU32) (hrows : w.entities.length + 1 < 2 ^ 32)
    {w0 : World} (h0 : opAdd run0 p e ids vals rels w.noObs = .ok () w0) :
    AddRelPost w.noObs fl e ids vals rels w0 ∧
    ∃ (w' : World), opAdd run p e ids vals rels w = .ok () w' ∧ FrameOf w0 w w' ∧
      w'.locks = w0.locks ∧
      cbsOf w'.log =
        ((firingIfRels w.obs rels
            (.add (w.maskOf e) (ids.foldl Mask.set (w.maskOf e)))).map fun l => (l, e)).reverse ++
        (((firing w.obs Ev.onAddComponents
            (.add (w.maskOf e) (ids.foldl Mask.set (w.maskOf e)))).map fun l => (l, e)).reverse
          ++ cbsOf w.log) :=
  addRel_cbs st run0 p hl he hreg hnd hin hrc htin hfew hrows h0

/-- **C09 for `Add(e, ids…, rels…)`**: the complete log; both rounds on the world after the change -/
theorem add_rel_sees (hro : ReadOnly run S rec) (run0 : ProbeRunner) (p : Path)
    (hs : ScriptsIn w.obs S) (h : TInvObs w fl) (hl : w.isLocked = false) {e : Ent}
    (he : Live w fl e) {ids : List Comp} {vals : List (Comp × Val)} {rels : List RelID}
    (hreg : ∀ (c : Comp), c ∈ ids → c < w.kinds.length)
    (hnd : (rels.map (·.comp)).Nodup) (hin : ∀ (r : RelID), r ∈ rels → r.comp ∈ ids)
    (hrc : ∀ (r : RelID), r ∈ rels → w.isRelComp r.comp = true)
    (htin : ∀ (r : RelID), r ∈ rels → r.target.id < w.pool.ents.length)
    (hfew : w.tables.length < maxU32) (hrows : w.entities.length + 1 < 2 ^ 32)
    {w0 : World} (h0 : opAdd run0 p e ids vals rels w.noObs = .ok () w0) :
    AddRelPost w.noObs fl e ids vals rels w0 ∧
    ∃ (w1 : World),
      addCore e ids rels w.noObs = .ok (w.maskOf e, ids.foldl Mask.set (w.maskOf e)) w1 ∧
      w0 = writeValsW w1 e vals ∧
      opAdd run p e ids vals rels w = .ok () (w0.relog w.obs
        (addRounds rec w.obs e Ev.onAddComponents
          (.add (w.maskOf e) (ids.foldl Mask.set (w.maskOf e))) rels
          (.add (w.maskOf e) (ids.foldl Mask.set (w.maskOf e)))
          ((seenAfter p w1 e vals).relog w.obs w.log) ++ w.log)) :=
  opAdd_rel_callbacks hro run0 p hs h hl he.ge2 he.notFree he.alive he.inPool hreg hnd hin hrc htin
    hfew hrows h0

/-- **C08 for `Remove(e, rem…)` in a world with relations** (the call never fails) -/
theorem remove_rel_callbacks (st : SettingRel run S rec w fl) (run0 : ProbeRunner) (p : Path)
    (hl : w.isLocked = false) {e : Ent} (he : Live w fl e)
    {rem : List Comp} (hne : rem ≠ []) (hnd : rem.Nodup)
    (hpres : ∀ (c : Comp), c ∈ rem → (w.maskOf e).get c = true)
    (hfew : w.tables.length < maxU32) (hrows : w.entities.length + 1 < 2 ^ 32)
    {l1 l2 : Lock} {b : Nat} (hL : LockCycle w.locks l1 b l2) :
    ∃ (w0 w' : World),
      opRemove run0 p e rem w.noObs = .ok () w0 ∧ RemRelPost w.noObs fl e rem w0 ∧
      opRemove run p e rem w = .ok () w' ∧ FrameOf w0 w w' ∧
      w'.locks = lockAfter2 w Ev.onRemoveComponents (removesRel w e rem) l2 ∧
      cbsOf w'.log =
        ((firingRemRel w.obs (removesRel w e rem)
            (.remove (w.maskOf e) (rem.foldl Mask.clear (w.maskOf e)))).map fun l => (l, e)).reverse ++
        (((firing w.obs Ev.onRemoveComponents
            (.remove (w.maskOf e) (rem.foldl Mask.clear (w.maskOf e)))).map fun l => (l, e)).reverse
          ++ cbsOf w.log) :=
  removeRel_cbs st run0 p hl he hne hnd hpres hfew hrows hL

/-- **C09 for `Remove`**: the complete log; both rounds run on `w1` LOCKED — the world after the
    table lookup, in which every entity (the reported one included) has the components, values and
    relation targets it had before the call -/
theorem remove_rel_sees (hro : ReadOnly run S rec) (run0 : ProbeRunner) (p : Path)
    (hs : ScriptsIn w.obs S) (h : TInvObs w fl) (hl : w.isLocked = false) {e : Ent}
    (he : Live w fl e) {rem : List Comp} (hne : rem ≠ []) (hnd : rem.Nodup)
    (hpres : ∀ (c : Comp), c ∈ rem → (w.maskOf e).get c = true)
    (hfew : w.tables.length < maxU32) (hrows : w.entities.length + 1 < 2 ^ 32)
    {l1 l2 : Lock} {b : Nat} (hL : LockCycle w.locks l1 b l2) :
    ∃ (w1 w0 : World),
      (∀ (j : Nat), SameEnt w.noObs w1 j ∧ ∀ (c : Comp), targetOf w1 j c = targetOf w.noObs j c) ∧
      (∀ (x : Ent), w1.alive x = w.alive x) ∧ (w1.reframe w.obs w.log l1).isLocked = true ∧
      opRemove run0 p e rem w.noObs = .ok () w0 ∧ RemRelPost w.noObs fl e rem w0 ∧
      opRemove run p e rem w = .ok () (w0.reframe w.obs
        (remRounds rec w.obs e Ev.onRemoveComponents
          (.remove (w.maskOf e) (rem.foldl Mask.clear (w.maskOf e))) (removesRel w e rem)
          (.remove (w.maskOf e) (rem.foldl Mask.clear (w.maskOf e)))
          (w1.reframe w.obs w.log l1) ++ w.log)
        (lockAfter2 w Ev.onRemoveComponents (removesRel w e rem) l2)) := by
  obtain ⟨w1, w0, a, b', c, d, e'⟩ := opRemove_rel_callbacks hro run0 p hs h hl he.ge2 he.notFree
    he.alive he.inPool hne hnd hpres hfew hrows hL
  exact ⟨w1, w0, a, b', LockCycle.locked hL, c, d, e'⟩

/-- **C08 for `RemoveEntity(e)` in a world with relations** — `e` may have relation components
    and may be a relation target (the call never fails) -/
theorem removeEntity_rel_callbacks (st : SettingRel run S rec w fl) (run0 : ProbeRunner)
    (hl : w.isLocked = false) {e : Ent} (he : Live w fl e)
    (hfew : w.tables.length + w.relationArchetypes.length + 1 ≤ maxU32)
    (hrows : 2 * w.entities.length < 2 ^ 32)
    {l1 l2 : Lock} {b : Nat} (hL : LockCycle w.locks l1 b l2) :
    ∃ (w0 w' : World),
      opRemoveEntity run0 e w.noObs = .ok () w0 ∧ RemovedRelPost w.noObs fl e w0 ∧
      opRemoveEntity run e w = .ok () w' ∧ FrameOf w0 w w' ∧
      w'.locks = lockAfter2 w Ev.onRemoveEntity (hasRelComps w e) l2 ∧
      cbsOf w'.log =
        ((firingRemRel w.obs (hasRelComps w e) (.entityRel (w.maskOf e))).map
            fun l => (l, e)).reverse ++
        (((firing w.obs Ev.onRemoveEntity (.entity (w.maskOf e))).map fun l => (l, e)).reverse
          ++ cbsOf w.log) :=
  removeEntityRel_cbs st run0 hl he hfew hrows hL

/-- **C09 for `RemoveEntity`**: the complete log; both rounds run on `w` itself, LOCKED — before
    the row is removed and before the relation tables of a target are cleaned up -/
theorem removeEntity_rel_sees (hro : ReadOnly run S rec) (run0 : ProbeRunner)
    (hs : ScriptsIn w.obs S) (h : TInvObs w fl) (hl : w.isLocked = false) {e : Ent}
    (he : Live w fl e) (hfew : w.tables.length + w.relationArchetypes.length + 1 ≤ maxU32)
    (hrows : 2 * w.entities.length < 2 ^ 32)
    {l1 l2 : Lock} {b : Nat} (hL : LockCycle w.locks l1 b l2) :
    (w.withLocks l1).isLocked = true ∧
    ∃ (w0 : World),
      opRemoveEntity run0 e w.noObs = .ok () w0 ∧ RemovedRelPost w.noObs fl e w0 ∧
      opRemoveEntity run e w = .ok () (w0.reframe w.obs
        (remRounds rec w.obs e Ev.onRemoveEntity (.entity (w.maskOf e)) (hasRelComps w e)
          (.entityRel (w.maskOf e)) (w.withLocks l1) ++ w.log)
        (lockAfter2 w Ev.onRemoveEntity (hasRelComps w e) l2)) :=
  ⟨LockCycle.locked hL, opRemoveEntity_rel_callbacks hro run0 hs h hl he.ge2 he.notFree he.alive
    he.inPool hfew hrows hL⟩

/-- what the rounds are (newest first): the first round on `seen`, the relation round on `seen`
    with the records of the first round logged -/
theorem addRounds_def (m : ObsMgr) (e : Ent) (evt1 : Nat) (ev1 : EvInst) (rels : List RelID)
    (ev2 : EvInst) (seen : World) :
    addRounds rec m e evt1 ev1 rels ev2 seen =
      notifyAll rec e (firingIfRels m rels ev2)
          (seen.addLog (notifyAll rec e (firing m evt1 ev1) seen))
        ++ notifyAll rec e (firing m evt1 ev1) seen := rfl

theorem remRounds_def (m : ObsMgr) (e : Ent) (evt1 : Nat) (ev1 : EvInst) (rr : Bool)
    (ev2 : EvInst) (seen : World) :
    remRounds rec m e evt1 ev1 rr ev2 seen =
      notifyAll rec e (firingRemRel m rr ev2)
          (seen.addLog (notifyAll rec e (firing m evt1 ev1) seen))
        ++ notifyAll rec e (firing m evt1 ev1) seen := rfl

/-- **exactly once** and **independence** for the relation rounds of these operations -/
theorem relRound_exactly_once {m : ObsMgr} (h : ObsOK m) (rels : List RelID) (rr : Bool)
    (ev : EvInst) (e : Ent) (l : Nat) :
    (((firingIfRels m rels ev).map fun x => (x, e)).reverse).count (l, e)
      = (if l ∈ firingIfRels m rels ev then 1 else 0) ∧
    (((firingRemRel m rr ev).map fun x => (x, e)).reverse).count (l, e)
      = (if l ∈ firingRemRel m rr ev then 1 else 0) := by
  unfold firingIfRels firingRemRel
  constructor
  · split
    · simp
    · exact count_cbs_firing h _ ev e l
  · split
    · exact count_cbs_firing h _ ev e l
    · simp

theorem relRound_observer_independent {m m' : ObsMgr} (h : ObsOK m) (h' : ObsOK m') {l : Nat}
    (hla : l ∈ (m'.evt Ev.onAddRelations).observers ↔ l ∈ (m.evt Ev.onAddRelations).observers)
    (hlr : l ∈ (m'.evt Ev.onRemoveRelations).observers ↔ l ∈ (m.evt Ev.onRemoveRelations).observers)
    (hs : (m'.obj l).spec = (m.obj l).spec) (rels : List RelID) (rr : Bool) (ev : EvInst) (e : Ent) :
    (((firingIfRels m' rels ev).map fun x => (x, e)).reverse).count (l, e)
      = (((firingIfRels m rels ev).map fun x => (x, e)).reverse).count (l, e) ∧
    (((firingRemRel m' rr ev).map fun x => (x, e)).reverse).count (l, e)
      = (((firingRemRel m rr ev).map fun x => (x, e)).reverse).count (l, e) := by
  unfold firingIfRels firingRemRel
  constructor
  · split
    · rfl
    · exact Ark.observer_independent h h' hla hs _ e
  · split
    · exact Ark.observer_independent h h' hlr hs _ e
    · rfl

/-! ### 5. non-vacuity: a concrete world with relations and relation observers -/

section Demo
open Ark.Props.C04World

/-- the `Observer` values the client built (label ↦ specification; the scripts are `look` probes).
    Component 0 = `ChildOf` (relation), 1 = `Pos`:
    1 `OnRemoveRelations.For(0)`, 2 `OnAddRelations.For(0)`, 3 `OnAddRelations.With(1)` (wildcard),
    4 `OnAddRelations.For(0).Without(1)`, 5 `OnRemoveRelations.With(1)` (wildcard),
    6 `OnRemoveRelations.For(0).Exclusive()`, 7 `OnCreateEntity`, 8 `OnRemoveEntity`,
    9 `OnAddComponents.For(0)`, 10 `OnRemoveComponents.For(0)` -/
def objs : AL ObsObj :=
  [ (1, { spec := { event := Ev.onRemoveRelations, comps := [0], script := [.look] } }),
    (2, { spec := { event := Ev.onAddRelations, comps := [0], script := [.look] } }),
    (3, { spec := { event := Ev.onAddRelations, with_ := [1], script := [.look] } }),
    (4, { spec := { event := Ev.onAddRelations, comps := [0], without := [1], script := [.look] } }),
    (5, { spec := { event := Ev.onRemoveRelations, with_ := [1], script := [.look] } }),
    (6, { spec := { event := Ev.onRemoveRelations, comps := [0], exclusive := true,
                    script := [.look] } }),
    (7, { spec := { event := Ev.onCreateEntity, script := [.look] } }),
    (8, { spec := { event := Ev.onRemoveEntity, script := [.look] } }),
    (9, { spec := { event := Ev.onAddComponents, comps := [0], script := [.look] } }),
    (10, { spec := { event := Ev.onRemoveComponents, comps := [0], script := [.look] } }) ]

/-- the world `d7` of Ark/Props/C04World.lean (parents `p1 = ⟨2,0⟩`, `p2 = ⟨3,0⟩`; children 4, 5
    of `p1` in table 1, child 6 of `p2` in table 2) with the observer objects on the heap … -/
def w00 : World := { d7 with obs := { objs := objs } }

/-- … and all of them registered, in the order of their labels -/
def wRel : World := regAll [1, 2, 3, 4, 5, 6, 7, 8, 9, 10] w00

def c6 : Ent := ⟨6, 0⟩

theorem demo_free_list {fl : List Nat} (H : TInv d7 fl) : fl = [] := by
  have h := H.link.pool.ch
  have h0 : Pool.chain d7.pool.ents d7.pool.next d7.pool.available = some [] := by
    decide +kernel
  rw [h0] at h
  exact (Option.some.inj h).symm

/-- **the hypotheses of all theorems above are satisfiable**: the demo world is in the setting
    (with the runner of the harness), child 6 is a live handle, the world is unlocked and its
    lock is in the initial state -/
theorem demo_setting :
    SettingRel World.probe (· = Probe.look) lookRec wRel [] ∧ LogBlind lookRec ∧
    Live wRel [] c6 ∧ Live wRel [] p1 ∧ Live wRel [] p2 ∧ wRel.isLocked = false ∧
    LockCycle wRel.locks lockDuringQuery 0 lockAfterQuery ∧
    wRel.tables.length < maxU32 ∧ wRel.entities.length + 1 < 2 ^ 32 ∧
    wRel.tables.length + wRel.relationArchetypes.length + 1 ≤ maxU32 ∧
    2 * wRel.entities.length < 2 ^ 32 := by
  obtain ⟨fl, H, _, _⟩ := good_d7
  have hfl := demo_free_list H
  subst hfl
  have hreg : RegAllOK [1, 2, 3, 4, 5, 6, 7, 8, 9, 10] w00 := by decide +kernel
  obtain ⟨hok, hw⟩ := regAll_spec [1, 2, 3, 4, 5, 6, 7, 8, 9, 10] w00 (obsOK_of_no_events rfl) hreg
  have hw' : wRel = d7.reframe wRel.obs d7.log d7.locks := hw
  have hlocks : wRel.locks = {} := by decide +kernel
  refine ⟨⟨probe_readOnly, lookRec_noCb, ?_, ?_, hok⟩, lookRec_logBlind, ?_, ?_, ?_, ?_, ?_, ?_, ?_,
    ?_, ?_⟩
  · apply scriptsIn_of_objs
    decide +kernel
  · rw [hw']; exact H.reframe _ _ _
  · exact ⟨by decide, by simp, by decide +kernel, by decide +kernel⟩
  · exact ⟨by decide, by simp, by decide +kernel, by decide +kernel⟩
  · exact ⟨by decide, by simp, by decide +kernel, by decide +kernel⟩
  · decide +kernel
  · rw [hlocks]; exact lockCycle_default
  · decide +kernel
  · decide +kernel
  · decide +kernel
  · decide +kernel

/-- the registration lists, the entity's mask and targets in the demo world -/
example : (wRel.obs.evt Ev.onRemoveRelations).observers = [1, 5, 6] ∧
    (wRel.obs.evt Ev.onAddRelations).observers = [2, 3, 4] ∧
    wRel.maskOf c6 = Mask.ofList [0, 1] ∧ targetOf wRel 6 0 = some p2 := by
  decide +kernel

/-- re-targeting child 6 from `p2` to `p1` changes relation component 0; to `p2` changes nothing.
    The documented callback sets: `OnRemoveRelations.For(0)` and the wildcard `With(1)`, not
    `For(0).Exclusive()` (the entity also has component 1); `OnAddRelations.For(0)` and the
    wildcard `With(1)`, not `For(0).Without(1)`.  Nothing for a call that changes no target. -/
example :
    changedRels wRel c6 [⟨0, p1⟩] = [0] ∧ changedRels wRel c6 [⟨0, p2⟩] = [] ∧
    firingRel wRel.obs Ev.onRemoveRelations [0] (Mask.ofList [0, 1]) = [1, 5] ∧
    firingRel wRel.obs Ev.onAddRelations [0] (Mask.ofList [0, 1]) = [2, 3] ∧
    firingRel wRel.obs Ev.onRemoveRelations [] (Mask.ofList [0, 1]) = [] ∧
    firingRel wRel.obs Ev.onAddRelations [] (Mask.ofList [0, 1]) = [] := by
  decide +kernel

/-- the `cb` records of a run of the model with the runner of the harness (`none` = panic) -/
def cbsAfter {α : Type} (r : Res World α) : Option (List (Nat × Ent)) :=
  match r with
  | .ok _ w' => some (cbsOf w'.log)
  | .panic _ _ => none

/-- … and that is what the model does (the log is newest-first: first the removal observers
    1, 5, then the addition observers 2, 3) -/
example :
    cbsAfter (opSetRelations World.probe .typed c6 [0] [⟨0, p1⟩] wRel)
      = some [(3, c6), (2, c6), (5, c6), (1, c6)] ∧
    cbsAfter (opSetRelations World.probe .unsafe_ c6 [] [⟨0, p1⟩] wRel)
      = some [(3, c6), (2, c6), (5, c6), (1, c6)] ∧
    cbsAfter (opSetRelations World.probe .typed c6 [0] [⟨0, p2⟩] wRel)
      = some ([] : List (Nat × Ent)) := by
  decide +kernel

/-- the theorem applied: `SetRelations(child 6, ChildOf → p1)` on the demo world -/
example : ∃ w0 w' : World,
    opSetRelations noRun .typed c6 [0] [⟨0, p1⟩] wRel.noObs = .ok () w0 ∧
    SetRelPost wRel.noObs [] c6 [⟨0, p1⟩] w0 ∧
    opSetRelations World.probe .typed c6 [0] [⟨0, p1⟩] wRel = .ok () w' ∧ FrameOf w0 wRel w' ∧
    cbsOf w'.log = [(3, c6), (2, c6), (5, c6), (1, c6)] := by
  obtain ⟨st, _, he, _, _, hl, hL, hfew, hrows, _, _⟩ := demo_setting
  have hok0 : (opSetRelations noRun .typed c6 [0] [⟨0, p1⟩] wRel.noObs).isOk = true := by
    decide +kernel
  cases h0 : opSetRelations noRun .typed c6 [0] [⟨0, p1⟩] wRel.noObs with
  | panic k s => rw [h0] at hok0; cases hok0
  | ok u w0 =>
    cases u
    obtain ⟨post, w', h1, h2, _, _, h5⟩ := setRelations_callbacks st noRun .typed hl he
      (mapperIds := [0]) (rels := [⟨0, p1⟩]) (by decide) (by decide) (by decide +kernel)
      (by decide +kernel) hfew hrows hL h0
    refine ⟨w0, w', rfl, post, h1, h2, ?_⟩
    rw [h5]
    decide +kernel

/-- what the two rounds see in the demo (the `look` records: alive?, locked?, values, targets):
    the removal observers see child 6 with its OLD target `p2` under the lock, the addition
    observers see it with its NEW target `p1`, unlocked -/
example :
    (match opSetRelations World.probe .typed c6 [0] [⟨0, p1⟩] wRel with
     | .ok _ w' => w'.log.filterMap fun ev => match ev with
        | .look a lk _ ts => some (a, lk, ts)
        | _ => none
     | .panic _ _ => []) =
      [(true, false, [(0, p1)]), (true, false, [(0, p1)]),
       (true, true, [(0, p2)]), (true, true, [(0, p2)])] := by
  decide +kernel

/-- **the lock hypothesis is necessary**: with all 64 lock bits outstanding `SetRelations` with a
    registered `OnRemoveRelations` observer panics "out of locks" -/
theorem lock_hypothesis_necessary :
    (match opSetRelations World.probe .typed c6 [0] [⟨0, p1⟩]
        (wRel.withLocks { pool := { length := 64 }, locks := 0#64 }) with
     | .panic k _ => k == .outOfLocks
     | .ok _ _ => false) = true := by
  decide +kernel

/-! #### the relation rounds of the other operations in the demo world -/

/-- the documented callback sets of the relation rounds: creating `[ChildOf → p1, Pos]` notifies
    `OnAddRelations.For(0)` and the wildcard `With(1)`, not `For(0).Without(1)`; adding
    `ChildOf → p1` to the component-less `p2` notifies `For(0)` and `For(0).Without(1)`, not
    `With(1)`; removing `ChildOf` from child 6 (`[ChildOf, Pos]`) notifies
    `OnRemoveRelations.For(0)` and the wildcard `With(1)`, not `For(0).Exclusive()`; removing `Pos`
    removes no relation; child 6 has a relation component, the parent `p1` has none -/
example :
    firingIfRels wRel.obs [⟨0, p1⟩] (.entityRel (Mask.ofList [0, 1])) = [2, 3] ∧
    firingIfRels wRel.obs [⟨0, p1⟩] (.add Mask.empty (Mask.ofList [0])) = [2, 4] ∧
    removesRel wRel c6 [0] = true ∧ removesRel wRel c6 [1] = false ∧
    firingRemRel wRel.obs true (.remove (Mask.ofList [0, 1]) (Mask.ofList [1])) = [1, 5] ∧
    hasRelComps wRel c6 = true ∧ hasRelComps wRel p1 = false ∧
    firingRemRel wRel.obs true (.entityRel (Mask.ofList [0, 1])) = [1, 5] ∧
    wRel.maskOf p2 = Mask.empty ∧ wRel.isTarget.getD p1.id false = true := by
  decide +kernel

/-- … and that is what the model does (newest first; `⟨7,0⟩` is the handle of the new entity).
    No relation named / removed, or no relation component: no relation observer is notified — not
    even the wildcards 3 and 5 — also when the removed entity is a relation TARGET (`p1`). -/
example :
    cbsAfter (opNewEntity World.probe .typed [0, 1] [(1, 3)] [⟨0, p1⟩] wRel)
      = some [(3, ⟨7, 0⟩), (2, ⟨7, 0⟩), (7, ⟨7, 0⟩)] ∧
    cbsAfter (opNewEntity World.probe .typed [1] [(1, 3)] [] wRel) = some [(7, ⟨7, 0⟩)] ∧
    cbsAfter (opAdd World.probe .typed p2 [0] [] [⟨0, p1⟩] wRel)
      = some [(4, p2), (2, p2), (9, p2)] ∧
    cbsAfter (opRemove World.probe .typed c6 [0] wRel) = some [(5, c6), (1, c6), (10, c6)] ∧
    cbsAfter (opRemove World.probe .typed c6 [1] wRel) = some ([] : List (Nat × Ent)) ∧
    cbsAfter (opRemoveEntity World.probe c6 wRel) = some [(5, c6), (1, c6), (8, c6)] ∧
    cbsAfter (opRemoveEntity World.probe p1 wRel) = some [(8, p1)] := by
  decide +kernel

/-- the theorems applied: `Remove(child 6, ChildOf)` and `RemoveEntity(p1)` — a relation target
    whose relation table is cleaned up after the callbacks — on the demo world -/
example : ∃ w0 w' : World,
    opRemove noRun .typed c6 [0] wRel.noObs = .ok () w0 ∧ RemRelPost wRel.noObs [] c6 [0] w0 ∧
    opRemove World.probe .typed c6 [0] wRel = .ok () w' ∧ FrameOf w0 wRel w' ∧
    cbsOf w'.log = [(5, c6), (1, c6), (10, c6)] := by
  obtain ⟨st, _, he, _, _, hl, hL, hfew, hrows, _, _⟩ := demo_setting
  obtain ⟨w0, w', h1, h2, h3, h4, _, h6⟩ := remove_rel_callbacks st noRun .typed hl he
    (rem := [0]) (by simp) (by simp) (by decide +kernel) hfew hrows hL
  refine ⟨w0, w', h1, h2, h3, h4, ?_⟩
  rw [h6]
  decide +kernel

example : ∃ w0 w' : World,
    opRemoveEntity noRun p1 wRel.noObs = .ok () w0 ∧ RemovedRelPost wRel.noObs [] p1 w0 ∧
    opRemoveEntity World.probe p1 wRel = .ok () w' ∧ FrameOf w0 wRel w' ∧
    cbsOf w'.log = [(8, p1)] ∧ targetOf w' 4 0 = some Ent.zero := by
  obtain ⟨st, _, _, he, _, hl, hL, _, _, hfew, hrows⟩ := demo_setting
  obtain ⟨w0, w', h1, h2, h3, h4, _, h6⟩ := removeEntity_rel_callbacks st noRun hl he hfew hrows hL
  refine ⟨w0, w', h1, h2, h3, h4, ?_, ?_⟩
  · rw [h6]
    decide +kernel
  · have := (h2.frame 4 (by decide)).2 0
    rw [h4]
    show targetOf w0 4 0 = _
    rw [this]
    decide +kernel

/-- `NewEntity` with a relation, the theorem applied -/
example : ∃ w0 w' : World,
    opNewEntity noRun .typed [0, 1] [(1, 3)] [⟨0, p1⟩] wRel.noObs = .ok ⟨7, 0⟩ w0 ∧
    NewRelPost wRel.noObs [] [⟨0, p1⟩] ⟨7, 0⟩ w0 ∧
    opNewEntity World.probe .typed [0, 1] [(1, 3)] [⟨0, p1⟩] wRel = .ok ⟨7, 0⟩ w' ∧
    FrameOf w0 wRel w' ∧ cbsOf w'.log = [(3, ⟨7, 0⟩), (2, ⟨7, 0⟩), (7, ⟨7, 0⟩)] := by
  obtain ⟨st, _, _, _, _, hl, _, hfew, hrows, _, _⟩ := demo_setting
  have hok0 : ∃ w0, opNewEntity noRun .typed [0, 1] [(1, 3)] [⟨0, p1⟩] wRel.noObs = .ok ⟨7, 0⟩ w0 := by
    cases h0 : opNewEntity noRun .typed [0, 1] [(1, 3)] [⟨0, p1⟩] wRel.noObs with
    | panic k s =>
      have : (opNewEntity noRun .typed [0, 1] [(1, 3)] [⟨0, p1⟩] wRel.noObs).isOk = true := by
        decide +kernel
      rw [h0] at this; cases this
    | ok e w0 =>
      have : (match opNewEntity noRun .typed [0, 1] [(1, 3)] [⟨0, p1⟩] wRel.noObs with
          | .ok e _ => e | .panic _ _ => Ent.zero) = ⟨7, 0⟩ := by decide +kernel
      rw [h0] at this
      simp only at this
      exact ⟨w0, by rw [this]⟩
  obtain ⟨w0, h0⟩ := hok0
  obtain ⟨post, w', h1, h2, _, h5⟩ := newEntity_rel_callbacks st noRun .typed hl
    (ids := [0, 1]) (vals := [(1, 3)]) (rels := [⟨0, p1⟩]) (by decide +kernel) (by decide)
    (by decide) (by decide +kernel) (by decide +kernel) hfew hrows h0
  refine ⟨w0, w', h0, post, h1, h2, ?_⟩
  rw [h5]
  decide +kernel

/-- the `look` records of a run (alive?, locked?, relation targets), newest first -/
def looksAfter {α : Type} (r : Res World α) : List (Bool × Bool × List (Comp × Ent)) :=
  match r with
  | .ok _ w' => w'.log.filterMap fun ev => match ev with
      | .look a lk _ ts => some (a, lk, ts)
      | _ => none
  | .panic _ _ => []

/-- what the relation rounds see in the demo: `OnAddRelations` after `NewEntity`: the new entity
    with its target, unlocked; `OnRemoveRelations` before `Remove` / `RemoveEntity`: child 6 still
    with its target `p2`, under the lock -/
example :
    looksAfter (opNewEntity World.probe .typed [0, 1] [(1, 3)] [⟨0, p1⟩] wRel) =
      [(true, false, [(0, p1)]), (true, false, [(0, p1)]), (true, false, [(0, p1)])] ∧
    looksAfter (opRemove World.probe .typed c6 [0] wRel) =
      [(true, true, [(0, p2)]), (true, true, [(0, p2)]), (true, true, [(0, p2)])] ∧
    looksAfter (opRemoveEntity World.probe c6 wRel) =
      [(true, true, [(0, p2)]), (true, true, [(0, p2)]), (true, true, [(0, p2)])] := by
  refine ⟨?_, ?_, ?_⟩ <;> decide +kernel

end Demo

end Ark.Props.C08Rel
