/-
  C07 — World lock discipline (the lock-bit machine).

  Stated over arbitrary histories of `Lock()`, `Unlock(b)` and `Reset()` on the `lock` of
  lock.go (bit pool + 64-bit mask), starting from the zero value.  `outstanding` is ghost
  state: the bits handed out by `Lock()` and not yet returned by a successful `Unlock`.
  A panicking call ("run out of the maximum of 64 bits", "unbalanced unlock") leaves the lock
  unchanged.
-/
import Ark.Proofs.Lock
import Ark.Proofs.Rejects
import Ark.Generated.FactsLock
import Ark.Props.C07Hist
import Ark.Props.C07Batch

namespace Ark.Props.C07
open Ark Ark.Lock

/-- the lock state (with ghost history) reached by an arbitrary history -/
def reach (ops : List Op) : LS := LS.init.run ops

/-- the invariant of `Ark.Proofs.Lock` holds after every history -/
theorem reach_inv (ops : List Op) : ∃ fl, LInv (reach ops) fl :=
  run_inv ops LS.init [] linv_init

/-- The mask is exact: bit `b` is set iff `b` is outstanding; outstanding bits are pairwise
    distinct and below 64. -/
theorem locks_exact (ops : List Op) :
    (∀ (b : Nat), b < 64 → ((reach ops).l.locks.getLsbD b = true ↔ b ∈ (reach ops).outstanding)) ∧
    (reach ops).outstanding.Nodup ∧
    (∀ (b : Nat), b ∈ (reach ops).outstanding → b < 64) := by
  obtain ⟨fl, g⟩ := reach_inv ops
  refine ⟨g.locks, g.out_nodup, ?_⟩
  intro b hb
  have h1 := g.out_lt b hb
  have h2 := g.len64
  omega

/-- `IsLocked()` is true iff some lock is outstanding. -/
theorem isLocked_iff (ops : List Op) :
    (reach ops).l.isLocked = true ↔ (reach ops).outstanding ≠ [] := by
  obtain ⟨fl, g⟩ := reach_inv ops
  generalize reach ops = s at g ⊢
  simp only [Lock.isLocked, bne_iff_ne, ne_eq]
  constructor
  · intro hne hnil
    apply hne
    apply BitVec.eq_of_getLsbD_eq
    intro i hi
    have := g.locks i hi
    rw [hnil] at this
    simpa using this
  · intro hne hz
    cases hout : s.outstanding with
    | nil => exact hne hout
    | cons b rest =>
      have hb : s.l.locks.getLsbD b = true := (g.locks_iff b).mpr (by rw [hout]; simp)
      rw [hz] at hb
      simp at hb

/-- A successful `Lock()` hands out a bit below 64 that is not outstanding. -/
theorem lock_fresh (ops : List Op) (l' : Lock) (b : Nat) :
    (reach ops).l.lock = some (l', b) → b ∉ (reach ops).outstanding ∧ b < 64 := by
  intro h
  obtain ⟨fl, g⟩ := reach_inv ops
  rcases lock_spec _ fl g with ⟨hn, _⟩ | ⟨l2, b2, hl, hlt, hfresh, _, _⟩
  · rw [hn] at h; contradiction
  · rw [hl] at h
    injection h with h
    injection h with _ hb
    subst hb
    exact ⟨hfresh, hlt⟩

/-- `Lock()` succeeds iff fewer than 64 locks are outstanding: up to 64 simultaneous locks,
    the 65th panics. -/
theorem lock_succeeds_iff (ops : List Op) :
    (reach ops).l.lock.isSome = true ↔ (reach ops).outstanding.length < 64 := by
  obtain ⟨fl, g⟩ := reach_inv ops
  rcases lock_spec _ fl g with ⟨hn, hlen⟩ | ⟨l2, b2, hl, _, _, hlen, _⟩
  · rw [hn]
    constructor
    · intro h; contradiction
    · intro h; omega
  · rw [hl]
    exact ⟨fun _ => hlen, fun _ => rfl⟩

/-- `Unlock(b)` succeeds iff `b` is outstanding (for every `b`, in particular every `b < 64`). -/
theorem unlock_succeeds_iff (ops : List Op) (b : Nat) :
    ((reach ops).l.unlock b).isSome = true ↔ b ∈ (reach ops).outstanding := by
  obtain ⟨fl, g⟩ := reach_inv ops
  rcases unlock_spec _ fl g b with ⟨hn, hout⟩ | ⟨l2, hl, hout, _⟩
  · rw [hn]
    exact ⟨fun h => by contradiction, fun h => absurd h hout⟩
  · rw [hl]
    exact ⟨fun _ => hout, fun _ => rfl⟩

/-- An unbalanced `Unlock(b)` is rejected: `b` is not outstanding and the state (lock and ghost
    state) is unchanged. -/
theorem unlock_fail_unchanged (ops : List Op) (b : Nat) :
    (reach ops).l.unlock b = none →
      b ∉ (reach ops).outstanding ∧ (reach ops).step (.unlock b) = reach ops := by
  intro h
  refine ⟨?_, by simp only [LS.step, h]⟩
  intro hm
  have := (unlock_succeeds_iff ops b).mpr hm
  rw [h] at this
  contradiction

/-- A `Lock()` that has run out of bits leaves the state unchanged, and then exactly the 64
    bits `0..63` are outstanding. -/
theorem lock_fail_unchanged (ops : List Op) :
    (reach ops).l.lock = none →
      (reach ops).outstanding.length = 64 ∧
      (∀ (b : Nat), b < 64 → b ∈ (reach ops).outstanding) ∧
      (reach ops).step .lock = reach ops := by
  intro h
  obtain ⟨fl, g⟩ := reach_inv ops
  have hlen : (reach ops).outstanding.length = 64 := by
    rcases lock_spec _ fl g with ⟨_, hlen⟩ | ⟨l2, b2, hl, _⟩
    · exact hlen
    · rw [hl] at h; contradiction
  refine ⟨hlen, ?_, by simp only [LS.step, h]⟩
  intro b hb
  have hc := g.count
  have h64 := g.len64
  have hfl : fl = [] := List.length_eq_zero_iff.mp (by omega)
  subst hfl
  rcases g.cover b (by simp at hc; omega) with hf | ho
  · cases hf
  · exact ho

/-- A successful `Unlock(b)` removes exactly `b`: afterwards `b` is not outstanding, its mask bit
    is clear, and every other bit keeps its status. -/
theorem unlock_returns (ops : List Op) (b : Nat) (hb : b ∈ (reach ops).outstanding) :
    (reach (ops ++ [.unlock b])).outstanding = (reach ops).outstanding.erase b ∧
    b ∉ (reach (ops ++ [.unlock b])).outstanding := by
  obtain ⟨fl, g⟩ := reach_inv ops
  have hrun : reach (ops ++ [.unlock b]) = (reach ops).step (.unlock b) := by
    simp [reach, LS.run, List.foldl_append]
  rcases unlock_spec _ fl g b with ⟨_, hout⟩ | ⟨l2, hl, _, _⟩
  · exact absurd hb hout
  · have hl' : (reach ops).l.unlock b = some l2 := hl
    have hout' : (reach (ops ++ [.unlock b])).outstanding = (reach ops).outstanding.erase b := by
      rw [hrun]; simp only [LS.step, hl']
    refine ⟨hout', ?_⟩
    rw [hout']
    exact List.Nodup.not_mem_erase g.out_nodup

/-- When every lock has been returned the mask is zero, i.e. the world is unlocked. -/
theorem unlocked_after_all_returned (ops : List Op) :
    (reach ops).outstanding = [] →
      (reach ops).l.locks = 0#64 ∧ (reach ops).l.isLocked = false := by
  intro hnil
  have hlocked : ¬ (reach ops).l.isLocked = true := fun h => (isLocked_iff ops).mp h hnil
  have hfalse : (reach ops).l.isLocked = false := by
    cases h : (reach ops).l.isLocked with
    | true => exact absurd h hlocked
    | false => rfl
  refine ⟨?_, hfalse⟩
  simpa [Lock.isLocked] using hfalse

/-- The pool's own bookkeeping: `length` bits were handed out so far, at most 64, and the free
    ones (`available`) plus the outstanding ones make up all of them. -/
theorem count_exact (ops : List Op) :
    (reach ops).outstanding.length + (reach ops).l.pool.available = (reach ops).l.pool.length ∧
    (reach ops).l.pool.length ≤ 64 := by
  obtain ⟨fl, g⟩ := reach_inv ops
  have := g.count
  have := g.avail
  exact ⟨by omega, g.len64⟩

/-! Non-vacuity: lock three bits, return the middle one, lock again (gets the recycled bit),
    an unbalanced unlock is rejected, return everything in another order, lock again. -/
example :
    let s := reach [.lock, .lock, .lock, .unlock 1, .lock]
    s.outstanding = [1, 2, 0] ∧ s.l.isLocked = true ∧ s.l.locks = 7#64 := by
  decide

example :
    let s := reach [.lock, .lock, .lock, .unlock 1]
    s.outstanding = [2, 0] ∧ s.l.locks = 5#64 ∧ s.l.pool.available = 1 ∧
    (s.l.lock.map (·.2)) = some 1 ∧ s.l.unlock 1 = none ∧ s.step (.unlock 1) = s := by
  decide

example :
    let s := reach [.lock, .lock, .lock, .unlock 1, .unlock 1, .unlock 7, .unlock 0, .unlock 2]
    s.outstanding = [] ∧ s.l.isLocked = false ∧ s.l.pool.available = 3 ∧ s.l.pool.length = 3 := by
  decide

/-! `Reset` starts over: the first bits are handed out again -/
example :
    let s := reach [.lock, .lock, .unlock 0, .reset, .lock, .lock, .lock, .unlock 1, .lock]
    s.outstanding = [1, 2, 0] ∧ s.l.locks = 7#64 ∧ s.l.pool.length = 3 := by
  decide

/-! the 65th simultaneous lock fails, the 64 before succeed -/
set_option maxRecDepth 8192 in
example :
    let s := reach (List.replicate 64 .lock)
    s.outstanding.length = 64 ∧ s.l.lock.isSome = false ∧ s.l.locks = BitVec.allOnes 64 ∧
    (reach (List.replicate 63 .lock)).l.lock.isSome = true := by
  decide


/-! ### World level: every structure-changing operation of the model panics on a locked world
    and returns exactly the state it was called on. -/

/-- on a locked world: panic `locked`, state unchanged -/
theorem opNewEntity0_locked : type_of% @Ark.World.opNewEntity0_locked := @Ark.World.opNewEntity0_locked

/-- on a locked world: panic `locked`, state unchanged -/
theorem newEntityCore_locked : type_of% @Ark.World.newEntityCore_locked := @Ark.World.newEntityCore_locked

/-- on a locked world: panic `locked`, state unchanged -/
theorem addCore_locked : type_of% @Ark.World.addCore_locked := @Ark.World.addCore_locked

/-- on a locked world: panic `locked`, state unchanged -/
theorem removeCore_locked : type_of% @Ark.World.removeCore_locked := @Ark.World.removeCore_locked

/-- on a locked world: panic `locked`, state unchanged -/
theorem exchangeCore_locked : type_of% @Ark.World.exchangeCore_locked := @Ark.World.exchangeCore_locked

/-- on a locked world: panic `locked`, state unchanged -/
theorem setRelationsCore_locked : type_of% @Ark.World.setRelationsCore_locked := @Ark.World.setRelationsCore_locked

/-- on a locked world: panic `locked`, state unchanged -/
theorem opRemoveEntity_locked : type_of% @Ark.World.opRemoveEntity_locked := @Ark.World.opRemoveEntity_locked

/-- on a locked world: panic `locked`, state unchanged -/
theorem opCopyEntity_locked : type_of% @Ark.World.opCopyEntity_locked := @Ark.World.opCopyEntity_locked

/-- on a locked world: panic `locked`, state unchanged -/
theorem opNewEntities_locked : type_of% @Ark.World.opNewEntities_locked := @Ark.World.opNewEntities_locked

/-- on a locked world: panic `locked`, state unchanged -/
theorem opNewBatch_locked : type_of% @Ark.World.opNewBatch_locked := @Ark.World.opNewBatch_locked

/-- on a locked world: panic `locked`, state unchanged -/
theorem exchangeBatch_locked : type_of% @Ark.World.exchangeBatch_locked := @Ark.World.exchangeBatch_locked

/-- on a locked world: panic `locked`, state unchanged -/
theorem setRelationsBatch_locked : type_of% @Ark.World.setRelationsBatch_locked := @Ark.World.setRelationsBatch_locked

/-- on a locked world: panic `locked`, state unchanged -/
theorem opRemoveEntities_locked : type_of% @Ark.World.opRemoveEntities_locked := @Ark.World.opRemoveEntities_locked

/-- on a locked world: panic `locked`, state unchanged -/
theorem opReset_locked : type_of% @Ark.World.opReset_locked := @Ark.World.opReset_locked

/-- on a locked world: panic `locked`, state unchanged -/
theorem opShrink_locked : type_of% @Ark.World.opShrink_locked := @Ark.World.opShrink_locked

/-- on a locked world: panic `locked`, state unchanged -/
theorem registerComponent_locked : type_of% @Ark.World.registerComponent_locked := @Ark.World.registerComponent_locked

/-- T2 (regenerated from the source): `checkLocked()` is the first statement of every structural
    entry point of the Go code, including `NewBatchFn` of every mapper arity. -/
theorem lock_checked_first_in_source :
    (Ark.Generated.lockFirst.all (·.2) && Ark.Generated.newBatchLockFirst.all (·.2)) = true ∧
    Ark.Generated.lockFirst.length = 15 ∧ Ark.Generated.newBatchLockFirst.length = 13 := by decide


/-! ### Over histories with queries staying open across operations (Props/C07Hist) -/

/-- the invariant of the machine that interleaves the eleven entity operations with `Query()`, `Next()`, `Close()` and event emission holds after every history: the lock mask is exactly the set of bits of the open queries, pairwise distinct -/
theorem hist_reach_inv : type_of% @Ark.Props.C07Hist.reach_inv := @Ark.Props.C07Hist.reach_inv

/-- **C07**: the world is locked iff some opened query has neither reported its end nor been closed -/
theorem hist_locked_iff_open : type_of% @Ark.Props.C07Hist.locked_iff_open := @Ark.Props.C07Hist.locked_iff_open

/-- at most 64 queries are open -/
theorem hist_at_most_64 : type_of% @Ark.Props.C07Hist.at_most_64 := @Ark.Props.C07Hist.at_most_64

/-- the 65th `Query()` panics `outOfLocks`; world and machine state unchanged -/
theorem hist_qopen_65th : type_of% @Ark.Props.C07Hist.qopen_65th := @Ark.Props.C07Hist.qopen_65th

/-- below 64 a `Query()` succeeds, also on a locked world, changes only the lock and takes a fresh bit -/
theorem hist_qopen_below_64 : type_of% @Ark.Props.C07Hist.qopen_below_64 := @Ark.Props.C07Hist.qopen_below_64

/-- while locked every structural operation (reg, new, new0, add, rem, xchg, del, copy, shrink, reset) panics and leaves the world and the machine state unchanged -/
theorem hist_structural_rejected_while_locked : type_of% @Ark.Props.C07Hist.structural_rejected_while_locked := @Ark.Props.C07Hist.structural_rejected_while_locked

/-- `Set` keeps working while locked, with its usual effect; the lock is untouched -/
theorem hist_set_while_locked : type_of% @Ark.Props.C07Hist.set_while_locked := @Ark.Props.C07Hist.set_while_locked

/-- reads (`alive`, component sets, values) agree with the specification at every state, locked or not -/
theorem hist_reads_agree : type_of% @Ark.Props.C07Hist.reads_agree := @Ark.Props.C07Hist.reads_agree

/-- event emission keeps working while locked -/
theorem hist_emit_keeps_working : type_of% @Ark.Props.C07Hist.emit_keeps_working := @Ark.Props.C07Hist.emit_keeps_working

/-- `Next()` of another open query keeps working -/
theorem hist_qnext_keeps_working : type_of% @Ark.Props.C07Hist.qnext_keeps_working := @Ark.Props.C07Hist.qnext_keeps_working

/-- a `Next()` that reports the end closes the query and releases exactly its bit -/
theorem hist_qnext_end_releases : type_of% @Ark.Props.C07Hist.qnext_end_releases := @Ark.Props.C07Hist.qnext_end_releases

/-- `Close()` of an open query releases exactly its bit -/
theorem hist_qclose_releases : type_of% @Ark.Props.C07Hist.qclose_releases := @Ark.Props.C07Hist.qclose_releases

/-- closing a finished or closed query again changes nothing -/
theorem hist_qclose_again_harmless : type_of% @Ark.Props.C07Hist.qclose_again_harmless := @Ark.Props.C07Hist.qclose_again_harmless

/-- the world is unlocked exactly when no query is open -/
theorem hist_unlocked_iff_none_open : type_of% @Ark.Props.C07Hist.unlocked_iff_none_open := @Ark.Props.C07Hist.unlocked_iff_none_open

/-- … and then the full invariant of the refinement machine holds again -/
theorem hist_hinv_when_unlocked : type_of% @Ark.Props.C07Hist.hinv_when_unlocked := @Ark.Props.C07Hist.hinv_when_unlocked

/-- … so the continuation is a history of the refinement machine -/
theorem hist_continuation_runs_refine : type_of% @Ark.Props.C07Hist.continuation_runs_refine := @Ark.Props.C07Hist.continuation_runs_refine

/-- while a query is open the archetypes, indices, pool, registry and every table's rows are frozen -/
theorem hist_frozen_while_open : type_of% @Ark.Props.C07Hist.frozen_while_open := @Ark.Props.C07Hist.frozen_while_open

/-- the rows an open cursor still has to visit are a suffix of the rows expected when it was opened -/
theorem hist_cursor_frozen : type_of% @Ark.Props.C07Hist.cursor_frozen := @Ark.Props.C07Hist.cursor_frozen


/-! ### A failing batch does not leave the world locked (Props/C07Batch; repair D27) -/

/-- AddBatch/RemoveBatch/ExchangeBatch: for ANY unlocked world and any arguments (observers, callback, relations allowed, no invariant assumed) a panic of the planning loop is the batch's panic, and the resulting world has the lock, the observers and the log of the world before the call — it is not locked -/
theorem batch_exchangeBatch_lookup_panic_lock : type_of% @Ark.Props.C07Batch.exchangeBatch_lookup_panic_lock := @Ark.Props.C07Batch.exchangeBatch_lookup_panic_lock

/-- the same for SetRelationsBatch -/
theorem batch_setRelationsBatch_lookup_panic_lock : type_of% @Ark.Props.C07Batch.setRelationsBatch_lookup_panic_lock := @Ark.Props.C07Batch.setRelationsBatch_lookup_panic_lock

/-- the plan-first normal form of the exchange batch: selection, lookup, Lock, move, Unlock -/
theorem batch_exchangeBatch_planFirst : type_of% @Ark.Props.C07Batch.exchangeBatch_planFirst := @Ark.Props.C07Batch.exchangeBatch_planFirst

/-- the plan-first normal form of SetRelationsBatch -/
theorem batch_setRelationsBatch_planFirst : type_of% @Ark.Props.C07Batch.setRelationsBatch_planFirst := @Ark.Props.C07Batch.setRelationsBatch_planFirst

/-- from the batch theorems' invariant: if an exchange batch without relations panics, the world is unlocked with the lock state of before, every entity keeps components and values, liveness, pool, log and observers are the same and the invariant still holds -/
theorem batch_exchangeBatch_panic_unlocked : type_of% @Ark.Props.C07Batch.exchangeBatch_panic_unlocked := @Ark.Props.C07Batch.exchangeBatch_panic_unlocked

/-- the same over relation tables: every entity keeps components, values and relation targets -/
theorem batch_exchangeBatch_rel_panic_unlocked : type_of% @Ark.Props.C07Batch.exchangeBatch_rel_panic_unlocked := @Ark.Props.C07Batch.exchangeBatch_rel_panic_unlocked

/-- the same for SetRelationsBatch -/
theorem batch_setRelationsBatch_panic_unlocked : type_of% @Ark.Props.C07Batch.setRelationsBatch_panic_unlocked := @Ark.Props.C07Batch.setRelationsBatch_panic_unlocked


end Ark.Props.C07
