/-
  Ark.Props.C06Hist — C06 at every state reached by a history of the refinement machine
  (eleven operations on non-relation components, any access path, any length < 2^32 − 2):
  a batch operation called THERE equals the per-entity operations it abbreviates.

  `Ark.Props.C06World` proves "batch = fold of singles" from any world satisfying the joint
  invariant `CInv` plus `RowsLive` (the handle stored in a row is the pool's current handle of that
  ID) and, for the callback forms, a lock with nothing outstanding.  `Ark.Props.C03Exact` proves
  that these hypotheses hold after every history (`reach_rowsAlive`, `reach_xinv`).  This file
  composes the two, so that no hypothesis about the state is left.
-/
import Ark.Props.C06World
import Ark.Props.C03Exact

set_option autoImplicit false

namespace Ark.Props.C06Hist
open Ark Ark.World Ark.Refine

variable (run : ProbeRunner) (cap rel : Nat)

/-- what every reachable state provides: the joint invariant for some free list, rows holding the
    pool's current handles, an unlocked world whose lock has nothing outstanding -/
theorem reach_batch_hyps (ops : List Op) (hlen : ops.length < 2 ^ 32 - 2) :
    ∃ fl : List Nat, CInv (reach run cap rel ops).w fl ∧ RowsLive (reach run cap rel ops).w ∧
      (reach run cap rel ops).w.isLocked = false ∧ LockFree (reach run cap rel ops).w.locks := by
  obtain ⟨fl, H⟩ := reach_hinv run cap rel ops hlen
  have X := reach_xinv run cap rel ops hlen
  refine ⟨fl, H.cinv, ?_, H.unlocked, ?_⟩
  · intro t r _ hr
    exact X.rows.slot H.cinv hr
  · rw [X.locks]; exact lockFree_init

/-- **batch removal = single removals**, at every reachable state: `RemoveEntities(filter)` and
    `RemoveEntity` applied to every selected entity (in the batch's order) both succeed, both leave
    exactly the selected entities dead and un-indexed and every other entity untouched, with the
    same pool; the selected entities are the alive entities whose component mask matches. -/
theorem removeEntities_eq_singles (ops : List Op) (hlen : ops.length < 2 ^ 32 - 2)
    (fo : FilterObj) (extra : List RelID) (hc : fo.cache = none) :
    ∃ (fl : List Nat) (w' w'' : World), opRemoveEntities run fo extra false (reach run cap rel ops).w = .ok () w' ∧
      removeSeq run (selEnts (reach run cap rel ops).w fo.filter) (reach run cap rel ops).w = .ok () w'' ∧
      RemovedAllPost (reach run cap rel ops).w fl (selEnts (reach run cap rel ops).w fo.filter) w' ∧
      RemovedAllPost (reach run cap rel ops).w fl (selEnts (reach run cap rel ops).w fo.filter) w'' ∧
      w'.pool = w''.pool := by
  obtain ⟨fl, hC, hR, hl, _⟩ := reach_batch_hyps run cap rel ops hlen
  obtain ⟨w', w'', h1, h2, h3, h4, h5⟩ := opRemoveEntities_eq_singles run hC hR hl fo extra hc
  exact ⟨fl, w', w'', h1, h2, h3, h4, h5⟩

/-- the selection of a batch at a reachable state: exactly the alive entities of the pool slice
    whose archetype mask matches the filter -/
theorem batch_selects_matching_alive (ops : List Op) (hlen : ops.length < 2 ^ 32 - 2)
    (f : Filter) (e : Ent) :
    ∃ fl : List Nat, (e ∈ selEnts (reach run cap rel ops).w f ↔
      2 ≤ e.id ∧ e.id ∉ fl ∧ e.id < (reach run cap rel ops).w.pool.ents.length ∧
        (reach run cap rel ops).w.alive e = true ∧
        f.matchesMask ((reach run cap rel ops).w.maskOf e) = true) := by
  obtain ⟨fl, hC, hR, _, _⟩ := reach_batch_hyps run cap rel ops hlen
  exact ⟨fl, mem_selEnts_iff hC hR f e⟩

/-- **batch add / remove / exchange = single exchanges**, at every reachable state (precondition
    `ExchOK` on every non-empty selected table, size bounds explicit): both succeed and agree on
    pool, liveness, every value and every component set; the world is unlocked again. -/
theorem exchangeBatch_eq_singles (ops : List Op) (hlen : ops.length < 2 ^ 32 - 2) (p : Path)
    (fo : FilterObj) (extra : List RelID) (hc : fo.cache = none) {add rem : List Comp}
    (hne : ¬ (add = [] ∧ rem = []))
    (hok : ∀ t ∈ selTables (reach run cap rel ops).w fo.filter, ((reach run cap rel ops).w.tbl t).len ≠ 0 →
      ExchOK (reach run cap rel ops).w.kinds.length add rem (tmask (reach run cap rel ops).w t))
    (hfew : (reach run cap rel ops).w.tables.length + (selTables (reach run cap rel ops).w fo.filter).length +
      (selEnts (reach run cap rel ops).w fo.filter).length < maxU32)
    (hent : 2 * (reach run cap rel ops).w.entities.length < 2 ^ 32) :
    ∃ Wb Ws : World,
      opExchangeBatch run p fo extra add rem [] none (reach run cap rel ops).w = .ok () Wb ∧
      exchangeSeq run p add rem [] (selEnts (reach run cap rel ops).w fo.filter) (reach run cap rel ops).w = .ok () Ws ∧
      Wb.pool = Ws.pool ∧ (∀ x : Ent, Wb.alive x = Ws.alive x) ∧
      (∀ (i : Nat) (c : Comp), Ark.Props.C01World.valOf Wb i c = Ark.Props.C01World.valOf Ws i c) ∧
      (∀ i : Nat, Ark.Props.C01World.compsOf Wb i = Ark.Props.C01World.compsOf Ws i) ∧
      Wb.isLocked = Ws.isLocked := by
  obtain ⟨fl, hC, hR, hl, hL⟩ := reach_batch_hyps run cap rel ops hlen
  obtain ⟨Wb, Ws, h1, h2, _, _, h5, h6, h7, h8, h9, _, _⟩ :=
    opExchangeBatch_eq_singles run p hC hR hl hL fo extra hc hne hok hfew hent
  exact ⟨Wb, Ws, h1, h2, h5, h6, h7, h8, h9⟩

/-- **batch creation = single creations**, at every reachable state: `NewBatch(count, ids)` leaves
    exactly the world `count` successive `NewEntity(ids)` calls leave, and returns the same handles
    in the same order. -/
theorem newBatch_eq_singles (ops : List Op) (hlen : ops.length < 2 ^ 32 - 2) (p : Path)
    {ids : List Comp} (hnd : ids.Nodup)
    (hreg : ∀ (c : Comp), c ∈ ids → c < (reach run cap rel ops).w.kinds.length)
    (vals : List (Comp × Val)) {count : Nat} (hpos : 0 < count)
    (hfew : (reach run cap rel ops).w.tables.length < maxU32)
    (hrows : ∀ t : Nat, ((reach run cap rel ops).w.tbl t).len + count < 2 ^ 32) :
    ∃ (t start : Nat) (es : List Ent) (w' : World),
      opNewBatch run p count ids vals [] false (reach run cap rel ops).w = .ok (t, start) w' ∧
      newEntitiesSeq run p ids [] count (reach run cap rel ops).w = .ok es w' ∧
      es = (List.range count).map (fun i => (w'.tbl t).getEntity (start + i)) ∧
      es.length = count := by
  obtain ⟨fl, hC, _, hl, _⟩ := reach_batch_hyps run cap rel ops hlen
  obtain ⟨t, start, es, w', h1, h2, h3, h4, _, _⟩ :=
    opNewBatch_eq_singles run p hC hl hnd hreg vals hpos hfew hrows
  exact ⟨t, start, es, w', h1, h2, h3, h4⟩

end Ark.Props.C06Hist
