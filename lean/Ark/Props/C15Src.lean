/-
  Ark.Props.C15Src — the part of C15 stated over a definition TRANSLATED from the Go source on every run
  (tools/extract/logic.go: the early exit of the shrinking loop of `storage.Shrink`).  C15: "… repeated
  time-limited calls reach a state in which Shrink reports no remaining work."  The world model treats a
  time-limited call as "shrink up to and including the first table that has work" (wall-clock time is not
  modelled, DESIGN §12); what makes repeated calls converge in the real code, whatever the clock says, is that
  the loop never stops before some table had work — so every call that reports remaining work has done some.
-/
import Ark.Generated.ShrinkBreak

namespace Ark.Props.C15Src
open Ark.Generated

/-- **progress**: the shrinking loop stops early only after some table had work — for every time limit and
    every reading of the clock; a call with a tiny budget therefore still shrinks (or frees) one table -/
theorem src_shrink_stops_only_after_work (anyFound : Bool) (stopAfter elapsed : Nat)
    (h : shrink_break anyFound stopAfter elapsed = true) : anyFound = true := by
  unfold shrink_break at h
  cases anyFound <;> simp_all

/-- the limit 0 ("one step"): the loop stops right after the first table with work, whatever the clock says
    — the bounded operation of the model -/
theorem src_shrink_zero_limit (anyFound : Bool) (elapsed : Nat) :
    shrink_break anyFound 0 elapsed = anyFound := by
  unfold shrink_break; cases anyFound <;> simp

/-- a positive limit: after work was found the loop stops exactly when the limit is reached -/
theorem src_shrink_positive_limit (stopAfter elapsed : Nat) (hpos : 0 < stopAfter) :
    shrink_break true stopAfter elapsed = decide (stopAfter ≤ elapsed) := by
  unfold shrink_break
  have : ¬ stopAfter = 0 := by omega
  simp [this]

/-- non-vacuity: with an exhausted budget and no work found yet the loop goes on; with work found it stops -/
example : shrink_break false 5 1000 = false ∧ shrink_break true 5 1000 = true ∧ shrink_break true 5 3 = false := by
  decide

end Ark.Props.C15Src
