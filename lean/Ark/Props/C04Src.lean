/-
  Ark.Props.C04Src — the part of C04 ("the relation lookups find the right table") that is stated
  over definitions TRANSLATED from the Go source on every run (tools/extract/book.go →
  Ark/Generated/BookLookup.lean): the exact table lookup `archetype.GetTable` /
  `getTableSlowPath` (archetype.go) and `table.MatchesExact` / `table.Matches` (table.go) — the code
  in which defects D26 (a relation component named twice was absorbed when a matching table
  existed) and "relation targets compared loosely" lived.  Kept apart from Props/C04.lean because
  other properties' proofs import that file: a change of the translated code must break exactly the
  properties that depend on it.  Proofs and vocabulary (`classify`, `expectK`, `exactK`, `matchesK`,
  `ofTableL`, `ofStorageL`, `LookupOK`, `IdsLt256`): Ark/Proofs/GenBridge/BookLookup.lean.
-/
import Ark.Props.C04
import Ark.Proofs.GenBridge.BookLookup

namespace Ark.Props.C04Src
open Ark


/-! ### The code itself: the table lookup, translated statement by statement on every run -/

/-- `table.MatchesExact(relations)` as in the source = the model's `Table.matchesExact`: match / no match
    (targets compared as whole entities, ID and generation) or the panic raised ("relation targets must be
    fully specified", "component %d is not a relation component") -/
theorem src_matchesExact : type_of% @Ark.GenBridge.Book.matchesExact_eq := @Ark.GenBridge.Book.matchesExact_eq
/-- `table.Matches(relations)` as in the source = the model's `Table.matchesRels` (a component the table has
    no column for: Go's nil dereference, the model's `none`) -/
theorem src_matches : type_of% @Ark.GenBridge.Book.matches_eq := @Ark.GenBridge.Book.matches_eq
/-- `archetype.getTableSlowPath` as in the source = the slow path of the model's `World.getTable`: count check,
    duplicate scan ("relation component %d specified more than once", the repair of D26), lookup of the first
    relation in the relation index, exact match of the tables listed there -/
theorem src_getTableSlowPath : type_of% @Ark.GenBridge.Book.getTableSlowPath_eq := @Ark.GenBridge.Book.getTableSlowPath_eq
/-- **`archetype.GetTable` as in the source = the model's `World.getTable`** (result or panic class), for
    every relation list of fewer than 256 entries on which the model does not report the Go runtime panic -/
theorem src_getTable : type_of% @Ark.GenBridge.Book.getTable_eq := @Ark.GenBridge.Book.getTable_eq
/-- … on every world satisfying the structural invariant and the relation-index invariant -/
theorem src_getTable_of_inv : type_of% @Ark.GenBridge.Book.getTable_eq_of_inv := @Ark.GenBridge.Book.getTable_eq_of_inv
/-- the hypothesis `LookupOK` of `src_getTable` follows from `SInv` and `RInv` -/
theorem src_lookupOK_of_inv : type_of% @Ark.GenBridge.Book.lookupOK_of_inv := @Ark.GenBridge.Book.lookupOK_of_inv
/-- the hypothesis `IdsLt256` of `src_matchesExact` / `src_matches` follows from `SInv` -/
theorem src_idsLt256_of_sinv : type_of% @Ark.GenBridge.Book.idsLt256_of_sinv := @Ark.GenBridge.Book.idsLt256_of_sinv
/-- the table returned (by value) carries the model's table ID -/
theorem src_table_id : type_of% @Ark.GenBridge.Book.ofTableL_id_of_sinv := @Ark.GenBridge.Book.ofTableL_id_of_sinv
/-- the model's `getTable` never changes the world (the source's takes no pointer it writes through) -/
theorem getTable_state : type_of% @Ark.World.getTable_state := @Ark.World.getTable_state

/-- **finding** (`uint8(len(relations))` in `getTableSlowPath`): with 256 relations the source panics
    "relation targets must be fully specified", the model `relTwice` — both reject the call, the message
    differs; hence `rels.length < 256` in `src_getTable` -/
theorem src_getTable_len256_differs : type_of% @Ark.GenBridge.Book.Example.getTable_len256_differs :=
  @Ark.GenBridge.Book.Example.getTable_len256_differs

/-- non-vacuity: the hypotheses of `src_getTable` hold on a world with a relation archetype and two of its
    tables (built by running model operations), and the source's lookup finds the second table there -/
example :
    Ark.GenBridge.Book.LookupOK Ark.GenBridge.Book.Example.lw (Ark.GenBridge.Book.Example.lw.arch 1) ∧
    Ark.Generated.Book.archetype_GetTable (Ark.GenBridge.Book.ofArchM (Ark.GenBridge.Book.Example.lw.arch 1))
      (Ark.GenBridge.Book.ofStorageL Ark.GenBridge.Book.Example.lw)
      [Ark.GenBridge.Book.ofRel ⟨0, Ark.GenBridge.Book.Example.y⟩] =
      .ok (some (Ark.GenBridge.Book.ofTableL (Ark.GenBridge.Book.Example.lw.tbl 2)), true) :=
  ⟨Ark.GenBridge.Book.Example.lw_ok.1, by decide +kernel⟩

end Ark.Props.C04Src
