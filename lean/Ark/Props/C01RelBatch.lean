/-
  Ark.Props.C01RelBatch — C01 / C04 / C06 for the observer-free fragment WITH RELATION COMPONENTS
  and WITH THE BATCH FORMS AS STEPS, over histories of any length:

    C01 "After any sequence of valid operations (create, add, remove, exchange, set, copy, remove
         entity, THEIR BATCH FORMS, reset, shrink) every alive entity has exactly the set of
         components those operations imply, and every component holds the value most recently
         written to it through any access path.  An operation on one entity never changes the
         components or values of any other entity."
    C04 "… every relation component of an alive entity points to the target most recently
         assigned, or to zero after the target was removed."
    C06 "A batch operation has the same effect as the single operation applied to each selected
         entity."

  The machine (`Ark.RelRefineB`, Ark/Proofs/RelRefineBatch*.lean) wraps the relation machine of
  `Ark.RelRefine` (Ark/Props/C04Hist.lean: `reg | new p | add p | rem p | setrel p | set | del`, all
  with relation arguments; specification `handle ↦ (component ↦ value, relation component ↦
  target)`):

    base op                  an operation of `Ark.RelRefine`
    delb f frels             `World.RemoveEntities(batch, nil)` on the uncached filter with mask
                             part `f` and the relation constraints `frels` (`.Relations(…)`);
                             removed entities may be relation TARGETS of others, also of each other
    setrelb p f frels rels   `SetRelationsBatch(batch, rels…)` on that filter through path `p`
    xchg p e add vals rem rels     `Exchange(e, add, rem, rels…)` writing `vals` (the single
                             operation of `Ark.RelRefine3`, here as a step next to the batches)
    xchgb p f frels add rem rels   `AddBatch` / `RemoveBatch` / `ExchangeBatch` with the relation
                             targets `rels` for the added relation components, callback `nil`

  and the SPECIFICATION STEP OF A BATCH IS THE SPECIFICATION STEP OF THE SINGLE OPERATION APPLIED TO
  EVERY SELECTED ENTITY (`specStepRB`): folded over the specified entities the filter matches
  (`matching`: mask test on the key set, every relation asked for recorded).  For `delb` this is
  the fold of `RelRefine.specStep … (.del e)`, which drops `e`'s entry AND sets to the zero entity
  every target equal to `e` in every other entry.  The specification never looks at the model.

  DELIVERED: `delb`, `setrelb`, `xchg`, `xchgb`.  NOT delivered (the remaining PARTIAL): `newb`
  (`NewBatch(n, ids…, rels…)` with relation targets) as a step of this machine.  What is missing:
  (a) no world-level theorem about `opNewBatch` on relation worlds exists to reduce it to
  (Ark/Proofs/BatchNew*.lean are about worlds without relations, `BatchRel*` / `RelExchangeBatch*`
  cover removal, `SetRelationsBatch` and the exchange batches only); (b) the batch is NOT literally
  the run of the singles there: `createEntities` resets the `isTarget` flag of a recycled ID
  (`createStep`), `newEntity` (`placeNew t false`) does not, so `createEntitiesW_eq_placeN` needs
  "no flag is set"; (c) that `createEntities` keeps `FlagsOK` needs "no non-free table has a target
  whose ID is free", which the world invariant `TInv` does not give — `TargetsOK` says a table
  target is `alive`, and `alive` (a generation comparison) also holds for the not yet issued
  next-generation handle of a free ID.  Such states are not reachable (targets must be handles the
  client was given), but no invariant of the development records it.
  The exchange batch is the callback-free form (`ExchangeBatch(batch, nil)`); the `…BatchFn` forms
  on relation tables are not steps.

  Scope (`guardRB`): as in `Ark.RelRefine`; the relation constraints of a filter name relation
  components the mask part requires (what `.Relations(…)` accepts); `setrelb` names targets the
  client was given, and — unless `rels = []`, rejected cleanly — no component twice and only
  components the filter REQUIRES.  A `SetRelationsBatch` on a component some selected entity lacks
  panics in the planning loop, after destination tables may have been created (finding below; the
  world is not left locked since the repair D27, which takes the lock after the planning): it is
  not rejected with the world unchanged, and not a step.  A removed target and a
  non-relation component ARE steps (rejected by the pre-validation, nothing touched).  `xchgb`:
  as the single `xchg` (registered IDs to add, `RelsStep`, expressible targets), and the part of
  the precondition of `Exchange` that concerns the component set (`XchgLocal`: `rem` distinct
  components it has, `add` distinct components it lacks) holds on EVERY selected entity — or both
  lists are empty, which is rejected cleanly; a batch whose precondition fails on some selected
  entity panics in the planning loop and keeps the tables created before (finding below; since the
  repair D27 the world is no longer left locked) and is not a step.

  Bound (`Fits Budget.init ops`, Ark/Proofs/RelRefineBatchHist.lean): a budget (tables, relation
  archetypes, index slots) starting at `(1, 0, 2)`; decidable.  Sufficient: `fits_base`
  (`ops.length < 2^16` single operations, the bound of `Ark.RelRefine`), `fits_of_length` (fewer
  than `2^10` single operations and batch removals; `setrelb` and `xchgb` may double the number of
  tables, for histories with them `Fits` is checked by `decide`).
-/
import Ark.Proofs.RelRefineBatchFrame

set_option autoImplicit false

namespace Ark.Props.C01RelBatch
open Ark Ark.World Ark.RelRefine Ark.RelRefineB Ark.Props.C01World
open Ark.RelRefine3 (XchgOK xchgEntry specXchg preXchg guardXchg)
open Ark.Refine (Comps keys sortedIds)

variable (run : ProbeRunner) (cap rel : Nat)

/-! ## the invariant along histories -/

/-- the invariant of the machine with batch steps (`HInvRB` = `RelRefine.HInv` + rows hold alive
    handles + the lock's bit pool is consistent, no lock outstanding) holds after every history
    within the bound -/
theorem reach_inv (ops : List OpRB) (hf : Fits Budget.init ops) :
    ∃ fl, HInvRB (reachRB run cap rel ops) fl := reachRB_inv run cap rel ops hf

/-- the world-level invariant `TInv`, an unlocked world, rows holding alive handles -/
theorem reach_tinv (ops : List OpRB) (hf : Fits Budget.init ops) :
    ∃ fl, TInv (reachRB run cap rel ops).w fl ∧ (reachRB run cap rel ops).w.isLocked = false ∧
      RowsAlive (reachRB run cap rel ops).w := by
  obtain ⟨fl, h⟩ := reachRB_inv run cap rel ops hf
  exact ⟨fl, h.hinv.tinv, h.hinv.unlocked, h.rows⟩

/-- histories of single operations are the histories of `Ark.RelRefine`, with its bound -/
theorem base_histories (ops : List Op) (hlen : ops.length < 2 ^ 16) :
    reachRB run cap rel (ops.map .base) = reach run cap rel ops ∧
      Fits Budget.init (ops.map .base) :=
  ⟨reachRB_base run cap rel ops, fits_base ops hlen⟩

/-- fewer than `2^10` single operations (`xchg` included) and batch removals always fit -/
theorem fits_without_doubling (ops : List OpRB) (hx : ∀ op ∈ ops, op.doubles = false)
    (hlen : ops.length < 2 ^ 10) : Fits Budget.init ops := fits_of_length ops hx hlen

/-! ## refinement: the theorem C01 / C04 ask for -/

/-- **refines — the history theorem**: after every history of single AND batch operations within
    the bound, for every entry `(e, en)` of the specification: `e` is alive, its component set is
    the sorted list of the keys of `en.comps`, every component holds the recorded (= last written)
    value, and every relation component has the recorded target (= the last assigned one, or the
    zero entity after the target was removed — singly or by a batch); the recorded relations are
    exactly the relation components among the keys. -/
theorem refines (ops : List OpRB) (hf : Fits Budget.init ops) (e : Ent) (en : Entry)
    (hm : (e, en) ∈ (reachRB run cap rel ops).ss.ents) :
    (reachRB run cap rel ops).w.alive e = true ∧
    compsOf (reachRB run cap rel ops).w e.id =
      some (sortedIds (reachRB run cap rel ops).w.kinds.length (keys en.comps)) ∧
    (∀ cv ∈ en.comps, valOf (reachRB run cap rel ops).w e.id cv.1 = some cv.2) ∧
    (∀ r ∈ en.rels, targetOf (reachRB run cap rel ops).w e.id r.comp = some r.target) ∧
    (keys en.comps).Nodup ∧ (∀ c ∈ keys en.comps, c < (reachRB run cap rel ops).w.kinds.length) ∧
    (en.rels.map (·.comp)).Nodup ∧
    (∀ c : Comp, c ∈ en.rels.map (·.comp) ↔
      c ∈ keys en.comps ∧ (reachRB run cap rel ops).w.isRelComp c = true) := by
  obtain ⟨fl, h⟩ := reachRB_inv run cap rel ops hf
  obtain ⟨_, ha, _⟩ := h.hinv.live_facts hm
  have ok := h.hinv.ok e en hm
  exact ⟨ha, ok.comps, ok.vals, ok.tgts, ok.nodup, ok.reg, ok.relNodup,
    fun c => by rw [ok.relKeys c, h.hinv.rget]⟩

/-- … a component that is not a key of the entry is absent, and a component for which the entry
    records no relation carries no target -/
theorem refines_absent (ops : List OpRB) (hf : Fits Budget.init ops) (e : Ent) (en : Entry)
    (hm : (e, en) ∈ (reachRB run cap rel ops).ss.ents) (c : Comp) :
    (c ∉ keys en.comps → valOf (reachRB run cap rel ops).w e.id c = none) ∧
    (c ∉ en.rels.map (·.comp) → targetOf (reachRB run cap rel ops).w e.id c = none) := by
  obtain ⟨fl, h⟩ := reachRB_inv run cap rel ops hf
  have ok := h.hinv.ok e en hm
  constructor
  · intro hc
    exact valOf_none_of_comps ok.comps (fun hh => hc (Refine.mem_sortedIds.mp hh).2)
  · intro hc
    cases ht : targetOf (reachRB run cap rel ops).w e.id c with
    | none => rfl
    | some x => exact absurd ((h.hinv.target_isSome_iff hm c).mp (by rw [ht]; rfl)) hc

/-- **exactly the alive entities are specified**: a handle some creating call returned is alive
    iff the specification has an entry for it -/
theorem alive_iff_specified (ops : List OpRB) (hf : Fits Budget.init ops) (h : Ent)
    (hi : h ∈ (reachRB run cap rel ops).issued) :
    (reachRB run cap rel ops).w.alive h = true ↔
      h ∈ (reachRB run cap rel ops).ss.ents.map (·.1) := by
  obtain ⟨fl, hinv⟩ := reachRB_inv run cap rel ops hf
  exact Pool.alive_iff_live _ fl hinv.hinv.ginv h hi

theorem unspecified_dead (ops : List OpRB) (hf : Fits Budget.init ops) (h : Ent)
    (hi : h ∈ (reachRB run cap rel ops).issued)
    (hn : h ∉ (reachRB run cap rel ops).ss.ents.map (·.1)) :
    (reachRB run cap rel ops).w.alive h = false := by
  cases ha : (reachRB run cap rel ops).w.alive h with
  | false => rfl
  | true => exact absurd ((alive_iff_specified run cap rel ops hf h hi).mp ha) hn

theorem spec_handles_nodup (ops : List OpRB) (hf : Fits Budget.init ops) :
    ((reachRB run cap rel ops).ss.ents.map (·.1)).Nodup ∧
    (∀ h ∈ (reachRB run cap rel ops).ss.ents.map (·.1), h ∈ (reachRB run cap rel ops).issued) ∧
    (reachRB run cap rel ops).issued.Nodup := by
  obtain ⟨fl, hinv⟩ := reachRB_inv run cap rel ops hf
  exact ⟨hinv.hinv.ginv.live_nodup, hinv.hinv.ginv.live_issued, hinv.hinv.nodup⟩

/-- the specification's registry is the model's -/
theorem registry_agrees (ops : List OpRB) (hf : Fits Budget.init ops) :
    (reachRB run cap rel ops).ss.zst = (reachRB run cap rel ops).w.kinds.map (·.zst) ∧
    (reachRB run cap rel ops).ss.isRel = (reachRB run cap rel ops).w.kinds.map (·.isRel) := by
  obtain ⟨fl, h⟩ := reachRB_inv run cap rel ops hf
  exact ⟨h.hinv.zstEq, h.hinv.relEq⟩

/-- **targets are the zero entity or alive** (C04): every target the specification records is the
    zero entity or a specified — hence alive — entity, also after batch removals of targets -/
theorem targets_zero_or_alive (ops : List OpRB) (hf : Fits Budget.init ops) (e : Ent) (en : Entry)
    (hm : (e, en) ∈ (reachRB run cap rel ops).ss.ents) (r : RelID) (hr : r ∈ en.rels) :
    r.target.isZero = true ∨ (r.target ∈ (reachRB run cap rel ops).ss.ents.map (·.1) ∧
      (reachRB run cap rel ops).w.alive r.target = true) := by
  obtain ⟨fl, h⟩ := reachRB_inv run cap rel ops hf
  rcases h.hinv.tgtsOK e en hm r hr with k | k
  · exact Or.inl k
  · exact Or.inr ⟨find_isSome_iff.mp k, h.hinv.alive_of_find k⟩

/-! ## invalid operations are rejected without effect, valid ones succeed -/

/-- **rejected** — an expressible operation, single or batch (`guardRB`), whose precondition
    (`preRB`, a statement about the specification only: none for `delb`; for `setrelb` "the list is
    not empty, names relation components only, and every target is the zero entity or specified")
    fails: the model panics with the world unchanged, and the whole machine state (world, returned
    handles, specification) is unchanged. -/
theorem rejected (ops : List OpRB) (op : OpRB) (hf : Fits Budget.init (ops ++ [op]))
    (hg : guardRB (reachRB run cap rel ops) op = true)
    (hnp : ¬ preRB (reachRB run cap rel ops).ss op) :
    (∃ k, execRB run (reachRB run cap rel ops).w op = .panic k (reachRB run cap rel ops).w) ∧
    reachRB run cap rel (ops ++ [op]) = reachRB run cap rel ops := by
  obtain ⟨_, _, _, _, grej, _⟩ := reachRB_step run cap rel ops op hf
  exact grej hg hnp

/-- **accepted** — an expressible operation whose precondition holds succeeds -/
theorem accepted (ops : List OpRB) (op : OpRB) (hf : Fits Budget.init (ops ++ [op]))
    (hg : guardRB (reachRB run cap rel ops) op = true)
    (hp : preRB (reachRB run cap rel ops).ss op) :
    ∃ r w', execRB run (reachRB run cap rel ops).w op = .ok r w' := by
  obtain ⟨_, _, _, _, _, gok⟩ := reachRB_step run cap rel ops op hf
  exact gok hg hp

/-- a batch removal on an expressible filter is always accepted (an empty selection removes
    nothing) -/
theorem delb_accepted (ops : List OpRB) (f : Filter) (frels : Rels)
    (hf : Fits Budget.init (ops ++ [.delb f frels]))
    (hg : guardRB (reachRB run cap rel ops) (.delb f frels) = true) :
    ∃ w', opRemoveEntities run (foOf f frels) [] false (reachRB run cap rel ops).w = .ok () w' := by
  obtain ⟨fl, H, _, hroom, _, _⟩ := reachRB_step run cap rel ops _ hf
  obtain ⟨w', hop, _⟩ := step_delb run H f frels hg hroom
  exact ⟨w', hop⟩

/-! ## the batch steps -/

/-- **model selection = specification selection**: at every reachable state the entities a batch
    on an expressible filter touches in the model (`selEnts`: the selected tables, row by row) are
    exactly the entities of the specification the filter matches: the mask test on the key set,
    and every relation asked for recorded -/
theorem selection_agrees (ops : List OpRB) (hf : Fits Budget.init ops) (f : Filter) (frels : Rels)
    (hg : frelsExpr (reachRB run cap rel ops).ss f frels = true) (e : Ent) :
    e ∈ selEnts (reachRB run cap rel ops).w f frels ↔
      ∃ en, (e, en) ∈ (reachRB run cap rel ops).ss.ents ∧
        f.matchesMask (Mask.ofList (keys en.comps)) = true ∧ ∀ r ∈ frels, r ∈ en.rels := by
  obtain ⟨fl, H⟩ := reachRB_inv run cap rel ops hf
  obtain ⟨_, _, _, _, hiff, _⟩ := sel_spec H hg
  rw [hiff e, mem_matching]
  simp only [entryMatches, Bool.and_eq_true, List.all_eq_true, decide_eq_true_eq]

/-- **batch removal** — the specification loses exactly the matching entries and every target
    among the removed entities reads the zero entity in the entries that stay (= the fold of the
    single `RemoveEntity` steps over them, in any order); no handle is issued.  In the world:
    every matching entity is dead and its ID is not indexed any more; every other specified entity
    keeps its component set and its values, and each of its targets reads the zero entity if it
    was removed and is unchanged otherwise. -/
theorem delb_effect (ops : List OpRB) (f : Filter) (frels : Rels)
    (hf : Fits Budget.init (ops ++ [.delb f frels]))
    (hg : guardRB (reachRB run cap rel ops) (.delb f frels) = true) :
    (reachRB run cap rel (ops ++ [.delb f frels])).ss.ents =
      ((reachRB run cap rel ops).ss.ents.filter fun x =>
        decide (x.1 ∉ matching (reachRB run cap rel ops).ss f frels)).map (fun x =>
          (x.1, detachAll (matching (reachRB run cap rel ops).ss f frels) x.2)) ∧
    (reachRB run cap rel (ops ++ [.delb f frels])).ss.zst = (reachRB run cap rel ops).ss.zst ∧
    (reachRB run cap rel (ops ++ [.delb f frels])).issued = (reachRB run cap rel ops).issued ∧
    (∀ (e : Ent), e ∈ matching (reachRB run cap rel ops).ss f frels →
      (reachRB run cap rel (ops ++ [.delb f frels])).w.alive e = false ∧
      compsOf (reachRB run cap rel (ops ++ [.delb f frels])).w e.id = none ∧
      (∀ c : Comp, valOf (reachRB run cap rel (ops ++ [.delb f frels])).w e.id c = none) ∧
      ∀ c : Comp, targetOf (reachRB run cap rel (ops ++ [.delb f frels])).w e.id c = none) ∧
    ∀ (x : Ent) (en : Entry), (x, en) ∈ (reachRB run cap rel ops).ss.ents →
      x ∉ matching (reachRB run cap rel ops).ss f frels →
      (reachRB run cap rel (ops ++ [.delb f frels])).w.alive x = true ∧
      compsOf (reachRB run cap rel (ops ++ [.delb f frels])).w x.id =
        compsOf (reachRB run cap rel ops).w x.id ∧
      (∀ c : Comp, valOf (reachRB run cap rel (ops ++ [.delb f frels])).w x.id c =
        valOf (reachRB run cap rel ops).w x.id c) ∧
      ∀ c : Comp, targetOf (reachRB run cap rel (ops ++ [.delb f frels])).w x.id c =
        (targetOf (reachRB run cap rel ops).w x.id c).map
          (zeroIn (matching (reachRB run cap rel ops).ss f frels)) := by
  obtain ⟨fl, H, _, hroom, _, _⟩ := reachRB_step run cap rel ops _ hf
  obtain ⟨w', _, hst, post, _, H'⟩ := step_delb run H f frels hg hroom
  obtain ⟨_, _, _, _, hiff, hids, _⟩ := sel_spec H (show frelsExpr _ f frels = true from hg)
  have hnd := H.hinv.ginv.live_nodup
  rw [reachRB_snoc, hst]
  refine ⟨specDelAll_ents _ _ hnd (fun e he => matching_sub he) (matching_nodup hnd f frels),
    specDelAll_zst _ _, rfl, ?_, ?_⟩
  · intro e he
    have hs := (hiff e).mpr he
    exact ⟨post.dead e hs, (post.unindexed e hs).2.1, (post.unindexed e hs).1,
      (post.unindexed e hs).2.2⟩
  · intro x en hm hnm
    have hid : x.id ∉ (selEnts (reachRB run cap rel ops).w f frels).map (·.id) := by
      intro hmm
      obtain ⟨e, he, heq⟩ := List.mem_map.mp hmm
      obtain ⟨en', hm', _⟩ := mem_matching.mp ((hiff e).mp he)
      have : e = x := H.hinv.id_inj hm' hm heq
      exact hnm (this ▸ (hiff e).mp he)
    obtain ⟨hsame, htg⟩ := post.frame x.id hid
    refine ⟨?_, hsame.2, hsame.1, fun c => ?_⟩
    · show w'.alive x = true
      rw [post.aliveFrame x hid]; exact (H.hinv.live_facts hm).2.1
    · show targetOf w' x.id c = _
      rw [htg c]
      cases targetOf (reachRB run cap rel ops).w x.id c with
      | none => rfl
      | some t => simp only [Option.map_some, zeroIn_congr hiff]

/-- **batch removal = the single removals** (C06 with relation targets, as steps of the machine):
    within the size bound of the singles, the step `delb f frels` and the run of `del e` over the
    selected entities in the batch's order reach the same specification, the same issued handles,
    the same pool (every later creation returns the same handle), and worlds that agree on the
    liveness of every handle and on the components, values and relation targets of every ID. -/
theorem delb_is_singles (ops : List OpRB) (f : Filter) (frels : Rels) (hf : Fits Budget.init ops)
    (hg : guardRB (reachRB run cap rel ops) (.delb f frels) = true)
    (hfew : (reachRB run cap rel ops).w.tables.length +
      (selEnts (reachRB run cap rel ops).w f frels).length *
        (reachRB run cap rel ops).w.relationArchetypes.length + 1 ≤ maxU32)
    (hrows : 2 * (reachRB run cap rel ops).w.entities.length < 2 ^ 32) :
    ∃ sb ss' : St,
      stepRB run (reachRB run cap rel ops) (.delb f frels) = sb ∧
      runOps run (reachRB run cap rel ops)
        ((selEnts (reachRB run cap rel ops).w f frels).map .del) = ss' ∧
      sb.ss = ss'.ss ∧ sb.issued = ss'.issued ∧ sb.w.pool = ss'.w.pool ∧
      (∀ x : Ent, sb.w.alive x = ss'.w.alive x) ∧
      (∀ (i : Nat) (c : Comp), valOf sb.w i c = valOf ss'.w i c) ∧
      (∀ i : Nat, compsOf sb.w i = compsOf ss'.w i) ∧
      (∀ (i : Nat) (c : Comp), targetOf sb.w i c = targetOf ss'.w i c) ∧
      ∃ fl', HInv ss' fl' := by
  obtain ⟨fl, H⟩ := reachRB_inv run cap rel ops hf
  obtain ⟨w', w'', h1, h2, h3, h4, h5, h6, h7, h8⟩ := delb_eq_singles run H f frels hg hfew hrows
  exact ⟨_, _, rfl, rfl, by rw [h1, h2], by rw [h1, h2], by rw [h1, h2]; exact h3,
    by rw [h1, h2]; exact h4, by rw [h1, h2]; exact h5, by rw [h1, h2]; exact h6,
    by rw [h1, h2]; exact h7, ⟨_, by rw [h2]; exact h8⟩⟩

/-- the specification step of `delb` does not depend on the order in which the selected entities
    are removed: any duplicate-free list with the same members gives the same specification -/
theorem delb_any_order (ops : List OpRB) (f : Filter) (frels : Rels) (hf : Fits Budget.init ops)
    (es : List Ent) (hes : es.Nodup)
    (hmem : ∀ e, e ∈ es ↔ e ∈ matching (reachRB run cap rel ops).ss f frels) :
    specStepRB (reachRB run cap rel ops).ss [] (.delb f frels) =
      specDelAll (reachRB run cap rel ops).ss es := by
  obtain ⟨fl, H⟩ := reachRB_inv run cap rel ops hf
  have hnd := H.hinv.ginv.live_nodup
  exact specDelAll_perm hnd (fun e he => matching_sub he) (matching_nodup hnd f frels) hes
    (fun e => (hmem e).symm)

/-- **`SetRelationsBatch`** — a valid call succeeds; the specification assigns `rels` in exactly
    the matching entries (the fold of the single `SetRelations` steps over them) and keeps the
    others; no handle is issued.  In the world: everybody keeps liveness, components and values;
    every matching entity has the targets named and keeps its other targets; nobody else's targets
    change. -/
theorem setrelb_effect (ops : List OpRB) (p : Path) (f : Filter) (frels rels : Rels)
    (hf : Fits Budget.init (ops ++ [.setrelb p f frels rels]))
    (hg : guardRB (reachRB run cap rel ops) (.setrelb p f frels rels) = true)
    (hp : preRB (reachRB run cap rel ops).ss (.setrelb p f frels rels)) :
    (reachRB run cap rel (ops ++ [.setrelb p f frels rels])).ss.ents =
      (reachRB run cap rel ops).ss.ents.map (fun x =>
        if x.1 ∈ matching (reachRB run cap rel ops).ss f frels then (x.1, setEntry rels x.2)
        else x) ∧
    (reachRB run cap rel (ops ++ [.setrelb p f frels rels])).issued =
      (reachRB run cap rel ops).issued ∧
    (∀ x : Ent, (reachRB run cap rel (ops ++ [.setrelb p f frels rels])).w.alive x =
      (reachRB run cap rel ops).w.alive x) ∧
    (∀ j : Nat, SameEnt (reachRB run cap rel ops).w
      (reachRB run cap rel (ops ++ [.setrelb p f frels rels])).w j) ∧
    (∀ e ∈ matching (reachRB run cap rel ops).ss f frels,
      (∀ r ∈ rels, targetOf (reachRB run cap rel (ops ++ [.setrelb p f frels rels])).w e.id r.comp =
        some r.target) ∧
      ∀ c : Comp, (∀ r ∈ rels, r.comp ≠ c) →
        targetOf (reachRB run cap rel (ops ++ [.setrelb p f frels rels])).w e.id c =
          targetOf (reachRB run cap rel ops).w e.id c) ∧
    ∀ (x : Ent) (en : Entry), (x, en) ∈ (reachRB run cap rel ops).ss.ents →
      x ∉ matching (reachRB run cap rel ops).ss f frels → ∀ c : Comp,
      targetOf (reachRB run cap rel (ops ++ [.setrelb p f frels rels])).w x.id c =
        targetOf (reachRB run cap rel ops).w x.id c := by
  obtain ⟨fl, H, _, hroom, _, _⟩ := reachRB_step run cap rel ops _ hf
  obtain ⟨_, gok⟩ := step_setrelb run H p f frels rels hg hroom
  obtain ⟨w', _, hst, post, _, _, hents, _⟩ := gok hp
  obtain ⟨hgx, _, _⟩ := guard_setrelb hg
  obtain ⟨_, _, _, _, hiff, _, _⟩ := sel_spec H hgx
  rw [reachRB_snoc, hst]
  refine ⟨hents, rfl, post.aliveSame, post.same, ?_, ?_⟩
  · intro e he
    exact ⟨post.targets e ((hiff e).mpr he), post.otherTargets e ((hiff e).mpr he)⟩
  · intro x en hm hnm c
    apply post.frame x.id
    intro hmm
    obtain ⟨e, he, heq⟩ := List.mem_map.mp hmm
    obtain ⟨en', hm', _⟩ := mem_matching.mp ((hiff e).mp he)
    have : e = x := H.hinv.id_inj hm' hm heq
    exact hnm (this ▸ (hiff e).mp he)

/-- **`SetRelationsBatch` = the single `SetRelations`** (C06, as steps of the machine; the singles
    may create one table each, hence the explicit size bound): same specification, same issued
    handles, same pool, worlds that agree on liveness, components, values and relation targets. -/
theorem setrelb_is_singles (ops : List OpRB) (p : Path) (f : Filter) (frels rels : Rels)
    (hf : Fits Budget.init (ops ++ [.setrelb p f frels rels]))
    (hg : guardRB (reachRB run cap rel ops) (.setrelb p f frels rels) = true)
    (hp : preRB (reachRB run cap rel ops).ss (.setrelb p f frels rels))
    (hfew : (reachRB run cap rel ops).w.tables.length +
      (selEnts (reachRB run cap rel ops).w f frels).length < maxU32) :
    ∃ sb ss' : St,
      stepRB run (reachRB run cap rel ops) (.setrelb p f frels rels) = sb ∧
      runOps run (reachRB run cap rel ops)
        ((selEnts (reachRB run cap rel ops).w f frels).map fun e => .setrel p e rels) = ss' ∧
      sb.ss = ss'.ss ∧ sb.issued = ss'.issued ∧ sb.w.pool = ss'.w.pool ∧
      (∀ x : Ent, sb.w.alive x = ss'.w.alive x) ∧
      (∀ (i : Nat) (c : Comp), valOf sb.w i c = valOf ss'.w i c) ∧
      (∀ i : Nat, compsOf sb.w i = compsOf ss'.w i) ∧
      (∀ (i : Nat) (c : Comp), targetOf sb.w i c = targetOf ss'.w i c) := by
  obtain ⟨fl, H, _, hroom, _, _⟩ := reachRB_step run cap rel ops _ hf
  obtain ⟨w', w'', h1, h2, h3, h4, h5, h6, h7⟩ :=
    setrelb_eq_singles run H p f frels rels hg hp hroom hfew
  exact ⟨_, _, rfl, rfl, by rw [h1, h2], by rw [h1, h2], by rw [h1, h2]; exact h3,
    by rw [h1, h2]; exact h4, by rw [h1, h2]; exact h5, by rw [h1, h2]; exact h6,
    by rw [h1, h2]; exact h7⟩

/-- **the single `Exchange` with relation targets** — an accepted `xchg p e add vals rem rels`
    rewrites exactly the entry of `e`: the components that stay keep their values, the added ones
    start at zero, then `vals` are written; the relations that stay, then the given ones -/
theorem xchg_effect (ops : List OpRB) (p : Path) (e : Ent) (add : List Comp) (vals : Comps)
    (rem : List Comp) (rels : Rels) (hf : Fits Budget.init (ops ++ [.xchg p e add vals rem rels]))
    (hg : guardRB (reachRB run cap rel ops) (.xchg p e add vals rem rels) = true) (en : Entry)
    (hfe : find (reachRB run cap rel ops).ss.ents e = some en)
    (hok : XchgOK (reachRB run cap rel ops).ss en add rem rels) :
    (reachRB run cap rel (ops ++ [.xchg p e add vals rem rels])).ss.ents =
      upd (reachRB run cap rel ops).ss.ents e
        (xchgEntry (reachRB run cap rel ops).ss.zst add vals rem rels) ∧
    (reachRB run cap rel (ops ++ [.xchg p e add vals rem rels])).issued =
      (reachRB run cap rel ops).issued ∧
    ∃ w', opExchange run p e add vals rem rels (reachRB run cap rel ops).w = .ok () w' := by
  obtain ⟨fl, H, _, hroom, _, _⟩ := reachRB_step run cap rel ops _ hf
  obtain ⟨_, _, _, gok⟩ := step_xchg run H hroom.1 hroom.2 p e add vals rem rels
  obtain ⟨w', hop⟩ := gok hg ⟨en, hfe, hok⟩
  refine ⟨?_, ?_, w', hop⟩
  · rw [reachRB_snoc]
    show (stepBatch run _ (.xchg p e add vals rem rels)).ss.ents = _
    simp only [stepBatch, hg, if_true, specStepRB, specXchg, hfe, if_pos hok]
  · rw [reachRB_snoc]
    show (stepBatch run _ (.xchg p e add vals rem rels)).issued = _
    simp only [stepBatch, hg, if_true, execRB, hop, retRB, List.reverse_nil, List.nil_append]

/-- **exchange batch over relation tables** — a valid call succeeds; the specification rewrites
    exactly the matching entries by `xchgEntry … add [] rem rels` (the fold of the single `Exchange`
    steps over them) and keeps the others; no handle is issued.  In the world: everybody keeps
    liveness; every matching entity has the components `(current \ rem) ∪ add`, keeps the values of
    the components that stay, reads zero in the added ones, and has exactly the relation targets:
    its old ones on the components that stay, and the given ones; nobody else changes. -/
theorem xchgb_effect (ops : List OpRB) (p : Path) (f : Filter) (frels : Rels) (add rem : List Comp)
    (rels : Rels) (hf : Fits Budget.init (ops ++ [.xchgb p f frels add rem rels]))
    (hg : guardRB (reachRB run cap rel ops) (.xchgb p f frels add rem rels) = true)
    (hp : preRB (reachRB run cap rel ops).ss (.xchgb p f frels add rem rels)) :
    (reachRB run cap rel (ops ++ [.xchgb p f frels add rem rels])).ss.ents =
      (reachRB run cap rel ops).ss.ents.map (fun x =>
        if x.1 ∈ matching (reachRB run cap rel ops).ss f frels then
          (x.1, xchgEntry (reachRB run cap rel ops).ss.zst add [] rem rels x.2)
        else x) ∧
    (reachRB run cap rel (ops ++ [.xchgb p f frels add rem rels])).issued =
      (reachRB run cap rel ops).issued ∧
    (∃ fl, XchgAllPost (reachRB run cap rel ops).w fl
      (selEnts (reachRB run cap rel ops).w f frels) add rem rels
      (reachRB run cap rel (ops ++ [.xchgb p f frels add rem rels])).w) ∧
    (∀ e, e ∈ selEnts (reachRB run cap rel ops).w f frels ↔
      e ∈ matching (reachRB run cap rel ops).ss f frels) := by
  obtain ⟨fl, H, _, hroom, _, _⟩ := reachRB_step run cap rel ops _ hf
  obtain ⟨_, gok⟩ := step_xchgb run H p f frels add rem rels hg hroom
  obtain ⟨w', _, hst, post, _, _, hents, _⟩ := gok hp
  obtain ⟨hgx, _⟩ := guard_xchgb hg
  obtain ⟨_, _, _, _, hiff, _, _⟩ := sel_spec H hgx
  rw [reachRB_snoc, hst]
  exact ⟨hents, rfl, ⟨fl, post⟩, hiff⟩

/-- … spelled out for the matching entities and the others -/
theorem xchgb_world (ops : List OpRB) (p : Path) (f : Filter) (frels : Rels) (add rem : List Comp)
    (rels : Rels) (hf : Fits Budget.init (ops ++ [.xchgb p f frels add rem rels]))
    (hg : guardRB (reachRB run cap rel ops) (.xchgb p f frels add rem rels) = true)
    (hp : preRB (reachRB run cap rel ops).ss (.xchgb p f frels add rem rels)) :
    (∀ (e : Ent) (en : Entry), (e, en) ∈ (reachRB run cap rel ops).ss.ents →
      entryMatches f frels en = true →
      (∀ c ∈ rem, valOf (reachRB run cap rel (ops ++ [.xchgb p f frels add rem rels])).w e.id c = none ∧
        targetOf (reachRB run cap rel (ops ++ [.xchgb p f frels add rem rels])).w e.id c = none) ∧
      (∀ c ∈ add, valOf (reachRB run cap rel (ops ++ [.xchgb p f frels add rem rels])).w e.id c =
        some 0) ∧
      (∀ cv ∈ en.comps, cv.1 ∉ rem →
        valOf (reachRB run cap rel (ops ++ [.xchgb p f frels add rem rels])).w e.id cv.1 = some cv.2) ∧
      (∀ r ∈ rels, targetOf (reachRB run cap rel (ops ++ [.xchgb p f frels add rem rels])).w e.id r.comp =
        some r.target) ∧
      (∀ r ∈ en.rels, r.comp ∉ rem →
        targetOf (reachRB run cap rel (ops ++ [.xchgb p f frels add rem rels])).w e.id r.comp =
          some r.target)) ∧
    (∀ (x : Ent) (en : Entry), (x, en) ∈ (reachRB run cap rel ops).ss.ents →
      entryMatches f frels en = false →
      compsOf (reachRB run cap rel (ops ++ [.xchgb p f frels add rem rels])).w x.id =
        compsOf (reachRB run cap rel ops).w x.id ∧
      (∀ c : Comp, valOf (reachRB run cap rel (ops ++ [.xchgb p f frels add rem rels])).w x.id c =
        valOf (reachRB run cap rel ops).w x.id c) ∧
      ∀ c : Comp, targetOf (reachRB run cap rel (ops ++ [.xchgb p f frels add rem rels])).w x.id c =
        targetOf (reachRB run cap rel ops).w x.id c) := by
  obtain ⟨hents, _, _, _⟩ := xchgb_effect run cap rel ops p f frels add rem rels hf hg hp
  obtain ⟨hf1, _⟩ := (fits_snoc _ _ _).mp hf
  obtain ⟨fl, H⟩ := reachRB_inv run cap rel ops hf1
  have hnd := H.hinv.ginv.live_nodup
  constructor
  · intro e en hm hmm
    have hmem : e ∈ matching (reachRB run cap rel ops).ss f frels :=
      (mem_matching_of_mem hnd f frels hm).mpr hmm
    have hm' : (e, xchgEntry (reachRB run cap rel ops).ss.zst add [] rem rels en) ∈
        (reachRB run cap rel (ops ++ [.xchgb p f frels add rem rels])).ss.ents := by
      rw [hents]
      refine List.mem_map.mpr ⟨(e, en), hm, ?_⟩
      simp only [hmem, if_true]
    obtain ⟨_, _, v2, t2, hknd, _, hrnd2, hrk⟩ := refines run cap rel _ hf e _ hm'
    have hkeys : keys (xchgEntry (reachRB run cap rel ops).ss.zst add [] rem rels en).comps =
        ((keys en.comps).filter fun c => decide (c ∉ rem)) ++ add := by
      show keys (Refine.writeComps _ [] ((en.comps.filter fun cv => decide (cv.1 ∉ rem)) ++
        Refine.zeros add)) = _
      rw [Refine.keys_writeComps, Refine.keys_append, Refine.keys_zeros, keys_filter_eq]
    obtain ⟨hgx, _, _, _, hcase⟩ := guard_xchgb hg
    have hloc : XchgLocal en add rem := by
      rcases hcase with k | k
      · exact absurd k hp.1
      · exact k e en hm hmm
    have hnk : ∀ c ∈ rem,
        c ∉ keys (xchgEntry (reachRB run cap rel ops).ss.zst add [] rem rels en).comps := by
      intro c hc hk
      rw [hkeys, List.mem_append, List.mem_filter] at hk
      rcases hk with ⟨_, k⟩ | k
      · simp at k; exact k hc
      · exact hloc.2.2.2 c k (hloc.2.1 c hc)
    refine ⟨fun c hc => ?_, fun c hc => ?_, fun cv hcv hnr => ?_, fun r hr => ?_, fun r hr hnr => ?_⟩
    · obtain ⟨a1, a2⟩ := refines_absent run cap rel _ hf e _ hm' c
      refine ⟨a1 (hnk c hc), a2 ?_⟩
      intro hk
      exact hnk c hc ((hrk c).mp hk).1
    · have := v2 (c, if (reachRB run cap rel ops).ss.zst.getD c false = true then 0
          else Ark.applyVals 0 [] c)
        (List.mem_map.mpr ⟨(c, 0), List.mem_append_right _ (List.mem_map.mpr ⟨c, hc, rfl⟩), rfl⟩)
      rw [this]; simp [Ark.applyVals]
    · have := v2 (cv.1, if (reachRB run cap rel ops).ss.zst.getD cv.1 false = true then cv.2
          else Ark.applyVals cv.2 [] cv.1)
        (List.mem_map.mpr ⟨cv, List.mem_append_left _
          (List.mem_filter.mpr ⟨hcv, by simpa using hnr⟩), rfl⟩)
      rw [this]; simp [Ark.applyVals]
    · exact t2 r (List.mem_append_right _ hr)
    · exact t2 r (List.mem_append_left _ (List.mem_filter.mpr ⟨hr, by simpa using hnr⟩))
  · intro x en hm hnm
    obtain ⟨fl', H'⟩ := reachRB_inv run cap rel _ hf
    apply same_entry H.hinv H'.hinv hm
    rw [reachRB_snoc]
    show (x, en) ∈ (stepBatch run _ (.xchgb p f frels add rem rels)).ss.ents
    simp only [stepBatch, hg, if_true]
    exact entry_after_xchgb hnd p f frels add rem rels hm hnm

/-- **exchange batch = the single `Exchange`s** (C06 over relation tables, as steps of the
    machine; the singles may create one table each, hence the explicit size bound): same
    specification, same issued handles, same pool, worlds that agree on liveness, components,
    values and relation targets. -/
theorem xchgb_is_singles (ops : List OpRB) (p : Path) (f : Filter) (frels : Rels)
    (add rem : List Comp) (rels : Rels)
    (hf : Fits Budget.init (ops ++ [.xchgb p f frels add rem rels]))
    (hg : guardRB (reachRB run cap rel ops) (.xchgb p f frels add rem rels) = true)
    (hp : preRB (reachRB run cap rel ops).ss (.xchgb p f frels add rem rels))
    (hfew : (reachRB run cap rel ops).w.tables.length +
      (selEnts (reachRB run cap rel ops).w f frels).length < maxU32) :
    ∃ sb ss' : St,
      stepRB run (reachRB run cap rel ops) (.xchgb p f frels add rem rels) = sb ∧
      runOpsRB run (reachRB run cap rel ops)
        ((selEnts (reachRB run cap rel ops).w f frels).map fun e => .xchg p e add [] rem rels) = ss' ∧
      sb.ss = ss'.ss ∧ sb.issued = ss'.issued ∧ sb.w.pool = ss'.w.pool ∧
      (∀ x : Ent, sb.w.alive x = ss'.w.alive x) ∧
      (∀ (i : Nat) (c : Comp), valOf sb.w i c = valOf ss'.w i c) ∧
      (∀ i : Nat, compsOf sb.w i = compsOf ss'.w i) ∧
      (∀ (i : Nat) (c : Comp), targetOf sb.w i c = targetOf ss'.w i c) := by
  obtain ⟨fl, H, _, hroom, _, _⟩ := reachRB_step run cap rel ops _ hf
  obtain ⟨w', w'', h1, h2, h3, h4, h5, h6, h7⟩ :=
    xchgb_eq_singles run H p f frels add rem rels hg hp hroom hfew
  exact ⟨_, _, rfl, rfl, by rw [h1, h2], by rw [h1, h2], by rw [h1, h2]; exact h3,
    by rw [h1, h2]; exact h4, by rw [h1, h2]; exact h5, by rw [h1, h2]; exact h6,
    by rw [h1, h2]; exact h7⟩

/-! ## frame -/

/-- **frame** (specification): a batch step changes only the entries of the selected entities —
    an entity the filter does not match keeps its entry; after `delb` every target of it that was
    selected reads the zero entity -/
theorem frame_delb (ops : List OpRB) (hf : Fits Budget.init ops) (f : Filter) (frels : Rels)
    (x : Ent) (en : Entry) (hm : (x, en) ∈ (reachRB run cap rel ops).ss.ents)
    (hnm : entryMatches f frels en = false) :
    (x, detachAll (matching (reachRB run cap rel ops).ss f frels) en) ∈
      (specStepRB (reachRB run cap rel ops).ss [] (.delb f frels)).ents := by
  obtain ⟨fl, H⟩ := reachRB_inv run cap rel ops hf
  exact entry_after_delb H.hinv.ginv.live_nodup f frels hm hnm

theorem frame_setrelb (ops : List OpRB) (hf : Fits Budget.init ops) (p : Path) (f : Filter)
    (frels rels : Rels) (x : Ent) (en : Entry) (hm : (x, en) ∈ (reachRB run cap rel ops).ss.ents)
    (hnm : entryMatches f frels en = false) :
    (x, en) ∈ (specStepRB (reachRB run cap rel ops).ss [] (.setrelb p f frels rels)).ents := by
  obtain ⟨fl, H⟩ := reachRB_inv run cap rel ops hf
  exact entry_after_setrelb H.hinv.ginv.live_nodup p f frels rels hm hnm

theorem frame_xchgb (ops : List OpRB) (hf : Fits Budget.init ops) (p : Path) (f : Filter)
    (frels : Rels) (add rem : List Comp) (rels : Rels) (x : Ent) (en : Entry)
    (hm : (x, en) ∈ (reachRB run cap rel ops).ss.ents) (hnm : entryMatches f frels en = false) :
    (x, en) ∈ (specStepRB (reachRB run cap rel ops).ss [] (.xchgb p f frels add rem rels)).ents := by
  obtain ⟨fl, H⟩ := reachRB_inv run cap rel ops hf
  exact entry_after_xchgb H.hinv.ginv.live_nodup p f frels add rem rels hm hnm

/-- an entity whose entry is the same before and after a step reads the same before and after:
    component set, values, relation targets -/
theorem same_entry_same_entity (ops : List OpRB) (op : OpRB) (hf : Fits Budget.init (ops ++ [op]))
    (x : Ent) (en : Entry) (hm : (x, en) ∈ (reachRB run cap rel ops).ss.ents)
    (hm' : (x, en) ∈ (reachRB run cap rel (ops ++ [op])).ss.ents) :
    compsOf (reachRB run cap rel (ops ++ [op])).w x.id = compsOf (reachRB run cap rel ops).w x.id ∧
    (∀ c : Comp, valOf (reachRB run cap rel (ops ++ [op])).w x.id c =
      valOf (reachRB run cap rel ops).w x.id c) ∧
    ∀ c : Comp, targetOf (reachRB run cap rel (ops ++ [op])).w x.id c =
      targetOf (reachRB run cap rel ops).w x.id c := by
  obtain ⟨hf1, _⟩ := (fits_snoc _ _ _).mp hf
  obtain ⟨fl, H⟩ := reachRB_inv run cap rel ops hf1
  obtain ⟨fl', H'⟩ := reachRB_inv run cap rel _ hf
  exact same_entry H.hinv H'.hinv hm hm'

/-- **frame** (model), single operations inside mixed histories: an operation of `Ark.RelRefine`
    other than `del` that does not name `x` (`subject`) changes nothing of the specified entity
    `x`: component set, values, relation targets.  (For `del g` — and the batch removal — the
    targets equal to a removed entity become the zero entity: `delb_effect`.) -/
theorem frame_world_base (ops : List OpRB) (op : Op) (hf : Fits Budget.init (ops ++ [.base op]))
    (x : Ent) (en : Entry) (hm : (x, en) ∈ (reachRB run cap rel ops).ss.ents)
    (hd : op.isDel = false) (hx : subject op ≠ some x) :
    compsOf (reachRB run cap rel (ops ++ [.base op])).w x.id =
      compsOf (reachRB run cap rel ops).w x.id ∧
    (∀ c : Comp, valOf (reachRB run cap rel (ops ++ [.base op])).w x.id c =
      valOf (reachRB run cap rel ops).w x.id c) ∧
    ∀ c : Comp, targetOf (reachRB run cap rel (ops ++ [.base op])).w x.id c =
      targetOf (reachRB run cap rel ops).w x.id c := by
  obtain ⟨fl, H, _, hroom, _, _⟩ := reachRB_step run cap rel ops _ hf
  apply same_entry_same_entity run cap rel ops (.base op) hf x en hm
  rw [reachRB_snoc]
  exact entry_kept_base run H op hroom hm hd hx

/-- **frame** (model), batches: a batch on a filter never changes an entity the filter does not
    match and that has no selected entity as a target — every specified entity whose entry the
    filter does not match and none of whose recorded targets is matched has the same component
    set, the same values and the same relation targets before and after `delb` / `setrelb` /
    `xchgb`; and a single `xchg` on `e` changes no other entity.
    (An unmatched entity WITH a removed target keeps components and values and reads zero for that
    target: `delb_effect`.) -/
theorem frame_world_batch (ops : List OpRB) (op : OpRB) (hf : Fits Budget.init (ops ++ [op]))
    (x : Ent) (en : Entry) (hm : (x, en) ∈ (reachRB run cap rel ops).ss.ents)
    (hop : (∃ f frels, op = .delb f frels ∧ entryMatches f frels en = false ∧
        ∀ r ∈ en.rels, r.target ∉ matching (reachRB run cap rel ops).ss f frels) ∨
      (∃ p f frels rels, op = .setrelb p f frels rels ∧ entryMatches f frels en = false) ∨
      (∃ p f frels add rem rels, op = .xchgb p f frels add rem rels ∧
        entryMatches f frels en = false) ∨
      (∃ p e add vals rem rels, op = .xchg p e add vals rem rels ∧ x ≠ e)) :
    compsOf (reachRB run cap rel (ops ++ [op])).w x.id = compsOf (reachRB run cap rel ops).w x.id ∧
    (∀ c : Comp, valOf (reachRB run cap rel (ops ++ [op])).w x.id c =
      valOf (reachRB run cap rel ops).w x.id c) ∧
    ∀ c : Comp, targetOf (reachRB run cap rel (ops ++ [op])).w x.id c =
      targetOf (reachRB run cap rel ops).w x.id c := by
  obtain ⟨hf1, _⟩ := (fits_snoc _ _ _).mp hf
  obtain ⟨fl, H⟩ := reachRB_inv run cap rel ops hf1
  have hnd := H.hinv.ginv.live_nodup
  apply same_entry_same_entity run cap rel ops op hf x en hm
  rw [reachRB_snoc]
  rcases hop with ⟨f, frels, rfl, hnm, hnt⟩ | ⟨p, f, frels, rels, rfl, hnm⟩ |
    ⟨p, f, frels, add, rem, rels, rfl, hnm⟩ | ⟨p, e, add, vals, rem, rels, rfl, hne⟩
  · show (x, en) ∈ (stepBatch run _ (.delb f frels)).ss.ents
    simp only [stepBatch]
    split
    · have := entry_after_delb hnd f frels hm hnm
      rw [detachAll_of_no_target hnt] at this
      exact this
    · exact hm
  · show (x, en) ∈ (stepBatch run _ (.setrelb p f frels rels)).ss.ents
    simp only [stepBatch]
    split
    · exact entry_after_setrelb hnd p f frels rels hm hnm
    · exact hm
  · show (x, en) ∈ (stepBatch run _ (.xchgb p f frels add rem rels)).ss.ents
    simp only [stepBatch]
    split
    · exact entry_after_xchgb hnd p f frels add rem rels hm hnm
    · exact hm
  · show (x, en) ∈ (stepBatch run _ (.xchg p e add vals rem rels)).ss.ents
    simp only [stepBatch]
    split
    · exact entry_after_xchg hnd p e add vals rem rels hm hne
    · exact hm

/-! ## non-vacuity: a concrete history with relation targets among the batch-removed

Components: 0 = `ChildOf` (relation), 1 = `Pos`, 2 = `Parent` (marker).  Grandparent `gp = 2.0`;
parents `pa = 3.0`, `pb = 4.0` (children of `gp`, marked `Parent`); children `5.0`, `7.0` of `pa`,
child `6.0` of `pb`.  Then: `SetRelationsBatch` re-parents the children of `pa` to `pb` (filter
"has `ChildOf`, target `pa`"); `RemoveEntities` on "has `Parent`" removes BOTH parents at once —
they are the targets of `5.0 6.0 7.0`, which are detached, and children of `gp`; finally
`RemoveEntities` on "has `ChildOf`, target zero" removes the three orphans. -/

/-- the uncached filter "has all of `cs`" -/
def has (cs : List Comp) : Filter := { mask := Mask.ofList cs }

def gp : Ent := ⟨2, 0⟩
def pa : Ent := ⟨3, 0⟩
def pb : Ent := ⟨4, 0⟩

def demoOps : List OpRB :=
  [.base (.reg 0 true true), .base (.reg 8 false false), .base (.reg 0 true false),
   .base (.new .typed [1] [(1, 1)] []),
   .base (.new .typed [0, 1, 2] [(1, 2)] [⟨0, gp⟩]),
   .base (.new .typed [0, 1, 2] [(1, 3)] [⟨0, gp⟩]),
   .base (.new .typed [0, 1] [(1, 4)] [⟨0, pa⟩]),
   .base (.new .unsafe_ [0, 1] [(1, 5)] [⟨0, pb⟩]),
   .base (.new .typed [0, 1] [(1, 6)] [⟨0, pa⟩]),
   .setrelb .typed (has [0]) [⟨0, pa⟩] [⟨0, pb⟩],
   .delb (has [2]) [],
   .delb (has [0]) [⟨0, Ent.zero⟩]]

/-- the model agrees with the specification entry by entry (decidable form of `refines`) -/
def agrees (s : St) : Bool :=
  s.ss.ents.all fun x =>
    s.w.alive x.1 && (compsOf s.w x.1.id == some (sortedIds s.w.kinds.length (keys x.2.comps))) &&
      (x.2.comps.all fun cv => valOf s.w x.1.id cv.1 == some cv.2) &&
      (x.2.rels.all fun r => targetOf s.w x.1.id r.comp == some r.target)

/-- the history is within the bound, every operation of it is expressible (`guardRB`) and its
    precondition holds where it is issued; the budget it uses (tables, relation archetypes, index
    slots) -/
example :
    Fits Budget.init demoOps ∧ budget Budget.init demoOps = ⟨290, 9, 11⟩ ∧
    ((List.range 12).map fun k =>
      guardRB (reachRB noProbe 2 2 (demoOps.take k)) (demoOps.getD k (.delb {} []))) =
      List.replicate 12 true ∧
    preRB (reachRB noProbe 2 2 (demoOps.take 9)).ss (.setrelb .typed (has [0]) [⟨0, pa⟩] [⟨0, pb⟩]) := by
  refine ⟨by decide +kernel, by decide +kernel, by decide +kernel,
    ⟨by decide, by decide +kernel, by decide +kernel⟩⟩

/-- the invariant holds at the end of the history -/
example : ∃ fl, HInvRB (reachRB noProbe 2 2 demoOps) fl :=
  reach_inv noProbe 2 2 demoOps (by decide +kernel)

/-- before the batches: the specification; model and specification select the same entities -/
example :
    (reachRB noProbe 2 2 (demoOps.take 9)).ss.ents =
      [(⟨7, 0⟩, ⟨[(0, 0), (1, 6)], [⟨0, pa⟩]⟩), (⟨6, 0⟩, ⟨[(0, 0), (1, 5)], [⟨0, pb⟩]⟩),
       (⟨5, 0⟩, ⟨[(0, 0), (1, 4)], [⟨0, pa⟩]⟩),
       (pb, ⟨[(0, 0), (1, 3), (2, 0)], [⟨0, gp⟩]⟩), (pa, ⟨[(0, 0), (1, 2), (2, 0)], [⟨0, gp⟩]⟩),
       (gp, ⟨[(1, 1)], []⟩)] ∧
    agrees (reachRB noProbe 2 2 (demoOps.take 9)) = true ∧
    matching (reachRB noProbe 2 2 (demoOps.take 9)).ss (has [0]) [⟨0, pa⟩] = [⟨7, 0⟩, ⟨5, 0⟩] ∧
    selEnts (reachRB noProbe 2 2 (demoOps.take 9)).w (has [0]) [⟨0, pa⟩] = [⟨5, 0⟩, ⟨7, 0⟩] ∧
    matching (reachRB noProbe 2 2 (demoOps.take 9)).ss (has [2]) [] = [pb, pa] ∧
    selEnts (reachRB noProbe 2 2 (demoOps.take 9)).w (has [2]) [] = [pa, pb] := by
  decide +kernel

/-- after `SetRelationsBatch`: the children of `pa` are children of `pb`; values kept -/
example :
    (reachRB noProbe 2 2 (demoOps.take 10)).ss.ents =
      [(⟨7, 0⟩, ⟨[(0, 0), (1, 6)], [⟨0, pb⟩]⟩), (⟨6, 0⟩, ⟨[(0, 0), (1, 5)], [⟨0, pb⟩]⟩),
       (⟨5, 0⟩, ⟨[(0, 0), (1, 4)], [⟨0, pb⟩]⟩),
       (pb, ⟨[(0, 0), (1, 3), (2, 0)], [⟨0, gp⟩]⟩), (pa, ⟨[(0, 0), (1, 2), (2, 0)], [⟨0, gp⟩]⟩),
       (gp, ⟨[(1, 1)], []⟩)] ∧
    agrees (reachRB noProbe 2 2 (demoOps.take 10)) = true ∧
    (reachRB noProbe 2 2 (demoOps.take 10)).w.isLocked = false ∧
    (targetOf (reachRB noProbe 2 2 (demoOps.take 10)).w 5 0,
      targetOf (reachRB noProbe 2 2 (demoOps.take 10)).w 7 0,
      valOf (reachRB noProbe 2 2 (demoOps.take 10)).w 7 1) = (some pb, some pb, some 6) := by
  decide +kernel

/-- after the batch removal of both parents: their entries are gone, the three children read the
    zero entity as target and keep their values; the removed handles are dead; then the orphans
    are removed by a filter WITH a relation constraint (target zero); `gp` is left -/
example :
    (reachRB noProbe 2 2 (demoOps.take 11)).ss.ents =
      [(⟨7, 0⟩, ⟨[(0, 0), (1, 6)], [⟨0, Ent.zero⟩]⟩), (⟨6, 0⟩, ⟨[(0, 0), (1, 5)], [⟨0, Ent.zero⟩]⟩),
       (⟨5, 0⟩, ⟨[(0, 0), (1, 4)], [⟨0, Ent.zero⟩]⟩), (gp, ⟨[(1, 1)], []⟩)] ∧
    agrees (reachRB noProbe 2 2 (demoOps.take 11)) = true ∧
    ((reachRB noProbe 2 2 (demoOps.take 11)).w.alive pa, (reachRB noProbe 2 2 (demoOps.take 11)).w.alive pb) =
      (false, false) ∧
    (targetOf (reachRB noProbe 2 2 (demoOps.take 11)).w 5 0,
      targetOf (reachRB noProbe 2 2 (demoOps.take 11)).w 6 0,
      valOf (reachRB noProbe 2 2 (demoOps.take 11)).w 6 1) = (some Ent.zero, some Ent.zero, some 5) ∧
    (reachRB noProbe 2 2 demoOps).ss.ents = [(gp, ⟨[(1, 1)], []⟩)] ∧
    agrees (reachRB noProbe 2 2 demoOps) = true ∧
    (reachRB noProbe 2 2 demoOps).issued.map (reachRB noProbe 2 2 demoOps).w.alive =
      [false, false, false, false, false, true] := by
  decide +kernel

/-- the batch removal against the run of single removals, in the state before it: the hypotheses
    of `delb_is_singles` hold, and the two machine states agree (checked directly) -/
example :
    (reachRB noProbe 2 2 (demoOps.take 10)).w.tables.length +
      (selEnts (reachRB noProbe 2 2 (demoOps.take 10)).w (has [2]) []).length *
        (reachRB noProbe 2 2 (demoOps.take 10)).w.relationArchetypes.length + 1 ≤ maxU32 ∧
    (stepRB noProbe (reachRB noProbe 2 2 (demoOps.take 10)) (.delb (has [2]) [])).ss.ents =
      (runOps noProbe (reachRB noProbe 2 2 (demoOps.take 10)) [.del pa, .del pb]).ss.ents ∧
    (stepRB noProbe (reachRB noProbe 2 2 (demoOps.take 10)) (.delb (has [2]) [])).w.pool =
      (runOps noProbe (reachRB noProbe 2 2 (demoOps.take 10)) [.del pa, .del pb]).w.pool ∧
    (stepRB noProbe (reachRB noProbe 2 2 (demoOps.take 10)) (.delb (has [2]) [])).ss.ents =
      (runOps noProbe (reachRB noProbe 2 2 (demoOps.take 10)) [.del pb, .del pa]).ss.ents := by
  decide +kernel

/-- rejected batches in the state before the batches: the empty relation list, a removed entity
    as target (after `pa` was removed singly), a component that is not a relation component — the
    world comes back unchanged and the machine state does not move -/
example :
    panicOf (execRB noProbe (reachRB noProbe 2 2 (demoOps.take 9)).w (.setrelb .typed (has [0]) [] [])) =
      some .noRelations ∧
    panicOf (execRB noProbe (reachRB noProbe 2 2 (demoOps.take 9 ++ [.base (.del pa)])).w
      (.setrelb .typed (has [0]) [] [⟨0, pa⟩])) = some .deadTarget ∧
    guardRB (reachRB noProbe 2 2 (demoOps.take 9 ++ [.base (.del pa)]))
      (.setrelb .typed (has [0]) [] [⟨0, pa⟩]) = true ∧
    (stepRB noProbe (reachRB noProbe 2 2 (demoOps.take 9 ++ [.base (.del pa)]))
      (.setrelb .typed (has [0]) [] [⟨0, pa⟩])).w.tables =
      (reachRB noProbe 2 2 (demoOps.take 9 ++ [.base (.del pa)])).w.tables ∧
    panicOf (execRB noProbe (reachRB noProbe 2 2 (demoOps.take 9)).w
      (.setrelb .map1 (has [1]) [] [⟨1, gp⟩])) = some .notRelation ∧
    guardRB (reachRB noProbe 2 2 (demoOps.take 9)) (.setrelb .map1 (has [1]) [] [⟨1, gp⟩]) = true ∧
    (stepRB noProbe (reachRB noProbe 2 2 (demoOps.take 9)) (.setrelb .map1 (has [1]) [] [⟨1, gp⟩])).ss.ents =
      (reachRB noProbe 2 2 (demoOps.take 9)).ss.ents := by
  decide +kernel

/-- **finding (why "only components the filter requires" is part of `guardRB`)**: in the state
    before the batches the filter "has `Pos`" selects all six entities; `gp` has no `ChildOf`.
    `SetRelationsBatch(ChildOf → pb)` on it passes the pre-validation and panics (`noRelComponent`)
    when the planning loop reaches the table of `gp` — here the first table, so nothing was created
    yet.  With one more entity `8.0` that has `Pos` and `Parent` but no `ChildOf`, the filter "has
    `Parent`" selects the table of `pa`, `pb` first: the planning creates the destination table
    (`ChildOf → pb`) for it and THEN panics at the table of `8.0`.  Since the repair D27 the world
    lock is taken only after the planning loop, so the world is NOT left locked (before, Go's
    `panic` unwound past the `unlock`); but the table the planning created remains (6 → 7 tables),
    so such a call is not "rejected with the world unchanged", and it is not a step of the machine
    (`guardRB = false`). -/
example :
    guardRB (reachRB noProbe 2 2 (demoOps.take 9)) (.setrelb .typed (has [1]) [] [⟨0, pb⟩]) = false ∧
    panicOf (execRB noProbe (reachRB noProbe 2 2 (demoOps.take 9)).w
      (.setrelb .typed (has [1]) [] [⟨0, pb⟩])) = some .noRelComponent ∧
    (reachRB noProbe 2 2 (demoOps.take 9)).w.isLocked = false ∧
    (execRB noProbe (reachRB noProbe 2 2 (demoOps.take 9)).w
      (.setrelb .typed (has [1]) [] [⟨0, pb⟩])).state.isLocked = false := by
  decide +kernel

example :
    guardRB (reachRB noProbe 2 2 (demoOps.take 9 ++ [.base (.new .typed [1, 2] [] [])]))
      (.setrelb .typed (has [2]) [] [⟨0, pb⟩]) = false ∧
    panicOf (execRB noProbe (reachRB noProbe 2 2 (demoOps.take 9 ++ [.base (.new .typed [1, 2] [] [])])).w
      (.setrelb .typed (has [2]) [] [⟨0, pb⟩])) = some .noRelComponent ∧
    (reachRB noProbe 2 2 (demoOps.take 9 ++ [.base (.new .typed [1, 2] [] [])])).w.tables.length = 6 ∧
    (execRB noProbe (reachRB noProbe 2 2 (demoOps.take 9 ++ [.base (.new .typed [1, 2] [] [])])).w
      (.setrelb .typed (has [2]) [] [⟨0, pb⟩])).state.tables.length = 7 ∧
    (execRB noProbe (reachRB noProbe 2 2 (demoOps.take 9 ++ [.base (.new .typed [1, 2] [] [])])).w
      (.setrelb .typed (has [2]) [] [⟨0, pb⟩])).state.isLocked = false ∧
    (execRB noProbe (reachRB noProbe 2 2 (demoOps.take 9 ++ [.base (.new .typed [1, 2] [] [])])).w
      (.setrelb .typed (has [2]) [] [⟨0, pb⟩])).state.entities =
      (reachRB noProbe 2 2 (demoOps.take 9 ++ [.base (.new .typed [1, 2] [] [])])).w.entities := by
  decide +kernel

/-! ## non-vacuity: exchange batches over relation tables

From the state before the batches of `demoOps`: `AddBatch` of the relation component `ChildOf` with
target `pb` to everything that has `Pos` but no `ChildOf` (that is `gp`: now a child of its own
grandchild's parent); `RemoveBatch` of the marker `Parent`; `ExchangeBatch` on "has `ChildOf`,
target `gp`" (`pa`, `pb`): remove the relation component `ChildOf` — the relation goes with it —
and add `Parent`; a single `Exchange` on `5.0`, writing `Pos`. -/

def demoX : List OpRB :=
  demoOps.take 9 ++
  [.xchgb .typed ((has [1]).withoutList [0]) [] [0] [] [⟨0, pb⟩],
   .xchgb .unsafe_ (has [2]) [] [] [2] [],
   .xchgb .typed (has [0]) [⟨0, gp⟩] [2] [0] [],
   .xchg .typed ⟨5, 0⟩ [2] [(1, 40)] [0] []]

/-- the history is within the bound, every operation is expressible, the preconditions of the
    three batches hold where they are issued -/
example :
    Fits Budget.init demoX ∧
    ((List.range 13).map fun k =>
      guardRB (reachRB noProbe 2 2 (demoX.take k)) (demoX.getD k (.delb {} []))) =
      List.replicate 13 true ∧
    preRB (reachRB noProbe 2 2 (demoX.take 9)).ss
      (.xchgb .typed ((has [1]).withoutList [0]) [] [0] [] [⟨0, pb⟩]) ∧
    preRB (reachRB noProbe 2 2 (demoX.take 10)).ss (.xchgb .unsafe_ (has [2]) [] [] [2] []) ∧
    preRB (reachRB noProbe 2 2 (demoX.take 11)).ss (.xchgb .typed (has [0]) [⟨0, gp⟩] [2] [0] []) := by
  refine ⟨by decide +kernel, by decide +kernel,
    ⟨by decide, by decide +kernel, by decide +kernel⟩,
    ⟨by decide, by decide +kernel, by decide +kernel⟩,
    ⟨by decide, by decide +kernel, by decide +kernel⟩⟩

example : ∃ fl, HInvRB (reachRB noProbe 2 2 demoX) fl :=
  reach_inv noProbe 2 2 demoX (by decide +kernel)

/-- the specification after each of the three batches and the single `Exchange`; the model agrees;
    model and specification select the same entities (in different orders) -/
example :
    (reachRB noProbe 2 2 (demoX.take 10)).ss.ents.getLast? = some (gp, ⟨[(1, 1), (0, 0)], [⟨0, pb⟩]⟩) ∧
    ((reachRB noProbe 2 2 (demoX.take 11)).ss.ents.map fun x => (x.1.id, keys x.2.comps)) =
      [(7, [0, 1]), (6, [0, 1]), (5, [0, 1]), (4, [0, 1]), (3, [0, 1]), (2, [1, 0])] ∧
    (reachRB noProbe 2 2 (demoX.take 12)).ss.ents =
      [(⟨7, 0⟩, ⟨[(0, 0), (1, 6)], [⟨0, pa⟩]⟩), (⟨6, 0⟩, ⟨[(0, 0), (1, 5)], [⟨0, pb⟩]⟩),
       (⟨5, 0⟩, ⟨[(0, 0), (1, 4)], [⟨0, pa⟩]⟩), (pb, ⟨[(1, 3), (2, 0)], []⟩),
       (pa, ⟨[(1, 2), (2, 0)], []⟩), (gp, ⟨[(1, 1), (0, 0)], [⟨0, pb⟩]⟩)] ∧
    (reachRB noProbe 2 2 demoX).ss.ents =
      [(⟨7, 0⟩, ⟨[(0, 0), (1, 6)], [⟨0, pa⟩]⟩), (⟨6, 0⟩, ⟨[(0, 0), (1, 5)], [⟨0, pb⟩]⟩),
       (⟨5, 0⟩, ⟨[(1, 40), (2, 0)], []⟩), (pb, ⟨[(1, 3), (2, 0)], []⟩),
       (pa, ⟨[(1, 2), (2, 0)], []⟩), (gp, ⟨[(1, 1), (0, 0)], [⟨0, pb⟩]⟩)] ∧
    ((List.range 14).map fun k => agrees (reachRB noProbe 2 2 (demoX.take k))) =
      List.replicate 14 true ∧
    matching (reachRB noProbe 2 2 (demoX.take 11)).ss (has [0]) [⟨0, gp⟩] = [pb, pa] ∧
    selEnts (reachRB noProbe 2 2 (demoX.take 11)).w (has [0]) [⟨0, gp⟩] = [pa, pb] ∧
    (targetOf (reachRB noProbe 2 2 (demoX.take 12)).w 3 0, valOf (reachRB noProbe 2 2 (demoX.take 12)).w 3 0,
      valOf (reachRB noProbe 2 2 (demoX.take 12)).w 3 2, targetOf (reachRB noProbe 2 2 (demoX.take 12)).w 2 0,
      (reachRB noProbe 2 2 (demoX.take 12)).w.isLocked) = (none, none, some 0, some pb, false) := by
  decide +kernel

/-- the exchange batch against the run of the single `Exchange`s (hypothesis of
    `xchgb_is_singles`, and the two machine states compared directly) -/
example :
    (reachRB noProbe 2 2 (demoX.take 11)).w.tables.length +
      (selEnts (reachRB noProbe 2 2 (demoX.take 11)).w (has [0]) [⟨0, gp⟩]).length < maxU32 ∧
    (stepRB noProbe (reachRB noProbe 2 2 (demoX.take 11))
      (.xchgb .typed (has [0]) [⟨0, gp⟩] [2] [0] [])).ss.ents =
      (runOpsRB noProbe (reachRB noProbe 2 2 (demoX.take 11))
        [.xchg .typed pa [2] [] [0] [], .xchg .typed pb [2] [] [0] []]).ss.ents ∧
    (stepRB noProbe (reachRB noProbe 2 2 (demoX.take 11))
      (.xchgb .typed (has [0]) [⟨0, gp⟩] [2] [0] [])).w.pool =
      (runOpsRB noProbe (reachRB noProbe 2 2 (demoX.take 11))
        [.xchg .typed pa [2] [] [0] [], .xchg .typed pb [2] [] [0] []]).w.pool := by
  decide +kernel

/-- rejected exchange batches: both lists empty; a removed entity as target — the world comes back
    unchanged and the machine state does not move -/
example :
    panicOf (execRB noProbe (reachRB noProbe 2 2 (demoX.take 9)).w (.xchgb .typed (has [1]) [] [] [] [])) =
      some .noComponents ∧
    guardRB (reachRB noProbe 2 2 (demoX.take 9)) (.xchgb .typed (has [1]) [] [] [] []) = true ∧
    panicOf (execRB noProbe (reachRB noProbe 2 2 (demoX.take 9 ++ [.base (.del pa)])).w
      (.xchgb .typed ((has [1]).withoutList [0]) [] [0] [] [⟨0, pa⟩])) = some .deadTarget ∧
    guardRB (reachRB noProbe 2 2 (demoX.take 9 ++ [.base (.del pa)]))
      (.xchgb .typed ((has [1]).withoutList [0]) [] [0] [] [⟨0, pa⟩]) = true ∧
    (stepRB noProbe (reachRB noProbe 2 2 (demoX.take 9 ++ [.base (.del pa)]))
      (.xchgb .typed ((has [1]).withoutList [0]) [] [0] [] [⟨0, pa⟩])).w.tables =
      (reachRB noProbe 2 2 (demoX.take 9 ++ [.base (.del pa)])).w.tables := by
  decide +kernel

/-- **finding (why the precondition of an exchange batch on every selected entity is part of
    `guardRB`)**, on relation tables as on plain ones: "has `Pos`: add `ChildOf → gp`" meets its
    precondition on `gp` and fails it on the five entities that already have `ChildOf`.  The
    planning loop creates the destination table of `gp`'s table (5 → 6 tables) and then panics
    (`alreadyHas`).  Since the repair D27 the lock is taken only after the planning, so the world
    is not left locked and later operations go on; but the table created by the planning remains:
    the call is not "rejected with the world unchanged".  Not a step. -/
example :
    guardRB (reachRB noProbe 2 2 (demoX.take 9)) (.xchgb .typed (has [1]) [] [0] [] [⟨0, gp⟩]) = false ∧
    panicOf (execRB noProbe (reachRB noProbe 2 2 (demoX.take 9)).w
      (.xchgb .typed (has [1]) [] [0] [] [⟨0, gp⟩])) = some .alreadyHas ∧
    (reachRB noProbe 2 2 (demoX.take 9)).w.tables.length = 5 ∧
    (execRB noProbe (reachRB noProbe 2 2 (demoX.take 9)).w
      (.xchgb .typed (has [1]) [] [0] [] [⟨0, gp⟩])).state.tables.length = 6 ∧
    (execRB noProbe (reachRB noProbe 2 2 (demoX.take 9)).w
      (.xchgb .typed (has [1]) [] [0] [] [⟨0, gp⟩])).state.isLocked = false ∧
    (execRB noProbe (reachRB noProbe 2 2 (demoX.take 9)).w
      (.xchgb .typed (has [1]) [] [0] [] [⟨0, gp⟩])).state.entities =
      (reachRB noProbe 2 2 (demoX.take 9)).w.entities ∧
    panicOf (execRB noProbe (execRB noProbe (reachRB noProbe 2 2 (demoX.take 9)).w
      (.xchgb .typed (has [1]) [] [0] [] [⟨0, gp⟩])).state (.base (.new .typed [1] [] []))) = none := by
  decide +kernel

end Ark.Props.C01RelBatch
