/-
  Ark.Props.C01World — C01 at world level: the entity index ↔ rows invariant (I2) and the frame
  / faithfulness consequences of the row-moving primitives ("an operation on one entity never
  changes another entity").  The invariant and its preservation are in Ark/Proofs/IdxInv.lean.
-/
import Ark.Proofs.IdxInv

namespace Ark.Props.C01World
open Ark Ark.World Ark.Table

/-- the value of component `c` of the entity with ID `i`, read through the index
    (`none` if the ID is not indexed to a table or the table has no such column) -/
def valOf (w : World) (i : Nat) (c : Comp) : Option Val :=
  match w.entities[i]? with
  | some (t, r) => if t = maxU32 then none else (w.tables[t]?).bind fun T => T.getComp c r
  | none => none

/-- the component set of the entity with ID `i` (its table's `ids`) -/
def compsOf (w : World) (i : Nat) : Option (List Comp) :=
  match w.entities[i]? with
  | some (t, _) => if t = maxU32 then none else (w.tables[t]?).map fun T => T.ids
  | none => none

/-- entity `j` has the same component set and the same values in `w'` as in `w` -/
def SameEnt (w w' : World) (j : Nat) : Prop :=
  (∀ c : Comp, valOf w' j c = valOf w j c) ∧ compsOf w' j = compsOf w j

theorem SameEnt.trans {a b c : World} {j : Nat} (h1 : SameEnt a b j) (h2 : SameEnt b c j) :
    SameEnt a c j :=
  ⟨fun x => (h2.1 x).trans (h1.1 x), h2.2.trans h1.2⟩

theorem valOf_congr {w w' : World} (he : w'.entities = w.entities) (ht : w'.tables = w.tables)
    (j : Nat) (c : Comp) : valOf w' j c = valOf w j c := by
  simp only [valOf, he, ht]

theorem compsOf_congr {w w' : World} (he : w'.entities = w.entities) (ht : w'.tables = w.tables)
    (j : Nat) : compsOf w' j = compsOf w j := by
  simp only [compsOf, he, ht]

theorem SameEnt.congr {a b b' : World} {j : Nat} (h : SameEnt a b j)
    (he : b'.entities = b.entities) (ht : b'.tables = b.tables) : SameEnt a b' j :=
  ⟨fun c => (valOf_congr he ht j c).trans (h.1 c), (compsOf_congr he ht j).trans h.2⟩

/-- an entry that is absent or points to no table, unchanged -/
theorem same_of_entry {w w' : World} {j : Nat} (he : w'.entities[j]? = w.entities[j]?)
    (hdead : ∀ t r : Nat, w.entities[j]? = some (t, r) → t = maxU32) : SameEnt w w' j := by
  constructor
  · intro c
    simp only [valOf, he]
    cases hx : w.entities[j]? with
    | none => rfl
    | some p => obtain ⟨t, r⟩ := p; simp only [hdead t r hx, if_true]
  · simp only [compsOf, he]
    cases hx : w.entities[j]? with
    | none => rfl
    | some p => obtain ⟨t, r⟩ := p; simp only [hdead t r hx, if_true]

/-- the row of `j` after the step has the same layout and cells as its row before -/
theorem same_of_rows {w w' : World} {j t r t' r' : Nat} {T T' : Table}
    (hi : w.entities[j]? = some (t, r)) (hi' : w'.entities[j]? = some (t', r'))
    (ht : t ≠ maxU32) (ht' : t' ≠ maxU32)
    (hT : w.tables[t]? = some T) (hT' : w'.tables[t']? = some T')
    (hids : T'.ids = T.ids) (hcell : ∀ i : Nat, T'.cell i r' = T.cell i r) : SameEnt w w' j := by
  constructor
  · intro c
    simp only [valOf, hi, hi', ht, ht', if_false, hT, hT', Option.bind_some, Table.getComp,
      Table.colIdx, hids, hcell]
  · simp only [compsOf, hi, hi', ht, ht', if_false, hT, hT', Option.map_some, hids]

/-! ### the three steps -/

/-- frame of a row-`row` write into table `t`, for entities not sitting in that row -/
theorem same_write {w : World} (h : IdxInv w) {t row j : Nat} {T' : Table}
    (hw : WriteRel row (w.tbl t) T') (hj : ((w.tbl t).getEntity row).id ≠ j) :
    SameEnt w (w.setTbl t T') j := by
  cases hx : w.entities[j]? with
  | none => exact same_of_entry rfl (fun t r hh => by rw [hx] at hh; cases hh)
  | some p =>
    obtain ⟨t1, r1⟩ := p
    by_cases ht1 : t1 = maxU32
    · exact same_of_entry rfl (fun t r hh => by
        rw [hx] at hh; cases hh; exact ht1)
    · obtain ⟨T1, hT1, hr1, hid1⟩ := h.idxRow j t1 r1 hx ht1
      by_cases htt : t1 = t
      · subst htt
        have := tbl_of_get hT1; subst this
        have hrr : r1 ≠ row := by intro heq; subst heq; exact hj hid1
        exact same_of_rows hx hx ht1 ht1 hT1 (setTbl_get_self T' (lt_of_get hT1)) hw.ids
          (fun i => hw.other i r1 hrr)
      · exact same_of_rows hx hx ht1 ht1 hT1
          (by rw [setTbl_get_ne w T' (Ne.symm htt)]; exact hT1) rfl (fun _ => rfl)

/-- frame of the removal block -/
theorem same_unplace {w : World} (h : IdxInv w) {e : Ent} {t row : Nat}
    (he : w.entities[e.id]? = some (t, row)) (ht : t ≠ maxU32) {j : Nat} (hj : j ≠ e.id) :
    SameEnt w (unplace w e t row) j := by
  obtain ⟨hT, hrow, hid⟩ := h.indexed he ht
  have hS := h.shape t _ hT
  have hlt := lt_of_get hT
  have hL := unplace_lookup h he ht j
  rw [if_neg hj] at hL
  have hse := h.rowIdx t _ ((w.tbl t).len - 1) hT (by omega)
  have hTnew : (unplace w e t row).tables[t]? = some ((w.tbl t).remove row).1 := by
    rw [unplace_tables]; exact List.getElem?_set_self hlt
  by_cases hsw : row ≠ (w.tbl t).len - 1 ∧ j = ((w.tbl t).getEntity ((w.tbl t).len - 1)).id
  · rw [if_pos hsw] at hL
    obtain ⟨hrl, rfl⟩ := hsw
    refine same_of_rows hse hL ht ht hT hTnew (Table.remove_ids _ _) (fun i => ?_)
    rw [Table.remove_cell hS row hrow, if_neg hrl, if_pos rfl]
  · rw [if_neg hsw] at hL
    cases hx : w.entities[j]? with
    | none => exact same_of_entry hL (fun t r hh => by rw [hx] at hh; cases hh)
    | some p =>
      obtain ⟨t1, r1⟩ := p
      by_cases ht1 : t1 = maxU32
      · exact same_of_entry hL (fun t r hh => by rw [hx] at hh; cases hh; exact ht1)
      · obtain ⟨T1, hT1, hr1, hid1⟩ := h.idxRow j t1 r1 hx ht1
        rw [hx] at hL
        by_cases htt : t1 = t
        · subst htt
          have := tbl_of_get hT1; subst this
          have hr_ne : r1 ≠ row := by
            intro heq; subst heq; exact hj (hid1.symm.trans hid)
          have hr_ne2 : r1 ≠ (w.tbl t1).len - 1 := by
            intro heq
            by_cases hrl : row = (w.tbl t1).len - 1
            · exact hr_ne (heq.trans hrl.symm)
            · exact hsw ⟨hrl, by rw [← heq]; exact hid1.symm⟩
          refine same_of_rows hx hL ht1 ht1 hT1 hTnew (Table.remove_ids _ _) (fun i => ?_)
          rw [Table.remove_cell hS row hrow, if_neg hr_ne2, if_neg hr_ne]
        · refine same_of_rows hx hL ht1 ht1 hT1 ?_ rfl (fun _ => rfl)
          rw [unplace_tables, List.getElem?_set_ne (Ne.symm htt)]; exact hT1

/-- frame of adding a handle to a table and indexing it -/
theorem same_place {w : World} (h : IdxInv w) (e : Ent) (t : Nat)
    (hle : e.id ≤ w.entities.length) {j : Nat} (hj : j ≠ e.id) :
    SameEnt w (place w e t) j := by
  have hL := place_lookup w e t hle j
  rw [if_neg hj] at hL
  cases hx : w.entities[j]? with
  | none => exact same_of_entry hL (fun t r hh => by rw [hx] at hh; cases hh)
  | some p =>
    obtain ⟨t1, r1⟩ := p
    by_cases ht1 : t1 = maxU32
    · exact same_of_entry hL (fun t r hh => by rw [hx] at hh; cases hh; exact ht1)
    · obtain ⟨T1, hT1, hr1, hid1⟩ := h.idxRow j t1 r1 hx ht1
      rw [hx] at hL
      by_cases htt : t1 = t
      · subst htt
        have := tbl_of_get hT1; subst this
        refine same_of_rows hx hL ht1 ht1 hT1 ?_ (Table.add_ids _ e)
          (fun i => Table.add_cell_lt _ e i r1 hr1)
        rw [place_tables]; exact List.getElem?_set_self (lt_of_get hT1)
      · refine same_of_rows hx hL ht1 ht1 hT1 ?_ rfl (fun _ => rfl)
        rw [place_tables, List.getElem?_set_ne (Ne.symm htt)]; exact hT1

/-! ### frame theorems -/

/-- **move_frame** — "add `e` to `newT`, then `moveRow`" (the tail of `add`/`remove`/`exchange`/
    `setRelations`) leaves every other entity ID with the same values and the same component
    set. -/
theorem move_frame {w : World} (h : IdxInv w) {e : Ent} {oldT row newT : Nat} (keep : Mask)
    (hne : oldT ≠ newT) (he : w.entities[e.id]? = some (oldT, row)) (ht : oldT ≠ maxU32)
    (hnl : newT < w.tables.length) (hb : (w.tbl newT).len + 1 < 2 ^ 32)
    {j : Nat} (hj : j ≠ e.id) :
    (∀ c : Comp, valOf (addMove w e oldT row newT keep) j c = valOf w j c) ∧
    compsOf (addMove w e oldT row newT keep) j = compsOf w j := by
  obtain ⟨h1, h2, hle, hpl, _, hge, hw, _⟩ := h.addMove_steps keep hne he ht hnl hb
  have hel : e.id < w.entities.length := by
    rcases Nat.lt_or_ge e.id w.entities.length with h1 | h1
    · exact h1
    · rw [List.getElem?_eq_none h1] at he; cases he
  have s1 := same_unplace h he ht hj
  have s2 := same_place h1 e newT hle hj
  have s3 : SameEnt (place (unplace w e oldT row) e newT)
      ((place (unplace w e oldT row) e newT).setTbl newT
        (copyRow (w.tbl oldT) row (w.tbl newT).len keep ((w.tbl newT).add e).1)) j := by
    apply same_write h2 (row := (w.tbl newT).len)
    · rw [hpl]; exact hw
    · rw [hpl, hge]; exact fun hh => hj hh.symm
  obtain ⟨e1, e2⟩ := addMove_decomp w e oldT row newT keep hne hnl hel
  exact ((s1.trans s2).trans s3).congr e2 e1

/-- **remove_frame** — the removal block of `opRemoveEntity` leaves every other entity ID with
    the same values and component set. -/
theorem remove_frame {w : World} (h : IdxInv w) {e : Ent} {t row : Nat}
    (he : w.entities[e.id]? = some (t, row)) (ht : t ≠ maxU32) {j : Nat} (hj : j ≠ e.id) :
    (∀ c : Comp, valOf (removeRowOf w e t row) j c = valOf w j c) ∧
    compsOf (removeRowOf w e t row) j = compsOf w j :=
  (same_unplace h he ht hj).congr (removeRowOf_entities w e t row) (removeRowOf_tables w e t row)

/-- the removed entity is no longer indexed -/
theorem remove_unindexed {w : World} (h : IdxInv w) {e : Ent} {t row : Nat}
    (he : w.entities[e.id]? = some (t, row)) (ht : t ≠ maxU32) (c : Comp) :
    valOf (removeRowOf w e t row) e.id c = none := by
  have hL := unplace_lookup h he ht e.id
  rw [if_pos rfl] at hL
  simp only [valOf, removeRowOf_entities, hL, if_true]

/-! ### writes -/

theorem colIdx_inj {T : Table} {c c' : Comp} {j : Nat} (h : T.colIdx c = some j)
    (h' : T.colIdx c' = some j) : c = c' := by
  simp only [Table.colIdx] at h h'
  split at h
  · rename_i hl
    split at h'
    · rename_i hl'
      have e1 : T.ids.idxOf c = T.ids.idxOf c' := (Option.some.inj h).trans (Option.some.inj h').symm
      have a1 := List.getElem_idxOf hl
      have a2 := List.getElem_idxOf hl'
      rw [← a1, ← a2]
      simp only [e1]
    · cases h'
  · cases h

/-- a write through the pointer of another component does not change `getComp c` -/
theorem getComp_setComp_ne (T : Table) {c c' : Comp} (hne : c ≠ c') (row : Nat) (v : Val) (r : Nat) :
    (T.setComp c' row v).getComp c r = T.getComp c r := by
  simp only [Table.setComp]
  cases h' : T.colIdx c' with
  | none => rfl
  | some j' =>
    simp only
    have hids : (T.setCell j' row v).ids = T.ids := by
      simp only [Table.setCell]; split <;> rfl
    simp only [Table.getComp, Table.colIdx, hids]
    cases hc : T.colIdx c with
    | none => simp only [Table.colIdx] at hc; simp only [hc, Option.map_none]
    | some j =>
      simp only [Table.colIdx] at hc; simp only [hc, Option.map_some]
      have hjj : j ≠ j' := by
        intro heq; subst heq
        exact hne (colIdx_inj (by simpa only [Table.colIdx] using hc) h')
      rw [Table.setCell_cell_ne T j' row v j r (Or.inl hjj)]

theorem getComp_writeVals_ne (c : Comp) (row r : Nat) :
    ∀ (vals : List (Comp × Val)) (T : Table), (∀ cv ∈ vals, cv.1 ≠ c) →
      (vals.foldl (fun T (cv : Comp × Val) => T.setComp cv.1 row cv.2) T).getComp c r =
        T.getComp c r
  | [], _, _ => rfl
  | cv :: vals, T, h => by
    simp only [List.foldl_cons]
    rw [getComp_writeVals_ne c row r vals _ (fun x hx => h x (List.mem_cons_of_mem _ hx))]
    exact getComp_setComp_ne T (fun hh => h cv List.mem_cons_self hh.symm) row cv.2 r

/-- **write_frame** — `writeVals e vals` changes only `valOf e.id c` for `c` in `vals`:
    other entities keep everything, `e` keeps its component set and the values of all
    components not written. -/
theorem write_frame {w : World} (h : IdxInv w) (e : Ent) (vals : List (Comp × Val)) {t row : Nat}
    (he : w.entities[e.id]? = some (t, row)) (ht : t ≠ maxU32) :
    (∀ j : Nat, j ≠ e.id → (∀ c : Comp, valOf (writeValsW w e vals) j c = valOf w j c) ∧
      compsOf (writeValsW w e vals) j = compsOf w j) ∧
    (∀ c : Comp, (∀ cv ∈ vals, cv.1 ≠ c) → valOf (writeValsW w e vals) e.id c = valOf w e.id c) ∧
    compsOf (writeValsW w e vals) e.id = compsOf w e.id := by
  obtain ⟨hT, hrow, hid⟩ := h.indexed he ht
  have hix := index_of_get he
  have hw := writeVals_writeRel (w.tbl t) row vals hrow
  have hWV : writeValsW w e vals = w.setTbl t
      (vals.foldl (fun T (cv : Comp × Val) => T.setComp cv.1 row cv.2) (w.tbl t)) := by
    simp only [writeValsW, hix]; rfl
  have hTn : (writeValsW w e vals).tables[t]? = some
      (vals.foldl (fun T (cv : Comp × Val) => T.setComp cv.1 row cv.2) (w.tbl t)) := by
    rw [hWV]; exact setTbl_get_self _ (lt_of_get hT)
  have hEn : (writeValsW w e vals).entities = w.entities := by rw [hWV]; rfl
  refine ⟨fun j hj => ?_, fun c hc => ?_, ?_⟩
  · rw [hWV]
    exact same_write h hw (by rw [hid]; exact fun hh => hj hh.symm)
  · simp only [valOf, hEn, he, ht, if_false, hTn, hT, Option.bind_some]
    exact getComp_writeVals_ne c row row vals _ hc
  · simp only [compsOf, hEn, he, ht, if_false, hTn, hT, Option.map_some, hw.ids]

/-! ### the moved entity keeps its values -/

/-- one iteration of the copy loop of `moveRow` -/
def copyStep (O : Table) (row idx : Nat) (keep : Mask) (N : Table) (x : Comp) : Table :=
  if keep.get x then
    match O.getComp x row with
    | some v => N.setComp x idx v
    | none => N
  else N

theorem copyRow_eq_foldl (O : Table) (row idx : Nat) (keep : Mask) (N : Table) :
    copyRow O row idx keep N = O.ids.foldl (copyStep O row idx keep) N := rfl

/-- the value the copy loop writes into cell `(j, idx)` (`j` = column of `c`), if any -/
def copyVal (O : Table) (row : Nat) (keep : Mask) (zst : List Bool) (c : Comp) (j : Nat) :
    Option Val :=
  if keep.get c = true ∧ zst.getD j false = false then O.getComp c row else none

theorem copyStep_writeRel (O : Table) (row idx : Nat) (keep : Mask) (N : Table) (x : Comp)
    (h : idx < N.len) : WriteRel idx N (copyStep O row idx keep N x) := by
  simp only [copyStep]
  split
  · split
    · exact setComp_writeRel N x idx _ h
    · exact WriteRel.refl _ N
  · exact WriteRel.refl _ N

theorem copyStep_cell {O N : Table} (hN : N.Shape) (row idx : Nat) (keep : Mask)
    (hidx : idx < N.len) {c : Comp} {j : Nat} (hj : N.colIdx c = some j) (x : Comp) :
    (copyStep O row idx keep N x).cell j idx =
      if x = c then (copyVal O row keep N.zst c j).getD (N.cell j idx) else N.cell j idx := by
  by_cases hx : x = c
  · subst hx
    rw [if_pos rfl]
    simp only [copyStep, copyVal]
    cases hk : keep.get x with
    | false => simp
    | true =>
      simp only [if_true, true_and]
      cases hv : O.getComp x row with
      | none => simp
      | some v =>
        simp only [Table.setComp, hj]
        cases hz : N.zst.getD j false with
        | true => simp [Table.setCell_zst N j idx v hz]
        | false =>
          simp only [if_true, Option.getD_some]
          exact Table.setCell_cell_self hN j idx v (Table.colIdx_lt hj) hz
            (by have := hN.len_le; omega)
  · rw [if_neg hx]
    simp only [copyStep]
    split
    · split
      · rename_i v _
        simp only [Table.setComp]
        cases hx' : N.colIdx x with
        | none => rfl
        | some j' =>
          simp only
          have : j ≠ j' := by
            intro heq; subst heq; exact hx (colIdx_inj hx' hj)
          exact Table.setCell_cell_ne N j' idx v j idx (Or.inl this)
      · rfl
    · rfl

theorem copyFold_cell (O : Table) (row idx : Nat) (keep : Mask) (c : Comp) (j : Nat) :
    ∀ (l : List Comp) (N : Table), N.Shape → idx < N.len → N.colIdx c = some j →
      (l.foldl (copyStep O row idx keep) N).cell j idx =
        if c ∈ l then (copyVal O row keep N.zst c j).getD (N.cell j idx) else N.cell j idx
  | [], N, _, _, _ => by simp
  | x :: l, N, hN, hidx, hj => by
    have hw := copyStep_writeRel O row idx keep N x hidx
    simp only [List.foldl_cons]
    rw [copyFold_cell O row idx keep c j l _ (hw.shape hN) (by rw [hw.len]; exact hidx)
      (by rw [hw.colIdx]; exact hj), hw.zst, copyStep_cell hN row idx keep hidx hj x]
    by_cases hx : x = c
    · subst hx
      simp only [if_true, List.mem_cons, true_or]
      cases copyVal O row keep N.zst x j <;> simp
    · have : c ∈ x :: l ↔ c ∈ l := by
        simp only [List.mem_cons]
        constructor
        · rintro (h1 | h1)
          · exact absurd h1.symm hx
          · exact h1
        · exact Or.inr
      simp only [hx, if_false, this]

theorem colIdx_some_iff_mem {T : Table} {c : Comp} : (∃ i, T.colIdx c = some i) ↔ c ∈ T.ids := by
  simp only [Table.colIdx]
  constructor
  · rintro ⟨i, hi⟩
    split at hi
    · rename_i hl; exact List.idxOf_lt_length_iff.mp hl
    · cases hi
  · intro hm
    exact ⟨_, by rw [if_pos (List.idxOf_lt_length_iff.mpr hm)]⟩

/-- **move_keeps_values** — after "add `e` to `newT`, then `moveRow`", for every component `c`
    of the new table: if `c` is selected by `keep` and the old table has it, `e` keeps its value;
    otherwise (component only in the new table, or not kept) it reads the zero value
    (uninitialised add).  `hz`: a component has the same zero-size flag in both tables (the
    flag is a function of the component type). -/
theorem move_keeps_values {w : World} (h : IdxInv w) {e : Ent} {oldT row newT : Nat} (keep : Mask)
    (hne : oldT ≠ newT) (he : w.entities[e.id]? = some (oldT, row)) (ht : oldT ≠ maxU32)
    (hnl : newT < w.tables.length) (hnm : newT ≠ maxU32)
    (hb : (w.tbl newT).len + 1 < 2 ^ 32)
    (hz : ∀ (c : Comp) (i j : Nat), (w.tbl oldT).colIdx c = some i → (w.tbl newT).colIdx c = some j →
      (w.tbl newT).zst.getD j false = (w.tbl oldT).zst.getD i false)
    {c : Comp} (hc : (w.tbl newT).has c = true) :
    valOf (addMove w e oldT row newT keep) e.id c =
      if keep.get c = true ∧ (w.tbl oldT).has c = true then valOf w e.id c else some 0 := by
  obtain ⟨h1, h2, hle, hpl, hSN, hge, hw, hune⟩ := h.addMove_steps keep hne he ht hnl hb
  obtain ⟨hTo, hrow, hid⟩ := h.indexed he ht
  have hSO := h.shape oldT _ hTo
  have hS0 := h.shape newT _ (get_of_lt hnl)
  have hel : e.id < w.entities.length := by
    rcases Nat.lt_or_ge e.id w.entities.length with h1 | h1
    · exact h1
    · rw [List.getElem?_eq_none h1] at he; cases he
  obtain ⟨e1, e2⟩ := addMove_decomp w e oldT row newT keep hne hnl hel
  -- the index entry and the table of `e` after the move
  have hent : (addMove w e oldT row newT keep).entities[e.id]? = some (newT, (w.tbl newT).len) := by
    rw [e2, setTbl_entities, place_lookup _ e newT hle, if_pos rfl, hune]
  have hplt : newT < (place (unplace w e oldT row) e newT).tables.length := by
    rw [place_tables, List.length_set, unplace_tables, List.length_set]; exact hnl
  have htab : (addMove w e oldT row newT keep).tables[newT]? =
      some (copyRow (w.tbl oldT) row (w.tbl newT).len keep ((w.tbl newT).add e).1) := by
    rw [e1]; exact setTbl_get_self _ hplt
  -- the column of `c` in the new table
  obtain ⟨j, hj0⟩ : ∃ j, (w.tbl newT).colIdx c = some j := by
    simp only [Table.has, Option.isSome_iff_exists] at hc; exact hc
  have hjN : ((w.tbl newT).add e).1.colIdx c = some j := by
    simp only [Table.colIdx, Table.add_ids]; exact hj0
  have hjC : (copyRow (w.tbl oldT) row (w.tbl newT).len keep ((w.tbl newT).add e).1).colIdx c
      = some j := by rw [hw.colIdx]; exact hjN
  have hzero : ((w.tbl newT).add e).1.cell j (w.tbl newT).len = 0 := by
    have := Table.add_new_row_zero hS0 e j
    rw [Table.add_snd] at this; exact this
  have hcell := copyFold_cell (w.tbl oldT) row (w.tbl newT).len keep c j (w.tbl oldT).ids
    ((w.tbl newT).add e).1 hSN (by rw [Table.add_fst_len]; omega) hjN
  rw [← copyRow_eq_foldl, hzero, Table.add_zst] at hcell
  -- read both sides
  simp only [valOf, hent, hnm, if_false, htab, Option.bind_some, he, ht, hTo, Table.getComp, hjC,
    Option.map_some, hcell]
  cases hio : (w.tbl oldT).colIdx c with
  | none =>
    have hnm : c ∉ (w.tbl oldT).ids := by
      intro hm
      obtain ⟨i, hi⟩ := colIdx_some_iff_mem.mpr hm
      rw [hio] at hi; cases hi
    simp [hnm, Table.has, hio]
  | some i =>
    have hm : c ∈ (w.tbl oldT).ids := colIdx_some_iff_mem.mp ⟨i, hio⟩
    simp only [hm, if_true, Table.has, hio, Option.isSome_some, and_true, Option.map_some]
    cases hk : keep.get c with
    | false => simp [copyVal, hk]
    | true =>
      simp only [copyVal, hk, true_and, if_true, Table.getComp, hio, Option.map_some]
      cases hzz : (w.tbl newT).zst.getD j false with
      | false => simp
      | true =>
        have hzo : (w.tbl oldT).zst.getD i false = true := by rw [← hz c i j hio hj0]; exact hzz
        simp [hSO.zst_zero i hzo row]

/-! ### a decidable version of the invariant, and a concrete reachable world (non-vacuity) -/

/-- Boolean version of `Table.Shape` -/
def shapeB (T : Table) : Bool :=
  decide (T.len ≤ T.cap) && (T.ents.length == T.cap) && (T.cols.length == T.ids.length) &&
  (T.zst.length == T.ids.length) &&
  (T.cols.all fun col => (col.length == T.cap) &&
    (List.range col.length).all fun r => decide (r < T.len) || (col.getD r 0 == 0)) &&
  ((List.range T.cols.length).all fun i =>
    !(T.zst.getD i false) || (T.cols.getD i []).all fun v => v == 0)

theorem shapeB_sound {T : Table} (h : shapeB T = true) : T.Shape := by
  simp only [shapeB, Bool.and_eq_true, decide_eq_true_eq, beq_iff_eq, List.all_eq_true,
    List.mem_range, Bool.or_eq_true, Bool.not_eq_true'] at h
  obtain ⟨⟨⟨⟨⟨h1, h2⟩, h3⟩, h4⟩, h5⟩, h6⟩ := h
  refine ⟨h1, h2, h3, h4, fun col hc => (h5 col hc).1, ?_, ?_⟩
  · intro col hc r hr
    rcases Nat.lt_or_ge r col.length with hlt | hge
    · rcases (h5 col hc).2 r hlt with h7 | h7
      · omega
      · exact h7
    · simp [List.getD_eq_getElem?_getD, List.getElem?_eq_none hge]
  · intro i hz r
    rcases Nat.lt_or_ge i T.cols.length with hlt | hge
    · rcases h6 i hlt with h7 | h7
      · rw [h7] at hz; cases hz
      · simp only [Table.cell, List.getD_eq_getElem?_getD]
        cases hr : (T.cols[i]?.getD [])[r]? with
        | none => rfl
        | some v =>
          have hm : v ∈ T.cols[i]?.getD [] := List.mem_of_getElem? hr
          have := h7 v (by simpa only [List.getD_eq_getElem?_getD] using hm)
          simp only [Option.getD_some]; exact this
    · simp [Table.cell, List.getD_eq_getElem?_getD, List.getElem?_eq_none hge]

/-- Boolean version of `IdxInv` -/
def idxInvB (w : World) : Bool :=
  ((List.range w.tables.length).all fun t =>
    ((w.tbl t).id == t) && shapeB (w.tbl t) &&
    (List.range (w.tbl t).len).all fun r =>
      w.entities[((w.tbl t).getEntity r).id]? == some (t, r)) &&
  ((List.range w.entities.length).all fun i =>
    ((w.index i).1 == maxU32) ||
      (decide ((w.index i).1 < w.tables.length) &&
        decide ((w.index i).2 < (w.tbl (w.index i).1).len) &&
        (((w.tbl (w.index i).1).getEntity (w.index i).2).id == i)))

theorem idxInvB_sound {w : World} (h : idxInvB w = true) : IdxInv w := by
  simp only [idxInvB, Bool.and_eq_true, decide_eq_true_eq, beq_iff_eq, List.all_eq_true,
    List.mem_range, Bool.or_eq_true] at h
  obtain ⟨hT, hI⟩ := h
  refine ⟨?_, ?_, ?_, ?_⟩
  · intro t T hget
    have := (hT t (lt_of_get hget)).1.2
    rw [tbl_of_get hget] at this; exact shapeB_sound this
  · intro t T hget
    have := (hT t (lt_of_get hget)).1.1
    rw [tbl_of_get hget] at this; exact this
  · intro t T r hget hr
    have := (hT t (lt_of_get hget)).2
    rw [tbl_of_get hget] at this; exact this r hr
  · intro i t r hi ht
    have hil : i < w.entities.length := by
      rcases Nat.lt_or_ge i w.entities.length with h1 | h1
      · exact h1
      · rw [List.getElem?_eq_none h1] at hi; cases hi
    have hix := index_of_get hi
    rcases hI i hil with h1 | ⟨⟨h1, h2⟩, h3⟩
    · rw [hix] at h1; exact absurd h1 ht
    · rw [hix] at h1 h2 h3
      exact ⟨w.tbl t, get_of_lt h1, h2, h3⟩

/-- a callback runner that does nothing (no observers are registered below) -/
def noProbe : ProbeRunner := fun _ _ _ => pure ()

/-- a small world built with the model's own operations: two component types, two entities
    with component 0 (values 7 and 9) -/
def demo0 : World :=
  let w := World.init 1 1
  let w := (registerComponent {} w).state
  let w := (registerComponent {} w).state
  let w := (opNewEntity noProbe .unsafe_ [0] [(0, 7)] [] w).state
  (opNewEntity noProbe .unsafe_ [0] [(0, 9)] [] w).state

/-- … then component 1 (value 5) is added to the first entity, which moves it to another table
    and swaps the second entity into its row -/
def demo : World := (opAdd noProbe .unsafe_ ⟨2, 0⟩ [1] [(1, 5)] [] demo0).state

/-- non-vacuity: the invariant holds in both concrete worlds -/
theorem demo_idxInv : IdxInv demo0 ∧ IdxInv demo :=
  ⟨idxInvB_sound (by decide +kernel), idxInvB_sound (by decide +kernel)⟩

/-- the concrete frame facts: entity 3 keeps value 9 and component set `[0]` although its row
    changed from 1 to 0; entity 2 keeps 7, gains component 1 with the written value 5 -/
example :
    demo0.entities = [(maxU32, 0), (maxU32, 0), (1, 0), (1, 1)] ∧
    demo.entities = [(maxU32, 0), (maxU32, 0), (2, 0), (1, 0)] ∧
    (valOf demo0 2 0, valOf demo0 3 0, compsOf demo0 2, compsOf demo0 3) =
      (some 7, some 9, some [0], some [0]) ∧
    (valOf demo 2 0, valOf demo 2 1, valOf demo 3 0, valOf demo 3 1) =
      (some 7, some 5, some 9, none) ∧
    (compsOf demo 2, compsOf demo 3) = (some [0, 1], some [0]) :=
  ⟨by decide +kernel, by decide +kernel, by decide +kernel, by decide +kernel, by decide +kernel⟩

/-- the hypotheses of `move_frame` / `move_keeps_values` are satisfiable: they hold for the move
    performed by `opAdd` in `demo0` (entity 2 from table 1 to table 2) once table 2 exists -/
example : ∃ w : World, IdxInv w ∧ w.entities[2]? = some (1, 0) ∧ (1 : Nat) ≠ 2 ∧ 1 ≠ maxU32 ∧
    2 < w.tables.length ∧ (w.tbl 2).len + 1 < 2 ^ 32 ∧
    valOf (addMove w ⟨2, 0⟩ 1 0 2 (Mask.ofList [0, 1])) 3 0 = some 9 ∧
    valOf (addMove w ⟨2, 0⟩ 1 0 2 (Mask.ofList [0, 1])) 2 0 = some 7 ∧
    valOf (addMove w ⟨2, 0⟩ 1 0 2 (Mask.ofList [0, 1])) 2 1 = some 0 :=
  ⟨(findOrCreateTableAdd 1 (Mask.ofList [0]) [1] [] demo0).state,
    idxInvB_sound (by decide +kernel), by decide +kernel, by decide, by decide +kernel,
    by decide +kernel, by decide +kernel, by decide +kernel, by decide +kernel, by decide +kernel⟩

end Ark.Props.C01World
