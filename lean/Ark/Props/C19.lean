/-
  C19 — Statistics agree with the world; statistics updated incrementally over a history equal
  those of a world that is asked once.

  The world keeps ONE statistics object (`World.stats`) which `World.Stats()` (`opStats`) updates
  in place: archetype entries by position (new archetypes appended), and inside an archetype the
  table entries by position (truncated when tables were freed, appended when tables were added),
  while `memoryPerEntity`, `componentIDs`, `numRelations` of an archetype entry are never
  recomputed.  `statsFresh w` is what a world asked for the first time reports.

  * `incremental_eq_fresh`, `arch_incremental_eq_fresh` — update = fresh, under exactly the
    hypothesis the update relies on (`Compatible`), for ANY old table-entry list.
  * `compatible_empty`, `compatible_fresh`, `compatible_later`, `opStats_chain`,
    `opStats_history` — the hypothesis holds at every `Stats()` call of every history whose other
    steps only append archetypes and keep the component lists / relation counts / registered
    component sizes of the existing ones (`Mono`).
  * `arch_*`, `world_*` — the fresh figures are internally consistent.
  * the `example`s at the end run a real history of model operations in which the old object has
    more table entries than the archetype has tables (a table was freed) and fewer (tables were
    added).

  Hypotheses recorded once: all figures are naturals (no overflow of Go's `int`); the two figures
  of `stats.World` that depend on Go's slice growth policy (`Entities.Capacity` and the pool/index
  part of `Memory`) are not modelled (see `WorldStats`).
-/
import Ark.Proofs.Stats
import Ark.Props.C01Struct
import Ark.Model.Ops
import Ark.Props.C19Hist
import Ark.Props.C19Rel

namespace Ark.Props.C19
open Ark Ark.World

/-! ## 1. Incremental update = fresh computation -/

/-- Per archetype: if the three figures the update never recomputes describe the archetype, the
    in-place update yields the fresh statistics — whatever `s.tables` was (longer than, shorter
    than, or as long as the current table list), and whatever the other old figures were. -/
theorem arch_incremental_eq_fresh (w : World) (A : Archetype) (s : ArchStats)
    (h : s.memoryPerEntity = w.memPerEntity A ∧ s.componentIDs = A.comps ∧
         s.numRelations = A.numRel) :
    w.archStatsUpdate A s = w.archStatsFresh A :=
  archStatsUpdate_eq_fresh w A s h

/-- `Compatible st w` spelled out. -/
theorem compatible_iff (st : WorldStats) (w : World) :
    Compatible st w ↔
      st.archetypes.length ≤ w.archetypes.length ∧
      ∀ (i : Nat) (s : ArchStats) (A : Archetype),
        st.archetypes[i]? = some s → w.archetypes[i]? = some A →
          s.memoryPerEntity = w.memPerEntity A ∧ s.componentIDs = A.comps ∧
          s.numRelations = A.numRel :=
  Iff.rfl

/-- Main theorem: an old statistics object produced for an earlier state of the same world,
    updated in place, equals the statistics of a world that is asked for the first time. -/
theorem incremental_eq_fresh (w : World) (st : WorldStats) (h : Compatible st w) :
    w.statsUpdate st = w.statsFresh :=
  statsUpdate_eq_fresh w st h

/-! ## 2. The hypothesis holds along every history -/

/-- The initial, empty statistics object is compatible with every world. -/
theorem compatible_empty (w : World) : Compatible {} w := World.compatible_empty w

/-- `Mono w w'` spelled out. -/
theorem mono_iff (w w' : World) :
    Mono w w' ↔
      w.archetypes.length ≤ w'.archetypes.length ∧
      ∀ (i : Nat) (A A' : Archetype), w.archetypes[i]? = some A → w'.archetypes[i]? = some A' →
        A'.comps = A.comps ∧ A'.numRel = A.numRel ∧
        ∀ (c : Comp), c ∈ A.comps → (w'.kinds.getD c {}).size = (w.kinds.getD c {}).size :=
  Iff.rfl

/-- What `Stats()` stored is compatible with the world it was computed for … -/
theorem compatible_fresh (w : World) : Compatible w.statsFresh w := compatible_fresh_self w

/-- … and with every later world. -/
theorem compatible_later (w w' : World) (m : Mono w w') : Compatible w.statsFresh w' :=
  compatible_fresh_later w w' m

/-- Any compatible object stays compatible along a monotone evolution. -/
theorem compatible_mono (st : WorldStats) (w w' : World) (h : Compatible st w) (m : Mono w w') :
    Compatible st w' := h.mono m

/-- Appending to the component registry does not disturb `Mono`'s size clause. -/
theorem kinds_append_size (ks extra : List CompKind) (c : Nat) (h : c < ks.length) :
    ((ks ++ extra).getD c {}).size = (ks.getD c {}).size := World.kinds_append_size ks extra c h

/-- The only ways in which the model ever changes `archetypes` or `kinds` — overwrite one
    archetype keeping its component list and relation count (`setArch` via `modArch`), append
    archetypes (`createArchetype`), append component kinds (`registerComponent`; needs "archetype
    components are registered"), or leave both alone — each satisfy `Mono`. -/
theorem mono_primitive_steps (w : World) :
    (∀ (w' : World), w'.archetypes = w.archetypes → w'.kinds = w.kinds → Mono w w') ∧
    (∀ (a : Nat) (A' : Archetype), A'.comps = (w.arch a).comps → A'.numRel = (w.arch a).numRel →
      Mono w (w.setArch a A')) ∧
    (∀ (w' : World) (extra : List Archetype),
      w'.archetypes = w.archetypes ++ extra → w'.kinds = w.kinds → Mono w w') ∧
    (∀ (w' : World) (extra : List CompKind),
      w'.archetypes = w.archetypes → w'.kinds = w.kinds ++ extra →
      (∀ (A : Archetype), A ∈ w.archetypes → ∀ (c : Comp), c ∈ A.comps → c < w.kinds.length) →
      Mono w w') :=
  ⟨mono_of_eq w, mono_setArch w, mono_append_archetypes w, mono_append_kinds w⟩

theorem mono_refl (w : World) : Mono w w := Mono.refl w

theorem mono_trans {w₁ w₂ w₃ : World} (h₁ : Mono w₁ w₂) (h₂ : Mono w₂ w₃) : Mono w₁ w₃ :=
  h₁.trans h₂

/-- One `Stats()` call on a world whose stored object is compatible: the result and the stored
    object are the fresh statistics; nothing else changes. -/
theorem opStats_chain (w : World) (st : WorldStats) (h : Compatible st w) :
    opStats { w with stats := st } = .ok (statsFresh w) { w with stats := statsFresh w } :=
  opStats_eq' w st h

theorem opStats_chain' (w : World) (h : Compatible w.stats w) :
    opStats w = .ok w.statsFresh { w with stats := w.statsFresh } :=
  World.opStats_eq w h

/-- Histories: start with the empty object, then any interleaving of `Stats()` calls and other
    steps that satisfy `Mono` and do not touch the statistics object.  At EVERY `Stats()` call
    the answer is `statsFresh` of the world at that moment. -/
theorem opStats_history {w : World} (h : Hist w) :
    opStats w = .ok w.statsFresh { w with stats := w.statsFresh } :=
  h.opStats_eq

theorem history_compatible {w : World} (h : Hist w) : Compatible w.stats w := h.compatible

/-! ## 3. The fresh figures are internally consistent -/

section arch
variable (w : World) (A : Archetype)

/-- one entry per table, in table order, with that table's length and capacity -/
theorem arch_tables :
    (w.archStatsFresh A).tables = A.tables.tables.map fun t =>
      { size := (w.tbl t).len, capacity := (w.tbl t).cap
        memory := (w.tbl t).cap * w.memPerEntity A
        memoryUsed := (w.tbl t).len * w.memPerEntity A } := rfl

theorem arch_fixed :
    (w.archStatsFresh A).componentIDs = A.comps ∧
    (w.archStatsFresh A).numRelations = A.numRel ∧
    (w.archStatsFresh A).memoryPerEntity = w.memPerEntity A ∧
    (w.archStatsFresh A).freeTables = A.freeTables.length := fresh_fixed w A

theorem memPerEntity_eq :
    w.memPerEntity A = 8 + (A.comps.map fun c => (w.kinds.getD c {}).size).sum :=
  World.memPerEntity_eq w A

/-- `size = Σ table sizes` -/
theorem arch_size :
    (w.archStatsFresh A).size = (A.tables.tables.map fun t => (w.tbl t).len).sum ∧
    (w.archStatsFresh A).size = ((w.archStatsFresh A).tables.map (·.size)).sum :=
  ⟨fresh_size w A, fresh_size_tables w A⟩

/-- `capacity = Σ active table capacities + Σ free table capacities` -/
theorem arch_capacity :
    (w.archStatsFresh A).capacity
      = (A.tables.tables.map fun t => (w.tbl t).cap).sum
        + (A.freeTables.map fun t => (w.tbl t).cap).sum ∧
    (w.archStatsFresh A).capacity
      = ((w.archStatsFresh A).tables.map (·.capacity)).sum
        + (A.freeTables.map fun t => (w.tbl t).cap).sum :=
  ⟨fresh_capacity w A, fresh_capacity_tables w A⟩

/-- `memory = memoryPerEntity * capacity` -/
theorem arch_memory :
    (w.archStatsFresh A).memory
      = (w.archStatsFresh A).memoryPerEntity * (w.archStatsFresh A).capacity :=
  fresh_memory w A

/-- `memoryUsed = memoryPerEntity * size` (and it is the sum over the table entries) -/
theorem arch_memoryUsed :
    (w.archStatsFresh A).memoryUsed
      = (w.archStatsFresh A).memoryPerEntity * (w.archStatsFresh A).size ∧
    (w.archStatsFresh A).memoryUsed = ((w.archStatsFresh A).tables.map (·.memoryUsed)).sum :=
  ⟨fresh_memoryUsed w A, fresh_memoryUsed_tables w A⟩

/-- every table entry: `memory = capacity * mpe`, `memoryUsed = size * mpe` -/
theorem arch_table_entry (ts : TableStats) (h : ts ∈ (w.archStatsFresh A).tables) :
    ts.memory = ts.capacity * (w.archStatsFresh A).memoryPerEntity ∧
    ts.memoryUsed = ts.size * (w.archStatsFresh A).memoryPerEntity :=
  fresh_table_entry w A ts h

/-- if every table of the archetype satisfies `len ≤ cap`: `size ≤ capacity` per table entry,
    per archetype, and `memoryUsed ≤ memory` -/
theorem arch_size_le_capacity
    (hT : ∀ (t : Nat), t ∈ A.tables.tables → (w.tbl t).len ≤ (w.tbl t).cap) :
    (∀ (ts : TableStats), ts ∈ (w.archStatsFresh A).tables → ts.size ≤ ts.capacity) ∧
    (w.archStatsFresh A).size ≤ (w.archStatsFresh A).capacity ∧
    (w.archStatsFresh A).memoryUsed ≤ (w.archStatsFresh A).memory :=
  ⟨fresh_table_size_le w A hT, fresh_size_le w A hT, fresh_memoryUsed_le w A hT⟩

end arch

section world
variable (w : World)

theorem world_archetypes : w.statsFresh.archetypes = w.archetypes.map w.archStatsFresh := rfl

/-- `used + recycled = total`, given that the pool's free-list counter does not exceed the number
    of non-reserved slots (pool invariant, see C02). -/
theorem world_used_recycled_total (h : w.pool.available ≤ w.pool.ents.length - 2) :
    w.statsFresh.used + w.statsFresh.recycled = w.statsFresh.total :=
  World.world_used_recycled_total w h

theorem world_entities :
    w.statsFresh.used = w.pool.ents.length - 2 - w.pool.available ∧
    w.statsFresh.recycled = w.pool.available ∧
    w.statsFresh.total = w.pool.ents.length - 2 := world_used w

/-- `memory = Σ archetype memory`, `memoryUsed = Σ archetype memoryUsed` -/
theorem world_memory :
    w.statsFresh.memory = (w.statsFresh.archetypes.map (·.memory)).sum ∧
    w.statsFresh.memoryUsed = (w.statsFresh.archetypes.map (·.memoryUsed)).sum :=
  ⟨World.world_memory w, World.world_memoryUsed w⟩

theorem world_memoryUsed_le
    (hT : ∀ (A : Archetype), A ∈ w.archetypes →
      ∀ (t : Nat), t ∈ A.tables.tables → (w.tbl t).len ≤ (w.tbl t).cap) :
    w.statsFresh.memoryUsed ≤ w.statsFresh.memory := World.world_memoryUsed_le w hT

theorem world_counters :
    w.statsFresh.cachedFilters = w.cache.filters.length ∧
    w.statsFresh.observers = w.obs.totalCount ∧
    w.statsFresh.locked = w.isLocked ∧
    w.statsFresh.numComponents = w.kinds.length := world_misc w

end world

/-! ## 4. Non-vacuity: a real history of model operations

`World.init 2 2`; register a relation component (ID 0) and a plain one (ID 1); two parents, one
child of each (archetype 1 = {0,1} gets two tables); `Stats()`; remove the second child and its
parent (its table is freed: the stored object now has MORE table entries than the archetype has
tables); `Stats()`; three more parents with a child each (one table recycled, two new ones: the
stored object has FEWER table entries); `Stats()`. -/

namespace Demo

def seg1 : W Unit := do
  let _ ← registerComponent { isRel := true }
  let _ ← registerComponent {}
  let p1 ← opNewEntity0 probe
  let p2 ← opNewEntity0 probe
  let _ ← opNewEntity probe .unsafe_ [0, 1] [] [⟨0, p1⟩]
  let _ ← opNewEntity probe .unsafe_ [0, 1] [] [⟨0, p2⟩]

def seg2 : W Unit := do
  opRemoveEntity probe ⟨5, 0⟩
  opRemoveEntity probe ⟨3, 0⟩

def seg3 : W Unit := do
  let p3 ← opNewEntity0 probe
  let p4 ← opNewEntity0 probe
  let p5 ← opNewEntity0 probe
  let _ ← opNewEntity probe .unsafe_ [0, 1] [] [⟨0, p3⟩]
  let _ ← opNewEntity probe .unsafe_ [0, 1] [] [⟨0, p4⟩]
  let _ ← opNewEntity probe .unsafe_ [0, 1] [] [⟨0, p5⟩]

def w0 : World := World.init 2 2
def w1 : World := (seg1 w0).state          -- before the first `Stats()`
def w1s : World := (opStats w1).state
def w2 : World := (seg2 w1s).state         -- a table was freed
def w2s : World := (opStats w2).state
def w3 : World := (seg3 w2s).state         -- tables were added
def w3s : World := (opStats w3).state

/-- no step of the demo history panicked -/
def isOk {α : Type} : Res World α → Bool
  | .ok _ _ => true
  | .panic _ _ => false

example : isOk (seg1 w0) = true ∧ isOk (seg2 w1s) = true ∧ isOk (seg3 w2s) = true := by
  decide +kernel

/-- table freed: the stored object has 2 table entries for archetype 1, the archetype 1 table
    (and 1 free table); the object is stale, the update repairs it, and the hypothesis of
    `incremental_eq_fresh` holds. -/
example :
    w2.stats.archetypes.map (·.tables.length) = [1, 2] ∧
    w2.archetypes.map (·.tables.tables.length) = [1, 1] ∧
    w2.archetypes.map (·.freeTables.length) = [0, 1] ∧
    w2.stats ≠ w2.statsFresh ∧
    w2.statsUpdate w2.stats = w2.statsFresh := by
  decide +kernel

example : Compatible w2.stats w2 := compatible_of_check (by decide +kernel)

/-- tables added: the stored object has 1 table entry for archetype 1, the archetype 4 tables. -/
example :
    w3.stats.archetypes.map (·.tables.length) = [1, 1] ∧
    w3.archetypes.map (·.tables.tables.length) = [1, 4] ∧
    w3.stats ≠ w3.statsFresh ∧
    w3.statsUpdate w3.stats = w3.statsFresh := by
  decide +kernel

example : Compatible w3.stats w3 := compatible_of_check (by decide +kernel)

/-- archetypes added: before the first call the stored object is empty, the world has two. -/
example :
    w1.stats.archetypes.length = 0 ∧ w1.archetypes.length = 2 ∧
    w1.statsUpdate w1.stats = w1.statsFresh := by
  decide +kernel

/-- the concrete figures reported at the second call (1 entity in archetype 1; capacity 4 =
    one active table of 2 + one free table of 2; 24 bytes per entity) -/
example :
    (w2.statsFresh.archetypes.map fun a =>
        (a.size, a.capacity, a.memory, a.memoryUsed, a.memoryPerEntity, a.freeTables))
      = [(1, 2, 16, 8, 8, 0), (1, 4, 96, 24, 24, 1)] ∧
    (w2.statsFresh.used, w2.statsFresh.recycled, w2.statsFresh.total) = (2, 2, 4) := by
  decide +kernel

/-- the demo history is a `Hist`: every non-`Stats` segment satisfies `Mono` and leaves the
    statistics object alone -/
theorem demo_hist : Hist w3s := by
  have h0 : Hist w0 := .init _ rfl
  have h1 : Hist w1 := .other _ _ h0 (mono_of_check (by decide +kernel)) (by decide +kernel)
  have h1s : Hist w1s := .stats _ h1
  have h2 : Hist w2 := .other _ _ h1s (mono_of_check (by decide +kernel)) (by decide +kernel)
  have h2s : Hist w2s := .stats _ h2
  have h3 : Hist w3 := .other _ _ h2s (mono_of_check (by decide +kernel)) (by decide +kernel)
  exact .stats _ h3

end Demo

/-! A second, hand-built instance checked by plain `decide`: one archetype over component 0
(4 bytes), three tables; the old object was computed when tables 0 and 1 were active. -/

namespace Small

def tab (id len cap : Nat) : Table :=
  { id, arch := 0, ids := [0], isRel := [false], zst := [false], ents := [], cols := [],
    targets := [], relIDs := [], len, cap }

def arch (tables free : List Nat) : Archetype :=
  { id := 0, mask := Mask.empty, comps := [0], isRel := [false], zst := [false], numRel := 0,
    tables := { tables }, freeTables := free, relationTables := [] }

def mk (tables free : List Nat) : World :=
  { archetypes := [arch tables free], tables := [tab 0 1 2, tab 1 3 4, tab 2 0 8],
    kinds := [{ size := 4 }] }

/-- old object: 2 table entries.  Table 1 freed → 1 table (more entries than tables);
    table 2 added → 3 tables (fewer entries than tables).  Both updates equal the fresh
    computation, and the old object really is stale. -/
example :
    let old := (mk [0, 1] []).statsFresh
    (old.archetypes.map (·.tables.length)) = [2] ∧
    (mk [0] [1]).statsUpdate old = (mk [0] [1]).statsFresh ∧
    (mk [0, 1, 2] []).statsUpdate old = (mk [0, 1, 2] []).statsFresh ∧
    old ≠ (mk [0] [1]).statsFresh ∧ old ≠ (mk [0, 1, 2] []).statsFresh := by
  decide

example : compatibleB (mk [0, 1] []).statsFresh (mk [0] [1]) = true ∧
    compatibleB (mk [0, 1] []).statsFresh (mk [0, 1, 2] []) = true := by decide

/-- The hypothesis of `incremental_eq_fresh` is needed: an old object whose `memoryPerEntity`
    is wrong (here 0 instead of 12) is NOT repaired by the update. -/
example :
    let bad : WorldStats := { archetypes := [{ (mk [0] []).archStatsFresh (arch [0] []) with memoryPerEntity := 0 }] }
    (mk [0] []).statsUpdate bad ≠ (mk [0] []).statsFresh := by
  decide

end Small


/-- no two archetypes have the same component set (structural invariant) -/
theorem archetype_masks_unique : type_of% @Ark.Props.C01Struct.archetype_masks_unique := @Ark.Props.C01Struct.archetype_masks_unique


/-! ### Over histories (Props/C19Hist) -/

/-- along every history of entity operations (the eleven of the refinement machine), filter definition/registration and `Stats()` calls, the invariant holds and the stored statistics object stays compatible with the world -/
theorem hist_reach3_invariant : type_of% @Ark.Props.C19Hist.reach3_invariant := @Ark.Props.C19Hist.reach3_invariant

/-- **C19, second sentence**: at every `Stats()` call of every history the incrementally updated statistics equal the fresh computation on the current world -/
theorem hist_stats_incremental_eq_fresh : type_of% @Ark.Props.C19Hist.stats_incremental_eq_fresh := @Ark.Props.C19Hist.stats_incremental_eq_fresh

/-- … and equal those of a world that replays the history without the `Stats()` calls and is asked once -/
theorem hist_stats_incremental_eq_replay : type_of% @Ark.Props.C19Hist.stats_incremental_eq_replay := @Ark.Props.C19Hist.stats_incremental_eq_replay

/-- the history with `Stats()` calls reaches the same world, up to the statistics object, as the history without them -/
theorem hist_history_replay : type_of% @Ark.Props.C19Hist.history_replay := @Ark.Props.C19Hist.history_replay

/-- no operation reads the statistics object: run on a world with another object it succeeds alike, returns the same handle and leaves the same world up to `stats` -/
theorem hist_no_operation_reads_stats : type_of% @Ark.Props.C19Hist.no_operation_reads_stats := @Ark.Props.C19Hist.no_operation_reads_stats

/-- every successful operation only appends archetypes/tables and keeps the statistics object -/
theorem hist_every_operation_is_sstep : type_of% @Ark.Props.C19Hist.every_operation_is_sstep := @Ark.Props.C19Hist.every_operation_is_sstep

/-- **C19, first sentence**: the statistics returned at any point of any history agree with the contents (all clauses of `Agree`) -/
theorem hist_stats_agree : type_of% @Ark.Props.C19Hist.stats_agree := @Ark.Props.C19Hist.stats_agree

/-- `used` = number of specification entries = number of alive issued handles = Σ archetype sizes = Σ table sizes -/
theorem hist_used_four_ways : type_of% @Ark.Props.C19Hist.used_four_ways := @Ark.Props.C19Hist.used_four_ways

/-- `total = used + recycled` -/
theorem hist_total_eq : type_of% @Ark.Props.C19Hist.total_eq := @Ark.Props.C19Hist.total_eq

/-- an archetype's `size` is the number of entities with exactly that component set -/
theorem hist_arch_size : type_of% @Ark.Props.C19Hist.arch_size := @Ark.Props.C19Hist.arch_size

/-- no two archetype entries have the same component list, and every component set in use has its entry -/
theorem hist_arch_unique_complete : type_of% @Ark.Props.C19Hist.arch_unique_complete := @Ark.Props.C19Hist.arch_unique_complete

/-- every table's `size ≤ capacity` -/
theorem hist_table_size_le : type_of% @Ark.Props.C19Hist.table_size_le := @Ark.Props.C19Hist.table_size_le

/-- memory figures are the documented products and sums, `memoryUsed ≤ memory` -/
theorem hist_memory_figures : type_of% @Ark.Props.C19Hist.memory_figures := @Ark.Props.C19Hist.memory_figures

/-- `cachedFilters`, `observers`, `locked`, `numComponents` match what is registered -/
theorem hist_counters : type_of% @Ark.Props.C19Hist.counters := @Ark.Props.C19Hist.counters


/-! ### Statistics along histories WITH relation tables (Props/C19Rel): archetypes lose and regain active tables -/

/-- whatever the stored entry is — fewer, more or the same number of per-table entries than the archetype has active tables — UpdateStats lists exactly one entry per ACTIVE table, in order, with its size and capacity, and the documented sums -/
theorem rel_update_lists_active_tables : type_of% @Ark.Props.C19Rel.update_lists_active_tables := @Ark.Props.C19Rel.update_lists_active_tables

/-- the loops of archetype.UpdateStats on the re-used slice (truncate, update in place, append) compute the model's list -/
theorem rel_update_loops_eq_model : type_of% @Ark.Props.C19Rel.update_loops_eq_model := @Ark.Props.C19Rel.update_loops_eq_model

/-- the same loops WITHOUT the truncation are right iff the stored list is not longer than the archetype's active tables (the seeded change C19-t1 as a theorem) -/
theorem rel_truncation_needed_iff : type_of% @Ark.Props.C19Rel.truncation_needed_iff := @Ark.Props.C19Rel.truncation_needed_iff

/-- finding: the model's archStatsUpdate uses only the LENGTH of the stored per-table list, so it cannot exhibit a missing truncation — that is why the source's function is also translated (Props/C19Src) -/
theorem rel_model_is_blind_to_truncation : type_of% @Ark.Props.C19Rel.model_is_blind_to_truncation := @Ark.Props.C19Rel.model_is_blind_to_truncation

/-- **the weakest condition on the stored object**: for ANY world and ANY stored object, incremental = fresh iff every stored archetype entry that has an archetype at its position carries that archetype's memory-per-entity, component IDs and relation count — nothing is demanded of the per-table lists, counters or the number of entries -/
theorem rel_weakest_condition : type_of% @Ark.Props.C19Rel.weakest_condition := @Ark.Props.C19Rel.weakest_condition

/-- an object produced by Stats() on an earlier world of the history satisfies it -/
theorem rel_earlier_stats_agreesOn : type_of% @Ark.Props.C19Rel.earlier_stats_agreesOn := @Ark.Props.C19Rel.earlier_stats_agreesOn

/-- at every state satisfying the relation machine's invariant Stats() is exact: used = alive = sum of archetype sizes = sum of table sizes, total = used + recycled ≤ capacity, one archetype per component set, per archetype one entry per active table with size ≤ capacity, memory figures, counters -/
theorem rel_stats_exact_state : type_of% @Ark.Props.C19Rel.stats_exact_state := @Ark.Props.C19Rel.stats_exact_state

/-- a table entry's size is the number of specified entities indexed to that table, and they have exactly the targets the table lists -/
theorem rel_what_a_table_entry_counts : type_of% @Ark.Props.C19Rel.what_a_table_entry_counts := @Ark.Props.C19Rel.what_a_table_entry_counts

/-- every step of the relation machine (incl. xchg, copy, shrink, reset, filters, queries) keeps the stored statistics object compatible -/
theorem rel_every_step_is_rstep : type_of% @Ark.Props.C19Rel.every_step_is_rstep := @Ark.Props.C19Rel.every_step_is_rstep

/-- the invariant of the machine with Stats() steps holds after every history (Reset included) -/
theorem rel_reach4_invariant : type_of% @Ark.Props.C19Rel.reach4_invariant := @Ark.Props.C19Rel.reach4_invariant

/-- **incremental = fresh at every Stats() call of every history with relation tables** (tables freed by target removal and Shrink, recycled, Reset) -/
theorem rel_stats_incremental_eq_fresh : type_of% @Ark.Props.C19Rel.stats_incremental_eq_fresh := @Ark.Props.C19Rel.stats_incremental_eq_fresh

/-- … and the result agrees with the actual contents -/
theorem rel_stats_agree : type_of% @Ark.Props.C19Rel.stats_agree := @Ark.Props.C19Rel.stats_agree

/-- the stored object is the exact statistics of the world at the last Stats() call -/
theorem rel_stored_object_is_earlier_exact : type_of% @Ark.Props.C19Rel.stored_object_is_earlier_exact := @Ark.Props.C19Rel.stored_object_is_earlier_exact

/-- **replay form**: Stats() after a history equals Stats() asked once after the same history without the earlier Stats() calls -/
theorem rel_stats_incremental_eq_replay : type_of% @Ark.Props.C19Rel.stats_incremental_eq_replay := @Ark.Props.C19Rel.stats_incremental_eq_replay

/-- queries do not read the statistics object -/
theorem rel_queries_do_not_read_stats : type_of% @Ark.Props.C19Rel.queries_do_not_read_stats := @Ark.Props.C19Rel.queries_do_not_read_stats


end Ark.Props.C19
