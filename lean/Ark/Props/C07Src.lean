/-
  Ark.Props.C07Src — the part of C07's theorems that is stated over definitions TRANSLATED from the
  Go source on every run (tools/extract/book.go).  Kept apart from Props/C07.lean because other
  properties' proofs import that file: a change of the translated code must break exactly the
  properties that depend on it.  The check builds and audits both files.
-/
import Ark.Props.C07
import Ark.Proofs.GenBridge.BookPool

namespace Ark.Props.C07Src
open Ark


/-! ### The code itself: `bitPool` of pool.go (the lock bits), translated statement by statement on every run -/

/-- `bitPool.Get`/`getNew` as in the source = the model's `BitPool.get` (panic at 64 bits) -/
theorem src_bitPool_get : type_of% @Ark.GenBridge.Book.bitPool_get_eq := @Ark.GenBridge.Book.bitPool_get_eq
/-- `bitPool.Recycle` as in the source = the model's -/
theorem src_bitPool_recycle : type_of% @Ark.GenBridge.Book.bitPool_recycle_eq := @Ark.GenBridge.Book.bitPool_recycle_eq
/-- `bitPool.Reset` as in the source = the model's (all three counters cleared) -/
theorem src_bitPool_reset : type_of% @Ark.GenBridge.Book.bitPool_reset_eq := @Ark.GenBridge.Book.bitPool_reset_eq


end Ark.Props.C07Src
