/-
  Ark.Props.C07Src — the part of C07's theorems that is stated over definitions TRANSLATED from the
  Go source on every run (tools/extract/book.go).  Kept apart from Props/C07.lean because other
  properties' proofs import that file: a change of the translated code must break exactly the
  properties that depend on it.  The check builds and audits both files.
-/
import Ark.Props.C07
import Ark.Proofs.GenBridge.BookPool
import Ark.Proofs.GenBridge.BookLock
import Ark.Generated.FactsMutex

namespace Ark.Props.C07Src
open Ark


/-! ### The code itself: `bitPool` of pool.go (the lock bits), translated statement by statement on every run -/

/-- `bitPool.Get`/`getNew` as in the source = the model's `BitPool.get` (panic at 64 bits) -/
theorem src_bitPool_get : type_of% @Ark.GenBridge.Book.bitPool_get_eq := @Ark.GenBridge.Book.bitPool_get_eq
/-- `bitPool.Recycle` as in the source = the model's -/
theorem src_bitPool_recycle : type_of% @Ark.GenBridge.Book.bitPool_recycle_eq := @Ark.GenBridge.Book.bitPool_recycle_eq
/-- `bitPool.Reset` as in the source = the model's (all three counters cleared) -/
theorem src_bitPool_reset : type_of% @Ark.GenBridge.Book.bitPool_reset_eq := @Ark.GenBridge.Book.bitPool_reset_eq


/-! ### The code itself: lock.go, translated on every run over the translated pool.go and the word-level mask64.go -/

/-- `newLock()` is the model's initial lock -/
theorem src_newLock : type_of% @Ark.GenBridge.Book.newLock_eq := @Ark.GenBridge.Book.newLock_eq
/-- `Lock()` as in the source = the model's `Lock.lock` (bit from the pool, panic at 64, set in the mask) -/
theorem src_lock : type_of% @Ark.GenBridge.Book.lock_eq := @Ark.GenBridge.Book.lock_eq
/-- `Unlock(b)` as in the source = the model's (panic unless the bit is set; cleared and recycled) -/
theorem src_unlock : type_of% @Ark.GenBridge.Book.unlock_eq := @Ark.GenBridge.Book.unlock_eq
/-- the `…Safe` variants are the plain ones between the mutex calls -/
theorem src_lockSafe : type_of% @Ark.GenBridge.Book.lockSafe_eq := @Ark.GenBridge.Book.lockSafe_eq
theorem src_unlockSafe : type_of% @Ark.GenBridge.Book.unlockSafe_eq := @Ark.GenBridge.Book.unlockSafe_eq
/-- `IsLocked()` — what `checkLocked` reads — as in the source = the model's -/
theorem src_isLocked : type_of% @Ark.GenBridge.Book.isLocked_eq := @Ark.GenBridge.Book.isLocked_eq
/-- `Reset()` as in the source = the model's -/
theorem src_lock_reset : type_of% @Ark.GenBridge.Book.reset_eq := @Ark.GenBridge.Book.reset_eq
/-- **every lock history**: the translated lock.go run from `newLock()` is the model's lock after any
    sequence of `Lock()`, `Unlock(b)`, `Reset()` — the hypotheses of `src_lock` hold on every state reached -/
theorem src_lock_histories : type_of% @Ark.GenBridge.Book.run_eq := @Ark.GenBridge.Book.run_eq

/-- non-vacuity: a history that locks three times, unlocks the middle bit and locks again re-uses that bit,
    in the translated source as in the model -/
example : (Ark.GenBridge.Book.toLock ([Lock.Op.lock, .lock, .lock, .unlock 1, .lock].foldl Ark.GenBridge.Book.gstep
    Ark.Generated.Book.newLock)).locks = 7#64 := by decide

/-! ### Queries take and release their lock bit through the lock manager's mutex (T2 fact, regenerated on every run) -/

/-- every call in the filter/query files that takes or releases a world-lock bit is `lockSafe`/`unlockSafe`
    (queries may be created and closed from several goroutines; with the plain `lock`/`unlock` two open
    queries can end up with the same bit, and the world is unlocked while one of them is still open), and
    both kinds occur -/
theorem src_query_locks_through_mutex :
    Generated.queryLockCalls.all (fun r => r.2 == "lockSafe" || r.2 == "unlockSafe") = true ∧
    Generated.queryLockCalls.any (fun r => r.2 == "lockSafe") = true ∧
    Generated.queryLockCalls.any (fun r => r.2 == "unlockSafe") = true := by decide

end Ark.Props.C07Src
