/-
  Ark.Props.C06World — C06 at world level: a batch operation leaves the world that the
  corresponding single-entity operations leave.

  Fragment: the joint invariant `CInv w fl` of Ark/Proofs/Refine.lean (no relation components, no
  observers, no relation targets), unlocked world.  Proofs: Ark/Proofs/BatchNew.lean,
  Ark/Proofs/BatchNewFn.lean (creation), Ark/Proofs/BatchRemove.lean (removal),
  Ark/Proofs/BatchExchange.lean, Ark/Proofs/BatchExchangeSpec.lean and
  Ark/Proofs/BatchExchangeFn.lean (add / remove / exchange, without and with callback).

  Vocabulary
  * `newEntitiesSeq run p ids vals n` — `n` successive `opNewEntity run p ids vals []` calls, the
    returned handles collected in order; `newEntities0Seq run n` — `n` × `World.NewEntity()`.
  * `LockFree l` — the lock `l` is well-formed and no lock is outstanding (`Lock.LInv ⟨l, []⟩ _`;
    true of `NewWorld`, kept by every balanced `Lock`/`Unlock` pair: `LockFree.cycle`).
  * the callback `fn` of a batch is modelled by `batchFn`: for every affected row it pushes
    `LogEv.fn e locked seen` on `w.log` (the handle, the lock state and the current values of the
    components it is about to write) and then writes `vals`.
-/
import Ark.Proofs.BatchNewFn
import Ark.Proofs.BatchRemove
import Ark.Proofs.BatchExchangeSpec
import Ark.Proofs.BatchExchangeFn

namespace Ark.Props.C06World
open Ark Ark.World Ark.Props.C01World

/-! ## 1. creation: `NewBatch` / `NewBatchFn` / `NewEntities` -/

/-- table level: reserving `n+1` rows at once and storing the first handle = `Add` of the handle,
    then reserving `n` rows (same capacity, same entity column, same component columns) -/
theorem alloc_is_iterated_add : type_of% @Table.alloc_succ_eq := @Table.alloc_succ_eq

/-- growing a table in one step or in several gives the same capacity -/
theorem capacity_path_independent : type_of% @capPow2_stable := @capPow2_stable

/-- world level: `createEntities t n` = `n` × `placeNew t`, as worlds -/
theorem createEntities_is_iterated_placeNew : type_of% @createEntitiesW_eq_placeN :=
  @createEntitiesW_eq_placeN

/-- **`NewBatch(count, ids…)` without callback = `count` × `NewEntity(ids…)`** — equality of
    worlds, same handles in the same order (`count > 0`). -/
theorem newBatch_eq_singles : type_of% @opNewBatch_eq_singles := @opNewBatch_eq_singles

/-- the empty batch still creates the archetype and the table of `ids` if they did not exist
    (zero single calls create nothing); entities, pool and every entity's components are
    untouched -/
theorem newBatch_zero : type_of% @opNewBatch_zero := @opNewBatch_zero

/-- **`NewBatchFn(count, fn)` = `count` × `NewEntity` writing the same values**, up to the
    callback record in `log` and the free list inside the lock; `fn` ran exactly once per new
    entity, in creation order, on a locked world, and saw zero-initialised components -/
theorem newBatchFn_eq_singles : type_of% @opNewBatchFn_eq_singles := @opNewBatchFn_eq_singles

/-- **`World.NewEntities(count, nil)` = `count` × `World.NewEntity()`** (any `count`) -/
theorem newEntities_eq_singles : type_of% @opNewEntities_eq_singles := @opNewEntities_eq_singles

/-- **`World.NewEntities(count, fn)`** likewise, with the callback record -/
theorem newEntitiesFn_eq_singles : type_of% @opNewEntitiesFn_eq_singles := @opNewEntitiesFn_eq_singles

/-! ### non-vacuity -/

open Ark.Refine in
/-- a reachable world: two component types, one entity with component 0; initial capacity 1, so
    that a batch of 5 has to grow the table (1 → 8) where the singles grow it 1 → 2 → 4 → 8 -/
def demoW : World := (reach noProbe 1 1 [.reg 8 false, .reg 8 false, .new .unsafe_ [0] [(0, 7)]]).w

open Ark.Refine in
theorem demoW_cinv : ∃ fl, CInv demoW fl ∧ demoW.isLocked = false := by
  obtain ⟨fl, H⟩ := reach_hinv noProbe 1 1 [.reg 8 false, .reg 8 false, .new .unsafe_ [0] [(0, 7)]]
    (by decide)
  exact ⟨fl, H.cinv, H.unlocked⟩

theorem demoW_rows (count : Nat) (hc : count < 1000) (t : Nat) : (demoW.tbl t).len + count < 2 ^ 32 := by
  obtain ⟨fl, h, _⟩ := demoW_cinv
  have := h.idx.rows_le t
  have he : demoW.entities.length = 3 := by decide +kernel
  omega

/-- the hypotheses of `newBatch_eq_singles` and `newBatchFn_eq_singles` hold in `demoW` for the
    existing table (`ids = [0]`) and for a table that does not exist yet (`ids = [0, 1]`) -/
example : ∃ fl, CInv demoW fl ∧ demoW.isLocked = false ∧ LockFree demoW.locks ∧
    [0, 1].Nodup ∧ (∀ c : Comp, c ∈ [0, 1] → c < demoW.kinds.length) ∧
    demoW.tables.length < maxU32 ∧ ∀ t : Nat, (demoW.tbl t).len + 5 < 2 ^ 32 := by
  obtain ⟨fl, h, hl⟩ := demoW_cinv
  exact ⟨fl, h, hl, by rw [show demoW.locks = {} by decide +kernel]; exact lockFree_init,
    by decide, by decide +kernel, by decide +kernel, demoW_rows 5 (by decide)⟩

/-- the value an operation returned (`none` if it panicked) -/
def okVal {α : Type} : Res World α → Option α
  | .ok a _ => some a
  | .panic _ _ => none

/-- the concrete instance: the batch of 5 and the 5 singles agree on every field that carries
    state (tables with capacities and stale cells, index, pool, target flags, archetypes), return
    the same handles, and the table of `[0, 1]` (table 2) was created by both -/
example :
    (opNewBatch noProbe .unsafe_ 5 [0, 1] [] [] false demoW).state.tables =
      (newEntitiesSeq noProbe .unsafe_ [0, 1] [] 5 demoW).state.tables ∧
    (opNewBatch noProbe .unsafe_ 5 [0, 1] [] [] false demoW).state.entities =
      (newEntitiesSeq noProbe .unsafe_ [0, 1] [] 5 demoW).state.entities ∧
    (opNewBatch noProbe .unsafe_ 5 [0, 1] [] [] false demoW).state.pool =
      (newEntitiesSeq noProbe .unsafe_ [0, 1] [] 5 demoW).state.pool ∧
    (opNewBatch noProbe .unsafe_ 5 [0, 1] [] [] false demoW).state.isTarget =
      (newEntitiesSeq noProbe .unsafe_ [0, 1] [] 5 demoW).state.isTarget ∧
    (opNewBatch noProbe .unsafe_ 5 [0, 1] [] [] false demoW).state.archetypes =
      (newEntitiesSeq noProbe .unsafe_ [0, 1] [] 5 demoW).state.archetypes ∧
    okVal (opNewBatch noProbe .unsafe_ 5 [0, 1] [] [] false demoW) = some (2, 0) ∧
    okVal (newEntitiesSeq noProbe .unsafe_ [0, 1] [] 5 demoW) =
      some [⟨3, 0⟩, ⟨4, 0⟩, ⟨5, 0⟩, ⟨6, 0⟩, ⟨7, 0⟩] ∧
    ((List.range 5).map fun i =>
      ((opNewBatch noProbe .unsafe_ 5 [0, 1] [] [] false demoW).state.tbl 2).getEntity (0 + i)) =
      [⟨3, 0⟩, ⟨4, 0⟩, ⟨5, 0⟩, ⟨6, 0⟩, ⟨7, 0⟩] ∧
    ((opNewBatch noProbe .unsafe_ 5 [0, 1] [] [] false demoW).state.tbl 2).cap = 8 := by
  decide +kernel

/-- … and with the callback (typed path, values written into every new row of the existing table
    1): same tables, index and pool; the world is unlocked again; five callback records -/
example :
    (opNewBatch noProbe .typed 5 [0] [(0, 3)] [] true demoW).state.tables =
      (newEntitiesSeq noProbe .typed [0] [(0, 3)] 5 demoW).state.tables ∧
    (opNewBatch noProbe .typed 5 [0] [(0, 3)] [] true demoW).state.entities =
      (newEntitiesSeq noProbe .typed [0] [(0, 3)] 5 demoW).state.entities ∧
    (opNewBatch noProbe .typed 5 [0] [(0, 3)] [] true demoW).state.pool =
      (newEntitiesSeq noProbe .typed [0] [(0, 3)] 5 demoW).state.pool ∧
    (opNewBatch noProbe .typed 5 [0] [(0, 3)] [] true demoW).state.isLocked = false ∧
    (opNewBatch noProbe .typed 5 [0] [(0, 3)] [] true demoW).state.log.length = 5 ∧
    (newEntitiesSeq noProbe .typed [0] [(0, 3)] 5 demoW).state.log.length = 0 ∧
    (List.range 6).map
      (fun i => valOf (opNewBatch noProbe .typed 5 [0] [(0, 3)] [] true demoW).state (2 + i) 0) =
      [some 7, some 3, some 3, some 3, some 3, some 3] ∧
    ((opNewBatch noProbe .typed 5 [0] [(0, 3)] [] true demoW).state.tbl 1).cap = 8 := by
  decide +kernel

/-- **finding (empty batch)**: `NewBatch(0, [0, 1])` in `demoW` creates archetype 2 and table 2;
    zero `NewEntity` calls leave the world as it is.  No entity is affected. -/
example :
    (opNewBatch noProbe .unsafe_ 0 [0, 1] [] [] false demoW).state.tables.length = 3 ∧
    (opNewBatch noProbe .unsafe_ 0 [0, 1] [] [] false demoW).state.archetypes.length = 3 ∧
    (newEntitiesSeq noProbe .unsafe_ [0, 1] [] 0 demoW).state.tables.length = 2 ∧
    (newEntitiesSeq noProbe .unsafe_ [0, 1] [] 0 demoW).state.archetypes.length = 2 := by
  decide +kernel

/-! ## 2. removal: `World.RemoveEntities(batch, fn)`

  Vocabulary
  * `selTables w f` — the tables the (uncached) filter `f` selects, in the order of the batch;
    `selEnts w f` — the handles in their rows, table by table, row by row: the batch's order.
  * `RowsLive w` — the handle stored in every live row is the one the pool holds at that ID
    (current generation).  `CInv` relates rows and index by ID only, so it does not imply this;
    it is needed because `RemoveEntity` checks `Alive` while the batch recycles whatever the row
    holds.  See the finding below.
  * `removeSeq run l` — `RemoveEntity` applied to the handles `l`, in order.
  * `RemovedAllPost w fl es w'` — the observable outcome of removing `es` from `w`: `CInv` with the
    IDs pushed on the free list in order, `pool = es.foldl recycle w.pool`, every handle of a
    removed ID alive iff it carries the next generation, removed IDs un-indexed, every other ID
    `SameEnt`, every other handle keeps `alive`, `RowsLive`.
-/

/-- the batch selects the `Selected` tables of C05, each once -/
theorem batch_tables_selected : type_of% @mem_selTables_iff_selected := @mem_selTables_iff_selected

/-- … which are the existing tables whose archetype's mask matches -/
theorem batch_tables_mask : type_of% @mem_selTables := @mem_selTables

/-- **the selected entities are exactly the alive entities whose archetype mask matches** -/
theorem batch_selects_matching_alive : type_of% @mem_selEnts_iff := @mem_selEnts_iff

/-- `RemoveEntities(batch, nil)` as a pure function: un-index and recycle row by row, reset the
    tables -/
theorem removeEntities_pure : type_of% @opRemoveEntities_eq := @opRemoveEntities_eq
theorem removeEntities_closed_form : type_of% @removeTablesW_eq := @removeTablesW_eq

/-- **`RemoveEntities(batch, nil)` = `RemoveEntity` on every selected entity, in the batch's
    order**: both succeed, both satisfy `RemovedAllPost` (observational equality, `obs_eq`), and
    the pools — hence the handles issued later — are equal.  The worlds are NOT equal as records:
    they differ in dead memory only (stale handles beyond `len` in the entity column of the
    emptied tables; the stale row number kept in the index entry of a removed entity). -/
theorem removeEntities_eq_singles : type_of% @opRemoveEntities_eq_singles := @opRemoveEntities_eq_singles

/-- two removals of the same set of entities are observationally equal -/
theorem removed_obs_eq : type_of% @RemovedAllPost.obs_eq := @RemovedAllPost.obs_eq

/-- every removed entity is dead afterwards -/
theorem removed_dead : type_of% @RemovedAllPost.dead := @RemovedAllPost.dead

/-- **any other order** of the single removals gives the same `alive` / `valOf` / `compsOf`;
    only the free-list order (the identity of handles issued later) depends on the order -/
theorem removeEntities_any_order : type_of% @removeSeq_any_order := @removeSeq_any_order

/-- **`RemoveEntities(batch, fn)`** = `RemoveEntities(batch, nil)` + one callback record per
    selected entity (batch order, locked world, all before the first removal) + one `Lock`/`Unlock`
    cycle of the lock's free list -/
theorem removeEntitiesFn_eq : type_of% @opRemoveEntitiesFn_eq := @opRemoveEntitiesFn_eq

/-- `RowsLive` holds in `NewWorld` and is kept by everything treated here: the single and batch
    creations, the single and batch removals (`RemovedAllPost.rowsLive`), the exchange batches
    (`exchangeBatchFn_spec`) -/
theorem rowsLive_initially : type_of% @rowsLive_init := @rowsLive_init
theorem rowsLive_after_creation : type_of% @newEntitiesSeq_rowsLive := @newEntitiesSeq_rowsLive
theorem rowsLive_after_removeEntity : type_of% @rowsLive_removeRowOf := @rowsLive_removeRowOf
theorem rowsLive_decidable : type_of% @rowsLiveB_sound := @rowsLiveB_sound

/-! ### non-vacuity -/

open Ark.Refine in
/-- three component types; entities 2,4 with `{0}`, 3,5,6 with `{0,1}`, 7 with `{2}`; then 4 is
    removed and re-created (handle `4.1`), so that a stale handle `4.0` exists -/
def remOps : List Op :=
  [.reg 8 false, .reg 8 false, .reg 8 false,
   .new .unsafe_ [0] [(0, 10)], .new .unsafe_ [0, 1] [(0, 11)], .new .unsafe_ [0] [(0, 12)], .new .unsafe_ [0, 1] [(0, 13)],
   .new .unsafe_ [0, 1] [(0, 14)], .new .unsafe_ [2] [(2, 15)], .del ⟨4, 0⟩, .new .unsafe_ [0] [(0, 16)]]

open Ark.Refine in
def remW : World := (reach noProbe 2 1 remOps).w

/-- a filter object selecting "has component 0" (uncached) -/
def fo0 : FilterObj := { filter := { mask := Mask.ofList [0] } }

open Ark.Refine in
/-- the hypotheses of the removal theorems hold in `remW` -/
theorem remW_hyps : ∃ fl, CInv remW fl ∧ RowsLive remW ∧ remW.isLocked = false ∧
    LockFree remW.locks ∧ fo0.cache = none := by
  obtain ⟨fl, H⟩ := reach_hinv noProbe 2 1 remOps (by decide)
  exact ⟨fl, H.cinv, rowsLiveB_sound (by decide +kernel), H.unlocked,
    by rw [show remW.locks = {} by decide +kernel]; exact lockFree_init, rfl⟩

/-- the selection in `remW`: tables 1 (`{0}`) and 2 (`{0,1}`), five entities in table/row order;
    the batch and the singles agree on pool, index (up to the stale row of dead entries — here even
    that differs: see the next example), liveness and values; entity 7 is untouched -/
example :
    selTables remW fo0.filter = [1, 2] ∧
    selEnts remW fo0.filter = [⟨2, 0⟩, ⟨4, 1⟩, ⟨3, 0⟩, ⟨5, 0⟩, ⟨6, 0⟩] ∧
    okVal (opRemoveEntities noProbe fo0 [] false remW) = some () ∧
    okVal (removeSeq noProbe (selEnts remW fo0.filter) remW) = some () ∧
    (opRemoveEntities noProbe fo0 [] false remW).state.pool =
      (removeSeq noProbe (selEnts remW fo0.filter) remW).state.pool ∧
    [⟨2, 0⟩, ⟨4, 1⟩, ⟨3, 0⟩, ⟨5, 0⟩, ⟨6, 0⟩, ⟨7, 0⟩, ⟨4, 0⟩].map
        (opRemoveEntities noProbe fo0 [] false remW).state.alive =
      [false, false, false, false, false, true, false] ∧
    [⟨2, 0⟩, ⟨4, 1⟩, ⟨3, 0⟩, ⟨5, 0⟩, ⟨6, 0⟩, ⟨7, 0⟩, ⟨4, 0⟩].map
        (removeSeq noProbe (selEnts remW fo0.filter) remW).state.alive =
      [false, false, false, false, false, true, false] ∧
    (List.range 8).map (fun i => compsOf (opRemoveEntities noProbe fo0 [] false remW).state i) =
      (List.range 8).map (fun i => compsOf (removeSeq noProbe (selEnts remW fo0.filter) remW).state i) ∧
    valOf (opRemoveEntities noProbe fo0 [] false remW).state 7 2 = some 15 ∧
    valOf (removeSeq noProbe (selEnts remW fo0.filter) remW).state 7 2 = some 15 := by
  decide +kernel

/-- **why only observational equality**: the two worlds differ in dead memory.  Table 2 held
    `[3.0, 5.0, 6.0]`; the batch leaves the entity column as it is, the singles' swap-removes leave
    `[6.0, 5.0, 6.0]`; the index entry of the removed entity 6 keeps row 2 after the batch and row 0
    after the singles.  Lengths, capacities and component columns agree. -/
example :
    ((opRemoveEntities noProbe fo0 [] false remW).state.tbl 2).ents.take 3 = [⟨3, 0⟩, ⟨5, 0⟩, ⟨6, 0⟩] ∧
    ((removeSeq noProbe (selEnts remW fo0.filter) remW).state.tbl 2).ents.take 3 =
      [⟨6, 0⟩, ⟨5, 0⟩, ⟨6, 0⟩] ∧
    (opRemoveEntities noProbe fo0 [] false remW).state.entities[6]? = some (maxU32, 2) ∧
    (removeSeq noProbe (selEnts remW fo0.filter) remW).state.entities[6]? = some (maxU32, 0) ∧
    (opRemoveEntities noProbe fo0 [] false remW).state.tables.map (fun T => (T.len, T.cap, T.cols)) =
      (removeSeq noProbe (selEnts remW fo0.filter) remW).state.tables.map
        (fun T => (T.len, T.cap, T.cols)) := by
  decide +kernel

/-- another order (reversed): same liveness and components, a different pool -/
example :
    okVal (removeSeq noProbe (selEnts remW fo0.filter).reverse remW) = some () ∧
    [⟨2, 0⟩, ⟨4, 1⟩, ⟨3, 0⟩, ⟨5, 0⟩, ⟨6, 0⟩, ⟨7, 0⟩, ⟨4, 0⟩].map
        (removeSeq noProbe (selEnts remW fo0.filter).reverse remW).state.alive =
      [false, false, false, false, false, true, false] ∧
    (removeSeq noProbe (selEnts remW fo0.filter).reverse remW).state.pool ≠
      (opRemoveEntities noProbe fo0 [] false remW).state.pool ∧
    (removeSeq noProbe (selEnts remW fo0.filter).reverse remW).state.pool.next = 2 ∧
    (opRemoveEntities noProbe fo0 [] false remW).state.pool.next = 6 := by
  decide +kernel

/-- with the callback: five records, world unlocked again, same pool and index as without -/
example :
    okVal (opRemoveEntities noProbe fo0 [] true remW) = some () ∧
    (opRemoveEntities noProbe fo0 [] true remW).state.log.length = 5 ∧
    (opRemoveEntities noProbe fo0 [] true remW).state.isLocked = false ∧
    (opRemoveEntities noProbe fo0 [] true remW).state.pool =
      (opRemoveEntities noProbe fo0 [] false remW).state.pool ∧
    (opRemoveEntities noProbe fo0 [] true remW).state.entities =
      (opRemoveEntities noProbe fo0 [] false remW).state.entities ∧
    (opRemoveEntities noProbe fo0 [] true remW).state.tables =
      (opRemoveEntities noProbe fo0 [] false remW).state.tables := by
  decide +kernel

/-- **finding (`RowsLive` is necessary)**: put the stale handle `4.0` into the row of entity 4
    (a state in which index, pool and tables still agree on IDs, so `CInv`'s clauses cannot tell the
    difference).  The batch removes "it" — recycling slot 4 — while `RemoveEntity(4.0)` panics
    `deadEntity`: batch ≠ singles.  In worlds reached through the API rows hold current handles
    (`rowsLiveB` of the reachable worlds above is `true`). -/
def staleW : World := remW.modTbl 1 fun T => { T with ents := T.ents.set 1 ⟨4, 0⟩ }

example :
    rowsLiveB remW = true ∧ rowsLiveB staleW = false ∧
    selEnts staleW fo0.filter = [⟨2, 0⟩, ⟨4, 0⟩, ⟨3, 0⟩, ⟨5, 0⟩, ⟨6, 0⟩] ∧
    okVal (opRemoveEntities noProbe fo0 [] false staleW) = some () ∧
    (opRemoveEntities noProbe fo0 [] false staleW).state.alive ⟨4, 1⟩ = false ∧
    okVal (removeSeq noProbe (selEnts staleW fo0.filter) staleW) = none ∧
    (removeSeq noProbe (selEnts staleW fo0.filter) staleW).state.alive ⟨4, 1⟩ = true := by
  decide +kernel

/-! ## 3. the add / remove / exchange batches: `exchangeBatch`

  Vocabulary
  * `xmask add rem m` — the mask after `Exchange(add, rem)`; `ExchOK n add rem m` — the
    precondition of `graph.Find` on the mask `m`: `rem` distinct and present, `add` distinct,
    registered and absent; `tmask w t` — the mask of table `t`'s archetype.
  * `exchangeSeq run p add rem vals l` — `opExchange run p e add vals rem []` for the handles `l`,
    in order (`Add` is the case `rem = []`, `Remove` the case `add = []`).
  * `ExchangedAllPost w fl es add rem vals w'` — the observable outcome: `CInv` with the same free
    list, same pool, same liveness; every `e ∈ es` has exactly the components of
    `xmask add rem (maskOf e)`, keeps the values of the components that stay (overwritten by the last
    write of `vals`), reads the written value (or zero) in the added ones; every other ID is
    `SameEnt`.
  * the batch is table selection, `findLoop` (look up / create the destination of every
    non-empty selected table), `Lock`, the move loop (`exchangeTable` per table, then the callback
    on the moved rows), `Unlock` — `exchangeBatch_pure_planFirst` (since the repair of defect D27 the
    lock is taken only after `findLoop`, so that a panic of `findLoop` — the precondition fails on
    some selected table — leaves the lock state as it was: `exchangeBatch_lookup_panic`).
    Selection and `findLoop` neither read nor write the lock, hence the batch is ALSO `Lock`, table
    selection, `findLoop`, move loop, `Unlock` (the order before the repair) whenever `findLoop`
    succeeds — `exchangeBatch_pure`, the form the specifications below are proved from.
-/

/-- `exchangeTable` is a pure function (`exchangeTableW`), and so is the batch -/
theorem exchangeTable_pure : type_of% @exchangeTable_eq := @exchangeTable_eq
theorem exchangeBatch_pure_planFirst : type_of% @exchangeBatch_eq_planFirst := @exchangeBatch_eq_planFirst
theorem exchangeBatch_pure : type_of% @exchangeBatch_eq := @exchangeBatch_eq
/-- a panic of the lookup loop is the batch's panic, with the same state: the lock has not been
    taken -/
theorem exchangeBatch_lookup_panic : type_of% @exchangeBatch_findLoop_panic :=
  @exchangeBatch_findLoop_panic

/-- **one table move**: all rows of `oldT` are appended to `newT` in order; every moved entity has
    the destination's components, keeps the values of the shared ones and reads zero in the new
    ones; every other entity is untouched; the invariant is kept -/
theorem table_move_post : type_of% @CInv.tableMoved := @CInv.tableMoved

/-- the lookup loop finds (or creates) the table of `xmask add rem (tmask t)` for every non-empty
    selected table `t`; nothing else changes -/
theorem lookup_loop_post : type_of% @findLoop_spec := @findLoop_spec

/-- the moves are independent: no destination is a source, destinations are pairwise different -/
theorem moves_independent : type_of% @movesOK_of_dest := @movesOK_of_dest

/-- **the batch** (no callback) satisfies `ExchangedAllPost` for the selected entities -/
theorem exchangeBatch_spec : type_of% @exchangeBatch_post := @exchangeBatch_post

/-- **the singles**: `Exchange` applied in ANY order to live handles with distinct IDs satisfies
    `ExchangedAllPost` -/
theorem exchange_singles_spec : type_of% @exchangeSeq_post := @exchangeSeq_post

/-- `ExchangedAllPost` determines everything observable -/
theorem exchanged_obs_eq : type_of% @ExchangedAllPost.obs_eq := @ExchangedAllPost.obs_eq

/-- **`AddBatch` / `RemoveBatch` / `ExchangeBatch` (no callback) = `Add` / `Remove` / `Exchange`
    applied to every selected entity**: both succeed, both satisfy `ExchangedAllPost`; same pool,
    same liveness of every handle, same components and values of every entity (observational
    equality: row order inside the tables, capacities and dead memory are not compared). -/
theorem exchangeBatch_eq_singles : type_of% @opExchangeBatch_eq_singles := @opExchangeBatch_eq_singles

/-- one iteration of the move loop with the callback: move, then write `vs` into the moved rows -/
theorem table_step_post : type_of% @CInv.tableStep := @CInv.tableStep

/-- what the callback records, row by row, in terms of the world before the move -/
theorem callback_records : type_of% @loopEvents_eq := @loopEvents_eq

/-- **the batch WITH callback** (`fn` writes `vs`): `ExchangedAllPost … vs`, and `log` grows by
    exactly `batchEvents`: one record per selected entity, in the batch's order, with the entity's
    handle, on a locked world, showing the entity's current values (`seenVal`: the value of a
    component that stays, zero for an added one) -/
theorem exchangeBatchFn_spec : type_of% @exchangeBatch_post' := @exchangeBatch_post'

/-- **`AddBatchFn` / `ExchangeBatchFn` … = the single calls writing the same values** (observational
    equality), plus the callback record -/
theorem exchangeBatchFn_eq_singles : type_of% @opExchangeBatchFn_eq_singles :=
  @opExchangeBatchFn_eq_singles

/-! ### non-vacuity -/

open Ark.Refine in
/-- three component types; entities 2, 3 with `{0}` (values 10, 11), 4 with `{0,1}` (12), 5 with
    `{2}` (15) -/
def exOps : List Op :=
  [.reg 8 false, .reg 8 false, .reg 8 false,
   .new .unsafe_ [0] [(0, 10)], .new .unsafe_ [0] [(0, 11)], .new .unsafe_ [0, 1] [(0, 12), (1, 7)],
   .new .unsafe_ [2] [(2, 15)]]

open Ark.Refine in
def exW : World := (reach noProbe 2 1 exOps).w

open Ark.Refine in
/-- the hypotheses of `exchangeBatch_eq_singles` hold in `exW` for "filter: has 0; add 2, remove 0" -/
example : ∃ fl, CInv exW fl ∧ RowsLive exW ∧ exW.isLocked = false ∧ LockFree exW.locks ∧
    fo0.cache = none ∧ ¬ (([2] : List Comp) = [] ∧ ([0] : List Comp) = []) ∧
    (∀ t ∈ selTables exW fo0.filter, (exW.tbl t).len ≠ 0 →
      ExchOK exW.kinds.length [2] [0] (tmask exW t)) ∧
    exW.tables.length + (selTables exW fo0.filter).length + (selEnts exW fo0.filter).length < maxU32 ∧
    2 * exW.entities.length < 2 ^ 32 := by
  obtain ⟨fl, H⟩ := reach_hinv noProbe 2 1 exOps (by decide)
  exact ⟨fl, H.cinv, rowsLiveB_sound (by decide +kernel), H.unlocked,
    by rw [show exW.locks = {} by decide +kernel]; exact lockFree_init, rfl, by decide,
    by decide +kernel, by decide +kernel, by decide +kernel⟩

/-- the concrete instance: "has 0: add 2, remove 0" as a batch and as three `Exchange` calls —
    same pool, same index, same components and values; entity 5 untouched; tables `{2}`-with-… are
    created by both -/
example :
    selEnts exW fo0.filter = [⟨2, 0⟩, ⟨3, 0⟩, ⟨4, 0⟩] ∧
    okVal (opExchangeBatch noProbe .unsafe_ fo0 [] [2] [0] [] none exW) = some () ∧
    okVal (exchangeSeq noProbe .unsafe_ [2] [0] [] (selEnts exW fo0.filter) exW) = some () ∧
    (opExchangeBatch noProbe .unsafe_ fo0 [] [2] [0] [] none exW).state.pool =
      (exchangeSeq noProbe .unsafe_ [2] [0] [] (selEnts exW fo0.filter) exW).state.pool ∧
    (List.range 7).map (fun i =>
      compsOf (opExchangeBatch noProbe .unsafe_ fo0 [] [2] [0] [] none exW).state i) =
      [none, none, some [2], some [2], some [1, 2], some [2], none] ∧
    (List.range 7).map (fun i =>
      compsOf (exchangeSeq noProbe .unsafe_ [2] [0] [] (selEnts exW fo0.filter) exW).state i) =
      [none, none, some [2], some [2], some [1, 2], some [2], none] ∧
    (List.range 7).map (fun i =>
      (valOf (opExchangeBatch noProbe .unsafe_ fo0 [] [2] [0] [] none exW).state i 2,
       valOf (opExchangeBatch noProbe .unsafe_ fo0 [] [2] [0] [] none exW).state i 1)) =
      (List.range 7).map (fun i =>
      (valOf (exchangeSeq noProbe .unsafe_ [2] [0] [] (selEnts exW fo0.filter) exW).state i 2,
       valOf (exchangeSeq noProbe .unsafe_ [2] [0] [] (selEnts exW fo0.filter) exW).state i 1)) ∧
    valOf (opExchangeBatch noProbe .unsafe_ fo0 [] [2] [0] [] none exW).state 4 1 = some 7 ∧
    valOf (opExchangeBatch noProbe .unsafe_ fo0 [] [2] [0] [] none exW).state 5 2 = some 15 ∧
    (opExchangeBatch noProbe .unsafe_ fo0 [] [2] [0] [] none exW).state.isLocked = false := by
  decide +kernel

/-- an add batch (`rem = []`) and a remove batch (`add = []`) in the same world -/
example :
    okVal (opExchangeBatch noProbe .typed fo0 [] [2] [] [] none exW) = some () ∧
    (List.range 7).map (fun i =>
      compsOf (opExchangeBatch noProbe .typed fo0 [] [2] [] [] none exW).state i) =
      [none, none, some [0, 2], some [0, 2], some [0, 1, 2], some [2], none] ∧
    valOf (opExchangeBatch noProbe .typed fo0 [] [2] [] [] none exW).state 3 0 = some 11 ∧
    valOf (opExchangeBatch noProbe .typed fo0 [] [2] [] [] none exW).state 3 2 = some 0 ∧
    okVal (opExchangeBatch noProbe .typed fo0 [] [] [0] [] none exW) = some () ∧
    (List.range 7).map (fun i =>
      compsOf (opExchangeBatch noProbe .typed fo0 [] [] [0] [] none exW).state i) =
      [none, none, some [], some [], some [1], some [2], none] := by
  decide +kernel

/-- with the callback (typed path; `fn` writes 5 into component 2 and 99 into the kept component
    1): same values as the three single `Exchange` calls; three callback records; the world is
    unlocked again -/
example :
    okVal (opExchangeBatch noProbe .typed fo0 [] [2] [0] [] (some [(2, 5), (1, 99)]) exW) = some () ∧
    okVal (exchangeSeq noProbe .typed [2] [0] [(2, 5), (1, 99)] (selEnts exW fo0.filter) exW) =
      some () ∧
    (List.range 7).map (fun i =>
      (valOf (opExchangeBatch noProbe .typed fo0 [] [2] [0] [] (some [(2, 5), (1, 99)]) exW).state i 2,
       valOf (opExchangeBatch noProbe .typed fo0 [] [2] [0] [] (some [(2, 5), (1, 99)]) exW).state i 1)) =
      [(none, none), (none, none), (some 5, none), (some 5, none), (some 5, some 99),
       (some 15, none), (none, none)] ∧
    (List.range 7).map (fun i =>
      (valOf (exchangeSeq noProbe .typed [2] [0] [(2, 5), (1, 99)] (selEnts exW fo0.filter) exW).state i 2,
       valOf (exchangeSeq noProbe .typed [2] [0] [(2, 5), (1, 99)] (selEnts exW fo0.filter) exW).state i 1)) =
      [(none, none), (none, none), (some 5, none), (some 5, none), (some 5, some 99),
       (some 15, none), (none, none)] ∧
    (opExchangeBatch noProbe .typed fo0 [] [2] [0] [] (some [(2, 5), (1, 99)]) exW).state.log.length = 3 ∧
    (batchEvents exW fo0.filter [0] (some [(2, 5), (1, 99)])).length = 3 ∧
    (exchangeSeq noProbe .typed [2] [0] [(2, 5), (1, 99)] (selEnts exW fo0.filter) exW).state.log.length = 0 ∧
    (opExchangeBatch noProbe .typed fo0 [] [2] [0] [] (some [(2, 5), (1, 99)]) exW).state.isLocked = false ∧
    -- what the callback saw for entity 4: component 2 (added) reads 0, component 1 (kept) reads 7
    [seenVal exW [0] ⟨4, 0⟩ 2, seenVal exW [0] ⟨4, 0⟩ 1, seenVal exW [0] ⟨4, 0⟩ 0] = [0, 7, 0] := by
  decide +kernel

/-- the precondition matters: if one selected table already has the added component the batch
    panics (`alreadyHas`).  Since the repair of defect D27 (`exchangeBatch` takes the world lock only
    AFTER the lookup loop, immediately before the first callback round) the call is rejected with
    the lock state exactly as before — the world is NOT left locked (before the repair the panic
    unwound past the `unlock`, which is not deferred, and every later structural call panicked
    `locked`) — and no entity is changed; the next structural operation is accepted.  General
    statement: `Ark.Props.C07Batch.exchangeBatch_panic_unlocked`. -/
example :
    okVal (opExchangeBatch noProbe .unsafe_ fo0 [] [1] [] [] none exW) = none ∧
    exW.isLocked = false ∧
    (opExchangeBatch noProbe .unsafe_ fo0 [] [1] [] [] none exW).state.isLocked = false ∧
    (opExchangeBatch noProbe .unsafe_ fo0 [] [1] [] [] none exW).state.locks = exW.locks ∧
    (opExchangeBatch noProbe .unsafe_ fo0 [] [1] [] [] none exW).state.entities = exW.entities ∧
    (List.range 7).map (fun i =>
      compsOf (opExchangeBatch noProbe .unsafe_ fo0 [] [1] [] [] none exW).state i) =
      (List.range 7).map (fun i => compsOf exW i) ∧
    okVal (opNewEntity0 noProbe
      (opExchangeBatch noProbe .unsafe_ fo0 [] [1] [] [] none exW).state) = some ⟨6, 0⟩ := by
  decide +kernel

/-- what a rejected batch does leave behind: the destination tables the lookup loop created for
    the EARLIER source tables before it panicked.  "All entities: remove 0" in `exW` — the table of
    `{0}` goes to the (existing) table of `{}`, for the table of `{0, 1}` archetype and table of
    `{1}` are created, the table of `{2}` fails the precondition (`missing`): one archetype and
    one table more than before; lock state, entity index, components and values of every entity
    as before. -/
example :
    (match opExchangeBatch noProbe .unsafe_ { filter := {} } [] [] [0] [] none exW with
      | .ok _ _ => none | .panic k _ => some k) = some PanicKind.missing ∧
    (opExchangeBatch noProbe .unsafe_ { filter := {} } [] [] [0] [] none exW).state.isLocked = false ∧
    (opExchangeBatch noProbe .unsafe_ { filter := {} } [] [] [0] [] none exW).state.locks = exW.locks ∧
    exW.tables.length = 4 ∧ exW.archetypes.length = 4 ∧
    (opExchangeBatch noProbe .unsafe_ { filter := {} } [] [] [0] [] none exW).state.tables.length = 5 ∧
    (opExchangeBatch noProbe .unsafe_ { filter := {} } [] [] [0] [] none exW).state.archetypes.length = 5 ∧
    (opExchangeBatch noProbe .unsafe_ { filter := {} } [] [] [0] [] none exW).state.entities =
      exW.entities ∧
    (List.range 7).map (fun i =>
      compsOf (opExchangeBatch noProbe .unsafe_ { filter := {} } [] [] [0] [] none exW).state i) =
      (List.range 7).map (fun i => compsOf exW i) ∧
    (List.range 7).map (fun i => (List.range 3).map fun c =>
      valOf (opExchangeBatch noProbe .unsafe_ { filter := {} } [] [] [0] [] none exW).state i c) =
      (List.range 7).map (fun i => (List.range 3).map fun c => valOf exW i c) := by
  decide +kernel

end Ark.Props.C06World
