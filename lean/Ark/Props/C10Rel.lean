/-
  Ark.Props.C10Rel — C10 ("precondition violations are rejected, not absorbed") for the RELATION
  ARGUMENTS of the single-entity operations, on EVERY access path.

  The Go library's `Unsafe.NewEntityRel / AddRel / Exchange / SetRelations` used to convert their
  `Relation` arguments unchecked (`ToRelationIDsForUnsafe`).  A relation for a component that is not
  added, not a relation component, or with a removed entity as target was then either caught late
  inside `createTable` — index out of range [-1] AFTER the archetype had been created: an archetype
  without tables, later queries crash and leak their lock (note N3 of the design document) — or,
  when the new archetype had no relation component, silently ignored (`GetTable` returns the only
  table; a removed entity named as target was accepted and flagged as relation target).
  The library was repaired (`ToCheckedRelationIDsForUnsafe`: target, relation component, membership
  among the added components); the model follows (`World.preCheck`, `Path.addCheck`,
  `Path.setRelCheck`), and this file states the consequence.  Proofs: `Ark/Proofs/PreCheck.lean`
  (the pre-validation is a pure verdict on the relation list: `preCheck_eq`), `Ark/Proofs/RelRejects.lean`.

  For ANY world `w` (no invariant is assumed; locked or not; with or without observers — the
  validation comes before the lock check and before anything is looked up or created), any access
  path `p` (`.unsafe_` = `Unsafe`, `.map1` = `Map[T]`, `.typed` = `MapN` / `ExchangeN`):

  * `*_refused` — the exact outcome: when the verdict on the relation list is `some k`
    (`relsVerdict`: the first relation, in list order, that names a removed entity as target →
    `deadTarget`, else a non-relation component → `notRelation`, else — not through `Map[T]` — a
    component that is not among the added / the mapper's components → `relNotInMask`), the call
    panics `k` and returns exactly the world it was called on;
  * `*_removed_target` — naming a removed entity (not the zero entity, not alive) as relation
    target: the call panics with the world unchanged, and the class is `deadTarget`, or that of an
    earlier check: `deadEntity` (`Add` through `Unsafe`/`Map`, `Exchange` through `Unsafe`: `Alive(e)`
    comes first), or the class of an earlier relation of the list;
  * `*_removed_target_exact` — … exactly `deadTarget` when the entity passes the `Alive` pre-check
    and the relations before the offending one pass;
  * `*_not_added` — naming a relation for a component that is not added (`NewEntity`, `Add` with at
    least one component, `Exchange`: through `Unsafe` and `MapN`/`ExchangeN`; `SetRelations`: a
    component that is not the mapper's, through `MapN`), with a target that is fine, after relations
    that pass: the call panics `relNotInMask`, the world unchanged.
  * §3: the former "N3" calls, run on a concrete world.

  Not changed by that repair: a relation component of the NEW archetype for which no relation is
  given, and a relation component named twice, are noticed by `GetTable` / `createTable` only —
  after the archetype was created when it did not exist (`Ark/Props/C04Hist.lean`, § 7 (b), (f));
  `Unsafe.AddRel(e, [], rels)` skips the membership check and is refused with `noComponents` by
  `World.add` (without effect).

  § 4, defect D26 (a SECOND repair of the library, `archetype.getTableSlowPath`): a relation list
  naming one relation component twice was ACCEPTED, on every path, whenever a matching table
  existed — the duplicate satisfied the count check `len(relations) < numRelations`,
  `MatchesExact` matched both entries against the same column, and the new entity got a target
  for another relation component that nobody had specified.  The repaired slow path panics
  "relation component %d specified more than once" (`relTwice`, the class `createTable` uses since
  D18) right after the count check: `newEntity_relTwice`, `add_relTwice` (the archetype exists,
  has relation columns and an active table: `relTwice`, the world unchanged),
  `lookup_accepted_names_no_component_twice`.  Proofs: `Ark/Proofs/RelTwice.lean`.  What remains
  late: without an active table `GetTable` answers "no table" before any check and `createTable`
  refuses the list after the archetype was created.
-/
import Ark.Proofs.RelRejects
import Ark.Proofs.RelTwice

set_option autoImplicit false

namespace Ark.Props.C10Rel
open Ark Ark.World

/-- the classes of the pre-validation of relation arguments -/
def RelClass (k : PanicKind) : Prop := k = .deadTarget ∨ k = .notRelation ∨ k = .relNotInMask

/-! ## 1. the exact outcome of a refused relation list -/

/-- **the pre-validation of every path is a pure verdict**: it never changes the world, and it
    refuses with the class of the first failing relation -/
theorem preCheck_is_verdict (p : Path) (ids : List Comp) (rels : List RelID) (w : World) :
    preCheck p ids rels w =
      match relsVerdict w (checkMask p ids) rels with
      | none => .ok () w
      | some k => .panic k w :=
  preCheck_eq p ids rels w

/-- a relation passes iff its target is the zero entity or alive, its component is a relation
    component and — if the path checks membership — among the required components -/
theorem relation_passes_iff {w : World} {m : Option Mask} {r : RelID} :
    relVerdict w m r = none ↔
      (r.target.isZero = true ∨ w.alive r.target = true) ∧ w.isRelComp r.comp = true ∧
      ∀ (mm : Mask), m = some mm → mm.get r.comp = true :=
  relVerdict_none_iff

theorem newEntity_refused : type_of% @opNewEntity_refused := @opNewEntity_refused
theorem add_refused : type_of% @opAdd_refused := @opAdd_refused
theorem exchange_refused : type_of% @opExchange_refused := @opExchange_refused
theorem setRelations_refused : type_of% @opSetRelations_refused := @opSetRelations_refused

/-! ## 2. a removed entity as relation target; a relation for a component that is not added -/

/-- **`NewEntity` naming a removed entity as relation target** (any path, any world): panic, the
    world unchanged; the class is `deadTarget` or that of an earlier relation of the list -/
theorem newEntity_removed_target (run : ProbeRunner) (p : Path) (ids : List Comp)
    (vals : List (Comp × Val)) (rels : List RelID) (w : World)
    (hd : ∃ (r : RelID), r ∈ rels ∧ Removed w r.target) :
    ∃ (k : PanicKind), RelClass k ∧ opNewEntity run p ids vals rels w = .panic k w := by
  obtain ⟨k, hk, hc⟩ := relsVerdict_removed w (checkMask p ids) hd
  exact ⟨k, hc, opNewEntity_refused run p ids vals rels w hk⟩

/-- … exactly `deadTarget` when the relations before it pass -/
theorem newEntity_removed_target_exact (run : ProbeRunner) (p : Path) (ids : List Comp)
    (vals : List (Comp × Val)) (pre : List RelID) (r : RelID) (post : List RelID) (w : World)
    (hpre : ∀ (x : RelID), x ∈ pre → relVerdict w (checkMask p ids) x = none)
    (hd : Removed w r.target) :
    opNewEntity run p ids vals (pre ++ r :: post) w = .panic .deadTarget w :=
  opNewEntity_refused run p ids vals _ w (relsVerdict_removed_first w _ pre r post hpre hd)

/-- **`NewEntity` naming a relation for a component that is not added** (`Unsafe`, `MapN`; also
    when no component is added at all), with a fine target, after relations that pass:
    `relNotInMask`, the world unchanged -/
theorem newEntity_not_added (run : ProbeRunner) (p : Path) (hp : p ≠ .map1) (ids : List Comp)
    (vals : List (Comp × Val)) (pre : List RelID) (r : RelID) (post : List RelID) (w : World)
    (hpre : ∀ (x : RelID), x ∈ pre → relVerdict w (checkMask p ids) x = none)
    (ht : r.target.isZero = true ∨ w.alive r.target = true) (hc : w.isRelComp r.comp = true)
    (hm : r.comp ∉ ids) :
    opNewEntity run p ids vals (pre ++ r :: post) w = .panic .relNotInMask w := by
  apply opNewEntity_refused
  have hmask : checkMask p ids = some (Mask.ofList ids) := by
    cases p <;> first | rfl | exact absurd rfl hp
  rw [hmask] at hpre ⊢
  exact relsVerdict_first pre r post hpre (relVerdict_notIn_list ht hc hm)

/-- **`Add` naming a removed entity as relation target** (any path, any world, any entity): panic,
    the world unchanged; the class is `deadTarget` or that of an earlier check — `deadEntity`
    (`Unsafe.AddRel` and `Map.AddRel` check `Alive(e)` first) or an earlier relation of the list -/
theorem add_removed_target (run : ProbeRunner) (p : Path) (e : Ent) (ids : List Comp)
    (vals : List (Comp × Val)) (rels : List RelID) (w : World)
    (hd : ∃ (r : RelID), r ∈ rels ∧ Removed w r.target) :
    ∃ (k : PanicKind), (k = .deadEntity ∨ RelClass k) ∧
      opAdd run p e ids vals rels w = .panic k w := by
  obtain ⟨k, hk, hc⟩ := relsVerdict_removed w (checkMask (p.addCheck ids) ids) hd
  by_cases ha : p = .typed ∨ w.alive e = true
  · exact ⟨k, Or.inr hc, opAdd_refused run p e ids vals rels w ha hk⟩
  · have hp : p ≠ .typed := fun h => ha (Or.inl h)
    have hdead : w.alive e = false := by
      cases h : w.alive e with
      | false => rfl
      | true => exact absurd (Or.inr h) ha
    exact ⟨.deadEntity, Or.inl rfl, opAdd_dead_first run p hp e ids vals rels w hdead⟩

/-- … exactly `deadTarget` when the entity passes the `Alive` pre-check of the path and the
    relations before the offending one pass -/
theorem add_removed_target_exact (run : ProbeRunner) (p : Path) (e : Ent) (ids : List Comp)
    (vals : List (Comp × Val)) (pre : List RelID) (r : RelID) (post : List RelID) (w : World)
    (ha : p = .typed ∨ w.alive e = true)
    (hpre : ∀ (x : RelID), x ∈ pre → relVerdict w (checkMask (p.addCheck ids) ids) x = none)
    (hd : Removed w r.target) :
    opAdd run p e ids vals (pre ++ r :: post) w = .panic .deadTarget w :=
  opAdd_refused run p e ids vals _ w ha (relsVerdict_removed_first w _ pre r post hpre hd)

/-- **`Add` naming a relation for a component that is not added** (`Unsafe` with at least one
    component, `MapN`), with a fine target, after relations that pass: `relNotInMask`, the world
    unchanged — also when the archetype `mask(e) ∪ ids` does not exist yet (the former "N3") -/
theorem add_not_added (run : ProbeRunner) (p : Path) (hp : p ≠ .map1) (e : Ent) (ids : List Comp)
    (hne : ids ≠ []) (vals : List (Comp × Val)) (pre : List RelID) (r : RelID) (post : List RelID)
    (w : World) (ha : p = .typed ∨ w.alive e = true)
    (hpre : ∀ (x : RelID), x ∈ pre → relVerdict w (some (Mask.ofList ids)) x = none)
    (ht : r.target.isZero = true ∨ w.alive r.target = true) (hc : w.isRelComp r.comp = true)
    (hm : r.comp ∉ ids) :
    opAdd run p e ids vals (pre ++ r :: post) w = .panic .relNotInMask w := by
  apply opAdd_refused run p e ids vals _ w ha
  have hmask : checkMask (p.addCheck ids) ids = some (Mask.ofList ids) := by
    rw [Path.addCheck_of_ne_nil p hne]
    cases p <;> first | rfl | exact absurd rfl hp
  rw [hmask]
  exact relsVerdict_first pre r post hpre (relVerdict_notIn_list ht hc hm)

/-- **`Exchange` naming a removed entity as relation target** (any path, any world, any entity):
    panic, the world unchanged; `deadTarget`, or `deadEntity` (`Unsafe.Exchange` checks `Alive(e)`
    first), or the class of an earlier relation of the list -/
theorem exchange_removed_target (run : ProbeRunner) (p : Path) (e : Ent) (add : List Comp)
    (vals : List (Comp × Val)) (rem : List Comp) (rels : List RelID) (w : World)
    (hd : ∃ (r : RelID), r ∈ rels ∧ Removed w r.target) :
    ∃ (k : PanicKind), (k = .deadEntity ∨ RelClass k) ∧
      opExchange run p e add vals rem rels w = .panic k w := by
  obtain ⟨k, hk, hc⟩ := relsVerdict_removed w (checkMask p add) hd
  by_cases ha : p ≠ .unsafe_ ∨ w.alive e = true
  · exact ⟨k, Or.inr hc, opExchange_refused run p e add vals rem rels w ha hk⟩
  · have hp : p = .unsafe_ := by
      cases p <;> first | rfl | exact absurd (Or.inl (by decide)) ha
    have hdead : w.alive e = false := by
      cases h : w.alive e with
      | false => rfl
      | true => exact absurd (Or.inr h) ha
    subst hp
    exact ⟨.deadEntity, Or.inl rfl, opExchange_dead_first run e add vals rem rels w hdead⟩

theorem exchange_removed_target_exact (run : ProbeRunner) (p : Path) (e : Ent) (add : List Comp)
    (vals : List (Comp × Val)) (rem : List Comp) (pre : List RelID) (r : RelID) (post : List RelID)
    (w : World) (ha : p ≠ .unsafe_ ∨ w.alive e = true)
    (hpre : ∀ (x : RelID), x ∈ pre → relVerdict w (checkMask p add) x = none)
    (hd : Removed w r.target) :
    opExchange run p e add vals rem (pre ++ r :: post) w = .panic .deadTarget w :=
  opExchange_refused run p e add vals rem _ w ha (relsVerdict_removed_first w _ pre r post hpre hd)

/-- **`Exchange` naming a relation for a component that is not added** (`Unsafe`, `ExchangeN`;
    in particular ANY relation of a pure removal), with a fine target, after relations that pass:
    `relNotInMask`, the world unchanged -/
theorem exchange_not_added (run : ProbeRunner) (p : Path) (hp : p ≠ .map1) (e : Ent)
    (add : List Comp) (vals : List (Comp × Val)) (rem : List Comp) (pre : List RelID) (r : RelID)
    (post : List RelID) (w : World) (ha : p ≠ .unsafe_ ∨ w.alive e = true)
    (hpre : ∀ (x : RelID), x ∈ pre → relVerdict w (some (Mask.ofList add)) x = none)
    (ht : r.target.isZero = true ∨ w.alive r.target = true) (hc : w.isRelComp r.comp = true)
    (hm : r.comp ∉ add) :
    opExchange run p e add vals rem (pre ++ r :: post) w = .panic .relNotInMask w := by
  apply opExchange_refused run p e add vals rem _ w ha
  have hmask : checkMask p add = some (Mask.ofList add) := by
    cases p <;> first | rfl | exact absurd rfl hp
  rw [hmask]
  exact relsVerdict_first pre r post hpre (relVerdict_notIn_list ht hc hm)

/-- **`SetRelations` naming a removed entity as relation target** (any path, any world, any
    entity — dead or alive: the relations are validated first): panic, the world unchanged;
    `deadTarget` or the class of an earlier relation of the list -/
theorem setRelations_removed_target (run : ProbeRunner) (p : Path) (e : Ent)
    (mapperIds : List Comp) (rels : List RelID) (w : World)
    (hd : ∃ (r : RelID), r ∈ rels ∧ Removed w r.target) :
    ∃ (k : PanicKind), RelClass k ∧ opSetRelations run p e mapperIds rels w = .panic k w := by
  obtain ⟨k, hk, hc⟩ := relsVerdict_removed w (checkMask p.setRelCheck mapperIds) hd
  exact ⟨k, hc, opSetRelations_refused run p e mapperIds rels w hk⟩

theorem setRelations_removed_target_exact (run : ProbeRunner) (p : Path) (e : Ent)
    (mapperIds : List Comp) (pre : List RelID) (r : RelID) (post : List RelID) (w : World)
    (hpre : ∀ (x : RelID), x ∈ pre → relVerdict w (checkMask p.setRelCheck mapperIds) x = none)
    (hd : Removed w r.target) :
    opSetRelations run p e mapperIds (pre ++ r :: post) w = .panic .deadTarget w :=
  opSetRelations_refused run p e mapperIds _ w
    (relsVerdict_removed_first w _ pre r post hpre hd)

/-- through `Unsafe` and `Map[T]`, `SetRelations` checks target and relation component only: a
    relation passes iff its target is zero or alive and its component is a relation component -/
theorem setRelations_unsafe_passes_iff (w : World) (mapperIds : List Comp) (r : RelID) :
    relVerdict w (checkMask Path.unsafe_.setRelCheck mapperIds) r = none ↔
      (r.target.isZero = true ∨ w.alive r.target = true) ∧ w.isRelComp r.comp = true := by
  show relVerdict w none r = none ↔ _
  rw [relVerdict_none_iff]
  exact ⟨fun h => ⟨h.1, h.2.1⟩, fun h => ⟨h.1, h.2, fun _ hh => by cases hh⟩⟩

/-- **`SetRelations` through `MapN` naming a relation for a component that is not the
    mapper's**: `relNotInMask`, the world unchanged -/
theorem setRelations_not_in_mapper (run : ProbeRunner) (e : Ent) (mapperIds : List Comp)
    (pre : List RelID) (r : RelID) (post : List RelID) (w : World)
    (hpre : ∀ (x : RelID), x ∈ pre → relVerdict w (some (Mask.ofList mapperIds)) x = none)
    (ht : r.target.isZero = true ∨ w.alive r.target = true) (hc : w.isRelComp r.comp = true)
    (hm : r.comp ∉ mapperIds) :
    opSetRelations run .typed e mapperIds (pre ++ r :: post) w = .panic .relNotInMask w :=
  opSetRelations_refused run .typed e mapperIds _ w
    (relsVerdict_first pre r post hpre (relVerdict_notIn_list ht hc hm))

/-! ## 3. the former "N3" calls, on a concrete world

Component 0 = `ChildOf` (a relation component), 1 = `Pos`, 2 = `Vel`.  Entities `x = 2.0` (alive, no
components), `e = 3.0` (alive, no components), `g = 4.0` (REMOVED), `h = 5.0` (alive, `Pos`).  The
archetypes that exist: `{}` and `{Pos}`; `{Vel}` does not exist yet. -/

def noRun : ProbeRunner := fun _ _ _ => pure ()

def x : Ent := ⟨2, 0⟩
def e : Ent := ⟨3, 0⟩
def g : Ent := ⟨4, 0⟩
def h : Ent := ⟨5, 0⟩

def n3 : World :=
  let w := World.init 2 2
  let w := (registerComponent { isRel := true } w).state
  let w := (registerComponent {} w).state
  let w := (registerComponent {} w).state
  let w := (opNewEntity noRun .unsafe_ [] [] [] w).state      -- x
  let w := (opNewEntity noRun .unsafe_ [] [] [] w).state      -- e
  let w := (opNewEntity noRun .unsafe_ [] [] [] w).state      -- g
  let w := (opNewEntity noRun .unsafe_ [1] [(1, 7)] [] w).state -- h
  (opRemoveEntity noRun g w).state

/-- the panic class of a call, if it panicked -/
def panicOf {α : Type} : Res World α → Option PanicKind
  | .ok _ _ => none
  | .panic k _ => some k

/-- table id, archetype, rows, free?, per-column relation targets -/
def summary (w : World) : List (Nat × Nat × Nat × Bool × List Ent) :=
  w.tables.map fun T => (T.id, T.arch, T.len, T.isFree, T.targets)

/-- the world: `x`, `e`, `h` alive, `g` removed (non-zero, not alive); two archetypes -/
example :
    (n3.alive x, n3.alive e, n3.alive h, n3.alive g, g.isZero) = (true, true, true, false, false) ∧
    Removed n3 g ∧
    n3.archetypes.length = 2 ∧ n3.isLocked = false ∧
    (n3.isRelComp 0, n3.isRelComp 1, n3.isRelComp 2) = (true, false, false) := by
  decide +kernel

/-- **N3**: `Unsafe.AddRel(e, [Vel], RelID(ChildOf, x))` — a relation for a component that is
    neither added nor present, a fine target, into the not-yet-existing archetype `{Vel}`.
    Before the repair: index out of range [-1] inside `createTable` AFTER the archetype had been
    created.  Now: `relNotInMask`, and the call returns exactly the world it was called on -/
example : opAdd noRun .unsafe_ e [2] [] [⟨0, x⟩] n3 = .panic .relNotInMask n3 :=
  add_not_added noRun .unsafe_ (by decide) e [2] (by decide) [] [] ⟨0, x⟩ [] n3
    (by decide +kernel) (fun _ hx => by cases hx) (by decide +kernel) (by decide +kernel)
    (by decide)

/-- … observed: the class, and no archetype, no table was added -/
example :
    panicOf (opAdd noRun .unsafe_ e [2] [] [⟨0, x⟩] n3) = some .relNotInMask ∧
    (opAdd noRun .unsafe_ e [2] [] [⟨0, x⟩] n3).state.archetypes.length = 2 ∧
    summary (opAdd noRun .unsafe_ e [2] [] [⟨0, x⟩] n3).state = summary n3 := by
  decide +kernel

/-- **N3, first relative**: `Unsafe.NewEntityRel([], RelID(ChildOf, g))` with `g` removed — the
    archetype `{}` exists and has no relation component.  Before the repair the call was accepted
    silently (`GetTable` returns the only table; `registerTargets` flagged the removed ID as a
    relation target).  Now: `deadTarget`, the world unchanged -/
example : opNewEntity noRun .unsafe_ [] [] [⟨0, g⟩] n3 = .panic .deadTarget n3 :=
  newEntity_removed_target_exact noRun .unsafe_ [] [] [] ⟨0, g⟩ [] n3
    (fun _ hx => by cases hx) (by decide +kernel)

/-- … with an alive target instead, the same call is refused because nothing is added that the
    relation could belong to: `relNotInMask` -/
example : opNewEntity noRun .unsafe_ [] [] [⟨0, x⟩] n3 = .panic .relNotInMask n3 :=
  newEntity_not_added noRun .unsafe_ (by decide) [] [] [] ⟨0, x⟩ [] n3
    (fun _ hx => by cases hx) (by decide +kernel) (by decide +kernel) (by decide)

/-- **N3, second relative**: `Unsafe.AddRel(e, [Pos], RelID(ChildOf, g))` into the EXISTING
    archetype `{Pos}` (no relation component), `g` removed: was accepted silently; now
    `deadTarget`, the world unchanged.  The same through `Unsafe.Exchange` and — where the entity
    has the relation component — … see `Props/C04Hist.lean` § 7 for `SetRelations` -/
example :
    opAdd noRun .unsafe_ e [1] [] [⟨0, g⟩] n3 = .panic .deadTarget n3 ∧
    opExchange noRun .unsafe_ e [1] [] [] [⟨0, g⟩] n3 = .panic .deadTarget n3 ∧
    opSetRelations noRun .unsafe_ e [] [⟨0, g⟩] n3 = .panic .deadTarget n3 :=
  ⟨add_removed_target_exact noRun .unsafe_ e [1] [] [] ⟨0, g⟩ [] n3 (by decide +kernel)
      (fun _ hx => by cases hx) (by decide +kernel),
   exchange_removed_target_exact noRun .unsafe_ e [1] [] [] [] ⟨0, g⟩ [] n3 (by decide +kernel)
      (fun _ hx => by cases hx) (by decide +kernel),
   setRelations_removed_target_exact noRun .unsafe_ e [] [] ⟨0, g⟩ [] n3
      (fun _ hx => by cases hx) (by decide +kernel)⟩

/-- the order of the checks, observed: on a removed ENTITY `Unsafe.AddRel` / `Unsafe.Exchange`
    say `deadEntity` before they look at the relations, `MapN.Add` looks at the relations first;
    `Unsafe.AddRel` with no components skips the membership check and is refused with
    `noComponents`; a pure removal through `Unsafe.Exchange` admits no relation; `SetRelations`
    through `Unsafe` has no membership check (here: the entity lacks the relation component) -/
example :
    [panicOf (opAdd noRun .unsafe_ g [1] [] [⟨0, g⟩] n3),
     panicOf (opExchange noRun .unsafe_ g [1] [] [] [⟨0, g⟩] n3),
     panicOf (opAdd noRun .typed g [1] [] [⟨0, g⟩] n3),
     panicOf (opAdd noRun .unsafe_ e [] [] [⟨0, x⟩] n3),
     panicOf (opExchange noRun .unsafe_ h [] [] [1] [⟨0, x⟩] n3),
     panicOf (opSetRelations noRun .unsafe_ e [] [⟨0, x⟩] n3),
     panicOf (opSetRelations noRun .unsafe_ e [] [⟨1, x⟩] n3)] =
    [some .deadEntity, some .deadEntity, some .deadTarget, some .noComponents,
     some .relNotInMask, some .noRelComponent, some .notRelation] := by
  decide +kernel

/-- a valid call is not affected: `Unsafe.AddRel(e, [ChildOf, Pos], RelID(ChildOf, x))` is
    accepted and `e` becomes a child of `x` -/
example :
    panicOf (opAdd noRun .unsafe_ e [0, 1] [(1, 9)] [⟨0, x⟩] n3) = none ∧
    ((opAdd noRun .unsafe_ e [0, 1] [(1, 9)] [⟨0, x⟩] n3).state.tbl
      ((opAdd noRun .unsafe_ e [0, 1] [(1, 9)] [⟨0, x⟩] n3).state.index e.id).1).targets =
      [x, Ent.zero] := by
  decide +kernel

/-! ## 4. defect D26, repaired: a relation component named twice when a matching table exists -/

/-- **`NewEntity` naming one relation component twice** (any path; the relations pass the
    pre-validation; the archetype of `ids` exists, has relation columns and an active table; the
    list is long enough for the count check): `relTwice`, the world unchanged -/
theorem newEntity_relTwice : type_of% @opNewEntity_relTwice := @opNewEntity_relTwice

/-- the same for `Add` on an alive entity (archetype `mask(e) ∪ ids`) -/
theorem add_relTwice : type_of% @opAdd_relTwice := @opAdd_relTwice

/-- at the level of the archetype: `GetTable` on an archetype with relation columns and an active
    table refuses a long-enough relation list naming a relation component twice -/
theorem getTable_relTwice : type_of% @getTable_rel_twice := @getTable_rel_twice

/-- **accepted ⇒ no relation component named twice**: the table lookup of `NewEntity` / `Add`
    into an archetype with relation columns succeeds only for a duplicate-free relation list —
    whether the table existed (`GetTable`, D26) or had to be created (`createTable`, D18) -/
theorem lookup_accepted_names_no_component_twice :
    type_of% @findOrCreateTableAdd_ok_nodup := @findOrCreateTableAdd_ok_nodup

/-- components 0 = `A`, 1 = `B` (both relation components); `x = 2.0`, `e = 3.0` (no components);
    `4.0` has `A → x`, `B → e` (table 1 of archetype 1 = `{A, B}`) -/
def d26 : World :=
  let w := World.init 2 2
  let w := (registerComponent { isRel := true } w).state
  let w := (registerComponent { isRel := true } w).state
  let w := (opNewEntity noRun .unsafe_ [] [] [] w).state      -- x = 2.0
  let w := (opNewEntity noRun .unsafe_ [] [] [] w).state      -- e = 3.0
  (opNewEntity noRun .typed [0, 1] [] [⟨0, x⟩, ⟨1, e⟩] w).state

example :
    summary d26 = [(0, 0, 2, false, []), (1, 1, 1, false, [x, e])] ∧
    d26.findArch ([0, 1].foldl Mask.set Mask.empty) = some 1 ∧
    ((d26.arch 1).hasRelations, (d26.arch 1).numRel, (d26.arch 1).tables.tables) = (true, 2, [1]) := by
  decide +kernel

/-- what the unrepaired slow path did with `NewEntity([A, B], A → x, A → x)`: the count check
    passes (2 relations for 2 relation components) and the scan of the tables listed under `A → x`
    finds table 1 (`A → x`, `B → e`) — `MatchesExact` compares both entries with column `A` —,
    so the entity was created there with `B → e` although nobody named a target for `B` -/
example :
    ((d26.tbl 1).matchesExact [⟨0, x⟩, ⟨0, x⟩] == .yes) = true ∧
    ¬ ((d26.arch 1).numRel > ([⟨0, x⟩, ⟨0, x⟩] : List RelID).length) ∧
    namedTwice [] [⟨0, x⟩, ⟨0, x⟩] = true := by
  decide +kernel

/-- **D26, repaired**: the call panics `relTwice` and returns exactly the world it was called on,
    through `MapN` (typed) and through `Unsafe` (the ID-based API) -/
example :
    opNewEntity noRun .typed [0, 1] [] [⟨0, x⟩, ⟨0, x⟩] d26 = .panic .relTwice d26 ∧
    opNewEntity noRun .unsafe_ [0, 1] [] [⟨0, x⟩, ⟨0, x⟩] d26 = .panic .relTwice d26 :=
  ⟨newEntity_relTwice noRun .typed [0, 1] [] [⟨0, x⟩, ⟨0, x⟩] d26 (a := 1) (by decide +kernel)
      (by decide +kernel) (by decide) (by decide +kernel) (by decide +kernel) (by decide +kernel)
      (by decide +kernel) (by decide +kernel),
   newEntity_relTwice noRun .unsafe_ [0, 1] [] [⟨0, x⟩, ⟨0, x⟩] d26 (a := 1) (by decide +kernel)
      (by decide +kernel) (by decide) (by decide +kernel) (by decide +kernel) (by decide +kernel)
      (by decide +kernel) (by decide +kernel)⟩

/-- … observed: class, no entity, no table, no archetype; the well-formed call is accepted and
    the new entity gets the targets named -/
example :
    panicOf (opNewEntity noRun .typed [0, 1] [] [⟨0, x⟩, ⟨0, x⟩] d26) = some .relTwice ∧
    panicOf (opNewEntity noRun .map1 [0, 1] [] [⟨0, x⟩, ⟨0, x⟩] d26) = some .relTwice ∧
    summary (opNewEntity noRun .typed [0, 1] [] [⟨0, x⟩, ⟨0, x⟩] d26).state = summary d26 ∧
    (opNewEntity noRun .typed [0, 1] [] [⟨0, x⟩, ⟨0, x⟩] d26).state.archetypes.length = 2 ∧
    panicOf (opNewEntity noRun .typed [0, 1] [] [⟨0, x⟩, ⟨1, e⟩] d26) = none ∧
    summary (opNewEntity noRun .typed [0, 1] [] [⟨0, x⟩, ⟨1, e⟩] d26).state =
      [(0, 0, 2, false, []), (1, 1, 2, false, [x, e])] := by
  refine ⟨?_, ?_, ?_, ?_, ?_, ?_⟩ <;> decide +kernel

/-- the same through `Add` (entity `e` has no components; `Add(e, [A, B], A → x, A → x)`):
    `relTwice`, the world unchanged -/
example : opAdd noRun .unsafe_ e [0, 1] [] [⟨0, x⟩, ⟨0, x⟩] d26 = .panic .relTwice d26 :=
  add_relTwice noRun .unsafe_ e [0, 1] [] [⟨0, x⟩, ⟨0, x⟩] d26 (a := 1) (by decide +kernel)
    (by decide +kernel) (by decide +kernel) (by decide) (by decide +kernel) (by decide)
    (by decide +kernel) (by decide +kernel) (by decide +kernel) (by decide +kernel)
    (by decide +kernel)

/-- what remains LATE (not without effect): the same malformed list into an archetype that does
    not exist yet — here `{A}` — is answered "no table" by `GetTable` before any check, and
    `createTable` refuses it (`relTwice`, D18) after the archetype was created -/
example :
    panicOf (opNewEntity noRun .typed [0] [] [⟨0, x⟩, ⟨0, x⟩] d26) = some .relTwice ∧
    (d26.archetypes.length,
      (opNewEntity noRun .typed [0] [] [⟨0, x⟩, ⟨0, x⟩] d26).state.archetypes.length) = (2, 3) ∧
    summary (opNewEntity noRun .typed [0] [] [⟨0, x⟩, ⟨0, x⟩] d26).state = summary d26 := by
  refine ⟨?_, ?_, ?_⟩ <;> decide +kernel

end Ark.Props.C10Rel
